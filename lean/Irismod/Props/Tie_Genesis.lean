/-
Tie between the genesis models (C12) and /repo's `InitGenesis` functions, over the REGENERATED translation
`Gen/PureGenesis.lean` (`extract/x_pure`, every run): the assertions the HTLC import makes on every stored supply
record, and the sequences the MT, coinswap and farm imports restore, are what `HtlcGen.checkSupply`,
`MtGenesis.importInfos` / `importMts` and the coinswap / farm genesis models compute — the places the seeded changes
C12-2, C12-5, C15-6 and C01-6 edited.
-/
import Irismod.Gen.PureGenesis
import Irismod.Model.HtlcGenesis
import Irismod.Model.MtGenesis
import Irismod.Proofs.GoSemLemmas
namespace Irismod.Props.Tie
open Irismod.GoSem Irismod.Gen.PureGenesis

theorem genesis_all_translated : Irismod.Gen.PureGenesis.untranslated = [] := rfl

theorem genesis_translated_pinned : Irismod.Gen.PureGenesis.translated =
    ["HtlcInitGenesis_cond_1(htlc_State)",
     "HtlcInitGenesis_cond_2(htlc_Transfer)",
     "HtlcInitGenesis_cond_3(supply_IncomingSupply,incomingSupply)",
     "HtlcInitGenesis_cond_4(supply_OutgoingSupply,outgoingSupply)",
     "HtlcInitGenesis_cond_5(supply_CurrentSupply,limit_Limit)",
     "HtlcInitGenesis_cond_6(supply_IncomingSupply,limit_Limit)",
     "HtlcInitGenesis_cond_7(supply_IncomingSupply,supply_CurrentSupply,limit_Limit)",
     "HtlcInitGenesis_cond_8(supply_OutgoingSupply,limit_Limit)",
     "MtInitGenesis_call_SetDenomSequence_1_arg1(read_len_data_Collections)",
     "MtInitGenesis_mtSequence_1(mtSequence)",
     "MtInitGenesis_call_SetMTSequence_1_arg1(mtSequence)",
     "CoinswapInitGenesis_call_setSequence_1_arg1(genState_Sequence)",
     "FarmInitGenesis_cond_1(read_ctx_BlockHeight,pool_EndHeight)",
     "FarmInitGenesis_call_SetSequence_1_arg1(data_Sequence)"] := rfl

/-- every rejecting guard (an `if` ending in the return of an error, or in a panic) of the translated functions and of
the handlers around them, as source text in source order: removing, weakening or reordering one breaks this -/
theorem genesis_guards_pinned : Irismod.Gen.PureGenesis.guards =
    ["HtlcInitGenesis: err := types.ValidateGenesis(data); err != nil",
     "HtlcInitGenesis: err := k.SetParams(ctx, data.Params); err != nil",
     "HtlcInitGenesis: id, err := hex.DecodeString(htlc.Id); err != nil",
     "HtlcInitGenesis: htlc.State != types.Open",
     "HtlcInitGenesis: err := k.ValidateLiveAsset(ctx, htlc.Amount[0]); err != nil",
     "HtlcInitGenesis: !supply.IncomingSupply.Amount.Equal(incomingSupply)",
     "HtlcInitGenesis: !supply.OutgoingSupply.Amount.Equal(outgoingSupply)",
     "HtlcInitGenesis: limit, err := k.GetSupplyLimit(ctx, supply.CurrentSupply.Denom); err != nil",
     "HtlcInitGenesis: supply.CurrentSupply.Amount.GT(limit.Limit)",
     "HtlcInitGenesis: supply.IncomingSupply.Amount.GT(limit.Limit)",
     "HtlcInitGenesis: supply.IncomingSupply.Amount.Add(supply.CurrentSupply.Amount).GT(limit.Limit)",
     "HtlcInitGenesis: supply.OutgoingSupply.Amount.GT(limit.Limit)",
     "MtInitGenesis: err := types.ValidateGenesis(data); err != nil",
     "MtInitGenesis: addr, err := sdk.AccAddressFromBech32(o.Address); err != nil",
     "MtInitGenesis: err := k.IncreaseMTSupply(ctx, d.DenomId, b.MtId, b.Amount); err != nil",
     "MtInitGenesis: err := k.AddBalance(ctx, d.DenomId, b.MtId, b.Amount, addr); err != nil",
     "CoinswapInitGenesis: err := types.ValidateGenesis(genState); err != nil",
     "CoinswapInitGenesis: err := k.SetParams(ctx, genState.Params); err != nil",
     "FarmInitGenesis: err := types.ValidateGenesis(data); err != nil",
     "FarmInitGenesis: !exist",
     "FarmInitGenesis: err := k.SetParams(ctx, data.Params); err != nil"] := rfl

/-- every statement of these functions executed for its effect — a call whose result is dropped (store and bank
writes, queue moves, hooks) or a write to a record field — with its nesting depth, in source order: a write that is
dropped, duplicated, reordered or moved into or out of a branch breaks this -/
theorem genesis_effects_pinned : Irismod.Gen.PureGenesis.effects =
    ["HtlcInitGenesis: d0 k.SetPreviousBlockTime(ctx, data.PreviousBlockTime)",
     "HtlcInitGenesis: d1 k.SetAssetSupply(ctx, supply, supply.CurrentSupply.Denom)",
     "HtlcInitGenesis: d2 k.SetHTLC(ctx, htlc, id)",
     "HtlcInitGenesis: d2 k.AddHTLCToExpiredQueue(ctx, htlc.ExpirationHeight, id)",
     "HtlcInitGenesis: d1 k.SetHTLC(ctx, htlc, id)",
     "HtlcInitGenesis: d1 k.AddHTLCToExpiredQueue(ctx, htlc.ExpirationHeight, id)",
     "MtInitGenesis: d0 k.SetDenomSequence(ctx, uint64(len(data.Collections)+1))",
     "MtInitGenesis: d1 k.SetDenom(ctx, *c.Denom)",
     "MtInitGenesis: d2 k.IncreaseDenomSupply(ctx, c.Denom.Id)",
     "MtInitGenesis: d2 k.SetMT(ctx, c.Denom.Id, m)",
     "MtInitGenesis: d0 k.SetMTSequence(ctx, mtSequence)",
     "CoinswapInitGenesis: d0 k.SetStandardDenom(ctx, genState.StandardDenom)",
     "CoinswapInitGenesis: d0 k.setSequence(ctx, genState.Sequence)",
     "CoinswapInitGenesis: d1 k.setPool(ctx, &poolCopy)",
     "FarmInitGenesis: d2 k.SetRewardRule(ctx, pool.Id, r)",
     "FarmInitGenesis: d1 k.SetPool(ctx, pool)",
     "FarmInitGenesis: d2 k.EnqueueActivePool(ctx, pool.Id, pool.EndHeight)",
     "FarmInitGenesis: d1 k.SetFarmInfo(ctx, farmInfo)",
     "FarmInitGenesis: d1 k.SetEscrowInfo(ctx, info)",
     "FarmInitGenesis: d0 k.SetSequence(ctx, data.Sequence)"] := rfl

/-- HTLC `InitGenesis`: a stored supply record aborts the import exactly when one of the six comparisons the model's
`checkSupply` makes fails (recorded incoming / outgoing ≠ the tallies of the open transfers; current, incoming, their
sum or outgoing above the limit) -/
theorem htlc_supply_assertions_eq_model (d : String) (inc out cur tin tout lim : Nat) (hsum : inc + cur < Irismod.Sdk.pow2_256) :
    (HtlcInitGenesis_cond_3 ⟨d, inc⟩ tin >>= fun c3 => HtlcInitGenesis_cond_4 ⟨d, out⟩ tout >>= fun c4 =>
     HtlcInitGenesis_cond_5 ⟨d, cur⟩ lim >>= fun c5 => HtlcInitGenesis_cond_6 ⟨d, inc⟩ lim >>= fun c6 =>
     HtlcInitGenesis_cond_7 ⟨d, inc⟩ ⟨d, cur⟩ lim >>= fun c7 => HtlcInitGenesis_cond_8 ⟨d, out⟩ lim >>= fun c8 =>
     some (!(c3 || c4 || c5 || c6 || c7 || c8))) =
      some ((inc == tin) && (out == tout) && decide (cur ≤ lim) && decide (inc ≤ lim) && decide (inc + cur ≤ lim) &&
            decide (out ≤ lim)) := by
  unfold HtlcInitGenesis_cond_3 HtlcInitGenesis_cond_4 HtlcInitGenesis_cond_5 HtlcInitGenesis_cond_6
    HtlcInitGenesis_cond_7 HtlcInitGenesis_cond_8
  simp only [Int_Add_nat, hsum, if_true, obind_some, Int_Equal, Int_GT, Int.ofNat_lt, Int.natCast_inj]
  congr 1
  rw [Bool.eq_iff_iff]
  simp only [Bool.not_eq_true', Bool.or_eq_false_iff, Bool.and_eq_true, decide_eq_true_eq, decide_eq_false_iff_not,
    beq_iff_eq, Bool.not_eq_false', Nat.not_lt, Bool.not_eq_eq_eq_not, Bool.not_true, Bool.not_false]

/-- only open contracts are imported, and plain ones take the first branch -/
theorem htlc_import_branches (st : Int) (transfer : Bool) :
    HtlcInitGenesis_cond_1 st = some (st != 0) ∧ HtlcInitGenesis_cond_2 transfer = some (!transfer) := ⟨rfl, rfl⟩

/-- MT `InitGenesis`: the next class sequence is the number of imported classes + 1 and the next token sequence grows
by one per imported token from 1 (`MtGenesis.importInfos`, `importMts`), for sizes a genesis document can have -/
theorem mt_sequences_eq_model (n : Nat) (seq : UInt64) (hn : n < 9223372036854775807) :
    MtInitGenesis_call_SetDenomSequence_1_arg1 n = some (UInt64.ofNat (n + 1)).toNat ∧
    MtInitGenesis_mtSequence_1 seq.toNat = some (seq + 1).toNat ∧
    MtInitGenesis_call_SetMTSequence_1_arg1 seq.toNat = some seq.toNat := by
  refine ⟨?_, ?_, rfl⟩
  · unfold MtInitGenesis_call_SetDenomSequence_1_arg1
    apply congrArg some
    have h1 : I64_Add (n : Int) 1 = (n : Int) + 1 := by
      unfold I64_Add I64_wrap
      show ((n : Int) + 1 + 9223372036854775808) % 18446744073709551616 - 9223372036854775808 = _
      omega
    rw [h1]
    unfold U64_ofI64
    show (((n : Int) + 1) % 18446744073709551616).toNat = _
    have h2 : (UInt64.ofNat (n + 1)).toNat = (n + 1) % 18446744073709551616 := by
      simp [UInt64.toNat_ofNat']
    rw [h2]
    omega
  · unfold MtInitGenesis_mtSequence_1 U64_Add
    rw [UInt64.toNat_add]; rfl

/-- coinswap and farm `InitGenesis` store the exported sequence as it is -/
theorem stored_sequences (n : Nat) :
    CoinswapInitGenesis_call_setSequence_1_arg1 n = some n ∧ FarmInitGenesis_call_SetSequence_1_arg1 n = some n :=
  ⟨rfl, rfl⟩

end Irismod.Props.Tie
