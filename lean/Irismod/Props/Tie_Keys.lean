/-
Store keys, tied to the source: `Gen/PureKeys.lean` is REGENERATED on every run by `extract/x_pure` from the key
constructors of `modules/*/types/keys.go` (whole functions; the package-level prefix bytes are read from their
declarations).  The theorems here state, for every argument, what the tables' iterators and look-ups rely on:

* layout — each key is the byte string the model's tables assume (prefix byte, fields, delimiter, in this order);
* a queue key is its height subspace followed by the id, so the blockers' prefix iteration over the subspace of a
  height meets exactly the keys filed under that height (C13; C05/C06 active pools and reward rules; C04 expiry
  queue; C08 batch queues; C18 request queue);
* look-up keys are injective in the id (two ids never share a slot: C03, C18, C19, C08);
* the tables of one module start with different bytes (no key of one table is read as a key of another);
* the big-endian height encoding is injective (`fromBE_be`: decoding gives the number back), so a queue key filed under
  one height never lies in the subspace the blocker iterates for another height (`*_height_separated`).

Changing the order of the fields, dropping the delimiter, reusing a prefix byte or building the subspace differently
from the key breaks one of these (old seeds C17-3, C17-5, C06-6, C18-5).
-/
import Irismod.Gen.PureKeys

namespace Irismod.Props.TieKeys
open Irismod.GoSem Irismod.Gen.PureKeys

theorem keys_all_translated : Irismod.Gen.PureKeys.untranslated = [] := rfl
theorem keys_translated_pinned : Irismod.Gen.PureKeys.translated =
    ["OracleGetFeedKey(feedName)",
     "OracleGetReqCtxIDKey(requestContextID)",
     "OracleGetFeedValuePrefixKey(feedName)",
     "OracleGetFeedValueKey(feedName,batchCounter)",
     "RandomKeyRandom(reqID)",
     "RandomKeyRequestQueue(height,reqID)",
     "RandomKeyRequestQueueSubspace(height)",
     "RandomKeyOracleRequest(requestContextID)",
     "FarmKeyFarmPool(poolId)",
     "FarmKeyRewardRule(poolId,reward)",
     "FarmPrefixRewardRule(poolId)",
     "FarmKeyFarmInfo(address,poolId)",
     "FarmPrefixFarmInfo(address)",
     "FarmKeyActiveFarmPool(height,poolId)",
     "FarmPrefixActiveFarmPool(height)",
     "FarmKeyEscrowInfo(proposalId)",
     "HtlcGetHTLCKey(id)",
     "HtlcGetHTLCExpiredQueueKey(expirationHeight,id)",
     "HtlcGetHTLCExpiredQueueSubspace(expirationHeight)",
     "HtlcGetAssetSupplyKey(denom)",
     "MtKeyDenom(id,Delimiter)",
     "ServiceGetServiceDefinitionKey(serviceName)",
     "ServiceGetServiceBindingKey(serviceName,provider,read_getStringsKey__string)",
     "ServiceGetRequestContextKey(requestContextID)",
     "ServiceGetExpiredRequestBatchKey(requestContextID,batchExpirationHeight)",
     "ServiceGetNewRequestBatchKey(requestContextID,requestBatchHeight)",
     "ServiceGetExpiredRequestBatchSubspace(batchExpirationHeight)",
     "ServiceGetNewRequestBatchSubspace(requestBatchHeight)",
     "ServiceGetExpiredRequestBatchHeightKey(requestContextID)",
     "ServiceGetNewRequestBatchHeightKey(requestContextID)",
     "ServiceGetRequestKey(requestID)",
     "ServiceGetActiveRequestKeyByID(requestID)",
     "ServiceGetResponseKey(requestID)",
     "ServiceGetEarnedFeesKey(provider,denom,read_provider_Bytes)",
     "ServiceGetEarnedFeesSubspace(provider,read_provider_Bytes)",
     "ServiceGetOwnerEarnedFeesKey(owner,denom,read_owner_Bytes)",
     "ServiceGetOwnerEarnedFeesSubspace(owner,read_owner_Bytes)",
     "RecordGetRecordKey(recordID)",
     "TokenKeySymbol(symbol)",
     "TokenKeyMinUint(minUnit)",
     "TokenKeyContract(contract,read_common_HexToAddress_contract_Bytes)",
     "TokenKeyTokens(owner,symbol,read_owner_Bytes)",
     "TokenKeyBurnTokenAmt(minUint)",
     "CoinswapGetPoolKey(pooId,read_fmt_Sprintf_ss_KeyPool_pooId)",
     "CoinswapGetLptDenomKey(lptDenom,read_fmt_Sprintf_ss_KeyPoolLptDenom_lptDenom)"] := rfl

theorem keys_guards_pinned : Irismod.Gen.PureKeys.guards =
    [] := rfl

/-- every statement of these functions executed for its effect — a call whose result is dropped (store and bank
writes, queue moves, hooks) or a write to a record field — with its nesting depth, in source order: a write that is
dropped, duplicated, reordered or moved into or out of a branch breaks this -/
theorem keys_effects_pinned : Irismod.Gen.PureKeys.effects =
    ["OracleGetFeedValueKey: d0 binary.BigEndian.PutUint64(key, batchCounter)"] := rfl

/-- one prefix byte -/
abbrev P (b : UInt8) : ByteArray := ByteArray.mk #[b]
/-- `sdk.Uint64ToBigEndian(uint64(h))` of an int64 height -/
abbrev be (h : Int) : ByteArray := Uint64ToBigEndian (U64_ofI64 h)

/-! ### layouts -/

theorem random_layout (h : Int) (id : ByteArray) :
    RandomKeyRandom id = some (P 1 ++ id) ∧
    RandomKeyRequestQueue h id = some (P 2 ++ be h ++ id) ∧
    RandomKeyRequestQueueSubspace h = some (P 2 ++ be h) ∧
    RandomKeyOracleRequest id = some (P 3 ++ id) := ⟨rfl, rfl, rfl, rfl⟩

theorem oracle_layout (name : String) (id : ByteArray) :
    OracleGetFeedKey name = some (P 1 ++ P 0 ++ name.toUTF8) ∧
    OracleGetReqCtxIDKey id = some (P 2 ++ P 0 ++ id) ∧
    OracleGetFeedValuePrefixKey name = some (P 3 ++ name.toUTF8 ++ P 0) := ⟨rfl, rfl, rfl⟩

/-- a feed value is filed under the feed's name, the delimiter, then the batch counter big-endian (so the values of one
feed are iterated in batch order and `deleteOldestFeedValue` meets the smallest counter first) -/
theorem oracle_value_layout (name : String) (n : Nat) :
    OracleGetFeedValueKey name n = some (P 3 ++ name.toUTF8 ++ P 0 ++ Uint64ToBigEndian n) := rfl

theorem farm_layout (pool reward addr : String) (h : Int) (pid : Nat) :
    FarmKeyFarmPool pool = some (P 6 ++ pool.toUTF8) ∧
    FarmKeyRewardRule pool reward = some (P 2 ++ pool.toUTF8 ++ P 0 ++ reward.toUTF8) ∧
    FarmPrefixRewardRule pool = some (P 2 ++ pool.toUTF8 ++ P 0) ∧
    FarmKeyFarmInfo addr pool = some (P 3 ++ addr.toUTF8 ++ pool.toUTF8) ∧
    FarmPrefixFarmInfo addr = some (P 3 ++ addr.toUTF8) ∧
    FarmKeyActiveFarmPool h pool = some (P 4 ++ be h ++ pool.toUTF8) ∧
    FarmPrefixActiveFarmPool h = some (P 4 ++ be h) ∧
    FarmKeyEscrowInfo pid = some (P 7 ++ Uint64ToBigEndian pid) := ⟨rfl, rfl, rfl, rfl, rfl, rfl, rfl, rfl⟩

theorem htlc_layout (id : ByteArray) (h : Nat) (denom : String) :
    HtlcGetHTLCKey id = some (P 1 ++ id) ∧
    HtlcGetHTLCExpiredQueueKey h id = some (P 2 ++ Uint64ToBigEndian h ++ id) ∧
    HtlcGetHTLCExpiredQueueSubspace h = some (P 2 ++ Uint64ToBigEndian h) ∧
    HtlcGetAssetSupplyKey denom = some (P 3 ++ denom.toUTF8) := ⟨rfl, rfl, rfl, rfl⟩

theorem service_layout (ctx req : ByteArray) (h : Int) :
    ServiceGetRequestContextKey ctx = some (P 8 ++ ctx) ∧
    ServiceGetExpiredRequestBatchKey ctx h = some (P 9 ++ (be h ++ ctx)) ∧
    ServiceGetExpiredRequestBatchSubspace h = some (P 9 ++ be h) ∧
    ServiceGetNewRequestBatchKey ctx h = some (P 16 ++ (be h ++ ctx)) ∧
    ServiceGetNewRequestBatchSubspace h = some (P 16 ++ be h) ∧
    ServiceGetExpiredRequestBatchHeightKey ctx = some (P 17 ++ ctx) ∧
    ServiceGetNewRequestBatchHeightKey ctx = some (P 18 ++ ctx) ∧
    ServiceGetRequestKey req = some (P 19 ++ req) ∧
    ServiceGetActiveRequestKeyByID req = some (P 21 ++ req) ∧
    ServiceGetResponseKey req = some (P 22 ++ req) := ⟨rfl, rfl, rfl, rfl, rfl, rfl, rfl, rfl, rfl, rfl⟩

theorem record_token_layout (id : ByteArray) (s : String) :
    RecordGetRecordKey id = some (P 1 ++ id) ∧
    TokenKeySymbol s = some (P 1 ++ s.toUTF8) ∧
    TokenKeyMinUint s = some (P 2 ++ s.toUTF8) ∧
    TokenKeyBurnTokenAmt s = some (P 4 ++ s.toUTF8) := ⟨rfl, rfl, rfl, rfl⟩

/-! ### a queue key is its subspace followed by the id -/

theorem append_assoc' (a b c : ByteArray) : a ++ (b ++ c) = a ++ b ++ c := by
  apply ByteArray.ext
  simp only [ByteArray.data_append, Array.append_assoc]

theorem random_queue_in_subspace (h : Int) (id : ByteArray) :
    RandomKeyRequestQueue h id = (RandomKeyRequestQueueSubspace h).map (· ++ id) := rfl

theorem oracle_value_in_subspace (name : String) (n : Nat) :
    OracleGetFeedValueKey name n = (OracleGetFeedValuePrefixKey name).map (· ++ Uint64ToBigEndian n) := rfl

theorem farm_active_in_subspace (h : Int) (pool : String) :
    FarmKeyActiveFarmPool h pool = (FarmPrefixActiveFarmPool h).map (· ++ pool.toUTF8) := rfl

theorem farm_rule_in_subspace (pool reward : String) :
    FarmKeyRewardRule pool reward = (FarmPrefixRewardRule pool).map (· ++ reward.toUTF8) := rfl

theorem farm_info_in_subspace (addr pool : String) :
    FarmKeyFarmInfo addr pool = (FarmPrefixFarmInfo addr).map (· ++ pool.toUTF8) := rfl

theorem htlc_expired_in_subspace (h : Nat) (id : ByteArray) :
    HtlcGetHTLCExpiredQueueKey h id = (HtlcGetHTLCExpiredQueueSubspace h).map (· ++ id) := rfl

theorem service_expired_batch_in_subspace (ctx : ByteArray) (h : Int) :
    ServiceGetExpiredRequestBatchKey ctx h = (ServiceGetExpiredRequestBatchSubspace h).map (· ++ ctx) := by
  rw [(service_layout ctx ctx h).2.1, (service_layout ctx ctx h).2.2.1, append_assoc']; rfl

theorem service_new_batch_in_subspace (ctx : ByteArray) (h : Int) :
    ServiceGetNewRequestBatchKey ctx h = (ServiceGetNewRequestBatchSubspace h).map (· ++ ctx) := by
  rw [(service_layout ctx ctx h).2.2.2.1, (service_layout ctx ctx h).2.2.2.2.1, append_assoc']; rfl

/-! ### look-up keys are injective in the id -/

theorem append_left_cancel (p x y : ByteArray) (h : p ++ x = p ++ y) : x = y := by
  have := congrArg ByteArray.data h
  simp only [ByteArray.data_append] at this
  exact ByteArray.ext (Array.append_right_inj .. |>.mp this)

theorem some_append_inj {p x y : ByteArray} (h : some (p ++ x) = some (p ++ y)) : x = y :=
  append_left_cancel p x y (Option.some.inj h)

theorem htlc_key_injective (a b : ByteArray) (h : HtlcGetHTLCKey a = HtlcGetHTLCKey b) : a = b := some_append_inj h
theorem random_key_injective (a b : ByteArray) (h : RandomKeyRandom a = RandomKeyRandom b) : a = b := some_append_inj h
theorem random_oracle_key_injective (a b : ByteArray) (h : RandomKeyOracleRequest a = RandomKeyOracleRequest b) : a = b :=
  some_append_inj h
theorem random_queue_key_injective (ht : Int) (a b : ByteArray) (h : RandomKeyRequestQueue ht a = RandomKeyRequestQueue ht b) :
    a = b := some_append_inj h
theorem htlc_expired_key_injective (ht : Nat) (a b : ByteArray)
    (h : HtlcGetHTLCExpiredQueueKey ht a = HtlcGetHTLCExpiredQueueKey ht b) : a = b := some_append_inj h
theorem record_key_injective (a b : ByteArray) (h : RecordGetRecordKey a = RecordGetRecordKey b) : a = b := some_append_inj h
theorem service_context_key_injective (a b : ByteArray) (h : ServiceGetRequestContextKey a = ServiceGetRequestContextKey b) :
    a = b := some_append_inj h
theorem service_request_key_injective (a b : ByteArray) (h : ServiceGetRequestKey a = ServiceGetRequestKey b) : a = b :=
  some_append_inj h
theorem service_response_key_injective (a b : ByteArray) (h : ServiceGetResponseKey a = ServiceGetResponseKey b) : a = b :=
  some_append_inj h
theorem oracle_reqctx_key_injective (a b : ByteArray) (h : OracleGetReqCtxIDKey a = OracleGetReqCtxIDKey b) : a = b :=
  some_append_inj h

/-! ### the tables of one module start with different bytes -/

def first (k : Option ByteArray) : Option UInt8 := k.bind fun b => b.data[0]?

theorem head_singleton_append (b : UInt8) (a : Array UInt8) : (#[b] ++ a)[0]? = some b := by
  rw [Array.getElem?_append_left (by simp)]; simp

theorem first_P (b : UInt8) (x : ByteArray) : first (some (P b ++ x)) = some b := by
  simp only [first, Option.bind_some, ByteArray.data_append]; exact head_singleton_append b _

theorem first_P2 (b : UInt8) (x y : ByteArray) : first (some (P b ++ x ++ y)) = some b := by
  simp only [first, Option.bind_some, ByteArray.data_append, Array.append_assoc]; exact head_singleton_append b _

theorem random_tables_disjoint (h : Int) (a b c : ByteArray) :
    first (RandomKeyRandom a) = some 1 ∧ first (RandomKeyRequestQueue h b) = some 2 ∧
    first (RandomKeyOracleRequest c) = some 3 :=
  ⟨first_P 1 a, first_P2 2 (be h) b, first_P 3 c⟩

theorem htlc_tables_disjoint (h : Nat) (a b : ByteArray) (d : String) :
    first (HtlcGetHTLCKey a) = some 1 ∧ first (HtlcGetHTLCExpiredQueueKey h b) = some 2 ∧
    first (HtlcGetAssetSupplyKey d) = some 3 :=
  ⟨first_P 1 a, first_P2 2 _ b, first_P 3 _⟩

theorem farm_tables_disjoint (pool addr : String) (h : Int) (pid : Nat) :
    first (FarmKeyFarmPool pool) = some 6 ∧ first (FarmPrefixRewardRule pool) = some 2 ∧
    first (FarmKeyFarmInfo addr pool) = some 3 ∧ first (FarmKeyActiveFarmPool h pool) = some 4 ∧
    first (FarmKeyEscrowInfo pid) = some 7 :=
  ⟨first_P 6 _, first_P2 2 _ _, first_P2 3 _ _, first_P2 4 _ _, first_P 7 _⟩

theorem oracle_tables_disjoint (name : String) (id : ByteArray) :
    first (OracleGetFeedKey name) = some 1 ∧ first (OracleGetReqCtxIDKey id) = some 2 ∧
    first (OracleGetFeedValuePrefixKey name) = some 3 :=
  ⟨first_P2 1 _ _, first_P2 2 _ _, first_P2 3 _ _⟩

/-! ### heights: the big-endian encoding is injective, so the subspaces of two heights share no key -/

/-- the number a big-endian byte string denotes -/
def fromBE (b : ByteArray) : Nat := b.data.toList.foldl (fun a x => a * 256 + x.toNat) 0

theorem be_data (n : Nat) : (Uint64ToBigEndian n).data.toList =
    [UInt8.ofNat ((n >>> 56) % 256), UInt8.ofNat ((n >>> 48) % 256), UInt8.ofNat ((n >>> 40) % 256), UInt8.ofNat ((n >>> 32) % 256),
     UInt8.ofNat ((n >>> 24) % 256), UInt8.ofNat ((n >>> 16) % 256), UInt8.ofNat ((n >>> 8) % 256), UInt8.ofNat ((n >>> 0) % 256)] := rfl

theorem toNat_ofNat_mod (x : Nat) : (UInt8.ofNat (x % 256)).toNat = x % 256 := by
  simp [UInt8.toNat_ofNat']

/-- decoding the encoding of a uint64 gives it back -/
theorem fromBE_be (n : Nat) (h : n < 18446744073709551616) : fromBE (Uint64ToBigEndian n) = n := by
  unfold fromBE
  rw [be_data]
  simp only [List.foldl, toNat_ofNat_mod, Nat.shiftRight_eq_div_pow]
  omega

theorem be_injective (a b : Nat) (ha : a < 18446744073709551616) (hb : b < 18446744073709551616)
    (h : Uint64ToBigEndian a = Uint64ToBigEndian b) : a = b := by
  rw [← fromBE_be a ha, ← fromBE_be b hb, h]

theorem be_length (n : Nat) : (Uint64ToBigEndian n).data.toList.length = 8 := by rw [be_data]; rfl

theorem prefix_eq_of_append_eq (a b x y : ByteArray) (h : a ++ x = b ++ y)
    (hs : a.data.toList.length = b.data.toList.length) : a = b := by
  have h1 := congrArg (fun z => z.data.toList) h
  simp only [ByteArray.data_append, Array.toList_append] at h1
  have := (List.append_inj h1 hs).1
  exact ByteArray.ext (Array.ext' this)

/-- a key filed under the encoded number `a` that lies in the subspace of `b` (same table prefix) has `a = b` -/
theorem subspace_separates (p : ByteArray) (a b : Nat) (x y : ByteArray) (ha : a < 18446744073709551616)
    (hb : b < 18446744073709551616) (h : p ++ Uint64ToBigEndian a ++ x = p ++ Uint64ToBigEndian b ++ y) : a = b := by
  rw [← append_assoc', ← append_assoc'] at h
  have h2 := append_left_cancel _ _ _ h
  exact be_injective a b ha hb (prefix_eq_of_append_eq _ _ _ _ h2 (by rw [be_length, be_length]))

theorem u64_of_height (h : Int) (h0 : 0 ≤ h) (h1 : h < 9223372036854775808) :
    U64_ofI64 h = h.toNat ∧ h.toNat < 18446744073709551616 := by
  unfold U64_ofI64
  have : h.emod 18446744073709551616 = h := Int.emod_eq_of_lt h0 (by omega)
  rw [this]; omega

/-- heights of a chain (0 ≤ h < 2^63): a queue key of height `h1` lies in the subspace of `h2` only when `h1 = h2` -/
theorem height_separates (p : ByteArray) (h1 h2 : Int) (x y : ByteArray) (a0 : 0 ≤ h1) (a1 : h1 < 9223372036854775808)
    (b0 : 0 ≤ h2) (b1 : h2 < 9223372036854775808) (h : p ++ be h1 ++ x = p ++ be h2 ++ y) : h1 = h2 := by
  have e1 := u64_of_height h1 a0 a1
  have e2 := u64_of_height h2 b0 b1
  unfold be at h
  rw [e1.1, e2.1] at h
  have := subspace_separates p _ _ x y e1.2 e2.2 h
  omega

theorem random_queue_height_separated (h1 h2 : Int) (id rest k s : ByteArray) (a0 : 0 ≤ h1) (a1 : h1 < 9223372036854775808)
    (b0 : 0 ≤ h2) (b1 : h2 < 9223372036854775808) (hk : RandomKeyRequestQueue h1 id = some k)
    (hs : RandomKeyRequestQueueSubspace h2 = some s) (hp : k = s ++ rest) : h1 = h2 := by
  rw [(random_layout h1 id).2.1] at hk
  rw [(random_layout h2 id).2.2.1] at hs
  have hk' := Option.some.inj hk
  have hs' := Option.some.inj hs
  subst hk' hs'
  exact height_separates _ h1 h2 id rest a0 a1 b0 b1 hp

theorem farm_active_height_separated (h1 h2 : Int) (pool : String) (rest k s : ByteArray) (a0 : 0 ≤ h1)
    (a1 : h1 < 9223372036854775808) (b0 : 0 ≤ h2) (b1 : h2 < 9223372036854775808)
    (hk : FarmKeyActiveFarmPool h1 pool = some k) (hs : FarmPrefixActiveFarmPool h2 = some s) (hp : k = s ++ rest) : h1 = h2 := by
  rw [(farm_layout pool pool pool h1 0).2.2.2.2.2.1] at hk
  rw [(farm_layout pool pool pool h2 0).2.2.2.2.2.2.1] at hs
  have hk' := Option.some.inj hk
  have hs' := Option.some.inj hs
  subst hk' hs'
  exact height_separates _ h1 h2 _ rest a0 a1 b0 b1 hp

theorem htlc_expired_height_separated (h1 h2 : Nat) (id rest k s : ByteArray) (a1 : h1 < 18446744073709551616)
    (b1 : h2 < 18446744073709551616) (hk : HtlcGetHTLCExpiredQueueKey h1 id = some k)
    (hs : HtlcGetHTLCExpiredQueueSubspace h2 = some s) (hp : k = s ++ rest) : h1 = h2 := by
  rw [(htlc_layout id h1 "").2.1] at hk
  rw [(htlc_layout id h2 "").2.2.1] at hs
  have hk' := Option.some.inj hk
  have hs' := Option.some.inj hs
  subst hk' hs'
  exact subspace_separates _ h1 h2 id rest a1 b1 hp

theorem service_expired_batch_height_separated (h1 h2 : Int) (ctx rest k s : ByteArray) (a0 : 0 ≤ h1)
    (a1 : h1 < 9223372036854775808) (b0 : 0 ≤ h2) (b1 : h2 < 9223372036854775808)
    (hk : ServiceGetExpiredRequestBatchKey ctx h1 = some k) (hs : ServiceGetExpiredRequestBatchSubspace h2 = some s)
    (hp : k = s ++ rest) : h1 = h2 := by
  rw [(service_layout ctx ctx h1).2.1, append_assoc'] at hk
  rw [(service_layout ctx ctx h2).2.2.1] at hs
  have hk' := Option.some.inj hk
  have hs' := Option.some.inj hs
  subst hk' hs'
  exact height_separates _ h1 h2 _ rest a0 a1 b0 b1 hp

theorem service_new_batch_height_separated (h1 h2 : Int) (ctx rest k s : ByteArray) (a0 : 0 ≤ h1)
    (a1 : h1 < 9223372036854775808) (b0 : 0 ≤ h2) (b1 : h2 < 9223372036854775808)
    (hk : ServiceGetNewRequestBatchKey ctx h1 = some k) (hs : ServiceGetNewRequestBatchSubspace h2 = some s)
    (hp : k = s ++ rest) : h1 = h2 := by
  rw [(service_layout ctx ctx h1).2.2.2.1, append_assoc'] at hk
  rw [(service_layout ctx ctx h2).2.2.2.2.1] at hs
  have hk' := Option.some.inj hk
  have hs' := Option.some.inj hs
  subst hk' hs'
  exact height_separates _ h1 h2 _ rest a0 a1 b0 b1 hp

/-- both directions for the random request queue: the prefix iteration of height `h2` meets the key of a request filed
under `h1` exactly when `h1 = h2` (what `BeginBlocker`'s "each due request is processed, and only those" rests on) -/
theorem random_queue_in_subspace_iff (h1 h2 : Int) (id k s : ByteArray) (a0 : 0 ≤ h1) (a1 : h1 < 9223372036854775808)
    (b0 : 0 ≤ h2) (b1 : h2 < 9223372036854775808) (hk : RandomKeyRequestQueue h1 id = some k)
    (hs : RandomKeyRequestQueueSubspace h2 = some s) : (∃ rest, k = s ++ rest) ↔ h1 = h2 := by
  constructor
  · rintro ⟨rest, hp⟩
    exact random_queue_height_separated h1 h2 id rest k s a0 a1 b0 b1 hk hs hp
  · rintro rfl
    have := random_queue_in_subspace h1 id
    rw [hk, hs] at this
    exact ⟨id, Option.some.inj this⟩

/-- the same for the farm's active-pool queue (`IteratorExpiredPool` of the EndBlocker) -/
theorem farm_active_in_subspace_iff (h1 h2 : Int) (pool : String) (k s : ByteArray) (a0 : 0 ≤ h1)
    (a1 : h1 < 9223372036854775808) (b0 : 0 ≤ h2) (b1 : h2 < 9223372036854775808)
    (hk : FarmKeyActiveFarmPool h1 pool = some k) (hs : FarmPrefixActiveFarmPool h2 = some s) :
    (∃ rest, k = s ++ rest) ↔ h1 = h2 := by
  constructor
  · rintro ⟨rest, hp⟩
    exact farm_active_height_separated h1 h2 pool rest k s a0 a1 b0 b1 hk hs hp
  · rintro rfl
    have := farm_active_in_subspace h1 pool
    rw [hk, hs] at this
    exact ⟨_, Option.some.inj this⟩

/-- … and for the HTLC expiry queue (`BeginBlocker` refunds exactly the contracts filed under the current height) -/
theorem htlc_expired_in_subspace_iff (h1 h2 : Nat) (id k s : ByteArray) (a1 : h1 < 18446744073709551616)
    (b1 : h2 < 18446744073709551616) (hk : HtlcGetHTLCExpiredQueueKey h1 id = some k)
    (hs : HtlcGetHTLCExpiredQueueSubspace h2 = some s) : (∃ rest, k = s ++ rest) ↔ h1 = h2 := by
  constructor
  · rintro ⟨rest, hp⟩
    exact htlc_expired_height_separated h1 h2 id rest k s a1 b1 hk hs hp
  · rintro rfl
    have := htlc_expired_in_subspace h1 id
    rw [hk, hs] at this
    exact ⟨id, Option.some.inj this⟩

end Irismod.Props.TieKeys
