/-
Tie between the random model's PRNG arithmetic and /repo's `PRNG.GetRand` (random/types/rng.go), over the REGENERATED
translation `Gen/PureRandom.lean` (`extract/x_pure`, every run): the big.Int assignments that build the seed sum — with
the three SHA-256 digests as inputs and Go's Euclidean `Div` — compose to the sum `Random.prngNum` hashes, and the
modulus is 10^20.
-/
import Irismod.Gen.PureRandom
import Irismod.Model.Random
import Irismod.Proofs.GoSemLemmas
namespace Irismod.Props.Tie
open Irismod.Sdk Irismod.GoSem Irismod.Gen.PureRandom

theorem random_all_translated : Irismod.Gen.PureRandom.untranslated = [] := rfl
theorem random_translated_pinned : Irismod.Gen.PureRandom.translated =
    ["GetRand_seedBT_1(p_BlockTimestamp)",
     "GetRand_seedBH_1(read_new_big_Int_SetBytes_SHA256_p_BlockHash,seedBT)",
     "GetRand_seedTI_1(read_new_big_Int_SetBytes_SHA256_p_TxInitiator,seedBT)",
     "GetRand_seedSum_1(seedBT,seedBH)",
     "GetRand_seedSum_2(seedSum,seedTI)",
     "GetRand_cond_1(p_Oracle)",
     "GetRand_seedOS_1(read_new_big_Int_SetBytes_SHA256_p_OracleSeed,seedBT)",
     "GetRand_seedSum_3(seedSum,seedOS)",
     "GetRand_precision_1()"] := rfl

/-- every rejecting guard (an `if` ending in the return of an error, or in a panic) of the translated functions and of
the handlers around them, as source text in source order: removing, weakening or reordering one breaks this -/
theorem random_guards_pinned : Irismod.Gen.PureRandom.guards =
    ["Keeper.RequestRandom: blockInterval > uint64(math.MaxInt64-currentHeight)",
     "Keeper.RequestRandom: requestContextID, err := k.RequestService(ctx, consumer, serviceFeeCap); err != nil",
     "Keeper.RequestService: provider, err := sdk.AccAddressFromBech32(bindings[prng.Intn(len(bindings))].Provider); err != nil",
     "msgServer.RequestRandom: request, err := m.Keeper.RequestRandom( ctx, consumer, msg.BlockInterval, msg.Oracle, msg.ServiceFeeCap, ); err != nil"] := rfl

/-- every statement of these functions executed for its effect — a call whose result is dropped (store and bank
writes, queue moves, hooks) or a write to a record field — with its nesting depth, in source order: a write that is
dropped, duplicated, reordered or moved into or out of a branch breaks this -/
theorem random_effects_pinned : Irismod.Gen.PureRandom.effects =
    ["BeginBlocker: d0 rqIterator.Next()",
     "BeginBlocker: d1 k.GetCdc().MustUnmarshal(rqIterator.Value(), &request)",
     "BeginBlocker: d3 k.SetOracleRandRequest(ctx, serviceContextID, request)",
     "BeginBlocker: d2 k.DequeueRandomRequest(ctx, lastBlockHeight, reqID)",
     "BeginBlocker: d2 k.SetRandom(ctx, reqID, types.NewRandom(request.TxHash, lastBlockHeight, random.FloatString(types.RandPrec)))",
     "BeginBlocker: d2 k.DequeueRandomRequest(ctx, lastBlockHeight, reqID)",
     "Keeper.SetRandom: d0 store.Set(types.KeyRandom(reqID), bz)",
     "Keeper.EnqueueRandomRequest: d0 store.Set(types.KeyRandomRequestQueue(height, reqID), bz)",
     "Keeper.DequeueRandomRequest: d0 store.Delete(types.KeyRandomRequestQueue(height, reqID))",
     "Keeper.SetOracleRandRequest: d0 store.Set(types.KeyOracleRandomRequest(requestContextID), bz)",
     "Keeper.DeleteOracleRandRequest: d0 store.Delete(types.KeyOracleRandomRequest(requestContextID))",
     "Keeper.RequestRandom: d0 k.EnqueueRandomRequest(ctx, destHeight, reqID, request)",
     "Keeper.RequestService: d0 iterator.Next()",
     "Keeper.RequestService: d1 k.cdc.MustUnmarshal(iterator.Value(), &binding)",
     "Keeper.HandlerResponse: d1 k.DeleteOracleRandRequest(ctx, requestContextID)",
     "Keeper.HandlerResponse: d1 k.DeleteOracleRandRequest(ctx, requestContextID)",
     "Keeper.HandlerResponse: d1 k.DeleteOracleRandRequest(ctx, requestContextID)",
     "Keeper.HandlerResponse: d1 k.DeleteOracleRandRequest(ctx, requestContextID)",
     "Keeper.HandlerResponse: d0 k.SetRandom( ctx, reqID, types.NewRandom(request.TxHash, lastBlockHeight, random.FloatString(types.RandPrec)), )",
     "Keeper.HandlerResponse: d0 k.DeleteOracleRandRequest(ctx, requestContextID)",
     "Keeper.HandlerStateChanged: d0 k.DeleteOracleRandRequest(ctx, requestContextID)"] := rfl

/-- the seed sum of `GetRand`, composed from the translated assignments in source order (`hBH`, `hTI`, `hOS`: the
digests of block hash, initiator and oracle seed as integers) -/
def seedSum (t hBH hTI hOS : Int) (oracle : Bool) : Option Int :=
  GetRand_seedBT_1 t >>= fun bt =>
  GetRand_seedBH_1 hBH bt >>= fun bh =>
  GetRand_seedTI_1 hTI bt >>= fun ti =>
  GetRand_seedSum_1 bt bh >>= fun s1 =>
  GetRand_seedSum_2 s1 ti >>= fun s2 =>
  GetRand_cond_1 oracle >>= fun c =>
  if c then GetRand_seedOS_1 hOS bt >>= fun os => GetRand_seedSum_3 s2 os else some s2

/-- … is the sum the model hashes (`prngNum`): `t + ⌊hBH/t⌋ + ⌊hTI/t⌋ (+ ⌊hOS/t⌋)` with Euclidean quotients, and a
panic exactly for `t = 0` (the recorded boundary finding F-rnd-1) -/
theorem seedSum_eq_model (t hBH hTI hOS : Int) (oracle : Bool) :
    seedSum t hBH hTI hOS oracle =
      if t = 0 then none else some (t + Int.ediv hBH t + Int.ediv hTI t + (if oracle then Int.ediv hOS t else 0)) := by
  unfold seedSum GetRand_seedBT_1 GetRand_seedBH_1 GetRand_seedTI_1 GetRand_seedSum_1 GetRand_seedSum_2
    GetRand_cond_1 GetRand_seedOS_1 GetRand_seedSum_3 Big_Div Big_NewInt Big_Add
  by_cases h : t = 0
  · simp only [h, if_true, obind_some, obind_none]
  · cases oracle <;> simp [h, obind_some]

/-- the modulus: `Exp(10, RandPrec)` is the model's `prec` = 10^20 -/
theorem precision_eq_model : GetRand_precision_1 = some ((Irismod.Random.prec : Nat) : Int) := by
  decide

end Irismod.Props.Tie
