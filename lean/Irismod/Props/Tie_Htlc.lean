/-
Tie between the HTLC model's cross-chain supply arithmetic (C04: limits, time-based limits, counters, the window
clock) and /repo's source, over the REGENERATED translation `Gen/PureHtlc.lean` (`extract/x_pure`, every run): the
assignments and rejecting guards of the six Increment/Decrement…AssetSupply functions and of
UpdateTimeBasedSupplyLimits (keeper/asset.go), composed in source order, are exactly the model's `incomingFits`,
`currentFits`, the outgoing / decrement guards and `tick`.
-/
import Irismod.Gen.PureHtlc
import Irismod.Model.Htlc
import Irismod.Proofs.GoSemLemmas
namespace Irismod.Props.Tie
open Irismod.Sdk Irismod.GoSem Irismod.Gen.PureHtlc Irismod.Htlc

theorem htlc_all_translated : Irismod.Gen.PureHtlc.untranslated = [] := rfl

theorem htlc_translated_pinned : Irismod.Gen.PureHtlc.translated =
    ["IncCurrent_supplyLimit_1(coin,limit_Limit)",
     "IncCurrent_guard_1(supplyLimit,supply_CurrentSupply,coin)",
     "IncCurrent_cond_2(limit_TimeLimited)",
     "IncCurrent_timeBasedSupplyLimit_1(coin,limit_TimeBasedLimit)",
     "IncCurrent_guard_3(timeBasedSupplyLimit,supply_TimeLimitedCurrentSupply,coin)",
     "IncCurrent_supply_TimeLimitedCurrentSupply_1(supply_TimeLimitedCurrentSupply,coin)",
     "IncCurrent_supply_CurrentSupply_1(supply_CurrentSupply,coin)",
     "DecCurrent_guard_1(supply_CurrentSupply,coin)",
     "DecCurrent_supply_CurrentSupply_1(supply_CurrentSupply,coin)",
     "IncIncoming_totalSupply_1(supply_CurrentSupply,supply_IncomingSupply)",
     "IncIncoming_supplyLimit_1(coin,limit_Limit)",
     "IncIncoming_guard_1(supplyLimit,totalSupply,coin)",
     "IncIncoming_cond_2(limit_TimeLimited)",
     "IncIncoming_timeLimitedTotalSupply_1(supply_TimeLimitedCurrentSupply,supply_IncomingSupply)",
     "IncIncoming_timeBasedSupplyLimit_1(coin,limit_TimeBasedLimit)",
     "IncIncoming_guard_3(timeBasedSupplyLimit,timeLimitedTotalSupply,coin)",
     "IncIncoming_supply_IncomingSupply_1(supply_IncomingSupply,coin)",
     "DecIncoming_guard_1(supply_IncomingSupply,coin)",
     "DecIncoming_supply_IncomingSupply_1(supply_IncomingSupply,coin)",
     "IncOutgoing_guard_1(supply_CurrentSupply,supply_OutgoingSupply,coin)",
     "IncOutgoing_supply_OutgoingSupply_1(supply_OutgoingSupply,coin)",
     "DecOutgoing_guard_1(supply_OutgoingSupply,coin)",
     "DecOutgoing_supply_OutgoingSupply_1(supply_OutgoingSupply,coin)",
     "createHTLT_guard_1(read_len_amount)",
     "createHTLT_guard_2(amount_0,asset_MinSwapAmount,asset_MaxSwapAmount)",
     "createHTLT_guard_3(timestamp,pastTimestampLimit,futureTimestampLimit)",
     "createHTLT_cond_4(read_sender_Equals_deputyAddress)",
     "createHTLT_guard_5(read_to_Equals_deputyAddress)",
     "createHTLT_guard_6(read_to_Equals_deputyAddress)",
     "createHTLT_call_IncrementIncomingAssetSupply_1_arg1(amount_0)",
     "createHTLT_guard_7(timeLock,asset_MinBlockLock,asset_MaxBlockLock)",
     "createHTLT_guard_8(amount_0,asset_FixedFee,asset_MinSwapAmount)",
     "createHTLT_call_IncrementOutgoingAssetSupply_1_arg1(amount_0)",
     "claimHTLT_call_DecrementIncomingAssetSupply_1_arg1(htlc_Amount_0)",
     "claimHTLT_call_IncrementCurrentAssetSupply_1_arg1(htlc_Amount_0)",
     "claimHTLT_call_DecrementOutgoingAssetSupply_1_arg1(htlc_Amount_0)",
     "claimHTLT_call_DecrementCurrentAssetSupply_1_arg1(htlc_Amount_0)",
     "refundHTLT_call_DecrementIncomingAssetSupply_1_arg1(amount_0)",
     "refundHTLT_call_DecrementOutgoingAssetSupply_1_arg1(amount_0)",
     "UpdateWindow_newTimeElapsed_1(supply_TimeElapsed,timeElapsed)",
     "UpdateWindow_cond_1(asset_SupplyLimit_TimeLimited,newTimeElapsed,asset_SupplyLimit_TimePeriod)",
     "UpdateWindow_supply_TimeElapsed_1(newTimeElapsed)",
     "UpdateWindow_supply_TimeElapsed_2()"] := rfl

/-- every rejecting guard (an `if` ending in the return of an error, or in a panic) of the translated functions and of
the handlers around them, as source text in source order: removing, weakening or reordering one breaks this -/
theorem htlc_guards_pinned : Irismod.Gen.PureHtlc.guards =
    ["IncCurrent: !found",
     "IncCurrent: limit, err := k.GetSupplyLimit(ctx, coin.Denom); err != nil",
     "IncCurrent: supplyLimit.IsLT(supply.CurrentSupply.Add(coin))",
     "IncCurrent: timeBasedSupplyLimit.IsLT(supply.TimeLimitedCurrentSupply.Add(coin))",
     "DecCurrent: !found",
     "DecCurrent: supply.CurrentSupply.Amount.Sub(coin.Amount).IsNegative()",
     "IncIncoming: !found",
     "IncIncoming: limit, err := k.GetSupplyLimit(ctx, coin.Denom); err != nil",
     "IncIncoming: supplyLimit.IsLT(totalSupply.Add(coin))",
     "IncIncoming: timeBasedSupplyLimit.IsLT(timeLimitedTotalSupply.Add(coin))",
     "DecIncoming: !found",
     "DecIncoming: supply.IncomingSupply.Amount.Sub(coin.Amount).IsNegative()",
     "IncOutgoing: !found",
     "IncOutgoing: supply.CurrentSupply.IsLT(supply.OutgoingSupply.Add(coin))",
     "DecOutgoing: !found",
     "DecOutgoing: supply.OutgoingSupply.Amount.Sub(coin.Amount).IsNegative()",
     "createHTLT: len(amount) != 1",
     "createHTLT: asset, err := k.GetAsset(ctx, amount[0].Denom); err != nil",
     "createHTLT: err = k.ValidateLiveAsset(ctx, amount[0]); err != nil",
     "createHTLT: amount[0].Amount.LT(asset.MinSwapAmount) || amount[0].Amount.GT(asset.MaxSwapAmount)",
     "createHTLT: timestamp < uint64(pastTimestampLimit) || timestamp >= uint64(futureTimestampLimit)",
     "createHTLT: to.Equals(deputyAddress)",
     "createHTLT: !to.Equals(deputyAddress)",
     "createHTLT: err := k.IncrementIncomingAssetSupply(ctx, amount[0]); err != nil",
     "createHTLT: timeLock < asset.MinBlockLock || timeLock > asset.MaxBlockLock",
     "createHTLT: amount[0].Amount.LT(asset.FixedFee.Add(asset.MinSwapAmount))",
     "createHTLT: err := k.IncrementOutgoingAssetSupply(ctx, amount[0]); err != nil",
     "createHTLT: err := k.bankKeeper.SendCoinsFromAccountToModule(ctx, sender, types.ModuleName, amount); err != nil",
     "claimHTLT: err := k.DecrementIncomingAssetSupply(ctx, htlc.Amount[0]); err != nil",
     "claimHTLT: err := k.IncrementCurrentAssetSupply(ctx, htlc.Amount[0]); err != nil",
     "claimHTLT: err := k.bankKeeper.MintCoins(ctx, types.ModuleName, htlc.Amount); err != nil",
     "claimHTLT: err := k.bankKeeper.SendCoinsFromModuleToAccount(ctx, types.ModuleName, toAddr, htlc.Amount); err != nil",
     "claimHTLT: err := k.DecrementOutgoingAssetSupply(ctx, htlc.Amount[0]); err != nil",
     "claimHTLT: err := k.DecrementCurrentAssetSupply(ctx, htlc.Amount[0]); err != nil",
     "claimHTLT: err := k.bankKeeper.BurnCoins(ctx, types.ModuleName, htlc.Amount); err != nil",
     "refundHTLT: err := k.DecrementIncomingAssetSupply(ctx, amount[0]); err != nil",
     "refundHTLT: err := k.DecrementOutgoingAssetSupply(ctx, amount[0]); err != nil",
     "refundHTLT: err := k.bankKeeper.SendCoinsFromModuleToAccount(ctx, types.ModuleName, sender, amount); err != nil",
     "Keeper.CreateHTLC: k.HasHTLC(ctx, id)",
     "Keeper.CreateHTLC: direction, err = k.createHTLT( ctx, sender, to, receiverOnOtherChain, senderOnOtherChain, amount, hashLock, timestamp, timeLock, ); err != nil",
     "Keeper.CreateHTLC: err = k.createHTLC(ctx, sender, amount); err != nil",
     "Keeper.ClaimHTLC: !found",
     "Keeper.ClaimHTLC: htlc.State != types.Open",
     "Keeper.ClaimHTLC: !bytes.Equal(types.GetHashLock(secret, htlc.Timestamp), hashLock)",
     "Keeper.ClaimHTLC: to, err := sdk.AccAddressFromBech32(htlc.To); err != nil",
     "Keeper.ClaimHTLC: err := k.claimHTLT(ctx, htlc); err != nil",
     "Keeper.ClaimHTLC: err := k.claimHTLC(ctx, htlc.Amount, to); err != nil",
     "Keeper.RefundHTLC: sender, err := sdk.AccAddressFromBech32(h.Sender); err != nil",
     "Keeper.RefundHTLC: err := k.refundHTLT(ctx, h.Direction, sender, h.Amount); err != nil",
     "Keeper.RefundHTLC: err := k.refundHTLC(ctx, sender, h.Amount); err != nil",
     "Keeper.ValidateLiveAsset: asset, err := k.GetAsset(ctx, coin.Denom); err != nil",
     "Keeper.ValidateLiveAsset: !asset.Active",
     "msgServer.CreateHTLC: sender, err := sdk.AccAddressFromBech32(msg.Sender); err != nil",
     "msgServer.CreateHTLC: to, err := sdk.AccAddressFromBech32(msg.To); err != nil",
     "msgServer.CreateHTLC: hashLock, err := hex.DecodeString(msg.HashLock); err != nil",
     "msgServer.CreateHTLC: m.k.blockedAddrs[to.String()]",
     "msgServer.CreateHTLC: to.Equals(m.k.accountKeeper.GetModuleAddress(types.ModuleName))",
     "msgServer.CreateHTLC: id, err := m.k.CreateHTLC( ctx, sender, to, msg.ReceiverOnOtherChain, msg.SenderOnOtherChain, msg.Amount, hashLock, msg.Timestamp, msg.TimeLock, msg.Transfer, ); err != nil",
     "msgServer.ClaimHTLC: id, err := hex.DecodeString(msg.Id); err != nil",
     "msgServer.ClaimHTLC: secret, err := hex.DecodeString(msg.Secret); err != nil",
     "msgServer.ClaimHTLC: hashLock, transfer, direction, err := m.k.ClaimHTLC(ctx, id, secret); err != nil"] := rfl

/-- every statement of these functions executed for its effect — a call whose result is dropped (store and bank
writes, queue moves, hooks) or a write to a record field — with its nesting depth, in source order: a write that is
dropped, duplicated, reordered or moved into or out of a branch breaks this -/
theorem htlc_effects_pinned : Irismod.Gen.PureHtlc.effects =
    ["IncCurrent: d1 supply.TimeLimitedCurrentSupply = supply.TimeLimitedCurrentSupply.Add(coin)",
     "IncCurrent: d0 supply.CurrentSupply = supply.CurrentSupply.Add(coin)",
     "IncCurrent: d0 k.SetAssetSupply(ctx, supply, coin.Denom)",
     "DecCurrent: d0 supply.CurrentSupply = supply.CurrentSupply.Sub(coin)",
     "DecCurrent: d0 k.SetAssetSupply(ctx, supply, coin.Denom)",
     "IncIncoming: d0 supply.IncomingSupply = supply.IncomingSupply.Add(coin)",
     "IncIncoming: d0 k.SetAssetSupply(ctx, supply, coin.Denom)",
     "DecIncoming: d0 supply.IncomingSupply = supply.IncomingSupply.Sub(coin)",
     "DecIncoming: d0 k.SetAssetSupply(ctx, supply, coin.Denom)",
     "IncOutgoing: d0 supply.OutgoingSupply = supply.OutgoingSupply.Add(coin)",
     "IncOutgoing: d0 k.SetAssetSupply(ctx, supply, coin.Denom)",
     "DecOutgoing: d0 supply.OutgoingSupply = supply.OutgoingSupply.Sub(coin)",
     "DecOutgoing: d0 k.SetAssetSupply(ctx, supply, coin.Denom)",
     "createHTLT: d2 k.accountKeeper.SetAccount(ctx, acc)",
     "UpdateWindow: d1 k.SetPreviousBlockTime(ctx, previousBlockTime)",
     "UpdateWindow: d2 supply.TimeElapsed = newTimeElapsed",
     "UpdateWindow: d2 supply.TimeElapsed = time.Duration(0)",
     "UpdateWindow: d2 supply.TimeLimitedCurrentSupply = sdk.NewCoin(asset.Denom, math.ZeroInt())",
     "UpdateWindow: d1 k.SetAssetSupply(ctx, supply, asset.Denom)",
     "UpdateWindow: d0 k.SetPreviousBlockTime(ctx, ctx.BlockTime())",
     "BeginBlocker: d0 k.IterateHTLCExpiredQueueByHeight( ctx, currentBlockHeight, func(id tmbytes.HexBytes, h types.HTLC) (stop bool) { _ = k.RefundHTLC(ctx, h, id) k.DeleteHTLCFromExpiredQueue(ctx, currentBlockHeight, id) ctx.EventManager().EmitEvents(sdk.Events{ sdk.NewEvent( types.EventTypeRefundHTLC, sdk.NewAttribute(types.AttributeKeyID, id.String()), ), }) ctx.Logger().Info(fmt.Sprintf(\"HTLC [%s] is refunded\", id.String())) return false }, )",
     "BeginBlocker: d1 k.DeleteHTLCFromExpiredQueue(ctx, currentBlockHeight, id)",
     "BeginBlocker: d0 k.UpdateTimeBasedSupplyLimits(ctx)",
     "Keeper.CreateHTLC: d0 k.SetHTLC(ctx, htlc, id)",
     "Keeper.CreateHTLC: d0 k.AddHTLCToExpiredQueue(ctx, htlc.ExpirationHeight, id)",
     "Keeper.ClaimHTLC: d0 htlc.Secret = secret.String()",
     "Keeper.ClaimHTLC: d0 htlc.State = types.Completed",
     "Keeper.ClaimHTLC: d0 htlc.ClosedBlock = uint64(ctx.BlockHeight())",
     "Keeper.ClaimHTLC: d0 k.SetHTLC(ctx, htlc, id)",
     "Keeper.ClaimHTLC: d0 k.DeleteHTLCFromExpiredQueue(ctx, htlc.ExpirationHeight, id)",
     "Keeper.RefundHTLC: d0 h.State = types.Refunded",
     "Keeper.RefundHTLC: d0 h.ClosedBlock = uint64(ctx.BlockHeight())",
     "Keeper.RefundHTLC: d0 k.SetHTLC(ctx, h, id)"] := rfl

local macro "hsimp" "[" hs:ident,* "]" : tactic =>
  `(tactic| simp only [$[$hs:ident],*, decide_true, decide_false, if_true, if_false, obind_some, obind_none,
      Coin_Add_nat, Coin_IsLT_nat, Bool.not_true, Bool.not_false, Bool.true_and, Bool.false_and, Bool.and_true,
      Bool.and_false, Bool.false_eq_true, Bool.not_eq_true', Bool.true_eq_false])

/-- `IncrementIncomingAssetSupply`: accepted (`some true`) / rejected (`some false`), composed from the translated
assignments and guards in source order (`limit.TimeLimited` selects the second pair) -/
def incIncomingVerdict (d : String) (cur inc tl n lim tbl : Int) (timeLimited : Bool) : Option Bool :=
  IncIncoming_totalSupply_1 ⟨d, cur⟩ ⟨d, inc⟩ >>= fun tot =>
  IncIncoming_supplyLimit_1 ⟨d, n⟩ lim >>= fun sl =>
  IncIncoming_guard_1 sl tot ⟨d, n⟩ >>= fun g1 =>
  if g1 then some false else
  IncIncoming_cond_2 timeLimited >>= fun tl? =>
  if tl? then
    IncIncoming_timeLimitedTotalSupply_1 ⟨d, tl⟩ ⟨d, inc⟩ >>= fun tlt =>
    IncIncoming_timeBasedSupplyLimit_1 ⟨d, n⟩ tbl >>= fun tsl =>
    IncIncoming_guard_3 tsl tlt ⟨d, n⟩ >>= fun g2 => some (!g2)
  else some true

/-- … is the model's `incomingFits`, for every asset, supply record and amount inside the `sdkmath.Int` range -/
theorem incomingFits_eq_translation (a : Asset) (sup : Supply) (n : Nat) (hd : ValidateDenom a.denom = true)
    (h1 : sup.current + sup.incoming + n < pow2_256) (h2 : sup.tlCurrent + sup.incoming + n < pow2_256) :
    incIncomingVerdict a.denom sup.current sup.incoming sup.tlCurrent n a.limit a.tbLimit a.timeLimited =
      some (incomingFits a sup n) := by
  unfold incIncomingVerdict IncIncoming_totalSupply_1 IncIncoming_supplyLimit_1 IncIncoming_guard_1 IncIncoming_cond_2
    IncIncoming_timeLimitedTotalSupply_1 IncIncoming_timeBasedSupplyLimit_1 IncIncoming_guard_3 incomingFits
  have e1 : sup.current + sup.incoming < pow2_256 := by omega
  have e2 : sup.tlCurrent + sup.incoming < pow2_256 := by omega
  rw [NewCoin_nat _ _ hd, NewCoin_nat _ _ hd]
  hsimp [e1, e2, h1, h2]
  by_cases g1 : a.limit < sup.current + sup.incoming + n <;> hsimp [g1]
  cases a.timeLimited <;> hsimp [g1] <;>
  by_cases g2 : a.tbLimit < sup.tlCurrent + sup.incoming + n <;> hsimp [g2]

/-- `IncrementCurrentAssetSupply` verdict, composed in source order -/
def incCurrentVerdict (d : String) (cur tl n lim tbl : Int) (timeLimited : Bool) : Option Bool :=
  IncCurrent_supplyLimit_1 ⟨d, n⟩ lim >>= fun sl =>
  IncCurrent_guard_1 sl ⟨d, cur⟩ ⟨d, n⟩ >>= fun g1 =>
  if g1 then some false else
  IncCurrent_cond_2 timeLimited >>= fun tl? =>
  if tl? then
    IncCurrent_timeBasedSupplyLimit_1 ⟨d, n⟩ tbl >>= fun tsl =>
    IncCurrent_guard_3 tsl ⟨d, tl⟩ ⟨d, n⟩ >>= fun g2 => some (!g2)
  else some true

theorem currentFits_eq_translation (a : Asset) (sup : Supply) (n : Nat) (hd : ValidateDenom a.denom = true)
    (h1 : sup.current + n < pow2_256) (h2 : sup.tlCurrent + n < pow2_256) :
    incCurrentVerdict a.denom sup.current sup.tlCurrent n a.limit a.tbLimit a.timeLimited =
      some (currentFits a sup n) := by
  unfold incCurrentVerdict IncCurrent_supplyLimit_1 IncCurrent_guard_1 IncCurrent_cond_2 IncCurrent_timeBasedSupplyLimit_1
    IncCurrent_guard_3 currentFits
  rw [NewCoin_nat _ _ hd, NewCoin_nat _ _ hd]
  hsimp [h1, h2]
  by_cases g1 : a.limit < sup.current + n <;> hsimp [g1]
  cases a.timeLimited <;> hsimp [g1] <;>
  by_cases g2 : a.tbLimit < sup.tlCurrent + n <;> hsimp [g2]

/-- the counters move by exactly the amount (the four writes of `supAfterClaimIn` and of the create / claim /
refund paths) -/
theorem counters_move_exactly (d : String) (x n : Nat) (h : x + n < pow2_256) (hn : n ≤ x) (hx : x < pow2_256) :
    IncCurrent_supply_CurrentSupply_1 ⟨d, x⟩ ⟨d, n⟩ = some ⟨d, ((x + n : Nat) : Int)⟩ ∧
    IncCurrent_supply_TimeLimitedCurrentSupply_1 ⟨d, x⟩ ⟨d, n⟩ = some ⟨d, ((x + n : Nat) : Int)⟩ ∧
    IncIncoming_supply_IncomingSupply_1 ⟨d, x⟩ ⟨d, n⟩ = some ⟨d, ((x + n : Nat) : Int)⟩ ∧
    IncOutgoing_supply_OutgoingSupply_1 ⟨d, x⟩ ⟨d, n⟩ = some ⟨d, ((x + n : Nat) : Int)⟩ ∧
    DecCurrent_supply_CurrentSupply_1 ⟨d, x⟩ ⟨d, n⟩ = some ⟨d, ((x - n : Nat) : Int)⟩ ∧
    DecIncoming_supply_IncomingSupply_1 ⟨d, x⟩ ⟨d, n⟩ = some ⟨d, ((x - n : Nat) : Int)⟩ ∧
    DecOutgoing_supply_OutgoingSupply_1 ⟨d, x⟩ ⟨d, n⟩ = some ⟨d, ((x - n : Nat) : Int)⟩ := by
  unfold IncCurrent_supply_CurrentSupply_1 IncCurrent_supply_TimeLimitedCurrentSupply_1
    IncIncoming_supply_IncomingSupply_1 IncOutgoing_supply_OutgoingSupply_1 DecCurrent_supply_CurrentSupply_1
    DecIncoming_supply_IncomingSupply_1 DecOutgoing_supply_OutgoingSupply_1
  rw [Coin_Sub_nat d x n hn hx]
  hsimp [h]
  exact ⟨trivial, trivial, trivial, trivial, trivial, trivial, trivial⟩

/-- the decrement guards (`x.Sub(n).IsNegative()`) and the outgoing guard (`current < outgoing + n`) are the
comparisons the model makes in `claimIncoming`, `claimOutgoing`, `createOutgoing` and the refunds -/
theorem decrement_and_outgoing_guards (d : String) (x n cur : Nat) (hx : x < pow2_256) (hn : n < pow2_256)
    (h : x + n < pow2_256) :
    DecCurrent_guard_1 ⟨d, x⟩ ⟨d, n⟩ = some (decide (x < n)) ∧
    DecIncoming_guard_1 ⟨d, x⟩ ⟨d, n⟩ = some (decide (x < n)) ∧
    DecOutgoing_guard_1 ⟨d, x⟩ ⟨d, n⟩ = some (decide (x < n)) ∧
    IncOutgoing_guard_1 ⟨d, cur⟩ ⟨d, x⟩ ⟨d, n⟩ = some (decide (cur < x + n)) := by
  unfold DecCurrent_guard_1 DecIncoming_guard_1 DecOutgoing_guard_1 IncOutgoing_guard_1
  have hb : inInt256 ((x : Int) - (n : Int)) = true := by
    simp only [inInt256, decide_eq_true_eq]; omega
  have hneg : Int_IsNegative ((x : Int) - (n : Int)) = decide (x < n) := by
    simp only [Int_IsNegative]; congr 1; apply propext; omega
  simp only [Int_Sub, I256.sub, chkInt, hb, if_true, obind_some, hneg]
  hsimp [h]
  exact ⟨trivial, trivial, trivial, trivial⟩

/-- the window clock of one asset in one begin block: the translated branch condition and the two writes are the
model's `tick` (int64 nanoseconds do not wrap for clock values of a chain) -/
theorem tick_eq_translation (a : Asset) (dt : Int) (sup : Supply)
    (hr : -9223372036854775808 ≤ sup.elapsed + dt ∧ sup.elapsed + dt < 9223372036854775808) :
    (UpdateWindow_newTimeElapsed_1 sup.elapsed dt >>= fun ne =>
      UpdateWindow_cond_1 a.timeLimited ne a.period >>= fun c =>
      if c then UpdateWindow_supply_TimeElapsed_1 ne else UpdateWindow_supply_TimeElapsed_2) =
      some (tick a dt sup).elapsed := by
  unfold UpdateWindow_newTimeElapsed_1 UpdateWindow_cond_1 UpdateWindow_supply_TimeElapsed_1
    UpdateWindow_supply_TimeElapsed_2 tick I64_Add I64_wrap
  have e : (sup.elapsed + dt + 9223372036854775808).emod 18446744073709551616 - 9223372036854775808 = sup.elapsed + dt := by
    have e0 : (sup.elapsed + dt + 9223372036854775808).emod 18446744073709551616 = sup.elapsed + dt + 9223372036854775808 :=
      Int.emod_eq_of_lt (by omega) (by omega)
    rw [e0]; omega
  simp only [obind_some, e]
  by_cases c : (a.timeLimited && decide (sup.elapsed + dt < a.period)) = true <;> simp [c]

/-- the rejecting guards of `createHTLT` over amounts, time locks and the timestamp window are the model's
(`createHTLT`, `createOutgoing`, `tsOutOfRange` — including the `uint64` conversion of a negative lower limit, which
makes every timestamp "too early" in the first 15 minutes after the epoch) -/
theorem createHTLT_guards_eq_model (d : String) (n ts timeLock time : Nat) (a : Asset)
    (hts : ts < 18446744073709551616) (htime : unix time + 1800 < 9223372036854775808)
    (hfee : a.fixedFee + a.minSwap < pow2_256) :
    createHTLT_guard_2 ⟨d, n⟩ a.minSwap a.maxSwap = some (decide (n < a.minSwap ∨ a.maxSwap < n)) ∧
    createHTLT_guard_3 ts ((unix time : Int) - 900) ((unix time : Int) + 1800) = some (tsOutOfRange time ts) ∧
    createHTLT_guard_7 timeLock a.minLock a.maxLock = some (decide (timeLock < a.minLock ∨ a.maxLock < timeLock)) ∧
    createHTLT_guard_8 ⟨d, n⟩ a.fixedFee a.minSwap = some (decide (n < a.fixedFee + a.minSwap)) := by
  refine ⟨?_, ?_, ?_, ?_⟩
  · unfold createHTLT_guard_2
    simp only [Int_LT, Int_GT, Int.ofNat_lt]
    by_cases h1 : n < a.minSwap <;> by_cases h2 : a.maxSwap < n <;> simp [h1, h2]
  · unfold createHTLT_guard_3 tsOutOfRange U64_ofI64
    congr 1
    apply Bool.eq_iff_iff.mpr
    simp only [Bool.or_eq_true, decide_eq_true_eq, ge_iff_le]
    show (ts < (((unix time : Int) - 900) % 18446744073709551616).toNat ∨
          (((unix time : Int) + 1800) % 18446744073709551616).toNat ≤ ts) ↔
         ((unix time < 900 ∨ ts < unix time - 900) ∨ unix time + 1800 ≤ ts)
    omega
  · unfold createHTLT_guard_7
    by_cases h1 : timeLock < a.minLock <;> by_cases h2 : a.maxLock < timeLock <;> simp [h1, h2]
  · unfold createHTLT_guard_8
    simp only [Int_Add_nat, hfee, if_true, obind_some, Int_LT, Int.ofNat_lt]

/-- which counters a create, a claim and a refund move, in which order, and by which amount (the contract's single
coin): `htlc_translated_pinned` lists the calls in source order — create: incoming / outgoing +; claim of an incoming
transfer: incoming − then current +; claim of an outgoing one: outgoing − then current −; refund: incoming − /
outgoing − — and each is handed the coin unchanged -/
theorem supply_calls_pass_the_amount (c : GoSem.Coin) :
    createHTLT_call_IncrementIncomingAssetSupply_1_arg1 c = some c ∧
    createHTLT_call_IncrementOutgoingAssetSupply_1_arg1 c = some c ∧
    claimHTLT_call_DecrementIncomingAssetSupply_1_arg1 c = some c ∧
    claimHTLT_call_IncrementCurrentAssetSupply_1_arg1 c = some c ∧
    claimHTLT_call_DecrementOutgoingAssetSupply_1_arg1 c = some c ∧
    claimHTLT_call_DecrementCurrentAssetSupply_1_arg1 c = some c ∧
    refundHTLT_call_DecrementIncomingAssetSupply_1_arg1 c = some c ∧
    refundHTLT_call_DecrementOutgoingAssetSupply_1_arg1 c = some c :=
  ⟨rfl, rfl, rfl, rfl, rfl, rfl, rfl, rfl⟩

end Irismod.Props.Tie
