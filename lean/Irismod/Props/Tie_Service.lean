/-
Tie between the fee arithmetic of the service model and /repo's source, over the REGENERATED translation
`Gen/PureService.lean` (`extract/x_pure`, every run): the tax on an earned service fee (`AddEarnedFee`) and the slashed
part of a deposit (`Slash`) are, call for call, `Service.mulTrunc`.
-/
import Irismod.Gen.PureService
import Irismod.Model.Service
import Irismod.Proofs.GoSemLemmas
namespace Irismod.Props.Tie
open Irismod.Sdk Irismod.GoSem

theorem service_all_translated : Irismod.Gen.PureService.untranslated = [] := rfl
theorem service_translated_pinned :
    Irismod.Gen.PureService.translated = ["AddEarnedFee_taxAmount_1(coin,taxRate)",
     "Slash_slashedAmt_1(depositAmt,slashFraction)"] := rfl

/-- every rejecting guard (an `if` ending in the return of an error, or in a panic) of the translated functions and of
the handlers around them, as source text in source order: removing, weakening or reordering one breaks this -/
theorem service_guards_pinned : Irismod.Gen.PureService.guards =
    ["AddEarnedFee: err := k.bankKeeper.SendCoinsFromModuleToModule(ctx, types.RequestAccName, k.feeCollectorName, taxCoins); err != nil",
     "AddEarnedFee: hasNeg",
     "Slash: hasNeg",
     "Slash: err := k.bankKeeper.SendCoinsFromModuleToModule(ctx, types.DepositAccName, k.feeCollectorName, slashedCoins); err != nil",
     "Keeper.RefundEarnedFees: err := k.bankKeeper.SendCoinsFromModuleToAccount( ctx, types.RequestAccName, provider, sdk.NewCoins(earnedFee), ); err != nil",
     "Keeper.RefundServiceFees: consumer, err := sdk.AccAddressFromBech32(request.Consumer); err != nil",
     "Keeper.RefundServiceFees: err := k.bankKeeper.SendCoinsFromModuleToAccount( ctx, types.RequestAccName, consumer, request.ServiceFee, ); err != nil",
     "Keeper.FilterServiceProviders: exchangedPrice, rawDenom, err := k.GetExchangedPrice(ctx, consumer, binding); err != nil",
     "Keeper.FilterServiceProviders: provider, err := sdk.AccAddressFromBech32(binding.Provider); err != nil",
     "Keeper.WithdrawEarnedFees: !owner.Equals(providerOwner)",
     "Keeper.WithdrawEarnedFees: !found",
     "Keeper.WithdrawEarnedFees: !found",
     "Keeper.AddServiceBinding: _, found := k.GetServiceDefinition(ctx, serviceName); !found",
     "Keeper.AddServiceBinding: _, found := k.GetServiceBinding(ctx, serviceName, provider); found",
     "Keeper.AddServiceBinding: found && !owner.Equals(currentOwner)",
     "Keeper.AddServiceBinding: err := k.validateDeposit(ctx, deposit); err != nil",
     "Keeper.AddServiceBinding: qos > uint64(maxReqTimeout)",
     "Keeper.AddServiceBinding: err := types.ValidateOptions(options); err != nil",
     "Keeper.AddServiceBinding: parsedPricing, err := k.ParsePricing(ctx, pricing); err != nil",
     "Keeper.AddServiceBinding: minDeposit, err := k.GetMinDeposit(ctx, parsedPricing); err != nil",
     "Keeper.AddServiceBinding: !deposit.IsAllGTE(minDeposit)",
     "Keeper.AddServiceBinding: err := k.bankKeeper.SendCoinsFromAccountToModule(ctx, owner, types.DepositAccName, deposit); err != nil",
     "Keeper.UpdateServiceBinding: !found",
     "Keeper.UpdateServiceBinding: bindingOwner, err := sdk.AccAddressFromBech32(binding.Owner); err != nil",
     "Keeper.UpdateServiceBinding: !owner.Equals(bindingOwner)",
     "Keeper.UpdateServiceBinding: qos > uint64(maxReqTimeout)",
     "Keeper.UpdateServiceBinding: err := k.validateDeposit(ctx, deposit); err != nil",
     "Keeper.UpdateServiceBinding: parsedPricing, err = k.ParsePricing(ctx, pricing); err != nil",
     "Keeper.UpdateServiceBinding: err := types.ValidateOptions(options); err != nil",
     "Keeper.UpdateServiceBinding: minDeposit, err := k.GetMinDeposit(ctx, parsedPricing); err != nil",
     "Keeper.UpdateServiceBinding: !binding.Deposit.IsAllGTE(minDeposit)",
     "Keeper.UpdateServiceBinding: err := k.bankKeeper.SendCoinsFromAccountToModule(ctx, owner, types.DepositAccName, deposit); err != nil",
     "Keeper.DisableServiceBinding: !found",
     "Keeper.DisableServiceBinding: bindingOwner, err := sdk.AccAddressFromBech32(binding.Owner); err != nil",
     "Keeper.DisableServiceBinding: !owner.Equals(bindingOwner)",
     "Keeper.DisableServiceBinding: !binding.Available",
     "Keeper.EnableServiceBinding: !found",
     "Keeper.EnableServiceBinding: bindingOwner, err := sdk.AccAddressFromBech32(binding.Owner); err != nil",
     "Keeper.EnableServiceBinding: !owner.Equals(bindingOwner)",
     "Keeper.EnableServiceBinding: binding.Available",
     "Keeper.EnableServiceBinding: err := k.validateDeposit(ctx, deposit); err != nil",
     "Keeper.EnableServiceBinding: minDeposit, err := k.GetMinDeposit(ctx, k.GetPricing(ctx, serviceName, provider)); err != nil",
     "Keeper.EnableServiceBinding: !binding.Deposit.IsAllGTE(minDeposit)",
     "Keeper.EnableServiceBinding: err := k.bankKeeper.SendCoinsFromAccountToModule( ctx, owner, types.DepositAccName, deposit, ); err != nil",
     "Keeper.RefundDeposit: !found",
     "Keeper.RefundDeposit: bindingOwner, err := sdk.AccAddressFromBech32(binding.Owner); err != nil",
     "Keeper.RefundDeposit: !owner.Equals(bindingOwner)",
     "Keeper.RefundDeposit: binding.Available",
     "Keeper.RefundDeposit: binding.Deposit.IsZero()",
     "Keeper.RefundDeposit: currentTime.Before(refundableTime)",
     "Keeper.RefundDeposit: err := k.bankKeeper.SendCoinsFromModuleToAccount( ctx, types.DepositAccName, bindingOwner, binding.Deposit, ); err != nil",
     "Keeper.validateDeposit: len(deposit) != 1 || deposit[0].Denom != baseDenom"] := rfl

/-- every statement of these functions executed for its effect — a call whose result is dropped (store and bank
writes, queue moves, hooks) or a write to a record field — with its nesting depth, in source order: a write that is
dropped, duplicated, reordered or moved into or out of a branch breaks this -/
theorem service_effects_pinned : Irismod.Gen.PureService.effects =
    ["AddEarnedFee: d0 k.SetEarnedFees(ctx, provider, earnedFees.Add(earnedFee...))",
     "AddEarnedFee: d0 k.SetOwnerEarnedFees(ctx, owner, ownerEarnedFees.Add(earnedFee...))",
     "Slash: d0 binding.Deposit = deposit",
     "Slash: d2 binding.Available = false",
     "Slash: d2 binding.DisabledTime = ctx.BlockHeader().Time",
     "Slash: d0 k.SetServiceBinding(ctx, binding)",
     "Keeper.SetEarnedFees: d1 store.Set(types.GetEarnedFeesKey(provider, fees[i].Denom), bz)",
     "Keeper.SetOwnerEarnedFees: d0 k.DeleteOwnerEarnedFees(ctx, owner)",
     "Keeper.SetOwnerEarnedFees: d1 store.Set(types.GetOwnerEarnedFeesKey(owner, fees[i].Denom), bz)",
     "Keeper.DeleteEarnedFees: d0 iterator.Next()",
     "Keeper.DeleteEarnedFees: d1 store.Delete(iterator.Key())",
     "Keeper.DeleteOwnerEarnedFees: d0 iterator.Next()",
     "Keeper.DeleteOwnerEarnedFees: d1 store.Delete(iterator.Key())",
     "Keeper.RefundEarnedFees: d0 iterator.Next()",
     "Keeper.RefundEarnedFees: d1 k.cdc.MustUnmarshal(iterator.Value(), &earnedFee)",
     "Keeper.RefundServiceFees: d0 iterator.Next()",
     "Keeper.RefundServiceFees: d1 k.cdc.MustUnmarshal(iterator.Value(), &requestID)",
     "Keeper.WithdrawEarnedFees: d1 k.DeleteEarnedFees(ctx, provider)",
     "Keeper.WithdrawEarnedFees: d2 k.DeleteOwnerEarnedFees(ctx, owner)",
     "Keeper.WithdrawEarnedFees: d2 k.SetOwnerEarnedFees(ctx, owner, ownerEarnedFees.Sub(earnedFees...))",
     "Keeper.WithdrawEarnedFees: d1 iterator.Next()",
     "Keeper.WithdrawEarnedFees: d2 k.DeleteEarnedFees(ctx, provider)",
     "Keeper.WithdrawEarnedFees: d1 k.DeleteOwnerEarnedFees(ctx, owner)",
     "Keeper.AddServiceBinding: d0 k.SetServiceBinding(ctx, svcBinding)",
     "Keeper.AddServiceBinding: d0 k.SetOwnerServiceBinding(ctx, svcBinding)",
     "Keeper.AddServiceBinding: d0 k.SetPricing(ctx, serviceName, provider, parsedPricing)",
     "Keeper.AddServiceBinding: d1 k.SetOwner(ctx, provider, owner)",
     "Keeper.AddServiceBinding: d1 k.SetOwnerProvider(ctx, owner, provider)",
     "Keeper.UpdateServiceBinding: d1 binding.QoS = qos",
     "Keeper.UpdateServiceBinding: d1 binding.Deposit = binding.Deposit.Add(deposit...)",
     "Keeper.UpdateServiceBinding: d1 binding.Pricing = pricing",
     "Keeper.UpdateServiceBinding: d1 k.SetPricing(ctx, serviceName, provider, parsedPricing)",
     "Keeper.UpdateServiceBinding: d1 binding.Options = options",
     "Keeper.UpdateServiceBinding: d1 k.SetServiceBinding(ctx, binding)",
     "Keeper.DisableServiceBinding: d0 binding.Available = false",
     "Keeper.DisableServiceBinding: d0 binding.DisabledTime = ctx.BlockHeader().Time",
     "Keeper.DisableServiceBinding: d0 k.SetServiceBinding(ctx, binding)",
     "Keeper.EnableServiceBinding: d1 binding.Deposit = binding.Deposit.Add(deposit...)",
     "Keeper.EnableServiceBinding: d0 binding.Available = true",
     "Keeper.EnableServiceBinding: d0 binding.DisabledTime = time.Time{}",
     "Keeper.EnableServiceBinding: d0 k.SetServiceBinding(ctx, binding)",
     "Keeper.RefundDeposit: d0 binding.Deposit = sdk.Coins{}",
     "Keeper.RefundDeposit: d0 k.SetServiceBinding(ctx, binding)"] := rfl

/-- `LegacyNewDecFromInt(n).Mul(r).TruncateInt()` with the library's range checks, on a non-negative amount and
rate: the service model's `mulTrunc` whenever the two checks pass (they do for every amount below 2^196 and rate ≤ 1:
the model carries no range check at this site) -/
theorem mulTrunc_eq_library (n : Nat) (r : Dec) (hr : 0 ≤ r.raw)
    (h1 : inDec (chopRound (((n : Int) * precision) * r.raw)) = true)
    (h2 : inInt256 (chopTrunc (chopRound (((n : Int) * precision) * r.raw))) = true) :
    ((Dec_Mul (LegacyNewDecFromInt (n : Int)) r) >>= Dec_TruncateInt) = some ((Irismod.Service.mulTrunc n r : Nat) : Int) := by
  simp only [Dec_Mul, LegacyNewDecFromInt, Dec.ofInt, Dec.mul, chkDec, h1, if_true, Option.map_some, obind_some,
    Dec_TruncateInt, Dec.truncateInt, chkInt, h2, Irismod.Service.mulTrunc, Irismod.Service.truncNat,
    Irismod.Service.mulDec, Irismod.Service.decOfNat]
  congr 1
  have hnn : 0 ≤ chopTrunc (chopRound ((n : Int) * precision * r.raw)) := by
    have hp : (0 : Int) ≤ (n : Int) * precision * r.raw :=
      Int.mul_nonneg (Int.mul_nonneg (Int.natCast_nonneg n) (by decide)) hr
    have hc : 0 ≤ chopRound ((n : Int) * precision * r.raw) := by
      unfold chopRound
      split
      · omega
      · exact Int.natCast_nonneg _
    unfold chopTrunc
    exact Int.tdiv_nonneg hc (by decide)
  omega

/-- the tax on an earned fee (`AddEarnedFee`) and the slashed amount (`Slash`) are that expression -/
theorem service_tax_and_slash (d : String) (n : Int) (r : Dec) :
    Irismod.Gen.PureService.AddEarnedFee_taxAmount_1 ⟨d, n⟩ r = ((Dec_Mul (LegacyNewDecFromInt n) r) >>= Dec_TruncateInt) ∧
    Irismod.Gen.PureService.Slash_slashedAmt_1 n r = ((Dec_Mul (LegacyNewDecFromInt n) r) >>= Dec_TruncateInt) := by
  unfold Irismod.Gen.PureService.AddEarnedFee_taxAmount_1 Irismod.Gen.PureService.Slash_slashedAmt_1
  constructor <;> (cases Dec_Mul (LegacyNewDecFromInt n) r <;> simp only [obind_some, obind_none] <;>
    (rename_i x; cases Dec_TruncateInt x <;> simp only [obind_some, obind_none]))

end Irismod.Props.Tie
