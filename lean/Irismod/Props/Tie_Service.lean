/-
Tie between the fee arithmetic of the service model and /repo's source, over the REGENERATED translation
`Gen/PureService.lean` (`extract/x_pure`, every run): the tax on an earned service fee (`AddEarnedFee`) and the slashed
part of a deposit (`Slash`) are, call for call, `Service.mulTrunc`.
-/
import Irismod.Gen.PureService
import Irismod.Model.Service
import Irismod.Proofs.GoSemLemmas
namespace Irismod.Props.Tie
open Irismod.Sdk Irismod.GoSem

theorem service_all_translated : Irismod.Gen.PureService.untranslated = [] := rfl
theorem service_translated_pinned :
    Irismod.Gen.PureService.translated = ["AddEarnedFee_taxAmount_1(coin,taxRate)",
     "Slash_slashedAmt_1(depositAmt,slashFraction)"] := rfl

/-- `LegacyNewDecFromInt(n).Mul(r).TruncateInt()` with the library's range checks, on a non-negative amount and
rate: the service model's `mulTrunc` whenever the two checks pass (they do for every amount below 2^196 and rate ≤ 1:
the model carries no range check at this site) -/
theorem mulTrunc_eq_library (n : Nat) (r : Dec) (hr : 0 ≤ r.raw)
    (h1 : inDec (chopRound (((n : Int) * precision) * r.raw)) = true)
    (h2 : inInt256 (chopTrunc (chopRound (((n : Int) * precision) * r.raw))) = true) :
    ((Dec_Mul (LegacyNewDecFromInt (n : Int)) r) >>= Dec_TruncateInt) = some ((Irismod.Service.mulTrunc n r : Nat) : Int) := by
  simp only [Dec_Mul, LegacyNewDecFromInt, Dec.ofInt, Dec.mul, chkDec, h1, if_true, Option.map_some, obind_some,
    Dec_TruncateInt, Dec.truncateInt, chkInt, h2, Irismod.Service.mulTrunc, Irismod.Service.truncNat,
    Irismod.Service.mulDec, Irismod.Service.decOfNat]
  congr 1
  have hnn : 0 ≤ chopTrunc (chopRound ((n : Int) * precision * r.raw)) := by
    have hp : (0 : Int) ≤ (n : Int) * precision * r.raw :=
      Int.mul_nonneg (Int.mul_nonneg (Int.natCast_nonneg n) (by decide)) hr
    have hc : 0 ≤ chopRound ((n : Int) * precision * r.raw) := by
      unfold chopRound
      split
      · omega
      · exact Int.natCast_nonneg _
    unfold chopTrunc
    exact Int.tdiv_nonneg hc (by decide)
  omega

/-- the tax on an earned fee (`AddEarnedFee`) and the slashed amount (`Slash`) are that expression -/
theorem service_tax_and_slash (d : String) (n : Int) (r : Dec) :
    Irismod.Gen.PureService.AddEarnedFee_taxAmount_1 ⟨d, n⟩ r = ((Dec_Mul (LegacyNewDecFromInt n) r) >>= Dec_TruncateInt) ∧
    Irismod.Gen.PureService.Slash_slashedAmt_1 n r = ((Dec_Mul (LegacyNewDecFromInt n) r) >>= Dec_TruncateInt) := by
  unfold Irismod.Gen.PureService.AddEarnedFee_taxAmount_1 Irismod.Gen.PureService.Slash_slashedAmt_1
  constructor <;> (cases Dec_Mul (LegacyNewDecFromInt n) r <;> simp only [obind_some, obind_none] <;>
    (rename_i x; cases Dec_TruncateInt x <;> simp only [obind_some, obind_none]))

end Irismod.Props.Tie
