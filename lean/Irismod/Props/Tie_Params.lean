/-
Tie between C16's parameter model (`Model/Params.lean`: the five `Params.Validate` functions) and
/repo's source, over the REGENERATED translation (`Gen/PureParams.lean`): for every parameter value
whose decimal and integer fields are set (an unset field is the model's `none`, exercised by the
correspondence run), the Go validation function — translated statement by statement — accepts
exactly the sets the model's function accepts, and never panics.
-/
import Irismod.Gen.PureParams
import Irismod.Model.Params
import Irismod.Proofs.GoSemLemmas
namespace Irismod.Props.Tie
open Irismod.Sdk Irismod.GoSem Irismod.Gen.PureParams Irismod.Params

theorem params_all_translated : Irismod.Gen.PureParams.untranslated = [] := rfl

/-- verdict of a model validation: accepted -/
def accepted (r : Res Unit) : Bool := match r with | .ok _ => true | .error _ => false

theorem ValidateDenom_eq (s : String) : ValidateDenom s = validDenom s := by
  unfold ValidateDenom validDenom
  cases s.toList with
  | nil => rfl
  | cons c rest =>
    have : rest.all GoSem.denomTailOk = rest.all Params.denomTailOk := by
      congr 1
    simp only [this]

/-- the model's coin for a Go coin whose amount is set -/
def mcoin (c : GoSem.Coin) : Params.Coin := ⟨c.denom, some c.amount⟩

/-- coinswap `Params.Validate` -/
theorem CoinswapParamsValidate_eq_model (fee tax ufee : Dec) (pcf : GoSem.Coin) :
    CoinswapParamsValidate fee pcf tax ufee =
      some (accepted (coinswapValidate ⟨some fee, some tax, mcoin pcf, some ufee⟩)) := by
  unfold CoinswapParamsValidate coinswapValidate coinswapValidateWith
  have hg : Gen.Handlers.coinswapValidatesFeeDenom = true := rfl
  simp only [hg, Bool.true_and, decOpenOpen, decClosedOpen, coinPositive, mcoin, ValidateDenom_eq,
    Dec_GT, Dec_LT, Dec_GTE, Coin_IsPositive, LegacyZeroDec, LegacyOneDec, Dec.zero, Dec.one]
  by_cases a1 : 0 < fee.raw <;> by_cases a2 : fee.raw < precision <;> simp only [a1, a2, accepted, and_self, and_true, and_false, false_and, true_and, if_true, if_false, decide_true, decide_false, Bool.not_true, Bool.not_false, Bool.or_self, Bool.or_true, Bool.true_or, Bool.or_false, Bool.false_eq_true] <;>
  by_cases b : 0 < pcf.amount <;> simp only [b, accepted, and_self, if_true, if_false, decide_true, decide_false, Bool.not_true, Bool.not_false, Bool.false_eq_true] <;>
  by_cases c : validDenom pcf.denom = true <;> simp only [c, accepted, if_true, if_false, Bool.not_true, Bool.not_false, Bool.false_eq_true, beq_self_eq_true, Bool.true_eq_false] <;>
  by_cases d1 : 0 < tax.raw <;> by_cases d2 : tax.raw < precision <;> simp only [d1, d2, accepted, and_self, and_true, and_false, false_and, true_and, if_true, if_false, decide_true, decide_false, Bool.not_true, Bool.not_false, Bool.or_self, Bool.or_true, Bool.true_or, Bool.or_false, Bool.false_eq_true] <;>
  by_cases e1 : 0 ≤ ufee.raw <;> by_cases e2 : ufee.raw < precision <;> simp [e1, e2, accepted]

/-- farm `Params.Validate` (with `validatePoolCreationFee`, `validateTaxRate`) -/
theorem FarmParamsValidate_eq_model (pcf : GoSem.Coin) (tax : Dec) (n : Nat) :
    FarmParamsValidate pcf tax = some (accepted (farmValidate ⟨mcoin pcf, some tax, n⟩)) := by
  unfold FarmParamsValidate FarmValidatePoolCreationFee FarmValidateTaxRate farmValidate farmValidateWith
  have hg1 : Gen.Handlers.farmValidatesTaxRate = true := rfl
  have hg2 : Gen.Handlers.farmTaxRateNilGuard = true := rfl
  simp only [hg1, hg2, farmTaxRateCheck, coinIsValid, mcoin, Coin_IsValid, ValidateDenom_eq, Dec_IsNil,
    Dec_GT, Dec_LT, LegacyZeroDec, LegacyOneDec, Dec.zero, Dec.one, obind_some]
  by_cases c : validDenom pcf.denom = true <;> by_cases b : 0 ≤ pcf.amount <;>
  by_cases d1 : 0 < tax.raw <;> by_cases d2 : tax.raw < precision <;> simp [c, b, d1, d2, accepted, obind_some]

/-- token `validateTaxRate` / `validateMintTokenFeeRatio`: a decimal in [0,1] -/
theorem TokenValidateTaxRate_eq_model (d : Dec) :
    TokenValidateTaxRate d = some (accepted (decClosedClosed (some d))) := by
  unfold TokenValidateTaxRate decClosedClosed
  simp only [Dec_GT_new1, Dec_LT_zero]
  by_cases d1 : 0 ≤ d.raw <;> by_cases d2 : d.raw ≤ precision <;> simp [d1, d2, accepted] <;> (try simp only [decide_eq_true_eq, decide_eq_false_iff_not]) <;> omega

theorem TokenValidateMintTokenFeeRatio_eq_model (d : Dec) :
    TokenValidateMintTokenFeeRatio d = some (accepted (decClosedClosed (some d))) := by
  unfold TokenValidateMintTokenFeeRatio decClosedClosed
  simp only [Dec_GT_new1, Dec_LT_zero]
  by_cases d1 : 0 ≤ d.raw <;> by_cases d2 : d.raw ≤ precision <;> simp [d1, d2, accepted] <;> (try simp only [decide_eq_true_eq, decide_eq_false_iff_not]) <;> omega

/-- token `validateIssueTokenBaseFee`: not negative, valid denomination -/
theorem TokenValidateIssueTokenBaseFee_eq_model (c : GoSem.Coin) :
    TokenValidateIssueTokenBaseFee c = some (decide (0 ≤ c.amount) && validDenom c.denom) := by
  unfold TokenValidateIssueTokenBaseFee
  simp only [Coin_IsNegative, ValidateDenom_eq]
  by_cases b : c.amount < 0 <;> by_cases v : validDenom c.denom = true <;> simp [b, v] <;> (try simp only [decide_eq_true_eq, decide_eq_false_iff_not]) <;> omega

/-- the token model's `Params.Validate` performs exactly these three checks before the beacon check -/
theorem tokenValidate_components (tax ratio : Dec) (fee : GoSem.Coin) (erc : Bool) :
    accepted (tokenValidate ⟨some tax, mcoin fee, some ratio, erc, ""⟩) =
      (accepted (decClosedClosed (some tax)) && accepted (decClosedClosed (some ratio)) &&
        (decide (0 ≤ fee.amount) && validDenom fee.denom)) := by
  unfold tokenValidate tokenValidateWith
  have hg : Gen.Handlers.tokenValidatesFeeDenom = true := rfl
  simp only [hg, decClosedClosed, intIsNegative, mcoin]
  by_cases a : 0 ≤ tax.raw ∧ tax.raw ≤ precision <;> by_cases b : 0 ≤ ratio.raw ∧ ratio.raw ≤ precision <;>
  by_cases c : fee.amount < 0 <;> by_cases v : validDenom fee.denom = true <;> simp [a, b, c, v, accepted] <;> (try simp only [decide_eq_true_eq, decide_eq_false_iff_not]) <;> omega

theorem Coins_ValidateTail_eq (low : String) (cs : List GoSem.Coin) :
    Coins_ValidateTail low cs = accepted (coinsValidateTail low (cs.map mcoin)) := by
  induction cs generalizing low with
  | nil => rfl
  | cons c rest ih =>
    simp only [Coins_ValidateTail, List.map_cons, coinsValidateTail, ValidateDenom_eq, Coin_IsPositive, mcoin, coinPositive, ih]
    by_cases v : validDenom c.denom = true
    · by_cases l : low < c.denom
      · have l1 : ¬ c.denom < low := fun h => absurd (String.lt_trans l h) (String.lt_irrefl _)
        have l2 : ¬ c.denom = low := fun h => by rw [h] at l; exact String.lt_irrefl _ l
        by_cases p : 0 < c.amount
        · simp only [v, l, l1, l2, p, decide_true, Bool.true_and, Bool.not_true, Bool.false_eq_true, if_false, if_true]
        · simp [v, l, l1, l2, p, accepted]
      · by_cases h : c.denom < low
        · simp [v, l, h, accepted]
        · have e : c.denom = low := String.le_antisymm l h
          simp [v, l, h, e, accepted]
    · simp [v, accepted]

theorem Coins_Validate_eq (cs : List GoSem.Coin) :
    Coins_Validate cs = accepted (coinsValidate (cs.map mcoin)) := by
  cases cs with
  | nil => rfl
  | cons c rest =>
    simp only [Coins_Validate, List.map_cons, coinsValidate, ValidateDenom_eq, Coin_IsPositive, mcoin, coinPositive,
      Coins_ValidateTail_eq]
    by_cases v : validDenom c.denom = true <;> by_cases p : 0 < c.amount <;> simp [v, p, accepted, mcoin]

/-- the rewriting set of the case analyses below -/
local macro "ssimp" "[" hs:ident,* "]" : tactic =>
  `(tactic| simp only [$[$hs:ident],*, decide_true, decide_false, if_true, if_false, obind_some, Bool.not_true, Bool.not_false,
      Bool.false_eq_true, accepted, beq_self_eq_true, Bool.or_self, Bool.or_true, Bool.true_or, Bool.or_false,
      Bool.false_or, not_true_eq_false, not_false_eq_true, beq_true, Bool.true_eq_false, Bool.false_eq_true, and_self, and_true, true_and, beq_iff_eq])

/-- service `Params.Validate` with its ten validators -/
theorem ServiceParamsValidate_eq_model (timeout mult retro arb : Int) (dep : List GoSem.Coin) (slash tax : Dec)
    (tx : Nat) (base : String) (restricted : Bool) :
    ServiceParamsValidate timeout mult dep slash tax retro arb tx base restricted =
      some (accepted (serviceValidate ⟨timeout, mult, dep.map mcoin, some tax, some slash, retro, arb, tx, base, restricted⟩)) := by
  unfold ServiceParamsValidate ServiceValidateMaxRequestTimeout ServiceValidateMinDepositMultiple ServiceValidateMinDeposit
    ServiceValidateSlashFraction ServiceValidateServiceFeeTax ServiceValidateComplaintRetrospect
    ServiceValidateArbitrationTimeLimit ServiceValidateTxSizeLimit ServiceValidateRestrictedServiceFeeDenom serviceValidate
  simp only [Coins_IsValid, Coins_Validate_eq, ValidateDenom_eq, Dec_LT_zero, Dec_GT_one, Dec_GTE_one, decClosedClosed,
    decClosedOpen, obind_some]
  by_cases h1 : timeout ≤ 0 <;> ssimp [h1] <;> try rfl
  by_cases h2 : mult ≤ 0 <;> ssimp [h2] <;> try rfl
  cases hd : coinsValidate (dep.map mcoin) with
  | error e => ssimp [hd]
  | ok u =>
    ssimp [hd]
    by_cases s1 : slash.raw < 0
    · have m : ¬(0 ≤ slash.raw ∧ slash.raw ≤ precision) := by omega
      ssimp [s1, m]
    by_cases s2 : precision < slash.raw
    · have m : ¬(0 ≤ slash.raw ∧ slash.raw ≤ precision) := by omega
      ssimp [s1, s2, m]
    have ms : 0 ≤ slash.raw ∧ slash.raw ≤ precision := by omega
    by_cases t1 : tax.raw < 0
    · have m : ¬(0 ≤ tax.raw ∧ tax.raw < precision) := by omega
      ssimp [s1, s2, ms, t1, m]
    by_cases t2 : precision ≤ tax.raw
    · have m : ¬(0 ≤ tax.raw ∧ tax.raw < precision) := by omega
      ssimp [s1, s2, ms, t1, t2, m]
    have mt : 0 ≤ tax.raw ∧ tax.raw < precision := by omega
    ssimp [s1, s2, ms, t1, t2, mt]
    by_cases r : retro ≤ 0 <;> ssimp [r] <;> try rfl
    by_cases a : arb ≤ 0 <;> ssimp [a] <;> try rfl
    by_cases x : tx = 0 <;> ssimp [x] <;> try rfl
    by_cases b : validDenom base = true <;> ssimp [b] <;> try rfl

end Irismod.Props.Tie
