/-
Tie between the HTLC model's identifiers and /repo's `types.GetHashLock` / `types.GetID` (htlc/types/htlc.go), over the
REGENERATED translation `Gen/PureHtlcId.lean` (`extract/x_pure`, every run): the hash lock binds the secret to the
timestamp exactly when the timestamp is non-zero, and the id is the digest of hash lock ‖ sender ‖ recipient ‖ the
printed amount — the two functions C03's "claim presents the preimage bound to the contract's timestamp" is stated
over (`Htlc.genLock`, `Htlc.genId`).
-/
import Irismod.Gen.PureHtlcId
import Irismod.Model.Htlc
namespace Irismod.Props.Tie
open Irismod Irismod.GoSem Irismod.Gen.PureHtlcId Irismod.Htlc

theorem htlcid_all_translated : Irismod.Gen.PureHtlcId.untranslated = [] := rfl
theorem htlcid_translated_pinned : Irismod.Gen.PureHtlcId.translated = ["GetHashLock(secret,timestamp)",
     "GetID(sender,to,amount,hashLock,read_amount_Sort__String)"] := rfl

/-- every rejecting guard (an `if` ending in the return of an error, or in a panic) of the translated functions and of
the handlers around them, as source text in source order: removing, weakening or reordering one breaks this -/
theorem htlcid_guards_pinned : Irismod.Gen.PureHtlcId.guards =
    [] := rfl

/-- every statement of these functions executed for its effect — a call whose result is dropped (store and bank
writes, queue moves, hooks) or a write to a record field — with its nesting depth, in source order: a write that is
dropped, duplicated, reordered or moved into or out of a branch breaks this -/
theorem htlcid_effects_pinned : Irismod.Gen.PureHtlcId.effects =
    [] := rfl

theorem Uint64ToBigEndian_eq_model (n : Nat) : Uint64ToBigEndian n = be64 n := rfl

/-- `GetHashLock` = the model's `genLock` (as bytes), for every secret and timestamp -/
theorem GetHashLock_eq_model (secret : String) (ts : Nat) :
    (GetHashLock (hexBytes secret) ts).map Irismod.Line.hexOfBytes = some (genLock secret ts) := by
  unfold GetHashLock genLock tmhash_Sum Bytes_append
  by_cases h : ts > 0
  · simp [h, Uint64ToBigEndian_eq_model]
  · simp [h]

/-- `GetID` = the model's `genId`, given that the printed amount is the model's `coinsString` (the differential run
compares every id byte for byte) -/
theorem GetID_eq_model (lock : String) (sender to : String) (coins : Irismod.Htlc.Coins) (cs : List GoSem.Coin) :
    (GetID (addrBytes sender) (addrBytes to) cs (hexBytes lock) (coinsString coins)).map Irismod.Line.hexOfBytes =
      some (genId lock sender to coins) := by
  unfold GetID genId tmhash_Sum Bytes_append Bytes_ofString
  rfl

end Irismod.Props.Tie
