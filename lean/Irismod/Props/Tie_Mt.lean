/-
Tie between the MT model's fixed-width arithmetic (C15 is *about* wrap-around) and /repo's source, over the REGENERATED
translation `Gen/PureMt.lean` (`extract/x_pure`, every run): the overflow guards and the unchecked `+=` / `-=` of
`AddBalance`, `SubBalance`, `IncreaseMTSupply` and `decreaseMTSupply` (mt/keeper/balance.go), translated with Go's
modulo-2^64 semantics, are the `UInt64` operations and the ℕ-level guards of the model.
-/
import Irismod.Gen.PureMt
import Irismod.Model.Mt
namespace Irismod.Props.Tie
open Irismod.GoSem Irismod.Gen.PureMt Irismod.Mt

theorem mt_all_translated : Irismod.Gen.PureMt.untranslated = [] := rfl
theorem mt_translated_pinned : Irismod.Gen.PureMt.translated =
    ["AddBalance_balance_1(read_k_GetBalance_ctx_denomID_mtID_addr)",
     "AddBalance_guard_1(balance,amount)",
     "AddBalance_balance_2(balance,amount)",
     "SubBalance_balance_1(read_k_GetBalance_ctx_denomID_mtID_addr)",
     "SubBalance_balance_2(balance,amount)",
     "IncreaseMTSupply_supply_1(read_k_GetMTSupply_ctx_denomID_mtID)",
     "IncreaseMTSupply_guard_1(supply,amount)",
     "IncreaseMTSupply_supply_2(supply,amount)",
     "decreaseMTSupply_supply_1(read_k_GetMTSupply_ctx_denomID_mtID)",
     "decreaseMTSupply_supply_2(supply,amount)"] := rfl

/-- the overflow guard `MaxUint64 - x < n` of `AddBalance` / `IncreaseMTSupply` is the model's ℕ-level guard -/
theorem overflow_guard_eq_model (cur n : UInt64) :
    AddBalance_guard_1 cur.toNat n.toNat = some (decide (maxU64 - cur.toNat < n.toNat)) ∧
    IncreaseMTSupply_guard_1 cur.toNat n.toNat = some (decide (maxU64 - cur.toNat < n.toNat)) := by
  have hc : cur.toNat < 18446744073709551616 := cur.toNat_lt
  have e : U64_Sub 18446744073709551615 cur.toNat = maxU64 - cur.toNat := by
    unfold U64_Sub maxU64; omega
  unfold AddBalance_guard_1 IncreaseMTSupply_guard_1
  rw [e]
  exact ⟨rfl, rfl⟩

/-- `x += n` and `x -= n` on `uint64` are the model's wrapping `UInt64` addition and subtraction -/
theorem wrapping_ops_eq_model (cur n : UInt64) :
    AddBalance_balance_2 cur.toNat n.toNat = some (cur + n).toNat ∧
    IncreaseMTSupply_supply_2 cur.toNat n.toNat = some (cur + n).toNat ∧
    SubBalance_balance_2 cur.toNat n.toNat = some (cur - n).toNat ∧
    decreaseMTSupply_supply_2 cur.toNat n.toNat = some (cur - n).toNat := by
  have hc : cur.toNat < 18446744073709551616 := cur.toNat_lt
  have hn : n.toNat < 18446744073709551616 := n.toNat_lt
  have ea : U64_Add cur.toNat n.toNat = (cur + n).toNat := by
    unfold U64_Add; rw [UInt64.toNat_add]
  have es : U64_Sub cur.toNat n.toNat = (cur - n).toNat := by
    unfold U64_Sub; rw [UInt64.toNat_sub]; omega
  unfold AddBalance_balance_2 IncreaseMTSupply_supply_2 SubBalance_balance_2 decreaseMTSupply_supply_2
  rw [ea, es]
  exact ⟨rfl, rfl, rfl, rfl⟩

end Irismod.Props.Tie
