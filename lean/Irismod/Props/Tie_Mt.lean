/-
Tie between the MT model's fixed-width arithmetic (C15 is *about* wrap-around) and /repo's source, over the REGENERATED
translation `Gen/PureMt.lean` (`extract/x_pure`, every run): the overflow guards and the unchecked `+=` / `-=` of
`AddBalance`, `SubBalance`, `IncreaseMTSupply` and `decreaseMTSupply` (mt/keeper/balance.go), translated with Go's
modulo-2^64 semantics, are the `UInt64` operations and the ℕ-level guards of the model.
-/
import Irismod.Gen.PureMt
import Irismod.Model.Mt
namespace Irismod.Props.Tie
open Irismod.GoSem Irismod.Gen.PureMt Irismod.Mt

theorem mt_all_translated : Irismod.Gen.PureMt.untranslated = [] := rfl
theorem mt_translated_pinned : Irismod.Gen.PureMt.translated =
    ["AddBalance_balance_1(read_k_GetBalance_ctx_denomID_mtID_addr)",
     "AddBalance_guard_1(balance,amount)",
     "AddBalance_balance_2(balance,amount)",
     "SubBalance_balance_1(read_k_GetBalance_ctx_denomID_mtID_addr)",
     "SubBalance_balance_2(balance,amount)",
     "IncreaseMTSupply_supply_1(read_k_GetMTSupply_ctx_denomID_mtID)",
     "IncreaseMTSupply_guard_1(supply,amount)",
     "IncreaseMTSupply_supply_2(supply,amount)",
     "decreaseMTSupply_supply_1(read_k_GetMTSupply_ctx_denomID_mtID)",
     "decreaseMTSupply_supply_2(supply,amount)"] := rfl

/-- every rejecting guard (an `if` ending in the return of an error, or in a panic) of the translated functions and of
the handlers around them, as source text in source order: removing, weakening or reordering one breaks this -/
theorem mt_guards_pinned : Irismod.Gen.PureMt.guards =
    ["AddBalance: math.MaxUint64-balance < amount",
     "IncreaseMTSupply: math.MaxUint64-supply < amount",
     "Keeper.IssueMT: err := k.IncreaseMTSupply(ctx, denomID, mt.GetID(), amount); err != nil",
     "Keeper.IssueMT: err := k.AddBalance(ctx, denomID, mt.GetID(), amount, recipient); err != nil",
     "Keeper.MintMT: err := k.IncreaseMTSupply(ctx, denomID, mtID, amount); err != nil",
     "Keeper.EditMT: mt, err := k.GetMT(ctx, denomID, mtID); err != nil",
     "Keeper.TransferOwner: srcOwnerAmount < amount",
     "Keeper.BurnMT: srcOwnerAmount < amount",
     "Keeper.TransferDenomOwner: err := k.Authorize(ctx, denomID, srcOwner); err != nil",
     "Keeper.TransferDenomOwner: err := k.UpdateDenom(ctx, denom); err != nil",
     "Keeper.Authorize: !found",
     "Keeper.Authorize: owner.String() != denom.Owner",
     "msgServer.IssueDenom: sender, err := sdk.AccAddressFromBech32(msg.Sender); err != nil",
     "msgServer.MintMT: sender, err := sdk.AccAddressFromBech32(msg.Sender); err != nil",
     "msgServer.MintMT: recipient, err = sdk.AccAddressFromBech32(msg.Recipient); err != nil",
     "msgServer.MintMT: err := m.Keeper.Authorize(ctx, msg.DenomId, sender); err != nil",
     "msgServer.MintMT: !m.Keeper.HasMT(ctx, msg.DenomId, mtID)",
     "msgServer.MintMT: err := m.Keeper.MintMT(ctx, msg.DenomId, mtID, msg.Amount, recipient); err != nil",
     "msgServer.MintMT: mt, err := m.Keeper.IssueMT(ctx, msg.DenomId, m.Keeper.genMTID(ctx), msg.Amount, msg.Data, recipient); err != nil",
     "msgServer.MintMT: mt, err := m.Keeper.GetMT(ctx, msg.DenomId, mtID); err != nil",
     "msgServer.EditMT: sender, err := sdk.AccAddressFromBech32(msg.Sender); err != nil",
     "msgServer.EditMT: err := m.Keeper.Authorize(ctx, msg.DenomId, sender); err != nil",
     "msgServer.EditMT: err := m.Keeper.EditMT(ctx, msg.DenomId, msg.Id, msg.Data, sender); err != nil",
     "msgServer.TransferMT: sender, err := sdk.AccAddressFromBech32(msg.Sender); err != nil",
     "msgServer.TransferMT: recipient, err := sdk.AccAddressFromBech32(msg.Recipient); err != nil",
     "msgServer.TransferMT: err := m.Keeper.TransferOwner(ctx, msg.DenomId, msg.Id, msg.Amount, sender, recipient); err != nil",
     "msgServer.BurnMT: sender, err := sdk.AccAddressFromBech32(msg.Sender); err != nil",
     "msgServer.BurnMT: err := m.Keeper.BurnMT(ctx, msg.DenomId, msg.Id, msg.Amount, sender); err != nil",
     "msgServer.TransferDenom: sender, err := sdk.AccAddressFromBech32(msg.Sender); err != nil",
     "msgServer.TransferDenom: recipient, err := sdk.AccAddressFromBech32(msg.Recipient); err != nil",
     "msgServer.TransferDenom: err := m.Keeper.TransferDenomOwner(ctx, msg.Id, sender, recipient); err != nil"] := rfl

/-- every statement of these functions executed for its effect — a call whose result is dropped (store and bank
writes, queue moves, hooks) or a write to a record field — with its nesting depth, in source order: a write that is
dropped, duplicated, reordered or moved into or out of a branch breaks this -/
theorem mt_effects_pinned : Irismod.Gen.PureMt.effects =
    ["AddBalance: d0 store.Set(types.KeyBalance(addr, denomID, mtID), bz)",
     "SubBalance: d0 store.Set(types.KeyBalance(addr, denomID, mtID), bz)",
     "IncreaseMTSupply: d0 store.Set(types.KeySupply(denomID, mtID), bz)",
     "decreaseMTSupply: d0 store.Set(types.KeySupply(denomID, mtID), bz)",
     "Keeper.Transfer: d0 k.SubBalance(ctx, denomID, mtID, amount, from)",
     "Keeper.IssueDenom: d0 k.SetDenom(ctx, denom)",
     "Keeper.IssueMT: d0 k.SetMT(ctx, denomID, mt)",
     "Keeper.IssueMT: d0 k.IncreaseDenomSupply(ctx, denomID)",
     "Keeper.EditMT: d1 k.SetMT(ctx, denomID, newMT)",
     "Keeper.BurnMT: d0 k.SubBalance(ctx, denomID, mtID, amount, owner)",
     "Keeper.BurnMT: d0 k.decreaseMTSupply(ctx, denomID, mtID, amount)",
     "Keeper.TransferDenomOwner: d0 denom.Owner = dstOwner.String()"] := rfl

/-- the overflow guard `MaxUint64 - x < n` of `AddBalance` / `IncreaseMTSupply` is the model's ℕ-level guard -/
theorem overflow_guard_eq_model (cur n : UInt64) :
    AddBalance_guard_1 cur.toNat n.toNat = some (decide (maxU64 - cur.toNat < n.toNat)) ∧
    IncreaseMTSupply_guard_1 cur.toNat n.toNat = some (decide (maxU64 - cur.toNat < n.toNat)) := by
  have hc : cur.toNat < 18446744073709551616 := cur.toNat_lt
  have e : U64_Sub 18446744073709551615 cur.toNat = maxU64 - cur.toNat := by
    unfold U64_Sub maxU64; omega
  unfold AddBalance_guard_1 IncreaseMTSupply_guard_1
  rw [e]
  exact ⟨rfl, rfl⟩

/-- `x += n` and `x -= n` on `uint64` are the model's wrapping `UInt64` addition and subtraction -/
theorem wrapping_ops_eq_model (cur n : UInt64) :
    AddBalance_balance_2 cur.toNat n.toNat = some (cur + n).toNat ∧
    IncreaseMTSupply_supply_2 cur.toNat n.toNat = some (cur + n).toNat ∧
    SubBalance_balance_2 cur.toNat n.toNat = some (cur - n).toNat ∧
    decreaseMTSupply_supply_2 cur.toNat n.toNat = some (cur - n).toNat := by
  have hc : cur.toNat < 18446744073709551616 := cur.toNat_lt
  have hn : n.toNat < 18446744073709551616 := n.toNat_lt
  have ea : U64_Add cur.toNat n.toNat = (cur + n).toNat := by
    unfold U64_Add; rw [UInt64.toNat_add]
  have es : U64_Sub cur.toNat n.toNat = (cur - n).toNat := by
    unfold U64_Sub; rw [UInt64.toNat_sub]; omega
  unfold AddBalance_balance_2 IncreaseMTSupply_supply_2 SubBalance_balance_2 decreaseMTSupply_supply_2
  rw [ea, es]
  exact ⟨rfl, rfl, rfl, rfl⟩

end Irismod.Props.Tie
