/-
C16 — headline theorems: parameters change only by authority, stay valid, never break handlers.

* `handlers_gated_and_validating`: over the handler table REGENERATED from /repo on every run —
  every `UpdateParams` compares the authority first and stores only through the validating
  `SetParams`, every `ValidateBasic` validates, every genesis import goes through `SetParams`.
* (a) authority: a non-authority sender is refused and the stored parameters do not change.
* (b) validity: a set that `Params.Validate` refuses is stored neither by a message nor by
  genesis import; the stored sets are valid after every history of updates.
* (c) no-abort of the parameter-consuming handler fragments under every validated set, for ALL
  inputs; where this is false of the code the full statement is kept, refuted by a concrete
  witness, and the strongest true `_partial` theorem carries the excluded class as an explicit
  hypothesis (F-par-1 farm tax rate, F-par-2 unvalidated fee denomination, F-par-3 amounts whose
  checked arithmetic overflows).
-/
import Irismod.Spec.C16
import Irismod.Proofs.Params

namespace Irismod.Props.C16
open Irismod Irismod.Sdk Irismod.Params Irismod.Spec.C16


/-! ## regenerated handler table -/

theorem handlers_gated_and_validating : allHandlersOk = true := by decide

/-! ## (a) only the authority changes parameters -/

/-- the update path, for any module: a sender other than the authority gets an error
    (a rejection, or the validation's own nil-pointer panic inside `ValidateBasic`) -/
theorem update_refuses_non_authority {P : Type} (validate : P → Res Unit) (norm : P → P)
    (auth sender : String) (p : P) (h : sender ≠ auth) :
    ∃ e, updateParams validate norm auth sender p = .error e := by
  unfold updateParams
  cases validate p with
  | error e => exact ⟨e, rfl⟩
  | ok u => simp [h]

/-- an accepted update comes from the authority, passed validation, and stores the submitted set -/
theorem update_accepted_iff {P : Type} (validate : P → Res Unit) (norm : P → P)
    (auth sender : String) (p q : P) :
    updateParams validate norm auth sender p = .ok q ↔
      sender = auth ∧ validate p = .ok () ∧ q = norm p := by
  unfold updateParams
  cases hv : validate p with
  | error e => simp
  | ok u =>
    by_cases hs : sender = auth
    · simp [hs, eq_comm]
    · simp [hs]

/-- all five modules: a message from a non-authority sender leaves every stored set unchanged -/
theorem non_authority_update_changes_nothing (s : Store) (sender : String) (p : AnyParams)
    (h : sender ≠ authority) : applyOp s ⟨sender, p⟩ = s := by
  unfold applyOp stepUpdate
  cases p with
  | coinswap q =>
    obtain ⟨e, he⟩ := update_refuses_non_authority coinswapValidate id authority sender q h
    simp [he, Except.map]
  | farm q =>
    obtain ⟨e, he⟩ := update_refuses_non_authority farmValidate farmNorm authority sender q h
    simp [he, Except.map]
  | htlc q =>
    obtain ⟨e, he⟩ := update_refuses_non_authority htlcValidate id authority sender q h
    simp [he, Except.map]
  | service q =>
    obtain ⟨e, he⟩ := update_refuses_non_authority serviceValidate id authority sender q h
    simp [he, Except.map]
  | token q =>
    obtain ⟨e, he⟩ := update_refuses_non_authority tokenValidate id authority sender q h
    simp [he, Except.map]

/-! ## (b) a set that validation refuses is never stored -/

theorem update_refuses_invalid {P : Type} (validate : P → Res Unit) (norm : P → P)
    (auth sender : String) (p : P) (h : validate p ≠ .ok ()) :
    ∃ e, updateParams validate norm auth sender p = .error e := by
  unfold updateParams
  cases hv : validate p with
  | error e => exact ⟨e, rfl⟩
  | ok u => exact absurd hv h

/-- by message, whoever sends it -/
theorem invalid_never_stored_by_update (s : Store) (sender : String) (p : AnyParams)
    (h : validateAny p ≠ .ok ()) : applyOp s ⟨sender, p⟩ = s := by
  unfold applyOp stepUpdate
  cases p with
  | coinswap q =>
    obtain ⟨e, he⟩ := update_refuses_invalid coinswapValidate id authority sender q h
    simp [he, Except.map]
  | farm q =>
    obtain ⟨e, he⟩ := update_refuses_invalid farmValidate farmNorm authority sender q h
    simp [he, Except.map]
  | htlc q =>
    obtain ⟨e, he⟩ := update_refuses_invalid htlcValidate id authority sender q h
    simp [he, Except.map]
  | service q =>
    obtain ⟨e, he⟩ := update_refuses_invalid serviceValidate id authority sender q h
    simp [he, Except.map]
  | token q =>
    obtain ⟨e, he⟩ := update_refuses_invalid tokenValidate id authority sender q h
    simp [he, Except.map]

theorem importGenesis_refuses_invalid {P : Type} (vg validate : P → Res Unit) (norm : P → P)
    (extra : P → Bool) (p : P) (h : validate p ≠ .ok ()) :
    importGenesis vg validate norm extra p = .error (.panic .genesis) := by
  unfold importGenesis
  cases vg p with
  | error e => rfl
  | ok u =>
    cases hv : validate p with
    | error e => rfl
    | ok u => exact absurd hv h

/-- by genesis import: `InitGenesis` aborts and nothing is stored -/
theorem invalid_never_stored_by_genesis (p : AnyParams) (h : validateAny p ≠ .ok ()) :
    (genesisAny p).2 = .error (.panic .genesis) := by
  cases p with
  | coinswap q =>
    have hq : coinswapValidate q ≠ .ok () := h
    simp [genesisAny, importGenesis_refuses_invalid coinswapValidate coinswapValidate id (fun _ => true) q hq, Except.map]
  | farm q =>
    have hq : farmValidate q ≠ .ok () := h
    simp [genesisAny, importGenesis_refuses_invalid farmValidateGenesis farmValidate farmNorm (fun _ => true) q hq, Except.map]
  | htlc q =>
    have hq : htlcValidate q ≠ .ok () := h
    simp [genesisAny, importGenesis_refuses_invalid htlcValidate htlcValidate id (fun _ => true) q hq, Except.map]
  | service q =>
    have hq : serviceValidate q ≠ .ok () := h
    simp [genesisAny, importGenesis_refuses_invalid serviceValidate serviceValidate id (fun _ => true) q hq, Except.map]
  | token q =>
    have hq : tokenValidate q ≠ .ok () := h
    simp [genesisAny, importGenesis_refuses_invalid tokenValidate tokenValidate id (tokenGenesisExtra baseSymbols) q hq, Except.map]

/-- what genesis import stores passed validation -/
theorem genesis_stored_is_valid {P : Type} (vg validate : P → Res Unit) (norm : P → P)
    (extra : P → Bool) (p q : P) (h : importGenesis vg validate norm extra p = .ok q) :
    validate p = .ok () ∧ q = norm p := by
  unfold importGenesis at h
  split at h
  · cases h
  · split at h
    · cases h
    · rename_i hv
      split at h
      · cases h; exact ⟨hv, rfl⟩
      · cases h

/-! ### the stored sets are valid after every history -/

theorem defaults_valid : StoreValid {} := by
  refine ⟨?_, ?_, by decide, by decide, ?_⟩
  · show coinswapValidateWith _ coinswapDefault = .ok ()
    generalize Gen.Handlers.coinswapValidatesFeeDenom = c
    cases c <;> decide
  · show farmValidateWith _ _ farmDefault = .ok ()
    generalize Gen.Handlers.farmValidatesTaxRate = c
    generalize Gen.Handlers.farmTaxRateNilGuard = g
    cases c <;> cases g <;> decide
  · show tokenValidateWith _ tokenDefault = .ok ()
    generalize Gen.Handlers.tokenValidatesFeeDenom = c
    cases c <;> decide

theorem applyOp_preserves_valid (s : Store) (op : UpdateOp) (h : StoreValid s) :
    StoreValid (applyOp s op) := by
  obtain ⟨h1, h2, h3, h4, h5⟩ := h
  unfold applyOp stepUpdate
  cases hp : op.params with
  | coinswap q =>
    cases hu : updateParams coinswapValidate id authority op.sender q with
    | error e => simp [hu, Except.map]; exact ⟨h1, h2, h3, h4, h5⟩
    | ok r =>
      obtain ⟨_, hv, rfl⟩ := (update_accepted_iff _ _ _ _ _ _).1 hu
      simp [hu, Except.map]; exact ⟨hv, h2, h3, h4, h5⟩
  | farm q =>
    cases hu : updateParams farmValidate farmNorm authority op.sender q with
    | error e => simp [hu, Except.map]; exact ⟨h1, h2, h3, h4, h5⟩
    | ok r =>
      obtain ⟨_, hv, rfl⟩ := (update_accepted_iff _ _ _ _ _ _).1 hu
      simp [hu, Except.map]; exact ⟨h1, farmValidateWith_norm hv, h3, h4, h5⟩
  | htlc q =>
    cases hu : updateParams htlcValidate id authority op.sender q with
    | error e => simp [hu, Except.map]; exact ⟨h1, h2, h3, h4, h5⟩
    | ok r =>
      obtain ⟨_, hv, rfl⟩ := (update_accepted_iff _ _ _ _ _ _).1 hu
      simp [hu, Except.map]; exact ⟨h1, h2, hv, h4, h5⟩
  | service q =>
    cases hu : updateParams serviceValidate id authority op.sender q with
    | error e => simp [hu, Except.map]; exact ⟨h1, h2, h3, h4, h5⟩
    | ok r =>
      obtain ⟨_, hv, rfl⟩ := (update_accepted_iff _ _ _ _ _ _).1 hu
      simp [hu, Except.map]; exact ⟨h1, h2, h3, hv, h5⟩
  | token q =>
    cases hu : updateParams tokenValidate id authority op.sender q with
    | error e => simp [hu, Except.map]; exact ⟨h1, h2, h3, h4, h5⟩
    | ok r =>
      obtain ⟨_, hv, rfl⟩ := (update_accepted_iff _ _ _ _ _ _).1 hu
      simp [hu, Except.map]; exact ⟨h1, h2, h3, h4, hv⟩

/-- invariant over all histories of update messages, from the default genesis -/
theorem stored_params_always_valid (ops : List UpdateOp) : StoreValid (run {} ops) := by
  have gen : ∀ (ops : List UpdateOp) (s : Store), StoreValid s → StoreValid (run s ops) := by
    intro ops
    induction ops with
    | nil => intro s h; exact h
    | cons op rest ih => intro s h; exact ih (applyOp s op) (applyOp_preserves_valid s op h)
  exact gen ops {} defaults_valid

/-! ## (c) validated parameters never abort the handlers that consume them

### coinswap -/

/-- full statement for pool creation (`DeductPoolCreationFee`), as a function of whether
    `Params.Validate` checks the fee denomination (regenerated fact); the amount bound excludes
    the overflow class F-par-3 -/
def CoinswapPoolCreationNoAbort (checksDenom : Bool) : Prop :=
  ∀ p : CoinswapParams, coinswapValidateWith checksDenom p = .ok () →
    (∀ a, p.poolCreationFee.amount = some a → a < pow2_255) →
    NoAbort (poolCreationFee p.poolCreationFee p.taxRate)

/-- F-par-2: `Params.Validate` checks only the sign of the pool creation fee; with an empty
    denomination the set is accepted and `sdk.NewCoin` panics in `AddLiquidity` -/
theorem coinswap_noabort_fails_unvalidated_denom : ¬ CoinswapPoolCreationNoAbort false := by
  intro h
  have := h { coinswapDefault with poolCreationFee := ⟨"", some 5000⟩ } (by decide)
    (by intro a ha; cases ha; decide) .badDenom
  exact this (by decide)

/-- F-par-3: a fee amount near 2^256 overflows the 315-bit decimal in `Mul(taxRate)`, whatever is
    validated about the denomination -/
theorem coinswap_noabort_fails_extreme_amount :
    ∃ p : CoinswapParams, (∀ c, coinswapValidateWith c p = .ok ()) ∧
      poolCreationFee p.poolCreationFee p.taxRate = .error (.panic .overflow) :=
  ⟨{ coinswapDefault with poolCreationFee := ⟨"stake", some (pow2_256i - 1)⟩, taxRate := some ⟨999999999999999999⟩ },
    by intro c; cases c <;> decide, by decide⟩

/-- the strongest statement true of the unfixed code: with a well-formed fee denomination
    (excludes F-par-2) and a fee amount below 2^255 (excludes F-par-3) pool creation never aborts,
    and splits the fee exactly -/
theorem coinswap_pool_creation_noabort_partial (c : Bool) (p : CoinswapParams)
    (hv : coinswapValidateWith c p = .ok ())
    (hd : validDenom p.poolCreationFee.denom = true)
    (hb : ∀ a, p.poolCreationFee.amount = some a → a < pow2_255) :
    ∃ tax burned, poolCreationFee p.poolCreationFee p.taxRate = .ok (tax, burned) ∧
      (∀ a, p.poolCreationFee.amount = some a → tax + burned = a) ∧ 0 ≤ tax ∧ 0 ≤ burned := by
  obtain ⟨_, ⟨a, ha, ha0⟩, ⟨tax, htax, ht0, ht1⟩, _, _⟩ := coinswapValidateWith_ok hv
  obtain ⟨t, b, hs, hsum, h1, h2⟩ := feeSplit_ok p.poolCreationFee.denom a tax hd (by omega) (hb a ha)
    (by omega) (by omega)
  refine ⟨t, b, ?_, ?_, h1, h2⟩
  · simp [poolCreationFee, ha, htax, hs]
  · intro a' ha'; rw [ha] at ha'; cases ha'; exact hsum

/-- with the denomination check in place the full statement holds -/
theorem coinswap_noabort_when_denom_validated : CoinswapPoolCreationNoAbort true := by
  intro p hv hb k
  obtain ⟨_, _, _, _, hd⟩ := coinswapValidateWith_ok hv
  obtain ⟨t, b, hs, _⟩ := coinswap_pool_creation_noabort_partial true p hv (hd rfl) hb
  rw [hs]; simp

/-- the code as it is on this run -/
theorem coinswap_noabort_current (h : Gen.Handlers.coinswapValidatesFeeDenom = true) (p : CoinswapParams)
    (hv : coinswapValidate p = .ok ()) (hb : ∀ a, p.poolCreationFee.amount = some a → a < pow2_255) :
    NoAbort (poolCreationFee p.poolCreationFee p.taxRate) := by
  unfold coinswapValidate at hv
  rw [h] at hv
  exact coinswap_noabort_when_denom_validated p hv hb

/-- for EVERY fee amount: a validated set with a well-formed denomination aborts pool creation at
    most by overflow (never nil, never a negative coin) -/
theorem coinswap_pool_creation_only_overflow (c : Bool) (p : CoinswapParams)
    (hv : coinswapValidateWith c p = .ok ()) (hd : validDenom p.poolCreationFee.denom = true) :
    OnlyOverflow (poolCreationFee p.poolCreationFee p.taxRate) := by
  obtain ⟨_, ⟨a, ha, ha0⟩, ⟨tax, htax, ht0, ht1⟩, _, _⟩ := coinswapValidateWith_ok hv
  intro k h
  simp only [poolCreationFee, ha, htax] at h
  exact feeSplit_only_overflow _ a tax hd (by omega) (by omega) (by omega) k h

/-- swaps: under every validated fee, for ALL amounts and reserves, the price functions never
    divide by zero (the only abort left is the 256-bit overflow of the checked products, which
    does not depend on the parameters' validity) -/
theorem coinswap_prices_never_divide_by_zero (p : CoinswapParams) (hv : coinswapValidate p = .ok ())
    (amt inRes outRes : Int) :
    (0 ≤ amt → 0 ≤ inRes → (0 < inRes ∨ 0 < amt) → OnlyOverflow (inputPrice amt inRes outRes p.fee)) ∧
    (amt < outRes → OnlyOverflow (outputPrice amt inRes outRes p.fee)) := by
  obtain ⟨⟨fee, hfee, hf0, hf1⟩, _⟩ := coinswapValidateWith_ok hv
  rw [hfee]
  exact ⟨fun h1 h2 h3 => inputPrice_only_overflow fee hf0 hf1 amt inRes outRes h1 h2 h3,
         fun h => outputPrice_only_overflow fee hf0 hf1 amt inRes outRes h⟩

/-- … and with amounts and reserves below 2^96 the swaps do not abort at all -/
theorem coinswap_prices_noabort_bounded (p : CoinswapParams) (hv : coinswapValidate p = .ok ())
    (amt inRes outRes : Int) (h1 : 0 ≤ amt ∧ amt < pow2_96) (h2 : 0 ≤ inRes ∧ inRes < pow2_96)
    (h3 : 0 ≤ outRes ∧ outRes < pow2_96) :
    ((0 < inRes ∨ 0 < amt) → NoAbort (inputPrice amt inRes outRes p.fee)) ∧
    (amt < outRes → NoAbort (outputPrice amt inRes outRes p.fee)) := by
  obtain ⟨⟨fee, hfee, hf0, hf1⟩, _⟩ := coinswapValidateWith_ok hv
  rw [hfee]
  exact ⟨fun h => inputPrice_noabort_bounded fee hf0 hf1 amt inRes outRes h1 h2 h3 h,
         fun h => outputPrice_noabort_bounded fee hf0 hf1 amt inRes outRes h1 h2 h3 h⟩

/-- unilateral liquidity: `1 - UnilateralLiquidityFee` is a numerator in `[1, 10^18]`, never zero -/
theorem coinswap_unilateral_delta_positive (p : CoinswapParams) (hv : coinswapValidate p = .ok ()) :
    ∃ d, deltaFeeInt p.unilateralLiquidityFee = .ok d ∧ 1 ≤ d ∧ d ≤ precision := by
  obtain ⟨_, _, _, ⟨u, hu, hu0, hu1⟩, _⟩ := coinswapValidateWith_ok hv
  exact ⟨precision - u.raw, by rw [hu]; exact deltaFeeInt_ok' u hu0 hu1, by omega, by omega⟩

/-! ### farm: the tax-rate check is a regenerated fact -/

/-- full statement for `CreatePool`'s fee, as a function of whether `Params.Validate` calls
    `validateTaxRate` (and whether that guards an unset decimal) -/
def FarmNoAbort (checksTax nilGuard : Bool) : Prop :=
  ∀ (p : FarmParams) (n : Nat), farmValidateWith checksTax nilGuard p = .ok () →
    (∀ a, p.poolCreationFee.amount = some a → a < pow2_255) → NoAbort (farmCreatePoolFee p n)

theorem farmCreatePoolFee_noabort_of_rate (p : FarmParams) (n : Nat) (r : Dec)
    (hfee : coinIsValid p.poolCreationFee = true) (hr : p.taxRate = some r)
    (hr0 : 0 ≤ r.raw) (hr1 : r.raw ≤ precision)
    (hb : ∀ a, p.poolCreationFee.amount = some a → a < pow2_255) : NoAbort (farmCreatePoolFee p n) := by
  obtain ⟨hd, a, ha, ha0⟩ := coinIsValid_ok hfee
  obtain ⟨t, b, hs, _⟩ := feeSplit_ok p.poolCreationFee.denom a r hd ha0 (hb a ha) hr0 hr1
  intro k
  unfold farmCreatePoolFee
  split
  · simp
  · simp [poolCreationFee, ha, hr, hs]

/-- with the tax-rate check in place the statement holds … -/
theorem farm_noabort_when_tax_rate_validated (g : Bool) : FarmNoAbort true g := by
  intro p n hv hb
  obtain ⟨hfee, r, hr, hr0, hr1⟩ := farmValidateWith_true_ok hv
  exact farmCreatePoolFee_noabort_of_rate p n r hfee hr (by omega) (by omega) hb

/-- … and without it, it is false (F-par-1): tax rate 2 is accepted and `CreatePool` panics with
    "negative coin amount" -/
theorem farm_noabort_fails_when_tax_rate_unvalidated (g : Bool) : ¬ FarmNoAbort false g := by
  intro h
  have := h ⟨⟨"stake", some 5000⟩, some ⟨2000000000000000000⟩, 2⟩ 1 (by cases g <;> decide)
    (by intro a ha; cases ha; decide) .negCoin
  exact this (by decide)

/-- the code as it is on this run: if the regenerated fact says the check is there, no abort -/
theorem farm_noabort_current (h : Gen.Handlers.farmValidatesTaxRate = true) (p : FarmParams) (n : Nat)
    (hv : farmValidate p = .ok ()) (hb : ∀ a, p.poolCreationFee.amount = some a → a < pow2_255) :
    NoAbort (farmCreatePoolFee p n) := by
  unfold farmValidate at hv
  rw [h] at hv
  exact farm_noabort_when_tax_rate_validated _ p n hv hb

/-- the strongest statement true of the unfixed code: the excluded class (tax rate unset or
    outside [0,1]) is an explicit hypothesis -/
theorem farm_noabort_partial (c g : Bool) (p : FarmParams) (n : Nat) (hv : farmValidateWith c g p = .ok ())
    (r : Dec) (hr : p.taxRate = some r) (hr0 : 0 ≤ r.raw) (hr1 : r.raw ≤ precision)
    (hb : ∀ a, p.poolCreationFee.amount = some a → a < pow2_255) : NoAbort (farmCreatePoolFee p n) :=
  farmCreatePoolFee_noabort_of_rate p n r (farmValidateWith_fee hv) hr hr0 hr1 hb

/-! ### service -/

/-- fee tax, slash and minimum-deposit fragments under every validated set: no abort for amounts
    below 2^255, and for ALL non-negative amounts at most an overflow -/
theorem service_fragments_noabort (p : ServiceParams) (hv : serviceValidate p = .ok ()) (x : Int) (h0 : 0 ≤ x) :
    OnlyOverflow (earnedFeeSplit x p.serviceFeeTax) ∧
    OnlyOverflow (slashSplit p.baseDenom x p.slashFraction) ∧
    OnlyOverflow (minDepositBase p x) ∧
    (x < pow2_255 → NoAbort (earnedFeeSplit x p.serviceFeeTax) ∧
                     NoAbort (slashSplit p.baseDenom x p.slashFraction)) := by
  obtain ⟨_, hm, _, ⟨s, hs, hs0, hs1⟩, ⟨t, ht, ht0, ht1⟩, _, _, _, hd⟩ := serviceValidate_ok hv
  rw [hs, ht]
  refine ⟨earnedFeeSplit_only_overflow x t h0 ht0 (by omega), slashSplit_only_overflow _ x s hd h0 hs0 hs1,
    minDepositBase_only_overflow p x hd h0 hm, fun hb => ⟨?_, ?_⟩⟩
  · exact earnedFeeSplit_noabort x t h0 hb ht0 (by omega)
  · exact slashSplit_noabort _ x s hd h0 hb hs0 hs1

/-- every request timeout / QoS the default set admits that is ≤ the stored maximum stays
    admissible: the guard is a plain comparison with a positive bound -/
theorem service_timeout_window (p : ServiceParams) (hv : serviceValidate p = .ok ()) :
    timeoutOk p 1 = true := by
  obtain ⟨h, _⟩ := serviceValidate_ok hv
  simp [timeoutOk]; omega

/-! ### token -/

/-- full statement for the issue/mint fee paths, as a function of whether the base-fee
    denomination is validated (regenerated fact); the amount bound excludes F-par-3 -/
def TokenFeePathsNoAbort (checksDenom : Bool) : Prop :=
  ∀ (p : TokenParams) (reg : TokenReg) (factor : Dec), tokenValidateWith checksDenom p = .ok () →
    RegOk reg → precision ≤ factor.raw → (∀ a, p.issueTokenBaseFee.amount = some a → a < pow2_128) →
    NoAbort (issueFeePath p reg factor) ∧ NoAbort (mintFeePath p reg factor)

/-- F-par-2: the issue-fee denomination is not validated; `sdk.NewCoin` panics in `IssueToken`,
    `MintToken` (and the fee ante handler / fee query) -/
theorem token_noabort_fails_unvalidated_denom : ¬ TokenFeePathsNoAbort false := by
  intro h
  have := (h { tokenDefault with issueTokenBaseFee := ⟨"", some 60000⟩ } [] ⟨precision⟩ (by decide)
    (by intro e he; cases he) (by decide) (by intro a ha; cases ha; decide)).1 .badDenom
  exact this (by decide)

/-- F-par-3: a base fee near 2^256 overflows the decimal quotient -/
theorem token_noabort_fails_extreme_amount :
    ∃ p : TokenParams, (∀ c, tokenValidateWith c p = .ok ()) ∧
      issueFeePath p batteryReg factor3 = .error (.panic .overflow) :=
  ⟨{ tokenDefault with issueTokenBaseFee := ⟨"stake", some (pow2_256i - 1)⟩ },
    by intro c; cases c <;> decide, by decide⟩

theorem token_fee_paths_noabort_partial (c : Bool) (p : TokenParams) (reg : TokenReg) (factor : Dec)
    (hv : tokenValidateWith c p = .ok ()) (hreg : RegOk reg) (hf : precision ≤ factor.raw)
    (hd : validDenom p.issueTokenBaseFee.denom = true)
    (hb : ∀ a, p.issueTokenBaseFee.amount = some a → a < pow2_128) :
    NoAbort (issueFeePath p reg factor) ∧ NoAbort (mintFeePath p reg factor) := by
  obtain ⟨⟨t, ht, ht0, ht1⟩, ⟨r, hr, hr0, hr1⟩, ⟨a, ha, ha0⟩, _⟩ := tokenValidateWith_ok hv
  exact ⟨issueFeePath_noabort p reg factor a t ha ha0 (hb a ha) hd hf ht ht0 ht1 hreg,
         mintFeePath_noabort p reg factor a t r ha ha0 (hb a ha) hd hf ht ht0 ht1 hr hr0 hr1 hreg⟩

theorem token_noabort_when_denom_validated : TokenFeePathsNoAbort true := by
  intro p reg factor hv hreg hf hb
  obtain ⟨_, _, _, hd⟩ := tokenValidateWith_ok hv
  exact token_fee_paths_noabort_partial true p reg factor hv hreg hf (hd rfl) hb

theorem token_noabort_current (h : Gen.Handlers.tokenValidatesFeeDenom = true) (p : TokenParams)
    (reg : TokenReg) (factor : Dec) (hv : tokenValidate p = .ok ()) (hreg : RegOk reg)
    (hf : precision ≤ factor.raw) (hb : ∀ a, p.issueTokenBaseFee.amount = some a → a < pow2_128) :
    NoAbort (issueFeePath p reg factor) ∧ NoAbort (mintFeePath p reg factor) := by
  unfold tokenValidate at hv
  rw [h] at hv
  exact token_noabort_when_denom_validated p reg factor hv hreg hf hb

/-! ### htlc -/

/-- asset limits and supply counters: under every validated asset, for ALL counters and amounts,
    the HTLT fragments abort at most by 256-bit overflow … -/
theorem htlc_fragments_only_overflow (p : HtlcParams) (hv : htlcValidate p = .ok ())
    (a : AssetParam) (ha : a ∈ p) (s : Supply) (amt : Int) (tl : Nat) :
    OnlyOverflow (htltIncoming a s amt) ∧ OnlyOverflow (htltOutgoing a s amt tl) ∧
    OnlyOverflow (htltClaimIncoming a s amt) := by
  have hok := htlcValidate_ok hv a ha
  exact ⟨htltIncoming_only_overflow hok s amt, htltOutgoing_only_overflow hok s amt tl,
         htltClaimIncoming_only_overflow hok s amt⟩

/-- … and not at all while counters, amounts and the fee/min-swap parameters stay below 2^128 -/
theorem htlc_fragments_noabort_partial (p : HtlcParams) (hv : htlcValidate p = .ok ())
    (a : AssetParam) (ha : a ∈ p) (s : Supply) (hs : SupplySmall s) (amt : Int)
    (hamt : 0 ≤ amt ∧ amt < pow2_128) (tl : Nat)
    (hfee : ∀ f mn, a.fixedFee = some f → a.minSwapAmount = some mn → f < pow2_128 ∧ mn < pow2_128) :
    NoAbort (htltIncoming a s amt) ∧ NoAbort (htltOutgoing a s amt tl) ∧
    NoAbort (htltClaimIncoming a s amt) := by
  have hok := htlcValidate_ok hv a ha
  exact ⟨htltIncoming_noabort hok hs hamt, htltOutgoing_noabort hok hs hamt tl hfee,
         htltClaimIncoming_noabort hok hs hamt⟩

/-- F-par-3 for htlc: `FixedFee.Add(MinSwapAmount)` is a sum of two parameters; both 2^255 pass
    validation and every outgoing HTLT of that asset panics with "integer overflow" -/
theorem htlc_noabort_fails_extreme_amount :
    ∃ (a : AssetParam) (amt : Int), htlcValidate [a] = .ok () ∧
      htltOutgoing a {} amt a.maxBlockLock = .error (.panic .overflow) :=
  ⟨{ denom := "htltbnb", supplyLimit := ⟨some (pow2_256i - 1), false, 0, some 0⟩, active := true, deputy := "A3",
     fixedFee := some pow2_255, minSwapAmount := some pow2_255, maxSwapAmount := some pow2_255,
     minBlockLock := 50, maxBlockLock := 100 }, pow2_255, by decide, by decide⟩

/-- time windows: a validated asset always admits a time lock that the message validation admits -/
theorem htlc_time_window_nonempty (p : HtlcParams) (hv : htlcValidate p = .ok ()) (a : AssetParam) (ha : a ∈ p) :
    ∃ tl, minTimeLock ≤ tl ∧ tl ≤ maxTimeLock ∧ a.minBlockLock ≤ tl ∧ tl ≤ a.maxBlockLock := by
  obtain ⟨h1, h2, h3⟩ := (htlcValidate_ok hv a ha).lock
  exact ⟨a.minBlockLock, h1, by omega, by omega, h2⟩

end Irismod.Props.C16
