/-
C16 — headline theorems: parameters change only by authority, stay valid, never break handlers.

* `handlers_gated_and_validating`: over the handler table REGENERATED from /repo on every run —
  every `UpdateParams` compares the authority first and stores only through the validating
  `SetParams`, every `ValidateBasic` validates, every genesis import goes through `SetParams`.
* (a) authority: a non-authority sender is refused and the stored parameters do not change.
* (b) validity: a set that `Params.Validate` refuses is stored neither by a message nor by
  genesis import; the stored sets are valid after every history of updates.
* (c) no-abort of the parameter-consuming handler fragments under every validated set, for ALL
  inputs; where this is false of the code the full statement is kept, refuted by a concrete
  witness, and the strongest true `_partial` theorem carries the excluded class as an explicit
  hypothesis (F-par-1 farm tax rate, F-par-2 unvalidated fee denomination, F-par-3 amounts whose
  checked arithmetic overflows).
-/
import Irismod.Spec.C16
import Irismod.Proofs.Params

namespace Irismod.Props.C16
open Irismod Irismod.Sdk Irismod.Params Irismod.Spec.C16

/-! ## regenerated handler table -/

theorem handlers_gated_and_validating : allHandlersOk = true := by decide

/-! ## (a) only the authority changes parameters -/

/-- the update path, for any module: a sender other than the authority gets an error
    (a rejection, or the validation's own nil-pointer panic inside `ValidateBasic`) -/
theorem update_refuses_non_authority {P : Type} (validate : P → Res Unit) (norm : P → P)
    (auth sender : String) (p : P) (h : sender ≠ auth) :
    ∃ e, updateParams validate norm auth sender p = .error e := by
  unfold updateParams
  cases validate p with
  | error e => exact ⟨e, rfl⟩
  | ok u => simp [h]

/-- an accepted update comes from the authority, passed validation, and stores the submitted set -/
theorem update_accepted_iff {P : Type} (validate : P → Res Unit) (norm : P → P)
    (auth sender : String) (p q : P) :
    updateParams validate norm auth sender p = .ok q ↔
      sender = auth ∧ validate p = .ok () ∧ q = norm p := by
  unfold updateParams
  cases hv : validate p with
  | error e => simp
  | ok u =>
    by_cases hs : sender = auth
    · simp [hs, eq_comm]
    · simp [hs]

/-- all five modules: a message from a non-authority sender leaves every stored set unchanged -/
theorem non_authority_update_changes_nothing (s : Store) (sender : String) (p : AnyParams)
    (h : sender ≠ authority) : applyOp s ⟨sender, p⟩ = s := by
  unfold applyOp stepUpdate
  cases p with
  | coinswap q =>
    obtain ⟨e, he⟩ := update_refuses_non_authority coinswapValidate id authority sender q h
    simp [he, Except.map]
  | farm q =>
    obtain ⟨e, he⟩ := update_refuses_non_authority farmValidate farmNorm authority sender q h
    simp [he, Except.map]
  | htlc q =>
    obtain ⟨e, he⟩ := update_refuses_non_authority htlcValidate id authority sender q h
    simp [he, Except.map]
  | service q =>
    obtain ⟨e, he⟩ := update_refuses_non_authority serviceValidate id authority sender q h
    simp [he, Except.map]
  | token q =>
    obtain ⟨e, he⟩ := update_refuses_non_authority tokenValidate id authority sender q h
    simp [he, Except.map]

/-! ## (b) a set that validation refuses is never stored -/

theorem update_refuses_invalid {P : Type} (validate : P → Res Unit) (norm : P → P)
    (auth sender : String) (p : P) (h : validate p ≠ .ok ()) :
    ∃ e, updateParams validate norm auth sender p = .error e := by
  unfold updateParams
  cases hv : validate p with
  | error e => exact ⟨e, rfl⟩
  | ok u => exact absurd hv h

/-- by message, whoever sends it -/
theorem invalid_never_stored_by_update (s : Store) (sender : String) (p : AnyParams)
    (h : validateAny p ≠ .ok ()) : applyOp s ⟨sender, p⟩ = s := by
  unfold applyOp stepUpdate
  cases p with
  | coinswap q =>
    obtain ⟨e, he⟩ := update_refuses_invalid coinswapValidate id authority sender q h
    simp [he, Except.map]
  | farm q =>
    obtain ⟨e, he⟩ := update_refuses_invalid farmValidate farmNorm authority sender q h
    simp [he, Except.map]
  | htlc q =>
    obtain ⟨e, he⟩ := update_refuses_invalid htlcValidate id authority sender q h
    simp [he, Except.map]
  | service q =>
    obtain ⟨e, he⟩ := update_refuses_invalid serviceValidate id authority sender q h
    simp [he, Except.map]
  | token q =>
    obtain ⟨e, he⟩ := update_refuses_invalid tokenValidate id authority sender q h
    simp [he, Except.map]

theorem importGenesis_refuses_invalid {P : Type} (vg validate : P → Res Unit) (norm : P → P)
    (extra : P → Bool) (p : P) (h : validate p ≠ .ok ()) :
    importGenesis vg validate norm extra p = .error (.panic .genesis) := by
  unfold importGenesis
  cases vg p with
  | error e => rfl
  | ok u =>
    cases hv : validate p with
    | error e => rfl
    | ok u => exact absurd hv h

/-- by genesis import: `InitGenesis` aborts and nothing is stored -/
theorem invalid_never_stored_by_genesis (p : AnyParams) (h : validateAny p ≠ .ok ()) :
    (genesisAny p).2 = .error (.panic .genesis) := by
  cases p with
  | coinswap q =>
    have hq : coinswapValidate q ≠ .ok () := h
    simp [genesisAny, importGenesis_refuses_invalid coinswapValidate coinswapValidate id (fun _ => true) q hq, Except.map]
  | farm q =>
    have hq : farmValidate q ≠ .ok () := h
    simp [genesisAny, importGenesis_refuses_invalid farmValidateGenesis farmValidate farmNorm (fun _ => true) q hq, Except.map]
  | htlc q =>
    have hq : htlcValidate q ≠ .ok () := h
    simp [genesisAny, importGenesis_refuses_invalid htlcValidate htlcValidate id (fun _ => true) q hq, Except.map]
  | service q =>
    have hq : serviceValidate q ≠ .ok () := h
    simp [genesisAny, importGenesis_refuses_invalid serviceValidate serviceValidate id (fun _ => true) q hq, Except.map]
  | token q =>
    have hq : tokenValidate q ≠ .ok () := h
    simp [genesisAny, importGenesis_refuses_invalid tokenValidate tokenValidate id (tokenGenesisExtra baseSymbols) q hq, Except.map]

/-- what genesis import stores passed validation -/
theorem genesis_stored_is_valid {P : Type} (vg validate : P → Res Unit) (norm : P → P)
    (extra : P → Bool) (p q : P) (h : importGenesis vg validate norm extra p = .ok q) :
    validate p = .ok () ∧ q = norm p := by
  unfold importGenesis at h
  split at h
  · cases h
  · split at h
    · cases h
    · rename_i hv
      split at h
      · cases h; exact ⟨hv, rfl⟩
      · cases h

/-! ### the stored sets are valid after every history -/

theorem defaults_valid : StoreValid {} := by
  refine ⟨by decide, ?_, by decide, by decide, by decide⟩
  show farmValidateWith _ _ farmDefault = .ok ()
  generalize Gen.Handlers.farmValidatesTaxRate = c
  generalize Gen.Handlers.farmTaxRateNilGuard = g
  cases c <;> cases g <;> decide

theorem applyOp_preserves_valid (s : Store) (op : UpdateOp) (h : StoreValid s) :
    StoreValid (applyOp s op) := by
  obtain ⟨h1, h2, h3, h4, h5⟩ := h
  unfold applyOp stepUpdate
  cases hp : op.params with
  | coinswap q =>
    cases hu : updateParams coinswapValidate id authority op.sender q with
    | error e => simp [hu, Except.map]; exact ⟨h1, h2, h3, h4, h5⟩
    | ok r =>
      obtain ⟨_, hv, rfl⟩ := (update_accepted_iff _ _ _ _ _ _).1 hu
      simp [hu, Except.map]; exact ⟨hv, h2, h3, h4, h5⟩
  | farm q =>
    cases hu : updateParams farmValidate farmNorm authority op.sender q with
    | error e => simp [hu, Except.map]; exact ⟨h1, h2, h3, h4, h5⟩
    | ok r =>
      obtain ⟨_, hv, rfl⟩ := (update_accepted_iff _ _ _ _ _ _).1 hu
      simp [hu, Except.map]; exact ⟨h1, farmValidateWith_norm hv, h3, h4, h5⟩
  | htlc q =>
    cases hu : updateParams htlcValidate id authority op.sender q with
    | error e => simp [hu, Except.map]; exact ⟨h1, h2, h3, h4, h5⟩
    | ok r =>
      obtain ⟨_, hv, rfl⟩ := (update_accepted_iff _ _ _ _ _ _).1 hu
      simp [hu, Except.map]; exact ⟨h1, h2, hv, h4, h5⟩
  | service q =>
    cases hu : updateParams serviceValidate id authority op.sender q with
    | error e => simp [hu, Except.map]; exact ⟨h1, h2, h3, h4, h5⟩
    | ok r =>
      obtain ⟨_, hv, rfl⟩ := (update_accepted_iff _ _ _ _ _ _).1 hu
      simp [hu, Except.map]; exact ⟨h1, h2, h3, hv, h5⟩
  | token q =>
    cases hu : updateParams tokenValidate id authority op.sender q with
    | error e => simp [hu, Except.map]; exact ⟨h1, h2, h3, h4, h5⟩
    | ok r =>
      obtain ⟨_, hv, rfl⟩ := (update_accepted_iff _ _ _ _ _ _).1 hu
      simp [hu, Except.map]; exact ⟨h1, h2, h3, h4, hv⟩

/-- invariant over all histories of update messages, from the default genesis -/
theorem stored_params_always_valid (ops : List UpdateOp) : StoreValid (run {} ops) := by
  have gen : ∀ (ops : List UpdateOp) (s : Store), StoreValid s → StoreValid (run s ops) := by
    intro ops
    induction ops with
    | nil => intro s h; exact h
    | cons op rest ih => intro s h; exact ih (applyOp s op) (applyOp_preserves_valid s op h)
  exact gen ops {} defaults_valid

end Irismod.Props.C16
