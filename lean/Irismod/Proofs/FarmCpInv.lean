/-
The invariants of the community-pool path (C05(e), C06 for community-pool farms, C13): the
escrow-collector identity, the gov account, the community pool covered by the distribution module
account, and the escrow-info table mirroring the live proposals — for every operation.
-/
import Irismod.Proofs.FarmCpOutside

namespace Irismod.Proofs.Farm
open Irismod Irismod.Sdk Irismod.Farm Irismod.Spec

/-- the invariant bundle of the community-pool path -/
structure CpInv (s : State) : Prop where
  escrow : C05.EscrowAccount s
  gov    : C05.GovAccount s
  backed : C05.Backed s
  tables : C05.Tables s

/-! ### arithmetic of coin lists -/

theorem coinSum_eq (cs : CoinList) (d : Denom) : C05.coinSum cs d = sumOf cs d := by
  induction cs with
  | nil => rfl
  | cons c t ih => obtain ⟨d0, n⟩ := c; simp only [C05.coinSum, sumOf, ih]

theorem escrowHolds_eq (d : Denom) (e : Escrow) : C05.escrowHolds d e = sumOf e.applied d + sumOf e.selfBond d := by
  unfold C05.escrowHolds; rw [coinSum_eq, coinSum_eq]

theorem sumOf_addCoin (c : Denom × Nat) : ∀ (l : CoinList) (d : Denom),
    sumOf (addCoin c l) d = sumOf l d + (if c.1 = d then c.2 else 0)
  | [], d => by obtain ⟨c1, c2⟩ := c; simp [addCoin, sumOf]
  | (d0, n) :: t, d => by
    obtain ⟨c1, c2⟩ := c
    unfold addCoin
    simp only
    split
    · simp only [sumOf]; omega
    · split
      · rename_i _ e
        subst e
        simp only [sumOf]
        split <;> omega
      · simp only [sumOf]
        have := sumOf_addCoin (c1, c2) t d
        simp only at this
        rw [this]; omega

theorem sumOf_foldl_addCoin : ∀ (b a : CoinList) (d : Denom),
    sumOf (b.foldl (fun acc c => addCoin c acc) a) d = sumOf a d + sumOf b d
  | [], a, d => by simp [sumOf]
  | c :: t, a, d => by
    obtain ⟨c1, c2⟩ := c
    simp only [List.foldl_cons]
    rw [sumOf_foldl_addCoin t _ d, sumOf_addCoin]
    simp only [sumOf]; omega

/-- the total of a proposal is what its escrow info says, denom by denom -/
theorem sumOf_totalOf (c : Content) (d : Denom) : sumOf (totalOf c) d = sumOf c.applied d + sumOf c.selfBond d := by
  unfold totalOf mergeCoins
  rw [sumOf_nonzero, sumOf_foldl_addCoin]

theorem backed_iff (s : State) : C05.Backed s ↔ ∀ d, 0 ≤ C05.distrGap s d := by
  unfold C05.Backed C05.distrGap
  constructor
  · intro h d; have := h d; omega
  · intro h d; have := h d; omega

/-! ### the operations of the farm module proper -/

theorem cpInv_outside {s s' : State} (o : Outside s s') (h : CpInv s) : CpInv s' := by
  refine ⟨?_, ?_, ?_, ?_⟩
  · intro d
    unfold C05.expectedEscrow
    rw [o.escrow d, o.esc]; exact h.escrow d
  · unfold C05.GovAccount C05.expectedGov
    rw [o.gov, o.props]; exact h.gov
  · rw [backed_iff]; intro d; rw [o.lock d]; exact (backed_iff s).mp h.backed d
  · obtain ⟨t1, t2, t3, t4, t5, t6⟩ := h.tables
    refine ⟨?_, ?_, ?_, by rw [o.esc]; exact t4, by rw [o.props]; exact t5, ?_⟩
    · intro pid e hg; rw [o.esc] at hg; rw [o.props]; exact t1 pid e hg
    · intro pid pr hg ha; rw [o.props] at hg; rw [o.esc]; exact t2 pid pr hg ha
    · intro pid hle; rw [o.next] at hle; rw [o.props, o.esc]; exact t3 pid hle
    · intro pid pr hg ha; rw [o.props] at hg; exact t6 pid pr hg ha

/-! ### `MsgFundCommunityPool` -/

theorem user_ne3 {a : Addr} (h : isModuleAcc a = false) : a ≠ escrowAcc ∧ a ≠ govAcc ∧ a ≠ distrAcc := by
  have := user_notW h
  exact ⟨fun e => this (Or.inl e), fun e => this (Or.inr (Or.inl e)), fun e => this (Or.inr (Or.inr e))⟩

theorem cpInv_fundCp {s s' : State} {sender : Addr} {amt : CoinList} (hu : isModuleAcc sender = false)
    (hi : CpInv s) (h : stepFundCp s sender amt = .ok s') : CpInv s' := by
  obtain ⟨s1, h1, rfl⟩ := stepFundCp_ok h
  obtain ⟨u1, u2, u3⟩ := user_ne3 hu
  have b1 := (sendAll_ok h1).1
  obtain ⟨_, d2, d3⟩ := sendCoins_deltas _ _ _ _ _ u3 (sendAll_ok h1).2
  apply cpInv_outside (s := s) _ hi
  refine ⟨fun d => d3 escrowAcc d (Ne.symm u1) (by decide), fun d => d3 govAcc d (Ne.symm u2) (by decide),
    by show s1.cp.escrow = _; rw [b1.cp], by show s1.cp.props = _; rw [b1.cp], by show s1.cp.nextId = _; rw [b1.cp], ?_⟩
  intro d
  unfold C05.distrGap C05.cpoolOf
  show ((s1.bank.balOf distrAcc d * decUnit : Nat) : Int) - (cpGet (if true = true then cpAddCoins s1.cp.pool amt else s1.cp.pool) d : Int) = _
  simp only [if_true]
  rw [cpGet_addCoins, d2 d, b1.cp, Nat.add_mul]
  push_cast
  omega

/-! ### `MsgCreatePoolWithCommunityPool` -/

theorem sumBy_set_new {K V : Type} [DecidableEq K] (f : V → Nat) (m : AMap K V) (k : K) (v : V)
    (h : AMap.get? m k = none) : AMap.sumBy f (AMap.set m k v) = AMap.sumBy f m + f v := by
  have := sumBy_set f m k v
  rw [h] at this
  simpa using this

theorem sumBy_set_old {K V : Type} [DecidableEq K] (f : V → Nat) (m : AMap K V) (k : K) (v v0 : V)
    (h : AMap.get? m k = some v0) : AMap.sumBy f (AMap.set m k v) + f v0 = AMap.sumBy f m + f v := by
  have := sumBy_set f m k v
  rw [h] at this
  simpa using this

theorem sumBy_erase {K V : Type} [DecidableEq K] (f : V → Nat) (m : AMap K V) (k : K) (v0 : V)
    (hn : NodupKeys m) (h : AMap.get? m k = some v0) : AMap.sumBy f (AMap.erase m k) + f v0 = AMap.sumBy f m := by
  have := sumIf_erase (fun _ => true) f m k hn
  rw [h] at this
  simpa [AMap.sumBy] using this

theorem cpInv_cpSubmit {s s' : State} {proposer : Addr} {title : String} {c : Content} {deposit : CoinList}
    (hu : isModuleAcc proposer = false) (hi : CpInv s) (h : stepCpSubmit s proposer title c deposit = .ok s') :
    CpInv s' := by
  obtain ⟨s1, s2, sx, _, _, hsdep, _, _, _, h1, h2, _, h3⟩ := stepCpSubmit_ok h
  obtain ⟨u1, u2, u3⟩ := user_ne3 hu
  obtain ⟨pool', s1', hsub, h2', rfl⟩ := escrowFromFeePool_ok h2
  obtain ⟨s3, hden, hdne, _, h4, rfl⟩ := cpRecord_ok h3
  have b1 := (sendAll_ok h1).1
  have b2 := (sendAll_ok h2').1
  have b4 := (sendAll_ok h4).1
  obtain ⟨_, a2, a3⟩ := sendCoins_deltas _ _ _ _ _ u1 (sendAll_ok h1).2
  have hde : distrAcc ≠ escrowAcc := by decide
  obtain ⟨c1, c2, c3⟩ := sendCoins_deltas _ _ _ _ _ hde (sendAll_ok h2').2
  obtain ⟨_, e2, e3⟩ := sendCoins_deltas _ _ _ _ _ u2 (sendAll_ok (s := { s1' with cp := { s1'.cp with pool := pool' } }) h4).2
  -- the tables before
  have hcp3 : s3.cp = { s.cp with pool := pool' } := by rw [b4.cp]; show ({ s1'.cp with pool := pool' } : Cp) = _; rw [b2.cp, b1.cp]
  have hnext : s3.cp.nextId = s.cp.nextId := by rw [hcp3]
  have hesc3 : s3.cp.escrow = s.cp.escrow := by rw [hcp3]
  have hprops3 : s3.cp.props = s.cp.props := by rw [hcp3]
  obtain ⟨t1, t2, t3, t4, t5, t6⟩ := hi.tables
  obtain ⟨fp, fe⟩ := t3 s.cp.nextId (Nat.le_refl _)
  have hdepsum : sumOf deposit depositDenom = amountOf deposit depositDenom :=
    (amountOf_eq_sumOf deposit depositDenom (sorted_nodup deposit hsdep)).symm
  generalize hpr : (Proposal.mk proposer (if amountOf deposit depositDenom ≥ s3.cp.minDeposit then PStatus.voting else PStatus.deposit) (amountOf deposit depositDenom) c) = pr
  have hpra : C05.alive pr = true := by
    rw [← hpr]; unfold C05.alive; simp only
    split <;> simp
  refine ⟨?_, ?_, ?_, ?_⟩
  · -- escrow collector
    intro d
    unfold C05.expectedEscrow
    show s3.bank.balOf escrowAcc d = AMap.sumBy (C05.escrowHolds d) (AMap.set s3.cp.escrow s3.cp.nextId _)
    have hh : C05.escrowHolds d { proposer := proposer, applied := c.applied, selfBond := c.selfBond } = sumOf c.applied d + sumOf c.selfBond d :=
      escrowHolds_eq _ _
    rw [hesc3, hnext, sumBy_set_new _ _ _ _ fe, hh]
    have := hi.escrow d
    unfold C05.expectedEscrow at this
    have x1 := a2 d
    have x2 := c2 d
    have x3 := e3 escrowAcc d (Ne.symm u1) (by decide)
    show s3.bank.balOf escrowAcc d = _
    have x3' : s3.bank.balOf escrowAcc d = s1'.bank.balOf escrowAcc d := x3
    omega
  · -- gov
    unfold C05.GovAccount C05.expectedGov
    show s3.bank.balOf govAcc depositDenom = AMap.sumBy _ (AMap.set s3.cp.props s3.cp.nextId _)
    rw [hprops3, hnext, sumBy_set_new _ _ _ _ fp]
    have := hi.gov
    unfold C05.GovAccount C05.expectedGov at this
    have x1 := a3 govAcc depositDenom (Ne.symm u2) (by decide)
    have x2 := c3 govAcc depositDenom (by decide) (by decide)
    have x3 : s3.bank.balOf govAcc depositDenom = s1'.bank.balOf govAcc depositDenom + sumOf deposit depositDenom := e2 depositDenom
    have : pr.deposit = amountOf deposit depositDenom := by rw [← hpr]
    omega
  · -- the community pool stays covered
    intro d
    unfold C05.cpoolOf
    show cpGet s3.cp.pool d ≤ s3.bank.balOf distrAcc d * decUnit
    rw [hcp3]
    show cpGet pool' d ≤ _
    have hb := hi.backed d
    unfold C05.cpoolOf at hb
    have x0 := cpGet_subCoins _ _ _ hsub d
    rw [b1.cp] at x0
    have x1 := a3 distrAcc d (Ne.symm u3) (by decide)
    have x2 := c1 d
    have x3 : s3.bank.balOf distrAcc d = s1'.bank.balOf distrAcc d := e3 distrAcc d (Ne.symm u3) (by decide)
    rw [x3]
    have : s1'.bank.balOf distrAcc d * decUnit + sumOf c.applied d * decUnit = s.bank.balOf distrAcc d * decUnit := by
      rw [← Nat.add_mul]; congr 1; omega
    omega
  · -- the tables
    refine ⟨?_, ?_, ?_, ?_, ?_, ?_⟩
    · intro pid e hg
      have hg' : AMap.get? (AMap.set s3.cp.escrow s3.cp.nextId { proposer := proposer, applied := c.applied, selfBond := c.selfBond }) pid = some e := hg
      show ∃ pr', AMap.get? (AMap.set s3.cp.props s3.cp.nextId _) pid = some pr' ∧ _
      by_cases e0 : s3.cp.nextId = pid
      · subst e0
        rw [AMap.get?_set_self] at hg'; cases hg'
        exact ⟨pr, AMap.get?_set_self _ _ _, hpra, by rw [← hpr], by rw [← hpr], by rw [← hpr]⟩
      · rw [AMap.get?_set_other _ _ _ _ e0, hesc3] at hg'
        rw [AMap.get?_set_other _ _ _ _ e0, hprops3]
        exact t1 pid e hg'
    · intro pid pr' hg ha
      have hg' : AMap.get? (AMap.set s3.cp.props s3.cp.nextId _) pid = some pr' := hg
      show ∃ e, AMap.get? (AMap.set s3.cp.escrow s3.cp.nextId _) pid = some e
      by_cases e0 : s3.cp.nextId = pid
      · subst e0; exact ⟨_, AMap.get?_set_self _ _ _⟩
      · rw [AMap.get?_set_other _ _ _ _ e0, hprops3] at hg'
        rw [AMap.get?_set_other _ _ _ _ e0, hesc3]
        exact t2 pid pr' hg' ha
    · intro pid hle
      have hle' : s3.cp.nextId + 1 ≤ pid := hle
      have e0 : s3.cp.nextId ≠ pid := by omega
      show AMap.get? (AMap.set s3.cp.props s3.cp.nextId _) pid = none ∧ AMap.get? (AMap.set s3.cp.escrow s3.cp.nextId _) pid = none
      rw [AMap.get?_set_other _ _ _ _ e0, AMap.get?_set_other _ _ _ _ e0, hprops3, hesc3]
      exact t3 pid (by rw [hnext] at hle'; omega)
    · show NodupKeys (AMap.set s3.cp.escrow _ _); rw [hesc3]; exact nodupKeys_set _ _ _ t4
    · show NodupKeys (AMap.set s3.cp.props _ _); rw [hprops3]; exact nodupKeys_set _ _ _ t5
    · intro pid pr' hg ha
      have hg' : AMap.get? (AMap.set s3.cp.props s3.cp.nextId _) pid = some pr' := hg
      by_cases e0 : s3.cp.nextId = pid
      · subst e0; rw [AMap.get?_set_self] at hg'; cases hg'; rw [hpra] at ha; cases ha
      · rw [AMap.get?_set_other _ _ _ _ e0, hprops3] at hg'; exact t6 pid pr' hg' ha

/-! ### the hooks under the invariant -/

/-- what a completed `refundEscrow` did -/
structure Refunded (s s' : State) (pid : Nat) (e : Escrow) : Prop where
  esc    : s'.cp.escrow = AMap.erase s.cp.escrow pid
  props  : s'.cp.props = s.cp.props
  next   : s'.cp.nextId = s.cp.nextId
  escrow : ∀ d, s'.bank.balOf escrowAcc d + C05.escrowHolds d e = s.bank.balOf escrowAcc d
  user   : ∀ d, s'.bank.balOf e.proposer d = s.bank.balOf e.proposer d + sumOf e.selfBond d
  distr  : ∀ d, s'.bank.balOf distrAcc d = s.bank.balOf distrAcc d + sumOf e.applied d
  pool   : ∀ d, C05.cpoolOf s' d = C05.cpoolOf s d + sumOf e.applied d * decUnit
  others : ∀ a d, a ≠ escrowAcc → a ≠ e.proposer → a ≠ distrAcc → s'.bank.balOf a d = s.bank.balOf a d

/-- when the escrow collector covers the escrow info, `refundEscrow` runs to completion: the
self-bond goes back to the proposer, the applied funds to the distribution module account and
into the community pool, the info is deleted -/
theorem refundEscrow_done {s : State} {pid : Nat} {e : Escrow} (hu : isModuleAcc e.proposer = false)
    (hcov : ∀ d, C05.escrowHolds d e ≤ s.bank.balOf escrowAcc d) : Refunded s (refundEscrow s pid e) pid e := by
  obtain ⟨u1, u2, u3⟩ := user_ne3 hu
  have hcov' : ∀ d, sumOf e.applied d + sumOf e.selfBond d ≤ s.bank.balOf escrowAcc d := by
    intro d; rw [← escrowHolds_eq]; exact hcov d
  obtain ⟨b1, hb1⟩ := sendCoins_ok e.selfBond s.bank escrowAcc e.proposer (Ne.symm u1) (fun d => by have := hcov' d; omega)
  obtain ⟨x1, x2, x3⟩ := sendCoins_deltas _ _ _ _ _ (Ne.symm u1) hb1
  have hed : escrowAcc ≠ distrAcc := by decide
  obtain ⟨b2, hb2⟩ := sendCoins_ok (nonzero e.applied) b1 escrowAcc distrAcc hed
    (fun d => by rw [sumOf_nonzero]; have := hcov' d; have := x1 d; omega)
  obtain ⟨y1, y2, y3⟩ := sendCoins_deltas _ _ _ _ _ hed hb2
  have hr : refundEscrow s pid e = delEscrow (creditIf true { s with bank := b2 } (nonzero e.applied)) pid := by
    unfold refundEscrow sendAll
    rw [hb1]
    simp only
    rw [hb2]
  rw [hr]
  refine ⟨rfl, rfl, rfl, ?_, ?_, ?_, ?_, ?_⟩
  · intro d
    show b2.balOf escrowAcc d + _ = _
    rw [escrowHolds_eq]
    have := x1 d; have := y1 d; rw [sumOf_nonzero] at this; omega
  · intro d
    show b2.balOf e.proposer d = _
    rw [y3 e.proposer d u1 u3, x2 d]
  · intro d
    show b2.balOf distrAcc d = _
    rw [y2 d, sumOf_nonzero, x3 distrAcc d (by decide) (Ne.symm u3)]
  · intro d
    unfold C05.cpoolOf
    show cpGet (if true = true then cpAddCoins s.cp.pool (nonzero e.applied) else s.cp.pool) d = _
    simp only [if_true]
    rw [cpGet_addCoins, sumOf_nonzero]
  · intro a d h1 h2 h3
    show b2.balOf a d = _
    rw [y3 a d h1 h3, x3 a d h1 h2]

/-- `RefundAndDeleteDeposits` when the gov account covers the deposit -/
theorem refundDeposit_done {s : State} {pr : Proposal} (hu : isModuleAcc pr.proposer = false)
    (hcov : pr.deposit ≤ s.bank.balOf govAcc depositDenom) :
    ∃ s1, refundDeposit s pr = .ok s1 ∧ s1.cp = s.cp ∧
      s1.bank.balOf govAcc depositDenom + pr.deposit = s.bank.balOf govAcc depositDenom ∧
      (∀ a d, a ≠ govAcc → a ≠ pr.proposer → s1.bank.balOf a d = s.bank.balOf a d) ∧
      (∀ d, s1.bank.balOf pr.proposer d = s.bank.balOf pr.proposer d + (if d = depositDenom then pr.deposit else 0)) := by
  obtain ⟨_, u2, _⟩ := user_ne3 hu
  unfold refundDeposit
  by_cases hz : pr.deposit = 0
  · rw [if_pos hz]
    exact ⟨s, rfl, rfl, by omega, fun _ _ _ _ => rfl, fun d => by rw [hz]; simp⟩
  · rw [if_neg hz]
    obtain ⟨b1, hb1⟩ := sendCoins_ok [(depositDenom, pr.deposit)] s.bank govAcc pr.proposer (Ne.symm u2)
      (fun d => by
        simp only [sumOf]
        split
        · rename_i e; subst e; omega
        · omega)
    obtain ⟨x1, x2, x3⟩ := sendCoins_deltas _ _ _ _ _ (Ne.symm u2) hb1
    unfold sendAll
    rw [hb1]
    refine ⟨{ s with bank := b1 }, rfl, rfl, ?_, fun a d h1 h2 => x3 a d h1 h2, ?_⟩
    · have := x1 depositDenom
      simp only [sumOf, if_true] at this
      exact this
    · intro d
      have := x2 d
      simp only [sumOf] at this
      show b1.balOf pr.proposer d = _
      rw [this]
      by_cases e : depositDenom = d
      · subst e; simp
      · have e' : ¬ d = depositDenom := fun h => e h.symm
        simp [e, e']

theorem createPoolCore_bank {s2 s' : State} {id creator desc lpt start rpb total editable}
    (h : createPoolCore s2 id creator desc lpt start rpb total editable = .ok s') : s'.bank = s2.bank := by
  obtain ⟨m, _, _, rfl⟩ := createPoolCore_ok h
  unfold enqueue; split <;> rfl

/-- the bank side of a successful run of the handler: the escrowed total moves from the escrow
collector to the farm module account, nothing else moves -/
theorem handlerRan_bank {sa s2 : State} {c : Content} (h : HandlerRan sa s2 c) :
    s2.cp = sa.cp ∧
    (∀ d, s2.bank.balOf escrowAcc d + (sumOf c.applied d + sumOf c.selfBond d) = sa.bank.balOf escrowAcc d) ∧
    (∀ d, s2.bank.balOf farmAcc d = sa.bank.balOf farmAcc d + (sumOf c.applied d + sumOf c.selfBond d)) ∧
    (∀ a d, a ≠ escrowAcc → a ≠ farmAcc → s2.bank.balOf a d = sa.bank.balOf a d) := by
  obtain ⟨_, _, _, s1, h1, h2⟩ := h
  have b1 := (sendAll_ok h1).1
  have hb := createPoolCore_bank h2
  obtain ⟨x1, x2, x3⟩ := sendCoins_deltas _ _ _ _ _ escrow_ne.1 (sendAll_ok h1).2
  refine ⟨by rw [createPoolCore_cp h2, b1.cp], ?_, ?_, ?_⟩
  · intro d; rw [hb, ← sumOf_totalOf]; exact x1 d
  · intro d; rw [hb, ← sumOf_totalOf]; exact x2 d
  · intro a d ha1 ha2; rw [hb]; exact x3 a d ha1 ha2

/-! ### one escrow settled -/

/-- the info of a live proposal removed together with exactly its funds, the proposal finished
(or deleted), its deposit returned, distribution account and community pool in lock-step -/
theorem cpInv_settle {s s' : State} {pid : Nat} {e : Escrow} {pr : Proposal} (hi : CpInv s)
    (he : AMap.get? s.cp.escrow pid = some e) (hp : AMap.get? s.cp.props pid = some pr)
    (h1 : s'.cp.escrow = AMap.erase s.cp.escrow pid)
    (h2 : (∃ pr', s'.cp.props = AMap.set s.cp.props pid pr' ∧ C05.alive pr' = false ∧ pr'.deposit = 0) ∨
          s'.cp.props = AMap.erase s.cp.props pid)
    (h3 : s'.cp.nextId = s.cp.nextId)
    (h4 : ∀ d, s'.bank.balOf escrowAcc d + C05.escrowHolds d e = s.bank.balOf escrowAcc d)
    (h5 : s'.bank.balOf govAcc depositDenom + pr.deposit = s.bank.balOf govAcc depositDenom)
    (h6 : ∀ d, C05.distrGap s' d = C05.distrGap s d) : CpInv s' := by
  obtain ⟨t1, t2, t3, t4, t5, t6⟩ := hi.tables
  have hlt : pid < s.cp.nextId := by
    apply Classical.byContradiction
    intro hc
    have := (t3 pid (by omega)).1
    rw [hp] at this; cases this
  refine ⟨?_, ?_, ?_, ?_⟩
  · intro d
    unfold C05.expectedEscrow
    rw [h1]
    have := sumBy_erase (C05.escrowHolds d) s.cp.escrow pid e t4 he
    have := hi.escrow d
    unfold C05.expectedEscrow at this
    have := h4 d
    omega
  · unfold C05.GovAccount C05.expectedGov
    have hg := hi.gov
    unfold C05.GovAccount C05.expectedGov at hg
    rcases h2 with ⟨pr', hset, _, hz⟩ | her
    · rw [hset]
      have := sumBy_set_old (fun pr : Proposal => pr.deposit) s.cp.props pid pr' pr hp
      omega
    · rw [her]
      have := sumBy_erase (fun pr : Proposal => pr.deposit) s.cp.props pid pr t5 hp
      omega
  · rw [backed_iff]; intro d; rw [h6 d]; exact (backed_iff s).mp hi.backed d
  · have hpother : ∀ pid2, pid ≠ pid2 → AMap.get? s'.cp.props pid2 = AMap.get? s.cp.props pid2 := by
      intro pid2 hne
      rcases h2 with ⟨pr', hset, _, _⟩ | her
      · rw [hset, AMap.get?_set_other _ _ _ _ hne]
      · rw [her, get?_erase_other _ _ _ hne]
    refine ⟨?_, ?_, ?_, ?_, ?_, ?_⟩
    · intro pid2 e2 hg
      rw [h1] at hg
      by_cases hne : pid = pid2
      · subst hne; rw [get?_erase_self] at hg; cases hg
      · rw [get?_erase_other _ _ _ hne] at hg
        rw [hpother pid2 hne]
        exact t1 pid2 e2 hg
    · intro pid2 pr2 hg ha
      by_cases hne : pid = pid2
      · subst hne
        rcases h2 with ⟨pr', hset, hna, _⟩ | her
        · rw [hset, AMap.get?_set_self] at hg; cases hg; rw [hna] at ha; cases ha
        · rw [her, get?_erase_self] at hg; cases hg
      · rw [hpother pid2 hne] at hg
        rw [h1, get?_erase_other _ _ _ hne]
        exact t2 pid2 pr2 hg ha
    · intro pid2 hle
      rw [h3] at hle
      have hne : pid ≠ pid2 := by omega
      rw [hpother pid2 hne, h1, get?_erase_other _ _ _ hne]
      exact t3 pid2 hle
    · rw [h1]; exact nodupKeys_erase _ _ t4
    · rcases h2 with ⟨pr', hset, _, _⟩ | her
      · rw [hset]; exact nodupKeys_set _ _ _ t5
      · rw [her]; exact nodupKeys_erase _ _ t5
    · intro pid2 pr2 hg ha
      by_cases hne : pid = pid2
      · subst hne
        rcases h2 with ⟨pr', hset, _, hz⟩ | her
        · rw [hset, AMap.get?_set_self] at hg; cases hg; exact hz
        · rw [her, get?_erase_self] at hg; cases hg
      · rw [hpother pid2 hne] at hg; exact t6 pid2 pr2 hg ha

/-! ### gov's EndBlocker on a proposal in its voting period -/

theorem holds_le_escrow {s : State} (hi : CpInv s) {pid : Nat} {e : Escrow} (he : AMap.get? s.cp.escrow pid = some e) (d : Denom) :
    C05.escrowHolds d e ≤ s.bank.balOf escrowAcc d := by
  rw [hi.escrow d]
  unfold C05.expectedEscrow AMap.sumBy
  exact get?_le_sumIf (fun _ => true) (C05.escrowHolds d) s.cp.escrow pid e he rfl

theorem deposit_le_gov {s : State} (hi : CpInv s) {pid : Nat} {pr : Proposal} (hp : AMap.get? s.cp.props pid = some pr) :
    pr.deposit ≤ s.bank.balOf govAcc depositDenom := by
  rw [hi.gov]
  unfold C05.expectedGov AMap.sumBy
  exact get?_le_sumIf (fun _ => true) (fun pr : Proposal => pr.deposit) s.cp.props pid pr hp rfl

/-- the three ways a tally ends -/
inductive TallyEnd (s : State) (pid : Nat) (pr : Proposal) (e : Escrow) (passes : Bool) (s1 s' : State) : Prop
  /-- passed and executed: the handler created the pool, the hook deleted the escrow info -/
  | executed (s2 : State) : passes = true → cpHandler s1 pr.content = .ok s2 →
      s' = delEscrow (setProp s2 pid { pr with status := .passed, deposit := 0 }) pid → TallyEnd s pid pr e passes s1 s'
  /-- passed, but the handler failed (its cache context is dropped): the escrow is refunded -/
  | failed (err : Err) : passes = true → cpHandler s1 pr.content = .error err →
      s' = refundEscrow (setProp s1 pid { pr with status := .failed, deposit := 0 }) pid e → TallyEnd s pid pr e passes s1 s'
  /-- rejected: the escrow is refunded -/
  | rejected : passes = false →
      s' = refundEscrow (setProp s1 pid { pr with status := .rejected, deposit := 0 }) pid e → TallyEnd s pid pr e passes s1 s'

/-- gov's EndBlocker on a proposal in its voting period never aborts in a state of the bundle, and
ends in one of the three ways -/
theorem govTally_cases {s : State} {pid : Nat} {pr : Proposal} (passes : Bool) (hi : CpInv s) (hu : CpUsers s)
    (hp : AMap.get? s.cp.props pid = some pr) (ha : C05.alive pr = true) :
    ∃ e s1, AMap.get? s.cp.escrow pid = some e ∧ refundDeposit s pr = .ok s1 ∧
      (govTally s pid pr passes).2 = false ∧ TallyEnd s pid pr e passes s1 (govTally s pid pr passes).1 := by
  obtain ⟨e, he⟩ := hi.tables.live pid pr hp ha
  obtain ⟨s1, h1, hc1, _, _, _⟩ := refundDeposit_done (hu.2 pid pr hp) (deposit_le_gov hi hp)
  refine ⟨e, s1, he, h1, ?_⟩
  have hesc : ∀ (t : State) (pr' : Proposal), t.cp = s.cp → AMap.get? (setProp t pid pr').cp.escrow pid = some e := by
    intro t pr' ht
    show AMap.get? t.cp.escrow pid = _
    rw [ht]; exact he
  have hprop : ∀ (t : State) (pr' : Proposal), AMap.get? (setProp t pid pr').cp.props pid = some pr' := by
    intro t pr'
    show AMap.get? (AMap.set t.cp.props pid pr') pid = _
    exact AMap.get?_set_self _ _ _
  unfold govTally
  rw [h1]
  simp only
  cases passes with
  | true =>
    simp only [if_true]
    cases hh : cpHandler s1 pr.content with
    | ok s2 =>
      simp only
      have hc2 : s2.cp = s.cp := (cpHandler_cp hh).trans hc1
      refine ⟨trivial, .executed s2 rfl hh ?_⟩
      unfold hookVotingEnded
      rw [hesc s2 _ hc2, hprop]
      simp
    | error err =>
      simp only
      refine ⟨trivial, .failed err rfl hh ?_⟩
      unfold hookVotingEnded
      rw [hesc s1 _ hc1, hprop]
      simp
  | false =>
    simp only [Bool.false_eq_true, if_false]
    refine ⟨trivial, .rejected rfl ?_⟩
    unfold hookVotingEnded
    rw [hesc s1 _ hc1, hprop]
    simp

/-- the distribution account and the community pool after a completed `refundEscrow` are in
lock-step with before -/
theorem refunded_lock {t s' : State} {pid : Nat} {e : Escrow} (r : Refunded t s' pid e) (d : Denom) :
    C05.distrGap s' d = C05.distrGap t d := by
  unfold C05.distrGap
  rw [r.distr d, r.pool d, Nat.add_mul]
  push_cast
  omega

/-- every way a tally ends keeps the bundle of the community-pool path: the escrow is settled -/
theorem cpInv_tallyEnd {s s1 s' : State} {pid : Nat} {pr : Proposal} {e : Escrow} {passes : Bool}
    (hi : CpInv s) (hu : CpUsers s) (hp : AMap.get? s.cp.props pid = some pr)
    (he : AMap.get? s.cp.escrow pid = some e) (h1 : refundDeposit s pr = .ok s1)
    (hend : TallyEnd s pid pr e passes s1 s') : CpInv s' ∧ ∀ d, C05.distrGap s' d = C05.distrGap s d := by
  obtain ⟨s1', h1', hc1, hg1, ho1, _⟩ := refundDeposit_done (hu.2 pid pr hp) (deposit_le_gov hi hp)
  rw [h1] at h1'; cases h1'
  obtain ⟨_, _, u3⟩ := user_ne3 (hu.2 pid pr hp)
  have hue := hu.1 pid e he
  obtain ⟨v1, v2, v3⟩ := user_ne3 hue
  have hesc1 : ∀ d, s1.bank.balOf escrowAcc d = s.bank.balOf escrowAcc d :=
    fun d => ho1 escrowAcc d (by decide) (Ne.symm (user_ne3 (hu.2 pid pr hp)).1)
  have hdis1 : ∀ d, s1.bank.balOf distrAcc d = s.bank.balOf distrAcc d :=
    fun d => ho1 distrAcc d (by decide) (Ne.symm u3)
  -- the refund branches share their argument
  have refund : ∀ (st : PStatus), C05.alive { pr with status := st, deposit := 0 } = false →
      s' = refundEscrow (setProp s1 pid { pr with status := st, deposit := 0 }) pid e →
      CpInv s' ∧ ∀ d, C05.distrGap s' d = C05.distrGap s d := by
    intro st hna hs'
    have hcov : ∀ d, C05.escrowHolds d e ≤ (setProp s1 pid { pr with status := st, deposit := 0 }).bank.balOf escrowAcc d := by
      intro d
      show _ ≤ s1.bank.balOf escrowAcc d
      rw [hesc1 d]; exact holds_le_escrow hi he d
    have r := refundEscrow_done (pid := pid) hue hcov
    rw [← hs'] at r
    have h6 : ∀ d, C05.distrGap s' d = C05.distrGap s d := by
      intro d
      rw [refunded_lock r d]
      unfold C05.distrGap C05.cpoolOf
      show ((s1.bank.balOf distrAcc d * decUnit : Nat) : Int) - (cpGet s1.cp.pool d : Int) = _
      rw [hdis1 d, hc1]
    refine ⟨cpInv_settle hi he hp ?_ (Or.inl ⟨{ pr with status := st, deposit := 0 }, ?_, hna, rfl⟩) ?_ ?_ ?_ h6, h6⟩
    · rw [r.esc]; show AMap.erase s1.cp.escrow pid = _; rw [hc1]
    · rw [r.props]; show AMap.set s1.cp.props pid _ = _; rw [hc1]
    · rw [r.next]; show s1.cp.nextId = _; rw [hc1]
    · intro d; have := r.escrow d
      have e0 : (setProp s1 pid { pr with status := st, deposit := 0 }).bank.balOf escrowAcc d = s.bank.balOf escrowAcc d := hesc1 d
      omega
    · have := r.others govAcc depositDenom (by decide) (Ne.symm v2) (by decide)
      have e0 : (setProp s1 pid { pr with status := st, deposit := 0 }).bank.balOf govAcc depositDenom = s1.bank.balOf govAcc depositDenom := rfl
      omega
  cases hend with
  | executed s2 _ hh hs' =>
    obtain ⟨hc2, hb1, _, hb3⟩ := handlerRan_bank (cpHandler_ok hh)
    have hna : C05.alive { pr with status := .passed, deposit := 0 } = false := by unfold C05.alive; simp
    have h6 : ∀ d, C05.distrGap s' d = C05.distrGap s d := by
      intro d
      rw [hs']
      unfold C05.distrGap C05.cpoolOf
      show ((s2.bank.balOf distrAcc d * decUnit : Nat) : Int) - (cpGet s2.cp.pool d : Int) = _
      rw [hb3 distrAcc d (by decide) (by decide), hdis1 d, hc2, hc1]
    refine ⟨cpInv_settle hi he hp ?_ (Or.inl ⟨{ pr with status := .passed, deposit := 0 }, ?_, hna, rfl⟩) ?_ ?_ ?_ h6, h6⟩
    · rw [hs']; show AMap.erase s2.cp.escrow pid = _; rw [hc2, hc1]
    · rw [hs']; show AMap.set s2.cp.props pid _ = _; rw [hc2, hc1]
    · rw [hs']; show s2.cp.nextId = _; rw [hc2, hc1]
    · intro d
      rw [hs']
      show s2.bank.balOf escrowAcc d + _ = _
      obtain ⟨pr0, hp0, _, _, ea, es⟩ := hi.tables.info pid e he
      rw [hp] at hp0; cases hp0
      rw [escrowHolds_eq, ea, es]
      have := hb1 d; have := hesc1 d; omega
    · rw [hs']
      show s2.bank.balOf govAcc depositDenom + _ = _
      rw [hb3 govAcc depositDenom (by decide) (by decide)]; exact hg1
  | failed err _ _ hs' => exact refund .failed (by unfold C05.alive; simp) hs'
  | rejected _ hs' => exact refund .rejected (by unfold C05.alive; simp) hs'

/-! ### proposals gov has finished with: the hooks do nothing -/

theorem hookVotingEnded_none {s : State} {pid : Nat} (h : AMap.get? s.cp.escrow pid = none) : hookVotingEnded s pid = s := by
  unfold hookVotingEnded; rw [h]

theorem hookFailedMinDeposit_none {s : State} {pid : Nat} (h : AMap.get? s.cp.escrow pid = none) :
    hookFailedMinDeposit s pid = s := by
  unfold hookFailedMinDeposit; rw [h]

/-- an escrow info exists only for a live proposal -/
theorem no_info_of_not_alive {s : State} (hi : CpInv s) {pid : Nat}
    (h : ∀ pr, AMap.get? s.cp.props pid = some pr → C05.alive pr = false) : AMap.get? s.cp.escrow pid = none := by
  cases he : AMap.get? s.cp.escrow pid with
  | none => rfl
  | some e =>
    obtain ⟨pr, hp, ha, _⟩ := hi.tables.info pid e he
    rw [h pr hp] at ha; cases ha

theorem alive_of_voting {pr : Proposal} (h : pr.status = .voting) : C05.alive pr = true := by unfold C05.alive; simp [h]
theorem alive_of_deposit {pr : Proposal} (h : pr.status = .deposit) : C05.alive pr = true := by unfold C05.alive; simp [h]
theorem not_alive {pr : Proposal} (h1 : ¬ pr.status = .voting) (h2 : ¬ pr.status = .deposit) : C05.alive pr = false := by
  unfold C05.alive; simp [h1, h2]

/-- `cpPass` / `cpReject` in a state of the bundle: no abort, the bundle holds afterwards -/
theorem govVote_spec {s : State} (pid : Nat) (passes : Bool) (hi : CpInv s) (hu : CpUsers s) :
    (govVote s pid passes).2 = false ∧ CpInv (govVote s pid passes).1 ∧
    ∀ d, C05.distrGap (govVote s pid passes).1 d = C05.distrGap s d := by
  unfold govVote
  cases hp : AMap.get? s.cp.props pid with
  | none =>
    simp only
    rw [hookVotingEnded_none (no_info_of_not_alive hi (fun pr h => by rw [hp] at h; cases h))]
    exact ⟨trivial, hi, fun _ => rfl⟩
  | some pr =>
    simp only
    by_cases hv : pr.status = .voting
    · rw [if_pos hv]
      obtain ⟨e, s1, he, h1, hna, hend⟩ := govTally_cases passes hi hu hp (alive_of_voting hv)
      exact ⟨hna, cpInv_tallyEnd hi hu hp he h1 hend⟩
    · rw [if_neg hv]
      by_cases hd : pr.status = .deposit
      · rw [if_pos hd]; exact ⟨rfl, hi, fun _ => rfl⟩
      · rw [if_neg hd]
        rw [hookVotingEnded_none (no_info_of_not_alive hi (fun pr' h => by rw [hp] at h; cases h; exact not_alive hv hd))]
        exact ⟨rfl, hi, fun _ => rfl⟩

/-- a proposal that is not in its voting period is not touched by `cpPass` / `cpReject`: in
particular a second pass / reject of a settled proposal changes nothing -/
theorem govVote_noop {s : State} (pid : Nat) (passes : Bool) (hi : CpInv s)
    (h : ∀ pr, AMap.get? s.cp.props pid = some pr → pr.status ≠ .voting) : (govVote s pid passes).1 = s := by
  unfold govVote
  cases hp : AMap.get? s.cp.props pid with
  | none =>
    simp only
    exact hookVotingEnded_none (no_info_of_not_alive hi (fun pr h => by rw [hp] at h; cases h))
  | some pr =>
    simp only
    rw [if_neg (h pr hp)]
    by_cases hd : pr.status = .deposit
    · rw [if_pos hd]
    · rw [if_neg hd]
      exact hookVotingEnded_none (no_info_of_not_alive hi (fun pr' h' => by rw [hp] at h'; cases h'; exact not_alive (h pr hp) hd))

/-! ### gov's EndBlocker on a proposal whose deposit period ended -/

/-- the due case of `cpFailDeposit`: the proposal is deleted, the deposit and the escrow are
refunded -/
theorem govFailDeposit_due {s : State} {pid : Nat} {pr : Proposal} (hi : CpInv s) (hu : CpUsers s)
    (hp : AMap.get? s.cp.props pid = some pr) (hd : pr.status = .deposit) :
    ∃ e s1, AMap.get? s.cp.escrow pid = some e ∧ refundDeposit (delProp s pid) pr = .ok s1 ∧
      govFailDeposit s pid = (refundEscrow s1 pid e, false) := by
  obtain ⟨e, he⟩ := hi.tables.live pid pr hp (alive_of_deposit hd)
  have hcov : pr.deposit ≤ (delProp s pid).bank.balOf govAcc depositDenom := deposit_le_gov hi hp
  obtain ⟨s1, h1, hc1, _⟩ := refundDeposit_done (hu.2 pid pr hp) hcov
  refine ⟨e, s1, he, h1, ?_⟩
  unfold govFailDeposit
  rw [hp]
  simp only
  rw [if_pos hd, h1]
  simp only
  unfold hookFailedMinDeposit
  have : AMap.get? s1.cp.escrow pid = some e := by rw [hc1]; exact he
  rw [this]

theorem govFailDeposit_spec {s : State} (pid : Nat) (hi : CpInv s) (hu : CpUsers s) :
    (govFailDeposit s pid).2 = false ∧ CpInv (govFailDeposit s pid).1 ∧
    ∀ d, C05.distrGap (govFailDeposit s pid).1 d = C05.distrGap s d := by
  cases hp : AMap.get? s.cp.props pid with
  | none =>
    unfold govFailDeposit
    rw [hp]
    simp only
    rw [hookFailedMinDeposit_none (no_info_of_not_alive hi (fun pr h => by rw [hp] at h; cases h))]
    exact ⟨trivial, hi, fun _ => rfl⟩
  | some pr =>
    by_cases hd : pr.status = .deposit
    · obtain ⟨e, s1, he, h1, hres⟩ := govFailDeposit_due hi hu hp hd
      rw [hres]
      refine ⟨rfl, ?_⟩
      show CpInv (refundEscrow s1 pid e) ∧ ∀ d, C05.distrGap (refundEscrow s1 pid e) d = C05.distrGap s d
      have hcov0 : pr.deposit ≤ (delProp s pid).bank.balOf govAcc depositDenom := deposit_le_gov hi hp
      obtain ⟨s1', h1', hc1, hg1, ho1, _⟩ := refundDeposit_done (hu.2 pid pr hp) hcov0
      rw [h1] at h1'; cases h1'
      obtain ⟨w1, _, w3⟩ := user_ne3 (hu.2 pid pr hp)
      have hue := hu.1 pid e he
      obtain ⟨_, v2, _⟩ := user_ne3 hue
      have hesc1 : ∀ d, s1.bank.balOf escrowAcc d = s.bank.balOf escrowAcc d :=
        fun d => ho1 escrowAcc d (by decide) (Ne.symm w1)
      have hdis1 : ∀ d, s1.bank.balOf distrAcc d = s.bank.balOf distrAcc d :=
        fun d => ho1 distrAcc d (by decide) (Ne.symm w3)
      have r := refundEscrow_done (s := s1) (pid := pid) hue (fun d => by rw [hesc1 d]; exact holds_le_escrow hi he d)
      have h6 : ∀ d, C05.distrGap (refundEscrow s1 pid e) d = C05.distrGap s d := by
        intro d
        rw [refunded_lock r d]
        unfold C05.distrGap C05.cpoolOf
        rw [hdis1 d, hc1]; rfl
      refine ⟨cpInv_settle hi he hp ?_ (Or.inr ?_) ?_ ?_ ?_ h6, h6⟩
      · rw [r.esc, hc1]; rfl
      · rw [r.props, hc1]; rfl
      · rw [r.next, hc1]; rfl
      · intro d; have := r.escrow d; have := hesc1 d; omega
      · have := r.others govAcc depositDenom (by decide) (Ne.symm v2) (by decide)
        have hg1' : s1.bank.balOf govAcc depositDenom + pr.deposit = s.bank.balOf govAcc depositDenom := hg1
        omega
    · unfold govFailDeposit
      rw [hp]
      simp only
      rw [if_neg hd]
      by_cases hv : pr.status = .voting
      · rw [if_pos hv]; exact ⟨rfl, hi, fun _ => rfl⟩
      · rw [if_neg hv]
        rw [hookFailedMinDeposit_none (no_info_of_not_alive hi (fun pr' h => by rw [hp] at h; cases h; exact not_alive hv hd))]
        exact ⟨rfl, hi, fun _ => rfl⟩

theorem govFailDeposit_noop {s : State} (pid : Nat) (hi : CpInv s)
    (h : ∀ pr, AMap.get? s.cp.props pid = some pr → pr.status ≠ .deposit) : (govFailDeposit s pid).1 = s := by
  unfold govFailDeposit
  cases hp : AMap.get? s.cp.props pid with
  | none =>
    simp only
    exact hookFailedMinDeposit_none (no_info_of_not_alive hi (fun pr h => by rw [hp] at h; cases h))
  | some pr =>
    simp only
    rw [if_neg (h pr hp)]
    by_cases hv : pr.status = .voting
    · rw [if_pos hv]
    · rw [if_neg hv]
      exact hookFailedMinDeposit_none (no_info_of_not_alive hi (fun pr' h' => by rw [hp] at h'; cases h'; exact not_alive hv (h pr hp)))

/-! ### every operation, every history -/

theorem cpInv_govStep {s s' : State} (hi : CpInv s) (hu : CpUsers s) (h : GovStep s s') : CpInv s' := by
  obtain ⟨pid, h | h | h⟩ := h
  · rw [h]; exact (govVote_spec pid true hi hu).2.1
  · rw [h]; exact (govVote_spec pid false hi hu).2.1
  · rw [h]; exact (govFailDeposit_spec pid hi hu).2.1

theorem cpInv_stepMsg {s s' : State} {op : Op} (hv : Inv s) (hi : CpInv s) (hu : isModuleAcc op.sender = false)
    (h : stepMsg s op = .ok s') : CpInv s' := by
  cases op with
  | createPool sender desc lpt start rpb total editable => exact cpInv_outside (createPool_outside hu h) hi
  | destroyPool sender id => exact cpInv_outside (destroyPool_outside hv h) hi
  | adjustPool sender id add rpb => exact cpInv_outside (adjustPool_outside hu h) hi
  | stake sender id denom amt => exact cpInv_outside (stake_outside hu h) hi
  | unstake sender id denom amt => exact cpInv_outside (unstake_outside hu h) hi
  | harvest sender id => exact cpInv_outside (harvest_outside hu h) hi
  | endBlocks n => simp [stepMsg] at h; subst h; exact hi
  | cpPass pid => simp [stepMsg] at h; subst h; exact hi
  | cpReject pid => simp [stepMsg] at h; subst h; exact hi
  | cpFailDeposit pid => simp [stepMsg] at h; subst h; exact hi
  | cpSubmit proposer title c deposit => exact cpInv_cpSubmit hu hi h
  | fundCp sender amt => exact cpInv_fundCp hu hi h

/-- every operation keeps the bundle of the community-pool path -/
theorem cpInv_apply (s : State) (op : Op) (hv : Inv s) (hi : CpInv s) : CpInv (apply s op) := by
  rcases apply_cases s op with ⟨n, _, h⟩ | h | ⟨h, hu, _⟩ | h
  · rw [h]; exact cpInv_outside (endBlocks_outside n hv) hi
  · rw [h]; exact hi
  · exact cpInv_stepMsg hv hi hu h
  · exact cpInv_govStep hi hv.cpu h

theorem cpInv_run : ∀ (ops : List Op) (s : State), Inv s → CpInv s → CpInv (run s ops)
  | [], _, _, hi => hi
  | op :: ops, s, hv, hi => by
    show CpInv (run (apply s op) ops)
    exact cpInv_run ops _ (inv_apply s op hv) (cpInv_apply s op hv hi)

theorem cpInv_genesis {s : State} (hg : C05.Genesis s) : CpInv s := by
  obtain ⟨_, _, _, _, _, _, _, hesc, hprops, hbe, hbg, hback⟩ := hg
  refine ⟨?_, ?_, hback, ?_⟩
  · intro d; rw [hbe d]; unfold C05.expectedEscrow; rw [hesc]; rfl
  · unfold C05.GovAccount C05.expectedGov; rw [hbg, hprops]; rfl
  · refine ⟨?_, ?_, ?_, by rw [hesc]; exact List.nodup_nil, by rw [hprops]; exact List.nodup_nil, ?_⟩
    · intro pid e h; rw [hesc] at h; cases h
    · intro pid pr h; rw [hprops] at h; cases h
    · intro pid _; rw [hprops, hesc]; exact ⟨rfl, rfl⟩
    · intro pid pr h; rw [hprops] at h; cases h

/-! ### the distribution module account and the community pool move in lock-step -/

theorem cpSubmit_lock {s s' : State} {proposer : Addr} {title : String} {c : Content} {deposit : CoinList}
    (hu : isModuleAcc proposer = false) (h : stepCpSubmit s proposer title c deposit = .ok s') :
    ∀ d, C05.distrGap s' d = C05.distrGap s d := by
  obtain ⟨s1, s2, sx, _, _, _, _, _, _, h1, h2, _, h3⟩ := stepCpSubmit_ok h
  obtain ⟨u1, u2, u3⟩ := user_ne3 hu
  obtain ⟨pool', s1', hsub, h2', rfl⟩ := escrowFromFeePool_ok h2
  obtain ⟨s3, _, _, _, h4, rfl⟩ := cpRecord_ok h3
  have b1 := (sendAll_ok h1).1
  have b2 := (sendAll_ok h2').1
  have b4 := (sendAll_ok h4).1
  have x1 := sendAll_untouched h1 (a := distrAcc) (Ne.symm u3) (by decide)
  have hde : distrAcc ≠ escrowAcc := by decide
  obtain ⟨c1, _, _⟩ := sendCoins_deltas _ _ _ _ _ hde (sendAll_ok h2').2
  have x3 := sendAll_untouched (s := { s1' with cp := { s1'.cp with pool := pool' } }) h4 (a := distrAcc) (Ne.symm u3) (by decide)
  have hcp3 : s3.cp = { s.cp with pool := pool' } := by rw [b4.cp]; show ({ s1'.cp with pool := pool' } : Cp) = _; rw [b2.cp, b1.cp]
  intro d
  unfold C05.distrGap C05.cpoolOf
  show ((s3.bank.balOf distrAcc d * decUnit : Nat) : Int) - (cpGet s3.cp.pool d : Int) = _
  rw [hcp3]
  show ((s3.bank.balOf distrAcc d * decUnit : Nat) : Int) - (cpGet pool' d : Int) = _
  have y0 := cpGet_subCoins _ _ _ hsub d
  rw [b1.cp] at y0
  have y1 : s3.bank.balOf distrAcc d = s1'.bank.balOf distrAcc d := x3 d
  have y2 := c1 d
  have y3 := x1 d
  have : s1'.bank.balOf distrAcc d * decUnit + sumOf c.applied d * decUnit = s.bank.balOf distrAcc d * decUnit := by
    rw [← Nat.add_mul]; congr 1; omega
  rw [y1]
  omega

/-- **lock-step**: no operation changes what the distribution module account holds beyond the
community pool — whatever the farm module moves into or out of that account it books on the fee
pool's community pool, coin for coin -/
theorem lock_apply (s : State) (op : Op) (hv : Inv s) (hi : CpInv s) : ∀ d, C05.distrGap (apply s op) d = C05.distrGap s d := by
  rcases apply_cases s op with ⟨n, _, h⟩ | h | ⟨h, hu, _⟩ | h
  · rw [h]; exact (endBlocks_outside n hv).lock
  · rw [h]; exact fun _ => rfl
  · cases op with
    | createPool sender desc lpt start rpb total editable => exact (createPool_outside hu h).lock
    | destroyPool sender id => exact (destroyPool_outside hv h).lock
    | adjustPool sender id add rpb => exact (adjustPool_outside hu h).lock
    | stake sender id denom amt => exact (stake_outside hu h).lock
    | unstake sender id denom amt => exact (unstake_outside hu h).lock
    | harvest sender id => exact (harvest_outside hu h).lock
    | endBlocks n => simp [stepMsg] at h; rw [← h]; exact fun _ => rfl
    | cpPass pid => simp [stepMsg] at h; rw [← h]; exact fun _ => rfl
    | cpReject pid => simp [stepMsg] at h; rw [← h]; exact fun _ => rfl
    | cpFailDeposit pid => simp [stepMsg] at h; rw [← h]; exact fun _ => rfl
    | cpSubmit proposer title c deposit => exact cpSubmit_lock hu h
    | fundCp sender amt =>
      obtain ⟨s1, h1, hs'⟩ := stepFundCp_ok h
      obtain ⟨_, _, u3⟩ := user_ne3 hu
      have b1 := (sendAll_ok h1).1
      obtain ⟨_, d2, _⟩ := sendCoins_deltas _ _ _ _ _ u3 (sendAll_ok h1).2
      intro d
      rw [hs']
      unfold C05.distrGap C05.cpoolOf
      show ((s1.bank.balOf distrAcc d * decUnit : Nat) : Int) - (cpGet (if true = true then cpAddCoins s1.cp.pool amt else s1.cp.pool) d : Int) = _
      simp only [if_true]
      rw [cpGet_addCoins, d2 d, b1.cp, Nat.add_mul]
      push_cast
      omega
  · obtain ⟨pid, h | h | h⟩ := h
    · rw [h]; exact (govVote_spec pid true hi hv.cpu).2.2
    · rw [h]; exact (govVote_spec pid false hi hv.cpu).2.2
    · rw [h]; exact (govFailDeposit_spec pid hi hv.cpu).2.2

end Irismod.Proofs.Farm
