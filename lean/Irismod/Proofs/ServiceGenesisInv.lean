/-
C12 (service slice): the shape every reachable state has and the genesis round trip relies on —
field-level validity of stored objects (`FieldsOk`), the provider ↦ owner index agreeing with the bindings
(`OwnersInv`), unique binding keys, providers that are not escrow accounts — is kept by every operation.
-/
import Irismod.Proofs.ServiceGenesisPrep
import Irismod.Proofs.ServiceNoStale
import Irismod.Proofs.ServiceTallyInv

namespace Irismod.Proofs.ServiceGenesis
open Irismod Irismod.Sdk Irismod.Service Irismod.ServiceGenesis Irismod.Proofs.GenesisList Irismod.Proofs.Service

/-- the bundle -/
structure GI (s : State) : Prop where
  fields : FieldsOk s
  own    : OwnersInv s
  nd     : NodupKeys s.binds
  prov   : ∀ k b, AMap.get? s.binds k = some b → Good k.2

/-- what genesis validity and the owner index read of a binding / of a context -/
def BKeep (b' b : Binding) : Prop := b'.owner = b.owner ∧ (0 < b.qos → 0 < b'.qos)
def gcore (c : Ctx) : String × List Addr × Addr := (c.svc, c.providers, c.consumer)

theorem ctxFieldsValid_congr {c c0 : Ctx} (e : gcore c = gcore c0) : ctxFieldsValid c = ctxFieldsValid c0 := by
  simp only [gcore, Prod.mk.injEq] at e
  unfold ctxFieldsValid
  rw [e.1, e.2.1, e.2.2]

theorem BKeep.rfl' (b : Binding) : BKeep b b := ⟨rfl, fun h => h⟩

theorem BKeep.trans {a b c : Binding} (h1 : BKeep a b) (h2 : BKeep b c) : BKeep a c :=
  ⟨h1.1.trans h2.1, fun h => h1.2 (h2.2 h)⟩

theorem bindValid_keep (k : String × Addr) {b b0 : Binding} (e : BKeep b b0) (h : bindValid (k, b0) = true) :
    bindValid (k, b) = true := by
  unfold bindValid at h ⊢
  simp only [Bool.and_eq_true, decide_eq_true_eq] at h ⊢
  rw [e.1]
  exact ⟨h.1, e.2 h.2⟩

/-- registry untouched except that stored bindings / contexts may be replaced keeping `bcore` / `gcore`
(contexts may also disappear) -/
def GFrame (s s' : State) : Prop :=
  s'.params = s.params ∧ s'.defs = s.defs ∧ s'.wd = s.wd ∧ s'.owners = s.owners ∧
  AMap.keys s'.binds = AMap.keys s.binds ∧
  (∀ k b', AMap.get? s'.binds k = some b' → ∃ b, AMap.get? s.binds k = some b ∧ BKeep b' b) ∧
  (∀ id c', AMap.get? s'.ctxs id = some c' → ∃ c, AMap.get? s.ctxs id = some c ∧ gcore c' = gcore c)

theorem GFrame.refl (s : State) : GFrame s s :=
  ⟨rfl, rfl, rfl, rfl, rfl, fun _ b h => ⟨b, h, BKeep.rfl' b⟩, fun _ c h => ⟨c, h, rfl⟩⟩

theorem GFrame.trans {a b c : State} (h1 : GFrame a b) (h2 : GFrame b c) : GFrame a c := by
  obtain ⟨a1, a2, a3, a4, a5, a6, a7⟩ := h1
  obtain ⟨b1, b2, b3, b4, b5, b6, b7⟩ := h2
  refine ⟨b1.trans a1, b2.trans a2, b3.trans a3, b4.trans a4, b5.trans a5, ?_, ?_⟩
  · intro k x hx
    obtain ⟨y, hy, e1⟩ := b6 k x hx
    obtain ⟨z, hz, e2⟩ := a6 k y hy
    exact ⟨z, hz, BKeep.trans e1 e2⟩
  · intro k x hx
    obtain ⟨y, hy, e1⟩ := b7 k x hx
    obtain ⟨z, hz, e2⟩ := a7 k y hy
    exact ⟨z, hz, e1.trans e2⟩

theorem GFrame.of_eq {s s' : State} (e1 : s'.params = s.params) (e2 : s'.defs = s.defs) (e3 : s'.wd = s.wd)
    (e4 : s'.owners = s.owners) (e5 : s'.binds = s.binds) (e6 : s'.ctxs = s.ctxs) : GFrame s s' :=
  ⟨e1, e2, e3, e4, by rw [e5], fun _ b h => ⟨b, by rw [← e5]; exact h, BKeep.rfl' b⟩, fun _ c h => ⟨c, by rw [← e6]; exact h, rfl⟩⟩

/-- a stored binding replaced, owner and QoS kept -/
theorem GFrame.setBinding {s : State} {k : String × Addr} {b0 : Binding} (hg : AMap.get? s.binds k = some b0) (b : Binding)
    (e : BKeep b b0) (s' : State) (e1 : s'.params = s.params) (e2 : s'.defs = s.defs) (e3 : s'.wd = s.wd)
    (e4 : s'.owners = s.owners) (e5 : s'.binds = AMap.set s.binds k b) (e6 : s'.ctxs = s.ctxs) : GFrame s s' := by
  refine ⟨e1, e2, e3, e4, ?_, ?_, fun _ c h => ⟨c, by rw [← e6]; exact h, rfl⟩⟩
  · rw [e5]; exact keys_set_of_mem _ _ _ ((mem_keys_iff _ _).mpr ⟨_, hg⟩)
  · intro k' b' hb'
    rw [e5] at hb'
    rcases get?_set_cases hb' with ⟨rfl, rfl⟩ | ⟨_, h⟩
    · exact ⟨b0, hg, e⟩
    · exact ⟨b', h, BKeep.rfl' b'⟩

/-- a stored context replaced, service / providers / consumer kept -/
theorem GFrame.setCtx {s : State} {id : CtxId} {c0 : Ctx} (hg : AMap.get? s.ctxs id = some c0) (c : Ctx)
    (e : gcore c = gcore c0) : GFrame s (Irismod.Service.setCtx s id c) := by
  refine ⟨rfl, rfl, rfl, rfl, rfl, fun _ b h => ⟨b, h, BKeep.rfl' b⟩, ?_⟩
  intro id' c' hg'
  simp only [Irismod.Service.setCtx] at hg'
  rcases get?_set_cases hg' with ⟨rfl, rfl⟩ | ⟨_, h⟩
  · exact ⟨c0, hg, e⟩
  · exact ⟨c', h, rfl⟩

theorem GFrame.eraseCtx (s : State) (id : CtxId) : GFrame s (Irismod.Service.eraseCtx s id) :=
  ⟨rfl, rfl, rfl, rfl, rfl, fun _ b h => ⟨b, h, BKeep.rfl' b⟩, fun _ c h => ⟨c, get?_erase_some h, rfl⟩⟩

theorem GI.of_frame {s s' : State} (h : GI s) (f : GFrame s s') : GI s' := by
  obtain ⟨e1, e2, e3, e4, e5, e6, e7⟩ := f
  have hkeys : ∀ k, (∃ b, AMap.get? s'.binds k = some b) ↔ (∃ b, AMap.get? s.binds k = some b) := by
    intro k
    rw [← mem_keys_iff, ← mem_keys_iff, e5]
  refine ⟨⟨by rw [e1]; exact h.fields.params, by rw [e2]; exact h.fields.defs, ?_, by rw [e3]; exact h.fields.wd, ?_⟩,
    ⟨?_, ?_⟩, by unfold NodupKeys; rw [e5]; exact h.nd, ?_⟩
  · intro k b' hb'
    obtain ⟨b, hb, e⟩ := e6 k b' hb'
    exact bindValid_keep k e (h.fields.binds k b hb)
  · intro id c' hc'
    obtain ⟨c, hc, e⟩ := e7 id c' hc'
    rw [ctxFieldsValid_congr e]; exact h.fields.ctxs id c hc
  · intro k b' hb'
    obtain ⟨b, hb, e⟩ := e6 k b' hb'
    rw [e4, e.1]; exact h.own.own1 k b hb
  · intro p o ho
    rw [e4] at ho
    obtain ⟨svc, b, hb⟩ := h.own.own2 p o ho
    obtain ⟨b', hb'⟩ := (hkeys (svc, p)).mpr ⟨b, hb⟩
    exact ⟨svc, b', hb'⟩
  · intro k b' hb'
    obtain ⟨b, hb, _⟩ := e6 k b' hb'
    exact h.prov k b hb

/-! ### the end block -/

theorem slash_gframe (s : State) (svc : String) (p : Addr) : GFrame s (slash s svc p) := by
  unfold slash
  split
  · exact GFrame.refl s
  · rename_i b hb
    split
    · exact GFrame.refl s
    · split
      · exact GFrame.refl s
      · refine GFrame.setBinding hb (slashedBinding s b) ?_ _ rfl rfl rfl rfl rfl rfl
        unfold slashedBinding
        split <;> exact ⟨rfl, fun h => h⟩

theorem expireReq_gframe (s : State) (rid : ReqId) : GFrame s (expireReq s rid) := by
  unfold expireReq
  split
  · exact GFrame.of_eq rfl rfl rfl rfl rfl rfl
  · rename_i rq rc _
    refine (slash_gframe s rc.svc rq.provider).trans ?_
    unfold refund dropActive
    split <;> exact GFrame.of_eq rfl rfl rfl rfl rfl rfl

theorem foldl_expireReq_gframe : ∀ (l : List ReqId) (s : State), GFrame s (l.foldl expireReq s)
  | [], s => GFrame.refl s
  | r :: rest, s => (expireReq_gframe s r).trans (foldl_expireReq_gframe rest (expireReq s r))

theorem expirePhase_gframe (s : State) (id : CtxId) :
    GFrame s (expirePhase s id).1 ∧ (expirePhase s id).1.ctxs = s.ctxs ∧ gcore (expirePhase s id).2 = gcore (getCtx s id) := by
  have hc := (expirePhase_frame s id).1.2.2.2.2.2.1
  unfold expirePhase at hc ⊢
  split
  · rename_i hb
    rw [if_pos hb] at hc
    refine ⟨?_, hc, rfl⟩
    refine (foldl_expireReq_gframe (activeOf s id (getCtx s id).batchCounter) s).trans ?_
    unfold completeBatch callback
    split <;> exact GFrame.of_eq rfl rfl rfl rfl rfl rfl
  · exact ⟨GFrame.refl s, rfl, rfl⟩

theorem expireCtx_gframe {s : State} {id : CtxId} {c : Ctx} (hg : AMap.get? s.ctxs id = some c) : GFrame s (expireCtx s id) := by
  obtain ⟨f1, hctx, hcore⟩ := expirePhase_gframe s id
  rw [getCtx_of_get? hg] at hcore
  refine f1.trans ?_
  unfold expireCtx finishExpire
  have hstored : AMap.get? (delExp (expirePhase s id).1 id (expirePhase s id).1.height).ctxs id = some c := by
    simp only [delExp]; rw [hctx]; exact hg
  have f2 : GFrame (expirePhase s id).1
      (Irismod.Service.setCtx (delExp (expirePhase s id).1 id (expirePhase s id).1.height) id (expirePhase s id).2) :=
    (GFrame.of_eq (s' := delExp (expirePhase s id).1 id (expirePhase s id).1.height) rfl rfl rfl rfl rfl rfl).trans
      (GFrame.setCtx hstored _ hcore)
  have f3 : ∀ t : State, GFrame t (settleCtx t id (expirePhase s id).2) := by
    intro t
    unfold settleCtx
    split
    · exact GFrame.eraseCtx t id
    · split
      · split
        · exact GFrame.of_eq rfl rfl rfl rfl rfl rfl
        · exact GFrame.eraseCtx t id
      · exact GFrame.refl t
  exact (f2.trans (f3 _)).trans (GFrame.of_eq rfl rfl rfl rfl rfl rfl)

theorem mkRequests_g (id : CtxId) (b : Nat) (svc : String) (cons : Addr) (to : Int) :
    ∀ (ps : List Addr) (i : Nat) (s : State),
      (mkRequests s id b svc cons to ps i).params = s.params ∧ (mkRequests s id b svc cons to ps i).defs = s.defs ∧
      (mkRequests s id b svc cons to ps i).wd = s.wd ∧ (mkRequests s id b svc cons to ps i).owners = s.owners ∧
      (mkRequests s id b svc cons to ps i).binds = s.binds ∧ (mkRequests s id b svc cons to ps i).ctxs = s.ctxs
  | [], _, _ => ⟨rfl, rfl, rfl, rfl, rfl, rfl⟩
  | p :: rest, i, s => by
    simp only [mkRequests]
    exact mkRequests_g id b svc cons to rest (i + 1) (addRequest s (reqIdOf id b s.height i) (mkReq s id b svc cons to p))

theorem onPaused_gframe {t : State} {id : CtxId} {c0 : Ctx} (hg : AMap.get? t.ctxs id = some c0) (c : Ctx)
    (e : gcore c = gcore c0) (cause : String) : GFrame t (onPaused t id c cause) := by
  unfold onPaused
  split
  · exact (GFrame.setCtx hg { c with batchState := .completed, state := .paused } e).trans
      (GFrame.of_eq rfl rfl rfl rfl rfl rfl)
  · exact GFrame.setCtx hg { c with batchState := .completed, state := .paused } e

theorem newBatch_gframe {s : State} {id : CtxId} {c : Ctx} (hg : AMap.get? s.ctxs id = some c) : GFrame s (newBatch s id) := by
  have hgc := getCtx_of_get? hg
  unfold newBatch
  rw [hgc]
  split
  · split
    · exact (onPaused_gframe hg c rfl _).trans (GFrame.of_eq rfl rfl rfl rfl rfl rfl)
    · rename_i provs total _
      split
      · unfold chargeAndStart
        split
        · obtain ⟨m1, m2, m3, m4, m5, m6⟩ := mkRequests_g id (c.batchCounter + 1) c.svc c.consumer c.timeout provs 0
            { s with bank := creditCoins (debitCoins s.bank c.consumer (sortCoins total)).1 reqAcc (sortCoins total) }
          have hinit : initiateRequests
              { s with bank := creditCoins (debitCoins s.bank c.consumer (sortCoins total)).1 reqAcc (sortCoins total) } id provs =
              Irismod.Service.setCtx (mkRequests
                { s with bank := creditCoins (debitCoins s.bank c.consumer (sortCoins total)).1 reqAcc (sortCoins total) }
                id (c.batchCounter + 1) c.svc c.consumer c.timeout provs 0) id (startedCtx c provs.length) := by
            unfold initiateRequests
            rw [getCtx_bank, hgc]
          rw [hinit]
          have f1 : GFrame s (mkRequests
              { s with bank := creditCoins (debitCoins s.bank c.consumer (sortCoins total)).1 reqAcc (sortCoins total) }
              id (c.batchCounter + 1) c.svc c.consumer c.timeout provs 0) := GFrame.of_eq m1 m2 m3 m4 m5 m6
          have hg' : AMap.get? (mkRequests
              { s with bank := creditCoins (debitCoins s.bank c.consumer (sortCoins total)).1 reqAcc (sortCoins total) }
              id (c.batchCounter + 1) c.svc c.consumer c.timeout provs 0).ctxs id = some c := by rw [m6]; exact hg
          exact (f1.trans (GFrame.setCtx hg' (startedCtx c provs.length) rfl)).trans (GFrame.of_eq rfl rfl rfl rfl rfl rfl)
        · exact (onPaused_gframe hg c rfl _).trans (GFrame.of_eq rfl rfl rfl rfl rfl rfl)
      · unfold skipBatch
        exact (GFrame.setCtx hg (startedCtx c 0) rfl).trans (GFrame.of_eq rfl rfl rfl rfl rfl rfl)
  · exact GFrame.of_eq rfl rfl rfl rfl rfl rfl

/-- induction over the end blocker: a predicate kept by each queue-entry handler on well-formed states -/
theorem foldl_expire_induct (P : State → Prop)
    (hstep : ∀ s id c, WF s → AMap.get? s.expH id = some s.height → AMap.get? s.ctxs id = some c → P s → P (expireCtx s id)) :
    ∀ (l : List CtxId) (s : State), WF s → l.Nodup → (∀ id, id ∈ l → AMap.get? s.expH id = some s.height) → P s →
      P (l.foldl expireCtx s)
  | [], _, _, _, _, hp => hp
  | id :: rest, s, hs, hn, hd, hp => by
    rw [List.nodup_cons] at hn
    have hm := hd id (List.mem_cons_self ..)
    obtain ⟨w1, w2, w3⟩ := WF_expireCtx hs id hm
    have hlive := hs.live id (Or.inr ((contains_iff _ _).mpr ⟨_, hm⟩))
    obtain ⟨c, hg⟩ := (contains_iff _ _).mp hlive
    simp only [List.foldl]
    refine foldl_expire_induct P hstep rest (expireCtx s id) w1 hn.2 ?_ (hstep s id c hs hm hg hp)
    intro id' hm'
    rw [w2]
    apply w1.expM.1
    rw [w3]
    refine ⟨hs.expM.2 id' s.height (hd id' (List.mem_cons_of_mem _ hm')), ?_⟩
    intro e
    have : id' = id := (Prod.mk.inj e).2
    subst this; exact hn.1 hm'

theorem foldl_new_induct (P : State → Prop)
    (hstep : ∀ s id c, WF s → AMap.get? s.newH id = some s.height → AMap.get? s.ctxs id = some c → P s → P (newBatch s id)) :
    ∀ (l : List CtxId) (s : State), WF s → l.Nodup → (∀ id, id ∈ l → AMap.get? s.newH id = some s.height) → P s →
      P (l.foldl newBatch s)
  | [], _, _, _, _, hp => hp
  | id :: rest, s, hs, hn, hd, hp => by
    rw [List.nodup_cons] at hn
    have hm := hd id (List.mem_cons_self ..)
    obtain ⟨w1, w2, _, w4⟩ := WF_newBatch hs id hm
    have hlive := hs.live id (Or.inl ((contains_iff _ _).mpr ⟨_, hm⟩))
    obtain ⟨c, hg⟩ := (contains_iff _ _).mp hlive
    simp only [List.foldl]
    refine foldl_new_induct P hstep rest (newBatch s id) w1 hn.2 ?_ (hstep s id c hs hm hg hp)
    intro id' hm'
    rw [w2, w4 id' (by intro e; subst e; exact hn.1 hm')]
    exact hd id' (List.mem_cons_of_mem _ hm')

theorem endBlock_induct (P : State → Prop)
    (hexp : ∀ s id c, WF s → AMap.get? s.expH id = some s.height → AMap.get? s.ctxs id = some c → P s → P (expireCtx s id))
    (hnew : ∀ s id c, WF s → AMap.get? s.newH id = some s.height → AMap.get? s.ctxs id = some c → P s → P (newBatch s id))
    {s : State} (hw : WF s) (hp : P s) : P (endBlock s) := by
  obtain ⟨w1, _, _⟩ := WF_expiredPhase hw
  have h1 : P (expiredPhase s) := by
    unfold expiredPhase
    exact foldl_expire_induct P hexp _ s hw (nodup_dueIds _ _ hw.expND)
      (fun id hm => hw.expM.1 _ _ ((mem_dueIds _ _ _).mp hm)) hp
  unfold endBlock newPhase
  exact foldl_new_induct P hnew _ _ w1 (nodup_dueIds _ _ w1.newND)
    (fun id hm => w1.newM.1 _ _ ((mem_dueIds _ _ _).mp hm)) h1

theorem GI_endBlock {s : State} (hw : WF s) (h : GI s) : GI (endBlock s) :=
  endBlock_induct GI (fun _ _ _ _ _ hg hp => hp.of_frame (expireCtx_gframe hg))
    (fun _ _ _ _ _ hg hp => hp.of_frame (newBatch_gframe hg)) hw h

theorem GI_nextBlock {s : State} (hw : WF s) (h : GI s) (dt : Int) : GI (nextBlock s dt) := by
  unfold nextBlock beginNext
  exact (GI_endBlock hw h).of_frame (GFrame.of_eq rfl rfl rfl rfl rfl rfl)

theorem GI_skipBlocks (dt : Int) : ∀ (n : Nat) (s : State), WF s → GI s → GI (skipBlocks s dt n)
  | 0, _, _, h => h
  | n + 1, s, hw, h => GI_skipBlocks dt n (nextBlock s dt) (WF_nextBlock hw dt) (GI_nextBlock hw h dt)

end Irismod.Proofs.ServiceGenesis

namespace Irismod.Proofs.ServiceGenesis
open Irismod Irismod.Sdk Irismod.Service Irismod.ServiceGenesis Irismod.Proofs.GenesisList Irismod.Proofs.Service

/-! ### message handlers -/

/-- the entry points the Go types or the callers constrain, spelled out for the model's untyped arguments:
a provider is bound under a user address; module-level context creation runs under a module name (so
`ValidateRequest` runs) with well-formed addresses; a keeper-level update carries a well-formed provider list -/
def opGenesisOk : Op → Prop
  | .bind _ provider _ _ _ _ _ => Good provider
  | .mcall _ consumer _ providers _ _ _ _ _ _ _ _ modName =>
    modName ≠ "" ∧ validAddr consumer = true ∧ providers.all validAddr = true
  | .mupdate _ _ providers _ _ _ _ _ =>
    providers.all validAddr = true ∧ providers.length ≤ 10 ∧ nodup providers = true
  | _ => True

/-- one more stored context with valid fields; nothing else of the registry moves -/
theorem GI.newCtx {s : State} (h : GI s) (id : CtxId) (c : Ctx) (hc : ctxFieldsValid c = true) (s' : State)
    (e1 : s'.params = s.params) (e2 : s'.defs = s.defs) (e3 : s'.wd = s.wd) (e4 : s'.owners = s.owners)
    (e5 : s'.binds = s.binds) (e6 : s'.ctxs = AMap.set s.ctxs id c) : GI s' := by
  refine ⟨⟨by rw [e1]; exact h.fields.params, by rw [e2]; exact h.fields.defs, by rw [e5]; exact h.fields.binds,
    by rw [e3]; exact h.fields.wd, ?_⟩, ⟨by rw [e4, e5]; exact h.own.own1, by rw [e4, e5]; exact h.own.own2⟩,
    by rw [e5]; exact h.nd, by rw [e5]; exact h.prov⟩
  intro id' c' hg
  rw [e6] at hg
  rcases get?_set_cases hg with ⟨_, rfl⟩ | ⟨_, hg'⟩
  · exact hc
  · exact h.fields.ctxs id' c' hg'

/-- one more definition -/
theorem GI.setDef {s : State} (h : GI s) (n : String) (a : Addr) (hv : defValid (n, a) = true) (s' : State)
    (e1 : s'.params = s.params) (e2 : s'.defs = AMap.set s.defs n a) (e3 : s'.wd = s.wd) (e4 : s'.owners = s.owners)
    (e5 : s'.binds = s.binds) (e6 : s'.ctxs = s.ctxs) : GI s' := by
  refine ⟨⟨by rw [e1]; exact h.fields.params, ?_, by rw [e5]; exact h.fields.binds, by rw [e3]; exact h.fields.wd,
    by rw [e6]; exact h.fields.ctxs⟩, ⟨by rw [e4, e5]; exact h.own.own1, by rw [e4, e5]; exact h.own.own2⟩,
    by rw [e5]; exact h.nd, by rw [e5]; exact h.prov⟩
  intro n' a' hg
  rw [e2] at hg
  rcases get?_set_cases hg with ⟨rfl, rfl⟩ | ⟨_, hg'⟩
  · exact hv
  · exact h.fields.defs n' a' hg'

/-- one more withdraw address -/
theorem GI.setWd {s : State} (h : GI s) (o a : Addr) (hv : wdValid (o, a) = true) (s' : State)
    (e1 : s'.params = s.params) (e2 : s'.defs = s.defs) (e3 : s'.wd = AMap.set s.wd o a) (e4 : s'.owners = s.owners)
    (e5 : s'.binds = s.binds) (e6 : s'.ctxs = s.ctxs) : GI s' := by
  refine ⟨⟨by rw [e1]; exact h.fields.params, by rw [e2]; exact h.fields.defs, by rw [e5]; exact h.fields.binds, ?_,
    by rw [e6]; exact h.fields.ctxs⟩, ⟨by rw [e4, e5]; exact h.own.own1, by rw [e4, e5]; exact h.own.own2⟩,
    by rw [e5]; exact h.nd, by rw [e5]; exact h.prov⟩
  intro o' a' hg
  rw [e3] at hg
  rcases get?_set_cases hg with ⟨rfl, rfl⟩ | ⟨_, hg'⟩
  · exact hv
  · exact h.fields.wd o' a' hg'

theorem validRequest_fields {svc cap providers inputOk timeout repeated freq total}
    (h : validRequest svc cap providers inputOk timeout repeated freq total = true) :
    validSvcName svc = true ∧ providers.isEmpty = false ∧ providers.length ≤ 10 ∧ nodup providers = true := by
  unfold validRequest at h
  simp only [Bool.and_eq_true, decide_eq_true_eq, Bool.not_eq_true'] at h
  exact ⟨h.1.1.1.1.1.1.1, h.1.1.1.1.1.2, h.1.1.1.1.2, h.1.1.1.2⟩

theorem newCtx_fields {svc : String} {providers : List Addr} {consumer : Addr}
    (h1 : validSvcName svc = true) (h2 : providers.all validAddr = true) (h3 : providers.isEmpty = false)
    (h4 : providers.length ≤ 10) (h5 : nodup providers = true) (h6 : validAddr consumer = true)
    (c : Nat) (timeout : Int) (repeated : Bool) (freq : Nat) (total : Int) (st : CtxState) (thr : Nat) (mn : String) :
    ctxFieldsValid (newCtx svc providers consumer c timeout repeated freq total st thr mn) = true := by
  unfold ctxFieldsValid newCtx
  simp only [Bool.and_eq_true, decide_eq_true_eq, Bool.not_eq_true']
  exact ⟨⟨⟨⟨⟨h1, h2⟩, h3⟩, h4⟩, h5⟩, h6⟩

theorem GI_createCtx {s s' : State} {newId svc providers consumer inputOk cap timeout repeated freq total st thr moduleName}
    (hs : GI s) (h1 : validSvcName svc = true) (h2 : providers.all validAddr = true) (h3 : providers.isEmpty = false)
    (h4 : providers.length ≤ 10) (h5 : nodup providers = true) (h6 : validAddr consumer = true)
    (h : createCtx s newId svc providers consumer inputOk cap timeout repeated freq total st thr moduleName = .ok s') :
    GI s' := by
  unfold createCtx at h
  split at h
  · cases h
  split at h
  · cases h
  split at h
  · cases h
  split at h
  · cases h
  split at h
  · cases h
  rename_i c _ _
  cases h
  have hok := newCtx_fields h1 h2 h3 h4 h5 h6 c timeout repeated freq total st thr moduleName
  unfold createState
  split
  · exact hs.newCtx newId _ hok _ rfl rfl rfl rfl rfl rfl
  · exact hs.newCtx newId _ hok _ rfl rfl rfl rfl rfl rfl

theorem GI_keeperPause {s s' : State} {id consumer} (hs : GI s) (h : keeperPause s id consumer = .ok s') : GI s' := by
  unfold keeperPause at h
  split at h
  · cases h
  rename_i rc hg
  split at h
  · cases h
  split at h
  · cases h
  split at h
  · cases h
  cases h
  exact hs.of_frame (GFrame.setCtx hg _ rfl)

theorem GI_keeperKill {s s' : State} {id consumer} (hs : GI s) (h : keeperKill s id consumer = .ok s') : GI s' := by
  unfold keeperKill at h
  split at h
  · cases h
  rename_i rc hg
  split at h
  · cases h
  split at h
  · cases h
  cases h
  exact hs.of_frame (GFrame.setCtx hg _ rfl)

theorem GI_keeperStart {s s' : State} {id consumer} (hs : GI s) (h : keeperStart s id consumer = .ok s') : GI s' := by
  unfold keeperStart at h
  split at h
  · cases h
  rename_i rc hg
  split at h
  · cases h
  split at h
  · cases h
  split at h
  · cases h
  cases h
  have f : GFrame s (Irismod.Service.setCtx s id { rc with state := .running }) := GFrame.setCtx hg _ rfl
  split
  · exact hs.of_frame (f.trans (GFrame.of_eq rfl rfl rfl rfl rfl rfl))
  · exact hs.of_frame f

theorem updThreshold_providers {rc : Ctx} {providers : List Addr} {thr thr1 : Nat} {pds : List Addr}
    (h : updThreshold rc providers thr = some (thr1, pds)) :
    (if pds.isEmpty then rc.providers else pds) = rc.providers ∨
    ((if pds.isEmpty then rc.providers else pds) = providers ∧ providers.isEmpty = false) := by
  unfold updThreshold at h
  by_cases hm : rc.moduleName = ""
  · rw [if_pos hm] at h
    cases h
    cases hp : providers.isEmpty with
    | true => left; simp
    | false => right; simp
  · rw [if_neg hm] at h
    by_cases hlt : (if providers.isEmpty then rc.providers else providers).length < (if thr = 0 then rc.respThreshold else thr)
    · rw [if_pos hlt] at h; cases h
    · rw [if_neg hlt] at h
      cases h
      cases hp : providers.isEmpty with
      | true => left; simp
      | false =>
        right
        simp only [Bool.false_eq_true, if_false, hp]
        exact ⟨trivial, trivial⟩

theorem GI_keeperUpdate {s s' : State} {id providers thr cap timeout freq total consumer} (hs : GI s)
    (hp : providers.all validAddr = true ∧ providers.length ≤ 10 ∧ nodup providers = true)
    (h : keeperUpdate s id providers thr cap timeout freq total consumer = .ok s') : GI s' := by
  unfold keeperUpdate at h
  split at h
  · cases h
  rename_i rc hg
  split at h
  · cases h
  split at h
  · cases h
  split at h
  · cases h
  split at h
  · cases h
  rename_i thr1 pds hthr
  split at h
  · cases h
  split at h
  · cases h
  split at h
  · cases h
  split at h
  · cases h
  cases h
  have hrc := hs.fields.ctxs id rc hg
  refine hs.newCtx id _ ?_ _ rfl rfl rfl rfl rfl rfl
  unfold ctxFieldsValid updatedCtx
  simp only
  rcases updThreshold_providers hthr with e | ⟨e, hne⟩
  · rw [e]; exact hrc
  · rw [e]
    unfold ctxFieldsValid at hrc
    simp only [Bool.and_eq_true, decide_eq_true_eq, Bool.not_eq_true'] at hrc ⊢
    exact ⟨⟨⟨⟨⟨hrc.1.1.1.1.1, hp.1⟩, hne⟩, hp.2.1⟩, hp.2.2⟩, hrc.2⟩

theorem stepUpdateCtx_providers {s s' : State} {consumer : Addr} {id : String} {providers cap timeout freq total}
    (h : stepUpdateCtx s consumer id providers cap timeout freq total = .ok s') :
    providers.all validAddr = true ∧ providers.length ≤ 10 ∧ nodup providers = true := by
  unfold stepUpdateCtx at h
  split at h
  · cases h
  split at h
  · cases h
  split at h
  · cases h
  rename_i ha
  split at h
  · cases h
  rename_i hv
  unfold validUpdate at hv
  simp only [Bool.not_eq_true', Bool.not_eq_false, Bool.and_eq_true, decide_eq_true_eq] at hv ha
  exact ⟨ha, hv.1.1.1.1.1, hv.1.1.1.1.2⟩

theorem countResponse_gframe {t : State} {id : CtxId} {c : Ctx} (hg : AMap.get? t.ctxs id = some c) :
    GFrame t (countResponse t id) := by
  have hgc := getCtx_of_get? hg
  unfold countResponse
  rw [hgc]
  split
  · unfold storeCtx completeBatch
    simp only
    split
    · have hg' : AMap.get? (callback t id).ctxs id = some c := hg
      exact (GFrame.of_eq (s' := callback t id) rfl rfl rfl rfl rfl rfl).trans (GFrame.setCtx hg' _ rfl)
    · exact GFrame.setCtx hg _ rfl
  · exact GFrame.setCtx hg _ rfl

theorem GI_keeperRespond {s s' : State} {provider : Addr} {rid : ReqId} {hasOut : Bool} (hs : GI s)
    (h : keeperRespond s provider rid hasOut = .ok s') : GI s' := by
  unfold keeperRespond at h
  split at h
  · cases h
  rename_i rq rc hreq
  split at h
  · cases h
  split at h
  · cases h
  split at h
  · cases h
  rename_i s1 hfee
  cases h
  obtain ⟨_, hctx⟩ := getRequest_some hreq
  unfold addEarnedFee at hfee
  split at hfee
  · cases hfee
  split at hfee
  · cases hfee
  cases hfee
  refine hs.of_frame ((GFrame.of_eq rfl rfl rfl rfl rfl rfl).trans (countResponse_gframe (c := rc) ?_))
  exact hctx

theorem GI_keeperWithdraw {s s' : State} {owner provider} (hs : GI s) (h : keeperWithdraw s owner provider = .ok s') :
    GI s' := by
  unfold keeperWithdraw at h
  split at h
  · unfold withdrawProvider at h
    split at h
    · cases h
    split at h
    · cases h
    split at h
    · cases h
    cases h
    exact hs.of_frame (GFrame.of_eq rfl rfl rfl rfl rfl rfl)
  · unfold withdrawOwner at h
    split at h
    · cases h
    cases h
    exact hs.of_frame (GFrame.of_eq rfl rfl rfl rfl rfl rfl)

/-- what an accepted `bind` has checked -/
theorem stepBind_inv {s s' : State} {owner provider svc dep qos pin optsOk}
    (h : stepBind s owner provider svc dep qos pin optsOk = .ok s') :
    vbBind owner provider svc dep qos pin optsOk = true ∧ ownedByOther s provider owner = false ∧
    ∃ d pr bank, s' = bindState s owner provider svc d qos pr bank := by
  unfold stepBind at h
  split at h
  · cases h
  rename_i hvb
  split at h
  · cases h
  unfold keeperBind at h
  split at h
  · cases h
  split at h
  · cases h
  split at h
  · cases h
  rename_i hown
  split at h
  · cases h
  split at h
  · cases h
  split at h
  · cases h
  split at h
  · cases h
  split at h
  · cases h
  cases h
  exact ⟨by simpa using hvb, by simpa using hown, _, _, _, rfl⟩

theorem GI_bind {s s' : State} {owner provider svc dep qos pin optsOk} (hs : GI s) (hp : Good provider)
    (h : stepBind s owner provider svc dep qos pin optsOk = .ok s') : GI s' := by
  obtain ⟨hvb, hown, d, pr, bank, rfl⟩ := stepBind_inv h
  unfold vbBind at hvb
  simp only [Bool.and_eq_true, decide_eq_true_eq] at hvb
  obtain ⟨⟨⟨⟨⟨⟨v1, v2⟩, v3⟩, _⟩, v5⟩, _⟩, _⟩ := hvb
  -- the owner index after the bind
  have howners : ∀ p, AMap.get? (bindState s owner provider svc d qos pr bank).owners p =
      if p = provider then some owner else AMap.get? s.owners p := by
    intro p
    simp only [bindState]
    cases hc : AMap.contains s.owners provider with
    | true =>
      simp only [if_true]
      obtain ⟨o, ho⟩ := (contains_iff _ _).mp hc
      unfold ownedByOther at hown
      rw [ho] at hown
      have : o = owner := by simpa using hown
      subst this
      by_cases hpp : p = provider
      · rw [if_pos hpp, hpp]; exact ho
      · rw [if_neg hpp]
    | false =>
      simp only [Bool.false_eq_true, if_false]
      by_cases hpp : p = provider
      · rw [if_pos hpp, hpp]; exact AMap.get?_set_self _ _ _
      · rw [if_neg hpp]; exact AMap.get?_set_other _ _ _ _ (fun e => hpp e.symm)
  refine ⟨⟨hs.fields.params, hs.fields.defs, ?_, hs.fields.wd, hs.fields.ctxs⟩, ⟨?_, ?_⟩, nodupKeys_set hs.nd _ _, ?_⟩
  · intro k b hb
    simp only [bindState] at hb
    rcases get?_set_cases hb with ⟨rfl, rfl⟩ | ⟨_, hb'⟩
    · unfold bindValid
      simp only [Bool.and_eq_true, decide_eq_true_eq]
      exact ⟨⟨⟨v1, v2⟩, v3⟩, Nat.pos_of_ne_zero v5⟩
    · exact hs.fields.binds k b hb'
  · intro k b hb
    rw [howners]
    simp only [bindState] at hb
    rcases get?_set_cases hb with ⟨rfl, rfl⟩ | ⟨_, hb'⟩
    · simp
    · by_cases hpp : k.2 = provider
      · rw [if_pos hpp]
        -- the provider already has an owner, which the accepted bind has compared
        have ho := hs.own.own1 k b hb'
        rw [hpp] at ho
        unfold ownedByOther at hown
        rw [ho] at hown
        have : b.owner = owner := by simpa using hown
        rw [this]
      · rw [if_neg hpp]; exact hs.own.own1 k b hb'
  · intro p o ho
    rw [howners] at ho
    by_cases hpp : p = provider
    · subst hpp
      exact ⟨svc, _, by simp only [bindState]; exact AMap.get?_set_self _ _ _⟩
    · rw [if_neg hpp] at ho
      obtain ⟨svc0, b0, hb0⟩ := hs.own.own2 p o ho
      refine ⟨svc0, b0, ?_⟩
      simp only [bindState]
      rw [AMap.get?_set_other _ _ _ _ (by intro e; exact hpp (Prod.mk.inj e).2.symm)]
      exact hb0
  · intro k b hb
    simp only [bindState] at hb
    rcases get?_set_cases hb with ⟨rfl, rfl⟩ | ⟨_, hb'⟩
    · exact hp
    · exact hs.prov k b hb'

theorem GI_updateBinding {s s' : State} {owner provider svc dep qos pin opts} (hs : GI s)
    (h : stepUpdateBinding s owner provider svc dep qos pin opts = .ok s') : GI s' := by
  unfold stepUpdateBinding at h
  split at h
  · cases h
  obtain ⟨b, d, pr, bank, hb, _, _, _, rfl⟩ := keeperUpdateBinding_inv h
  split
  · refine hs.of_frame (GFrame.setBinding hb (updatedBinding b qos d pr) ?_ _ rfl rfl rfl rfl rfl rfl)
    unfold updatedBinding BKeep
    simp only
    refine ⟨trivial, fun hq => ?_⟩
    split
    · rename_i hne; exact Nat.pos_of_ne_zero hne
    · exact hq
  · exact hs.of_frame (GFrame.of_eq rfl rfl rfl rfl rfl rfl)

theorem GI_stepCore {s s' : State} {op : Op} (hw : WF s) (hs : GI s) (hg : opGenesisOk op)
    (h : stepCore s op = .ok s') : GI s' := by
  cases op with
  | define sender name schOk =>
    simp only [stepCore, stepDefine] at h
    split at h
    · cases h
    rename_i h1
    split at h
    · cases h
    rename_i h2
    split at h
    · cases h
    split at h
    · cases h
    cases h
    refine hs.setDef name sender ?_ _ rfl rfl rfl rfl rfl rfl
    unfold defValid
    simp only [Bool.not_eq_true', Bool.not_eq_false] at h1 h2
    simp [h1, h2]
  | bind owner provider svc dep qos pin optsOk => exact GI_bind hs hg h
  | updateBinding owner provider svc dep qos pin opts => exact GI_updateBinding hs h
  | setWithdraw owner addr =>
    simp only [stepCore, stepSetWithdraw] at h
    split at h
    · cases h
    rename_i h1
    split at h
    · cases h
    cases h
    refine hs.setWd owner addr ?_ _ rfl rfl rfl rfl rfl rfl
    unfold wdValid
    simp only [Bool.not_eq_true', not_or, Bool.not_eq_false] at h1
    simp [h1.1, h1.2]
  | enable owner provider svc dep =>
    simp only [stepCore, stepEnable] at h
    split at h
    · cases h
    unfold keeperEnable at h
    split at h
    · cases h
    rename_i b hb
    split at h
    · cases h
    split at h
    · cases h
    split at h
    · cases h
    rename_i d hd
    split at h
    · cases h
    split at h
    · cases h
    cases h
    exact hs.of_frame (GFrame.setBinding hb { b with deposit := b.deposit + d, available := true, disabledTime := zeroTime }
      ⟨rfl, fun q => q⟩ _ rfl rfl rfl rfl rfl rfl)
  | disable owner provider svc =>
    simp only [stepCore, stepDisable] at h
    split at h
    · cases h
    split at h
    · cases h
    rename_i b hb
    split at h
    · cases h
    split at h
    · cases h
    cases h
    exact hs.of_frame (GFrame.setBinding hb { b with available := false, disabledTime := s.time }
      ⟨rfl, fun q => q⟩ _ rfl rfl rfl rfl rfl rfl)
  | refundDeposit owner provider svc =>
    simp only [stepCore, stepRefundDeposit] at h
    split at h
    · cases h
    unfold keeperRefundDeposit at h
    split at h
    · cases h
    rename_i b hb
    split at h
    · cases h
    split at h
    · cases h
    split at h
    · cases h
    split at h
    · cases h
    split at h
    · cases h
    cases h
    exact hs.of_frame (GFrame.setBinding hb { b with deposit := 0 } ⟨rfl, fun q => q⟩ _ rfl rfl rfl rfl rfl rfl)
  | call tx consumer svc providers cap timeout repeated freq total inputOk =>
    simp only [stepCore, stepCall] at h
    split at h
    · cases h
    rename_i ha
    split at h
    · cases h
    rename_i hreq
    split at h
    · cases h
    simp only [Bool.not_eq_true', not_or, Bool.not_eq_false] at ha hreq
    obtain ⟨r1, r2, r3, r4⟩ := validRequest_fields hreq
    exact GI_createCtx hs r1 ha.2 r2 r3 r4 ha.1 h
  | mcall tx consumer svc providers cap timeout repeated freq total inputOk paused thr modName =>
    simp only [stepCore] at h
    obtain ⟨hm, hc, hpv⟩ := hg
    have hreq : validRequest svc cap providers inputOk timeout repeated freq total = true := by
      unfold createCtx at h
      split at h
      · cases h
      rename_i hmm
      unfold moduleCtxOk at hmm
      simp only [Bool.not_eq_true', Bool.not_eq_false, Bool.or_eq_true, decide_eq_true_eq, hm, false_or,
        Bool.and_eq_true] at hmm
      exact hmm.1.1.2
    obtain ⟨r1, r2, r3, r4⟩ := validRequest_fields hreq
    exact GI_createCtx hs r1 hpv r2 r3 r4 hc h
  | respond provider rid code out resOk =>
    simp only [stepCore, stepRespond] at h
    split at h
    · cases h
    split at h
    · cases h
    exact GI_keeperRespond hs h
  | withdraw owner provider =>
    simp only [stepCore, stepWithdraw] at h
    split at h
    · cases h
    split at h
    · cases h
    exact GI_keeperWithdraw hs h
  | withdrawK owner provider => exact GI_keeperWithdraw hs h
  | pause consumer id => exact GI_keeperPause hs (stepPause_inv h)
  | start consumer id => exact GI_keeperStart hs (stepStart_inv h)
  | kill consumer id => exact GI_keeperKill hs (stepKill_inv h)
  | updateCtx consumer id providers cap timeout freq total =>
    exact GI_keeperUpdate hs (stepUpdateCtx_providers h) (stepUpdateCtx_inv h)
  | mpause consumer id => exact GI_keeperPause hs h
  | mstart consumer id => exact GI_keeperStart hs h
  | mkill consumer id => exact GI_keeperKill hs h
  | mupdate consumer id providers thr cap timeout freq total => exact GI_keeperUpdate hs hg h
  | setRate d r =>
    simp only [stepCore] at h
    cases h
    exact hs.of_frame (GFrame.of_eq rfl rfl rfl rfl rfl rfl)
  | next dt =>
    simp only [stepCore] at h
    cases h
    exact GI_nextBlock hw hs dt
  | skip n dt =>
    simp only [stepCore] at h
    cases h
    exact GI_skipBlocks dt n s hw hs

end Irismod.Proofs.ServiceGenesis
