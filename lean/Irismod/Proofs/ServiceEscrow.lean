/-
C07, request-escrow side: on well-formed states and without promotions every operation that can be
sent as a message, and every block, preserves
`requestEscrow = Σ fees of active requests + Σ earned fees`.
-/
import Irismod.Proofs.ServiceWF

namespace Irismod.Proofs.Service
open Irismod Irismod.Sdk Irismod.Service Irismod.Spec.C07

/-! ### decimals: multiplying by one -/

theorem chopRoundNat_mul (k : Nat) : chopRoundNat (k * 1000000000000000000) = k := by
  unfold chopRoundNat
  simp [Nat.mul_mod_left]

theorem chopRound_natMul (k : Nat) : chopRound (((k * 1000000000000000000 : Nat) : Int)) = (k : Int) := by
  unfold chopRound
  rw [if_neg (by omega)]
  rw [Int.natAbs_natCast, chopRoundNat_mul]

theorem mulDec_one (a : Nat) : mulDec (decOfNat a) decOne = decOfNat a := by
  unfold mulDec decOfNat decOne precision
  have h : ((a : Int) * 1000000000000000000 * 1000000000000000000) =
      (((a * 1000000000000000000) * 1000000000000000000 : Nat) : Int) := by
    simp [Int.natCast_mul]
  show Dec.mk (chopRound ((a : Int) * 1000000000000000000 * 1000000000000000000)) = Dec.mk ((a : Int) * 1000000000000000000)
  rw [h, chopRound_natMul]
  simp [Int.natCast_mul]

theorem truncNat_ofNat (a : Nat) : truncNat (decOfNat a) = a := by
  unfold truncNat decOfNat chopTrunc precision
  show (((a : Int) * 1000000000000000000).tdiv 1000000000000000000).toNat = a
  rw [Int.mul_tdiv_cancel _ (by decide)]
  simp

/-- without promotions the recorded fee is the price -/
theorem feeOf_noPromo (s : State) (c : Addr) (svc : String) (p : Addr) (pr : Pricing)
    (h1 : pr.ptime = []) (h2 : pr.pvol = []) : feeOf s c svc p pr = pr.amount := by
  unfold feeOf discT discV
  rw [h1, h2]
  simp only [List.find?, discVAux]
  rw [mulDec_one, mulDec_one, truncNat_ofNat]

/-! ### sums over lists -/

theorem sumList_append (a b : List Nat) : sumList (a ++ b) = sumList a + sumList b := by
  induction a with
  | nil => simp [sumList]
  | cons x t ih => simp [sumList, ih]; omega

theorem sumList_map_congr {α : Type} (l : List α) (f g : α → Nat) (h : ∀ a, a ∈ l → f a = g a) :
    sumList (l.map f) = sumList (l.map g) := by
  induction l with
  | nil => rfl
  | cons x t ih =>
    simp only [List.map, sumList]
    rw [h x (List.mem_cons_self ..), ih (fun a ha => h a (List.mem_cons_of_mem _ ha))]

theorem sumList_filter_ne {α : Type} [DecidableEq α] (f : α → Nat) :
    ∀ (l : List α) (a : α), l.Nodup → a ∈ l →
      sumList ((l.filter (fun y => decide (y ≠ a))).map f) + f a = sumList (l.map f)
  | [], a, _, hm => by cases hm
  | x :: t, a, hn, hm => by
    rw [List.nodup_cons] at hn
    by_cases hx : x = a
    · subst hx
      have hnot : t.filter (fun y => decide (y ≠ x)) = t := by
        apply List.filter_eq_self.mpr
        intro y hy
        simp only [ne_eq, decide_eq_true_eq]
        intro e; subst e; exact hn.1 hy
      rw [List.filter_cons]
      simp only [ne_eq, not_true_eq_false, decide_false, Bool.false_eq_true, if_false, List.map, sumList]
      rw [hnot]; omega
    · have hm' : a ∈ t := by
        rcases List.mem_cons.mp hm with h | h
        · exact absurd h.symm hx
        · exact h
      have ih := sumList_filter_ne f t a hn.2 hm'
      rw [List.filter_cons]
      simp only [ne_eq, hx, not_false_eq_true, decide_true, if_true, List.map, sumList] at ih ⊢
      omega

theorem le_sumList_of_mem {α : Type} (f : α → Nat) (l : List α) (a : α) (h : a ∈ l) : f a ≤ sumList (l.map f) := by
  induction l with
  | nil => cases h
  | cons x t ih =>
    simp only [List.map, sumList]
    rcases List.mem_cons.mp h with h | h
    · subst h; omega
    · have := ih h; omega

/-! ### coin sums -/

/-- amount of denom `d` in a coin list -/
def coinsIn (c : Coins) (d : Denom) : Nat := AMap.sumIf (fun k : Denom => k = d) id c

theorem coinsIn_cons (e : Denom × Nat) (t : Coins) (d : Denom) :
    coinsIn (e :: t) d = (if e.1 = d then e.2 else 0) + coinsIn t d := by
  obtain ⟨k, v⟩ := e
  simp [coinsIn, AMap.sumIf]

theorem coinsIn_insertCoin (e : Denom × Nat) (c : Coins) (d : Denom) :
    coinsIn (insertCoin e c) d = (if e.1 = d then e.2 else 0) + coinsIn c d := by
  induction c with
  | nil => simp [insertCoin, coinsIn_cons]
  | cons h t ih =>
    simp only [insertCoin]
    split
    · rw [coinsIn_cons]
    · rw [coinsIn_cons, ih, coinsIn_cons]; omega

theorem coinsIn_sortCoins (c : Coins) (d : Denom) : coinsIn (sortCoins c) d = coinsIn c d := by
  induction c with
  | nil => rfl
  | cons e t ih =>
    unfold sortCoins at ih ⊢
    simp only [List.foldr]
    rw [coinsIn_insertCoin, ih, coinsIn_cons]

theorem coinsIn_addCoin (c : Coins) (d0 : Denom) (n : Nat) (d : Denom) :
    coinsIn (addCoin c d0 n) d = coinsIn c d + (if d0 = d then n else 0) := by
  unfold addCoin coinsIn
  have h := AMap.sumIf_set (fun k : Denom => decide (k = d)) (id : Nat → Nat) c d0 (AMap.getD c d0 0 + n)
  have hb : ((AMap.get? c d0).map (id : Nat → Nat)).getD 0 = AMap.getD c d0 0 := by
    unfold AMap.getD
    cases AMap.get? c d0 <;> simp
  rw [hb] at h
  by_cases hd : d0 = d
  · simp only [hd, decide_true, if_true, id] at h ⊢
    omega
  · simp only [hd, decide_false, Bool.false_eq_true, if_false] at h ⊢
    omega

/-- crediting a coin list -/
theorem creditCoins_bal (a : Addr) : ∀ (c : Coins) (b : Bank) (d : Denom),
    Bank.balOf (creditCoins b a c) a d = Bank.balOf b a d + coinsIn c d
  | [], _, _ => by simp [creditCoins, coinsIn, AMap.sumIf]
  | (d0, n) :: rest, b, d => by
    simp only [creditCoins]
    rw [creditCoins_bal a rest _ d, coinsIn_cons]
    by_cases hd : d0 = d
    · subst hd
      rw [Bank.balOf_setBal_self]; simp; omega
    · rw [Bank.balOf_setBal_other _ _ _ _ _ _ (by intro e; cases e; exact hd rfl)]
      simp [hd]

/-- an all-or-nothing multi-coin send debits the sender by the coin amounts -/
theorem sendCoins_src {src dst : Addr} (hne : src ≠ dst) : ∀ (c : Coins) (b b' : Bank) (d : Denom),
    Bank.sendCoins b src dst c = some b' → Bank.balOf b' src d + coinsIn c d = Bank.balOf b src d
  | [], b, b', d, h => by
    simp [Bank.sendCoins] at h; subst h; simp [coinsIn, AMap.sumIf]
  | (d0, n) :: rest, b, b', d, h => by
    simp only [Bank.sendCoins] at h
    cases h1 : Bank.send b src dst d0 n with
    | none => simp [h1] at h
    | some b1 =>
      simp only [h1, Option.bind] at h
      have ih := sendCoins_src hne rest b1 b' d h
      rw [coinsIn_cons]
      by_cases hd : d0 = d
      · subst hd
        have := send_balOf_src hne h1
        simp; omega
      · have := send_balOf_other h1 src d (by intro e; cases e; exact hd rfl) (by intro e; cases e; exact hd rfl)
        simp [hd]; omega

/-- earned-fee entries of one provider, and what is left without them -/
theorem earned_split (m : AMap (Addr × Denom) Nat) (p : Addr) (d : Denom) :
    AMap.sumIf (fun k : Addr × Denom => k.2 = d) id (eraseAll m p) + coinsIn (entriesOf m p) d
      = AMap.sumIf (fun k : Addr × Denom => k.2 = d) id m := by
  induction m with
  | nil => simp [eraseAll, entriesOf, coinsIn, AMap.sumIf]
  | cons e t ih =>
    obtain ⟨⟨a, dn⟩, v⟩ := e
    unfold eraseAll entriesOf at ih ⊢
    simp only [ne_eq] at ih
    by_cases ha : a = p
    · subst ha
      simp only [List.filter_cons, ne_eq, not_true_eq_false, decide_false, Bool.false_eq_true, if_false, decide_true,
        if_true, List.map_cons]
      rw [coinsIn_cons]
      simp only [AMap.sumIf]
      by_cases hd : dn = d
      · simp only [hd, decide_true, if_true, id] at ih ⊢; omega
      · simp only [hd, decide_false, Bool.false_eq_true, if_false] at ih ⊢; omega
    · simp only [List.filter_cons, ne_eq, ha, not_false_eq_true, decide_true, if_true, decide_false, Bool.false_eq_true,
        if_false]
      simp only [AMap.sumIf]
      by_cases hd : dn = d
      · simp only [hd, decide_true, if_true, id] at ih ⊢; omega
      · simp only [hd, decide_false, Bool.false_eq_true, if_false] at ih ⊢; omega

end Irismod.Proofs.Service

namespace Irismod.Proofs.Service
open Irismod Irismod.Sdk Irismod.Service Irismod.Spec.C07

/-! ### promotions -/

/-- no stored pricing carries a promotion -/
def NoPromo (s : State) : Prop :=
  ∀ k b, AMap.get? s.binds k = some b → b.pricing.ptime = [] ∧ b.pricing.pvol = []

/-- the pricing documents of an operation carry no promotion -/
def opNoPromo : Op → Prop
  | .bind _ _ _ _ _ pin _ => pin.ptime = [] ∧ pin.pvol = []
  | .updateBinding _ _ _ _ _ (some pin) _ => pin.ptime = [] ∧ pin.pvol = []
  | _ => True

theorem parsePricing_noPromo {pin : PricingIn} {pr : Pricing} (h : parsePricing pin = some pr)
    (h1 : pin.ptime = []) (h2 : pin.pvol = []) : pr.ptime = [] ∧ pr.pvol = [] := by
  unfold parsePricing at h
  rw [h1, h2] at h
  simp only [mapM'] at h
  split at h
  · cases h
  split at h
  · cases h
  split at h
  · cases h
  split at h
  · cases h
  split at h
  · cases h; exact ⟨rfl, rfl⟩
  · cases h

theorem keeperPricing_noPromo {s : State} {pin : PricingIn} {pr : Pricing} (h : keeperPricing s pin = some pr)
    (h1 : pin.ptime = []) (h2 : pin.pvol = []) : pr.ptime = [] ∧ pr.pvol = [] := by
  unfold keeperPricing at h
  split at h
  · cases h
  rename_i pr' hp
  split at h
  · cases h
  split at h
  · cases h
  cases h
  exact parsePricing_noPromo hp h1 h2

theorem pricingOf_noPromo {s : State} (h : NoPromo s) (svc : String) (p : Addr) :
    (pricingOf s svc p).ptime = [] ∧ (pricingOf s svc p).pvol = [] := by
  unfold pricingOf
  split
  · rename_i b hb; exact h _ _ hb
  · exact ⟨rfl, rfl⟩

theorem NoPromo.of_binds {s s' : State} (h : NoPromo s) (e : s'.binds = s.binds) : NoPromo s' := by
  intro k b hg; rw [e] at hg; exact h k b hg

theorem NoPromo.set {s : State} (h : NoPromo s) (k : String × Addr) (b : Binding)
    (hb : b.pricing.ptime = [] ∧ b.pricing.pvol = []) (s' : State) (e : s'.binds = AMap.set s.binds k b) : NoPromo s' := by
  intro k' b' hg
  rw [e] at hg
  rcases get?_set_cases hg with ⟨_, rfl⟩ | ⟨_, hg'⟩
  · exact hb
  · exact h _ _ hg'

/-! ### the request-escrow identity: frames -/

/-- nothing `EscrowInv` reads has changed -/
def EscFrame (s s' : State) : Prop :=
  (∀ d, Bank.balOf s'.bank reqAcc d = Bank.balOf s.bank reqAcc d) ∧ s'.active = s.active ∧
  (∀ r, r ∈ s.active → AMap.get? s'.reqs r = AMap.get? s.reqs r) ∧ s'.earned = s.earned

theorem EscFrame.refl (s : State) : EscFrame s s := ⟨fun _ => rfl, rfl, fun _ _ => rfl, rfl⟩

theorem activeFee_congr {s s' : State} (ha : s'.active = s.active)
    (hr : ∀ r, r ∈ s.active → AMap.get? s'.reqs r = AMap.get? s.reqs r) (d : Denom) : activeFee s' d = activeFee s d := by
  unfold activeFee
  rw [ha]
  apply sumList_map_congr
  intro r hm
  unfold reqFee
  rw [hr r hm]

theorem EscrowInv.of_frame {s s' : State} (f : EscFrame s s') (h : EscrowInv s) : EscrowInv s' := by
  intro d
  rw [f.1 d, activeFee_congr f.2.1 f.2.2.1 d]
  unfold earnedSum
  rw [f.2.2.2]
  exact h d

/-- a bank change that does not touch the request escrow -/
theorem EscFrame.bank {s : State} (bank : Bank) (hb : ∀ d, Bank.balOf bank reqAcc d = Bank.balOf s.bank reqAcc d)
    (s' : State) (e1 : s'.bank = bank) (e2 : s'.active = s.active) (e3 : s'.reqs = s.reqs) (e4 : s'.earned = s.earned) :
    EscFrame s s' :=
  ⟨fun d => by rw [e1]; exact hb d, e2, fun _ _ => by rw [e3], e4⟩

theorem earnedSum_bump (m : AMap (Addr × Denom) Nat) (p : Addr) (d0 : Denom) (n : Nat) (d : Denom) :
    AMap.sumIf (fun k : Addr × Denom => k.2 = d) id (bump m p d0 n) =
      AMap.sumIf (fun k : Addr × Denom => k.2 = d) id m + (if d0 = d then n else 0) := by
  unfold bump
  split
  · rename_i hn; subst hn; simp
  · have h := AMap.sumIf_set (fun k : Addr × Denom => decide (k.2 = d)) (id : Nat → Nat) m (p, d0) (AMap.getD m (p, d0) 0 + n)
    have hb : ((AMap.get? m (p, d0)).map (id : Nat → Nat)).getD 0 = AMap.getD m (p, d0) 0 := by
      unfold AMap.getD
      cases AMap.get? m (p, d0) <;> simp
    rw [hb] at h
    by_cases hd : d0 = d
    · simp only [hd, decide_true, if_true, id] at h ⊢; omega
    · simp only [hd, decide_false, Bool.false_eq_true, if_false] at h ⊢; omega

/-! ### answering -/

theorem addEarnedFee_fields {s s1 : State} {p : Addr} {d : Denom} {amt : Nat} (h : addEarnedFee s p d amt = some s1) :
    ∃ bank, Bank.send s.bank reqAcc fcAcc d (taxOf s amt) = some bank ∧ taxOf s amt ≤ amt ∧ s1.bank = bank ∧
      s1.earned = bump s.earned p d (amt - taxOf s amt) ∧ s1.active = s.active ∧ s1.reqs = s.reqs ∧
      s1.binds = s.binds ∧ s1.params = s.params := by
  unfold addEarnedFee at h
  split at h
  · cases h
  rename_i bank hsend
  split at h
  · cases h
  rename_i htax
  cases h
  exact ⟨bank, hsend, by omega, rfl, rfl, rfl, rfl, rfl, rfl⟩

theorem countResponse_ledger (t : State) (id : CtxId) :
    (countResponse t id).bank = t.bank ∧ (countResponse t id).earned = t.earned ∧ (countResponse t id).binds = t.binds ∧
    (countResponse t id).params = t.params := by
  unfold countResponse storeCtx completeBatch callback
  split
  · split <;> exact ⟨rfl, rfl, rfl, rfl⟩
  · exact ⟨rfl, rfl, rfl, rfl⟩

/-- the same amount leaves the escrow and the earned-fee tallies; markers and requests untouched -/
theorem EscrowInv.shift {s s' : State} (he : EscrowInv s) (ha : s'.active = s.active) (hr : s'.reqs = s.reqs)
    (x : Denom → Nat) (hb : ∀ d, Bank.balOf s'.bank reqAcc d + x d = Bank.balOf s.bank reqAcc d)
    (hf : ∀ d, earnedSum s' d + x d = earnedSum s d) : EscrowInv s' := by
  intro d
  have h1 := he d
  have h2 := hb d
  have h3 := hf d
  rw [activeFee_congr ha (fun _ _ => by rw [hr]) d]
  omega

theorem escrow_respond {s s' : State} {provider : Addr} {rid : ReqId} {hasOut : Bool} (hw : WF s) (he : EscrowInv s)
    (h : keeperRespond s provider rid hasOut = .ok s') : EscrowInv s' := by
  unfold keeperRespond at h
  split at h
  · cases h
  rename_i rq rc hgr
  split at h
  · cases h
  split at h
  · cases h
  rename_i hact
  split at h
  · cases h
  rename_i s1 hfee
  cases h
  have hr : rid ∈ s.active := by simpa using hact
  obtain ⟨hq, _⟩ := getRequest_some hgr
  obtain ⟨bank, hsend, htax, f1, f2, f3, f4, _, _⟩ := addEarnedFee_fields hfee
  have r1 : (recordResponse s1 rid provider rq rc hasOut).reqs = s1.reqs := rfl
  have r2 : (recordResponse s1 rid provider rq rc hasOut).active = s1.active.filter (fun y => decide (y ≠ rid)) := rfl
  have r3 : (recordResponse s1 rid provider rq rc hasOut).earned = s1.earned := rfl
  have r4 : (recordResponse s1 rid provider rq rc hasOut).bank = s1.bank := rfl
  generalize recordResponse s1 rid provider rq rc hasOut = T at r1 r2 r3 r4 ⊢
  obtain ⟨_, _, _, _, g5, g6, _⟩ := countResponse_fields T rq.ctx
  obtain ⟨k1, k2, _, _⟩ := countResponse_ledger T rq.ctx
  intro d
  have hA : activeFee (countResponse T rq.ctx) d + reqFee s rid d = activeFee s d := by
    unfold activeFee
    rw [g6, r2, f3]
    have := sumList_filter_ne (fun r => reqFee s r d) s.active rid hw.nodup hr
    rw [← this]
    congr 1
    apply sumList_map_congr
    intro r _
    unfold reqFee
    rw [g5, r1, f4]
  have hF : earnedSum (countResponse T rq.ctx) d =
      earnedSum s d + (if rq.feeDenom = d then rq.feeAmt - taxOf s rq.feeAmt else 0) := by
    unfold earnedSum
    rw [k2, r3, f2]
    exact earnedSum_bump _ _ _ _ _
  have hfee : reqFee s rid d = if rq.feeDenom = d then rq.feeAmt else 0 := by
    unfold reqFee feeIn; rw [hq]
  have hinv := he d
  rw [k1, r4, f1]
  by_cases hd : rq.feeDenom = d
  · subst hd
    have hE := send_balOf_src (src := reqAcc) (dst := fcAcc) (by decide) hsend
    simp only [if_true] at hF hfee
    omega
  · have hE := send_balOf_other hsend reqAcc d (by intro e; cases e; exact hd rfl)
      (by intro e; have := (Prod.mk.inj e).1; revert this; decide)
    simp only [hd, if_false] at hF hfee
    omega

/-! ### withdrawing for one provider -/

theorem escrow_withdrawProvider {s s' : State} {owner p : Addr} (hu : UsersInv s) (ho : Good owner) (he : EscrowInv s)
    (h : withdrawProvider s owner p = .ok s') : EscrowInv s' := by
  unfold withdrawProvider at h
  split at h
  · cases h
  split at h
  · cases h
  split at h
  · cases h
  rename_i bank hsend
  cases h
  have hw := good_wdAddrOf hu ho
  exact EscrowInv.shift he rfl rfl (fun d => coinsIn (entriesOf s.earned p) d)
    (fun d => sendCoins_src (src := reqAcc) (dst := wdAddrOf s owner) (Ne.symm hw.2) _ _ _ d hsend)
    (fun d => earned_split s.earned p d)

end Irismod.Proofs.Service

namespace Irismod.Proofs.Service
open Irismod Irismod.Sdk Irismod.Service Irismod.Spec.C07

/-! ### expiry -/

/-- what the expiry loop needs from the structural invariant, and keeps while it runs -/
def ActOK (s : State) : Prop :=
  s.active.Nodup ∧ ∀ r, r ∈ s.active → ∃ rq c, AMap.get? s.reqs r = some rq ∧ rq.ctx = r.ctx ∧ AMap.get? s.ctxs r.ctx = some c

theorem WF.actOK {s : State} (h : WF s) : ActOK s :=
  ⟨h.nodup, fun r hr => by
    obtain ⟨rq, c, h1, h2, _, h4, _⟩ := h.act r hr
    exact ⟨rq, c, h1, h2, h4⟩⟩

theorem slash_ledger (s : State) (svc : String) (p : Addr) :
    (slash s svc p).active = s.active ∧ (slash s svc p).reqs = s.reqs ∧ (slash s svc p).earned = s.earned ∧
    (slash s svc p).ctxs = s.ctxs ∧ ∀ d, Bank.balOf (slash s svc p).bank reqAcc d = Bank.balOf s.bank reqAcc d := by
  unfold slash
  split
  · exact ⟨rfl, rfl, rfl, rfl, fun _ => rfl⟩
  · split
    · exact ⟨rfl, rfl, rfl, rfl, fun _ => rfl⟩
    · split
      · exact ⟨rfl, rfl, rfl, rfl, fun _ => rfl⟩
      · rename_i bank hs
        exact ⟨rfl, rfl, rfl, rfl, fun d => send_frame hs reqAcc (by decide) (by decide) d⟩

theorem getRequest_of {s : State} {r : ReqId} {rq : Req} {c : Ctx} (h1 : AMap.get? s.reqs r = some rq)
    (h2 : rq.ctx = r.ctx) (h3 : AMap.get? s.ctxs r.ctx = some c) : getRequest s r = some (rq, c) := by
  unfold getRequest
  rw [h1]
  simp only
  rw [h2, h3]

theorem escrow_expireReq {s : State} (ha : ActOK s) (hu : UsersInv s) (he : EscrowInv s) {rid : ReqId}
    (hr : rid ∈ s.active) : EscrowInv (expireReq s rid) ∧ ActOK (expireReq s rid) := by
  obtain ⟨rq, c, h1, h2, h3⟩ := ha.2 rid hr
  have hg := getRequest_of h1 h2 h3
  have hcons : Good c.consumer := hu.consumers _ _ h3
  obtain ⟨l1, l2, l3, l4, l5⟩ := slash_ledger s c.svc rq.provider
  have hsched := expireReq_sched s rid
  refine ⟨?_, ?_⟩
  · unfold expireReq
    rw [hg]
    simp only
    -- the refund cannot fail: the escrow holds at least the fee of this active request
    have hge : rq.feeAmt ≤ Bank.balOf (slash s c.svc rq.provider).bank reqAcc rq.feeDenom := by
      rw [l5]
      have := he rq.feeDenom
      have hle := le_sumList_of_mem (fun r => reqFee s r rq.feeDenom) s.active rid hr
      have hfee : reqFee s rid rq.feeDenom = rq.feeAmt := by unfold reqFee feeIn; rw [h1]; simp
      unfold activeFee at this
      omega
    obtain ⟨bank, hsend⟩ := send_isSome (dst := c.consumer) hge
    unfold refund
    rw [hsend]
    intro d
    have hsum := sumList_filter_ne (fun r => reqFee s r d) s.active rid ha.1 hr
    have hfee : reqFee s rid d = if rq.feeDenom = d then rq.feeAmt else 0 := by
      unfold reqFee feeIn; rw [h1]
    have hinv := he d
    rw [hfee] at hsum
    simp only [dropActive, activeFee, earnedSum, reqFee] at hsum hinv ⊢
    rw [l1, l2, l3]
    by_cases hd : rq.feeDenom = d
    · subst hd
      have hE := send_balOf_src (src := reqAcc) (dst := c.consumer) (Ne.symm hcons.2) hsend
      have := l5 rq.feeDenom
      simp only [if_true] at hsum
      omega
    · have hE := send_balOf_other hsend reqAcc d (by intro e; cases e; exact hd rfl)
        (by intro e; exact hcons.2 (Prod.mk.inj e).1.symm)
      have := l5 d
      simp only [hd, if_false] at hsum
      omega
  · obtain ⟨⟨_, _, _, _, q5, q6, _⟩, qa⟩ := hsched
    refine ⟨by rw [qa]; exact nodup_filter _ ha.1, ?_⟩
    intro r hr'
    rw [qa, List.mem_filter] at hr'
    obtain ⟨rq', c', a1, a2, a3⟩ := ha.2 r hr'.1
    exact ⟨rq', c', by rw [q5]; exact a1, a2, by rw [q6]; exact a3⟩

/-- the expiry loop over a duplicate-free list of markers -/
theorem escrow_foldl_expireReq : ∀ (l : List ReqId) (s : State), ActOK s → DI s → EscrowInv s → l.Nodup →
    (∀ r, r ∈ l → r ∈ s.active) → EscrowInv (l.foldl expireReq s)
  | [], _, _, _, he, _, _ => he
  | r :: rest, s, ha, hd, he, hn, hsub => by
    rw [List.nodup_cons] at hn
    obtain ⟨e1, a1⟩ := escrow_expireReq ha hd.1 he (hsub r (List.mem_cons_self ..))
    have d1 := hd.expireReq r
    simp only [List.foldl]
    apply escrow_foldl_expireReq rest (expireReq s r) a1 d1 e1 hn.2
    intro r' hr'
    rw [(expireReq_sched s r).2, List.mem_filter]
    refine ⟨hsub r' (List.mem_cons_of_mem _ hr'), ?_⟩
    simp only [ne_eq, decide_eq_true_eq]
    intro e; subst e; exact hn.1 hr'

theorem escrow_expireCtx {s : State} (hw : WF s) (hd : DI s) (he : EscrowInv s) (id : CtxId)
    (hm : AMap.get? s.expH id = some s.height) : EscrowInv (expireCtx s id) := by
  have hlive := hw.live id (Or.inr ((contains_iff _ _).mpr ⟨_, hm⟩))
  obtain ⟨c, hg⟩ := (contains_iff _ _).mp hlive
  obtain ⟨hsame, hact, _⟩ := expirePhase_sched hw hg
  obtain ⟨_, _, _, _, q5, _, _⟩ := hsame
  -- the first half keeps the identity
  have h1 : EscrowInv (expirePhase s id).1 := by
    unfold expirePhase
    rw [getCtx_of_get? hg]
    split
    · have hf := escrow_foldl_expireReq (activeOf s id c.batchCounter) s hw.actOK hd he
        (by unfold activeOf; exact nodup_isort _ _ (nodup_filter _ hw.nodup))
        (by intro r hr; unfold activeOf at hr; rw [mem_isort, List.mem_filter] at hr; exact hr.1)
      unfold completeBatch callback
      split
      · exact EscrowInv.of_frame ⟨fun _ => rfl, rfl, fun _ _ => rfl, rfl⟩ hf
      · exact hf
    · exact he
  -- the second half touches neither bank nor tallies, and only the requests of the expired batch
  unfold expireCtx finishExpire
  refine EscrowInv.of_frame ?_ h1
  have hset : ∀ (t : State) (rc : Ctx), (settleCtx t id rc).bank = t.bank ∧ (settleCtx t id rc).active = t.active ∧
      (settleCtx t id rc).reqs = t.reqs ∧ (settleCtx t id rc).earned = t.earned := by
    intro t rc
    unfold settleCtx
    split
    · exact ⟨rfl, rfl, rfl, rfl⟩
    · split
      · split <;> exact ⟨rfl, rfl, rfl, rfl⟩
      · exact ⟨rfl, rfl, rfl, rfl⟩
  obtain ⟨s1, s2, s3, s4⟩ := hset (setCtx (delExp (expirePhase s id).1 id (expirePhase s id).1.height) id (expirePhase s id).2)
    (expirePhase s id).2
  refine ⟨?_, ?_, ?_, ?_⟩
  · intro d; simp only [cleanBatch]; rw [s1]; rfl
  · simp only [cleanBatch]; rw [s2]; rfl
  · intro r hr
    simp only [cleanBatch]
    rw [s3]
    simp only [setCtx, delExp]
    rw [get?_filter_key (fun k : ReqId => !(k.inBatch id (expirePhase s id).2.batchCounter))]
    rw [hact, List.mem_filter] at hr
    have : r.ctx ≠ id := by simpa using hr.2
    simp [ReqId.inBatch, this]
  · simp only [cleanBatch]; rw [s4]; rfl

end Irismod.Proofs.Service

namespace Irismod.Proofs.Service
open Irismod Irismod.Sdk Irismod.Service Irismod.Spec.C07

/-! ### issuing a batch -/

/-- the (undiscounted) price of provider `p`, in denom `d` -/
def priceOf (s : State) (svc : String) (p : Addr) (d : Denom) : Nat :=
  if (pricingOf s svc p).denom = d then (pricingOf s svc p).amount else 0

/-- `FilterServiceProviders` totals exactly the prices of the providers it keeps -/
theorem filterProviders_total (s : State) (rc : Ctx) :
    ∀ (ps acc : List Addr) (tot : Coins) (provs : List Addr) (total : Coins),
      filterProviders s rc ps acc tot = some (provs, total) →
      ∃ added, provs = acc ++ added ∧
        ∀ d, coinsIn total d = coinsIn tot d + sumList (added.map (fun p => priceOf s rc.svc p d))
  | [], acc, tot, provs, total, h => by
    simp only [filterProviders] at h
    cases h
    exact ⟨[], by simp, fun d => by simp [sumList]⟩
  | p :: rest, acc, tot, provs, total, h => by
    simp only [filterProviders] at h
    split at h
    · exact filterProviders_total s rc rest acc tot provs total h
    · rename_i b hb
      split at h
      · split at h
        · cases h
        · split at h
          · obtain ⟨added, h1, h2⟩ := filterProviders_total s rc rest _ _ provs total h
            refine ⟨p :: added, by rw [h1]; simp, ?_⟩
            intro d
            rw [h2 d, coinsIn_addCoin]
            have : priceOf s rc.svc p d = if b.pricing.denom = d then b.pricing.amount else 0 := by
              unfold priceOf pricingOf; rw [hb]
            simp only [List.map, sumList, this]
            omega
          · exact filterProviders_total s rc rest acc tot provs total h
      · exact filterProviders_total s rc rest acc tot provs total h

theorem activeFee_addRequest (s : State) (rid : ReqId) (rq : Req) (h : s.active.contains rid = false) (d : Denom) :
    activeFee (addRequest s rid rq) d = activeFee s d + feeIn rq d := by
  have hnm : rid ∉ s.active := by simpa using h
  unfold activeFee
  simp only [addRequest, h, Bool.false_eq_true, if_false, List.map_append, List.map, sumList_append, sumList]
  have e1 : reqFee (addRequest s rid rq) rid d = feeIn rq d := by
    unfold reqFee; simp only [addRequest]; rw [AMap.get?_set_self]
  have e2 : sumList (s.active.map (fun r => reqFee (addRequest s rid rq) r d)) = sumList (s.active.map (fun r => reqFee s r d)) := by
    apply sumList_map_congr
    intro r hr
    unfold reqFee
    simp only [addRequest]
    rw [AMap.get?_set_other _ _ _ _ (by intro e; subst e; exact hnm hr)]
  simp only [addRequest, h, Bool.false_eq_true, if_false] at e1 e2
  rw [e2, e1]; omega

/-- the fees of the requests a batch creates -/
theorem mkRequests_fee (id : CtxId) (b : Nat) (svc : String) (cons : Addr) (to : Int) (d : Denom) :
    ∀ (ps : List Addr) (i : Nat) (s : State),
      (∀ r, r ∈ s.active → r.ctx = id → r.batch = b → r.h = s.height → r.idx < i) →
      activeFee (mkRequests s id b svc cons to ps i) d =
        activeFee s d + sumList (ps.map (fun p => feeIn (mkReq s id b svc cons to p) d))
  | [], _, _, _ => by simp [mkRequests, sumList]
  | p :: rest, i, s, hpre => by
    have hnot : s.active.contains (reqIdOf id b s.height i) = false := by
      cases hc : s.active.contains (reqIdOf id b s.height i) with
      | false => rfl
      | true =>
        have hm : reqIdOf id b s.height i ∈ s.active := by simpa using hc
        have := hpre _ hm rfl rfl rfl
        simp [reqIdOf] at this
    simp only [mkRequests]
    rw [mkRequests_fee id b svc cons to d rest (i + 1)
      (addRequest s (reqIdOf id b s.height i) (mkReq s id b svc cons to p)) (by
        intro r hr h1 h2 h3
        simp only [addRequest, hnot, Bool.false_eq_true, if_false, List.mem_append, List.mem_singleton] at hr
        rcases hr with hr | hr
        · have := hpre r hr h1 h2 h3; omega
        · subst hr; simp [reqIdOf])]
    rw [activeFee_addRequest s _ _ hnot d]
    simp only [List.map, sumList]
    have : ∀ q, mkReq (addRequest s (reqIdOf id b s.height i) (mkReq s id b svc cons to p)) id b svc cons to q =
        mkReq s id b svc cons to q := fun _ => rfl
    simp only [this]
    omega

/-- the request loop touches neither the bank nor the earned-fee tallies -/
theorem mkRequests_ledger (id : CtxId) (b : Nat) (svc : String) (cons : Addr) (to : Int) :
    ∀ (ps : List Addr) (i : Nat) (s : State),
      (mkRequests s id b svc cons to ps i).bank = s.bank ∧ (mkRequests s id b svc cons to ps i).earned = s.earned
  | [], _, _ => ⟨rfl, rfl⟩
  | p :: rest, i, s => by
    simp only [mkRequests]
    have := mkRequests_ledger id b svc cons to rest (i + 1)
      (addRequest s (reqIdOf id b s.height i) (mkReq s id b svc cons to p))
    exact ⟨this.1, this.2⟩

theorem feeIn_mkReq_noPromo {s : State} (hn : NoPromo s) (id : CtxId) (b : Nat) (svc : String) (cons : Addr) (to : Int)
    (p : Addr) (d : Denom) : feeIn (mkReq s id b svc cons to p) d = priceOf s svc p d := by
  obtain ⟨h1, h2⟩ := pricingOf_noPromo hn svc p
  unfold feeIn mkReq priceOf
  simp only
  rw [feeOf_noPromo s cons svc p _ h1 h2]

/-- pausing touches neither the bank nor requests, markers, tallies or bindings -/
theorem onPaused_ledger (t : State) (id : CtxId) (c : Ctx) (cause : String) :
    (onPaused t id c cause).bank = t.bank ∧ (onPaused t id c cause).active = t.active ∧
    (onPaused t id c cause).reqs = t.reqs ∧ (onPaused t id c cause).earned = t.earned ∧
    (onPaused t id c cause).binds = t.binds := by
  unfold onPaused; split <;> exact ⟨rfl, rfl, rfl, rfl, rfl⟩

theorem escrow_pausedDel {s : State} (he : EscrowInv s) (id : CtxId) (c : Ctx) (cause : String) :
    EscrowInv (delNew (onPaused s id c cause) id s.height) := by
  obtain ⟨o1, o2, o3, o4, _⟩ := onPaused_ledger s id c cause
  refine EscrowInv.of_frame ⟨?_, ?_, ?_, ?_⟩ he
  · intro d; simp only [delNew]; rw [o1]
  · simp only [delNew]; rw [o2]
  · intro r _; simp only [delNew]; rw [o3]
  · simp only [delNew]; rw [o4]

theorem escrow_newBatch {s : State} (hw : WF s) (hd : DI s) (hn : NoPromo s) (he : EscrowInv s) (id : CtxId)
    (hm : AMap.get? s.newH id = some s.height) : EscrowInv (newBatch s id) := by
  have hnc : AMap.contains s.newH id = true := (contains_iff _ _).mpr ⟨_, hm⟩
  have hlive := hw.live id (Or.inl hnc)
  obtain ⟨c, hg⟩ := (contains_iff _ _).mp hlive
  have hgc := getCtx_of_get? hg
  have hna := hw.no_active_of_new hnc
  have hcons : Good c.consumer := hd.1.consumers _ _ hg
  unfold newBatch
  rw [hgc]
  split
  · split
    · exact escrow_pausedDel he id c _
    · rename_i provs total hfp
      split
      · unfold chargeAndStart
        split
        · -- paid
          obtain ⟨added, ha1, ha2⟩ := filterProviders_total s c c.providers [] [] provs total hfp
          simp only [List.nil_append] at ha1
          subst ha1
          obtain ⟨s2, hs2⟩ : ∃ s2 : State, s2 = { s with bank := creditCoins (debitCoins s.bank c.consumer (sortCoins total)).1 reqAcc (sortCoins total) } :=
            ⟨_, rfl⟩
          rw [← hs2]
          have b1 : s2.binds = s.binds := by rw [hs2]
          have b2 : s2.active = s.active := by rw [hs2]
          have b3 : s2.reqs = s.reqs := by rw [hs2]
          have b4 : s2.earned = s.earned := by rw [hs2]
          have b5 : s2.ctxs = s.ctxs := by rw [hs2]
          have b6 : s2.bank = creditCoins (debitCoins s.bank c.consumer (sortCoins total)).1 reqAcc (sortCoins total) := by rw [hs2]
          have hget : getCtx s2 id = c := getCtx_of_get? (by rw [b5]; exact hg)
          have hn2 : NoPromo s2 := NoPromo.of_binds hn b1
          -- the queue / context bookkeeping after the request loop does not touch the ledger
          refine EscrowInv.of_frame (s := mkRequests s2 id (c.batchCounter + 1) c.svc c.consumer c.timeout provs 0) ?_ ?_
          · unfold initiateRequests
            rw [hget]
            exact ⟨fun _ => rfl, rfl, fun _ _ => rfl, rfl⟩
          intro d
          have hA := mkRequests_fee id (c.batchCounter + 1) c.svc c.consumer c.timeout d provs 0 s2
            (fun r hr hi _ _ => absurd hi (hna r (by rw [← b2]; exact hr)))
          have hl := mkRequests_ledger id (c.batchCounter + 1) c.svc c.consumer c.timeout provs 0 s2
          have hbank := creditCoins_bal reqAcc (sortCoins total) (debitCoins s.bank c.consumer (sortCoins total)).1 d
          rw [debitCoins_frame reqAcc c.consumer (Ne.symm hcons.2), coinsIn_sortCoins] at hbank
          have hinv := he d
          have hprice := ha2 d
          have hAs : activeFee s2 d = activeFee s d := activeFee_congr b2 (fun _ _ => by rw [b3]) d
          have hsame : sumList (provs.map (fun p => feeIn (mkReq s2 id (c.batchCounter + 1) c.svc c.consumer c.timeout p) d)) =
              sumList (provs.map (fun p => priceOf s c.svc p d)) := by
            apply sumList_map_congr
            intro p _
            rw [feeIn_mkReq_noPromo hn2]
            unfold priceOf pricingOf
            rw [b1]
          have hF : earnedSum (mkRequests s2 id (c.batchCounter + 1) c.svc c.consumer c.timeout provs 0) d = earnedSum s d := by
            unfold earnedSum; rw [hl.2, b4]
          have hcoins0 : coinsIn ([] : Coins) d = 0 := by simp [coinsIn, AMap.sumIf]
          rw [hl.1, b6, hbank, hA, hAs, hsame, hF]
          omega
        · -- not paid: nothing moves
          exact escrow_pausedDel he id c _
      · exact EscrowInv.of_frame ⟨fun _ => rfl, rfl, fun _ _ => rfl, rfl⟩ he
  · exact EscrowInv.of_frame ⟨fun _ => rfl, rfl, fun _ _ => rfl, rfl⟩ he

end Irismod.Proofs.Service

namespace Irismod.Proofs.Service
open Irismod Irismod.Sdk Irismod.Service Irismod.Spec.C07

/-! ### promotions stay absent -/

/-- every binding of `s'` has the pricing of the binding stored under the same key in `s` -/
def BindsPricing (s s' : State) : Prop :=
  ∀ k b', AMap.get? s'.binds k = some b' → ∃ b, AMap.get? s.binds k = some b ∧ b'.pricing = b.pricing

theorem BindsPricing.of_eq {s s' : State} (e : s'.binds = s.binds) : BindsPricing s s' :=
  fun k b' h => ⟨b', by rw [← e]; exact h, rfl⟩

theorem BindsPricing.trans {a b c : State} (h1 : BindsPricing a b) (h2 : BindsPricing b c) : BindsPricing a c := by
  intro k b' h
  obtain ⟨b1, g1, e1⟩ := h2 k b' h
  obtain ⟨b0, g0, e0⟩ := h1 k b1 g1
  exact ⟨b0, g0, e1.trans e0⟩

theorem NoPromo.of_pricing {s s' : State} (h : NoPromo s) (r : BindsPricing s s') : NoPromo s' := by
  intro k b' hg
  obtain ⟨b, g, e⟩ := r k b' hg
  rw [e]; exact h k b g

theorem slashedBinding_pricing (s : State) (b : Binding) : (slashedBinding s b).pricing = b.pricing := by
  unfold slashedBinding; split <;> rfl

theorem slash_pricing (s : State) (svc : String) (p : Addr) : BindsPricing s (slash s svc p) := by
  unfold slash
  split
  · exact BindsPricing.of_eq rfl
  · rename_i b hb
    split
    · exact BindsPricing.of_eq rfl
    · split
      · exact BindsPricing.of_eq rfl
      · intro k b' hg
        simp only at hg
        rcases get?_set_cases hg with ⟨rfl, rfl⟩ | ⟨_, hg'⟩
        · exact ⟨b, hb, slashedBinding_pricing s b⟩
        · exact ⟨b', hg', rfl⟩

theorem expireReq_pricing (s : State) (rid : ReqId) : BindsPricing s (expireReq s rid) := by
  unfold expireReq
  split
  · exact BindsPricing.of_eq rfl
  · rename_i rq rc _
    refine (slash_pricing s rc.svc rq.provider).trans (BindsPricing.of_eq ?_)
    unfold refund dropActive
    split <;> rfl

theorem foldl_expireReq_pricing : ∀ (l : List ReqId) (s : State), BindsPricing s (l.foldl expireReq s)
  | [], _ => BindsPricing.of_eq rfl
  | r :: rest, s => (expireReq_pricing s r).trans (foldl_expireReq_pricing rest (expireReq s r))

theorem expireCtx_pricing (s : State) (id : CtxId) : BindsPricing s (expireCtx s id) := by
  have h1 : BindsPricing s (expirePhase s id).1 := by
    unfold expirePhase
    split
    · refine (foldl_expireReq_pricing (activeOf s id (getCtx s id).batchCounter) s).trans (BindsPricing.of_eq ?_)
      unfold completeBatch callback
      split <;> rfl
    · exact BindsPricing.of_eq rfl
  refine h1.trans (BindsPricing.of_eq ?_)
  unfold expireCtx finishExpire
  have hset : ∀ (t : State) (rc : Ctx), (settleCtx t id rc).binds = t.binds := by
    intro t rc
    unfold settleCtx
    split
    · rfl
    · split
      · split <;> rfl
      · rfl
  simp only [cleanBatch]
  rw [hset]
  rfl

theorem newBatch_binds (s : State) (id : CtxId) : (newBatch s id).binds = s.binds := by
  unfold newBatch
  split
  · split
    · simp only [delNew]; exact (onPaused_ledger _ _ _ _).2.2.2.2
    · split
      · unfold chargeAndStart
        split
        · simp only [delNew, addExp, initiateRequests, setCtx]
          exact (mkRequests_core id _ _ _ _ _ 0 _).1.2.1
        · simp only [delNew]; exact (onPaused_ledger _ _ _ _).2.2.2.2
      · rfl
  · rfl

/-! ### the ledger bundle -/

/-- structural invariant, users / deposit invariant, no promotions, request-escrow identity -/
def Full (s : State) : Prop := WF s ∧ DI s ∧ NoPromo s ∧ EscrowInv s

theorem Full_expireCtx {s : State} (h : Full s) (id : CtxId) (hm : AMap.get? s.expH id = some s.height) :
    Full (expireCtx s id) :=
  ⟨(WF_expireCtx h.1 id hm).1, h.2.1.expireCtx id, h.2.2.1.of_pricing (expireCtx_pricing s id),
   escrow_expireCtx h.1 h.2.1 h.2.2.2 id hm⟩

theorem Full_newBatch {s : State} (h : Full s) (id : CtxId) (hm : AMap.get? s.newH id = some s.height) :
    Full (newBatch s id) :=
  ⟨(WF_newBatch h.1 id hm).1, h.2.1.newBatch id, h.2.2.1.of_binds (newBatch_binds s id),
   escrow_newBatch h.1 h.2.1 h.2.2.1 h.2.2.2 id hm⟩

theorem Full_foldl_expire : ∀ (l : List CtxId) (s : State), Full s → l.Nodup →
    (∀ id, id ∈ l → AMap.get? s.expH id = some s.height) →
    Full (l.foldl expireCtx s) ∧ (l.foldl expireCtx s).height = s.height
  | [], _, hs, _, _ => ⟨hs, rfl⟩
  | id :: rest, s, hs, hn, hd => by
    rw [List.nodup_cons] at hn
    obtain ⟨w1, w2, w3⟩ := WF_expireCtx hs.1 id (hd id (List.mem_cons_self ..))
    have f1 := Full_expireCtx hs id (hd id (List.mem_cons_self ..))
    have := Full_foldl_expire rest (expireCtx s id) f1 hn.2 (by
      intro id' hm
      rw [w2]
      apply w1.expM.1
      rw [w3]
      refine ⟨hs.1.expM.2 id' s.height (hd id' (List.mem_cons_of_mem _ hm)), ?_⟩
      intro e
      have : id' = id := (Prod.mk.inj e).2
      subst this; exact hn.1 hm)
    simp only [List.foldl]
    exact ⟨this.1, this.2.trans w2⟩

theorem Full_foldl_new : ∀ (l : List CtxId) (s : State), Full s → l.Nodup →
    (∀ id, id ∈ l → AMap.get? s.newH id = some s.height) →
    Full (l.foldl newBatch s) ∧ (l.foldl newBatch s).height = s.height
  | [], _, hs, _, _ => ⟨hs, rfl⟩
  | id :: rest, s, hs, hn, hd => by
    rw [List.nodup_cons] at hn
    obtain ⟨_, w2, _, w4⟩ := WF_newBatch hs.1 id (hd id (List.mem_cons_self ..))
    have f1 := Full_newBatch hs id (hd id (List.mem_cons_self ..))
    have := Full_foldl_new rest (newBatch s id) f1 hn.2 (by
      intro id' hm
      rw [w2, w4 id' (by intro e; subst e; exact hn.1 hm)]
      exact hd id' (List.mem_cons_of_mem _ hm))
    simp only [List.foldl]
    exact ⟨this.1, this.2.trans w2⟩

theorem Full_endBlock {s : State} (hs : Full s) : Full (endBlock s) := by
  unfold endBlock
  have h1 : Full (expiredPhase s) ∧ (expiredPhase s).height = s.height := by
    unfold expiredPhase
    exact Full_foldl_expire _ s hs (nodup_dueIds _ _ hs.1.expND)
      (fun id hm => hs.1.expM.1 _ _ ((mem_dueIds _ _ _).mp hm))
  unfold newPhase
  exact (Full_foldl_new _ _ h1.1 (nodup_dueIds _ _ h1.1.1.newND)
    (fun id hm => h1.1.1.newM.1 _ _ ((mem_dueIds _ _ _).mp hm))).1

theorem Full_nextBlock {s : State} (hs : Full s) (dt : Int) : Full (nextBlock s dt) := by
  have h := Full_endBlock hs
  unfold nextBlock beginNext
  exact ⟨h.1.of_same ⟨rfl, rfl, rfl, rfl, rfl, rfl, rfl⟩, h.2.1.of_core ⟨rfl, rfl, rfl, rfl⟩ rfl,
    h.2.2.1.of_binds rfl, EscrowInv.of_frame ⟨fun _ => rfl, rfl, fun _ _ => rfl, rfl⟩ h.2.2.2⟩

theorem Full_skipBlocks (dt : Int) : ∀ (n : Nat) (s : State), Full s → Full (skipBlocks s dt n)
  | 0, _, h => h
  | n + 1, s, h => Full_skipBlocks dt n (nextBlock s dt) (Full_nextBlock h dt)

end Irismod.Proofs.Service

namespace Irismod.Proofs.Service
open Irismod Irismod.Sdk Irismod.Service Irismod.Spec.C07

/-! ### every operation -/

/-- the keeper entry point `WithdrawEarnedFees(owner, nil)` cannot be reached by a message (the message
server rejects an empty provider address); it pays out the owner-side tally, see F-svc-2 -/
def opReachable : Op → Prop
  | .withdrawK _ none => False
  | _ => True

/-- a send that involves the request escrow in no way -/
theorem EscFrame.send {s : State} {src dst : Addr} {d : Denom} {n : Nat} {bank : Bank}
    (hs : Bank.send s.bank src dst d n = some bank) (h1 : src ≠ reqAcc) (h2 : dst ≠ reqAcc)
    (s' : State) (e1 : s'.bank = bank) (e2 : s'.active = s.active) (e3 : s'.reqs = s.reqs) (e4 : s'.earned = s.earned) :
    EscFrame s s' :=
  EscFrame.bank bank (fun d' => send_frame hs reqAcc (Ne.symm h1) (Ne.symm h2) d') s' e1 e2 e3 e4

theorem escrow_topUp {s : State} {owner : Addr} (ho : Good owner) {dep : Coins} {d : Nat} {bank : Bank}
    (ht : topUp s owner dep d = some bank) : ∀ d', Bank.balOf bank reqAcc d' = Bank.balOf s.bank reqAcc d' := by
  unfold topUp at ht
  split at ht
  · cases ht; intro _; rfl
  · intro d'
    unfold sendBase at ht
    exact send_frame ht reqAcc (Ne.symm ho.2) (by decide) d'

theorem createCtx_ledger {s s' : State} {newId svc providers consumer inputOk cap timeout repeated freq total st thr moduleName}
    (h : createCtx s newId svc providers consumer inputOk cap timeout repeated freq total st thr moduleName = .ok s') :
    s'.bank = s.bank ∧ s'.active = s.active ∧ s'.reqs = s.reqs ∧ s'.earned = s.earned ∧ s'.binds = s.binds := by
  unfold createCtx at h
  split at h
  · cases h
  split at h
  · cases h
  split at h
  · cases h
  split at h
  · cases h
  split at h
  · cases h
  cases h
  unfold createState
  split <;> exact ⟨rfl, rfl, rfl, rfl, rfl⟩

theorem keeperCtx_ledger {s s' : State} {id : CtxId} {consumer : Addr}
    (h : keeperPause s id consumer = .ok s' ∨ keeperStart s id consumer = .ok s' ∨ keeperKill s id consumer = .ok s') :
    s'.bank = s.bank ∧ s'.active = s.active ∧ s'.reqs = s.reqs ∧ s'.earned = s.earned ∧ s'.binds = s.binds := by
  rcases h with h | h | h
  · unfold keeperPause at h
    split at h
    · cases h
    split at h
    · cases h
    split at h
    · cases h
    split at h
    · cases h
    cases h; exact ⟨rfl, rfl, rfl, rfl, rfl⟩
  · unfold keeperStart at h
    split at h
    · cases h
    split at h
    · cases h
    split at h
    · cases h
    split at h
    · cases h
    cases h
    split <;> exact ⟨rfl, rfl, rfl, rfl, rfl⟩
  · unfold keeperKill at h
    split at h
    · cases h
    split at h
    · cases h
    split at h
    · cases h
    cases h; exact ⟨rfl, rfl, rfl, rfl, rfl⟩

theorem keeperUpdate_ledger {s s' : State} {id providers thr cap timeout freq total consumer}
    (h : keeperUpdate s id providers thr cap timeout freq total consumer = .ok s') :
    s'.bank = s.bank ∧ s'.active = s.active ∧ s'.reqs = s.reqs ∧ s'.earned = s.earned ∧ s'.binds = s.binds := by
  unfold keeperUpdate at h
  split at h
  · cases h
  split at h
  · cases h
  split at h
  · cases h
  split at h
  · cases h
  split at h
  · cases h
  split at h
  · cases h
  split at h
  · cases h
  split at h
  · cases h
  split at h
  · cases h
  cases h; exact ⟨rfl, rfl, rfl, rfl, rfl⟩

/-- escrow identity and absence of promotions when only contexts / queues / tables outside the ledger change -/
theorem ledger_same {s s' : State} (hn : NoPromo s) (he : EscrowInv s)
    (h : s'.bank = s.bank ∧ s'.active = s.active ∧ s'.reqs = s.reqs ∧ s'.earned = s.earned ∧ s'.binds = s.binds) :
    NoPromo s' ∧ EscrowInv s' :=
  ⟨hn.of_binds h.2.2.2.2, EscrowInv.of_frame ⟨fun d => by rw [h.1], h.2.1, fun _ _ => by rw [h.2.2.1], h.2.2.2.1⟩ he⟩

theorem Full_stepCore {s s' : State} {op : Op} (hs : Full s) (hu : opUsers op) (hp : opNoPromo op) (hf : FreshOp s op)
    (hr : opReachable op) (h : stepCore s op = .ok s') : Full s' := by
  obtain ⟨hw, hd, hn, he⟩ := hs
  refine ⟨WF_stepCore hw hf h, DI_stepCore hd hu h, ?_⟩
  cases op with
  | define sender name schOk =>
    simp only [stepCore, stepDefine] at h
    split at h
    · cases h
    split at h
    · cases h
    split at h
    · cases h
    split at h
    · cases h
    cases h
    exact ledger_same hn he ⟨rfl, rfl, rfl, rfl, rfl⟩
  | bind owner provider svc dep qos pin optsOk =>
    simp only [stepCore, stepBind] at h
    split at h
    · cases h
    split at h
    · cases h
    obtain ⟨d, pr, bank, _, hsend, hpr, rfl⟩ := keeperBind_inv h
    refine ⟨hn.set (svc, provider) _ (keeperPricing_noPromo hpr hp.1 hp.2) _ rfl, ?_⟩
    unfold sendBase at hsend
    exact EscrowInv.of_frame (EscFrame.send hsend (Ne.symm (Ne.symm hu.2)) (by decide) _ rfl rfl rfl rfl) he
  | updateBinding owner provider svc dep qos pin opts =>
    simp only [stepCore, stepUpdateBinding] at h
    split at h
    · cases h
    unfold keeperUpdateBinding at h
    split at h
    · cases h
    rename_i b hb
    split at h
    · cases h
    split at h
    · cases h
    split at h
    · cases h
    rename_i d hd'
    split at h
    · cases h
    rename_i pr hpr
    split at h
    · cases h
    split at h
    · cases h
    rename_i bank ht
    cases h
    have hprp : pr.ptime = [] ∧ pr.pvol = [] := by
      cases pin with
      | none => simp only at hpr; cases hpr; exact hn _ _ hb
      | some p => simp only at hpr; exact keeperPricing_noPromo hpr hp.1 hp.2
    refine ⟨?_, EscrowInv.of_frame (EscFrame.bank bank (escrow_topUp hu ht) _ rfl rfl rfl rfl) he⟩
    split
    · exact hn.set (svc, provider) (updatedBinding b qos d pr) hprp _ rfl
    · exact hn.of_binds rfl
  | setWithdraw owner addr =>
    simp only [stepCore, stepSetWithdraw] at h
    split at h
    · cases h
    split at h
    · cases h
    cases h
    exact ledger_same hn he ⟨rfl, rfl, rfl, rfl, rfl⟩
  | enable owner provider svc dep =>
    simp only [stepCore, stepEnable] at h
    split at h
    · cases h
    unfold keeperEnable at h
    split at h
    · cases h
    rename_i b hb
    split at h
    · cases h
    split at h
    · cases h
    split at h
    · cases h
    rename_i d _
    split at h
    · cases h
    split at h
    · cases h
    rename_i bank ht
    cases h
    exact ⟨hn.set (svc, provider) { b with deposit := b.deposit + d, available := true, disabledTime := zeroTime }
        (hn (svc, provider) b hb) _ rfl,
      EscrowInv.of_frame (EscFrame.bank bank (escrow_topUp hu ht) _ rfl rfl rfl rfl) he⟩
  | disable owner provider svc =>
    simp only [stepCore, stepDisable] at h
    split at h
    · cases h
    split at h
    · cases h
    rename_i b hb
    split at h
    · cases h
    split at h
    · cases h
    cases h
    exact ⟨hn.set (svc, provider) { b with available := false, disabledTime := s.time } (hn (svc, provider) b hb) _ rfl,
      EscrowInv.of_frame ⟨fun _ => rfl, rfl, fun _ _ => rfl, rfl⟩ he⟩
  | refundDeposit owner provider svc =>
    simp only [stepCore, stepRefundDeposit] at h
    split at h
    · cases h
    unfold keeperRefundDeposit at h
    split at h
    · cases h
    rename_i b hb
    split at h
    · cases h
    split at h
    · cases h
    split at h
    · cases h
    split at h
    · cases h
    split at h
    · cases h
    rename_i bank hsend
    cases h
    have hgo := hd.1.owners _ _ hb
    unfold sendBase at hsend
    exact ⟨hn.set (svc, provider) { b with deposit := 0 } (hn (svc, provider) b hb) _ rfl,
      EscrowInv.of_frame (EscFrame.send hsend (by decide) hgo.2 _ rfl rfl rfl rfl) he⟩
  | call tx consumer svc providers cap timeout repeated freq total inputOk =>
    simp only [stepCore, stepCall] at h
    split at h
    · cases h
    split at h
    · cases h
    split at h
    · cases h
    exact ledger_same hn he (createCtx_ledger h)
  | mcall tx consumer svc providers cap timeout repeated freq total inputOk paused thr modName =>
    exact ledger_same hn he (createCtx_ledger h)
  | respond provider rid code out resOk =>
    simp only [stepCore, stepRespond] at h
    split at h
    · cases h
    split at h
    · cases h
    refine ⟨?_, escrow_respond hw he h⟩
    unfold keeperRespond at h
    split at h
    · cases h
    split at h
    · cases h
    split at h
    · cases h
    split at h
    · cases h
    rename_i s1 hfee
    cases h
    obtain ⟨_, _, _, _, _, _, _, fb, _⟩ := addEarnedFee_fields hfee
    refine hn.of_binds ?_
    rw [(countResponse_ledger _ _).2.2.1]
    exact fb
  | withdraw owner provider =>
    simp only [stepCore, stepWithdraw] at h
    split at h
    · cases h
    split at h
    · cases h
    simp only [keeperWithdraw] at h
    refine ⟨?_, escrow_withdrawProvider hd.1 hu he h⟩
    unfold withdrawProvider at h
    split at h
    · cases h
    split at h
    · cases h
    split at h
    · cases h
    cases h
    exact hn.of_binds rfl
  | withdrawK owner provider =>
    cases provider with
    | none => exact absurd hr (by simp [opReachable])
    | some p =>
      simp only [stepCore, keeperWithdraw] at h
      refine ⟨?_, escrow_withdrawProvider hd.1 hu he h⟩
      unfold withdrawProvider at h
      split at h
      · cases h
      split at h
      · cases h
      split at h
      · cases h
      cases h
      exact hn.of_binds rfl
  | pause consumer id => exact ledger_same hn he (keeperCtx_ledger (Or.inl (stepPause_inv h)))
  | start consumer id => exact ledger_same hn he (keeperCtx_ledger (Or.inr (Or.inl (stepStart_inv h))))
  | kill consumer id => exact ledger_same hn he (keeperCtx_ledger (Or.inr (Or.inr (stepKill_inv h))))
  | updateCtx consumer id providers cap timeout freq total =>
    exact ledger_same hn he (keeperUpdate_ledger (stepUpdateCtx_inv h))
  | mpause consumer id => exact ledger_same hn he (keeperCtx_ledger (Or.inl h))
  | mstart consumer id => exact ledger_same hn he (keeperCtx_ledger (Or.inr (Or.inl h)))
  | mkill consumer id => exact ledger_same hn he (keeperCtx_ledger (Or.inr (Or.inr h)))
  | mupdate consumer id providers thr cap timeout freq total => exact ledger_same hn he (keeperUpdate_ledger h)
  | setRate d r =>
    simp only [stepCore] at h
    cases h
    exact ledger_same hn he ⟨rfl, rfl, rfl, rfl, rfl⟩
  | next dt =>
    simp only [stepCore] at h
    cases h
    have := Full_nextBlock ⟨hw, hd, hn, he⟩ dt
    exact ⟨this.2.2.1, this.2.2.2⟩
  | skip n dt =>
    simp only [stepCore] at h
    cases h
    have := Full_skipBlocks dt n s ⟨hw, hd, hn, he⟩
    exact ⟨this.2.2.1, this.2.2.2⟩

end Irismod.Proofs.Service
