/-
Soundness of the htlc monitors (`Spec.C03.stepFails`, `Spec.C03.stepFails13`, `Spec.C04.stepFails`,
the functions `drv-htlc monitor C03|C13|C04` evaluates) with respect to the model: on every model
step from a state satisfying the invariant they return `[]`.  So a monitor failure on an
implementation trace is a model/implementation disagreement or a genuine failure of the property,
never an artefact of the monitor demanding something the model and the theorems do not guarantee.
Core tactics only.
-/
import Irismod.Props.C03
import Irismod.Props.C04

namespace Irismod.Proofs.HtlcMonitor
open Irismod Irismod.Sdk Irismod.Htlc Irismod.Spec.C03 Irismod.Spec.C04 Irismod.Proofs.Htlc

/-! ### the verdict of a model step -/

def acceptedB (s : State) (op : Op) : Bool := match step s op with | .ok _ => true | .error _ => false
def panickedB (s : State) (op : Op) : Bool := match step s op with | .error (.panic _) => true | _ => false

/-! ### the ledger relation along model steps -/

theorem ledger_stepCreate {s s' : State} {id sender to coins lock ts tl transfer}
    (hsender : sender ≠ escrow)
    (h : stepCreate s id sender to coins lock ts tl transfer = .ok s') : LedgerRel s s' := by
  obtain ⟨_, _, hfresh, hb⟩ := stepCreate_ok h
  cases transfer with
  | false =>
    obtain ⟨b, hsend, rfl⟩ := createPlain_ok hb
    apply ledgerRel_update (id := id) rfl
    intro a d
    have := sendCoins_ok hsend a d
    show Bank.balOf b a d + _ + _ = _
    by_cases h1 : a = escrow <;> by_cases h2 : a = sender <;>
      simp [hfresh, ledgerOut, ledgerIn, funded, paysTo, newContract, h1, h2] at this ⊢ <;> omega
  | true =>
    simp only [if_true] at hb
    obtain ⟨d0, n, a0, _, _, _, _, _, _, hcase⟩ := createHTLT_ok hb
    rcases hcase with ⟨_, _, hc⟩ | ⟨_, _, hc⟩
    · obtain ⟨_, _, _, rfl⟩ := createIncoming_ok hc
      apply ledgerRel_update (id := id) rfl
      intro a d
      simp [hfresh, ledgerOut, ledgerIn, funded, paysTo, newContract, record]
    · obtain ⟨_, b, _, _, hsend, _, _, _, rfl⟩ := createOutgoing_ok hc
      apply ledgerRel_update (id := id) rfl
      intro a d
      have := sendCoins_ok hsend a d
      show Bank.balOf b a d + _ + _ = _
      by_cases h1 : a = escrow <;> by_cases h2 : a = sender <;>
        simp [hfresh, ledgerOut, ledgerIn, funded, paysTo, newContract, h1, h2] at this ⊢ <;> omega

theorem ledger_stepClaim {s s' : State} {id secret lk} (h : stepClaim s id secret lk = .ok s') :
    LedgerRel s s' := by
  obtain ⟨c, s1, hget, hopen, _, hf, rfl⟩ := stepClaim_ok h
  rcases claimFunds_ok hf with ⟨ht, b, hb, rfl⟩ | ⟨ht, hdir, d0, n, r, hamt, hci⟩ | ⟨ht, hdir, d0, n, r, hamt, hco⟩
  · apply ledgerRel_update (id := id) (c' := completed c secret s.height) rfl
    intro a d
    have := sendCoins_ok hb a d
    show Bank.balOf b a d + _ + _ = _
    by_cases h1 : a = escrow <;> by_cases h2 : a = c.sender <;> by_cases h3 : a = c.to <;>
      simp [hget, ledgerOut, ledgerIn, funded, paysTo, completed, hopen, ht, h1, h2, h3] at this ⊢ <;> omega
  · obtain ⟨sup, a0, b, hsup, hin, ha, hfit, hb, rfl⟩ := claimIncoming_ok hci
    apply ledgerRel_update (id := id) (c' := completed c secret s.height) rfl
    intro a d
    have := sendCoins_ok hb a d
    rw [balOf_mintCoins] at this
    show Bank.balOf b a d + _ + _ = _
    by_cases h1 : a = escrow <;> by_cases h3 : a = c.to <;>
      simp [hget, ledgerOut, ledgerIn, funded, paysTo, completed, hopen, ht, hdir, h1, h3] at this ⊢ <;> omega
  · obtain ⟨sup, b, hsup, hout, hcur, hb, rfl⟩ := claimOutgoing_ok hco
    apply ledgerRel_update (id := id) (c' := completed c secret s.height) rfl
    intro a d
    have := (burnCoins_ok hb).1 a d
    show Bank.balOf b a d + _ + _ = _
    by_cases h1 : a = escrow <;> by_cases h2 : a = c.sender <;>
      simp [hget, ledgerOut, ledgerIn, funded, paysTo, completed, hopen, ht, hdir, h1, h2] at this ⊢ <;> omega

theorem ledger_advance {s : State} (hs : Inv s) (n dt : Nat) {s' : State} (h : advance s n dt = .ok s') :
    LedgerRel s s' := by
  induction n generalizing s with
  | zero => simp [advance] at h; subst h; exact LedgerRel.refl _
  | succ n ih =>
    obtain ⟨s1, e⟩ := beginBlock_ok hs (s.height + 1) (s.time + dt)
    simp only [advance, e.run] at h
    exact e.ledger.trans (ih e.inv h)

theorem ledger_apply {s : State} {op : Op} (hs : Inv s) (hop : OpOk op) : LedgerRel s (apply s op) := by
  unfold apply
  cases h : step s op with
  | error e => exact LedgerRel.refl _
  | ok s' =>
    cases op with
    | create sender to coins lock ts tl transfer => exact ledger_stepCreate hop h
    | claim sender id secret => exact ledger_stepClaim h
    | beginBlock hh t =>
      obtain ⟨s1, e⟩ := beginBlock_ok hs hh t
      have : step s (.beginBlock hh t) = .ok s1 := e.run
      rw [this] at h; cases h; exact e.ledger
    | advance n dt => exact ledger_advance hs n dt h
    | setParams auth ps =>
      simp only [step, stepSetParams] at h
      split at h; · cases h
      split at h; · cases h
      cases h; exact LedgerRel.same rfl rfl


/-! ### table entries and look-ups -/

section table
variable {V : Type}

theorem get?_of_mem (m : AMap Id V) (hnd : (m.map (·.1)).Nodup) (k : Id) (v : V) (h : (k, v) ∈ m) :
    AMap.get? m k = some v := by
  induction m with
  | nil => simp at h
  | cons hd t ih =>
    obtain ⟨k', v'⟩ := hd
    simp only [List.map_cons, List.nodup_cons] at hnd
    simp only [List.mem_cons, Prod.mk.injEq] at h
    rcases h with ⟨rfl, rfl⟩ | h
    · simp [AMap.get?]
    · have hk : k ∈ t.map (·.1) := List.mem_map.mpr ⟨(k, v), h, rfl⟩
      have hne : ¬ (k' = k) := by intro e; subst e; exact hnd.1 hk
      simp only [AMap.get?, hne, if_false]
      exact ih hnd.2 h

theorem isSome_of_mem_keys (m : AMap Id V) (k : Id) (h : k ∈ m.map (·.1)) : (AMap.get? m k).isSome = true := by
  induction m with
  | nil => simp at h
  | cons hd t ih =>
    obtain ⟨k', v'⟩ := hd
    by_cases e : k' = k
    · simp [AMap.get?, e]
    · simp only [List.map_cons, List.mem_cons] at h
      rcases h with h | h
      · exact absurd h.symm e
      · simp only [AMap.get?, e, if_false]; exact ih h

/-- a Boolean check over all entries follows from the check on every looked-up value -/
theorem all_entries (m : AMap Id V) (hnd : (m.map (·.1)).Nodup) (f : Id × V → Bool)
    (h : ∀ k v, AMap.get? m k = some v → f (k, v) = true) : m.all f = true := by
  rw [List.all_eq_true]
  intro e he
  obtain ⟨k, v⟩ := e
  exact h k v (get?_of_mem m hnd k v he)

end table

/-! ### `paid-once` -/

theorem ledgerOk_of {s s' : State} (h : LedgerRel s s') : ledgerOk s s' = true := by
  unfold ledgerOk
  rw [List.all_eq_true]
  intro k _
  simp only [ledgerAt, beq_iff_eq]
  exact h k.1 k.2

/-! ### `automaton` -/

theorem runsBlock_of {s : State} {op : Op} {h : Nat} (hr : RunsBlock s op h) : runsBlock s op h = true := by
  cases op <;> simp_all [RunsBlock, runsBlock]

theorem transitionOk_of_trans {s : State} {op : Op} {id : Id} {c c' : Contract} (t : Trans s op id c c') :
    transitionOk s op true id c c' = true := by
  cases t with
  | stay => simp [transitionOk]
  | claimed sender secret hop ho hlk =>
    subst hop
    have hne : (completed c secret s.height == c) = false := by
      rw [beq_eq_false_iff_ne]; intro e
      have := congrArg Contract.state e
      simp [completed, ho] at this
    simp [transitionOk, hne, ho, hlk, completed]
  | refunded ho hr =>
    have hne : (Htlc.refunded c c.expiration == c) = false := by
      rw [beq_eq_false_iff_ne]; intro e
      have := congrArg Contract.state e
      simp [Htlc.refunded, ho] at this
    simp [transitionOk, hne, ho, runsBlock_of hr, Htlc.refunded]

theorem automaton_sound (s : State) (op : Op) (hs : Inv s) :
    automatonOk s op (acceptedB s op) (apply s op) = true := by
  unfold automatonOk
  apply all_entries _ hs.1.1
  intro id c hg
  unfold acceptedB apply
  cases h : step s op with
  | error e => simp [hg, transitionOk]
  | ok s' =>
    obtain ⟨c', hg', t⟩ := step_trans hs h hg
    simp only [hg']
    exact transitionOk_of_trans t

/-! ### `created` -/

theorem contains_of_isSome {m : AMap Id Contract} {k : Id} (h : (AMap.get? m k).isSome = true) :
    AMap.contains m k = true := h

theorem newIds_nil {pre post : State}
    (h : ∀ k, AMap.get? pre.htlcs k = none → AMap.get? post.htlcs k = none) : newIds pre post = [] := by
  unfold newIds
  rw [List.filter_eq_nil_iff]
  intro k hk
  have h1 := isSome_of_mem_keys post.htlcs k hk
  simp only [Bool.not_eq_true', Bool.not_eq_false]
  unfold AMap.contains
  cases hp : AMap.get? pre.htlcs k with
  | none => rw [h k hp] at h1; simp at h1
  | some v => rfl

theorem newIds_fresh {pre post : State} {id : Id} {c : Contract}
    (hfresh : AMap.get? pre.htlcs id = none) (hh : post.htlcs = AMap.set pre.htlcs id c) :
    newIds pre post = [id] := by
  unfold newIds
  rw [hh, keys_set]
  have hnot : id ∉ pre.htlcs.map (·.1) := by
    intro hm
    have := isSome_of_mem_keys pre.htlcs id hm
    rw [hfresh] at this; simp at this
  rw [if_neg hnot, List.filter_append]
  have h1 : (pre.htlcs.map (·.1)).filter (fun k => !(AMap.contains pre.htlcs k)) = [] := by
    rw [List.filter_eq_nil_iff]
    intro k hk
    have := isSome_of_mem_keys pre.htlcs k hk
    simp [AMap.contains, this]
  rw [h1]
  simp [AMap.contains, hfresh]

/-- the record a successful `create` stores, with the direction rule -/
theorem stepCreate_dir {s s' : State} {id sender to coins lock ts tl transfer}
    (h : stepCreate s id sender to coins lock ts tl transfer = .ok s') :
    ∃ dir b sp, s' = record { s with bank := b, supplies := sp } id (newContract s sender to coins lock ts tl transfer dir) ∧
      dirOk s sender to coins transfer dir = true := by
  obtain ⟨_, _, hfresh, hb⟩ := stepCreate_ok h
  cases transfer with
  | false => obtain ⟨b, _, rfl⟩ := createPlain_ok hb; exact ⟨_, _, _, rfl, by simp [dirOk]⟩
  | true =>
    simp only [if_true] at hb
    obtain ⟨d, n, a, hcoins, ha, _, _, _, _, hcase⟩ := createHTLT_ok hb
    subst hcoins
    rcases hcase with ⟨h1, h2, hc⟩ | ⟨h1, h2, hc⟩
    · obtain ⟨_, _, _, rfl⟩ := createIncoming_ok hc
      exact ⟨_, _, _, rfl, by simp [dirOk, ha, h1, h2]⟩
    · obtain ⟨_, _, _, _, _, _, _, _, rfl⟩ := createOutgoing_ok hc
      exact ⟨_, _, _, rfl, by simp [dirOk, ha, h1, h2]⟩

theorem created_sound (s : State) (op : Op) (hs : Inv s) :
    createdOk s op (acceptedB s op) (apply s op) = true := by
  have hnil_err : ∀ e, step s op = .error e → newIds s (apply s op) = [] := by
    intro e he; apply newIds_nil; intro k hk; simp [apply, he, hk]
  cases op with
  | create sender to coins lock ts tl transfer =>
    unfold acceptedB apply
    cases h : step s (.create sender to coins lock ts tl transfer) with
    | error e =>
      have := hnil_err e h
      simp only [apply, h] at this
      simp [createdOk, this]
    | ok s' =>
      simp only [step] at h
      obtain ⟨_, hbl, hfresh, _⟩ := stepCreate_ok h
      have hto := stepCreate_to h
      obtain ⟨dir, b, sp, rfl, hdir⟩ := stepCreate_dir h
      have hn := newIds_fresh (pre := s) (post := record { s with bank := b, supplies := sp } (genId lock sender to coins)
        (newContract s sender to coins lock ts tl transfer dir)) hfresh rfl
      simp only [createdOk, if_true, hn]
      have hg : AMap.get? (record { s with bank := b, supplies := sp } (genId lock sender to coins)
          (newContract s sender to coins lock ts tl transfer dir)).htlcs (genId lock sender to coins)
          = some (newContract s sender to coins lock ts tl transfer dir) := by
        simp only [record]; rw [get?_set]; simp
      simp only [hg]
      have hd : (newContract s sender to coins lock ts tl transfer dir).direction = dir := rfl
      simp [hd, hdir, hbl, hto]
  | claim sender id secret =>
    have : newIds s (apply s (.claim sender id secret)) = [] := by
      apply newIds_nil; intro k hk
      unfold apply
      cases h : step s (.claim sender id secret) with
      | error e => exact hk
      | ok s' =>
        rcases step_absent hs h hk with h0 | ⟨_, _, _, _, _, _, _, _, hop, _⟩
        · exact h0
        · cases hop
    simp [createdOk, this]
  | beginBlock hh t =>
    have : newIds s (apply s (.beginBlock hh t)) = [] := by
      apply newIds_nil; intro k hk
      unfold apply
      cases h : step s (.beginBlock hh t) with
      | error e => exact hk
      | ok s' =>
        rcases step_absent hs h hk with h0 | ⟨_, _, _, _, _, _, _, _, hop, _⟩
        · exact h0
        · cases hop
    simp [createdOk, this]
  | advance n dt =>
    have : newIds s (apply s (.advance n dt)) = [] := by
      apply newIds_nil; intro k hk
      unfold apply
      cases h : step s (.advance n dt) with
      | error e => exact hk
      | ok s' =>
        rcases step_absent hs h hk with h0 | ⟨_, _, _, _, _, _, _, _, hop, _⟩
        · exact h0
        · cases hop
    simp [createdOk, this]
  | setParams auth ps =>
    have : newIds s (apply s (.setParams auth ps)) = [] := by
      apply newIds_nil; intro k hk
      unfold apply
      cases h : step s (.setParams auth ps) with
      | error e => exact hk
      | ok s' =>
        rcases step_absent hs h hk with h0 | ⟨_, _, _, _, _, _, _, _, hop, _⟩
        · exact h0
        · cases hop
    simp [createdOk, this]


/-! ### `progress` / `due-not-processed` / `refund-failed` -/

/-- an open contract whose expiration height lies within the blocks of an `advance` ends refunded -/
theorem advance_progress {s : State} (hs : Inv s) (n dt : Nat) {s' : State} (h : advance s n dt = .ok s')
    {id : Id} {c : Contract} (hg : AMap.get? s.htlcs id = some c) (ho : c.state = .open)
    (h1 : s.height < c.expiration) (h2 : c.expiration ≤ s.height + n) :
    AMap.get? s'.htlcs id = some (Htlc.refunded c c.expiration) := by
  induction n generalizing s with
  | zero => omega
  | succ n ih =>
    obtain ⟨s1, e⟩ := beginBlock_ok hs (s.height + 1) (s.time + dt)
    simp only [advance, e.run] at h
    by_cases hexp : c.expiration = s.height + 1
    · have hm : (s.height + 1, id) ∈ s.queue := by rw [← hexp]; exact hs.2.1.2.1 id c hg ho
      obtain ⟨c0, hg0, _, _, hr⟩ := e.refunded id hm
      rw [hg] at hg0; cases hg0
      obtain ⟨c', hg', hc'⟩ := trans_advance e.inv n dt h hr
      rcases hc' with rfl | ⟨ho', _⟩
      · rw [hg', hexp]
      · simp [Htlc.refunded] at ho'
    · have hm : (s.height + 1, id) ∉ s.queue := by
        intro hm
        obtain ⟨c0, hg0, _, he0⟩ := hs.2.1.2.2 _ _ hm
        rw [hg] at hg0; cases hg0; exact hexp he0
      have hg1 : AMap.get? s1.htlcs id = some c := by rw [e.others id hm]; exact hg
      exact ih e.inv h hg1 (by rw [e.height]; omega) (by rw [e.height]; omega)

theorem progress_sound (s : State) (op : Op) (hs : Inv s) :
    progressOk s op (acceptedB s op) (apply s op) = true := by
  unfold progressOk
  rw [Bool.and_eq_true]
  constructor
  · cases op with
    | claim sender id secret =>
      unfold acceptedB apply
      cases h : step s (.claim sender id secret) with
      | error e => simp
      | ok s' =>
        obtain ⟨c, hg, ho, _, _, hh, _⟩ := stepClaim_bank h
        simp [hg, ho, hh, get?_set, completed]
    | _ => rfl
  · apply all_entries _ hs.1.1
    intro id c hg
    cases op with
    | beginBlock hh t =>
      obtain ⟨s1, e⟩ := beginBlock_ok hs hh t
      have hst : step s (.beginBlock hh t) = .ok s1 := e.run
      simp only [apply, hst, runsBlock]
      by_cases hc : (c.state == .open && hh == c.expiration) = true
      · simp only [Bool.and_eq_true, beq_iff_eq] at hc
        obtain ⟨ho, hexp⟩ := hc
        have hm : (hh, id) ∈ s.queue := by rw [hexp]; exact hs.2.1.2.1 id c hg ho
        obtain ⟨c0, _, _, _, hr⟩ := e.refunded id hm
        simp [hr, Htlc.refunded]
      · simp only [Bool.not_eq_true] at hc
        simp [hc]
    | advance n dt =>
      obtain ⟨s1, hst, _⟩ := advance_ok hs n dt
      have hst' : step s (.advance n dt) = .ok s1 := hst
      simp only [apply, hst', runsBlock]
      by_cases hc : (c.state == .open && (decide (s.height < c.expiration) && decide (c.expiration ≤ s.height + n))) = true
      · simp only [Bool.and_eq_true, beq_iff_eq, decide_eq_true_eq] at hc
        obtain ⟨ho, h1, h2⟩ := hc
        rw [advance_progress hs n dt hst hg ho h1 h2]
        simp [Htlc.refunded]
      · simp only [Bool.not_eq_true] at hc
        simp [hc]
    | create _ _ _ _ _ _ _ => simp [runsBlock]
    | claim _ _ _ => simp [runsBlock]
    | setParams _ _ => simp [runsBlock]

/-! ### `rejected-moves-nothing` -/

theorem sameBalances_refl (b : Bank) : sameBalances b b = true := by
  unfold sameBalances; rw [List.all_eq_true]; intro k _; simp

theorem sameTables_refl (s : State) : sameTables s s = true := by
  simp [sameTables, sameBalances_refl]

theorem rejected_sound (s : State) (op : Op) :
    (!(acceptedB s op) && !(sameTables s (apply s op))) = false := by
  unfold acceptedB apply
  cases h : step s op with
  | ok s' => simp
  | error e => simp [sameTables_refl]

/-! ### `queue-bijection` -/

theorem filter_unique {α : Type} [DecidableEq α] (q : List α) (p : α → Bool) (x : α) (hnd : q.Nodup)
    (hx : x ∈ q) (hp : p x = true) (hu : ∀ y ∈ q, p y = true → y = x) : q.filter p = [x] := by
  induction q with
  | nil => simp at hx
  | cons a t ih =>
    have hnd' := List.nodup_cons.mp hnd
    simp only [List.mem_cons] at hx
    by_cases ha : a = x
    · subst ha
      have ht : t.filter p = [] := by
        rw [List.filter_eq_nil_iff]
        intro y hy hpy
        have := hu y (by simp [hy]) hpy
        subst this; exact hnd'.1 hy
      simp [List.filter, hp, ht]
    · have hxt : x ∈ t := by rcases hx with h | h; exact absurd h.symm ha; exact h
      have hpa : p a = false := by
        cases hpa : p a with
        | false => rfl
        | true => exact absurd (hu a (by simp) hpa) ha
      simp only [List.filter, hpa]
      exact ih hnd'.2 hxt (fun y hy => hu y (by simp [hy]))

theorem queueOk_of {s : State} (hwf : WF s) (hq : QueueInv s) : queueOk s = true := by
  unfold queueOk
  rw [Bool.and_eq_true]
  constructor
  · apply all_entries _ hwf.1
    intro id c hg
    by_cases ho : c.state = .open
    · have hm := hq.2.1 id c hg ho
      have hf : s.queue.filter (fun q => q.2 == id) = [(c.expiration, id)] := by
        apply filter_unique _ _ _ hq.1 hm (by simp)
        intro y hy hpy
        obtain ⟨h, id'⟩ := y
        simp at hpy; subst hpy
        obtain ⟨c0, hg0, _, he0⟩ := hq.2.2 h id' hy
        rw [hg] at hg0; cases hg0; rw [he0]
      simp [ho, hf]
    · simp [ho]
  · rw [List.all_eq_true]
    intro q hq'
    obtain ⟨h, id⟩ := q
    obtain ⟨c, hg, ho, he⟩ := hq.2.2 h id hq'
    simp [hg, ho, he]

/-! ### `claim-after-expiry` / `stale-queue-entry` -/

theorem queueFuture_of_B {s : State} (h : queueFutureOk s = true) : QueueFuture s := by
  unfold queueFutureOk at h
  rw [List.all_eq_true] at h
  intro hh id hm
  have := h (hh, id) hm
  simpa using this

theorem queueFutureB_of {s : State} (h : QueueFuture s) : queueFutureOk s = true := by
  unfold queueFutureOk
  rw [List.all_eq_true]
  intro q hq
  simpa using h q.1 q.2 hq

theorem claimInTime_sound (s : State) (op : Op) (hs : Inv s) (hf : QueueFuture s) :
    claimInTime s op (acceptedB s op) = true := by
  cases op with
  | claim sender id secret =>
    unfold claimInTime acceptedB
    cases h : step s (.claim sender id secret) with
    | error e => simp
    | ok s' =>
      obtain ⟨c, hg, hlt⟩ := Props.C03.claim_before_expiry s s' sender id secret hs hf h
      simp [hg, hlt]
  | _ => rfl

theorem chainOp_of_B {s : State} {op : Op} (h : chainOpB s op = true) : ChainOp s op := by
  cases op <;> simp_all [chainOpB, ChainOp]

theorem queueFuture_apply {s : State} {op : Op} (hs : Inv s) (hf : QueueFuture s) (hc : ChainOp s op) :
    QueueFuture (apply s op) := by
  unfold apply
  cases h : step s op with
  | ok s1 => exact queueFuture_step hs hf hc h
  | error e => exact hf

/-! ### `panic` / `begin-block-aborted` -/

theorem claimFunds_no_panic {s : State} {c : Contract} {id : Id} (hwf : WF s)
    (hg : AMap.get? s.htlcs id = some c) (why : String) : claimFunds s c ≠ .error (.panic why) := by
  obtain ⟨_, hwt, _⟩ := hwf.2 id c hg
  unfold claimFunds
  split
  · rename_i ht
    obtain ⟨d, n, hamt, _, _⟩ := hwt ht
    split
    · simp
    · rw [hamt]; simp only [claimIncoming]
      repeat' split
      all_goals simp
    · rw [hamt]; simp only [claimOutgoing]
      repeat' split
      all_goals simp
  · split <;> simp

def NoPanic (r : R) : Prop := ∀ w, r ≠ .error (.panic w)

theorem panickedB_false_of {s : State} {op : Op} (h : NoPanic (step s op)) : panickedB s op = false := by
  unfold panickedB
  cases hr : step s op with
  | ok s' => rfl
  | error e =>
    cases e with
    | reject w => rfl
    | panic w => exact absurd hr (h w)

theorem noPanic_createPlain (s : State) (id sender to coins lock ts tl) :
    NoPanic (createPlain s id sender to coins lock ts tl) := by
  intro w; unfold createPlain; split <;> simp

theorem noPanic_createIncoming (s : State) (id sender to d n lock ts tl a) :
    NoPanic (createIncoming s id sender to d n lock ts tl a) := by
  intro w; unfold createIncoming
  split
  · simp
  · split <;> simp

theorem noPanic_createOutgoing (s : State) (id sender to d n lock ts tl a) :
    NoPanic (createOutgoing s id sender to d n lock ts tl a) := by
  intro w; unfold createOutgoing
  split; · simp
  split; · simp
  split; · simp
  split; · simp
  split <;> simp

theorem noPanic_createHTLT (s : State) (id sender to coins lock ts tl) :
    NoPanic (createHTLT s id sender to coins lock ts tl) := by
  intro w; unfold createHTLT
  split
  · split; · simp
    split; · simp
    split; · simp
    split; · simp
    split
    · split
      · simp
      · exact noPanic_createIncoming _ _ _ _ _ _ _ _ _ _ w
    · split
      · simp
      · exact noPanic_createOutgoing _ _ _ _ _ _ _ _ _ _ w
  · simp

theorem noPanic_stepCreate (s : State) (id sender to coins lock ts tl transfer) :
    NoPanic (stepCreate s id sender to coins lock ts tl transfer) := by
  intro w; unfold stepCreate
  split; · simp
  split; · simp
  split; · simp
  split; · simp
  split
  · exact noPanic_createHTLT _ _ _ _ _ _ _ _ w
  · exact noPanic_createPlain _ _ _ _ _ _ _ _ w

theorem noPanic_stepClaim (s : State) (hwf : WF s) (id secret lk) : NoPanic (stepClaim s id secret lk) := by
  intro w; unfold stepClaim
  split; · simp
  split
  · simp
  · rename_i c hg
    split; · simp
    split; · simp
    split
    · rename_i e he
      intro h
      cases h
      exact claimFunds_no_panic hwf hg w he
    · simp

theorem panicked_false (s : State) (op : Op) (hs : Inv s) : panickedB s op = false := by
  apply panickedB_false_of
  cases op with
  | create sender to coins lock ts tl transfer => exact noPanic_stepCreate _ _ _ _ _ _ _ _ _
  | claim sender id secret => exact noPanic_stepClaim _ hs.1 _ _ _
  | beginBlock hh t =>
    obtain ⟨s1, e⟩ := beginBlock_ok hs hh t
    have : step s (.beginBlock hh t) = .ok s1 := e.run
    intro w; rw [this]; simp
  | advance n dt =>
    obtain ⟨s1, h1, _⟩ := advance_ok hs n dt
    have : step s (.advance n dt) = .ok s1 := h1
    intro w; rw [this]; simp
  | setParams auth ps =>
    intro w; simp only [step, stepSetParams]
    split; · simp
    split <;> simp

theorem liveFails_sound (s : State) (op : Op) (hs : Inv s) :
    liveFails op (acceptedB s op) (panickedB s op) = [] := by
  have hp := panicked_false s op hs
  have hb : (isBlockOp op && !(acceptedB s op)) = false := by
    unfold acceptedB
    cases op with
    | beginBlock hh t =>
      obtain ⟨s1, e⟩ := beginBlock_ok hs hh t
      have : step s (.beginBlock hh t) = .ok s1 := e.run
      simp [this]
    | advance n dt =>
      obtain ⟨s1, h1, _⟩ := advance_ok hs n dt
      have : step s (.advance n dt) = .ok s1 := h1
      simp [this]
    | _ => simp [isBlockOp]
  simp [liveFails, hp, hb]


/-! ### the C03 and C13 monitors are sound -/

/-- **C03 monitor soundness**: on every model step from a state satisfying the invariant, with the
verdict the model gives, no clause of `Spec.C03.stepFails` fails.  `consecutive` is the driver's
cross-step flag; all it may assert is that this operation continues the chain of heights. -/
theorem monitorC03_sound (s : State) (op : Op) (consecutive : Bool) (hs : Inv s) (hop : OpOk op)
    (hc : consecutive = true → chainOpB s op = true) :
    Spec.C03.stepFails consecutive s op (acceptedB s op) (panickedB s op) (apply s op) = [] := by
  have hs' := inv_apply hs hop
  have h1 := liveFails_sound s op hs
  have h2 := automaton_sound s op hs
  have h3 := created_sound s op hs
  have h4 := progress_sound s op hs
  have h5 := ledgerOk_of (ledger_apply hs hop)
  have h6 := rejected_sound s op
  have h7 : claimLiveOk s op (acceptedB s op) = true := Props.C03.claimLive_sound s op
  have h8 := queueOk_of hs'.1 hs'.2.1
  unfold Spec.C03.stepFails
  rw [h1, h2, h3, h4, h5, h6, h7, h8]
  by_cases hg : (consecutive && queueFutureOk s) = true
  · rw [Bool.and_eq_true] at hg
    have hf := queueFuture_of_B hg.2
    have h9 := claimInTime_sound s op hs hf
    have h10 := queueFutureB_of (queueFuture_apply hs hf (chainOp_of_B (hc hg.1)))
    simp [hg.1, hg.2, h9, h10]
  · simp only [Bool.not_eq_true] at hg
    simp [hg]

/-- **C13 (HTLC slice) monitor soundness** -/
theorem monitorC13_sound (s : State) (op : Op) (consecutive : Bool) (hs : Inv s) (hop : OpOk op)
    (hc : consecutive = true → chainOpB s op = true) :
    Spec.C03.stepFails13 consecutive s op (acceptedB s op) (panickedB s op) (apply s op) = [] := by
  have hs' := inv_apply hs hop
  have h1 := liveFails_sound s op hs
  have h2 := automaton_sound s op hs
  have h4 := progress_sound s op hs
  have h8 := queueOk_of hs'.1 hs'.2.1
  unfold Spec.C03.stepFails13
  rw [h1, h2, h4, h8]
  by_cases hg : (consecutive && queueFutureOk s) = true
  · rw [Bool.and_eq_true] at hg
    have hf := queueFuture_of_B hg.2
    have h10 := queueFutureB_of (queueFuture_apply hs hf (chainOp_of_B (hc hg.1)))
    simp [hg.1, hg.2, h10]
  · simp only [Bool.not_eq_true] at hg
    simp [hg]

/-- the reset-line clause holds on every state satisfying the invariant (in particular on the
initial state of a history) -/
theorem resetC03_sound (s : State) (hs : Inv s) : Spec.C03.resetFails s = [] := by
  simp [Spec.C03.resetFails, queueOk_of hs.1 hs.2.1]

/-! ### the C04 clauses -/

theorem escrowEqB_of {s : State} (h : EscrowEq s) : escrowEqB s = true := by
  unfold escrowEqB; rw [List.all_eq_true]; intro d _; simpa using h d

theorem countersB_of {s : State} (h : CounterInv s) : countersB s = true := by
  unfold countersB; rw [List.all_eq_true]; intro d _
  obtain ⟨h1, h2, h3, h4⟩ := h d
  simp [h1, h2, h3, h4]
  rw [← h2]; exact h4

theorem findAsset_mem {ps : List Asset} {d : Denom} {a : Asset} (h : findAsset ps d = some a) :
    a ∈ ps ∧ a.denom = d := by
  induction ps with
  | nil => cases h
  | cons a0 r ih =>
    simp only [findAsset] at h
    split at h
    · rename_i e; cases h; exact ⟨by simp, e⟩
    · obtain ⟨h1, h2⟩ := ih h; exact ⟨by simp [h1], h2⟩

theorem limitInv_of_B {s : State} (h : limitsB s = true) : LimitInv s := by
  unfold limitsB at h
  rw [List.all_eq_true] at h
  intro d a ha
  obtain ⟨hm, hd⟩ := findAsset_mem ha
  have := h a hm
  rw [hd, ha] at this
  simp only [Bool.and_eq_true, decide_eq_true_eq, Bool.or_eq_true, Bool.not_eq_true'] at this
  rw [hd] at this
  refine ⟨this.1, fun ht => ?_⟩
  rcases this.2 with h2 | h2
  · rw [ht] at h2; cases h2
  · exact h2

theorem limitsB_of {s : State} (h : LimitInv s) : limitsB s = true := by
  unfold limitsB
  rw [List.all_eq_true]
  intro a0 _
  cases ha : findAsset s.params a0.denom with
  | none => rfl
  | some a =>
    obtain ⟨_, hd⟩ := findAsset_mem ha
    obtain ⟨h1, h2⟩ := h a0.denom a ha
    simp only [Bool.and_eq_true, decide_eq_true_eq, Bool.or_eq_true, Bool.not_eq_true']
    rw [hd]
    refine ⟨h1, ?_⟩
    cases ht : a.timeLimited with
    | false => exact Or.inl rfl
    | true => exact Or.inr (h2 ht)

theorem limits_sound (s : State) (op : Op) (hs : Inv s) :
    (!(isSetParams op) && limitsB s && !(limitsB (apply s op))) = false := by
  by_cases hset : isSetParams op = true
  · simp [hset]
  · by_cases hl : limitsB s = true
    · have hk : KeepsParams op := by cases op <;> simp_all [isSetParams, KeepsParams]
      have hl' : LimitInv (apply s op) := by
        unfold apply
        cases h : step s op with
        | ok s' => exact limit_step hs (limitInv_of_B hl) hk h
        | error e => exact limitInv_of_B hl
      simp [limitsB_of hl']
    · simp only [Bool.not_eq_true] at hl; simp [hl]

theorem supplyTrackB_of {k : Denom → Nat} {s0 s : State} (h0 : SupplyTrack k s0) (h : SupplyTrack k s) :
    supplyTrackB s0 s = true := by
  unfold supplyTrackB; rw [List.all_eq_true]; intro d _
  have := h0 d; have := h d
  simp only [beq_iff_eq]; omega

theorem track_apply {k : Denom → Nat} {s : State} {op : Op} (hs : Inv s) (hk : SupplyTrack k s) :
    SupplyTrack k (apply s op) := by
  unfold apply
  cases h : step s op with
  | ok s' => exact track_step hs hk h
  | error e => exact hk

theorem tlDelta_sound (s : State) (op : Op) (hs : Inv s) :
    tlDeltaB s op (acceptedB s op) (apply s op) = true := by
  cases op with
  | beginBlock _ _ => rfl
  | advance _ _ => rfl
  | claim sender id secret =>
    unfold tlDeltaB acceptedB apply
    cases h : step s (.claim sender id secret) with
    | error e =>
      simp only [List.all_eq_true]; intro d _
      cases AMap.get? s.htlcs id <;> simp
    | ok s' =>
      simp only [step] at h
      obtain ⟨c, hg, hd⟩ := tl_stepClaim hs h
      simp only [List.all_eq_true]; intro d _
      obtain ⟨h1, h2⟩ := hd d
      simp only [hg, Bool.true_and, Bool.and_eq_true, beq_iff_eq]
      refine ⟨?_, h1⟩
      rw [h2]; simp [tlAdd]
  | create sender to coins lock ts tl transfer =>
    unfold tlDeltaB apply
    cases h : step s (.create sender to coins lock ts tl transfer) with
    | error e => simp
    | ok s' =>
      simp only [List.all_eq_true]; intro d _
      obtain ⟨h1, h2, _⟩ := tl_stepCreate (by simpa [step] using h) d
      simp [h1, h2]
  | setParams auth ps =>
    unfold tlDeltaB apply
    cases h : step s (.setParams auth ps) with
    | error e => simp
    | ok s' =>
      simp only [step, stepSetParams] at h
      split at h; · cases h
      split at h; · cases h
      cases h
      simp [supOf]

theorem findAsset_of_mem {ps : List Asset} {a0 : Asset} (h : a0 ∈ ps) : ∃ a, findAsset ps a0.denom = some a := by
  induction ps with
  | nil => simp at h
  | cons b r ih =>
    simp only [findAsset]
    by_cases e : b.denom = a0.denom
    · exact ⟨b, by simp [e]⟩
    · simp only [e, if_false]
      simp only [List.mem_cons] at h
      rcases h with h | h
      · subst h; exact absurd rfl e
      · exact ih h

theorem window_sound (s : State) (h t : Nat) (hs : Inv s) :
    windowB s t (apply s (.beginBlock h t)) = true := by
  unfold windowB
  by_cases he : s.params.isEmpty = true
  · simp [he]
  cases hnd : noDupDenoms s.params with
  | false => simp
  | true =>
  simp only [Bool.not_eq_true] at he
  simp only [he, Bool.not_true, Bool.false_or, Bool.and_eq_true, List.all_eq_true]
  obtain ⟨s1, e⟩ := beginBlock_ok hs h t
  have hst : step s (.beginBlock h t) = .ok s1 := e.run
  have happ : apply s (.beginBlock h t) = s1 := by simp [apply, hst]
  rw [happ]
  constructor
  · intro a0 ha0
    obtain ⟨a, ha⟩ := findAsset_of_mem ha0
    obtain ⟨_, hd⟩ := findAsset_mem ha
    obtain ⟨s2, hst2, _, hel, htl⟩ := Props.C04.window_exact s h t hs hnd a0.denom a ha
    rw [hst] at hst2; cases hst2
    rw [ha]
    simp only [hd]
    rw [hel, htl]
    by_cases hc : (a.timeLimited && decide ((supOf s a0.denom).elapsed + ((t : Int) - ((s.prevTime.getD t : Nat) : Int)) < a.period)) = true
    · simp [tick, hc]
    · simp [tick, hc]
  · obtain ⟨a0, ha0⟩ : ∃ a0, a0 ∈ s.params := by
      cases hp : s.params with
      | nil => simp [hp] at he
      | cons a r => exact ⟨a, by simp⟩
    obtain ⟨a, ha⟩ := findAsset_of_mem ha0
    obtain ⟨s2, hst2, hprev, _⟩ := Props.C04.window_exact s h t hs hnd a0.denom a ha
    rw [hst] at hst2; cases hst2
    simp [hprev]

theorem escrowRecipient_sound (s : State) (sender to : Addr) (coins : Coins) (lock : String) (ts tl : Nat)
    (transfer : Bool) :
    (acceptedB s (.create sender to coins lock ts tl transfer) && to == escrow) = false := by
  unfold acceptedB
  cases h : step s (.create sender to coins lock ts tl transfer) with
  | error e => simp
  | ok s' =>
    have := stepCreate_to (by simpa [step] using h)
    simp [this]

/-- **C04 monitor soundness**: on every model step from a state that satisfies the invariant, the
escrow identity and `NoSelf` (both hold in every state reachable from an initial state with an
empty escrow: `Props.C04.escrowEq_run`), with bank supply tracked relative to the reset state
`s0` (`SupplyTrack k`, preserved by every step), no clause of `Spec.C04.stepFails` fails. -/
theorem monitorC04_sound (k : Denom → Nat) (s0 s : State) (op : Op) (hs : Inv s) (hop : OpOk op)
    (he : EscrowEq s) (hn : NoSelf s) (hk0 : SupplyTrack k s0) (hk : SupplyTrack k s) :
    Spec.C04.stepFails s0 s op (acceptedB s op) (panickedB s op) (apply s op) = [] := by
  have hs' := inv_apply hs hop
  have h1 := liveFails_sound s op hs
  have h2 := escrowEqB_of (Props.C04.escrowEq_apply s op hs he hn hop).1
  have h3 := countersB_of hs'.2.2.2
  have h4 := limits_sound s op hs
  have h5 := supplyTrackB_of hk0 (track_apply (op := op) hs hk)
  have h6 := tlDelta_sound s op hs
  have h7 := progress_sound s op hs
  unfold Spec.C04.stepFails
  rw [h1, h2, h3, h4, h5, h6, h7]
  cases op with
  | create sender to coins lock ts tl transfer => simp [escrowRecipient_sound]
  | beginBlock h t => simp [window_sound s h t hs]
  | claim _ _ _ => simp
  | advance _ _ => simp
  | setParams _ _ => simp

/-- the reset-line clauses hold on a state without contracts and supply records whose escrow
account is empty -/
theorem resetC04_sound (s : State) (h1 : s.htlcs = []) (h2 : s.queue = []) (h3 : s.supplies = [])
    (hb : ∀ d, Bank.balOf s.bank escrow d = 0) : Spec.C04.resetFails s = [] := by
  have hs := inv_fresh h1 h2 h3
  have he : EscrowEq s := by intro d; simp [openEscrow, AMap.sumBy, AMap.sumIf, h1, hb d]
  have hl : LimitInv s := Props.C04.limits_init s h3
  simp [Spec.C04.resetFails, escrowEqB_of he, countersB_of hs.2.2.2, limitsB_of hl]

/-! ### non-vacuity: the hypotheses are met by the demo history of `Props.C03.Demo` -/

example : Inv Props.C03.Demo.s0 := inv_fresh rfl rfl rfl

example : ∀ op ∈ Props.C03.Demo.ops, OpOk op := by
  intro op hop
  simp [Props.C03.Demo.ops] at hop
  rcases hop with rfl | rfl | rfl | rfl | rfl | rfl | rfl | rfl | rfl <;> simp [OpOk, escrow]

end Irismod.Proofs.HtlcMonitor
