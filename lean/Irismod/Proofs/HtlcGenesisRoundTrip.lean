/-
C12 (htlc): the round trip `InitGenesis (ExportGenesis s)` on the full model, for every state
satisfying the joint invariant `Inv` (C03/C04) and the genesis well-formedness `GenWF`:
the export validates; outside the class F-gen-5 (`importableB`) the import succeeds and yields the
explicit state `imported`; that state answers every read like `s` up to the dropped closed
contracts (`SameOpen`), exports the same document, and satisfies the invariants again.
-/
import Irismod.Proofs.HtlcGenesisWF

namespace Irismod.Proofs.HtlcGen
open Irismod Irismod.Sdk Irismod.Htlc Irismod.HtlcGen Irismod.Spec.C03 Irismod.Spec.C04 Irismod.Spec.C12Htlc
open Irismod.Proofs.Htlc Irismod.Proofs.GenesisList

/-! ### `ValidateGenesis` of the export -/

theorem validateHtlcs_ok : ∀ (l : List (Id × Contract)) (seen : List Id),
    (l.map (·.1)).Nodup → (∀ k ∈ seen, k ∉ l.map (·.1)) →
    (∀ e ∈ l, isOpen e.2 = true ∧ validateContract e.1 e.2 = true) → validateHtlcs seen l = true
  | [], _, _, _, _ => rfl
  | (id, c) :: t, seen, hnd, hdis, hall => by
    rw [List.map_cons, List.nodup_cons] at hnd
    have h0 := hall (id, c) (by simp)
    have hseen : seen.contains id = false := by
      cases hc : seen.contains id with
      | false => rfl
      | true =>
        have : id ∈ seen := by simpa using hc
        exact absurd (by simp) (hdis id this)
    simp only [validateHtlcs, hseen, h0.1, h0.2, Bool.not_false, Bool.true_and]
    apply validateHtlcs_ok t (id :: seen) hnd.2
    · intro k hk
      rcases List.mem_cons.mp hk with e | hk
      · subst e; exact hnd.1
      · intro hm; exact hdis k hk (by simp [hm])
    · intro e he; exact hall e (by simp [he])

theorem validateSupplies_ok : ∀ (l : List (Denom × Supply)) (seen : List Denom),
    (l.map (·.1)).Nodup → (∀ k ∈ seen, k ∉ l.map (·.1)) → validateSupplies seen l = true
  | [], _, _, _ => rfl
  | (d, sup) :: t, seen, hnd, hdis => by
    rw [List.map_cons, List.nodup_cons] at hnd
    have hseen : seen.contains d = false := by
      cases hc : seen.contains d with
      | false => rfl
      | true =>
        have : d ∈ seen := by simpa using hc
        exact absurd (by simp) (hdis d this)
    simp only [validateSupplies, hseen, Bool.not_false, Bool.true_and]
    apply validateSupplies_ok t (d :: seen) hnd.2
    intro k hk
    rcases List.mem_cons.mp hk with e | hk
    · subst e; exact hnd.1
    · intro hm; exact hdis k hk (by simp [hm])

/-- the open contracts in store order -/
def openList (s : State) : List (Id × Contract) := s.htlcs.filter (fun e => isOpen e.2)

theorem mem_openList {s : State} {e : Id × Contract} : e ∈ openList s ↔ e ∈ s.htlcs ∧ e.2.state = .open := by
  unfold openList isOpen
  rw [List.mem_filter]
  simp

theorem nodup_openList {s : State} (hw : WF s) : ((openList s).map (·.1)).Nodup :=
  (List.filter_sublist.map _).nodup hw.1

theorem get?_of_mem_open {s : State} (hw : WF s) {e : Id × Contract} (he : e ∈ openList s) :
    AMap.get? s.htlcs e.1 = some e.2 ∧ e.2.state = .open :=
  ⟨get?_of_mem (m := s.htlcs) hw.1 (mem_openList.mp he).1, (mem_openList.mp he).2⟩

theorem validateContract_ok {s : State} (hw : WF s) {id : Id} {c : Contract} (hget : AMap.get? s.htlcs id = some c)
    (ho : c.state = .open) (hg : CGood id c) : validateContract id c = true := by
  obtain ⟨_, htr, hpl⟩ := hw.2 id c hget
  unfold validateContract
  cases htf : c.transfer with
  | false =>
    have hd := hpl htf
    simp [hg.id_hex, hg.lock_hex, hg.exp, hg.coins, ho, hd, hg.secret (by rw [ho]; decide)]
  | true =>
    obtain ⟨d, n, hamt, hdir, _⟩ := htr htf
    have hts := hg.ts htf
    have hcv := hg.coins
    rw [hamt] at hcv
    simp [hg.id_hex, hg.lock_hex, hg.exp, hcv, ho, hamt, hdir, hts, hg.secret (by rw [ho]; decide)]

/-- **the export of every well-formed state passes `ValidateGenesis`** -/
theorem validate_export {s : State} (dp : Nat) (hs : Inv s) (hw : GenWF s) :
    validateGenesis (exportGenesis dp s) = true := by
  unfold validateGenesis exportGenesis
  simp only [Bool.and_eq_true]
  refine ⟨⟨hw.aux.params, ?_⟩, ?_⟩
  · apply validateHtlcs_ok _ [] (nodup_openList hs.1) (by intro k hk; simp at hk)
    intro e he
    obtain ⟨hget, ho⟩ := get?_of_mem_open hs.1 he
    exact ⟨by simp [isOpen, ho], validateContract_ok hs.1 hget ho (hw.good _ _ hget)⟩
  · exact validateSupplies_ok _ [] hw.aux.snodup (by intro k hk; simp at hk)

/-! ### the contract loop of `InitGenesis` -/

/-- what a contract adds to the incoming / outgoing tally -/
def tIn (c : Contract) : Coins := if c.transfer && c.direction == .incoming then c.amount else []
def tOut (c : Contract) : Coins := if c.transfer && c.direction == .outgoing then c.amount else []
def tallyIn (L : List (Id × Contract)) : Coins := L.flatMap fun e => tIn e.2
def tallyOut (L : List (Id × Contract)) : Coins := L.flatMap fun e => tOut e.2

/-- the contract passes the loop body: open, and an HTLT has one coin of a listed, active asset and
a direction -/
def ImportOk (ps : List Asset) (c : Contract) : Prop :=
  c.state = .open ∧
  (c.transfer = true → ∃ d n a, c.amount = [(d, n)] ∧ findAsset ps d = some a ∧ a.active = true ∧ c.direction ≠ .none)

theorem importHtlc_ok {s : State} {acc : Tally} {id : Id} {c : Contract} (h : ImportOk s.params c) :
    importHtlc s acc id c = .ok (record s id c, (acc.1 ++ tIn c, acc.2 ++ tOut c)) := by
  obtain ⟨ho, ht⟩ := h
  unfold importHtlc tIn tOut
  cases htf : c.transfer with
  | false => simp [ho]
  | true =>
    obtain ⟨d, n, a, hamt, hf, hact, hdir⟩ := ht htf
    cases hd : c.direction with
    | none => exact absurd hd hdir
    | incoming => simp [ho, hamt, hf, hact]
    | outgoing => simp [ho, hamt, hf, hact]

/-- `SetHTLC` + `AddHTLCToExpiredQueue` for a list of contracts -/
def recordAll (s : State) (L : List (Id × Contract)) : State := L.foldl (fun s e => record s e.1 e.2) s

theorem recordAll_params : ∀ (L : List (Id × Contract)) (s : State), (recordAll s L).params = s.params
  | [], _ => rfl
  | e :: t, s => by show (recordAll (record s e.1 e.2) t).params = _; rw [recordAll_params t]; rfl

theorem importHtlcs_ok : ∀ (L : List (Id × Contract)) (s : State) (acc : Tally),
    (∀ e ∈ L, ImportOk s.params e.2) →
    importHtlcs s acc L = .ok (recordAll s L, (acc.1 ++ tallyIn L, acc.2 ++ tallyOut L))
  | [], s, acc, _ => by simp [importHtlcs, recordAll, tallyIn, tallyOut]
  | (id, c) :: t, s, acc, h => by
    unfold importHtlcs
    rw [importHtlc_ok (h (id, c) (by simp))]
    simp only
    rw [importHtlcs_ok t (record s id c) _ (fun e he => h e (by simp [he]))]
    simp [recordAll, tallyIn, tallyOut, List.append_assoc]

theorem recordAll_eq : ∀ (L : List (Id × Contract)) (s : State),
    recordAll s L = { s with htlcs := (recordAll s L).htlcs, queue := (recordAll s L).queue }
  | [], _ => rfl
  | e :: t, s => by
    show recordAll (record s e.1 e.2) t = _
    rw [recordAll_eq t]
    rfl

theorem recordAll_htlcs : ∀ (L : List (Id × Contract)) (s : State),
    (s.htlcs.map (·.1) ++ L.map (·.1)).Nodup → (recordAll s L).htlcs = s.htlcs ++ L
  | [], s, _ => by simp [recordAll]
  | (id, c) :: t, s, hnd => by
    show (recordAll (record s id c) t).htlcs = _
    have hni : id ∉ AMap.keys s.htlcs := by
      intro hm
      rw [List.nodup_append] at hnd
      exact hnd.2.2 id hm id (by simp) rfl
    have hset : (record s id c).htlcs = s.htlcs ++ [(id, c)] := set_of_not_mem s.htlcs id c hni
    rw [recordAll_htlcs t (record s id c), hset]
    · simp
    · rw [hset]; simpa using hnd

theorem enqueue_fresh (q : List (Nat × Id)) (e : Nat × Id) (h : e ∉ q) : enqueue q e = q ++ [e] := by
  unfold enqueue
  simp [h]

theorem recordAll_queue : ∀ (L : List (Id × Contract)) (s : State),
    (L.map (·.1)).Nodup → (∀ e ∈ L, ∀ q ∈ s.queue, q.2 ≠ e.1) →
    (recordAll s L).queue = s.queue ++ L.map (fun e => (e.2.expiration, e.1))
  | [], s, _, _ => by simp [recordAll]
  | (id, c) :: t, s, hnd, hq => by
    show (recordAll (record s id c) t).queue = _
    rw [List.map_cons, List.nodup_cons] at hnd
    have hfresh : (c.expiration, id) ∉ s.queue := fun hm => hq (id, c) (by simp) _ hm rfl
    have hset : (record s id c).queue = s.queue ++ [(c.expiration, id)] := enqueue_fresh _ _ hfresh
    rw [recordAll_queue t (record s id c) hnd.2, hset]
    · simp
    · intro e he q hqm
      rw [hset] at hqm
      rcases List.mem_append.mp hqm with hqm | hqm
      · exact hq e (by simp [he]) q hqm
      · simp only [List.mem_singleton] at hqm
        subst hqm
        intro heq
        exact hnd.1 (List.mem_map.mpr ⟨e, he, heq.symm⟩)

/-! ### the supply loop -/

theorem setSupplies_aux : ∀ (l m : List (Denom × Supply)), (m.map (·.1) ++ l.map (·.1)).Nodup →
    l.foldl (fun m e => AMap.set m e.1 e.2) m = m ++ l
  | [], m, _ => by simp
  | (d, sup) :: t, m, hnd => by
    have hni : d ∉ AMap.keys m := by
      intro hm
      rw [List.nodup_append] at hnd
      exact hnd.2.2 d hm d (by simp) rfl
    show t.foldl _ (AMap.set m d sup) = _
    rw [set_of_not_mem m d sup hni, setSupplies_aux t]
    · simp
    · simpa using hnd

theorem setSupplies_eq {l : List (Denom × Supply)} (h : NodupKeys l) : setSupplies l = l := by
  unfold setSupplies
  have h' : (([] : List (Denom × Supply)).map (·.1) ++ l.map (·.1)).Nodup := by
    simpa [NodupKeys, AMap.keys] using h
  rw [setSupplies_aux l [] h']
  rfl

/-! ### the tallies are the counters -/

theorem coinAmt_append (a b : Coins) (d : Denom) : coinAmt (a ++ b) d = coinAmt a d + coinAmt b d := by
  induction a with
  | nil => simp [coinAmt]
  | cons h t ih => obtain ⟨d', n⟩ := h; simp only [List.cons_append, coinAmt, ih]; omega

theorem sumBy_cons (f : Contract → Nat) (k : Id) (v : Contract) (t : AMap Id Contract) :
    AMap.sumBy f ((k, v) :: t) = f v + AMap.sumBy f t := by
  simp [AMap.sumBy, AMap.sumIf]

theorem tallyIn_sum (d : Denom) : ∀ m : AMap Id Contract,
    coinAmt (tallyIn (m.filter fun e => isOpen e.2)) d = AMap.sumBy (dirAmt .open .incoming d) m
  | [] => rfl
  | (id, c) :: t => by
    rw [sumBy_cons, ← tallyIn_sum d t]
    cases ho : isOpen c with
    | true =>
      have : ((id, c) :: t).filter (fun e => isOpen e.2) = (id, c) :: t.filter (fun e => isOpen e.2) := by
        simp [List.filter, ho]
      rw [this]
      show coinAmt (tIn c ++ tallyIn _) d = _
      rw [coinAmt_append]
      have hst : (c.state == .open) = true := ho
      unfold tIn dirAmt
      simp only [hst, Bool.and_true]
      split <;> simp_all [coinAmt]
    | false =>
      have : ((id, c) :: t).filter (fun e => isOpen e.2) = t.filter (fun e => isOpen e.2) := by
        simp [List.filter, ho]
      rw [this]
      have hst : (c.state == .open) = false := ho
      simp [dirAmt, hst]

theorem tallyOut_sum (d : Denom) : ∀ m : AMap Id Contract,
    coinAmt (tallyOut (m.filter fun e => isOpen e.2)) d = AMap.sumBy (dirAmt .open .outgoing d) m
  | [] => rfl
  | (id, c) :: t => by
    rw [sumBy_cons, ← tallyOut_sum d t]
    cases ho : isOpen c with
    | true =>
      have : ((id, c) :: t).filter (fun e => isOpen e.2) = (id, c) :: t.filter (fun e => isOpen e.2) := by
        simp [List.filter, ho]
      rw [this]
      show coinAmt (tOut c ++ tallyOut _) d = _
      rw [coinAmt_append]
      have hst : (c.state == .open) = true := ho
      unfold tOut dirAmt
      simp only [hst, Bool.and_true]
      split <;> simp_all [coinAmt]
    | false =>
      have : ((id, c) :: t).filter (fun e => isOpen e.2) = t.filter (fun e => isOpen e.2) := by
        simp [List.filter, ho]
      rw [this]
      have hst : (c.state == .open) = false := ho
      simp [dirAmt, hst]

theorem checkSupply_eq (ps : List Asset) (acc : Tally) (d : Denom) (sup : Supply) :
    checkSupply ps acc d sup =
      (sup.incoming == coinAmt acc.1 d && sup.outgoing == coinAmt acc.2 d && supplyFitsB ps d sup) := by
  unfold checkSupply supplyFitsB
  cases findAsset ps d <;> rfl

/-! ### `InitGenesis (ExportGenesis s)` -/

/-- the state `InitGenesis` builds from the export of `s`: the open contracts in store order, one
queue entry per open contract, everything else as in `s` -/
def imported (dp : Nat) (s : State) : State :=
  { s with htlcs := openList s, queue := (openList s).map (fun e => (e.2.expiration, e.1)),
           prevTime := some (s.prevTime.getD dp) }

/-- outside the class F-gen-5 every open contract passes the loop body -/
theorem importOk_of_live {s : State} (hw : WF s) (hi : htltsLiveB s = true) {e : Id × Contract}
    (he : e ∈ openList s) : ImportOk s.params e.2 := by
  obtain ⟨hget, ho⟩ := get?_of_mem_open hw he
  refine ⟨ho, fun htr => ?_⟩
  obtain ⟨_, hT, _⟩ := hw.2 e.1 e.2 hget
  obtain ⟨d, n, hamt, hdir, _⟩ := hT htr
  unfold htltsLiveB at hi
  simp only [List.all_eq_true] at hi
  have h1 := hi e (mem_openList.mp he).1
  have hop : isOpen e.2 = true := by simp [isOpen, ho]
  simp only [hop, htr, Bool.and_self, Bool.not_true, Bool.false_or] at h1
  unfold liveAssetB at h1
  rw [hamt] at h1
  cases hf : findAsset s.params d with
  | none => simp [hf] at h1
  | some a =>
    simp only [hf] at h1
    exact ⟨d, n, a, hamt, hf, h1, hdir⟩

theorem supply_mem {s : State} (ha : Aux s) {e : Denom × Supply} (he : e ∈ s.supplies) : supOf s e.1 = e.2 := by
  unfold supOf
  rw [get?_of_mem (m := s.supplies) ha.snodup he]
  rfl

/-- **`InitGenesis` of the export succeeds outside the class F-gen-5**, with the stated result -/
theorem import_export {s : State} (dp : Nat) (hs : Inv s) (hw : GenWF s) (hi : importableB s = true) :
    importGenesis s (exportGenesis dp s) = .ok (imported dp s) := by
  have hL : ∀ e ∈ openList s, ImportOk (baseState s (exportGenesis dp s)).params e.2 :=
    fun e he => importOk_of_live hs.1 (by unfold importableB at hi; simp only [Bool.and_eq_true] at hi; exact hi.1) he
  unfold importGenesis
  rw [validate_export dp hs hw]
  simp only [Bool.not_true, Bool.false_eq_true, if_false]
  have hx : (exportGenesis dp s).htlcs = openList s := rfl
  rw [hx, importHtlcs_ok (openList s) _ _ hL]
  simp only
  have hbase : baseState s (exportGenesis dp s) =
      { s with htlcs := [], queue := [], prevTime := some (s.prevTime.getD dp) } := by
    unfold baseState exportGenesis
    simp only [setSupplies_eq hw.aux.snodup]
  have hres : recordAll (baseState s (exportGenesis dp s)) (openList s) = imported dp s := by
    rw [recordAll_eq, recordAll_htlcs, recordAll_queue, hbase]
    · simp [imported]
    · exact nodup_openList hs.1
    · intro e _ q hq; rw [hbase] at hq; simp at hq
    · rw [hbase]; simpa using nodup_openList hs.1
  rw [hres]
  have hall : ((imported dp s).supplies.all fun e => checkSupply (imported dp s).params
      (([] : Coins) ++ tallyIn (openList s), ([] : Coins) ++ tallyOut (openList s)) e.1 e.2) = true := by
    rw [List.all_eq_true]
    intro e he
    have he' : e ∈ s.supplies := he
    rw [checkSupply_eq]
    have hsup := supply_mem hw.aux he'
    obtain ⟨c1, c2, _, _⟩ := hs.2.2.2 e.1
    rw [hsup] at c1 c2
    unfold importableB suppliesFitB at hi
    simp only [Bool.and_eq_true, List.all_eq_true] at hi
    have hfit := hi.2 e he'
    simp only [List.nil_append, Bool.and_eq_true, beq_iff_eq]
    refine ⟨⟨?_, ?_⟩, hfit⟩
    · rw [c1]; exact (tallyIn_sum e.1 s.htlcs).symm
    · rw [c2]; exact (tallyOut_sum e.1 s.htlcs).symm
  rw [hall]
  rfl

/-! ### what the imported state answers -/

theorem get?_openList {s : State} (hw : WF s) (id : Id) :
    AMap.get? (openList s) id = (AMap.get? s.htlcs id).bind fun c => if c.state = .open then some c else none := by
  have hnd : NodupKeys (openList s) := nodup_openList hw
  cases hg : AMap.get? s.htlcs id with
  | none =>
    cases hg2 : AMap.get? (openList s) id with
    | none => rfl
    | some c =>
      have := (mem_openList.mp (mem_of_get? hg2)).1
      rw [get?_of_mem (m := s.htlcs) hw.1 this] at hg; cases hg
  | some c =>
    simp only [Option.bind]
    by_cases ho : c.state = .open
    · simp only [ho, if_true]
      exact get?_of_mem hnd (mem_openList.mpr ⟨mem_of_get? hg, ho⟩)
    · simp only [ho, if_false]
      cases hg2 : AMap.get? (openList s) id with
      | none => rfl
      | some c2 =>
        obtain ⟨hm, ho2⟩ := mem_openList.mp (mem_of_get? hg2)
        rw [get?_of_mem (m := s.htlcs) hw.1 hm] at hg; cases hg
        exact absurd ho2 ho

theorem mem_imported_queue {s : State} (hs : Inv s) (dp : Nat) (e : Nat × Id) : e ∈ (imported dp s).queue ↔ e ∈ s.queue := by
  show e ∈ (openList s).map (fun e => (e.2.expiration, e.1)) ↔ _
  rw [List.mem_map]
  constructor
  · rintro ⟨x, hx, rfl⟩
    obtain ⟨hget, ho⟩ := get?_of_mem_open hs.1 hx
    exact hs.2.1.2.1 x.1 x.2 hget ho
  · intro he
    obtain ⟨c, hget, ho, hexp⟩ := hs.2.1.2.2 e.1 e.2 he
    exact ⟨(e.2, c), mem_openList.mpr ⟨mem_of_get? hget, ho⟩, by simp [hexp]⟩

theorem nodup_imported_queue {s : State} (hs : Inv s) (dp : Nat) : (imported dp s).queue.Nodup := by
  show ((openList s).map (fun e => (e.2.expiration, e.1))).Nodup
  have h := nodup_openList hs.1
  rw [List.Nodup, List.pairwise_map] at h ⊢
  exact h.imp (fun {a b} hab heq => hab (by simpa using (Prod.mk.inj heq).2))

/-- **the imported state answers every read like the exported one, closed contracts aside** -/
theorem sameOpen_imported {s : State} (dp : Nat) (hs : Inv s) (hw : GenWF s) : SameOpen s (imported dp s) where
  open_kept := by
    intro id c hg ho
    show AMap.get? (openList s) id = some c
    rw [get?_openList hs.1, hg]; simp [ho]
  only_open := by
    intro id c hg
    have hg' : AMap.get? (openList s) id = some c := hg
    obtain ⟨hm, ho⟩ := mem_openList.mp (mem_of_get? hg')
    exact ⟨get?_of_mem (m := s.htlcs) hs.1.1 hm, ho⟩
  nodup := nodup_openList hs.1
  queue := mem_imported_queue hs dp
  qnodup := nodup_imported_queue hs dp
  supplies := fun _ => rfl
  snodup := hw.aux.snodup
  params := rfl
  prevTime := by
    show some (s.prevTime.getD dp) = s.prevTime
    have := hw.aux.prev
    cases hp : s.prevTime with
    | none => rw [hp] at this; cases this
    | some t => rfl
  bank := rfl
  height := rfl
  time := rfl

/-- **fixpoint**: exporting the imported state gives the same document -/
theorem export_imported (dp : Nat) (s : State) : exportGenesis dp (imported dp s) = exportGenesis dp s := by
  unfold exportGenesis imported
  simp only [Option.getD_some]
  have : (openList s).filter (fun e => isOpen e.2) = openList s := by
    unfold openList; rw [List.filter_filter]; simp
  rw [this]; rfl

/-! ### the imported state satisfies the invariants again -/

theorem sumBy_filter_of_zero (f : Contract → Nat) (p : Id × Contract → Bool) : ∀ m : AMap Id Contract,
    (∀ e ∈ m, p e = false → f e.2 = 0) → AMap.sumBy f (m.filter p) = AMap.sumBy f m
  | [], _ => rfl
  | (id, c) :: t, h => by
    have ih := sumBy_filter_of_zero f p t (fun e he => h e (by simp [he]))
    cases hp : p (id, c) with
    | true => simp only [List.filter, hp, sumBy_cons, ih]
    | false =>
      have h0 := h (id, c) (by simp) hp
      simp only [List.filter, hp, sumBy_cons, ih]
      simp at h0
      omega

theorem openEscrow_imported (dp : Nat) (s : State) (d : Denom) : openEscrow (imported dp s) d = openEscrow s d := by
  show AMap.sumBy (escrowAmt d) (openList s) = AMap.sumBy (escrowAmt d) s.htlcs
  apply sumBy_filter_of_zero
  intro e _ hp
  have : (e.2.state == .open) = false := hp
  simp [escrowAmt, escrowed, this]

theorem sumDir_open_imported (dp : Nat) (s : State) (dir : Dir) (d : Denom) :
    sumDir (imported dp s) .open dir d = sumDir s .open dir d := by
  show AMap.sumBy (dirAmt .open dir d) (openList s) = AMap.sumBy (dirAmt .open dir d) s.htlcs
  apply sumBy_filter_of_zero
  intro e _ hp
  have : (e.2.state == .open) = false := hp
  simp [dirAmt, this]

theorem sumDir_completed_imported (dp : Nat) (s : State) (dir : Dir) (d : Denom) :
    sumDir (imported dp s) .completed dir d = 0 := by
  show AMap.sumBy (dirAmt .completed dir d) (openList s) = 0
  have : ∀ m : AMap Id Contract, (∀ e ∈ m, e.2.state = .open) → AMap.sumBy (dirAmt .completed dir d) m = 0 := by
    intro m
    induction m with
    | nil => intro _; rfl
    | cons h t ih =>
      intro hall
      obtain ⟨id, c⟩ := h
      rw [sumBy_cons, ih (fun e he => hall e (by simp [he]))]
      have := hall (id, c) (by simp)
      simp only at this
      simp [dirAmt, this]
  exact this _ (fun e he => (mem_openList.mp he).2)

/-- **the imported state satisfies the joint invariant of C03 / C04 / C13 again**, its history clause
relative to the current supply at the restart -/
theorem invFrom_imported {s : State} (dp : Nat) (hs : Inv s) (hw : GenWF s) :
    InvFrom (fun d => (supOf s d).current) (imported dp s) := by
  have so := sameOpen_imported dp hs hw
  refine ⟨⟨so.nodup, ?_⟩, ⟨so.qnodup, ?_, ?_⟩, ?_, ?_⟩
  · intro id c hg
    obtain ⟨hg0, _⟩ := so.only_open id c hg
    exact hs.1.2 id c hg0
  · intro id c hg ho
    obtain ⟨hg0, _⟩ := so.only_open id c hg
    exact (so.queue _).mpr (hs.2.1.2.1 id c hg0 ho)
  · intro h id hm
    obtain ⟨c, hg, ho, he⟩ := hs.2.1.2.2 h id ((so.queue _).mp hm)
    exact ⟨c, so.open_kept id c hg ho, ho, he⟩
  · intro d
    rw [openEscrow_imported]
    exact hs.2.2.1 d
  · intro d
    obtain ⟨c1, c2, _, c4⟩ := hs.2.2.2 d
    have hsup : supOf (imported dp s) d = supOf s d := rfl
    rw [hsup, sumDir_open_imported, sumDir_open_imported, sumDir_completed_imported, sumDir_completed_imported]
    exact ⟨c1, c2, rfl, c4⟩

/-- with no closed contract in the store the import is the state itself -/
theorem inv_of_invFrom_zero {s : State} (h : InvFrom (fun _ => 0) s) : Inv s := by
  obtain ⟨a, b, c, d⟩ := h
  refine ⟨a, b, c, fun x => ?_⟩
  obtain ⟨d1, d2, d3, d4⟩ := d x
  simp only [Nat.zero_add] at d3
  exact ⟨d1, d2, d3, d4⟩

theorem genWF_imported {s : State} (dp : Nat) (hs : Inv s) (hw : GenWF s) : GenWF (imported dp s) := by
  have so := sameOpen_imported dp hs hw
  refine ⟨⟨hw.aux.params, hw.aux.snodup, rfl⟩, ?_, hw.clock⟩
  intro id c hg
  exact hw.good id c (so.only_open id c hg).1

/-- the escrow identity of C04 carries over -/
theorem escrowEq_imported {s : State} (dp : Nat) (he : EscrowEq s) : EscrowEq (imported dp s) := by
  intro d; rw [openEscrow_imported]; exact he d

theorem noSelf_imported {s : State} (dp : Nat) (hs : Inv s) (hw : GenWF s) (hn : NoSelf s) : NoSelf (imported dp s) := by
  intro id c hg
  exact hn id c ((sameOpen_imported dp hs hw).only_open id c hg).1

/-- the imported state is again outside the class F-gen-5 (so a second round trip succeeds too) -/
theorem importable_imported {s : State} (dp : Nat) (hi : importableB s = true) : importableB (imported dp s) = true := by
  unfold importableB htltsLiveB suppliesFitB at hi ⊢
  simp only [Bool.and_eq_true, List.all_eq_true] at hi ⊢
  exact ⟨fun e he => hi.1 e (mem_openList.mp he).1, hi.2⟩

/-- `LimitInv` (first clause: current + incoming ≤ limit) is what `InitGenesis` asserts -/
theorem limit_of_importable {s : State} (hi : importableB s = true) (d : Denom) (a : Asset)
    (ha : findAsset s.params d = some a) : (supOf s d).current + (supOf s d).incoming ≤ a.limit := by
  cases hg : AMap.get? s.supplies d with
  | none => simp [supOf, hg, zeroSupply]
  | some sup =>
    unfold importableB suppliesFitB at hi
    simp only [Bool.and_eq_true, List.all_eq_true] at hi
    have := hi.2 (d, sup) (mem_of_get? hg)
    simp only [supplyFitsB, ha, Bool.and_eq_true, decide_eq_true_eq] at this
    simp only [supOf, hg, Option.getD_some]
    omega

/-! ### the class F-gen-5 is exactly the set of states whose export `InitGenesis` refuses -/

theorem importHtlc_params {s : State} {acc : Tally} {id : Id} {c : Contract} {r : State × Tally}
    (h : importHtlc s acc id c = .ok r) : r.1.params = s.params := by
  unfold importHtlc at h
  split at h; · cases h
  split at h; · cases h; rfl
  split at h; · cases h
  split at h; · cases h
  split at h; · cases h
  split at h
  · cases h; rfl
  · cases h; rfl
  · cases h

/-- an open HTLT whose asset is not listed or not active stops the contract loop -/
def Bad (ps : List Asset) (c : Contract) : Prop :=
  c.state = .open ∧ c.transfer = true ∧ ∃ d n, c.amount = [(d, n)] ∧
    (findAsset ps d = none ∨ ∃ a, findAsset ps d = some a ∧ a.active = false)

theorem importHtlc_bad {s : State} {acc : Tally} {id : Id} {c : Contract} (h : Bad s.params c) :
    ∃ w, importHtlc s acc id c = .error w := by
  obtain ⟨ho, ht, d, n, hamt, hf⟩ := h
  unfold importHtlc
  rcases hf with hf | ⟨a, hf, hact⟩
  · exact ⟨.panic "asset not found", by simp [ho, ht, hamt, hf]⟩
  · exact ⟨.panic "asset is currently inactive", by simp [ho, ht, hamt, hf, hact]⟩

theorem importHtlcs_bad : ∀ (L : List (Id × Contract)) (s : State) (acc : Tally),
    (∃ e ∈ L, Bad s.params e.2) → ∃ w, importHtlcs s acc L = .error w
  | [], _, _, h => by obtain ⟨e, he, _⟩ := h; simp at he
  | (id, c) :: t, s, acc, h => by
    unfold importHtlcs
    cases hr : importHtlc s acc id c with
    | error w => exact ⟨w, rfl⟩
    | ok r =>
      simp only
      apply importHtlcs_bad t r.1 r.2
      obtain ⟨e, he, hb⟩ := h
      rcases List.mem_cons.mp he with heq | he
      · subst heq
        obtain ⟨w, hw⟩ := importHtlc_bad (acc := acc) (id := id) hb
        rw [hr] at hw; cases hw
      · exact ⟨e, he, by rw [importHtlc_params hr]; exact hb⟩

/-- **inside the class F-gen-5 `InitGenesis` of the module's own export panics** -/
theorem import_fails {s : State} (dp : Nat) (hs : Inv s) (hw : GenWF s) (hi : importableB s = false) :
    ∃ w, importGenesis s (exportGenesis dp s) = .error w := by
  unfold importGenesis
  rw [validate_export dp hs hw]
  simp only [Bool.not_true, Bool.false_eq_true, if_false]
  have hx : (exportGenesis dp s).htlcs = openList s := rfl
  rw [hx]
  cases hl : htltsLiveB s with
  | false =>
    have hl' := hl
    unfold htltsLiveB at hl'
    rw [List.all_eq_false] at hl'
    obtain ⟨e, he, hbad⟩ := hl'
    simp only [Bool.or_eq_true, Bool.not_eq_true', not_or, Bool.not_eq_false, Bool.and_eq_true] at hbad
    obtain ⟨⟨hop, htr⟩, hlive⟩ := hbad
    have ho : e.2.state = .open := by simpa [isOpen] using hop
    obtain ⟨_, hT, _⟩ := hs.1.2 e.1 e.2 (get?_of_mem (m := s.htlcs) hs.1.1 he)
    obtain ⟨d, n, hamt, _, _⟩ := hT htr
    have hB : Bad (baseState s (exportGenesis dp s)).params e.2 := by
      refine ⟨ho, htr, d, n, hamt, ?_⟩
      show findAsset s.params d = none ∨ _
      unfold liveAssetB at hlive
      rw [hamt] at hlive
      cases hf : findAsset s.params d with
      | none => exact Or.inl rfl
      | some a =>
        simp only [hf] at hlive
        exact Or.inr ⟨a, hf, by simpa using hlive⟩
    obtain ⟨w, hw⟩ := importHtlcs_bad (openList s) _ ([], []) ⟨e, mem_openList.mpr ⟨he, ho⟩, hB⟩
    rw [hw]; exact ⟨w, rfl⟩
  | true =>
    have hL : ∀ e ∈ openList s, ImportOk (baseState s (exportGenesis dp s)).params e.2 :=
      fun e he => importOk_of_live hs.1 hl he
    rw [importHtlcs_ok (openList s) _ _ hL]
    simp only
    have hfit : suppliesFitB s = false := by
      unfold importableB at hi; rw [hl] at hi; simpa using hi
    unfold suppliesFitB at hfit
    rw [List.all_eq_false] at hfit
    obtain ⟨e, he, hbad⟩ := hfit
    have hsup : (recordAll (baseState s (exportGenesis dp s)) (openList s)).supplies = s.supplies := by
      rw [recordAll_eq]
      show (baseState s (exportGenesis dp s)).supplies = _
      unfold baseState exportGenesis
      exact setSupplies_eq hw.aux.snodup
    have hpar : (recordAll (baseState s (exportGenesis dp s)) (openList s)).params = s.params := recordAll_params _ _
    have hall : ((recordAll (baseState s (exportGenesis dp s)) (openList s)).supplies.all fun e =>
        checkSupply (recordAll (baseState s (exportGenesis dp s)) (openList s)).params
          (([] : Coins) ++ tallyIn (openList s), ([] : Coins) ++ tallyOut (openList s)) e.1 e.2) = false := by
      rw [List.all_eq_false]
      refine ⟨e, by rw [hsup]; exact he, ?_⟩
      rw [checkSupply_eq, hpar]
      simp only [Bool.not_eq_true] at hbad
      simp [hbad]
    rw [hall]
    exact ⟨_, rfl⟩
