/-
C12 (MT): assembly — `InitGenesis (ExportGenesis s)` succeeds and yields a store that reads
like `s`, for every `s` with the reachable shape `WF` and C15's invariant.
-/
import Irismod.Proofs.MtGenesisImport

namespace Irismod.Proofs.MtGenesis
open Irismod Irismod.Mt Irismod.MtGenesis Irismod.Spec.C12.Mt Irismod.Spec.C15
open Irismod.Proofs.GenesisList Irismod.Proofs.Mt Irismod.Proofs.MtGenesisExport Irismod.Proofs.MtGenesisWF
open Irismod.Proofs.MtGenesisImport

/-- a token is listed under some owner iff it is recorded -/
theorem exists_tok_iff (s : State) (hw : WF s) (k : TokKey) :
    (∃ e ∈ flatOwners (exportOwners s), tokOf e = k) ↔ k ∈ AMap.keys s.mts := by
  have := mem_keys_mtMap2 s hw k
  rw [mtMap2_eq, mem_keys_acc] at this
  simpa [AMap.keys] using this

theorem length_exportCollections (s : State) (hw : WF s) : (exportCollections s).length = s.denoms.length := by
  have h1 : (exportCollections s).length = (sortDedup (AMap.keys s.denoms)).length := by
    simp [exportCollections]
  rw [h1, (sortDedup_perm hw.nd_denoms).length_eq]
  simp [AMap.keys]

theorem length_exportMts (s : State) (hw : WF s) (d : DenomId) : (exportMts s d).length = cnt s d := by
  have h1 : (exportMts s d).length = (sortDedup (tail (AMap.keys s.mts) d)).length := by
    simp [exportMts]
  rw [h1, (sortDedup_perm (nodup_tail hw.nd_mts d)).length_eq]
  simp [tail, cnt]

theorem cnt_zero_of_not_denom (s : State) (hw : WF s) (d : DenomId) (h : d ∉ AMap.keys s.denoms) : cnt s d = 0 := by
  unfold cnt
  rw [List.length_eq_zero_iff, List.filter_eq_nil_iff]
  intro k hk
  obtain ⟨d', m⟩ := k
  simp only [decide_eq_true_eq]
  intro e
  subst e
  exact h (hw.mts_denom _ m hk)

/-- **import of the export succeeds and the imported store reads like the exported one** -/
theorem import_export (s : State) (hw : WF s) (hinv : Inv s) :
    ∃ s', importGenesis (exportGenesis s) = .ok s' ∧ ObsEq s' s ∧
      (AMap.keys s'.denoms).Nodup ∧ (AMap.keys s'.mts).Nodup ∧ (AMap.keys s'.bal).Nodup := by
  have hc := importCollections_spec (exportCollections s)
    { denomSeq := UInt64.ofNat ((exportCollections s).length + 1) }
    (by rw [ids_export]; exact nodup_sortDedup _) (nodup_flatMts s)
    (by intro c _; simp [AMap.keys]) (by intro k _; simp [AMap.keys]) (by intro c _; rfl)
  obtain ⟨c1, c2, c3, c4, c5, c6, c7, c8⟩ := hc
  have hs0 : importInfos (exportGenesis s) =
      importCollections { denomSeq := UInt64.ofNat ((exportCollections s).length + 1) } (exportCollections s) := rfl
  have hsup0 : ∀ d m, supplyOf (importInfos (exportGenesis s)) d m = 0 := by
    intro d m; unfold supplyOf; rw [hs0, c3]; rfl
  have hf := importFlat_spec (flatOwners (exportOwners s)) (importInfos (exportGenesis s)) (nodup_flatOwners s)
    (by intro k _; rw [hs0, c4]; simp [AMap.keys])
    (by
      intro d m
      rw [hsup0, sum_flatOwners s hw hinv d m]
      have := (supplyOf s d m).toNat_lt
      have h0 : (0 : UInt64).toNat = 0 := rfl
      unfold maxU64; omega)
  obtain ⟨s', e1, e2, e3, e4, e5, e6, e7, e8, e9⟩ := hf
  have hbal : s'.bal = flatOwners (exportOwners s) := by rw [e7, hs0, c4]; rfl
  have hkeysM : AMap.keys ((flatMts (exportCollections s)).map (fun e => (e.1, e.2.data)))
      = AMap.keys (flatMts (exportCollections s)) := by
    simp [AMap.keys, List.map_map, Function.comp_def]
  refine ⟨s', ?_, ?_, ?_, ?_, ?_⟩
  · unfold importGenesis
    rw [validate_export s hw hinv]
    simp only
    rw [importOwners_flat]
    exact e1
  · refine ⟨?_, ?_, ?_, ?_, ?_, ?_, ?_⟩
    · -- classes
      intro k
      rw [e2, hs0, c1]
      exact get?_congr_of_mem (nodup_flatDenoms s) hw.nd_denoms (mem_flatDenoms s hw) k
    · -- token metadata
      intro k
      rw [e3, hs0, c2]
      show AMap.get? ((flatMts (exportCollections s)).map (fun e => (e.1, e.2.data))) k = _
      have hkeys := hkeysM
      have hnd : NodupKeys ((flatMts (exportCollections s)).map (fun e => (e.1, e.2.data))) := by
        unfold NodupKeys; rw [hkeys]; exact nodup_flatMts s
      by_cases hk : k ∈ AMap.keys s.mts
      · obtain ⟨v, hv⟩ := (mem_keys_iff _ _).mp hk
        rw [hv]
        apply get?_of_mem hnd
        rw [List.mem_map]
        refine ⟨(k, mtEntry s k.1 k.2), (mem_flatMts s hw k _).mpr ⟨hk, rfl⟩, ?_⟩
        simp [mtEntry, AMap.getD, hv]
      · rw [(get?_eq_none_iff _ _).mpr hk]
        apply (get?_eq_none_iff _ _).mpr
        rw [hkeys, mem_keys_flatMts s hw]
        exact hk
    · -- supplies, rebuilt from the balances
      intro k
      obtain ⟨d, m⟩ := k
      apply get?_eq_of_getD (d, m) 0
      · rw [e9, hs0, c3, exists_tok_iff s hw, hw.sup_mt]
        simp [AMap.keys]
      · show supplyOf s' d m = supplyOf s d m
        apply UInt64.toNat_inj.mp
        rw [e8, hsup0, sum_flatOwners s hw hinv d m]
        show (0 : UInt64).toNat + _ = _
        have h0 : (0 : UInt64).toNat = 0 := rfl
        omega
    · -- class supplies
      intro d
      rw [e4, hs0, hw.dsup d]
      by_cases hd : d ∈ AMap.keys s.denoms
      · have : d ∈ (exportCollections s).map (·.id) := by rw [ids_export]; exact (mem_sortDedup _ _).mpr hd
        obtain ⟨c, hc, rfl⟩ := List.mem_map.mp this
        rw [c7 c hc]
        have hcm : c.mts = exportMts s c.id := by
          unfold exportCollections at hc
          obtain ⟨d', _, rfl⟩ := List.mem_map.mp hc
          rfl
        rw [hcm, length_exportMts s hw]
      · rw [c8 d (by
          intro c hc e
          apply hd
          have : c.id ∈ (exportCollections s).map (·.id) := List.mem_map.mpr ⟨c, hc, rfl⟩
          rw [ids_export, mem_sortDedup] at this
          exact e ▸ this)]
        rw [cnt_zero_of_not_denom s hw d hd]
        rfl
    · -- balances
      intro k
      rw [hbal]
      exact get?_congr_of_mem (nodup_flatOwners s) hw.nd_bal (mem_flatOwners s hw) k
    · rw [e5, hs0, c5, hw.denomSeq, length_exportCollections s hw]
    · rw [e6, hs0, c6, hw.mtSeq]
      have hl : (flatMts (exportCollections s)).length = s.mts.length := by
        rw [length_eq_of_keys_mem (nodup_flatMts s) hw.nd_mts (mem_keys_flatMts s hw)]
        simp [AMap.keys]
      rw [hl]
      show (1 : UInt64) + UInt64.ofNat s.mts.length = UInt64.ofNat (s.mts.length + 1)
      rw [ofNat_succ s.mts.length, UInt64.add_comm]
  · rw [e2, hs0, c1]; exact nodup_flatDenoms s
  · rw [e3, hs0, c2]
    show (AMap.keys ((flatMts (exportCollections s)).map (fun e => (e.1, e.2.data)))).Nodup
    rw [hkeysM]; exact nodup_flatMts s
  · rw [hbal]; exact nodup_flatOwners s

/-! ### the imported store is again of the reachable shape and satisfies C15's invariant -/

theorem perm_of_get? {K V : Type} [DecidableEq K] {m1 m2 : AMap K V} (h1 : NodupKeys m1) (h2 : NodupKeys m2)
    (h : ∀ k, AMap.get? m1 k = AMap.get? m2 k) : m1.Perm m2 := by
  apply perm_of_mem h1 h2
  intro e
  obtain ⟨k, v⟩ := e
  rw [← get?_eq_some_iff h1, ← get?_eq_some_iff h2, h k]

theorem inv_of_obsEq {a b : State} (h : ObsEq a b) (na : (AMap.keys a.bal).Nodup) (nb : (AMap.keys b.bal).Nodup)
    (hb : Inv b) : Inv a := by
  intro d m
  have hp : a.bal.Perm b.bal := perm_of_get? na nb h.bal
  unfold InvAt
  rw [holdersSum_eq, sumIf_perm _ _ hp, ← holdersSum_eq, hb d m]
  unfold supplyOf AMap.getD
  rw [h.supply]

theorem wf_of_obsEq {a b : State} (h : ObsEq a b) (nd : (AMap.keys a.denoms).Nodup)
    (nm : (AMap.keys a.mts).Nodup) (nb : (AMap.keys a.bal).Nodup) (hw : WF b) : WF a := by
  have kd := keys_congr h.denoms
  have km := keys_congr h.mts
  have kb := keys_congr h.bal
  have ks := keys_congr h.supply
  have pm : (AMap.keys a.mts).Perm (AMap.keys b.mts) := (List.perm_ext_iff_of_nodup nm hw.nd_mts).mpr km
  have pd : (AMap.keys a.denoms).Perm (AMap.keys b.denoms) := (List.perm_ext_iff_of_nodup nd hw.nd_denoms).mpr kd
  have hcnt : ∀ d, cnt a d = cnt b d := by
    intro d; unfold cnt; exact (pm.filter _).length_eq
  exact {
    nd_denoms := nd
    nd_mts := nm
    nd_bal := nb
    mts_denom := fun d m hk => (kd d).mpr (hw.mts_denom d m ((km _).mp hk))
    bal_mt := fun x d m hk => (km _).mpr (hw.bal_mt x d m ((kb _).mp hk))
    mt_bal := fun d m hk => by
      obtain ⟨x, hx⟩ := hw.mt_bal d m ((km _).mp hk)
      exact ⟨x, (kb _).mpr hx⟩
    sup_mt := fun k => by rw [ks k, km k]; exact hw.sup_mt k
    dsup := fun d => by rw [h.denomSupply, hcnt]; exact hw.dsup d
    denomSeq := by
      rw [h.denomSeq, hw.denomSeq]
      have := pd.length_eq
      simp only [AMap.keys, List.length_map] at this
      rw [this]
    mtSeq := by
      rw [h.mtSeq, hw.mtSeq]
      have := pm.length_eq
      simp only [AMap.keys, List.length_map] at this
      rw [this] }

end Irismod.Proofs.MtGenesis
