/-
Helper lemmas for C15 (MT): UInt64 no-wrap facts at the guarded sites and the effect of
each primitive (`increaseSupply`, `addBalance`, `subBalance`, `decreaseSupply`) on the
holders-sum and on the recorded supply.
-/
import Irismod.Spec.C15

namespace Irismod.Proofs.Mt
open Irismod Irismod.Mt Irismod.Spec.C15

theorem add_noWrap (cur n : UInt64) (h : ¬ (maxU64 - cur.toNat < n.toNat)) :
    (cur + n).toNat = cur.toNat + n.toNat := by
  have hc : cur.toNat < 2^64 := cur.toNat_lt
  have hn : n.toNat < 2^64 := n.toNat_lt
  unfold maxU64 at h
  rw [UInt64.toNat_add]
  omega

theorem sub_noWrap (a n : UInt64) (h : ¬ (a < n)) : (a - n).toNat = a.toNat - n.toNat := by
  rw [UInt64.lt_iff_toNat_lt] at h
  rw [UInt64.toNat_sub_of_le]
  rw [UInt64.le_iff_toNat_le]; omega

theorem le_of_not_lt (a n : UInt64) (h : ¬ (a < n)) : n.toNat ≤ a.toNat := by
  rw [UInt64.lt_iff_toNat_lt] at h; omega

/-- key predicate used by `holdersSum` -/
def isTok (d : DenomId) (m : MtId) (k : Addr × DenomId × MtId) : Bool := k.2.1 = d && k.2.2 = m

theorem holdersSum_eq (s : State) (d m) :
    holdersSum s d m = AMap.sumIf (isTok d m) (fun v => v.toNat) s.bal := rfl

theorem supplyOf_set_self (s : State) (d m) (v : UInt64) :
    supplyOf { s with supply := AMap.set s.supply (d, m) v } d m = v := by
  simp [supplyOf, AMap.getD, AMap.get?_set_self]

theorem supplyOf_set_other (s : State) (d m d' m') (v : UInt64) (h : (d, m) ≠ (d', m')) :
    supplyOf { s with supply := AMap.set s.supply (d, m) v } d' m' = supplyOf s d' m' := by
  simp [supplyOf, AMap.getD, AMap.get?_set_other _ _ _ _ h]

theorem balOf_set_self (s : State) (a d m) (v : UInt64) :
    balOf { s with bal := AMap.set s.bal (a, d, m) v } a d m = v := by
  simp [balOf, AMap.getD, AMap.get?_set_self]

theorem balOf_set_other (s : State) (a d m a' d' m') (v : UInt64) (h : (a, d, m) ≠ (a', d', m')) :
    balOf { s with bal := AMap.set s.bal (a, d, m) v } a' d' m' = balOf s a' d' m' := by
  simp [balOf, AMap.getD, AMap.get?_set_other _ _ _ _ h]

/-- setting holder `a`'s balance of `(d,m)` to `v` changes the holders-sum of `(d,m)` by `v - old` -/
theorem holdersSum_set_same (s : State) (a d m) (v : UInt64) :
    holdersSum { s with bal := AMap.set s.bal (a, d, m) v } d m + (balOf s a d m).toNat
      = holdersSum s d m + v.toNat := by
  have h := AMap.sumIf_set (isTok d m) (fun v : UInt64 => v.toNat) s.bal (a, d, m) v
  simp only [isTok, decide_true, Bool.and_self, if_true] at h
  simp only [holdersSum_eq]
  have hb : ((AMap.get? s.bal (a, d, m)).map (fun v : UInt64 => v.toNat)).getD 0 = (balOf s a d m).toNat := by
    unfold balOf AMap.getD
    cases AMap.get? s.bal (a, d, m) <;> simp
  rw [hb] at h
  exact h

theorem holdersSum_set_other (s : State) (a d m d' m') (v : UInt64) (h : (d, m) ≠ (d', m')) :
    holdersSum { s with bal := AMap.set s.bal (a, d, m) v } d' m' = holdersSum s d' m' := by
  simp only [holdersSum_eq]
  apply AMap.sumIf_set_of_not
  simp only [isTok]
  by_cases h1 : d = d'
  · by_cases h2 : m = m'
    · subst h1; subst h2; exact absurd rfl h
    · simp [h2]
  · simp [h1]

end Irismod.Proofs.Mt

namespace Irismod.Proofs.Mt
open Irismod Irismod.Mt Irismod.Spec.C15

/-- facts about a state that the C15 statements can see -/
structure Eff (s s' : State) (d : DenomId) (m : MtId) (dsup dsum : Int) : Prop where
  sup_self  : ((supplyOf s' d m).toNat : Int) = (supplyOf s d m).toNat + dsup
  sup_other : ∀ d' m', (d, m) ≠ (d', m') → supplyOf s' d' m' = supplyOf s d' m'
  sum_self  : (holdersSum s' d m : Int) = holdersSum s d m + dsum
  sum_other : ∀ d' m', (d, m) ≠ (d', m') → holdersSum s' d' m' = holdersSum s d' m'

theorem Eff.inv {s s' : State} {d m} {x y : Int} (e : Eff s s' d m x y) (hxy : x = y) (hs : Inv s) :
    Inv s' := by
  subst hxy
  intro d' m'
  by_cases hk : (d, m) = (d', m')
  · cases hk
    have h0 := hs d m
    unfold InvAt at *
    have := e.sup_self; have := e.sum_self
    omega
  · unfold InvAt
    rw [e.sup_other d' m' hk, e.sum_other d' m' hk]
    exact hs d' m'

theorem Eff.trans {s s1 s2 : State} {d m} {a b a' b' : Int}
    (e1 : Eff s s1 d m a b) (e2 : Eff s1 s2 d m a' b') : Eff s s2 d m (a + a') (b + b') where
  sup_self := by have := e1.sup_self; have := e2.sup_self; omega
  sup_other := fun d' m' h => by rw [e2.sup_other d' m' h, e1.sup_other d' m' h]
  sum_self := by have := e1.sum_self; have := e2.sum_self; omega
  sum_other := fun d' m' h => by rw [e2.sum_other d' m' h, e1.sum_other d' m' h]

theorem increaseSupply_ok {s s1 : State} {d m n} (h : increaseSupply s d m n = .ok s1) :
    ¬ (maxU64 - (supplyOf s d m).toNat < n.toNat) ∧ s1 = { s with supply := AMap.set s.supply (d, m) (supplyOf s d m + n) } := by
  simp only [increaseSupply] at h
  by_cases hg : maxU64 - (supplyOf s d m).toNat < n.toNat
  · simp [hg] at h
  · simp [hg] at h
    exact ⟨hg, h.symm⟩

theorem addBalance_ok {s s1 : State} {a d m n} (h : addBalance s a d m n = .ok s1) :
    ¬ (maxU64 - (balOf s a d m).toNat < n.toNat) ∧ s1 = { s with bal := AMap.set s.bal (a, d, m) (balOf s a d m + n) } := by
  simp only [addBalance] at h
  by_cases hg : maxU64 - (balOf s a d m).toNat < n.toNat
  · simp [hg] at h
  · simp [hg] at h
    exact ⟨hg, h.symm⟩

theorem eff_setSupply (s : State) (d m) (v : UInt64) (x : Int)
    (hv : (v.toNat : Int) = (supplyOf s d m).toNat + x) :
    Eff s { s with supply := AMap.set s.supply (d, m) v } d m x 0 where
  sup_self := by rw [supplyOf_set_self]; exact hv
  sup_other := fun d' m' h => supplyOf_set_other s d m d' m' v h
  sum_self := by simp [holdersSum]
  sum_other := fun _ _ _ => rfl

theorem eff_setBal (s : State) (a d m) (v : UInt64) (x : Int)
    (hv : (v.toNat : Int) = (balOf s a d m).toNat + x) :
    Eff s { s with bal := AMap.set s.bal (a, d, m) v } d m 0 x where
  sup_self := by simp [supplyOf]
  sup_other := fun _ _ _ => rfl
  sum_self := by have := holdersSum_set_same s a d m v; omega
  sum_other := fun d' m' h => holdersSum_set_other s a d m d' m' v h

theorem eff_increaseSupply {s s1 : State} {d m n} (h : increaseSupply s d m n = .ok s1) :
    Eff s s1 d m n.toNat 0 := by
  obtain ⟨hg, rfl⟩ := increaseSupply_ok h
  exact eff_setSupply s d m _ _ (by rw [add_noWrap _ _ hg]; omega)

theorem eff_addBalance {s s1 : State} {a d m n} (h : addBalance s a d m n = .ok s1) :
    Eff s s1 d m 0 n.toNat := by
  obtain ⟨hg, rfl⟩ := addBalance_ok h
  exact eff_setBal s a d m _ _ (by rw [add_noWrap _ _ hg]; omega)

theorem eff_subBalance (s : State) (a d m n) (hg : ¬ (balOf s a d m < n)) :
    Eff s (subBalance s a d m n) d m 0 (-(n.toNat : Int)) := by
  unfold subBalance
  exact eff_setBal s a d m _ _ (by rw [sub_noWrap _ _ hg]; have := le_of_not_lt _ _ hg; omega)

/-- the supply never drops below the holders' sum, hence below one holder's balance -/
theorem bal_le_sum (s : State) (a d m) : (balOf s a d m).toNat ≤ holdersSum s d m := by
  unfold balOf AMap.getD holdersSum
  induction s.bal with
  | nil => simp [AMap.get?]
  | cons hd t ih =>
    obtain ⟨k, v⟩ := hd
    simp only [AMap.get?, AMap.sumIf]
    by_cases hk : k = (a, d, m)
    · subst hk; simp
    · simp only [hk, if_false]; omega

theorem eff_decreaseSupply (s : State) (d m n) (hg : n.toNat ≤ (supplyOf s d m).toNat) :
    Eff s (decreaseSupply s d m n) d m (-(n.toNat : Int)) 0 := by
  unfold decreaseSupply
  refine eff_setSupply s d m _ _ ?_
  have : ¬ (supplyOf s d m < n) := by rw [UInt64.lt_iff_toNat_lt]; omega
  rw [sub_noWrap _ _ this]; omega

/-- an effect that leaves `bal` and `supply` untouched preserves the invariant -/
theorem inv_of_same {s s' : State} (hb : s'.bal = s.bal) (hsup : s'.supply = s.supply) (hs : Inv s) :
    Inv s' := by
  intro d m
  have := hs d m
  unfold InvAt holdersSum supplyOf at *
  rw [hb, hsup]; exact this

end Irismod.Proofs.Mt
