/-
C12 (service slice): the store-iteration / rebuild algebra of the genesis model
(`Irismod.ServiceGenesis.entries`, `rebuild`) — every lookup survives export + import, and the export is a
fixpoint — independent of any invariant of the service state.
-/
import Irismod.Model.ServiceGenesis
import Irismod.Proofs.GenesisList
import Irismod.Proofs.ServiceWF

namespace Irismod.Proofs.ServiceGenesis
open Irismod Irismod.Sdk Irismod.Service Irismod.ServiceGenesis Irismod.Proofs.GenesisList Irismod.Proofs.Service

section generic
variable {K V : Type} [DecidableEq K]

theorem mem_dedup (x : K) : ∀ l : List K, x ∈ dedup l ↔ x ∈ l
  | [] => by simp [dedup]
  | a :: t => by
    simp only [dedup]
    split
    · rename_i h
      rw [mem_dedup x t, List.mem_cons]
      constructor
      · exact Or.inr
      · rintro (e | e)
        · subst e; exact h
        · exact e
    · rw [List.mem_cons, List.mem_cons, mem_dedup x t]

theorem nodup_dedup : ∀ l : List K, (dedup l).Nodup
  | [] => by simp [dedup]
  | a :: t => by
    simp only [dedup]
    split
    · exact nodup_dedup t
    · rename_i h
      rw [List.nodup_cons]
      exact ⟨fun hm => h ((mem_dedup a t).mp hm), nodup_dedup t⟩

theorem dedup_of_nodup : ∀ l : List K, l.Nodup → dedup l = l
  | [], _ => rfl
  | a :: t, h => by
    rw [List.nodup_cons] at h
    simp only [dedup, h.1, if_false]
    rw [dedup_of_nodup t h.2]

/-- the keys an iteration visits -/
def iterKeys (le : K → K → Bool) (m : AMap K V) : List K := isort le (dedup (m.map (·.1)))

theorem mem_iterKeys (le : K → K → Bool) (m : AMap K V) (k : K) : k ∈ iterKeys le m ↔ k ∈ AMap.keys m := by
  unfold iterKeys
  rw [mem_isort, mem_dedup]; rfl

theorem nodup_iterKeys (le : K → K → Bool) (m : AMap K V) : (iterKeys le m).Nodup :=
  nodup_isort le _ (nodup_dedup _)

/-- looking every key of a key list up -/
def lookupAll (m : AMap K V) (ks : List K) : List (K × V) :=
  ks.filterMap fun k => (AMap.get? m k).map fun v => (k, v)

theorem entries_eq (le : K → K → Bool) (m : AMap K V) : entries le m = lookupAll m (iterKeys le m) := rfl

theorem mem_lookupAll (m : AMap K V) (ks : List K) (e : K × V) :
    e ∈ lookupAll m ks ↔ e.1 ∈ ks ∧ AMap.get? m e.1 = some e.2 := by
  unfold lookupAll
  rw [List.mem_filterMap]
  constructor
  · rintro ⟨k, hk, h⟩
    cases hg : AMap.get? m k with
    | none => rw [hg] at h; cases h
    | some v =>
      rw [hg] at h
      simp only [Option.map_some, Option.some.injEq] at h
      subst h
      exact ⟨hk, hg⟩
  · rintro ⟨hk, hg⟩
    exact ⟨e.1, hk, by rw [hg]; rfl⟩

theorem keys_lookupAll (m : AMap K V) : ∀ (ks : List K), (∀ k, k ∈ ks → k ∈ AMap.keys m) →
    AMap.keys (lookupAll m ks) = ks
  | [], _ => rfl
  | k :: t, h => by
    obtain ⟨v, hv⟩ := (mem_keys_iff m k).mp (h k (List.mem_cons_self ..))
    have ih := keys_lookupAll m t (fun x hx => h x (List.mem_cons_of_mem _ hx))
    unfold lookupAll AMap.keys at ih ⊢
    simp only [List.filterMap_cons, hv, Option.map_some, List.map_cons]
    rw [ih]

theorem keys_entries (le : K → K → Bool) (m : AMap K V) : AMap.keys (entries le m) = iterKeys le m := by
  rw [entries_eq]
  exact keys_lookupAll m _ (fun k hk => (mem_iterKeys le m k).mp hk)

theorem nodupKeys_entries (le : K → K → Bool) (m : AMap K V) : NodupKeys (entries le m) := by
  unfold NodupKeys
  rw [keys_entries]
  exact nodup_iterKeys le m

/-- **every lookup survives the iteration**: the exported list answers `get?` like the store -/
theorem get?_entries (le : K → K → Bool) (m : AMap K V) (k : K) : AMap.get? (entries le m) k = AMap.get? m k := by
  cases hg : AMap.get? m k with
  | none =>
    rw [get?_eq_none_iff, keys_entries, mem_iterKeys, ← get?_eq_none_iff]
    exact hg
  | some v =>
    apply get?_of_mem (nodupKeys_entries le m)
    rw [entries_eq, mem_lookupAll]
    exact ⟨(mem_iterKeys le m k).mpr ((mem_keys_iff m k).mpr ⟨v, hg⟩), hg⟩

theorem mem_entries (le : K → K → Bool) (m : AMap K V) (e : K × V) : e ∈ entries le m ↔ AMap.get? m e.1 = some e.2 := by
  rw [entries_eq, mem_lookupAll]
  constructor
  · exact fun h => h.2
  · intro h
    exact ⟨(mem_iterKeys le m e.1).mpr ((mem_keys_iff m e.1).mpr ⟨_, h⟩), h⟩

/-- writing entries with distinct keys into an empty store yields exactly that list -/
theorem foldl_set_append : ∀ (l acc : AMap K V), NodupKeys (acc ++ l) →
    l.foldl (fun m e => AMap.set m e.1 e.2) acc = acc ++ l
  | [], acc, _ => by simp
  | e :: t, acc, h => by
    simp only [List.foldl]
    have hk : e.1 ∉ AMap.keys acc := by
      unfold NodupKeys AMap.keys at h
      rw [List.map_append, List.nodup_append] at h
      intro hm
      exact h.2.2 _ hm _ (by simp) rfl
    rw [set_of_not_mem acc e.1 e.2 hk]
    have : acc ++ [(e.1, e.2)] ++ t = acc ++ e :: t := by simp
    rw [foldl_set_append t (acc ++ [(e.1, e.2)]) (by rw [this]; exact h), this]

theorem rebuild_of_nodup {l : AMap K V} (h : NodupKeys l) : rebuild l = l := by
  unfold rebuild
  have := foldl_set_append l [] (by simpa using h)
  simpa using this

theorem rebuild_entries (le : K → K → Bool) (m : AMap K V) : rebuild (entries le m) = entries le m :=
  rebuild_of_nodup (nodupKeys_entries le m)

/-- **export + import preserves every lookup** -/
theorem get?_rebuild_entries (le : K → K → Bool) (m : AMap K V) (k : K) :
    AMap.get? (rebuild (entries le m)) k = AMap.get? m k := by
  rw [rebuild_entries, get?_entries]

/-! ### the iteration is canonical: exporting what was imported yields the same list -/

/-- adjacent elements are in order -/
def Adj (le : K → K → Bool) : List K → Prop
  | [] => True
  | [_] => True
  | a :: b :: t => le a b = true ∧ Adj le (b :: t)

theorem adj_insertBy (le : K → K → Bool) (tot : ∀ a b, le a b = true ∨ le b a = true) (x : K) :
    ∀ l : List K, Adj le l → Adj le (insertBy le x l)
  | [], _ => trivial
  | [a], _ => by
    simp only [insertBy]
    split
    · rename_i h; exact ⟨h, trivial⟩
    · rename_i h
      exact ⟨(tot x a).resolve_left h, trivial⟩
  | a :: b :: t, h => by
    simp only [insertBy]
    split
    · rename_i hx; exact ⟨hx, h⟩
    · rename_i hx
      have hax := (tot x a).resolve_left hx
      have ih := adj_insertBy le tot x (b :: t) h.2
      simp only [insertBy] at ih ⊢
      split
      · rename_i hb
        exact ⟨hax, hb, h.2⟩
      · rename_i hb
        simp only [hb] at ih
        exact ⟨h.1, ih⟩

theorem adj_isort (le : K → K → Bool) (tot : ∀ a b, le a b = true ∨ le b a = true) : ∀ l : List K, Adj le (isort le l)
  | [] => trivial
  | a :: t => by
    have : isort le (a :: t) = insertBy le a (isort le t) := rfl
    rw [this]
    exact adj_insertBy le tot a _ (adj_isort le tot t)

theorem isort_of_adj (le : K → K → Bool) : ∀ l : List K, Adj le l → isort le l = l
  | [], _ => rfl
  | [a], _ => rfl
  | a :: b :: t, h => by
    have : isort le (a :: b :: t) = insertBy le a (isort le (b :: t)) := rfl
    rw [this, isort_of_adj le (b :: t) h.2]
    simp only [insertBy, h.1, if_true]

theorem lookupAll_cons (m : AMap K V) (x : K) (ks : List K) :
    lookupAll m (x :: ks) = match AMap.get? m x with
      | some v => (x, v) :: lookupAll m ks
      | none => lookupAll m ks := by
  unfold lookupAll
  cases hg : AMap.get? m x <;> simp [List.filterMap_cons, hg]

theorem lookupAll_cons_of_not_mem (k : K) (v : V) (t : AMap K V) : ∀ (ks : List K), k ∉ ks →
    lookupAll ((k, v) :: t) ks = lookupAll t ks
  | [], _ => rfl
  | x :: rest, h => by
    rw [List.mem_cons, not_or] at h
    rw [lookupAll_cons, lookupAll_cons, lookupAll_cons_of_not_mem k v t rest h.2]
    have : AMap.get? ((k, v) :: t) x = AMap.get? t x := by simp only [AMap.get?, h.1, if_false]
    rw [this]

theorem lookupAll_self : ∀ (l : AMap K V), NodupKeys l → lookupAll l (AMap.keys l) = l
  | [], _ => rfl
  | (k, v) :: t, h => by
    have hn : NodupKeys t := by
      unfold NodupKeys AMap.keys at h ⊢
      rw [List.map_cons, List.nodup_cons] at h; exact h.2
    have hk : k ∉ AMap.keys t := by
      unfold NodupKeys AMap.keys at h
      rw [List.map_cons, List.nodup_cons] at h; exact h.1
    have : AMap.keys ((k, v) :: t) = k :: AMap.keys t := rfl
    rw [this, lookupAll_cons]
    have hg : AMap.get? ((k, v) :: t) k = some v := by simp [AMap.get?]
    rw [hg]
    simp only
    rw [lookupAll_cons_of_not_mem k v t _ hk, lookupAll_self t hn]

/-- **fixpoint**: iterating over what the import wrote visits the same list -/
theorem entries_fixpoint (le : K → K → Bool) (tot : ∀ a b, le a b = true ∨ le b a = true) (m : AMap K V) :
    entries le (rebuild (entries le m)) = entries le m := by
  rw [rebuild_entries]
  have hn := nodupKeys_entries le m
  have hk := keys_entries le m
  rw [entries_eq le (entries le m)]
  unfold iterKeys
  have h1 : (entries le m).map (·.1) = iterKeys le m := hk
  rw [h1, dedup_of_nodup _ (nodup_iterKeys le m), isort_of_adj le _ (by unfold iterKeys; exact adj_isort le tot _)]
  rw [← hk]
  exact lookupAll_self _ hn

end generic

end Irismod.Proofs.ServiceGenesis

namespace Irismod.Proofs.ServiceGenesis
open Irismod Irismod.Sdk Irismod.Service Irismod.ServiceGenesis Irismod.Proofs.GenesisList Irismod.Proofs.Service

/-! ### the key orders are total -/

theorem leStr_total (a b : String) : leStr a b = true ∨ leStr b a = true := by
  unfold leStr
  rcases String.le_total a b with h | h <;> simp [h]

theorem leBind_total (rank : Addr → Nat) (a b : String × Addr) : leBind rank a b = true ∨ leBind rank b a = true := by
  unfold leBind
  by_cases h1 : a.1 < b.1
  · left; simp [h1]
  · by_cases h2 : a.1 = b.1
    · rcases Nat.le_total (rank a.2) (rank b.2) with h | h
      · left; simp [h2, h]
      · right; simp [h2, h]
    · right
      have := str_lt_of_not a.1 b.1 h1 h2
      simp [this]

/-! ### the state after export + wipe + import -/

/-- `InitGenesis(ExportGenesis(s))` on the wiped store, validation aside -/
def roundTrip (rank : Addr → Nat) (s : State) : State := importState s (exportGenesis rank s)

theorem reimport_ok {rank : Addr → Nat} {s : State} (h : genesisValid (exportGenesis rank s) = true) :
    reimport rank s = .ok (roundTrip rank s) := by
  unfold reimport importGenesis roundTrip
  rw [if_pos h]

theorem reimport_panics {rank : Addr → Nat} {s : State} (h : genesisValid (exportGenesis rank s) = false) :
    ∃ why, reimport rank s = .error (.panic why) := by
  unfold reimport importGenesis
  rw [h]
  exact ⟨_, rfl⟩

/-- every registry lookup is the same after the round trip -/
theorem roundTrip_lookups (rank : Addr → Nat) (s : State) :
    (roundTrip rank s).params = s.params ∧
    (∀ n, AMap.get? (roundTrip rank s).defs n = AMap.get? s.defs n) ∧
    (∀ k, AMap.get? (roundTrip rank s).binds k = AMap.get? s.binds k) ∧
    (∀ o, AMap.get? (roundTrip rank s).wd o = AMap.get? s.wd o) ∧
    (∀ id, AMap.get? (roundTrip rank s).ctxs id = AMap.get? s.ctxs id) :=
  ⟨rfl, fun n => get?_rebuild_entries leStr s.defs n, fun k => get?_rebuild_entries (leBind rank) s.binds k,
   fun o => get?_rebuild_entries leStr s.wd o, fun id => get?_rebuild_entries leStr s.ctxs id⟩

/-- what is not exported is gone; bank, block header, exchange rates are not module state -/
theorem roundTrip_dropped (rank : Addr → Nat) (s : State) :
    (roundTrip rank s).reqs = [] ∧ (roundTrip rank s).active = [] ∧ (roundTrip rank s).resps = [] ∧
    (roundTrip rank s).vols = [] ∧ (roundTrip rank s).earned = [] ∧ (roundTrip rank s).oearned = [] ∧
    (roundTrip rank s).newQ = [] ∧ (roundTrip rank s).newH = [] ∧ (roundTrip rank s).expQ = [] ∧
    (roundTrip rank s).expH = [] ∧ (roundTrip rank s).bank = s.bank ∧ (roundTrip rank s).height = s.height ∧
    (roundTrip rank s).time = s.time ∧ (roundTrip rank s).rates = s.rates :=
  ⟨rfl, rfl, rfl, rfl, rfl, rfl, rfl, rfl, rfl, rfl, rfl, rfl, rfl, rfl⟩

/-- **fixpoint**: exporting the re-imported state yields the same document -/
theorem export_roundTrip (rank : Addr → Nat) (s : State) :
    exportGenesis rank (roundTrip rank s) = exportGenesis rank s := by
  have h1 := entries_fixpoint leStr leStr_total s.defs
  have h2 := entries_fixpoint (leBind rank) (leBind_total rank) s.binds
  have h3 := entries_fixpoint leStr leStr_total s.wd
  have h4 := entries_fixpoint leStr leStr_total s.ctxs
  show ({ params := s.params, defs := entries leStr (rebuild (entries leStr s.defs)),
          binds := entries (leBind rank) (rebuild (entries (leBind rank) s.binds)),
          wd := entries leStr (rebuild (entries leStr s.wd)),
          ctxs := entries leStr (rebuild (entries leStr s.ctxs)) } : Genesis) = _
  rw [h1, h2, h3, h4]
  rfl

/-! ### the provider ↦ owner index -/

theorem ownersOf_none : ∀ (l : List ((String × Addr) × Binding)) (acc : AMap Addr Addr) (p : Addr),
    (∀ e, e ∈ l → e.1.2 ≠ p) →
    AMap.get? (l.foldl (fun m e => AMap.set m e.1.2 e.2.owner) acc) p = AMap.get? acc p
  | [], _, _, _ => rfl
  | e :: t, acc, p, h => by
    simp only [List.foldl]
    rw [ownersOf_none t _ p (fun x hx => h x (List.mem_cons_of_mem _ hx))]
    exact AMap.get?_set_other _ _ _ _ (h e (List.mem_cons_self ..))

theorem ownersOf_some : ∀ (l : List ((String × Addr) × Binding)) (acc : AMap Addr Addr) (p o : Addr),
    (∀ e, e ∈ l → e.1.2 = p → e.2.owner = o) → (AMap.get? acc p = some o ∨ ∃ e, e ∈ l ∧ e.1.2 = p) →
    AMap.get? (l.foldl (fun m e => AMap.set m e.1.2 e.2.owner) acc) p = some o
  | [], _, _, _, _, h => by
    rcases h with h | ⟨e, he, _⟩
    · exact h
    · cases he
  | e :: t, acc, p, o, hc, h => by
    simp only [List.foldl]
    apply ownersOf_some t _ p o (fun x hx => hc x (List.mem_cons_of_mem _ hx))
    by_cases hp : e.1.2 = p
    · left
      rw [hp, ← hc e (List.mem_cons_self ..) hp]
      exact AMap.get?_set_self _ _ _
    · rcases h with h | ⟨x, hx, hxp⟩
      · left; rw [AMap.get?_set_other _ _ _ _ hp]; exact h
      · rcases List.mem_cons.mp hx with e' | hx'
        · subst e'; exact absurd hxp hp
        · right; exact ⟨x, hx', hxp⟩

/-- every binding's provider maps to the binding's owner, and only providers with a binding have an owner -/
structure OwnersInv (s : State) : Prop where
  own1 : ∀ k b, AMap.get? s.binds k = some b → AMap.get? s.owners k.2 = some b.owner
  own2 : ∀ p o, AMap.get? s.owners p = some o → ∃ svc b, AMap.get? s.binds (svc, p) = some b

/-- the provider ↦ owner index is rebuilt from the bindings -/
theorem roundTrip_owners (rank : Addr → Nat) {s : State} (ho : OwnersInv s) (p : Addr) :
    AMap.get? (roundTrip rank s).owners p = AMap.get? s.owners p := by
  unfold roundTrip importState ownersOf exportGenesis
  simp only
  cases hg : AMap.get? s.owners p with
  | none =>
    rw [ownersOf_none]
    · rfl
    · intro e he hp
      rw [mem_entries] at he
      have := ho.own1 _ _ he
      rw [hp, hg] at this
      cases this
  | some o =>
    apply ownersOf_some
    · intro e he hp
      rw [mem_entries] at he
      have := ho.own1 _ _ he
      rw [hp, hg] at this
      exact (Option.some.inj this).symm
    · right
      obtain ⟨svc, b, hb⟩ := ho.own2 p o hg
      exact ⟨((svc, p), b), (mem_entries _ _ _).mpr hb, rfl⟩

/-! ### validation of the exported document -/

/-- the field-level shape `ValidateGenesis` requires of stored objects -/
structure FieldsOk (s : State) : Prop where
  params : paramsValid s.params = true
  defs   : ∀ n a, AMap.get? s.defs n = some a → defValid (n, a) = true
  binds  : ∀ k b, AMap.get? s.binds k = some b → bindValid (k, b) = true
  wd     : ∀ o a, AMap.get? s.wd o = some a → wdValid (o, a) = true
  ctxs   : ∀ id c, AMap.get? s.ctxs id = some c → ctxFieldsValid c = true

/-- every context is PAUSED with a COMPLETED batch -/
def Quiescent (s : State) : Prop := ∀ id c, AMap.get? s.ctxs id = some c → ctxQuiet c = true

theorem genesisValid_export (rank : Addr → Nat) {s : State} (hf : FieldsOk s) (hq : Quiescent s) :
    genesisValid (exportGenesis rank s) = true := by
  unfold genesisValid exportGenesis
  simp only [Bool.and_eq_true, List.all_eq_true]
  refine ⟨⟨⟨⟨hf.params, ?_⟩, ?_⟩, ?_⟩, ?_⟩
  · intro e he; rw [mem_entries] at he; exact hf.defs _ _ he
  · intro e he; rw [mem_entries] at he; exact hf.binds _ _ he
  · intro e he; rw [mem_entries] at he; exact hf.wd _ _ he
  · intro e he
    rw [mem_entries] at he
    unfold ctxValid
    rw [Bool.and_eq_true]
    exact ⟨hf.ctxs _ _ he, hq _ _ he⟩

/-- a stored context that is not PAUSED / batch-COMPLETED makes the module reject its own export -/
theorem genesisInvalid_of_live (rank : Addr → Nat) {s : State} {id : CtxId} {c : Ctx} (hg : AMap.get? s.ctxs id = some c)
    (hl : ctxQuiet c = false) : genesisValid (exportGenesis rank s) = false := by
  cases hv : genesisValid (exportGenesis rank s) with
  | false => rfl
  | true =>
    unfold genesisValid exportGenesis at hv
    simp only [Bool.and_eq_true, List.all_eq_true] at hv
    have := hv.2 (id, c) ((mem_entries _ _ _).mpr hg)
    unfold ctxValid at this
    rw [Bool.and_eq_true] at this
    rw [hl] at this
    cases this.2

end Irismod.Proofs.ServiceGenesis
