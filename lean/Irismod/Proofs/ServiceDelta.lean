/-
C07, exact movements: the fee split of an answer, the slash, the refund of an expired request and
the charge of a new batch.
-/
import Irismod.Proofs.ServiceEscrow

namespace Irismod.Proofs.Service
open Irismod Irismod.Sdk Irismod.Service Irismod.Spec.C07

theorem debitCoins_ok (a : Addr) : ∀ (c : Coins) (b : Bank), (debitCoins b a c).2 = true →
    ∀ d, Bank.balOf (debitCoins b a c).1 a d + coinsIn c d = Bank.balOf b a d
  | [], b, _, d => by simp [debitCoins, coinsIn, AMap.sumIf]
  | (d0, n) :: rest, b, h, d => by
    simp only [debitCoins] at h ⊢
    split at h
    · cases h
    · rename_i hge
      rw [if_neg hge]
      have ih := debitCoins_ok a rest _ h d
      rw [coinsIn_cons]
      by_cases hd : d0 = d
      · subst hd
        rw [Bank.balOf_setBal_self] at ih
        simp only [if_true]; omega
      · rw [Bank.balOf_setBal_other _ _ _ _ _ _ (by intro e; cases e; exact hd rfl)] at ih
        simp only [hd, if_false]; omega

/-- the tax never exceeds the fee when the tax rate is at most one -/
theorem getD_bump (m : AMap (Addr × Denom) Nat) (a : Addr) (d : Denom) (n : Nat) :
    AMap.getD (bump m a d n) (a, d) 0 = AMap.getD m (a, d) 0 + n := by
  unfold bump
  split
  · rename_i h; subst h; simp
  · unfold AMap.getD; rw [AMap.get?_set_self]; rfl

theorem getD_bump_other (m : AMap (Addr × Denom) Nat) (a : Addr) (d : Denom) (n : Nat) (k : Addr × Denom) (h : (a, d) ≠ k) :
    AMap.getD (bump m a d n) k 0 = AMap.getD m k 0 := by
  unfold bump
  split
  · rfl
  · unfold AMap.getD; rw [AMap.get?_set_other _ _ _ _ h]

/-- **fee split of an accepted answer**: with `tax = ⌊fee · taxRate⌋`, the request escrow pays `tax` to the
fee collector and keeps the rest, which is credited in full to the provider's and to the owner's
earned-fee entry of the fee's denom; no other earned-fee entry moves -/
theorem respond_fee_split {s s' : State} {provider : Addr} {rid : ReqId} {hasOut : Bool}
    (h : keeperRespond s provider rid hasOut = .ok s') :
    ∃ rq, AMap.get? s.reqs rid = some rq ∧ taxOf s rq.feeAmt ≤ rq.feeAmt ∧
      Bank.balOf s'.bank fcAcc rq.feeDenom = Bank.balOf s.bank fcAcc rq.feeDenom + taxOf s rq.feeAmt ∧
      Bank.balOf s'.bank reqAcc rq.feeDenom + taxOf s rq.feeAmt = Bank.balOf s.bank reqAcc rq.feeDenom ∧
      AMap.getD s'.earned (provider, rq.feeDenom) 0 = AMap.getD s.earned (provider, rq.feeDenom) 0 + (rq.feeAmt - taxOf s rq.feeAmt) ∧
      AMap.getD s'.oearned (AMap.getD s.owners provider "", rq.feeDenom) 0 =
        AMap.getD s.oearned (AMap.getD s.owners provider "", rq.feeDenom) 0 + (rq.feeAmt - taxOf s rq.feeAmt) ∧
      (∀ k, k ≠ (provider, rq.feeDenom) → AMap.getD s'.earned k 0 = AMap.getD s.earned k 0) ∧
      (∀ a d, (a, d) ≠ (reqAcc, rq.feeDenom) → (a, d) ≠ (fcAcc, rq.feeDenom) → Bank.balOf s'.bank a d = Bank.balOf s.bank a d) := by
  unfold keeperRespond at h
  split at h
  · cases h
  rename_i rq rc hgr
  split at h
  · cases h
  split at h
  · cases h
  split at h
  · cases h
  rename_i s1 hfee
  cases h
  obtain ⟨hq, _⟩ := getRequest_some hgr
  obtain ⟨bank, hsend, htax, f1, f2, _, _, _, _⟩ := addEarnedFee_fields hfee
  have f5 : s1.oearned = bump s.oearned (AMap.getD s.owners provider "") rq.feeDenom (rq.feeAmt - taxOf s rq.feeAmt) := by
    unfold addEarnedFee at hfee
    split at hfee
    · cases hfee
    split at hfee
    · cases hfee
    cases hfee
    rfl
  have r3 : (recordResponse s1 rid provider rq rc hasOut).earned = s1.earned := rfl
  have r4 : (recordResponse s1 rid provider rq rc hasOut).bank = s1.bank := rfl
  have r5 : (recordResponse s1 rid provider rq rc hasOut).oearned = s1.oearned := rfl
  generalize recordResponse s1 rid provider rq rc hasOut = T at r3 r4 r5 ⊢
  obtain ⟨k1, k2, _, _⟩ := countResponse_ledger T rq.ctx
  have ko : (countResponse T rq.ctx).oearned = T.oearned := by
    unfold countResponse storeCtx completeBatch callback
    split
    · split <;> rfl
    · rfl
  refine ⟨rq, hq, htax, ?_, ?_, ?_, ?_, ?_, ?_⟩
  · rw [k1, r4, f1]; exact send_balOf_dst (by decide) hsend
  · rw [k1, r4, f1]; exact send_balOf_src (by decide) hsend
  · rw [k2, r3, f2]; exact getD_bump _ _ _ _
  · rw [ko, r5, f5]; exact getD_bump _ _ _ _
  · intro k hk; rw [k2, r3, f2]; exact getD_bump_other _ _ _ _ _ (Ne.symm hk)
  · intro a d h1 h2; rw [k1, r4, f1]; exact send_balOf_other hsend a d h1 h2

/-- **slash**: when it takes effect, exactly `⌊deposit · slashFraction⌋` base coins move from the deposit
escrow to the fee collector and the binding's deposit drops by the same amount -/
theorem slash_exact (s : State) (svc : String) (p : Addr) (b : Binding) (hb : AMap.get? s.binds (svc, p) = some b)
    (hle : slashAmount s b ≤ b.deposit) (hfund : slashAmount s b ≤ Bank.balOf s.bank depAcc s.params.base) :
    ((AMap.get? (slash s svc p).binds (svc, p)).map (·.deposit)) = some (b.deposit - slashAmount s b) ∧
    Bank.balOf (slash s svc p).bank depAcc s.params.base + slashAmount s b = Bank.balOf s.bank depAcc s.params.base ∧
    Bank.balOf (slash s svc p).bank fcAcc s.params.base = Bank.balOf s.bank fcAcc s.params.base + slashAmount s b ∧
    slashAmount s b = mulTrunc b.deposit s.params.slash := by
  obtain ⟨bank, hsend⟩ := send_isSome (src := depAcc) (dst := fcAcc) (d := s.params.base) hfund
  unfold slash
  split
  · rename_i hn; rw [hb] at hn; cases hn
  · rename_i b' hb'
    rw [hb] at hb'
    have eb : b = b' := Option.some.inj hb'
    subst eb
    split
    · omega
    · split
      · rename_i hno; rw [hsend] at hno; cases hno
      · rename_i bank' hs'
        rw [hsend] at hs'
        have ebk : bank = bank' := Option.some.inj hs'
        subst ebk
        refine ⟨?_, send_balOf_src (by decide) hsend, send_balOf_dst (by decide) hsend, rfl⟩
        simp only
        rw [AMap.get?_set_self]
        simp [slashedBinding_deposit]

theorem le_sumBy_of_get? {K V : Type} [DecidableEq K] (f : V → Nat) :
    ∀ (m : AMap K V) (k : K) (v : V), AMap.get? m k = some v → f v ≤ AMap.sumBy f m
  | [], _, _, h => by simp [AMap.get?] at h
  | (k0, v0) :: t, k, v, h => by
    simp only [AMap.get?] at h
    simp only [AMap.sumBy, AMap.sumIf, if_true]
    split at h
    · cases h; omega
    · have := le_sumBy_of_get? f t k v h
      simp only [AMap.sumBy] at this
      omega

/-- the deposit escrow can always pay the slash on states satisfying the deposit invariant -/
theorem slash_funded {s : State} (hd : DepositInv s) (svc : String) (p : Addr) (b : Binding)
    (hb : AMap.get? s.binds (svc, p) = some b) (hle : slashAmount s b ≤ b.deposit) :
    slashAmount s b ≤ Bank.balOf s.bank depAcc s.params.base := by
  have h := hd s.params.base
  simp only [if_true] at h
  have : b.deposit ≤ depositSum s := le_sumBy_of_get? (fun b : Binding => b.deposit) s.binds (svc, p) b hb
  omega

/-- **refund at expiry**: the fee of an expired request goes back to the consumer in full, out of the request
escrow, and the marker is dropped -/
theorem expiry_refund_exact {s : State} (ha : ActOK s) (hu : UsersInv s) (he : EscrowInv s) {rid : ReqId}
    (hr : rid ∈ s.active) :
    ∃ rq c, AMap.get? s.reqs rid = some rq ∧ AMap.get? s.ctxs rid.ctx = some c ∧
      Bank.balOf (expireReq s rid).bank c.consumer rq.feeDenom =
        Bank.balOf (slash s c.svc rq.provider).bank c.consumer rq.feeDenom + rq.feeAmt ∧
      Bank.balOf (expireReq s rid).bank reqAcc rq.feeDenom + rq.feeAmt = Bank.balOf s.bank reqAcc rq.feeDenom ∧
      rid ∉ (expireReq s rid).active := by
  obtain ⟨rq, c, h1, h2, h3⟩ := ha.2 rid hr
  have hg := getRequest_of h1 h2 h3
  have hcons : Good c.consumer := hu.consumers _ _ h3
  obtain ⟨l1, l2, l3, l4, l5⟩ := slash_ledger s c.svc rq.provider
  have hge : rq.feeAmt ≤ Bank.balOf (slash s c.svc rq.provider).bank reqAcc rq.feeDenom := by
    rw [l5]
    have := he rq.feeDenom
    have hle := le_sumList_of_mem (fun r => reqFee s r rq.feeDenom) s.active rid hr
    have hfee : reqFee s rid rq.feeDenom = rq.feeAmt := by unfold reqFee feeIn; rw [h1]; simp
    unfold activeFee at this
    omega
  obtain ⟨bank, hsend⟩ := send_isSome (dst := c.consumer) hge
  refine ⟨rq, c, h1, h3, ?_, ?_, ?_⟩
  · unfold expireReq
    rw [hg]
    simp only [refund, hsend, dropActive]
    rw [send_balOf_dst (Ne.symm hcons.2) hsend]
  · unfold expireReq
    rw [hg]
    simp only [refund, hsend, dropActive]
    have := send_balOf_src (Ne.symm hcons.2) hsend
    rw [l5] at this; exact this
  · rw [(expireReq_sched s rid).2, List.mem_filter]
    simp

end Irismod.Proofs.Service

namespace Irismod.Proofs.Service
open Irismod Irismod.Sdk Irismod.Service Irismod.Spec.C07

/-- **charge of a batch**: without promotions the new-batch handler debits the consumer by exactly the fees
recorded on the requests it creates — also when the consumer cannot pay (nothing is debited, nothing created) -/
theorem charge_eq_fees {s : State} (hw : WF s) (hd : DI s) (hn : NoPromo s) (id : CtxId)
    (hm : AMap.get? s.newH id = some s.height) {c : Ctx} (hg : AMap.get? s.ctxs id = some c) (d : Denom) :
    Bank.balOf (newBatch s id).bank c.consumer d + activeFee (newBatch s id) d =
      Bank.balOf s.bank c.consumer d + activeFee s d := by
  have hnc : AMap.contains s.newH id = true := (contains_iff _ _).mpr ⟨_, hm⟩
  have hgc := getCtx_of_get? hg
  have hna := hw.no_active_of_new hnc
  have hcons : Good c.consumer := hd.1.consumers _ _ hg
  unfold newBatch
  rw [hgc]
  have hpaused : ∀ cause, Bank.balOf (delNew (onPaused s id c cause) id s.height).bank c.consumer d +
      activeFee (delNew (onPaused s id c cause) id s.height) d = Bank.balOf s.bank c.consumer d + activeFee s d := by
    intro cause
    obtain ⟨o1, o2, o3, _, _⟩ := onPaused_ledger s id c cause
    have hA : activeFee (delNew (onPaused s id c cause) id s.height) d = activeFee s d :=
      activeFee_congr (by simp only [delNew]; rw [o2]) (fun _ _ => by simp only [delNew]; rw [o3]) d
    rw [hA]
    simp only [delNew]
    rw [o1]
  split
  · split
    · exact hpaused _
    · rename_i provs total hfp
      split
      · unfold chargeAndStart
        split
        case isFalse => exact hpaused _
        rename_i hp
        obtain ⟨added, ha1, ha2⟩ := filterProviders_total s c c.providers [] [] provs total hfp
        simp only [List.nil_append] at ha1
        subst ha1
        obtain ⟨s2, hs2⟩ : ∃ s2 : State, s2 = { s with bank := creditCoins (debitCoins s.bank c.consumer (sortCoins total)).1 reqAcc (sortCoins total) } :=
          ⟨_, rfl⟩
        rw [← hs2]
        have b1 : s2.binds = s.binds := by rw [hs2]
        have b2 : s2.active = s.active := by rw [hs2]
        have b3 : s2.reqs = s.reqs := by rw [hs2]
        have b5 : s2.ctxs = s.ctxs := by rw [hs2]
        have b6 : s2.bank = creditCoins (debitCoins s.bank c.consumer (sortCoins total)).1 reqAcc (sortCoins total) := by rw [hs2]
        have hget : getCtx s2 id = c := getCtx_of_get? (by rw [b5]; exact hg)
        have hn2 : NoPromo s2 := NoPromo.of_binds hn b1
        have hA := mkRequests_fee id (c.batchCounter + 1) c.svc c.consumer c.timeout d provs 0 s2
          (fun r hr hi _ _ => absurd hi (hna r (by rw [← b2]; exact hr)))
        have hl := mkRequests_ledger id (c.batchCounter + 1) c.svc c.consumer c.timeout provs 0 s2
        have hAs : activeFee s2 d = activeFee s d := activeFee_congr b2 (fun _ _ => by rw [b3]) d
        have hsame : sumList (provs.map (fun p => feeIn (mkReq s2 id (c.batchCounter + 1) c.svc c.consumer c.timeout p) d)) =
            sumList (provs.map (fun p => priceOf s c.svc p d)) := by
          apply sumList_map_congr
          intro p _
          rw [feeIn_mkReq_noPromo hn2]
          unfold priceOf pricingOf
          rw [b1]
        have hdeb := debitCoins_ok c.consumer (sortCoins total) s.bank hp d
        rw [coinsIn_sortCoins] at hdeb
        have hprice := ha2 d
        have hcoins0 : coinsIn ([] : Coins) d = 0 := by simp [coinsIn, AMap.sumIf]
        have hfin : activeFee (delNew (addExp (initiateRequests s2 id provs) id (s.height + c.timeout)) id s.height) d =
            activeFee (mkRequests s2 id (c.batchCounter + 1) c.svc c.consumer c.timeout provs 0) d := by
          unfold initiateRequests
          rw [hget]
          exact activeFee_congr rfl (fun _ _ => rfl) d
        have hbk : (delNew (addExp (initiateRequests s2 id provs) id (s.height + c.timeout)) id s.height).bank =
            (mkRequests s2 id (c.batchCounter + 1) c.svc c.consumer c.timeout provs 0).bank := by
          unfold initiateRequests
          rw [hget]
          rfl
        rw [hfin, hbk, hl.1, b6, creditCoins_frame c.consumer reqAcc hcons.2, hA, hAs, hsame]
        omega
      · rfl
  · rfl

end Irismod.Proofs.Service
