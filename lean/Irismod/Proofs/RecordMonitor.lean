/-
Soundness of the C19 monitor with respect to the model: on every model step from a state the
monitor memory describes (`MonInv`), every clause of `Spec.C19.stepFails` — the function
`drv-record monitor C19` evaluates on each observation line — passes, under exactly the escape
clause of the C19 theorems (the creation log including this step is clash-free, which
`Proofs.Record.wf_noClash` gives for at most 2^32 creations unless a SHA-256 collision is
exhibited). So a monitor failure on an implementation trace is a model/implementation
disagreement or a genuine failure of the property, never an artefact of the monitor demanding
something the model and its theorems do not guarantee.
-/
import Irismod.Props.C19

namespace Irismod.Proofs.RecordMonitor
open Irismod Irismod.Record Irismod.Spec.C19 Irismod.Proofs.Record Irismod.Props.C19

/-! ### hex rendering of ids -/

theorem hexDigit_inj : ∀ n, n < 16 → ∀ m, m < 16 → Line.hexDigit n = Line.hexDigit m → n = m := by
  decide

theorem hexDigit_lower : ∀ n, n < 16 →
    (('0' ≤ Line.hexDigit n && Line.hexDigit n ≤ '9') || ('a' ≤ Line.hexDigit n && Line.hexDigit n ≤ 'f')) = true := by
  decide

theorem hexChars_inj {a b : UInt8} (h : hexChars a = hexChars b) : a = b := by
  unfold hexChars at h
  simp only [List.cons.injEq, and_true] at h
  have ha : a.toNat < 256 := a.toNat_lt
  have hb : b.toNat < 256 := b.toNat_lt
  have h1 := hexDigit_inj _ (by omega) _ (by omega) h.1
  have h2 := hexDigit_inj _ (by omega) _ (by omega) h.2
  apply UInt8.toNat_inj.mp
  omega

theorem flatMap_hexChars_inj : ∀ {a b : List UInt8}, a.flatMap hexChars = b.flatMap hexChars → a = b
  | [], [], _ => rfl
  | [], y :: u, h => by simp [hexChars] at h
  | x :: t, [], h => by simp [hexChars] at h
  | x :: t, y :: u, h => by
    simp only [List.flatMap_cons, hexChars, List.cons_append, List.nil_append, List.cons.injEq] at h
    obtain ⟨h1, h2, h3⟩ := h
    have hxy : x = y := hexChars_inj (by simp [hexChars, h1, h2])
    rw [hxy, flatMap_hexChars_inj h3]

/-- distinct ids are printed as distinct strings -/
theorem hexId_inj {a b : Id} (h : hexId a = hexId b) : a = b := by
  unfold hexId at h
  exact Array.toList_inj.mp (flatMap_hexChars_inj (String.ofList_injective h))

theorem hexId_eq_iff {a b : Id} : hexId a = hexId b ↔ a = b := ⟨hexId_inj, fun h => by rw [h]⟩

theorem flatMap_hexChars_length (l : List UInt8) : (l.flatMap hexChars).length = 2 * l.length := by
  induction l with
  | nil => rfl
  | cons x t ih => simp [List.flatMap_cons, hexChars, ih]; omega

theorem flatMap_hexChars_lower (l : List UInt8) :
    ((l.flatMap hexChars).all fun c => ('0' ≤ c && c ≤ '9') || ('a' ≤ c && c ≤ 'f')) = true := by
  induction l with
  | nil => rfl
  | cons x t ih =>
    have hx : x.toNat < 256 := x.toNat_lt
    simp only [List.flatMap_cons, hexChars, List.cons_append, List.nil_append, List.all_cons, ih, Bool.and_true,
      hexDigit_lower (x.toNat / 16) (by omega), hexDigit_lower (x.toNat % 16) (by omega)]

/-- a 32-byte id is printed as 64 lower-case hex digits -/
theorem isHex64_hexId {i : Id} (h : i.size = 32) : isHex64 (hexId i) = true := by
  unfold isHex64 hexId
  rw [String.length_ofList, String.toList_ofList, flatMap_hexChars_length, flatMap_hexChars_lower]
  simp [h]

/-! ### created ids are 32 bytes: the size of a SHA-256 sum -/

theorem compress_size (h : Array UInt32) (b : ByteArray) (off : Nat) : (Sha256.compress h b off).size = 8 := by
  unfold Sha256.compress
  simp only [Id.run, bind, pure]
  rfl

theorem foldl_compress_size (p : ByteArray) (l : List Nat) (h : Array UInt32) (hh : h.size = 8) :
    (l.foldl (fun h i => Sha256.compress h p (64 * i)) h).size = 8 := by
  induction l generalizing h with
  | nil => exact hh
  | cons i t ih => exact ih _ (compress_size _ _ _)

theorem foldl_push4_size (l : List UInt32) (out : ByteArray) :
    (l.foldl (fun b a => (((b.push (a >>> 24).toUInt8).push (a >>> 16).toUInt8).push (a >>> 8).toUInt8).push a.toUInt8)
      out).size = out.size + 4 * l.length := by
  induction l generalizing out with
  | nil => rfl
  | cons x t ih => rw [List.foldl_cons, ih]; simp [ByteArray.size_push]; omega

/-- `Sha256.sum` always returns 32 bytes -/
theorem sha256_size (b : ByteArray) : (Sha256.sum b).size = 32 := by
  unfold Sha256.sum
  simp only [Id.run, Std.Legacy.Range.forIn_eq_forIn_range', List.forIn_pure_yield_eq_foldl,
    Array.forIn_pure_yield_eq_foldl, bind_pure_comp, map_pure, pure_bind]
  show ByteArray.size (Array.foldl _ _ _) = 32
  rw [← Array.foldl_toList, foldl_push4_size, Array.length_toList, foldl_compress_size _ _ _ rfl]
  rfl

theorem idOfPre_size (pre : Bytes) : (idOfPre pre).size = 32 := sha256_size _

theorem txEntries_id_size (h : String) (c : UInt32) (msgs : List Msg) :
    ∀ e ∈ txEntries h c msgs, e.id.size = 32 := by
  induction msgs generalizing c with
  | nil => intro e he; simp [txEntries] at he
  | cons m t ih =>
    intro e he
    simp only [txEntries, List.mem_cons] at he
    rcases he with rfl | he
    · exact idOfPre_size _
    · exact ih _ e he

/-- every id an operation creates is 32 bytes long -/
theorem opEntries_id_size (s : State) (op : Op) : ∀ e ∈ opEntries s op, e.id.size = 32 := by
  cases op with
  | tx b msgs =>
    simp only [opEntries]
    split
    · exact txEntries_id_size _ _ _
    · intro e he; simp at he
  | query id => intro e he; simp [opEntries] at he
  | queryAll => intro e he; simp [opEntries] at he
  | nextBlock => intro e he; simp [opEntries] at he

/-! ### association lists: `set` never shrinks, keeps keys distinct; reading maps with distinct keys -/

theorem length_set_ge {K V : Type} [DecidableEq K] (m : AMap K V) (k : K) (v : V) :
    m.length ≤ (AMap.set m k v).length := by
  induction m with
  | nil => simp [AMap.set]
  | cons hd t ih =>
    obtain ⟨k', v'⟩ := hd
    by_cases hk : k' = k
    · simp [AMap.set, hk]
    · simp [AMap.set, hk]; exact ih

theorem keys_set {K V : Type} [DecidableEq K] (m : AMap K V) (k : K) (v : V) :
    (AMap.set m k v).map (·.1) = if k ∈ m.map (·.1) then m.map (·.1) else m.map (·.1) ++ [k] := by
  induction m with
  | nil => simp [AMap.set]
  | cons hd t ih =>
    obtain ⟨k', v'⟩ := hd
    by_cases hk : k' = k
    · subst hk; simp [AMap.set]
    · have hk2 : ¬ k = k' := fun h => hk h.symm
      simp only [AMap.set, hk, if_false, List.map_cons, ih, List.mem_cons, hk2, false_or]
      split <;> simp

theorem nodup_keys_set {K V : Type} [DecidableEq K] (m : AMap K V) (k : K) (v : V)
    (h : (m.map (·.1)).Nodup) : ((AMap.set m k v).map (·.1)).Nodup := by
  rw [keys_set]
  split
  · exact h
  · rename_i hk
    rw [List.nodup_append]
    exact ⟨h, by simp, by intro a ha b hb; simp at hb; subst hb; intro hab; exact hk (hab ▸ ha)⟩

/-- in a map with distinct keys every binding is the one `get?` reads -/
theorem get?_of_mem {K V : Type} [DecidableEq K] (m : AMap K V) (h : (m.map (·.1)).Nodup) (k : K) (v : V)
    (hm : (k, v) ∈ m) : AMap.get? m k = some v := by
  induction m with
  | nil => simp at hm
  | cons hd t ih =>
    obtain ⟨k', v'⟩ := hd
    rw [List.map_cons, List.nodup_cons] at h
    simp only [List.mem_cons, Prod.mk.injEq] at hm
    rcases hm with ⟨h1, h2⟩ | hm
    · simp [AMap.get?, h1, h2]
    · have hk : k' ≠ k := by
        intro hkk; subst hkk
        exact h.1 (List.mem_map.mpr ⟨(k', v), hm, rfl⟩)
      simp only [AMap.get?, hk, if_false]
      exact ih h.2 hm

theorem length_replay_ge (m : AMap Id Rec) (log : List Entry) : m.length ≤ (replayOn m log).length := by
  induction log generalizing m with
  | nil => exact Nat.le_refl _
  | cons e t ih => exact Nat.le_trans (length_set_ge m e.id e.rcd) (ih _)

theorem nodup_keys_replay (m : AMap Id Rec) (log : List Entry) (h : (m.map (·.1)).Nodup) :
    ((replayOn m log).map (·.1)).Nodup := by
  induction log generalizing m with
  | nil => exact h
  | cons e t ih => exact ih _ (nodup_keys_set m e.id e.rcd h)

/-! ### the monitor's memory mirrors the store under the printing of ids -/

theorem set_map_hex (m : AMap Id Rec) (id : Id) (r : Rec) :
    AMap.set (m.map hexPair) (hexId id) r = (AMap.set m id r).map hexPair := by
  induction m with
  | nil => rfl
  | cons hd t ih =>
    obtain ⟨k', v'⟩ := hd
    by_cases hk : k' = id
    · subst hk; simp [AMap.set, hexPair]
    · have hk2 : ¬ hexId k' = hexId id := fun h => hk (hexId_inj h)
      simp only [List.map_cons, hexPair, AMap.set, hk, hk2, if_false, List.cons.injEq, true_and]
      exact ih

theorem get?_map_hex (m : AMap Id Rec) (id : Id) : AMap.get? (m.map hexPair) (hexId id) = AMap.get? m id := by
  induction m with
  | nil => rfl
  | cons hd t ih =>
    obtain ⟨k', v'⟩ := hd
    by_cases hk : k' = id
    · subst hk; simp [AMap.get?, hexPair]
    · have hk2 : ¬ hexId k' = hexId id := fun h => hk (hexId_inj h)
      simp only [List.map_cons, hexPair, AMap.get?, hk, hk2, if_false]
      exact ih

/-- learning the printed entries of a log = replaying the log and printing the store -/
theorem learn_map_hex (m : AMap Id Rec) (log : List Entry) :
    learn (m.map hexPair) (log.map fun e => (hexId e.id, e.rcd)) = (replayOn m log).map hexPair := by
  induction log generalizing m with
  | nil => rfl
  | cons e t ih =>
    show learn (AMap.set (m.map hexPair) (hexId e.id) e.rcd) _ = (replayOn (AMap.set m e.id e.rcd) t).map hexPair
    rw [set_map_hex, ih]

theorem nodup_keys_map_hex (m : AMap Id Rec) (h : (m.map (·.1)).Nodup) : ((m.map hexPair).map (·.1)).Nodup := by
  have : (m.map hexPair).map (·.1) = (m.map (·.1)).map hexId := by simp [hexPair, Function.comp_def]
  rw [this]
  exact List.Pairwise.map hexId (fun a b hab hh => hab (hexId_inj hh)) h

/-! ### the model never panics -/

theorem modelWord_cases (s : State) (op : Op) :
    (modelWord s op = "ok" ∧ ∃ s', step s op = .ok s') ∨
    (modelWord s op = "rej" ∧ apply s op = s ∧ opEntries s op = []) := by
  cases op with
  | tx b msgs =>
    by_cases h1 : msgs.isEmpty = true
    · right; simp [modelWord, step, apply, opEntries, stepTx, h1]
    · by_cases h2 : (!(msgs.all msgOk)) = true
      · right; simp [modelWord, step, apply, opEntries, stepTx, h1, h2]
      · left; simp [modelWord, step, stepTx, h1, h2]
  | query id => left; simp [modelWord, step]
  | queryAll => left; simp [modelWord, step]
  | nextBlock => left; simp [modelWord, step]

theorem step_never_panics (s : State) (op : Op) : modelWord s op ≠ "panic" := by
  rcases modelWord_cases s op with ⟨h, _⟩ | ⟨h, _⟩ <;> rw [h] <;> decide

/-! ### the invariant between the monitor's memory and the model state -/

/-- what the monitor assumes of the previous observation line: its memory after a history with
    creation log `log` that led the model to state `s` -/
structure MonInv (m : Mon) (s : State) (log : List Entry) : Prop where
  /-- the remembered store size is the size of the store -/
  n_eq : m.n = s.recs.length
  /-- the store is the replay of the creation log on the empty store -/
  recs_eq : s.recs = replayOn [] log
  /-- the known ids are exactly the stored ids as printed, in store order, with their records -/
  known_eq : m.known = s.recs.map hexPair

/-- equivalently: the monitor has learnt exactly the printed entries of the creation log -/
theorem MonInv.known_learn {m : Mon} {s : State} {log : List Entry} (h : MonInv m s log) :
    m.known = learn [] (log.map fun e => (hexId e.id, e.rcd)) := by
  rw [h.known_eq, h.recs_eq]
  exact (learn_map_hex [] log).symm

theorem MonInv.nodup {m : Mon} {s : State} {log : List Entry} (h : MonInv m s log) :
    (s.recs.map (·.1)).Nodup := by
  rw [h.recs_eq]; exact nodup_keys_replay [] log List.nodup_nil

/-- the reset line: the fresh monitor describes the empty model state -/
theorem reset_inv : MonInv (resetMon 0) {} [] := ⟨rfl, rfl, rfl⟩

theorem init_inv : MonInv {} {} [] := ⟨rfl, rfl, rfl⟩

/-! ### the observation of a transaction under a clash-free log -/

theorem noClash_left {l1 l2 : List Entry} (h : NoClash (l1 ++ l2)) : NoClash l1 := by
  unfold NoClash at *; exact (List.pairwise_append.mp h).1

theorem noClash_right {l1 l2 : List Entry} (h : NoClash (l1 ++ l2)) : NoClash l2 := by
  unfold NoClash at *; exact (List.pairwise_append.mp h).2.1

theorem noClash_cross {l1 l2 : List Entry} (h : NoClash (l1 ++ l2)) :
    ∀ a ∈ l1, ∀ b ∈ l2, a.id ≠ b.id := by
  unfold NoClash at h; exact (List.pairwise_append.mp h).2.2

theorem apply_recs_log {m : Mon} {s : State} {log : List Entry} (hi : MonInv m s log) (op : Op) :
    (apply s op).recs = replayOn [] (log ++ opEntries s op) := by
  rw [(apply_recs s op).1, hi.recs_eq, replayOn_append]

/-- the ids a transaction returns read back exactly the records created under them -/
theorem readback_eq {m : Mon} {s : State} {log : List Entry} (hi : MonInv m s log) (op : Op)
    (hn : NoClash (log ++ opEntries s op)) :
    ((opEntries s op).map fun e => (hexId e.id, (getRecord (apply s op) e.id).getD noRec)) =
      (opEntries s op).map fun e => (hexId e.id, e.rcd) := by
  apply List.map_congr_left
  intro e he
  unfold getRecord
  rw [apply_recs_log hi op, get_replay_noClash _ _ hn e (List.mem_append_right _ he)]
  rfl

/-- a created id is not in the store before its creation -/
theorem fresh_before {m : Mon} {s : State} {log : List Entry} (hi : MonInv m s log) (op : Op)
    (hn : NoClash (log ++ opEntries s op)) (e : Entry) (he : e ∈ opEntries s op) :
    AMap.get? s.recs e.id = none := by
  rw [hi.recs_eq, get_replay_notin _ _ _ (fun x hx => noClash_cross hn x hx e he)]
  rfl

theorem pairwiseDistinct_hex (l : List Entry) (hn : NoClash l) :
    pairwiseDistinct (l.map fun e => hexId e.id) = true := by
  induction l with
  | nil => rfl
  | cons x t ih =>
    unfold NoClash at hn
    rw [List.pairwise_cons] at hn
    simp only [List.map_cons, pairwiseDistinct, Bool.and_eq_true, Bool.not_eq_true', ih hn.2, and_true]
    cases hc : (t.map fun e => hexId e.id).contains (hexId x.id) with
    | false => rfl
    | true =>
      rw [List.contains_iff_mem, List.mem_map] at hc
      obtain ⟨y, hy, hxy⟩ := hc
      exact absurd (hexId_inj hxy).symm (hn.1 y hy)

/-! ### soundness -/

/-- the payloads the theorem covers for an operation: the model's own payload, and for the dump
    (which the driver prints sorted) every permutation of it -/
def ObsOf (s : State) (op : Op) (obs : Obs) : Prop :=
  obs = modelObs s op ∨
  (op = .queryAll ∧ ∃ d : AMap String Rec, obs = .dump d ∧ d.Perm ((apply s op).recs.map hexPair))

theorem obsOf_model (s : State) (op : Op) : ObsOf s op (modelObs s op) := Or.inl rfl

theorem dumpOk_perm {m : Mon} {s : State} {log : List Entry} (hi : MonInv m s log) (d : AMap String Rec)
    (hd : d.Perm (s.recs.map hexPair)) : dumpOk m.known d = true := by
  unfold dumpOk
  rw [List.all_eq_true]
  rintro ⟨k, v⟩ hp
  rw [hi.known_eq] at hp
  have hnd : (d.map (·.1)).Nodup := (List.Perm.nodup_iff (hd.map _)).mpr (nodup_keys_map_hex _ hi.nodup)
  rw [get?_of_mem d hnd k v (hd.mem_iff.mpr hp)]
  simp

theorem createOk_model {m : Mon} {s s' : State} {log : List Entry} (hi : MonInv m s log) (b : ByteArray)
    (msgs : List Msg) (hst : stepTx s (txHashOf b) msgs = .ok s')
    (hn : NoClash (log ++ opEntries s (.tx b msgs))) :
    createOk m.known (txHashOf b) msgs
      ((opEntries s (.tx b msgs)).map fun e => (hexId e.id, e.rcd)) = true := by
  have hsz := opEntries_id_size s (.tx b msgs)
  have hfr := fresh_before hi (.tx b msgs) hn
  have hpd := pairwiseDistinct_hex _ (noClash_right hn)
  have hoe : opEntries s (.tx b msgs) = txEntries (txHashOf b) s.counter msgs := by simp [opEntries, hst]
  unfold createOk
  simp only [Bool.and_eq_true, List.length_map, List.map_map, Function.comp_def, beq_iff_eq, List.all_eq_true,
    List.mem_map, Bool.not_eq_true', forall_exists_index, and_imp, forall_apply_eq_imp_iff₂]
  refine ⟨⟨⟨?_, ?_⟩, hpd⟩, ?_⟩
  · rw [hoe, txEntries_length]
  · intro e he
    refine ⟨isHex64_hexId (hsz e he), ?_⟩
    simp only [AMap.contains, hi.known_eq, get?_map_hex, hfr e he]
    rfl
  · rw [hoe]; exact txEntries_rcd _ _ _

/-- **Monitor soundness (C19)**: on every model step from a state the monitor's memory describes,
    if the creation log including this step's creations is clash-free (no counter wrap, no
    SHA-256 collision: `Proofs.Record.wf_noClash`), no clause of `stepFails` fails — whatever the
    order in which the dump is printed. -/
theorem monitor_sound (m : Mon) (s : State) (log : List Entry) (op : Op) (obs : Obs)
    (hi : MonInv m s log) (hn : NoClash (log ++ opEntries s op)) (ho : ObsOf s op obs) :
    stepFails m op (modelWord s op) (apply s op).recs.length obs = [] := by
  have hgrow : ¬ (apply s op).recs.length < m.n := by
    rw [hi.n_eq, (apply_recs s op).1]
    exact Nat.not_lt.mpr (length_replay_ge _ _)
  have hnp : (modelWord s op == "panic") = false := by
    simpa using step_never_panics s op
  unfold stepFails
  simp only [hnp, hgrow, if_false, Bool.false_eq_true, List.nil_append, List.append_nil]
  cases op with
  | tx b msgs =>
    rcases ho with rfl | ⟨hq, _⟩
    · simp only [modelObs]
      rw [readback_eq hi _ hn]
      cases hst : stepTx s (txHashOf b) msgs with
      | ok s' =>
        have hw : modelWord s (.tx b msgs) = "ok" := by simp [modelWord, step, hst]
        simp [hw, createOk_model hi b msgs hst hn]
      | error e =>
        rcases modelWord_cases s (.tx b msgs) with ⟨_, s', h⟩ | ⟨hw, ha, he⟩
        · simp [step, hst] at h
        · have hne : ("rej" == "ok") = false := by decide
          simp [hw, hne, ha, he, hi.n_eq]
    · cases hq
  | query id =>
    have ha : apply s (.query id) = s := by simp [apply, step]
    rcases ho with rfl | ⟨hq, _⟩
    · simp only [modelObs, ha, getRecord]
      have hk : AMap.get? m.known (hexId id) = AMap.get? s.recs id := by rw [hi.known_eq, get?_map_hex]
      cases hg : AMap.get? s.recs id with
      | none => simp [readOk, hk, hg]
      | some r => simp [readOk, hk, hg]
    · cases hq
  | queryAll =>
    have ha : apply s .queryAll = s := by simp [apply, step]
    have hd : ∀ d : AMap String Rec, d.Perm (s.recs.map hexPair) →
        (if (!dumpOk m.known d) = true then ["record-lost-or-altered"] else []) = [] := by
      intro d hd; simp [dumpOk_perm hi d hd]
    rcases ho with rfl | ⟨_, d, rfl, hp⟩
    · simp only [modelObs, ha]; exact hd _ (List.Perm.refl _)
    · rw [ha] at hp; exact hd d hp
  | nextBlock => rfl

/-- soundness on the model's own observation line -/
theorem monitor_sound_model (m : Mon) (s : State) (log : List Entry) (op : Op)
    (hi : MonInv m s log) (hn : NoClash (log ++ opEntries s op)) :
    stepFails m op (modelWord s op) (apply s op).recs.length (modelObs s op) = [] :=
  monitor_sound m s log op _ hi hn (obsOf_model s op)

/-- the invariant is carried to the next line: the advanced memory describes the next model
    state and the extended creation log (the dump's order plays no role in `advance`) -/
theorem line_inv (m : Mon) (s : State) (log : List Entry) (op : Op) (obs : Obs)
    (hi : MonInv m s log) (hn : NoClash (log ++ opEntries s op)) (ho : ObsOf s op obs) :
    MonInv (advance m op (modelWord s op) (apply s op).recs.length obs) (apply s op)
      (log ++ opEntries s op) := by
  refine ⟨rfl, apply_recs_log hi op, ?_⟩
  cases op with
  | tx b msgs =>
    rcases ho with rfl | ⟨hq, _⟩
    · simp only [advance, modelObs]
      rw [readback_eq hi _ hn]
      rcases modelWord_cases s (.tx b msgs) with ⟨hw, _⟩ | ⟨hw, ha, _⟩
      · simp only [hw, beq_self_eq_true, if_true]
        rw [hi.known_eq, learn_map_hex, (apply_recs s _).1]
      · have hne : ("rej" == "ok") = false := by decide
        simp only [hw, hne, Bool.false_eq_true, if_false, ha]
        exact hi.known_eq
    · cases hq
  | query id =>
    have ha : apply s (.query id) = s := by simp [apply, step]
    rw [ha]
    rcases ho with rfl | ⟨hq, _⟩
    · exact hi.known_eq
    · cases hq
  | queryAll =>
    have ha : apply s .queryAll = s := by simp [apply, step]
    rw [ha]
    rcases ho with rfl | ⟨_, d, rfl, _⟩ <;> exact hi.known_eq
  | nextBlock =>
    have ha : apply s .nextBlock = s := by simp [apply, step]
    rw [ha]
    rcases ho with rfl | ⟨hq, _⟩
    · exact hi.known_eq
    · cases hq

/-! ### whole histories -/

/-- the monitor run on the model's own observation stream: every line passes -/
def monRun (m : Mon) (s : State) : List Op → Bool
  | [] => true
  | op :: t =>
    (stepFails m op (modelWord s op) (apply s op).recs.length (modelObs s op)).isEmpty &&
    monRun (advance m op (modelWord s op) (apply s op).recs.length (modelObs s op)) (apply s op) t

theorem monRun_of_noClash (m : Mon) (s : State) (log : List Entry) (ops : List Op) (hi : MonInv m s log)
    (hn : NoClash (log ++ runLog s ops)) : monRun m s ops = true := by
  induction ops generalizing m s log with
  | nil => rfl
  | cons op t ih =>
    have hn' : NoClash ((log ++ opEntries s op) ++ runLog (apply s op) t) := by
      simpa [runLog, List.append_assoc] using hn
    have hn1 := noClash_left hn'
    simp only [monRun, monitor_sound_model m s log op hi hn1, List.isEmpty_nil, Bool.true_and]
    exact ih _ _ _ (line_inv m s log op _ hi hn1 (obsOf_model s op)) hn'

/-- **Monitor soundness along every history from genesis**: with at most 2^32 creations the
    monitor passes every line of the model's observation stream, or a SHA-256 collision is
    exhibited -/
theorem monitor_sound_run (ops : List Op) (hlen : (runLog {} ops).length ≤ 2^32) :
    monRun {} {} ops = true ∨ Collision := by
  rcases wf_noClash (run_log {} ops).2 hlen with hn | hc
  · exact Or.inl (monRun_of_noClash {} {} [] ops init_inv (by simpa using hn))
  · exact Or.inr hc

end Irismod.Proofs.RecordMonitor
