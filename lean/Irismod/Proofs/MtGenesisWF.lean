/-
C12 (MT): the reachable-shape predicate `WF` holds initially and is preserved by every
accepted `Mt.step` whose generated id is fresh.
-/
import Irismod.Spec.C12
import Irismod.Proofs.Mt
import Irismod.Proofs.GenesisList

namespace Irismod.Proofs.MtGenesisWF
open Irismod Irismod.Mt Irismod.MtGenesis Irismod.Spec.C12.Mt Irismod.Proofs.GenesisList Irismod.Proofs.Mt

theorem wf_init : WF ({} : State) where
  nd_denoms := by simp [AMap.keys]
  nd_mts := by simp [AMap.keys]
  nd_bal := by simp [AMap.keys]
  mts_denom := by intro d m h; simp [AMap.keys] at h
  bal_mt := by intro a d m h; simp [AMap.keys] at h
  mt_bal := by intro d m h; simp [AMap.keys] at h
  sup_mt := by intro k; simp [AMap.keys]
  dsup := by intro d; simp [cnt, AMap.keys]
  denomSeq := rfl
  mtSeq := rfl

theorem ofNat_succ (n : Nat) : UInt64.ofNat (n + 1) = UInt64.ofNat n + 1 := by
  rw [UInt64.ofNat_add]; rfl

/-- writing a balance entry of a recorded token -/
theorem wf_setBal {s : State} (h : WF s) (a d m) (v : UInt64) (hm : (d, m) ∈ AMap.keys s.mts) :
    WF { s with bal := AMap.set s.bal (a, d, m) v } where
  nd_denoms := h.nd_denoms
  nd_mts := h.nd_mts
  nd_bal := nodupKeys_set h.nd_bal _ _
  mts_denom := h.mts_denom
  bal_mt := by
    intro a' d' m' hk
    rcases (mem_keys_set _ _ _ _).mp hk with e | hk
    · cases e; exact hm
    · exact h.bal_mt a' d' m' hk
  mt_bal := by
    intro d' m' hk
    obtain ⟨a', ha⟩ := h.mt_bal d' m' hk
    exact ⟨a', (mem_keys_set _ _ _ _).mpr (Or.inr ha)⟩
  sup_mt := h.sup_mt
  dsup := h.dsup
  denomSeq := h.denomSeq
  mtSeq := h.mtSeq

/-- writing the supply entry of a recorded token -/
theorem wf_setSupply {s : State} (h : WF s) (d m) (v : UInt64) (hm : (d, m) ∈ AMap.keys s.mts) :
    WF { s with supply := AMap.set s.supply (d, m) v } where
  nd_denoms := h.nd_denoms
  nd_mts := h.nd_mts
  nd_bal := h.nd_bal
  mts_denom := h.mts_denom
  bal_mt := h.bal_mt
  mt_bal := h.mt_bal
  sup_mt := by
    intro k
    show k ∈ AMap.keys (AMap.set s.supply (d, m) v) ↔ k ∈ AMap.keys s.mts
    rw [mem_keys_set]
    constructor
    · rintro (e | hk)
      · subst e; exact hm
      · exact (h.sup_mt k).mp hk
    · intro hk; exact Or.inr ((h.sup_mt k).mpr hk)
  dsup := h.dsup
  denomSeq := h.denomSeq
  mtSeq := h.mtSeq

/-- rewriting the metadata of a recorded token -/
theorem wf_setMt {s : State} (h : WF s) (k) (v : String) (hm : k ∈ AMap.keys s.mts) :
    WF { s with mts := AMap.set s.mts k v } := by
  have hk : AMap.keys (AMap.set s.mts k v) = AMap.keys s.mts := keys_set_of_mem _ _ _ hm
  have hl : (AMap.set s.mts k v).length = s.mts.length := length_set_of_mem _ _ _ hm
  exact {
    nd_denoms := h.nd_denoms
    nd_mts := by show (AMap.keys (AMap.set s.mts k v)).Nodup; rw [hk]; exact h.nd_mts
    nd_bal := h.nd_bal
    mts_denom := by
      intro d m hx
      have hx : (d, m) ∈ AMap.keys (AMap.set s.mts k v) := hx
      rw [hk] at hx; exact h.mts_denom d m hx
    bal_mt := by
      intro a d m hx
      show (d, m) ∈ AMap.keys (AMap.set s.mts k v)
      rw [hk]; exact h.bal_mt a d m hx
    mt_bal := by
      intro d m hx
      have hx : (d, m) ∈ AMap.keys (AMap.set s.mts k v) := hx
      rw [hk] at hx; exact h.mt_bal d m hx
    sup_mt := by
      intro x
      show x ∈ AMap.keys s.supply ↔ x ∈ AMap.keys (AMap.set s.mts k v)
      rw [hk]; exact h.sup_mt x
    dsup := by
      intro d
      show AMap.get? s.denomSupply d = if ((AMap.keys (AMap.set s.mts k v)).filter (fun k => k.1 = d)).length = 0 then none
        else some (UInt64.ofNat ((AMap.keys (AMap.set s.mts k v)).filter (fun k => k.1 = d)).length)
      rw [hk]; exact h.dsup d
    denomSeq := h.denomSeq
    mtSeq := by
      show s.mtSeq = UInt64.ofNat ((AMap.set s.mts k v).length + 1)
      rw [hl]; exact h.mtSeq }

/-- rewriting a recorded class -/
theorem wf_setDenom {s : State} (h : WF s) (k) (v : DenomRec) (hm : k ∈ AMap.keys s.denoms) :
    WF { s with denoms := AMap.set s.denoms k v } := by
  have hk : AMap.keys (AMap.set s.denoms k v) = AMap.keys s.denoms := keys_set_of_mem _ _ _ hm
  have hl : (AMap.set s.denoms k v).length = s.denoms.length := length_set_of_mem _ _ _ hm
  exact {
    nd_denoms := by show (AMap.keys (AMap.set s.denoms k v)).Nodup; rw [hk]; exact h.nd_denoms
    nd_mts := h.nd_mts
    nd_bal := h.nd_bal
    mts_denom := by
      intro d m hx
      show d ∈ AMap.keys (AMap.set s.denoms k v)
      rw [hk]; exact h.mts_denom d m hx
    bal_mt := h.bal_mt
    mt_bal := h.mt_bal
    sup_mt := h.sup_mt
    dsup := h.dsup
    denomSeq := by
      show s.denomSeq = UInt64.ofNat ((AMap.set s.denoms k v).length + 1)
      rw [hl]; exact h.denomSeq
    mtSeq := h.mtSeq }

/-- recording a new class under a fresh id -/
theorem wf_issue {s : State} (h : WF s) (id) (v : DenomRec) (hf : id ∉ AMap.keys s.denoms) :
    WF { s with denomSeq := s.denomSeq + 1, denoms := AMap.set s.denoms id v } where
  nd_denoms := nodupKeys_set h.nd_denoms _ _
  nd_mts := h.nd_mts
  nd_bal := h.nd_bal
  mts_denom := by
    intro d m hx
    exact (mem_keys_set _ _ _ _).mpr (Or.inr (h.mts_denom d m hx))
  bal_mt := h.bal_mt
  mt_bal := h.mt_bal
  sup_mt := h.sup_mt
  dsup := h.dsup
  denomSeq := by
    show s.denomSeq + 1 = UInt64.ofNat ((AMap.set s.denoms id v).length + 1)
    rw [length_set_of_not_mem _ _ _ hf, ofNat_succ, h.denomSeq]
  mtSeq := h.mtSeq

theorem cnt_new_self (ks : List (DenomId × MtId)) (d : DenomId) (m : MtId) :
    ((ks ++ [(d, m)]).filter (fun k => k.1 = d)).length = (ks.filter (fun k => k.1 = d)).length + 1 := by
  simp [List.filter_append]

theorem cnt_new_other (ks : List (DenomId × MtId)) (d d' : DenomId) (m : MtId) (hne : d ≠ d') :
    ((ks ++ [(d, m)]).filter (fun k => k.1 = d')).length = (ks.filter (fun k => k.1 = d')).length := by
  simp [List.filter_append, hne]

/-- recording a new token under a fresh id, with its supply entry and first balance entry -/
theorem wf_newToken {s : State} (h : WF s) (d nid rcpt data) (v1 v2 : UInt64)
    (hd : d ∈ AMap.keys s.denoms) (hf : (d, nid) ∉ AMap.keys s.mts) :
    WF { s with mtSeq := s.mtSeq + 1,
                mts := AMap.set s.mts (d, nid) data,
                denomSupply := AMap.set s.denomSupply d (AMap.getD s.denomSupply d 0 + 1),
                supply := AMap.set s.supply (d, nid) v1,
                bal := AMap.set s.bal (rcpt, d, nid) v2 } := by
  have hk : AMap.keys (AMap.set s.mts (d, nid) data) = AMap.keys s.mts ++ [(d, nid)] :=
    keys_set_of_not_mem _ _ _ hf
  exact {
    nd_denoms := h.nd_denoms
    nd_mts := nodupKeys_set h.nd_mts _ _
    nd_bal := nodupKeys_set h.nd_bal _ _
    mts_denom := by
      intro d' m' hx
      rcases (mem_keys_set _ _ _ _).mp hx with e | hx
      · cases e; exact hd
      · exact h.mts_denom d' m' hx
    bal_mt := by
      intro a' d' m' hx
      apply (mem_keys_set _ _ _ _).mpr
      rcases (mem_keys_set _ _ _ _).mp hx with e | hx
      · cases e; exact Or.inl rfl
      · exact Or.inr (h.bal_mt a' d' m' hx)
    mt_bal := by
      intro d' m' hx
      rcases (mem_keys_set _ _ _ _).mp hx with e | hx
      · cases e; exact ⟨rcpt, (mem_keys_set _ _ _ _).mpr (Or.inl rfl)⟩
      · obtain ⟨a', ha⟩ := h.mt_bal d' m' hx
        exact ⟨a', (mem_keys_set _ _ _ _).mpr (Or.inr ha)⟩
    sup_mt := by
      intro k
      show k ∈ AMap.keys (AMap.set s.supply (d, nid) v1) ↔ k ∈ AMap.keys (AMap.set s.mts (d, nid) data)
      rw [mem_keys_set, mem_keys_set, h.sup_mt k]
    dsup := by
      intro d'
      show AMap.get? (AMap.set s.denomSupply d (AMap.getD s.denomSupply d 0 + 1)) d' =
        if ((AMap.keys (AMap.set s.mts (d, nid) data)).filter (fun k => k.1 = d')).length = 0 then none
        else some (UInt64.ofNat ((AMap.keys (AMap.set s.mts (d, nid) data)).filter (fun k => k.1 = d')).length)
      rw [hk]
      by_cases hdd : d = d'
      · subst hdd
        rw [AMap.get?_set_self, cnt_new_self]
        have h0 := h.dsup d
        unfold cnt at h0
        have hg : AMap.getD s.denomSupply d 0 = UInt64.ofNat ((AMap.keys s.mts).filter (fun k => k.1 = d)).length := by
          unfold AMap.getD
          rw [h0]
          by_cases hz : ((AMap.keys s.mts).filter (fun k => k.1 = d)).length = 0
          · rw [hz]; rfl
          · simp [hz]
        rw [hg, ← ofNat_succ]
        simp
      · rw [AMap.get?_set_other _ _ _ _ hdd, cnt_new_other _ _ _ _ hdd]
        exact h.dsup d'
    denomSeq := h.denomSeq
    mtSeq := by
      show s.mtSeq + 1 = UInt64.ofNat ((AMap.set s.mts (d, nid) data).length + 1)
      rw [length_set_of_not_mem _ _ _ hf, ofNat_succ, h.mtSeq] }

theorem mem_keys_of_contains {K V : Type} [DecidableEq K] {m : AMap K V} {k : K}
    (h : ¬ (!(AMap.contains m k)) = true) : k ∈ AMap.keys m := by
  rw [mem_keys_iff]
  unfold AMap.contains at h
  cases hg : AMap.get? m k with
  | none => simp [hg] at h
  | some v => exact ⟨v, rfl⟩

theorem mem_keys_of_authorize {s : State} {d who} {u : Unit} (h : authorize s d who = .ok u) :
    d ∈ AMap.keys s.denoms := by
  rw [mem_keys_iff]
  unfold authorize at h
  cases hd : AMap.get? s.denoms d with
  | none => simp [hd] at h
  | some r => exact ⟨r, rfl⟩

/-- a holder of a positive amount has a balance entry -/
theorem mem_keys_of_bal {s : State} {a d m} {n : UInt64} (hn : ¬ n = 0) (hg : ¬ balOf s a d m < n) :
    (a, d, m) ∈ AMap.keys s.bal := by
  rw [mem_keys_iff]
  cases hb : AMap.get? s.bal (a, d, m) with
  | some v => exact ⟨v, rfl⟩
  | none =>
    exfalso
    have h0 : balOf s a d m = 0 := by simp [balOf, AMap.getD, hb]
    rw [h0, UInt64.lt_iff_toNat_lt] at hg
    have : n.toNat ≠ 0 := fun e => hn (UInt64.toNat_inj.mp (by simpa using e))
    have : (0 : UInt64).toNat = 0 := rfl
    omega

/-- **WF is inductive**: an accepted step whose generated id is fresh preserves it -/
theorem wf_step (s s' : State) (op : Op) (hw : WF s) (hf : IdFresh s op) (h : step s op = .ok s') : WF s' := by
  cases op with
  | issueDenom sender name data =>
    simp only [step, stepIssueDenom] at h
    split at h
    · cases h
    · cases h; exact wf_issue hw _ _ hf
  | mint sender d id recipient n data =>
    simp only [step, stepMint] at h
    split at h; · cases h
    split at h; · cases h
    split at h; · cases h
    split at h; · cases h
    rename_i u ha
    split at h
    · unfold mintExisting at h
      split at h; · cases h
      rename_i hc
      split at h; · cases h
      rename_i s1 h1
      have hm := mem_keys_of_contains hc
      obtain ⟨_, rfl⟩ := increaseSupply_ok h1
      obtain ⟨_, rfl⟩ := addBalance_ok h
      exact wf_setBal (wf_setSupply hw d id _ hm) _ d id _ hm
    · rename_i hid
      have hid : id = "" := Classical.not_not.mp hid
      unfold mintNew at h
      split at h; · cases h
      rename_i s1 h1
      obtain ⟨_, rfl⟩ := increaseSupply_ok h1
      obtain ⟨_, rfl⟩ := addBalance_ok h
      exact wf_newToken hw d _ _ data _ _ (mem_keys_of_authorize ha) (hf hid)
  | edit sender d id data =>
    simp only [step, stepEdit] at h
    split at h; · cases h
    split at h; · cases h
    split at h; · cases h
    split at h; · cases h
    rename_i hc
    split at h
    · cases h; exact wf_setMt hw _ _ (mem_keys_of_contains hc)
    · cases h; exact hw
  | transfer sender recipient d id n =>
    simp only [step, stepTransfer] at h
    split at h; · cases h
    split at h; · cases h
    split at h; · cases h
    rename_i hn
    split at h; · cases h
    rename_i hg
    obtain ⟨_, rfl⟩ := addBalance_ok h
    have hm := hw.bal_mt _ _ _ (mem_keys_of_bal hn hg)
    exact wf_setBal (s := subBalance s sender d id n) (wf_setBal hw sender d id _ hm) recipient d id _ hm
  | burn sender d id n =>
    simp only [step, stepBurn] at h
    split at h; · cases h
    split at h; · cases h
    split at h; · cases h
    rename_i hn
    split at h; · cases h
    rename_i hg
    cases h
    have hm := hw.bal_mt _ _ _ (mem_keys_of_bal hn hg)
    exact wf_setSupply (s := subBalance s sender d id n) (wf_setBal hw sender d id _ hm) d id _ hm
  | transferDenom sender recipient id =>
    simp only [step, stepTransferDenom] at h
    split at h; · cases h
    split at h; · cases h
    rename_i u ha
    split at h
    · cases h
    · cases h; exact wf_setDenom hw _ _ (mem_keys_of_authorize ha)

theorem wf_apply (s : State) (op : Op) (hw : WF s) (hf : IdFresh s op) : WF (apply s op) := by
  unfold apply
  cases h : step s op with
  | ok s' => exact wf_step s s' op hw hf h
  | error e => exact hw

theorem wf_run (s : State) (ops : List Op) (hw : WF s) (hf : FreshRun s ops) : WF (run s ops) := by
  induction ops generalizing s with
  | nil => exact hw
  | cons op rest ih => exact ih (apply s op) (wf_apply s op hw hf.1) hf.2

end Irismod.Proofs.MtGenesisWF
