/-
Helper lemmas for C16: exact 18-decimal arithmetic facts used by the no-abort theorems.
-/
import Irismod.Model.Params
import Mathlib.Tactic.Ring
import Mathlib.Tactic.Linarith
import Mathlib.Tactic.Positivity

namespace Irismod.Params
open Irismod.Sdk

theorem chopRoundNat_mul (n : Nat) : chopRoundNat (n * 1000000000000000000) = n := by
  have h1 : n * 1000000000000000000 % 1000000000000000000 = 0 := Nat.mul_mod_left _ _
  have h2 : n * 1000000000000000000 / 1000000000000000000 = n :=
    Nat.mul_div_cancel _ (by norm_num)
  simp [chopRoundNat, h1, h2]

theorem chopRoundNat_bounds (d : Nat) :
    d / 1000000000000000000 ≤ chopRoundNat d ∧ chopRoundNat d ≤ d / 1000000000000000000 + 1 := by
  simp only [chopRoundNat]
  split_ifs <;> omega

theorem chopRound_mul_precision (x : Int) (hx : 0 ≤ x) : chopRound (x * precision) = x := by
  unfold chopRound precision
  have hn : ¬ (x * 1000000000000000000 < 0) := by omega
  rw [if_neg hn]
  have : (x * 1000000000000000000).natAbs = x.natAbs * 1000000000000000000 := by
    rw [Int.natAbs_mul]; rfl
  rw [this, chopRoundNat_mul]
  omega

theorem chopRound_nonneg (d : Int) (hd : 0 ≤ d) : 0 ≤ chopRound d := by
  unfold chopRound
  rw [if_neg (by omega)]
  exact Int.natCast_nonneg _

theorem chopRound_le (d : Int) (hd : 0 ≤ d) : chopRound d ≤ d / 1000000000000000000 + 1 := by
  unfold chopRound
  rw [if_neg (by omega)]
  have h := (chopRoundNat_bounds d.natAbs).2
  have : (d.natAbs : Int) = d := Int.natAbs_of_nonneg hd
  omega

theorem chopTrunc_nonneg (d : Int) (hd : 0 ≤ d) : 0 ≤ chopTrunc d ∧ chopTrunc d ≤ d / 1000000000000000000 := by
  unfold chopTrunc precision
  rw [Int.tdiv_eq_ediv_of_nonneg hd]
  constructor
  · omega
  · omega

theorem chkDec_of_bound (x : Int) (h0 : 0 ≤ x) (h1 : x < (pow2_315 : Int)) : chkDec x = some x := by
  unfold chkDec inDec
  have : x.natAbs < pow2_315 := by omega
  simp [this]

theorem chkInt_of_bound (x : Int) (h0 : 0 ≤ x) (h1 : x < (pow2_256 : Int)) : chkInt x = some x := by
  unfold chkInt inInt256
  have : x.natAbs < pow2_256 := by omega
  simp [this]

/-- 2^255 as an integer: amounts below it survive the 18-decimal scaling of `LegacyNewDecFromInt` -/
def pow2_255 : Int := 57896044618658097711785492504343953926634992332820282019728792003956564819968

/-- `LegacyNewDecFromInt(amount).Mul(rate).TruncateInt()` for `0 ≤ rate ≤ 1`, `0 ≤ amount < 2^255`:
    no abort, and the result lies in `[0, amount]` -/
theorem mulRateTrunc (amount : Int) (r : Dec) (h0 : 0 ≤ amount) (hb : amount < pow2_255)
    (hr0 : 0 ≤ r.raw) (hr1 : r.raw ≤ precision) :
    ∃ t, (Dec.ofInt amount).mul r = some t ∧ ∃ tax, t.truncateInt = some tax ∧ 0 ≤ tax ∧ tax ≤ amount := by
  have hm0 : 0 ≤ amount * r.raw := Int.mul_nonneg h0 hr0
  have hm1 : amount * r.raw ≤ amount * 1000000000000000000 := by
    have := Int.mul_le_mul_of_nonneg_left hr1 h0
    simpa [precision] using this
  have hcr : chopRound (amount * precision * r.raw) = amount * r.raw := by
    have : amount * precision * r.raw = (amount * r.raw) * precision := by ring
    rw [this, chopRound_mul_precision _ hm0]
  have hdec : chkDec (amount * r.raw) = some (amount * r.raw) := by
    apply chkDec_of_bound _ hm0
    unfold pow2_255 at hb; unfold pow2_315; omega
  refine ⟨⟨amount * r.raw⟩, ?_, ?_⟩
  · simp [Dec.mul, Dec.ofInt, hcr, hdec]
  · have ht := chopTrunc_nonneg (amount * r.raw) hm0
    refine ⟨chopTrunc (amount * r.raw), ?_, ht.1, ?_⟩
    · simp only [Dec.truncateInt]
      apply chkInt_of_bound _ ht.1
      unfold pow2_255 at hb; unfold pow2_256; omega
    · omega

theorem feeSplit_ok (denom : String) (amount : Int) (r : Dec)
    (hd : validDenom denom = true) (h0 : 0 ≤ amount) (hb : amount < pow2_255)
    (hr0 : 0 ≤ r.raw) (hr1 : r.raw ≤ precision) :
    ∃ tax burned, feeSplit denom amount (some r) = .ok (tax, burned) ∧ tax + burned = amount ∧
      0 ≤ tax ∧ 0 ≤ burned := by
  obtain ⟨t, ht, tax, htax, htax0, htax1⟩ := mulRateTrunc amount r h0 hb hr0 hr1
  have hsub : I256.sub amount tax = some (amount - tax) := by
    unfold I256.sub
    apply chkInt_of_bound _ (by omega)
    unfold pow2_255 at hb; unfold pow2_256; omega
  refine ⟨tax, amount - tax, ?_, by omega, htax0, by omega⟩
  have h1 : ¬ (tax < 0) := by omega
  have h2 : ¬ (amount - tax < 0) := by omega
  simp [feeSplit, ht, htax, hd, hsub, h1, h2]

theorem chkDec_some {x : Int} {y : Int} (h : chkDec x = some y) : y = x := by
  unfold chkDec at h; split at h <;> simp_all

theorem chkInt_some {x : Int} {y : Int} (h : chkInt x = some y) : y = x := by
  unfold chkInt at h; split at h <;> simp_all

/-- whenever `LegacyNewDecFromInt(amount).Mul(rate).TruncateInt()` returns (no overflow), the
    result lies in `[0, amount]`, for every non-negative amount and `0 ≤ rate ≤ 1` -/
theorem mulRateTrunc_range (amount : Int) (r t : Dec) (tax : Int) (h0 : 0 ≤ amount)
    (hr0 : 0 ≤ r.raw) (hr1 : r.raw ≤ precision)
    (hm : (Dec.ofInt amount).mul r = some t) (ht : t.truncateInt = some tax) :
    0 ≤ tax ∧ tax ≤ amount := by
  have hm0 : 0 ≤ amount * r.raw := Int.mul_nonneg h0 hr0
  have hm1 : amount * r.raw ≤ amount * 1000000000000000000 := by
    have := Int.mul_le_mul_of_nonneg_left hr1 h0
    simpa [precision] using this
  have hcr : chopRound (amount * precision * r.raw) = amount * r.raw := by
    have : amount * precision * r.raw = (amount * r.raw) * precision := by ring
    rw [this, chopRound_mul_precision _ hm0]
  have hraw : t.raw = amount * r.raw := by
    simp only [Dec.mul, Dec.ofInt, hcr, Option.map_eq_some_iff] at hm
    obtain ⟨x, hx, rfl⟩ := hm
    exact chkDec_some hx
  have htax : tax = chopTrunc (amount * r.raw) := by
    simp only [Dec.truncateInt, hraw] at ht
    exact chkInt_some ht
  have hb := chopTrunc_nonneg (amount * r.raw) hm0
  omega

theorem feeSplit_only_overflow (denom : String) (amount : Int) (r : Dec)
    (hd : validDenom denom = true) (h0 : 0 ≤ amount) (hr0 : 0 ≤ r.raw) (hr1 : r.raw ≤ precision) :
    ∀ k, feeSplit denom amount (some r) = .error (.panic k) → k = .overflow := by
  intro k h
  simp only [feeSplit] at h
  cases hm : (Dec.ofInt amount).mul r with
  | none => simp [hm] at h; exact h.symm
  | some t =>
    cases ht : t.truncateInt with
    | none => simp [hm, ht] at h; exact h.symm
    | some tax =>
      have hr := mulRateTrunc_range amount r t tax h0 hr0 hr1 hm ht
      have h1 : ¬ (tax < 0) := by omega
      simp only [hm, ht, hd, Bool.not_true, Bool.false_eq_true, if_false, h1] at h
      cases hs : I256.sub amount tax with
      | none => simp [hs] at h; exact h.symm
      | some b =>
        have hb : b = amount - tax := chkInt_some hs
        have h2 : ¬ (b < 0) := by omega
        simp [hs, h2] at h

/-! ## inversion of the validation functions -/

theorem decOpenOpen_ok {d : Option Dec} (h : decOpenOpen d = .ok ()) :
    ∃ x, d = some x ∧ 0 < x.raw ∧ x.raw < precision := by
  unfold decOpenOpen at h
  split at h
  · simp at h
  · rename_i x; split at h
    · rename_i hx; exact ⟨x, rfl, hx.1, hx.2⟩
    · simp at h

theorem decClosedOpen_ok {d : Option Dec} (h : decClosedOpen d = .ok ()) :
    ∃ x, d = some x ∧ 0 ≤ x.raw ∧ x.raw < precision := by
  unfold decClosedOpen at h
  split at h
  · simp at h
  · rename_i x; split at h
    · rename_i hx; exact ⟨x, rfl, hx.1, hx.2⟩
    · simp at h

theorem decClosedClosed_ok {d : Option Dec} (h : decClosedClosed d = .ok ()) :
    ∃ x, d = some x ∧ 0 ≤ x.raw ∧ x.raw ≤ precision := by
  unfold decClosedClosed at h
  split at h
  · simp at h
  · rename_i x; split at h
    · rename_i hx; exact ⟨x, rfl, hx.1, hx.2⟩
    · simp at h

theorem coinPositive_ok {c : Coin} (h : coinPositive c = .ok ()) : ∃ a, c.amount = some a ∧ 0 < a := by
  unfold coinPositive at h
  split at h
  · simp at h
  · rename_i a ha; split at h
    · rename_i hp; exact ⟨a, ha, hp⟩
    · simp at h

theorem coinswapValidate_ok {p : CoinswapParams} (h : coinswapValidate p = .ok ()) :
    (∃ fee, p.fee = some fee ∧ 0 < fee.raw ∧ fee.raw < precision) ∧
    (∃ a, p.poolCreationFee.amount = some a ∧ 0 < a) ∧
    (∃ tax, p.taxRate = some tax ∧ 0 < tax.raw ∧ tax.raw < precision) ∧
    (∃ u, p.unilateralLiquidityFee = some u ∧ 0 ≤ u.raw ∧ u.raw < precision) := by
  unfold coinswapValidate at h
  split at h
  · simp at h
  · rename_i h1; split at h
    · simp at h
    · rename_i h2; split at h
      · simp at h
      · rename_i h3
        exact ⟨decOpenOpen_ok h1, coinPositive_ok h2, decOpenOpen_ok h3, decClosedOpen_ok h⟩

theorem coinIsValid_ok {c : Coin} (h : coinIsValid c = true) :
    validDenom c.denom = true ∧ ∃ a, c.amount = some a ∧ 0 ≤ a := by
  unfold coinIsValid at h
  rw [Bool.and_eq_true] at h
  refine ⟨h.1, ?_⟩
  cases ha : c.amount with
  | none => simp [ha] at h
  | some a => simp [ha] at h; exact ⟨a, rfl, h.2⟩

theorem farmValidateWith_fee {c g : Bool} {p : FarmParams} (h : farmValidateWith c g p = .ok ()) :
    coinIsValid p.poolCreationFee = true := by
  unfold farmValidateWith at h
  split at h
  · assumption
  · simp at h

theorem farmValidateWith_true_ok {g : Bool} {p : FarmParams} (h : farmValidateWith true g p = .ok ()) :
    coinIsValid p.poolCreationFee = true ∧ ∃ x, p.taxRate = some x ∧ 0 < x.raw ∧ x.raw < precision := by
  refine ⟨farmValidateWith_fee h, ?_⟩
  unfold farmValidateWith at h
  split at h
  · simp only [if_true] at h
    unfold farmTaxRateCheck at h
    split at h
    · split at h <;> simp at h
    · rename_i x hx0; split at h
      · rename_i hx; exact ⟨x, hx0, hx.1, hx.2⟩
      · simp at h
  · simp at h

/-- the store normalisation (unset decimal written as 0) never invalidates a validated set -/
theorem farmValidateWith_norm {c g : Bool} {p : FarmParams} (h : farmValidateWith c g p = .ok ()) :
    farmValidateWith c g (farmNorm p) = .ok () := by
  cases c with
  | false =>
    have hf := farmValidateWith_fee h
    simp [farmValidateWith, farmNorm, hf]
  | true =>
    obtain ⟨_, x, hx, _, _⟩ := farmValidateWith_true_ok h
    have : farmNorm p = p := by
      cases p; simp only [farmNorm] at *; simp_all
    rw [this]; exact h

theorem serviceValidate_ok {p : ServiceParams} (h : serviceValidate p = .ok ()) :
    0 < p.maxRequestTimeout ∧ 0 < p.minDepositMultiple ∧ coinsValidate p.minDeposit = .ok () ∧
    (∃ s, p.slashFraction = some s ∧ 0 ≤ s.raw ∧ s.raw ≤ precision) ∧
    (∃ t, p.serviceFeeTax = some t ∧ 0 ≤ t.raw ∧ t.raw < precision) ∧
    0 < p.complaintRetrospect ∧ 0 < p.arbitrationTimeLimit ∧ 0 < p.txSizeLimit ∧
    validDenom p.baseDenom = true := by
  unfold serviceValidate at h
  split at h
  · simp at h
  · rename_i h1; split at h
    · simp at h
    · rename_i h2; split at h
      · simp at h
      · rename_i h3; split at h
        · simp at h
        · rename_i h4; split at h
          · simp at h
          · rename_i h5; split at h
            · simp at h
            · rename_i h6; split at h
              · simp at h
              · rename_i h7; split at h
                · simp at h
                · rename_i h8; split at h
                  · simp at h
                  · rename_i h9
                    refine ⟨by omega, by omega, ?_, decClosedClosed_ok h4, decClosedOpen_ok h5, by omega, by omega, by omega, ?_⟩
                    · cases h3' : coinsValidate p.minDeposit with
                      | ok u => rfl
                      | error e => rw [h3'] at h3; cases h3
                    · simpa using h9

theorem intIsNegative_ok {i : Option Int} {b : Bool} (h : intIsNegative i = .ok b) :
    ∃ a, i = some a ∧ b = decide (a < 0) := by
  unfold intIsNegative at h
  split at h
  · simp at h
  · rename_i a; simp at h; exact ⟨a, rfl, h.symm⟩

theorem tokenValidate_ok {p : TokenParams} (h : tokenValidate p = .ok ()) :
    (∃ t, p.tokenTaxRate = some t ∧ 0 ≤ t.raw ∧ t.raw ≤ precision) ∧
    (∃ r, p.mintTokenFeeRatio = some r ∧ 0 ≤ r.raw ∧ r.raw ≤ precision) ∧
    (∃ a, p.issueTokenBaseFee.amount = some a ∧ 0 ≤ a) := by
  unfold tokenValidate at h
  split at h
  · simp at h
  · rename_i h1; split at h
    · simp at h
    · rename_i h2; split at h
      · simp at h
      · rename_i neg h3
        obtain ⟨a, ha, hneg⟩ := intIsNegative_ok h3
        refine ⟨decClosedClosed_ok h1, decClosedClosed_ok h2, a, ha, ?_⟩
        split at h
        · simp at h
        · rename_i hn; subst hneg; simpa using hn

/-- what a validated HTLC asset satisfies -/
structure AssetOk (a : AssetParam) : Prop where
  denom : htltDenomOk a.denom = true
  deputy : validAddr a.deputy = true
  lim : ∃ lim tbl, a.supplyLimit.limit = some lim ∧ a.supplyLimit.timeBasedLimit = some tbl ∧
          0 ≤ tbl ∧ tbl ≤ lim
  fee : ∃ f, a.fixedFee = some f ∧ 0 ≤ f
  lock : minTimeLock ≤ a.minBlockLock ∧ a.minBlockLock ≤ a.maxBlockLock ∧ a.maxBlockLock ≤ maxTimeLock
  swap : ∃ mn mx, a.minSwapAmount = some mn ∧ a.maxSwapAmount = some mx ∧ 0 < mn ∧ mn ≤ mx

theorem assetLimits_ok {a : AssetParam} (h : assetLimits a = .ok ()) :
    ∃ lim tbl, a.supplyLimit.limit = some lim ∧ a.supplyLimit.timeBasedLimit = some tbl ∧
      0 ≤ tbl ∧ tbl ≤ lim := by
  unfold assetLimits at h
  split at h
  · cases h
  · rename_i lim hlim; split at h
    · cases h
    · split at h
      · cases h
      · rename_i tbl htbl; split at h
        · cases h
        · split at h
          · cases h
          · exact ⟨lim, tbl, hlim, htbl, by omega, by omega⟩

theorem assetFee_ok {a : AssetParam} (h : assetFee a = .ok ()) : ∃ f, a.fixedFee = some f ∧ 0 ≤ f := by
  unfold assetFee at h
  split at h
  · cases h
  · rename_i f hf; split at h
    · cases h
    · exact ⟨f, hf, by omega⟩

theorem assetLocks_ok {a : AssetParam} (h : assetLocks a = .ok ()) :
    minTimeLock ≤ a.minBlockLock ∧ a.minBlockLock ≤ a.maxBlockLock ∧ a.maxBlockLock ≤ maxTimeLock := by
  unfold assetLocks at h
  split at h
  · cases h
  · split at h
    · cases h
    · split at h
      · cases h
      · omega

theorem assetSwap_ok {a : AssetParam} (h : assetSwap a = .ok ()) :
    ∃ mn mx, a.minSwapAmount = some mn ∧ a.maxSwapAmount = some mx ∧ 0 < mn ∧ mn ≤ mx := by
  unfold assetSwap at h
  split at h
  · cases h
  · rename_i mn hmn; split at h
    · cases h
    · rename_i h0; split at h
      · cases h
      · rename_i mx hmx; split at h
        · cases h
        · split at h
          · cases h
          · exact ⟨mn, mx, hmn, hmx, by simpa using h0, by omega⟩

theorem validateAsset_ok {seen : List String} {a : AssetParam} (h : validateAsset seen a = .ok ()) :
    AssetOk a ∧ seen.contains a.denom = false := by
  unfold validateAsset at h
  split at h
  · cases h
  · rename_i hden; split at h
    · cases h
    · rename_i hlim; split at h
      · cases h
      · rename_i hseen; split at h
        · cases h
        · rename_i haddr; split at h
          · cases h
          · rename_i hfee; split at h
            · cases h
            · rename_i hlock
              exact ⟨⟨by simpa using hden, by simpa using haddr, assetLimits_ok hlim, assetFee_ok hfee,
                assetLocks_ok hlock, assetSwap_ok h⟩, by simpa using hseen⟩

theorem validateAssets_ok {p : List AssetParam} : ∀ {seen : List String},
    validateAssets seen p = .ok () → ∀ a ∈ p, AssetOk a := by
  induction p with
  | nil => intro _ _ a ha; cases ha
  | cons b rest ih =>
    intro seen h a ha
    unfold validateAssets at h
    split at h
    · simp at h
    · rename_i hb
      cases ha with
      | head => exact (validateAsset_ok hb).1
      | tail _ hr => exact ih h a hr

theorem htlcValidate_ok {p : HtlcParams} (h : htlcValidate p = .ok ()) : ∀ a ∈ p, AssetOk a :=
  validateAssets_ok h

end Irismod.Params
