/-
Helper lemmas for C16: exact 18-decimal arithmetic facts used by the no-abort theorems.
-/
import Irismod.Model.Params
import Mathlib.Tactic.Ring
import Mathlib.Tactic.Linarith
import Mathlib.Tactic.Positivity

namespace Irismod.Params
open Irismod.Sdk

theorem chopRoundNat_mul (n : Nat) : chopRoundNat (n * 1000000000000000000) = n := by
  have h1 : n * 1000000000000000000 % 1000000000000000000 = 0 := Nat.mul_mod_left _ _
  have h2 : n * 1000000000000000000 / 1000000000000000000 = n :=
    Nat.mul_div_cancel _ (by norm_num)
  simp [chopRoundNat, h1, h2]

theorem chopRoundNat_bounds (d : Nat) :
    d / 1000000000000000000 ≤ chopRoundNat d ∧ chopRoundNat d ≤ d / 1000000000000000000 + 1 := by
  simp only [chopRoundNat]
  split_ifs <;> omega

theorem chopRound_mul_precision (x : Int) (hx : 0 ≤ x) : chopRound (x * precision) = x := by
  unfold chopRound precision
  have hn : ¬ (x * 1000000000000000000 < 0) := by omega
  rw [if_neg hn]
  have : (x * 1000000000000000000).natAbs = x.natAbs * 1000000000000000000 := by
    rw [Int.natAbs_mul]; rfl
  rw [this, chopRoundNat_mul]
  omega

theorem chopRound_nonneg (d : Int) (hd : 0 ≤ d) : 0 ≤ chopRound d := by
  unfold chopRound
  rw [if_neg (by omega)]
  exact Int.natCast_nonneg _

theorem chopRound_le (d : Int) (hd : 0 ≤ d) : chopRound d ≤ d / 1000000000000000000 + 1 := by
  unfold chopRound
  rw [if_neg (by omega)]
  have h := (chopRoundNat_bounds d.natAbs).2
  have : (d.natAbs : Int) = d := Int.natAbs_of_nonneg hd
  omega

theorem chopTrunc_nonneg (d : Int) (hd : 0 ≤ d) : 0 ≤ chopTrunc d ∧ chopTrunc d ≤ d / 1000000000000000000 := by
  unfold chopTrunc precision
  rw [Int.tdiv_eq_ediv_of_nonneg hd]
  constructor
  · omega
  · omega

theorem chkDec_of_bound (x : Int) (h0 : 0 ≤ x) (h1 : x < (pow2_315 : Int)) : chkDec x = some x := by
  unfold chkDec inDec
  have : x.natAbs < pow2_315 := by omega
  simp [this]

theorem chkInt_of_bound (x : Int) (h0 : 0 ≤ x) (h1 : x < (pow2_256 : Int)) : chkInt x = some x := by
  unfold chkInt inInt256
  have : x.natAbs < pow2_256 := by omega
  simp [this]

/-- `LegacyNewDecFromInt(amount).Mul(rate).TruncateInt()` for `0 ≤ rate ≤ 1`, `0 ≤ amount < 2^255`:
    no abort, and the result lies in `[0, amount]` -/
theorem mulRateTrunc (amount : Int) (r : Dec) (h0 : 0 ≤ amount) (hb : amount < pow2_255)
    (hr0 : 0 ≤ r.raw) (hr1 : r.raw ≤ precision) :
    ∃ t, (Dec.ofInt amount).mul r = some t ∧ ∃ tax, t.truncateInt = some tax ∧ 0 ≤ tax ∧ tax ≤ amount := by
  have hm0 : 0 ≤ amount * r.raw := Int.mul_nonneg h0 hr0
  have hm1 : amount * r.raw ≤ amount * 1000000000000000000 := by
    have := Int.mul_le_mul_of_nonneg_left hr1 h0
    simpa [precision] using this
  have hcr : chopRound (amount * precision * r.raw) = amount * r.raw := by
    have : amount * precision * r.raw = (amount * r.raw) * precision := by ring
    rw [this, chopRound_mul_precision _ hm0]
  have hdec : chkDec (amount * r.raw) = some (amount * r.raw) := by
    apply chkDec_of_bound _ hm0
    unfold pow2_255 at hb; unfold pow2_315; omega
  refine ⟨⟨amount * r.raw⟩, ?_, ?_⟩
  · simp [Dec.mul, Dec.ofInt, hcr, hdec]
  · have ht := chopTrunc_nonneg (amount * r.raw) hm0
    refine ⟨chopTrunc (amount * r.raw), ?_, ht.1, ?_⟩
    · simp only [Dec.truncateInt]
      apply chkInt_of_bound _ ht.1
      unfold pow2_255 at hb; unfold pow2_256; omega
    · omega

theorem feeSplit_ok (denom : String) (amount : Int) (r : Dec)
    (hd : validDenom denom = true) (h0 : 0 ≤ amount) (hb : amount < pow2_255)
    (hr0 : 0 ≤ r.raw) (hr1 : r.raw ≤ precision) :
    ∃ tax burned, feeSplit denom amount (some r) = .ok (tax, burned) ∧ tax + burned = amount ∧
      0 ≤ tax ∧ 0 ≤ burned := by
  obtain ⟨t, ht, tax, htax, htax0, htax1⟩ := mulRateTrunc amount r h0 hb hr0 hr1
  have hsub : I256.sub amount tax = some (amount - tax) := by
    unfold I256.sub
    apply chkInt_of_bound _ (by omega)
    unfold pow2_255 at hb; unfold pow2_256; omega
  refine ⟨tax, amount - tax, ?_, by omega, htax0, by omega⟩
  have h1 : ¬ (tax < 0) := by omega
  have h2 : ¬ (amount - tax < 0) := by omega
  simp [feeSplit, ht, htax, hd, hsub, h1, h2]

theorem chkDec_some {x : Int} {y : Int} (h : chkDec x = some y) : y = x := by
  unfold chkDec at h; split at h <;> simp_all

theorem chkInt_some {x : Int} {y : Int} (h : chkInt x = some y) : y = x := by
  unfold chkInt at h; split at h <;> simp_all

/-- whenever `LegacyNewDecFromInt(amount).Mul(rate).TruncateInt()` returns (no overflow), the
    result lies in `[0, amount]`, for every non-negative amount and `0 ≤ rate ≤ 1` -/
theorem mulRateTrunc_range (amount : Int) (r t : Dec) (tax : Int) (h0 : 0 ≤ amount)
    (hr0 : 0 ≤ r.raw) (hr1 : r.raw ≤ precision)
    (hm : (Dec.ofInt amount).mul r = some t) (ht : t.truncateInt = some tax) :
    0 ≤ tax ∧ tax ≤ amount := by
  have hm0 : 0 ≤ amount * r.raw := Int.mul_nonneg h0 hr0
  have hm1 : amount * r.raw ≤ amount * 1000000000000000000 := by
    have := Int.mul_le_mul_of_nonneg_left hr1 h0
    simpa [precision] using this
  have hcr : chopRound (amount * precision * r.raw) = amount * r.raw := by
    have : amount * precision * r.raw = (amount * r.raw) * precision := by ring
    rw [this, chopRound_mul_precision _ hm0]
  have hraw : t.raw = amount * r.raw := by
    simp only [Dec.mul, Dec.ofInt, hcr, Option.map_eq_some_iff] at hm
    obtain ⟨x, hx, rfl⟩ := hm
    exact chkDec_some hx
  have htax : tax = chopTrunc (amount * r.raw) := by
    simp only [Dec.truncateInt, hraw] at ht
    exact chkInt_some ht
  have hb := chopTrunc_nonneg (amount * r.raw) hm0
  omega

theorem feeSplit_only_overflow (denom : String) (amount : Int) (r : Dec)
    (hd : validDenom denom = true) (h0 : 0 ≤ amount) (hr0 : 0 ≤ r.raw) (hr1 : r.raw ≤ precision) :
    ∀ k, feeSplit denom amount (some r) = .error (.panic k) → k = .overflow := by
  intro k h
  simp only [feeSplit] at h
  cases hm : (Dec.ofInt amount).mul r with
  | none => simp [hm] at h; exact h.symm
  | some t =>
    cases ht : t.truncateInt with
    | none => simp [hm, ht] at h; exact h.symm
    | some tax =>
      have hr := mulRateTrunc_range amount r t tax h0 hr0 hr1 hm ht
      have h1 : ¬ (tax < 0) := by omega
      simp only [hm, ht, hd, Bool.not_true, Bool.false_eq_true, if_false, h1] at h
      cases hs : I256.sub amount tax with
      | none => simp [hs] at h; exact h.symm
      | some b =>
        have hb : b = amount - tax := chkInt_some hs
        have h2 : ¬ (b < 0) := by omega
        simp [hs, h2] at h

/-! ## inversion of the validation functions -/

theorem decOpenOpen_ok {d : Option Dec} (h : decOpenOpen d = .ok ()) :
    ∃ x, d = some x ∧ 0 < x.raw ∧ x.raw < precision := by
  unfold decOpenOpen at h
  split at h
  · simp at h
  · rename_i x; split at h
    · rename_i hx; exact ⟨x, rfl, hx.1, hx.2⟩
    · simp at h

theorem decClosedOpen_ok {d : Option Dec} (h : decClosedOpen d = .ok ()) :
    ∃ x, d = some x ∧ 0 ≤ x.raw ∧ x.raw < precision := by
  unfold decClosedOpen at h
  split at h
  · simp at h
  · rename_i x; split at h
    · rename_i hx; exact ⟨x, rfl, hx.1, hx.2⟩
    · simp at h

theorem decClosedClosed_ok {d : Option Dec} (h : decClosedClosed d = .ok ()) :
    ∃ x, d = some x ∧ 0 ≤ x.raw ∧ x.raw ≤ precision := by
  unfold decClosedClosed at h
  split at h
  · simp at h
  · rename_i x; split at h
    · rename_i hx; exact ⟨x, rfl, hx.1, hx.2⟩
    · simp at h

theorem coinPositive_ok {c : Coin} (h : coinPositive c = .ok ()) : ∃ a, c.amount = some a ∧ 0 < a := by
  unfold coinPositive at h
  split at h
  · simp at h
  · rename_i a ha; split at h
    · rename_i hp; exact ⟨a, ha, hp⟩
    · simp at h

theorem coinswapValidateWith_ok {c : Bool} {p : CoinswapParams} (h : coinswapValidateWith c p = .ok ()) :
    (∃ fee, p.fee = some fee ∧ 0 < fee.raw ∧ fee.raw < precision) ∧
    (∃ a, p.poolCreationFee.amount = some a ∧ 0 < a) ∧
    (∃ tax, p.taxRate = some tax ∧ 0 < tax.raw ∧ tax.raw < precision) ∧
    (∃ u, p.unilateralLiquidityFee = some u ∧ 0 ≤ u.raw ∧ u.raw < precision) ∧
    (c = true → validDenom p.poolCreationFee.denom = true) := by
  unfold coinswapValidateWith at h
  split at h
  · simp at h
  · rename_i h1; split at h
    · simp at h
    · rename_i h2; split at h
      · simp at h
      · rename_i hden; split at h
        · simp at h
        · rename_i h3
          refine ⟨decOpenOpen_ok h1, coinPositive_ok h2, decOpenOpen_ok h3, decClosedOpen_ok h, ?_⟩
          intro hc; subst hc; simpa using hden

theorem coinIsValid_ok {c : Coin} (h : coinIsValid c = true) :
    validDenom c.denom = true ∧ ∃ a, c.amount = some a ∧ 0 ≤ a := by
  unfold coinIsValid at h
  rw [Bool.and_eq_true] at h
  refine ⟨h.1, ?_⟩
  cases ha : c.amount with
  | none => simp [ha] at h
  | some a => simp [ha] at h; exact ⟨a, rfl, h.2⟩

theorem farmValidateWith_fee {c g : Bool} {p : FarmParams} (h : farmValidateWith c g p = .ok ()) :
    coinIsValid p.poolCreationFee = true := by
  unfold farmValidateWith at h
  split at h
  · assumption
  · simp at h

theorem farmValidateWith_true_ok {g : Bool} {p : FarmParams} (h : farmValidateWith true g p = .ok ()) :
    coinIsValid p.poolCreationFee = true ∧ ∃ x, p.taxRate = some x ∧ 0 < x.raw ∧ x.raw < precision := by
  refine ⟨farmValidateWith_fee h, ?_⟩
  unfold farmValidateWith at h
  split at h
  · simp only [if_true] at h
    unfold farmTaxRateCheck at h
    split at h
    · split at h <;> simp at h
    · rename_i x hx0; split at h
      · rename_i hx; exact ⟨x, hx0, hx.1, hx.2⟩
      · simp at h
  · simp at h

/-- the store normalisation (unset decimal written as 0) never invalidates a validated set -/
theorem farmValidateWith_norm {c g : Bool} {p : FarmParams} (h : farmValidateWith c g p = .ok ()) :
    farmValidateWith c g (farmNorm p) = .ok () := by
  cases c with
  | false =>
    have hf := farmValidateWith_fee h
    simp [farmValidateWith, farmNorm, hf]
  | true =>
    obtain ⟨_, x, hx, _, _⟩ := farmValidateWith_true_ok h
    have : farmNorm p = p := by
      cases p; simp only [farmNorm] at *; simp_all
    rw [this]; exact h

theorem serviceValidate_ok {p : ServiceParams} (h : serviceValidate p = .ok ()) :
    0 < p.maxRequestTimeout ∧ 0 < p.minDepositMultiple ∧ coinsValidate p.minDeposit = .ok () ∧
    (∃ s, p.slashFraction = some s ∧ 0 ≤ s.raw ∧ s.raw ≤ precision) ∧
    (∃ t, p.serviceFeeTax = some t ∧ 0 ≤ t.raw ∧ t.raw < precision) ∧
    0 < p.complaintRetrospect ∧ 0 < p.arbitrationTimeLimit ∧ 0 < p.txSizeLimit ∧
    validDenom p.baseDenom = true := by
  unfold serviceValidate at h
  split at h
  · simp at h
  · rename_i h1; split at h
    · simp at h
    · rename_i h2; split at h
      · simp at h
      · rename_i h3; split at h
        · simp at h
        · rename_i h4; split at h
          · simp at h
          · rename_i h5; split at h
            · simp at h
            · rename_i h6; split at h
              · simp at h
              · rename_i h7; split at h
                · simp at h
                · rename_i h8; split at h
                  · simp at h
                  · rename_i h9
                    refine ⟨by omega, by omega, ?_, decClosedClosed_ok h4, decClosedOpen_ok h5, by omega, by omega, by omega, ?_⟩
                    · cases h3' : coinsValidate p.minDeposit with
                      | ok u => rfl
                      | error e => rw [h3'] at h3; cases h3
                    · simpa using h9

theorem intIsNegative_ok {i : Option Int} {b : Bool} (h : intIsNegative i = .ok b) :
    ∃ a, i = some a ∧ b = decide (a < 0) := by
  unfold intIsNegative at h
  split at h
  · simp at h
  · rename_i a; simp at h; exact ⟨a, rfl, h.symm⟩

theorem tokenValidateWith_ok {c : Bool} {p : TokenParams} (h : tokenValidateWith c p = .ok ()) :
    (∃ t, p.tokenTaxRate = some t ∧ 0 ≤ t.raw ∧ t.raw ≤ precision) ∧
    (∃ r, p.mintTokenFeeRatio = some r ∧ 0 ≤ r.raw ∧ r.raw ≤ precision) ∧
    (∃ a, p.issueTokenBaseFee.amount = some a ∧ 0 ≤ a) ∧
    (c = true → validDenom p.issueTokenBaseFee.denom = true) := by
  unfold tokenValidateWith at h
  split at h
  · simp at h
  · rename_i h1; split at h
    · simp at h
    · rename_i h2; split at h
      · simp at h
      · rename_i neg h3
        obtain ⟨a, ha, hneg⟩ := intIsNegative_ok h3
        split at h
        · simp at h
        · rename_i hn
          split at h
          · simp at h
          · rename_i hden
            refine ⟨decClosedClosed_ok h1, decClosedClosed_ok h2, ⟨a, ha, ?_⟩, ?_⟩
            · subst hneg; simpa using hn
            · intro hc; subst hc; simpa using hden

/-- what a validated HTLC asset satisfies -/
structure AssetOk (a : AssetParam) : Prop where
  denom : htltDenomOk a.denom = true
  deputy : validAddr a.deputy = true
  lim : ∃ lim tbl, a.supplyLimit.limit = some lim ∧ a.supplyLimit.timeBasedLimit = some tbl ∧
          0 ≤ tbl ∧ tbl ≤ lim
  fee : ∃ f, a.fixedFee = some f ∧ 0 ≤ f
  lock : minTimeLock ≤ a.minBlockLock ∧ a.minBlockLock ≤ a.maxBlockLock ∧ a.maxBlockLock ≤ maxTimeLock
  swap : ∃ mn mx, a.minSwapAmount = some mn ∧ a.maxSwapAmount = some mx ∧ 0 < mn ∧ mn ≤ mx

theorem assetLimits_ok {a : AssetParam} (h : assetLimits a = .ok ()) :
    ∃ lim tbl, a.supplyLimit.limit = some lim ∧ a.supplyLimit.timeBasedLimit = some tbl ∧
      0 ≤ tbl ∧ tbl ≤ lim := by
  unfold assetLimits at h
  split at h
  · cases h
  · rename_i lim hlim; split at h
    · cases h
    · split at h
      · cases h
      · rename_i tbl htbl; split at h
        · cases h
        · split at h
          · cases h
          · exact ⟨lim, tbl, hlim, htbl, by omega, by omega⟩

theorem assetFee_ok {a : AssetParam} (h : assetFee a = .ok ()) : ∃ f, a.fixedFee = some f ∧ 0 ≤ f := by
  unfold assetFee at h
  split at h
  · cases h
  · rename_i f hf; split at h
    · cases h
    · exact ⟨f, hf, by omega⟩

theorem assetLocks_ok {a : AssetParam} (h : assetLocks a = .ok ()) :
    minTimeLock ≤ a.minBlockLock ∧ a.minBlockLock ≤ a.maxBlockLock ∧ a.maxBlockLock ≤ maxTimeLock := by
  unfold assetLocks at h
  split at h
  · cases h
  · split at h
    · cases h
    · split at h
      · cases h
      · omega

theorem assetSwap_ok {a : AssetParam} (h : assetSwap a = .ok ()) :
    ∃ mn mx, a.minSwapAmount = some mn ∧ a.maxSwapAmount = some mx ∧ 0 < mn ∧ mn ≤ mx := by
  unfold assetSwap at h
  split at h
  · cases h
  · rename_i mn hmn; split at h
    · cases h
    · rename_i h0; split at h
      · cases h
      · rename_i mx hmx; split at h
        · cases h
        · split at h
          · cases h
          · exact ⟨mn, mx, hmn, hmx, by simpa using h0, by omega⟩

theorem validateAsset_ok {seen : List String} {a : AssetParam} (h : validateAsset seen a = .ok ()) :
    AssetOk a ∧ seen.contains a.denom = false := by
  unfold validateAsset at h
  split at h
  · cases h
  · rename_i hden; split at h
    · cases h
    · rename_i hlim; split at h
      · cases h
      · rename_i hseen; split at h
        · cases h
        · rename_i haddr; split at h
          · cases h
          · rename_i hfee; split at h
            · cases h
            · rename_i hlock
              exact ⟨⟨by simpa using hden, by simpa using haddr, assetLimits_ok hlim, assetFee_ok hfee,
                assetLocks_ok hlock, assetSwap_ok h⟩, by simpa using hseen⟩

theorem validateAssets_ok {p : List AssetParam} : ∀ {seen : List String},
    validateAssets seen p = .ok () → ∀ a ∈ p, AssetOk a := by
  induction p with
  | nil => intro _ _ a ha; cases ha
  | cons b rest ih =>
    intro seen h a ha
    unfold validateAssets at h
    split at h
    · simp at h
    · rename_i hb
      cases ha with
      | head => exact (validateAsset_ok hb).1
      | tail _ hr => exact ih h a hr

theorem htlcValidate_ok {p : HtlcParams} (h : htlcValidate p = .ok ()) : ∀ a ∈ p, AssetOk a :=
  validateAssets_ok h

/-! ## checked integer operations -/

theorem mulP_err {a b : Int} {e : Err} (h : mulP a b = .error e) : e = .panic .overflow := by
  unfold mulP at h; split at h <;> simp_all
theorem addP_err {a b : Int} {e : Err} (h : addP a b = .error e) : e = .panic .overflow := by
  unfold addP at h; split at h <;> simp_all
theorem subP_err {a b : Int} {e : Err} (h : subP a b = .error e) : e = .panic .overflow := by
  unfold subP at h; split at h <;> simp_all
theorem mulP_val {a b c : Int} (h : mulP a b = .ok c) : c = a * b := by
  unfold mulP I256.mul at h; split at h
  · cases h
  · rename_i x hx; cases h; exact chkInt_some hx
theorem addP_val {a b c : Int} (h : addP a b = .ok c) : c = a + b := by
  unfold addP I256.add at h; split at h
  · cases h
  · rename_i x hx; cases h; exact chkInt_some hx
theorem subP_val {a b c : Int} (h : subP a b = .ok c) : c = a - b := by
  unfold subP I256.sub at h; split at h
  · cases h
  · rename_i x hx; cases h; exact chkInt_some hx
theorem quoP_err {a b : Int} {e : Err} (h : quoP a b = .error e) : b = 0 := by
  unfold quoP I256.quo at h
  by_cases hb : b = 0
  · exact hb
  · simp [hb] at h

theorem addP_ok {a b : Int} (h0 : 0 ≤ a + b) (h1 : a + b < (pow2_256 : Int)) : addP a b = .ok (a + b) := by
  unfold addP I256.add; rw [chkInt_of_bound _ h0 h1]
theorem mulP_ok {a b : Int} (h0 : 0 ≤ a * b) (h1 : a * b < (pow2_256 : Int)) : mulP a b = .ok (a * b) := by
  unfold mulP I256.mul; rw [chkInt_of_bound _ h0 h1]

/-! ## coinswap prices -/

theorem deltaFeeInt_ok (fee : Dec) (h0 : 0 < fee.raw) (h1 : fee.raw < precision) :
    deltaFeeInt (some fee) = .ok (precision - fee.raw) := by
  have hd : chkDec (precision - fee.raw) = some (precision - fee.raw) := by
    apply chkDec_of_bound
    · omega
    · unfold precision at *; unfold pow2_315; omega
  have hi : chkInt (precision - fee.raw) = some (precision - fee.raw) := by
    apply chkInt_of_bound
    · omega
    · unfold precision at *; unfold pow2_256; omega
  simp [deltaFeeInt, Dec.sub, Dec.one, hd, hi]

/-- `GetInputPrice` under a validated fee: the denominator `inputReserve·10^18 + inputAmt·(1-fee)`
    is positive whenever a reserve or an input exists, so the only possible abort is the 256-bit
    overflow of the checked products -/
theorem inputPrice_only_overflow (fee : Dec) (h0 : 0 < fee.raw) (h1 : fee.raw < precision)
    (ia ir ort : Int) (hia : 0 ≤ ia) (hir : 0 ≤ ir) (hpos : 0 < ir ∨ 0 < ia) :
    ∀ k, inputPrice ia ir ort (some fee) = .error (.panic k) → k = .overflow := by
  intro k h
  simp only [inputPrice, deltaFeeInt_ok fee h0 h1] at h
  cases e1 : mulP ia (precision - fee.raw) with
  | error e => rw [e1] at h; simp only at h; have := mulP_err e1; simp_all
  | ok iaf =>
    rw [e1] at h; simp only at h
    cases e2 : mulP iaf ort with
    | error e => rw [e2] at h; simp only at h; have := mulP_err e2; simp_all
    | ok num =>
      rw [e2] at h; simp only at h
      cases e3 : mulP ir precision with
      | error e => rw [e3] at h; simp only at h; have := mulP_err e3; simp_all
      | ok t =>
        rw [e3] at h; simp only at h
        cases e4 : addP t iaf with
        | error e => rw [e4] at h; simp only at h; have := addP_err e4; simp_all
        | ok den =>
          rw [e4] at h; simp only at h
          have hden : den = 0 := quoP_err h
          have h5 := mulP_val e1
          have h6 := mulP_val e3
          have h7 := addP_val e4
          exfalso
          have hd : 0 < precision - fee.raw := by omega
          have hp : (0 : Int) < precision := by unfold precision; omega
          rcases hpos with hp1 | hp2
          · have : 0 < ir * precision := Int.mul_pos hp1 hp
            have : 0 ≤ ia * (precision - fee.raw) := Int.mul_nonneg hia (by omega)
            omega
          · have : 0 < ia * (precision - fee.raw) := Int.mul_pos hp2 hd
            have : 0 ≤ ir * precision := Int.mul_nonneg hir (by omega)
            omega

/-- `GetOutputPrice` under a validated fee: the denominator `(outputReserve-outputAmt)·(1-fee)` is
    positive whenever less than the whole reserve is bought -/
theorem outputPrice_only_overflow (fee : Dec) (h0 : 0 < fee.raw) (h1 : fee.raw < precision)
    (oa ir ort : Int) (hlt : oa < ort) :
    ∀ k, outputPrice oa ir ort (some fee) = .error (.panic k) → k = .overflow := by
  intro k h
  simp only [outputPrice, deltaFeeInt_ok fee h0 h1] at h
  cases e1 : mulP ir oa with
  | error e => rw [e1] at h; simp only at h; have := mulP_err e1; simp_all
  | ok a =>
    rw [e1] at h; simp only at h
    cases e2 : mulP a precision with
    | error e => rw [e2] at h; simp only at h; have := mulP_err e2; simp_all
    | ok num =>
      rw [e2] at h; simp only at h
      cases e3 : subP ort oa with
      | error e => rw [e3] at h; simp only at h; have := subP_err e3; simp_all
      | ok d =>
        rw [e3] at h; simp only at h
        cases e4 : mulP d (precision - fee.raw) with
        | error e => rw [e4] at h; simp only at h; have := mulP_err e4; simp_all
        | ok den =>
          rw [e4] at h; simp only at h
          cases e5 : quoP num den with
          | error e =>
            exfalso
            have hden : den = 0 := quoP_err e5
            have h6 := subP_val e3
            have h7 := mulP_val e4
            have : 0 < d * (precision - fee.raw) := Int.mul_pos (by omega) (by omega)
            omega
          | ok q =>
            rw [e5] at h; simp only at h
            have := addP_err h; simp_all

/-! ## htlc supply counters: under a validated asset the only abort is a 256-bit overflow -/

theorem ovf_of {α : Type} {e : Err} {k : PanicKind} (h : (Except.error e : Res α) = .error (.panic k))
    (he : e = .panic .overflow) : k = .overflow := by
  subst he; injection h with h; injection h with h; exact h.symm

theorem incrementIncoming_only_overflow {a : AssetParam} (ha : AssetOk a) (s : Supply) (amt : Int) :
    ∀ k, incrementIncoming a s amt = .error (.panic k) → k = .overflow := by
  intro k h
  obtain ⟨lim, tbl, hlim, htbl, ht0, htl⟩ := ha.lim
  have hl0 : ¬ (lim < 0) := by omega
  have ht0' : ¬ (tbl < 0) := by omega
  simp only [incrementIncoming, hlim, htbl, hl0, ht0', if_false] at h
  repeat' split at h
  all_goals first
    | (cases h; done)
    | (rename_i e he; exact ovf_of h (addP_err he))

theorem incrementCurrent_only_overflow {a : AssetParam} (ha : AssetOk a) (s : Supply) (amt : Int) :
    ∀ k, incrementCurrent a s amt = .error (.panic k) → k = .overflow := by
  intro k h
  obtain ⟨lim, tbl, hlim, htbl, ht0, htl⟩ := ha.lim
  have hl0 : ¬ (lim < 0) := by omega
  have ht0' : ¬ (tbl < 0) := by omega
  simp only [incrementCurrent, hlim, htbl, hl0, ht0', if_false] at h
  repeat' split at h
  all_goals first
    | (cases h; done)
    | (rename_i e he; exact ovf_of h (addP_err he))

theorem htltIncoming_only_overflow {a : AssetParam} (ha : AssetOk a) (s : Supply) (amt : Int) :
    ∀ k, htltIncoming a s amt = .error (.panic k) → k = .overflow := by
  intro k h
  obtain ⟨mn, mx, hmn, hmx, _, _⟩ := ha.swap
  simp only [htltIncoming, hmn, hmx] at h
  split at h
  · cases h
  · split at h
    · cases h
    · exact incrementIncoming_only_overflow ha s amt k h

theorem htltOutgoing_only_overflow {a : AssetParam} (ha : AssetOk a) (s : Supply) (amt : Int) (tl : Nat) :
    ∀ k, htltOutgoing a s amt tl = .error (.panic k) → k = .overflow := by
  intro k h
  obtain ⟨mn, mx, hmn, hmx, _, _⟩ := ha.swap
  obtain ⟨f, hf, _⟩ := ha.fee
  simp only [htltOutgoing, hmn, hmx, hf] at h
  repeat' split at h
  all_goals first
    | (cases h; done)
    | (rename_i e he; exact ovf_of h (addP_err he))

theorem htltClaimIncoming_only_overflow {a : AssetParam} (ha : AssetOk a) (s : Supply) (amt : Int) :
    ∀ k, htltClaimIncoming a s amt = .error (.panic k) → k = .overflow := by
  intro k h
  unfold htltClaimIncoming at h
  split at h
  · cases h
  · exact incrementCurrent_only_overflow ha _ amt k h


/-- supply counters below 2^130 (four times the amount bound 2^128) -/
structure SupplySmall (s : Supply) : Prop where
  inc : 0 ≤ s.incoming ∧ s.incoming < 4 * pow2_128
  out : 0 ≤ s.outgoing ∧ s.outgoing < 4 * pow2_128
  cur : 0 ≤ s.current ∧ s.current < 4 * pow2_128
  tlc : 0 ≤ s.timeLimitedCurrent ∧ s.timeLimitedCurrent < 4 * pow2_128

theorem addP_small {a b : Int} (ha : 0 ≤ a ∧ a < 16 * pow2_128) (hb : 0 ≤ b ∧ b < 16 * pow2_128) :
    addP a b = .ok (a + b) := by
  apply addP_ok
  · omega
  · unfold pow2_128 at *; unfold pow2_256; omega

theorem incrementIncoming_noabort {a : AssetParam} (ha : AssetOk a) {s : Supply} (hs : SupplySmall s)
    {amt : Int} (hamt : 0 ≤ amt ∧ amt < pow2_128) :
    ∀ k, incrementIncoming a s amt ≠ .error (.panic k) := by
  obtain ⟨lim, tbl, hlim, htbl, ht0, htl⟩ := ha.lim
  have hl0 : ¬ (lim < 0) := by omega
  have ht0' : ¬ (tbl < 0) := by omega
  obtain ⟨⟨i0, i1⟩, ⟨o0, o1⟩, ⟨c0, c1⟩, ⟨t0, t1⟩⟩ := hs
  have e1 := addP_small (a := s.current) (b := s.incoming) (by omega) (by omega)
  have e2 : addP (s.current + s.incoming) amt = .ok (s.current + s.incoming + amt) :=
    addP_small (by omega) (by omega)
  have e3 := addP_small (a := s.timeLimitedCurrent) (b := s.incoming) (by omega) (by omega)
  have e4 : addP (s.timeLimitedCurrent + s.incoming) amt = .ok (s.timeLimitedCurrent + s.incoming + amt) :=
    addP_small (by omega) (by omega)
  have e5 := addP_small (a := s.incoming) (b := amt) (by omega) (by omega)
  intro k
  simp only [incrementIncoming, hlim, htbl, hl0, ht0', if_false, e1, e2, e3, e4, e5]
  repeat' split
  all_goals simp

theorem incrementCurrent_noabort {a : AssetParam} (ha : AssetOk a) {s : Supply} (hs : SupplySmall s)
    {amt : Int} (hamt : 0 ≤ amt ∧ amt < pow2_128) :
    ∀ k, incrementCurrent a s amt ≠ .error (.panic k) := by
  obtain ⟨lim, tbl, hlim, htbl, ht0, htl⟩ := ha.lim
  have hl0 : ¬ (lim < 0) := by omega
  have ht0' : ¬ (tbl < 0) := by omega
  obtain ⟨⟨i0, i1⟩, ⟨o0, o1⟩, ⟨c0, c1⟩, ⟨t0, t1⟩⟩ := hs
  have e1 := addP_small (a := s.current) (b := amt) (by omega) (by omega)
  have e2 := addP_small (a := s.timeLimitedCurrent) (b := amt) (by omega) (by omega)
  intro k
  simp only [incrementCurrent, hlim, htbl, hl0, ht0', if_false, e1, e2]
  repeat' split
  all_goals simp

theorem htltIncoming_noabort {a : AssetParam} (ha : AssetOk a) {s : Supply} (hs : SupplySmall s)
    {amt : Int} (hamt : 0 ≤ amt ∧ amt < pow2_128) :
    ∀ k, htltIncoming a s amt ≠ .error (.panic k) := by
  obtain ⟨mn, mx, hmn, hmx, _, _⟩ := ha.swap
  intro k
  simp only [htltIncoming, hmn, hmx]
  split
  · simp
  · split
    · simp
    · exact incrementIncoming_noabort ha hs hamt k

/-- outgoing swaps: `FixedFee.Add(MinSwapAmount)` is the one sum made of parameters alone -/
theorem htltOutgoing_noabort {a : AssetParam} (ha : AssetOk a) {s : Supply} (hs : SupplySmall s)
    {amt : Int} (hamt : 0 ≤ amt ∧ amt < pow2_128) (tl : Nat)
    (hfee : ∀ f mn, a.fixedFee = some f → a.minSwapAmount = some mn → f < pow2_128 ∧ mn < pow2_128) :
    ∀ k, htltOutgoing a s amt tl ≠ .error (.panic k) := by
  obtain ⟨mn, mx, hmn, hmx, hmn0, _⟩ := ha.swap
  obtain ⟨f, hf, hf0⟩ := ha.fee
  obtain ⟨hfb, hmb⟩ := hfee f mn hf hmn
  obtain ⟨⟨i0, i1⟩, ⟨o0, o1⟩, ⟨c0, c1⟩, ⟨t0, t1⟩⟩ := hs
  have e1 := addP_small (a := f) (b := mn) (by omega) (by omega)
  have e2 := addP_small (a := s.outgoing) (b := amt) (by omega) (by omega)
  intro k
  simp only [htltOutgoing, hmn, hmx, hf, e1, e2]
  repeat' split
  all_goals simp

theorem htltClaimIncoming_noabort {a : AssetParam} (ha : AssetOk a) {s : Supply} (hs : SupplySmall s)
    {amt : Int} (hamt : 0 ≤ amt ∧ amt < pow2_128) :
    ∀ k, htltClaimIncoming a s amt ≠ .error (.panic k) := by
  intro k
  unfold htltClaimIncoming
  split
  · simp
  · rename_i hge
    have hs' : SupplySmall { s with incoming := s.incoming - amt } :=
      ⟨⟨by simp only; omega, by simp only; have := hs.inc; omega⟩, hs.out, hs.cur, hs.tlc⟩
    exact incrementCurrent_noabort ha hs' hamt k

/-! ## service fragments -/

theorem earnedFeeSplit_only_overflow (amount : Int) (r : Dec) (h0 : 0 ≤ amount)
    (hr0 : 0 ≤ r.raw) (hr1 : r.raw ≤ precision) :
    ∀ k, earnedFeeSplit amount (some r) = .error (.panic k) → k = .overflow := by
  intro k h
  simp only [earnedFeeSplit] at h
  cases hm : (Dec.ofInt amount).mul r with
  | none => simp [hm] at h; exact h.symm
  | some t =>
    cases ht : t.truncateInt with
    | none => simp [hm, ht] at h; exact h.symm
    | some tax =>
      have hr := mulRateTrunc_range amount r t tax h0 hr0 hr1 hm ht
      have h1 : ¬ (tax < 0) := by omega
      simp only [hm, ht, h1, if_false] at h
      split at h <;> cases h

theorem earnedFeeSplit_noabort (amount : Int) (r : Dec) (h0 : 0 ≤ amount) (hb : amount < pow2_255)
    (hr0 : 0 ≤ r.raw) (hr1 : r.raw ≤ precision) :
    ∀ k, earnedFeeSplit amount (some r) ≠ .error (.panic k) := by
  obtain ⟨t, ht, tax, htax, htax0, htax1⟩ := mulRateTrunc amount r h0 hb hr0 hr1
  have h1 : ¬ (tax < 0) := by omega
  have h2 : ¬ (amount - tax < 0) := by omega
  intro k
  simp [earnedFeeSplit, ht, htax, h1, h2]

theorem slashSplit_only_overflow (denom : String) (deposit : Int) (r : Dec) (hd : validDenom denom = true)
    (h0 : 0 ≤ deposit) (hr0 : 0 ≤ r.raw) (hr1 : r.raw ≤ precision) :
    ∀ k, slashSplit denom deposit (some r) = .error (.panic k) → k = .overflow := by
  intro k h
  simp only [slashSplit] at h
  cases hm : (Dec.ofInt deposit).mul r with
  | none => simp [hm] at h; exact h.symm
  | some t =>
    cases ht : t.truncateInt with
    | none => simp [hm, ht] at h; exact h.symm
    | some tax =>
      have hr := mulRateTrunc_range deposit r t tax h0 hr0 hr1 hm ht
      have h1 : ¬ (tax < 0) := by omega
      simp only [hm, ht, hd, Bool.not_true, Bool.false_eq_true, h1, if_false] at h
      split at h <;> cases h

theorem slashSplit_noabort (denom : String) (deposit : Int) (r : Dec) (hd : validDenom denom = true)
    (h0 : 0 ≤ deposit) (hb : deposit < pow2_255) (hr0 : 0 ≤ r.raw) (hr1 : r.raw ≤ precision) :
    ∀ k, slashSplit denom deposit (some r) ≠ .error (.panic k) := by
  obtain ⟨t, ht, tax, htax, htax0, htax1⟩ := mulRateTrunc deposit r h0 hb hr0 hr1
  have h1 : ¬ (tax < 0) := by omega
  have h2 : ¬ (deposit - tax < 0) := by omega
  intro k
  simp [slashSplit, ht, htax, hd, h1, h2]

theorem minDepositBase_only_overflow (p : ServiceParams) (price : Int) (hd : validDenom p.baseDenom = true)
    (h0 : 0 ≤ price) (hm : 0 < p.minDepositMultiple) :
    ∀ k, minDepositBase p price = .error (.panic k) → k = .overflow := by
  intro k h
  unfold minDepositBase at h
  split at h
  · cases h; rfl
  · rename_i m hmul
    have : m = price * p.minDepositMultiple := by
      unfold I256.mul at hmul; exact chkInt_some hmul
    have hm0 : 0 ≤ price * p.minDepositMultiple := Int.mul_nonneg h0 (by omega)
    have h1 : ¬ (m < 0) := by omega
    simp [hd, h1] at h

/-! ## token fee paths -/

theorem chopTrunc_mul_precision (x : Int) : chopTrunc (x * precision) = x := by
  unfold chopTrunc
  exact Int.mul_tdiv_cancel x (by unfold precision; omega)

/-- `calcTokenIssueFee` with a non-negative base fee below 2^128, a well-formed denomination and a
    fee factor ≥ 1: returns a fee in `[0, base + 1]` -/
theorem calcIssueFee_ok (p : TokenParams) (factor : Dec) (base : Int)
    (hbase : p.issueTokenBaseFee.amount = some base) (h0 : 0 ≤ base) (hb : base < pow2_128)
    (hd : validDenom p.issueTokenBaseFee.denom = true) (hf : precision ≤ factor.raw) :
    ∃ fee, calcIssueFee p factor = .ok fee ∧ 0 ≤ fee ∧ fee ≤ base + 1 := by
  have hp : (0 : Int) < precision := by unfold precision; omega
  have hF0 : factor.raw ≠ 0 := by omega
  have hN0 : 0 ≤ base * precision * precision * precision := by positivity
  set X := (base * precision * precision * precision).tdiv factor.raw with hX
  have hXe : X = (base * precision * precision * precision) / factor.raw := by
    rw [hX, Int.tdiv_eq_ediv_of_nonneg hN0]
  have hX0 : 0 ≤ X := by rw [hXe]; exact Int.ediv_nonneg hN0 (by omega)
  have hXF : X * factor.raw ≤ base * precision * precision * precision := by
    rw [hXe]; exact Int.ediv_mul_le _ hF0
  have hXp : X * precision ≤ X * factor.raw := Int.mul_le_mul_of_nonneg_left hf hX0
  have hXb : X ≤ base * precision * precision := by
    have : X * precision ≤ (base * precision * precision) * precision := by omega
    exact Int.le_of_mul_le_mul_right this hp
  have hR0 := chopRound_nonneg X hX0
  have hR1 := chopRound_le X hX0
  have hRb : chopRound X ≤ base * precision + 1 := by
    unfold precision at hXb ⊢; omega
  have hdec : chkDec (chopRound X) = some (chopRound X) := by
    apply chkDec_of_bound _ hR0
    unfold precision at hRb; unfold pow2_128 at hb; unfold pow2_315; omega
  have hquo : (Dec.ofInt base).quo factor = some ⟨chopRound X⟩ := by
    simp [Dec.quo, Dec.ofInt, hF0, ← hX, hdec]
  have hT := chopTrunc_nonneg (chopRound X) hR0
  have hTb : chopTrunc (chopRound X) ≤ base + 1 := by
    unfold precision at hRb; omega
  have hint : chkInt (chopTrunc (chopRound X)) = some (chopTrunc (chopRound X)) := by
    apply chkInt_of_bound _ hT.1
    unfold pow2_128 at hb; unfold pow2_256; omega
  by_cases hgt : precision < chopRound X
  · refine ⟨chopTrunc (chopRound X), ?_, hT.1, hTb⟩
    have h1 : ¬ (chopTrunc (chopRound X) < 0) := by omega
    simp [calcIssueFee, hbase, hquo, hgt, Dec.truncateInt, hint, hd, h1]
  · refine ⟨1, ?_, by omega, by omega⟩
    simp [calcIssueFee, hbase, hquo, hgt, hd]

theorem pow10_le (scale : Nat) (h : scale ≤ 18) :
    (1 : Int) ≤ ((10 ^ scale : Nat) : Int) ∧ ((10 ^ scale : Nat) : Int) ≤ 1000000000000000000 := by
  have h1 : 10 ^ scale ≤ 10 ^ 18 := Nat.pow_le_pow_right (by omega) h
  have h2 : 1 ≤ 10 ^ scale := Nat.one_le_pow _ _ (by omega)
  constructor
  · exact_mod_cast h2
  · have : ((10 ^ scale : Nat) : Int) ≤ ((10 ^ 18 : Nat) : Int) := by exact_mod_cast h1
    simpa using this

/-- `Token.ToMinCoin` of an integral amount `0 ≤ x ≤ 2^128 + 1`, scale ≤ 18: exactly `x · 10^scale` -/
theorem toMinCoin_ok (scale : Nat) (minUnit : String) (x : Int) (hs : scale ≤ 18)
    (hd : validDenom minUnit = true) (h0 : 0 ≤ x) (hb : x ≤ pow2_128 + 1) :
    toMinCoin scale minUnit (Dec.ofInt x) = .ok (x * ((10 ^ scale : Nat) : Int)) ∧
      0 ≤ x * ((10 ^ scale : Nat) : Int) ∧ x * ((10 ^ scale : Nat) : Int) < pow2_255 := by
  obtain ⟨hS1, hS2⟩ := pow10_le scale hs
  set S : Int := ((10 ^ scale : Nat) : Int) with hS
  have hxS0 : 0 ≤ x * S := Int.mul_nonneg h0 (by omega)
  have hxS1 : x * S ≤ (pow2_128 + 1) * 1000000000000000000 := by
    calc x * S ≤ (pow2_128 + 1) * S := Int.mul_le_mul_of_nonneg_right hb (by omega)
      _ ≤ (pow2_128 + 1) * 1000000000000000000 := Int.mul_le_mul_of_nonneg_left hS2 (by unfold pow2_128; omega)
  have hprod : x * precision * (S * precision) = (x * S * precision) * precision := by ring
  have hm0 : 0 ≤ x * S * precision := Int.mul_nonneg hxS0 (by unfold precision; omega)
  have hcr : chopRound (x * precision * (S * precision)) = x * S * precision := by
    rw [hprod, chopRound_mul_precision _ hm0]
  have hdec : chkDec (x * S * precision) = some (x * S * precision) := by
    apply chkDec_of_bound _ hm0
    unfold pow2_128 at hxS1; unfold precision pow2_315; omega
  have hmul : (Dec.ofInt x).mul (Dec.ofInt S) = some ⟨x * S * precision⟩ := by
    simp [Dec.mul, Dec.ofInt, hcr, hdec]
  have hint : chkInt (x * S) = some (x * S) := by
    apply chkInt_of_bound _ hxS0
    unfold pow2_128 at hxS1; unfold pow2_256; omega
  have h1 : ¬ (x * S < 0) := by omega
  refine ⟨?_, hxS0, ?_⟩
  · simp [toMinCoin, ← hS, hmul, Dec.truncateInt, chopTrunc_mul_precision, hint, hd, h1]
  · unfold pow2_128 at hxS1; unfold pow2_255; omega

/-- registry entries obey the module's own bounds: scale ≤ 18 (`MaximumScale`), valid min unit -/
def RegOk (reg : TokenReg) : Prop := ∀ e ∈ reg, e.2.1 ≤ 18 ∧ validDenom e.2.2 = true

theorem regLookup_ok {reg : TokenReg} (h : RegOk reg) {sym : String} {scale : Nat} {mu : String}
    (hl : regLookup reg sym = some (scale, mu)) : scale ≤ 18 ∧ validDenom mu = true := by
  unfold regLookup at hl
  cases hf : reg.find? (fun e => e.1 = sym) with
  | none => simp [hf] at hl
  | some e =>
    simp [hf] at hl
    have hm := List.mem_of_find?_eq_some hf
    have := h e hm
    rw [hl] at this
    exact this

theorem issueFeePath_noabort (p : TokenParams) (reg : TokenReg) (factor : Dec) (base : Int) (rate : Dec)
    (hbase : p.issueTokenBaseFee.amount = some base) (h0 : 0 ≤ base) (hb : base < pow2_128)
    (hd : validDenom p.issueTokenBaseFee.denom = true) (hf : precision ≤ factor.raw)
    (hrate : p.tokenTaxRate = some rate) (hr0 : 0 ≤ rate.raw) (hr1 : rate.raw ≤ precision)
    (hreg : RegOk reg) :
    ∀ k, issueFeePath p reg factor ≠ .error (.panic k) := by
  obtain ⟨fee, hfee, hfee0, hfee1⟩ := calcIssueFee_ok p factor base hbase h0 hb hd hf
  intro k
  simp only [issueFeePath, hfee]
  cases hl : regLookup reg p.issueTokenBaseFee.denom with
  | none => simp
  | some e =>
    obtain ⟨scale, mu⟩ := e
    obtain ⟨hs, hmu⟩ := regLookup_ok hreg hl
    obtain ⟨htm, hm0, hm1⟩ := toMinCoin_ok scale mu fee hs hmu hfee0 (by omega)
    obtain ⟨tax, burned, hsplit, _⟩ := feeSplit_ok mu _ rate hmu hm0 hm1 hr0 hr1
    simp only [htm, hrate, hsplit]
    simp

theorem mintFeePath_noabort (p : TokenParams) (reg : TokenReg) (factor : Dec) (base : Int) (rate ratio : Dec)
    (hbase : p.issueTokenBaseFee.amount = some base) (h0 : 0 ≤ base) (hb : base < pow2_128)
    (hd : validDenom p.issueTokenBaseFee.denom = true) (hf : precision ≤ factor.raw)
    (hrate : p.tokenTaxRate = some rate) (hr0 : 0 ≤ rate.raw) (hr1 : rate.raw ≤ precision)
    (hratio : p.mintTokenFeeRatio = some ratio) (hq0 : 0 ≤ ratio.raw) (hq1 : ratio.raw ≤ precision)
    (hreg : RegOk reg) :
    ∀ k, mintFeePath p reg factor ≠ .error (.panic k) := by
  obtain ⟨fee, hfee, hfee0, hfee1⟩ := calcIssueFee_ok p factor base hbase h0 hb hd hf
  intro k
  simp only [mintFeePath, hfee]
  cases hl : regLookup reg p.issueTokenBaseFee.denom with
  | none => simp
  | some e =>
    obtain ⟨scale, mu⟩ := e
    obtain ⟨hs, hmu⟩ := regLookup_ok hreg hl
    have hfb : fee < pow2_255 := by unfold pow2_128 at hb; unfold pow2_255; omega
    obtain ⟨t, ht, mf, hmf, hmf0, hmf1⟩ := mulRateTrunc fee ratio hfee0 hfb hq0 hq1
    obtain ⟨htm, hm0, hm1⟩ := toMinCoin_ok scale mu mf hs hmu hmf0 (by omega)
    obtain ⟨tax, burned, hsplit, _⟩ := feeSplit_ok mu _ rate hmu hm0 hm1 hr0 hr1
    have h1 : ¬ (mf < 0) := by omega
    simp only [hratio, ht, hmf, h1, if_false, htm, hrate, hsplit]
    simp

/-! ## coinswap prices below 2^96 -/

/-- 2^96 -/
def pow2_96 : Int := 79228162514264337593543950336

theorem deltaFeeInt_ok' (fee : Dec) (h0 : 0 ≤ fee.raw) (h1 : fee.raw < precision) :
    deltaFeeInt (some fee) = .ok (precision - fee.raw) := by
  have hd : chkDec (precision - fee.raw) = some (precision - fee.raw) := by
    apply chkDec_of_bound
    · omega
    · unfold precision at *; unfold pow2_315; omega
  have hi : chkInt (precision - fee.raw) = some (precision - fee.raw) := by
    apply chkInt_of_bound
    · omega
    · unfold precision at *; unfold pow2_256; omega
  simp [deltaFeeInt, Dec.sub, Dec.one, hd, hi]

theorem quoP_ok {a b : Int} (hb : b ≠ 0) : quoP a b = .ok (a.tdiv b) := by
  simp [quoP, I256.quo, hb]

/-- `GetInputPrice` with amounts and reserves below 2^96 under a validated fee: no abort at all -/
theorem inputPrice_noabort_bounded (fee : Dec) (h0 : 0 < fee.raw) (h1 : fee.raw < precision)
    (ia ir ort : Int) (hia : 0 ≤ ia ∧ ia < pow2_96) (hir : 0 ≤ ir ∧ ir < pow2_96)
    (hort : 0 ≤ ort ∧ ort < pow2_96) (hpos : 0 < ir ∨ 0 < ia) :
    ∀ k, inputPrice ia ir ort (some fee) ≠ .error (.panic k) := by
  set df := precision - fee.raw with hdf
  have hdf0 : 0 < df := by omega
  have hdf1 : df ≤ 1000000000000000000 := by unfold precision at *; omega
  have hx0 : 0 ≤ ia * df := Int.mul_nonneg hia.1 (by omega)
  have hx1 : ia * df ≤ pow2_96 * 1000000000000000000 :=
    Int.mul_le_mul (by omega) hdf1 (by omega) (by unfold pow2_96; omega)
  have hy0 : 0 ≤ ia * df * ort := Int.mul_nonneg hx0 hort.1
  have hy1 : ia * df * ort ≤ pow2_96 * 1000000000000000000 * pow2_96 :=
    Int.mul_le_mul hx1 (by omega) hort.1 (by unfold pow2_96; omega)
  have e1 : mulP ia df = .ok (ia * df) := mulP_ok hx0 (by unfold pow2_96 at hx1; unfold pow2_256; omega)
  have e2 : mulP (ia * df) ort = .ok (ia * df * ort) :=
    mulP_ok hy0 (by unfold pow2_96 at hy1; unfold pow2_256; omega)
  have e3 : mulP ir precision = .ok (ir * precision) :=
    mulP_ok (by unfold precision; omega) (by unfold precision pow2_256; unfold pow2_96 at hir; omega)
  have e4 : addP (ir * precision) (ia * df) = .ok (ir * precision + ia * df) :=
    addP_ok (by unfold precision; omega) (by unfold precision pow2_256; unfold pow2_96 at hir hx1; omega)
  have hden : ir * precision + ia * df ≠ 0 := by
    rcases hpos with hp | hp
    · have : 0 < ir * precision := Int.mul_pos hp (by unfold precision; omega)
      omega
    · have : 0 < ia * df := Int.mul_pos hp hdf0
      have : 0 ≤ ir * precision := Int.mul_nonneg hir.1 (by unfold precision; omega)
      omega
  intro k
  simp [inputPrice, deltaFeeInt_ok fee h0 h1, ← hdf, e1, e2, e3, e4, quoP_ok hden]

/-- `GetOutputPrice` likewise, when less than the reserve is bought -/
theorem outputPrice_noabort_bounded (fee : Dec) (h0 : 0 < fee.raw) (h1 : fee.raw < precision)
    (oa ir ort : Int) (hoa : 0 ≤ oa ∧ oa < pow2_96) (hir : 0 ≤ ir ∧ ir < pow2_96)
    (hort : 0 ≤ ort ∧ ort < pow2_96) (hlt : oa < ort) :
    ∀ k, outputPrice oa ir ort (some fee) ≠ .error (.panic k) := by
  set df := precision - fee.raw with hdf
  have hdf0 : 0 < df := by omega
  have hdf1 : df ≤ 1000000000000000000 := by unfold precision at *; omega
  have hx0 : 0 ≤ ir * oa := Int.mul_nonneg hir.1 hoa.1
  have hx1 : ir * oa ≤ pow2_96 * pow2_96 :=
    Int.mul_le_mul (by omega) (by omega) hoa.1 (by unfold pow2_96; omega)
  have e1 : mulP ir oa = .ok (ir * oa) := mulP_ok hx0 (by unfold pow2_96 at hx1; unfold pow2_256; omega)
  have hn0 : 0 ≤ ir * oa * precision := Int.mul_nonneg hx0 (by unfold precision; omega)
  have hn1 : ir * oa * precision < (pow2_256 : Int) - 1 := by
    unfold pow2_96 at hx1; unfold precision pow2_256; omega
  have e2 : mulP (ir * oa) precision = .ok (ir * oa * precision) := mulP_ok hn0 (by omega)
  have e3 : subP ort oa = .ok (ort - oa) := by
    unfold subP I256.sub
    rw [chkInt_of_bound _ (by omega) (by unfold pow2_96 at hort; unfold pow2_256; omega)]
  have hd0 : 0 < (ort - oa) * df := Int.mul_pos (by omega) hdf0
  have hd1 : (ort - oa) * df ≤ pow2_96 * 1000000000000000000 :=
    Int.mul_le_mul (by omega) hdf1 (by omega) (by unfold pow2_96; omega)
  have e4 : mulP (ort - oa) df = .ok ((ort - oa) * df) :=
    mulP_ok (by omega) (by unfold pow2_96 at hd1; unfold pow2_256; omega)
  have hq : (ir * oa * precision).tdiv ((ort - oa) * df) = (ir * oa * precision) / ((ort - oa) * df) :=
    Int.tdiv_eq_ediv_of_nonneg hn0
  have hq0 : 0 ≤ (ir * oa * precision) / ((ort - oa) * df) := Int.ediv_nonneg hn0 (by omega)
  have hq1 : (ir * oa * precision) / ((ort - oa) * df) ≤ ir * oa * precision :=
    Int.ediv_le_self _ hn0
  have e5 : addP ((ir * oa * precision) / ((ort - oa) * df)) 1 = .ok ((ir * oa * precision) / ((ort - oa) * df) + 1) :=
    addP_ok (by omega) (by omega)
  intro k
  simp [outputPrice, deltaFeeInt_ok fee h0 h1, ← hdf, e1, e2, e3, e4, quoP_ok (by omega : (ort - oa) * df ≠ 0), hq, e5]

end Irismod.Params
