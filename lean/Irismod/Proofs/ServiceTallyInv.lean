/-
C07, owner-side = provider-side tallies as an invariant over histories (after /repo 5529ca8).
-/
import Irismod.Proofs.ServiceTally

namespace Irismod.Proofs.Service
open Irismod Irismod.Sdk Irismod.Service Irismod.Spec.C07

/-! ### membership in association lists -/

theorem mem_set {K V : Type} [DecidableEq K] : ∀ (m : AMap K V) (k : K) (v : V) (e : K × V),
    e ∈ AMap.set m k v → e ∈ m ∨ e = (k, v)
  | [], k, v, e, h => by simp [AMap.set] at h; exact Or.inr h
  | (k0, v0) :: t, k, v, e, h => by
    simp only [AMap.set] at h
    split at h
    · rcases List.mem_cons.mp h with h | h
      · exact Or.inr h
      · exact Or.inl (List.mem_cons_of_mem _ h)
    · rcases List.mem_cons.mp h with h | h
      · exact Or.inl (by rw [h]; exact List.mem_cons_self ..)
      · rcases mem_set t k v e h with h' | h'
        · exact Or.inl (List.mem_cons_of_mem _ h')
        · exact Or.inr h'

theorem get?_mem {K V : Type} [DecidableEq K] : ∀ (m : AMap K V) (k : K) (v : V), AMap.get? m k = some v → (k, v) ∈ m
  | [], _, _, h => by simp [AMap.get?] at h
  | (k0, v0) :: t, k, v, h => by
    simp only [AMap.get?] at h
    split at h
    · rename_i hk; cases h; subst hk; exact List.mem_cons_self ..
    · exact List.mem_cons_of_mem _ (get?_mem t k v h)

theorem mem_get? {K V : Type} [DecidableEq K] : ∀ (m : AMap K V) (e : K × V), e ∈ m → ∃ v, AMap.get? m e.1 = some v
  | [], _, h => by cases h
  | (k0, v0) :: t, e, h => by
    by_cases hk : k0 = e.1
    · exact ⟨v0, by simp [AMap.get?, hk]⟩
    · rcases List.mem_cons.mp h with h | h
      · subst h; exact absurd rfl hk
      · obtain ⟨v, hv⟩ := mem_get? t e h
        exact ⟨v, by simp only [AMap.get?, hk, if_false]; exact hv⟩

theorem contains_set_mono {K V : Type} [DecidableEq K] (m : AMap K V) (k k' : K) (v : V) (h : AMap.contains m k' = true) :
    AMap.contains (AMap.set m k v) k' = true := by
  rw [contains_iff] at h ⊢
  by_cases hk : k = k'
  · subst hk; exact ⟨v, AMap.get?_set_self _ _ _⟩
  · rw [AMap.get?_set_other _ _ _ _ hk]; exact h

theorem sumIf_congr_mem {K V : Type} (p q : K → Bool) (f : V → Nat) : ∀ (m : AMap K V), (∀ e, e ∈ m → p e.1 = q e.1) →
    AMap.sumIf p f m = AMap.sumIf q f m
  | [], _ => rfl
  | (k, v) :: t, h => by
    simp only [AMap.sumIf]
    rw [h (k, v) (List.mem_cons_self ..), sumIf_congr_mem p q f t (fun e he => h e (List.mem_cons_of_mem _ he))]

/-! ### the bundle -/

/-- tallies agree; the two tables have unique keys; every provider with earned fees, with a request or with a
binding has an owner -/
structure TB (s : State) : Prop where
  tally   : TallyInv s
  nd1     : KeysNodup s.earned
  nd2     : KeysNodup s.oearned
  earnedO : ∀ e, e ∈ s.earned → AMap.contains s.owners e.1.1 = true
  reqO    : ∀ e, e ∈ s.reqs → AMap.contains s.owners e.2.provider = true
  bindO   : ∀ e, e ∈ s.binds → AMap.contains s.owners e.1.2 = true

/-- nothing the bundle reads has changed, except possibly bindings replaced under existing keys -/
theorem TB.of_same {s s' : State} (h : TB s) (e1 : s'.earned = s.earned) (e2 : s'.oearned = s.oearned)
    (e3 : s'.owners = s.owners) (e4 : s'.reqs = s.reqs)
    (e5 : ∀ e, e ∈ s'.binds → ∃ e0, e0 ∈ s.binds ∧ e0.1 = e.1) : TB s' := by
  refine ⟨?_, by rw [e1]; exact h.nd1, by rw [e2]; exact h.nd2, by rw [e1, e3]; exact h.earnedO,
    by rw [e4, e3]; exact h.reqO, ?_⟩
  · intro o d
    have := h.tally o d
    unfold providersEarned ownerEarned ownedBy at this ⊢
    rw [e1, e2, e3]; exact this
  · intro e he
    obtain ⟨e0, h0, hk⟩ := e5 e he
    rw [e3, ← hk]; exact h.bindO e0 h0

theorem binds_same {s s' : State} (e : s'.binds = s.binds) : ∀ x, x ∈ s'.binds → ∃ e0, e0 ∈ s.binds ∧ e0.1 = x.1 :=
  fun x hx => ⟨x, by rw [← e]; exact hx, rfl⟩

/-- a binding replaced under a key that already exists -/
theorem binds_set_existing {s : State} {k : String × Addr} {b0 : Binding} (hg : AMap.get? s.binds k = some b0) (b : Binding)
    (s' : State) (e : s'.binds = AMap.set s.binds k b) : ∀ x, x ∈ s'.binds → ∃ e0, e0 ∈ s.binds ∧ e0.1 = x.1 := by
  intro x hx
  rw [e] at hx
  rcases mem_set _ _ _ _ hx with h | h
  · exact ⟨x, h, rfl⟩
  · exact ⟨(k, b0), get?_mem _ _ _ hg, by rw [h]⟩

end Irismod.Proofs.Service

namespace Irismod.Proofs.Service
open Irismod Irismod.Sdk Irismod.Service Irismod.Spec.C07

/-- tallies and owners untouched; requests only removed; bindings only replaced under existing keys -/
def TBFrame (s s' : State) : Prop :=
  s'.earned = s.earned ∧ s'.oearned = s.oearned ∧ s'.owners = s.owners ∧ (∀ e, e ∈ s'.reqs → e ∈ s.reqs) ∧
  (∀ x, x ∈ s'.binds → ∃ e0, e0 ∈ s.binds ∧ e0.1 = x.1)

theorem TBFrame.refl (s : State) : TBFrame s s := ⟨rfl, rfl, rfl, fun _ h => h, fun x hx => ⟨x, hx, rfl⟩⟩

theorem TBFrame.trans {a b c : State} (h1 : TBFrame a b) (h2 : TBFrame b c) : TBFrame a c := by
  refine ⟨h2.1.trans h1.1, h2.2.1.trans h1.2.1, h2.2.2.1.trans h1.2.2.1, fun e he => h1.2.2.2.1 e (h2.2.2.2.1 e he), ?_⟩
  intro x hx
  obtain ⟨e1, m1, k1⟩ := h2.2.2.2.2 x hx
  obtain ⟨e0, m0, k0⟩ := h1.2.2.2.2 e1 m1
  exact ⟨e0, m0, k0.trans k1⟩

theorem TBFrame.of_eq {s s' : State} (e1 : s'.earned = s.earned) (e2 : s'.oearned = s.oearned) (e3 : s'.owners = s.owners)
    (e4 : s'.reqs = s.reqs) (e5 : s'.binds = s.binds) : TBFrame s s' :=
  ⟨e1, e2, e3, fun e he => by rw [← e4]; exact he, binds_same e5⟩

theorem TB.of_frame {s s' : State} (h : TB s) (f : TBFrame s s') : TB s' := by
  obtain ⟨e1, e2, e3, e4, e5⟩ := f
  refine ⟨?_, by rw [e1]; exact h.nd1, by rw [e2]; exact h.nd2, by rw [e1, e3]; exact h.earnedO,
    fun e he => by rw [e3]; exact h.reqO e (e4 e he), ?_⟩
  · intro o d
    have := h.tally o d
    unfold providersEarned ownerEarned ownedBy at this ⊢
    rw [e1, e2, e3]; exact this
  · intro e he
    obtain ⟨e0, h0, hk⟩ := e5 e he
    rw [e3, ← hk]; exact h.bindO e0 h0

theorem slash_tbframe (s : State) (svc : String) (p : Addr) : TBFrame s (slash s svc p) := by
  unfold slash
  split
  · exact TBFrame.refl s
  · rename_i b hb
    split
    · exact TBFrame.refl s
    · split
      · exact TBFrame.refl s
      · exact ⟨rfl, rfl, rfl, fun _ h => h, binds_set_existing hb _ _ rfl⟩

theorem expireReq_tbframe (s : State) (rid : ReqId) : TBFrame s (expireReq s rid) := by
  unfold expireReq
  split
  · exact TBFrame.of_eq rfl rfl rfl rfl rfl
  · rename_i rq rc _
    refine (slash_tbframe s rc.svc rq.provider).trans ?_
    unfold refund dropActive
    split <;> exact TBFrame.of_eq rfl rfl rfl rfl rfl

theorem foldl_expireReq_tbframe : ∀ (l : List ReqId) (s : State), TBFrame s (l.foldl expireReq s)
  | [], s => TBFrame.refl s
  | r :: rest, s => (expireReq_tbframe s r).trans (foldl_expireReq_tbframe rest (expireReq s r))

theorem expireCtx_tbframe (s : State) (id : CtxId) : TBFrame s (expireCtx s id) := by
  have h1 : TBFrame s (expirePhase s id).1 := by
    unfold expirePhase
    split
    · refine (foldl_expireReq_tbframe (activeOf s id (getCtx s id).batchCounter) s).trans ?_
      unfold completeBatch callback
      split <;> exact TBFrame.of_eq rfl rfl rfl rfl rfl
    · exact TBFrame.refl s
  refine h1.trans ?_
  unfold expireCtx finishExpire
  have hset : ∀ (t : State) (rc : Ctx), (settleCtx t id rc).earned = t.earned ∧ (settleCtx t id rc).oearned = t.oearned ∧
      (settleCtx t id rc).owners = t.owners ∧ (settleCtx t id rc).reqs = t.reqs ∧ (settleCtx t id rc).binds = t.binds := by
    intro t rc
    unfold settleCtx
    split
    · exact ⟨rfl, rfl, rfl, rfl, rfl⟩
    · split
      · split <;> exact ⟨rfl, rfl, rfl, rfl, rfl⟩
      · exact ⟨rfl, rfl, rfl, rfl, rfl⟩
  obtain ⟨q1, q2, q3, q4, q5⟩ := hset (setCtx (delExp (expirePhase s id).1 id (expirePhase s id).1.height) id (expirePhase s id).2)
    (expirePhase s id).2
  refine ⟨?_, ?_, ?_, ?_, ?_⟩
  · simp only [cleanBatch]; rw [q1]; rfl
  · simp only [cleanBatch]; rw [q2]; rfl
  · simp only [cleanBatch]; rw [q3]; rfl
  · intro e he
    simp only [cleanBatch] at he
    rw [q4] at he
    exact (List.mem_filter.mp he).1
  · intro x hx
    simp only [cleanBatch] at hx
    rw [q5] at hx
    exact ⟨x, hx, rfl⟩

/-- the providers `FilterServiceProviders` keeps all have a binding -/
theorem filterProviders_mem (s : State) (rc : Ctx) :
    ∀ (ps acc : List Addr) (tot : Coins) (provs : List Addr) (total : Coins),
      filterProviders s rc ps acc tot = some (provs, total) →
      ∀ p, p ∈ provs → p ∈ acc ∨ ∃ b, AMap.get? s.binds (rc.svc, p) = some b
  | [], acc, tot, provs, total, h, p, hp => by
    simp only [filterProviders] at h
    cases h; exact Or.inl hp
  | q :: rest, acc, tot, provs, total, h, p, hp => by
    simp only [filterProviders] at h
    split at h
    · exact filterProviders_mem s rc rest acc tot provs total h p hp
    · rename_i b hb
      split at h
      · split at h
        · cases h
        · split at h
          · rcases filterProviders_mem s rc rest _ _ provs total h p hp with h1 | h1
            · rw [List.mem_append, List.mem_singleton] at h1
              rcases h1 with h1 | h1
              · exact Or.inl h1
              · subst h1; exact Or.inr ⟨b, hb⟩
            · exact Or.inr h1
          · exact filterProviders_mem s rc rest acc tot provs total h p hp
      · exact filterProviders_mem s rc rest acc tot provs total h p hp

/-- the request loop: same tallies / owners / bindings; every new request is addressed to one of the providers -/
theorem mkRequests_tb (id : CtxId) (b : Nat) (svc : String) (cons : Addr) (to : Int) :
    ∀ (ps : List Addr) (i : Nat) (s : State),
      (mkRequests s id b svc cons to ps i).earned = s.earned ∧ (mkRequests s id b svc cons to ps i).oearned = s.oearned ∧
      (mkRequests s id b svc cons to ps i).owners = s.owners ∧ (mkRequests s id b svc cons to ps i).binds = s.binds ∧
      ∀ e, e ∈ (mkRequests s id b svc cons to ps i).reqs → e ∈ s.reqs ∨ e.2.provider ∈ ps
  | [], _, _ => ⟨rfl, rfl, rfl, rfl, fun _ h => Or.inl h⟩
  | p :: rest, i, s => by
    simp only [mkRequests]
    obtain ⟨h1, h2, h3, h4, h5⟩ := mkRequests_tb id b svc cons to rest (i + 1)
      (addRequest s (reqIdOf id b s.height i) (mkReq s id b svc cons to p))
    refine ⟨h1, h2, h3, h4, ?_⟩
    intro e he
    rcases h5 e he with h | h
    · simp only [addRequest] at h
      rcases mem_set _ _ _ _ h with h' | h'
      · exact Or.inl h'
      · right; rw [h']; exact List.mem_cons_self ..
    · exact Or.inr (List.mem_cons_of_mem _ h)

theorem onPaused_tbframe (t : State) (id : CtxId) (c : Ctx) (cause : String) : TBFrame t (onPaused t id c cause) := by
  unfold onPaused; split <;> exact TBFrame.of_eq rfl rfl rfl rfl rfl

theorem initiateRequests_tb (t : State) (id : CtxId) (provs : List Addr) :
    (initiateRequests t id provs).earned = t.earned ∧ (initiateRequests t id provs).oearned = t.oearned ∧
    (initiateRequests t id provs).owners = t.owners ∧ (initiateRequests t id provs).binds = t.binds ∧
    ∀ e, e ∈ (initiateRequests t id provs).reqs → e ∈ t.reqs ∨ e.2.provider ∈ provs := by
  unfold initiateRequests
  exact mkRequests_tb id _ _ _ _ provs 0 t

theorem TB_newBatch {s : State} (h : TB s) (id : CtxId) : TB (newBatch s id) := by
  unfold newBatch
  split
  · split
    · exact h.of_frame ((onPaused_tbframe s id _ _).trans (TBFrame.of_eq rfl rfl rfl rfl rfl))
    · rename_i provs total hfp
      split
      · unfold chargeAndStart
        split
        · obtain ⟨m1, m2, m3, m4, m5⟩ := initiateRequests_tb
            { s with bank := creditCoins (debitCoins s.bank (getCtx s id).consumer (sortCoins total)).1 reqAcc (sortCoins total) } id provs
          have hmem := filterProviders_mem s (getCtx s id) (getCtx s id).providers [] [] provs total hfp
          refine ⟨?_, ?_, ?_, ?_, ?_, ?_⟩
          · intro o d
            have := h.tally o d
            unfold providersEarned ownerEarned ownedBy at this ⊢
            simp only [delNew, addExp]
            rw [m1, m2, m3]; exact this
          · simp only [delNew, addExp]; rw [m1]; exact h.nd1
          · simp only [delNew, addExp]; rw [m2]; exact h.nd2
          · simp only [delNew, addExp]; rw [m1, m3]; exact h.earnedO
          · intro e he
            simp only [delNew, addExp] at he ⊢
            rw [m3]
            rcases m5 e he with h' | h'
            · exact h.reqO e h'
            · rcases hmem _ h' with hn | ⟨b, hb⟩
              · cases hn
              · exact h.bindO _ (get?_mem _ _ _ hb)
          · intro e he
            simp only [delNew, addExp] at he ⊢
            rw [m3]; rw [m4] at he
            exact h.bindO e he
        · exact h.of_frame ((onPaused_tbframe s id _ _).trans (TBFrame.of_eq rfl rfl rfl rfl rfl))
      · exact h.of_frame (TBFrame.of_eq rfl rfl rfl rfl rfl)
  · exact h.of_frame (TBFrame.of_eq rfl rfl rfl rfl rfl)

theorem TB_endBlock {s : State} (h : TB s) : TB (endBlock s) := by
  unfold endBlock newPhase expiredPhase
  have f1 : ∀ (l : List CtxId) (t : State), TB t → TB (l.foldl expireCtx t) := by
    intro l
    induction l with
    | nil => intro t ht; exact ht
    | cons id rest ih => intro t ht; exact ih _ (ht.of_frame (expireCtx_tbframe t id))
  have f2 : ∀ (l : List CtxId) (t : State), TB t → TB (l.foldl newBatch t) := by
    intro l
    induction l with
    | nil => intro t ht; exact ht
    | cons id rest ih => intro t ht; exact ih _ (TB_newBatch ht id)
  exact f2 _ _ (f1 _ _ h)

theorem TB_nextBlock {s : State} (h : TB s) (dt : Int) : TB (nextBlock s dt) := by
  unfold nextBlock beginNext
  exact (TB_endBlock h).of_frame (TBFrame.of_eq rfl rfl rfl rfl rfl)

theorem TB_skipBlocks (dt : Int) : ∀ (n : Nat) (s : State), TB s → TB (skipBlocks s dt n)
  | 0, _, h => h
  | n + 1, s, h => TB_skipBlocks dt n (nextBlock s dt) (TB_nextBlock h dt)

end Irismod.Proofs.Service

namespace Irismod.Proofs.Service
open Irismod Irismod.Sdk Irismod.Service Irismod.Spec.C07

/-! ### message handlers -/

/-- a new binding: the provider gets an owner unless it has one; one binding key is added for that provider -/
theorem TB.bindLike {s s' : State} (h : TB s) (provider owner : Addr) (e1 : s'.earned = s.earned) (e2 : s'.oearned = s.oearned)
    (e4 : s'.reqs = s.reqs)
    (e3 : s'.owners = if AMap.contains s.owners provider then s.owners else AMap.set s.owners provider owner)
    (e5 : ∀ x, x ∈ s'.binds → x ∈ s.binds ∨ x.1.2 = provider) : TB s' := by
  by_cases hc : AMap.contains s.owners provider = true
  · rw [if_pos hc] at e3
    refine ⟨?_, by rw [e1]; exact h.nd1, by rw [e2]; exact h.nd2, by rw [e1, e3]; exact h.earnedO,
      by rw [e4, e3]; exact h.reqO, ?_⟩
    · intro o d
      have := h.tally o d
      unfold providersEarned ownerEarned ownedBy at this ⊢
      rw [e1, e2, e3]; exact this
    · intro x hx
      rw [e3]
      rcases e5 x hx with h' | h'
      · exact h.bindO x h'
      · rw [h']; exact hc
  · rw [if_neg hc] at e3
    have hmono : ∀ a, AMap.contains s.owners a = true → AMap.contains s'.owners a = true := by
      intro a ha; rw [e3]; exact contains_set_mono _ _ _ _ ha
    refine ⟨?_, by rw [e1]; exact h.nd1, by rw [e2]; exact h.nd2, ?_, ?_, ?_⟩
    · intro o d
      have := h.tally o d
      unfold providersEarned ownerEarned ownedBy at this ⊢
      rw [e1, e2, e3, ← this]
      apply sumIf_congr_mem
      intro e he
      have hne : provider ≠ e.1.1 := by
        intro heq
        exact hc (by rw [heq]; exact h.earnedO e he)
      rw [AMap.get?_set_other _ _ _ _ hne]
    · intro e he; rw [e1] at he; exact hmono _ (h.earnedO e he)
    · intro e he; rw [e4] at he; exact hmono _ (h.reqO e he)
    · intro x hx
      rcases e5 x hx with h' | h'
      · exact hmono _ (h.bindO x h')
      · rw [h', e3, contains_iff]; exact ⟨owner, AMap.get?_set_self _ _ _⟩

theorem TB_bind {s s' : State} {owner provider svc dep qos pin optsOk} (hs : TB s)
    (h : stepBind s owner provider svc dep qos pin optsOk = .ok s') : TB s' := by
  unfold stepBind at h
  split at h
  · cases h
  split at h
  · cases h
  obtain ⟨d, pr, bank, _, _, _, rfl⟩ := keeperBind_inv h
  refine hs.bindLike provider owner rfl rfl rfl rfl ?_
  intro x hx
  simp only [bindState] at hx
  rcases mem_set _ _ _ _ hx with h' | h'
  · exact Or.inl h'
  · right; rw [h']

theorem TB_updateBinding {s s' : State} {owner provider svc dep qos pin opts} (hs : TB s)
    (h : stepUpdateBinding s owner provider svc dep qos pin opts = .ok s') : TB s' := by
  unfold stepUpdateBinding at h
  split at h
  · cases h
  obtain ⟨b, d, pr, bank, hb, _, _, _, rfl⟩ := keeperUpdateBinding_inv h
  refine hs.of_frame ⟨rfl, rfl, rfl, fun _ h => h, ?_⟩
  split
  · exact binds_set_existing hb _ _ rfl
  · exact binds_same rfl

theorem TB_disable {s s' : State} {owner provider svc} (hs : TB s)
    (h : stepDisable s owner provider svc = .ok s') : TB s' := by
  unfold stepDisable at h
  split at h
  · cases h
  split at h
  · cases h
  rename_i b hb
  split at h
  · cases h
  split at h
  · cases h
  cases h
  exact hs.of_frame ⟨rfl, rfl, rfl, fun _ h => h, binds_set_existing hb _ _ rfl⟩

theorem TB_enable {s s' : State} {owner provider svc dep} (hs : TB s)
    (h : stepEnable s owner provider svc dep = .ok s') : TB s' := by
  unfold stepEnable at h
  split at h
  · cases h
  unfold keeperEnable at h
  split at h
  · cases h
  rename_i b hb
  split at h
  · cases h
  split at h
  · cases h
  split at h
  · cases h
  split at h
  · cases h
  split at h
  · cases h
  cases h
  exact hs.of_frame ⟨rfl, rfl, rfl, fun _ h => h, binds_set_existing hb _ _ rfl⟩

theorem TB_refundDeposit {s s' : State} {owner provider svc} (hs : TB s)
    (h : stepRefundDeposit s owner provider svc = .ok s') : TB s' := by
  unfold stepRefundDeposit at h
  split at h
  · cases h
  unfold keeperRefundDeposit at h
  split at h
  · cases h
  rename_i b hb
  split at h
  · cases h
  split at h
  · cases h
  split at h
  · cases h
  split at h
  · cases h
  split at h
  · cases h
  cases h
  exact hs.of_frame ⟨rfl, rfl, rfl, fun _ h => h, binds_set_existing hb _ _ rfl⟩

theorem TB_createCtx {s s' : State} {newId svc providers consumer inputOk cap timeout repeated freq total st thr moduleName}
    (hs : TB s)
    (h : createCtx s newId svc providers consumer inputOk cap timeout repeated freq total st thr moduleName = .ok s') :
    TB s' := by
  unfold createCtx at h
  split at h
  · cases h
  split at h
  · cases h
  split at h
  · cases h
  split at h
  · cases h
  split at h
  · cases h
  cases h
  unfold createState
  split <;> exact hs.of_frame (TBFrame.of_eq rfl rfl rfl rfl rfl)

theorem TB_call {s s' : State} {newId consumer svc providers cap timeout repeated freq total inputOk} (hs : TB s)
    (h : stepCall s newId consumer svc providers cap timeout repeated freq total inputOk = .ok s') : TB s' := by
  unfold stepCall at h
  split at h
  · cases h
  split at h
  · cases h
  split at h
  · cases h
  exact TB_createCtx hs h

theorem TB_keeperPause {s s' : State} {id consumer} (hs : TB s) (h : keeperPause s id consumer = .ok s') : TB s' := by
  unfold keeperPause at h
  split at h
  · cases h
  split at h
  · cases h
  split at h
  · cases h
  split at h
  · cases h
  cases h
  exact hs.of_frame (TBFrame.of_eq rfl rfl rfl rfl rfl)

theorem TB_keeperStart {s s' : State} {id consumer} (hs : TB s) (h : keeperStart s id consumer = .ok s') : TB s' := by
  unfold keeperStart at h
  split at h
  · cases h
  split at h
  · cases h
  split at h
  · cases h
  split at h
  · cases h
  cases h
  split <;> exact hs.of_frame (TBFrame.of_eq rfl rfl rfl rfl rfl)

theorem TB_keeperKill {s s' : State} {id consumer} (hs : TB s) (h : keeperKill s id consumer = .ok s') : TB s' := by
  unfold keeperKill at h
  split at h
  · cases h
  split at h
  · cases h
  split at h
  · cases h
  cases h
  exact hs.of_frame (TBFrame.of_eq rfl rfl rfl rfl rfl)

theorem TB_keeperUpdate {s s' : State} {id providers thr cap timeout freq total consumer} (hs : TB s)
    (h : keeperUpdate s id providers thr cap timeout freq total consumer = .ok s') : TB s' := by
  unfold keeperUpdate at h
  split at h
  · cases h
  split at h
  · cases h
  split at h
  · cases h
  split at h
  · cases h
  split at h
  · cases h
  split at h
  · cases h
  split at h
  · cases h
  split at h
  · cases h
  split at h
  · cases h
  cases h
  exact hs.of_frame (TBFrame.of_eq rfl rfl rfl rfl rfl)

theorem bump_mem {m : AMap (Addr × Denom) Nat} {a : Addr} {d : Denom} {n : Nat} {e : (Addr × Denom) × Nat}
    (h : e ∈ bump m a d n) : e ∈ m ∨ e.1.1 = a := by
  unfold bump at h
  split at h
  · exact Or.inl h
  · rcases mem_set _ _ _ _ h with h' | h'
    · exact Or.inl h'
    · right; rw [h']

theorem KeysNodup.bump {m : AMap (Addr × Denom) Nat} (h : KeysNodup m) (a : Addr) (d : Denom) (n : Nat) :
    KeysNodup (Irismod.Service.bump m a d n) := by
  unfold Irismod.Service.bump
  split
  · exact h
  · exact h.set _ _

theorem TB_countResponse {s : State} (hs : TB s) (id : CtxId) : TB (countResponse s id) := by
  unfold countResponse
  split
  · unfold storeCtx completeBatch callback
    split <;> exact hs.of_frame (TBFrame.of_eq rfl rfl rfl rfl rfl)
  · exact hs.of_frame (TBFrame.of_eq rfl rfl rfl rfl rfl)

theorem TB_respond {s s' : State} {provider rid code out resOk} (hs : TB s)
    (h : stepRespond s provider rid code out resOk = .ok s') : TB s' := by
  unfold stepRespond at h
  split at h
  · cases h
  split at h
  · cases h
  unfold keeperRespond at h
  split at h
  · cases h
  rename_i rq rc hreq
  split at h
  · cases h
  rename_i hprov
  split at h
  · cases h
  split at h
  · cases h
  rename_i s1 hfee
  cases h
  have hprov' : provider = rq.provider := Decidable.of_not_not hprov
  -- the request is stored, so its provider has an owner
  have hmem : ∃ r, (r, rq) ∈ s.reqs := by
    unfold getRequest at hreq
    split at hreq
    · cases hreq
    rename_i rq' hg
    split at hreq
    · cases hreq
    cases hreq
    exact ⟨_, get?_mem _ _ _ hg⟩
  obtain ⟨r, hr⟩ := hmem
  have hown := hs.reqO _ hr
  rw [contains_iff] at hown
  obtain ⟨o, ho⟩ := hown
  simp only at ho
  rw [← hprov'] at ho
  unfold addEarnedFee at hfee
  split at hfee
  · cases hfee
  split at hfee
  · cases hfee
  cases hfee
  have hgd : AMap.getD s.owners provider "" = o := by unfold AMap.getD; rw [ho]; rfl
  refine TB_countResponse ?_ _
  refine ⟨?_, ?_, ?_, ?_, ?_, ?_⟩
  · exact tally_bump hs.tally ho _ _ _ rfl (by simp only [recordResponse]; rw [hgd]) rfl
  · exact hs.nd1.bump _ _ _
  · exact hs.nd2.bump _ _ _
  · intro e he
    simp only [recordResponse] at he ⊢
    rcases bump_mem he with h' | h'
    · exact hs.earnedO e h'
    · rw [h', contains_iff]; exact ⟨o, ho⟩
  · exact hs.reqO
  · exact hs.bindO

theorem mem_eraseAll {m : AMap (Addr × Denom) Nat} {a : Addr} {e : (Addr × Denom) × Nat} (h : e ∈ eraseAll m a) : e ∈ m := by
  unfold eraseAll at h
  exact (List.mem_filter.mp h).1

theorem TB_withdrawProvider {s s' : State} {owner p : Addr} (hs : TB s) (h : withdrawProvider s owner p = .ok s') : TB s' := by
  obtain ⟨t1, t2, t3⟩ := tally_withdrawProvider hs.tally hs.nd1 hs.nd2 h
  unfold withdrawProvider at h
  split at h
  · cases h
  split at h
  · cases h
  split at h
  · cases h
  cases h
  exact ⟨t1, t2, t3, fun e he => hs.earnedO e (mem_eraseAll he), hs.reqO, hs.bindO⟩

theorem TB_stepCore {s s' : State} {op : Op} (hs : TB s) (hr : opReachable op) (h : stepCore s op = .ok s') : TB s' := by
  cases op with
  | define sender name schOk =>
    simp only [stepCore, stepDefine] at h
    split at h
    · cases h
    split at h
    · cases h
    split at h
    · cases h
    split at h
    · cases h
    cases h
    exact hs.of_frame (TBFrame.of_eq rfl rfl rfl rfl rfl)
  | bind owner provider svc dep qos pin optsOk => exact TB_bind hs h
  | updateBinding owner provider svc dep qos pin opts => exact TB_updateBinding hs h
  | setWithdraw owner addr =>
    simp only [stepCore, stepSetWithdraw] at h
    split at h
    · cases h
    split at h
    · cases h
    cases h
    exact hs.of_frame (TBFrame.of_eq rfl rfl rfl rfl rfl)
  | enable owner provider svc dep => exact TB_enable hs h
  | disable owner provider svc => exact TB_disable hs h
  | refundDeposit owner provider svc => exact TB_refundDeposit hs h
  | call tx consumer svc providers cap timeout repeated freq total inputOk => exact TB_call hs h
  | mcall tx consumer svc providers cap timeout repeated freq total inputOk paused thr modName => exact TB_createCtx hs h
  | respond provider rid code out resOk => exact TB_respond hs h
  | withdraw owner provider =>
    simp only [stepCore, stepWithdraw] at h
    split at h
    · cases h
    split at h
    · cases h
    exact TB_withdrawProvider hs h
  | withdrawK owner provider =>
    cases provider with
    | none => exact absurd hr (by simp [opReachable])
    | some p => exact TB_withdrawProvider hs h
  | pause consumer id => exact TB_keeperPause hs (stepPause_inv h)
  | start consumer id => exact TB_keeperStart hs (stepStart_inv h)
  | kill consumer id => exact TB_keeperKill hs (stepKill_inv h)
  | updateCtx consumer id providers cap timeout freq total => exact TB_keeperUpdate hs (stepUpdateCtx_inv h)
  | mpause consumer id => exact TB_keeperPause hs h
  | mstart consumer id => exact TB_keeperStart hs h
  | mkill consumer id => exact TB_keeperKill hs h
  | mupdate consumer id providers thr cap timeout freq total => exact TB_keeperUpdate hs h
  | setRate d r =>
    simp only [stepCore] at h
    cases h
    exact hs.of_frame (TBFrame.of_eq rfl rfl rfl rfl rfl)
  | next dt =>
    simp only [stepCore] at h
    cases h
    exact TB_nextBlock hs dt
  | skip n dt =>
    simp only [stepCore] at h
    cases h
    exact TB_skipBlocks dt n s hs

theorem TB_empty (s : State) (h1 : s.earned = []) (h2 : s.oearned = []) (h3 : s.reqs = []) (h4 : s.binds = []) : TB s := by
  refine ⟨?_, ?_, ?_, ?_, ?_, ?_⟩
  · intro o d
    unfold providersEarned ownerEarned
    rw [h1, h2]; rfl
  · unfold KeysNodup; rw [h1]; exact List.nodup_nil
  · unfold KeysNodup; rw [h2]; exact List.nodup_nil
  · intro e he; rw [h1] at he; cases he
  · intro e he; rw [h3] at he; cases he
  · intro e he; rw [h4] at he; cases he

end Irismod.Proofs.Service
