/-
C07, owner-side = provider-side tallies as an invariant over histories (after /repo 5529ca8).
-/
import Irismod.Proofs.ServiceTally

namespace Irismod.Proofs.Service
open Irismod Irismod.Sdk Irismod.Service Irismod.Spec.C07

/-! ### membership in association lists -/

theorem mem_set {K V : Type} [DecidableEq K] : ∀ (m : AMap K V) (k : K) (v : V) (e : K × V),
    e ∈ AMap.set m k v → e ∈ m ∨ e = (k, v)
  | [], k, v, e, h => by simp [AMap.set] at h; exact Or.inr h
  | (k0, v0) :: t, k, v, e, h => by
    simp only [AMap.set] at h
    split at h
    · rcases List.mem_cons.mp h with h | h
      · exact Or.inr h
      · exact Or.inl (List.mem_cons_of_mem _ h)
    · rcases List.mem_cons.mp h with h | h
      · exact Or.inl (by rw [h]; exact List.mem_cons_self ..)
      · rcases mem_set t k v e h with h' | h'
        · exact Or.inl (List.mem_cons_of_mem _ h')
        · exact Or.inr h'

theorem get?_mem {K V : Type} [DecidableEq K] : ∀ (m : AMap K V) (k : K) (v : V), AMap.get? m k = some v → (k, v) ∈ m
  | [], _, _, h => by simp [AMap.get?] at h
  | (k0, v0) :: t, k, v, h => by
    simp only [AMap.get?] at h
    split at h
    · rename_i hk; cases h; subst hk; exact List.mem_cons_self ..
    · exact List.mem_cons_of_mem _ (get?_mem t k v h)

theorem mem_get? {K V : Type} [DecidableEq K] : ∀ (m : AMap K V) (e : K × V), e ∈ m → ∃ v, AMap.get? m e.1 = some v
  | [], _, h => by cases h
  | (k0, v0) :: t, e, h => by
    by_cases hk : k0 = e.1
    · exact ⟨v0, by simp [AMap.get?, hk]⟩
    · rcases List.mem_cons.mp h with h | h
      · subst h; exact absurd rfl hk
      · obtain ⟨v, hv⟩ := mem_get? t e h
        exact ⟨v, by simp only [AMap.get?, hk, if_false]; exact hv⟩

theorem contains_set_mono {K V : Type} [DecidableEq K] (m : AMap K V) (k k' : K) (v : V) (h : AMap.contains m k' = true) :
    AMap.contains (AMap.set m k v) k' = true := by
  rw [contains_iff] at h ⊢
  by_cases hk : k = k'
  · subst hk; exact ⟨v, AMap.get?_set_self _ _ _⟩
  · rw [AMap.get?_set_other _ _ _ _ hk]; exact h

theorem sumIf_congr_mem {K V : Type} (p q : K → Bool) (f : V → Nat) : ∀ (m : AMap K V), (∀ e, e ∈ m → p e.1 = q e.1) →
    AMap.sumIf p f m = AMap.sumIf q f m
  | [], _ => rfl
  | (k, v) :: t, h => by
    simp only [AMap.sumIf]
    rw [h (k, v) (List.mem_cons_self ..), sumIf_congr_mem p q f t (fun e he => h e (List.mem_cons_of_mem _ he))]

/-! ### the bundle -/

/-- tallies agree; the two tables have unique keys; every provider with earned fees, with a request or with a
binding has an owner -/
structure TB (s : State) : Prop where
  tally   : TallyInv s
  nd1     : KeysNodup s.earned
  nd2     : KeysNodup s.oearned
  earnedO : ∀ e, e ∈ s.earned → AMap.contains s.owners e.1.1 = true
  reqO    : ∀ e, e ∈ s.reqs → AMap.contains s.owners e.2.provider = true
  bindO   : ∀ e, e ∈ s.binds → AMap.contains s.owners e.1.2 = true

/-- nothing the bundle reads has changed, except possibly bindings replaced under existing keys -/
theorem TB.of_same {s s' : State} (h : TB s) (e1 : s'.earned = s.earned) (e2 : s'.oearned = s.oearned)
    (e3 : s'.owners = s.owners) (e4 : s'.reqs = s.reqs)
    (e5 : ∀ e, e ∈ s'.binds → ∃ e0, e0 ∈ s.binds ∧ e0.1 = e.1) : TB s' := by
  refine ⟨?_, by rw [e1]; exact h.nd1, by rw [e2]; exact h.nd2, by rw [e1, e3]; exact h.earnedO,
    by rw [e4, e3]; exact h.reqO, ?_⟩
  · intro o d
    have := h.tally o d
    unfold providersEarned ownerEarned ownedBy at this ⊢
    rw [e1, e2, e3]; exact this
  · intro e he
    obtain ⟨e0, h0, hk⟩ := e5 e he
    rw [e3, ← hk]; exact h.bindO e0 h0

theorem binds_same {s s' : State} (e : s'.binds = s.binds) : ∀ x, x ∈ s'.binds → ∃ e0, e0 ∈ s.binds ∧ e0.1 = x.1 :=
  fun x hx => ⟨x, by rw [← e]; exact hx, rfl⟩

/-- a binding replaced under a key that already exists -/
theorem binds_set_existing {s : State} {k : String × Addr} {b0 : Binding} (hg : AMap.get? s.binds k = some b0) (b : Binding)
    (s' : State) (e : s'.binds = AMap.set s.binds k b) : ∀ x, x ∈ s'.binds → ∃ e0, e0 ∈ s.binds ∧ e0.1 = x.1 := by
  intro x hx
  rw [e] at hx
  rcases mem_set _ _ _ _ hx with h | h
  · exact ⟨x, h, rfl⟩
  · exact ⟨(k, b0), get?_mem _ _ _ hg, by rw [h]⟩

end Irismod.Proofs.Service

namespace Irismod.Proofs.Service
open Irismod Irismod.Sdk Irismod.Service Irismod.Spec.C07

/-- tallies and owners untouched; requests only removed; bindings only replaced under existing keys -/
def TBFrame (s s' : State) : Prop :=
  s'.earned = s.earned ∧ s'.oearned = s.oearned ∧ s'.owners = s.owners ∧ (∀ e, e ∈ s'.reqs → e ∈ s.reqs) ∧
  (∀ x, x ∈ s'.binds → ∃ e0, e0 ∈ s.binds ∧ e0.1 = x.1)

theorem TBFrame.refl (s : State) : TBFrame s s := ⟨rfl, rfl, rfl, fun _ h => h, fun x hx => ⟨x, hx, rfl⟩⟩

theorem TBFrame.trans {a b c : State} (h1 : TBFrame a b) (h2 : TBFrame b c) : TBFrame a c := by
  refine ⟨h2.1.trans h1.1, h2.2.1.trans h1.2.1, h2.2.2.1.trans h1.2.2.1, fun e he => h1.2.2.2.1 e (h2.2.2.2.1 e he), ?_⟩
  intro x hx
  obtain ⟨e1, m1, k1⟩ := h2.2.2.2.2 x hx
  obtain ⟨e0, m0, k0⟩ := h1.2.2.2.2 e1 m1
  exact ⟨e0, m0, k0.trans k1⟩

theorem TBFrame.of_eq {s s' : State} (e1 : s'.earned = s.earned) (e2 : s'.oearned = s.oearned) (e3 : s'.owners = s.owners)
    (e4 : s'.reqs = s.reqs) (e5 : s'.binds = s.binds) : TBFrame s s' :=
  ⟨e1, e2, e3, fun e he => by rw [← e4]; exact he, binds_same e5⟩

theorem TB.of_frame {s s' : State} (h : TB s) (f : TBFrame s s') : TB s' := by
  obtain ⟨e1, e2, e3, e4, e5⟩ := f
  refine ⟨?_, by rw [e1]; exact h.nd1, by rw [e2]; exact h.nd2, by rw [e1, e3]; exact h.earnedO,
    fun e he => by rw [e3]; exact h.reqO e (e4 e he), ?_⟩
  · intro o d
    have := h.tally o d
    unfold providersEarned ownerEarned ownedBy at this ⊢
    rw [e1, e2, e3]; exact this
  · intro e he
    obtain ⟨e0, h0, hk⟩ := e5 e he
    rw [e3, ← hk]; exact h.bindO e0 h0

theorem slash_tbframe (s : State) (svc : String) (p : Addr) : TBFrame s (slash s svc p) := by
  unfold slash
  split
  · exact TBFrame.refl s
  · rename_i b hb
    split
    · exact TBFrame.refl s
    · split
      · exact TBFrame.refl s
      · exact ⟨rfl, rfl, rfl, fun _ h => h, binds_set_existing hb _ _ rfl⟩

theorem expireReq_tbframe (s : State) (rid : ReqId) : TBFrame s (expireReq s rid) := by
  unfold expireReq
  split
  · exact TBFrame.of_eq rfl rfl rfl rfl rfl
  · rename_i rq rc _
    refine (slash_tbframe s rc.svc rq.provider).trans ?_
    unfold refund dropActive
    split <;> exact TBFrame.of_eq rfl rfl rfl rfl rfl

theorem foldl_expireReq_tbframe : ∀ (l : List ReqId) (s : State), TBFrame s (l.foldl expireReq s)
  | [], s => TBFrame.refl s
  | r :: rest, s => (expireReq_tbframe s r).trans (foldl_expireReq_tbframe rest (expireReq s r))

theorem expireCtx_tbframe (s : State) (id : CtxId) : TBFrame s (expireCtx s id) := by
  have h1 : TBFrame s (expirePhase s id).1 := by
    unfold expirePhase
    split
    · refine (foldl_expireReq_tbframe (activeOf s id (getCtx s id).batchCounter) s).trans ?_
      unfold completeBatch callback
      split <;> exact TBFrame.of_eq rfl rfl rfl rfl rfl
    · exact TBFrame.refl s
  refine h1.trans ?_
  unfold expireCtx finishExpire
  have hset : ∀ (t : State) (rc : Ctx), (settleCtx t id rc).earned = t.earned ∧ (settleCtx t id rc).oearned = t.oearned ∧
      (settleCtx t id rc).owners = t.owners ∧ (settleCtx t id rc).reqs = t.reqs ∧ (settleCtx t id rc).binds = t.binds := by
    intro t rc
    unfold settleCtx
    split
    · exact ⟨rfl, rfl, rfl, rfl, rfl⟩
    · split
      · split <;> exact ⟨rfl, rfl, rfl, rfl, rfl⟩
      · exact ⟨rfl, rfl, rfl, rfl, rfl⟩
  obtain ⟨q1, q2, q3, q4, q5⟩ := hset (setCtx (delExp (expirePhase s id).1 id (expirePhase s id).1.height) id (expirePhase s id).2)
    (expirePhase s id).2
  refine ⟨?_, ?_, ?_, ?_, ?_⟩
  · simp only [cleanBatch]; rw [q1]; rfl
  · simp only [cleanBatch]; rw [q2]; rfl
  · simp only [cleanBatch]; rw [q3]; rfl
  · intro e he
    simp only [cleanBatch] at he
    rw [q4] at he
    exact (List.mem_filter.mp he).1
  · intro x hx
    simp only [cleanBatch] at hx
    rw [q5] at hx
    exact ⟨x, hx, rfl⟩

/-- the providers `FilterServiceProviders` keeps all have a binding -/
theorem filterProviders_mem (s : State) (rc : Ctx) :
    ∀ (ps acc : List Addr) (tot : Coins) (provs : List Addr) (total : Coins),
      filterProviders s rc ps acc tot = some (provs, total) →
      ∀ p, p ∈ provs → p ∈ acc ∨ ∃ b, AMap.get? s.binds (rc.svc, p) = some b
  | [], acc, tot, provs, total, h, p, hp => by
    simp only [filterProviders] at h
    cases h; exact Or.inl hp
  | q :: rest, acc, tot, provs, total, h, p, hp => by
    simp only [filterProviders] at h
    split at h
    · exact filterProviders_mem s rc rest acc tot provs total h p hp
    · rename_i b hb
      split at h
      · split at h
        · cases h
        · split at h
          · rcases filterProviders_mem s rc rest _ _ provs total h p hp with h1 | h1
            · rw [List.mem_append, List.mem_singleton] at h1
              rcases h1 with h1 | h1
              · exact Or.inl h1
              · subst h1; exact Or.inr ⟨b, hb⟩
            · exact Or.inr h1
          · exact filterProviders_mem s rc rest acc tot provs total h p hp
      · exact filterProviders_mem s rc rest acc tot provs total h p hp

/-- the request loop: same tallies / owners / bindings; every new request is addressed to one of the providers -/
theorem mkRequests_tb (id : CtxId) (b : Nat) (svc : String) (cons : Addr) (to : Int) :
    ∀ (ps : List Addr) (i : Nat) (s : State),
      (mkRequests s id b svc cons to ps i).earned = s.earned ∧ (mkRequests s id b svc cons to ps i).oearned = s.oearned ∧
      (mkRequests s id b svc cons to ps i).owners = s.owners ∧ (mkRequests s id b svc cons to ps i).binds = s.binds ∧
      ∀ e, e ∈ (mkRequests s id b svc cons to ps i).reqs → e ∈ s.reqs ∨ e.2.provider ∈ ps
  | [], _, _ => ⟨rfl, rfl, rfl, rfl, fun _ h => Or.inl h⟩
  | p :: rest, i, s => by
    simp only [mkRequests]
    obtain ⟨h1, h2, h3, h4, h5⟩ := mkRequests_tb id b svc cons to rest (i + 1)
      (addRequest s (reqIdOf id b s.height i) (mkReq s id b svc cons to p))
    refine ⟨h1, h2, h3, h4, ?_⟩
    intro e he
    rcases h5 e he with h | h
    · simp only [addRequest] at h
      rcases mem_set _ _ _ _ h with h' | h'
      · exact Or.inl h'
      · right; rw [h']; exact List.mem_cons_self ..
    · exact Or.inr (List.mem_cons_of_mem _ h)

theorem onPaused_tbframe (t : State) (id : CtxId) (c : Ctx) (cause : String) : TBFrame t (onPaused t id c cause) := by
  unfold onPaused; split <;> exact TBFrame.of_eq rfl rfl rfl rfl rfl

theorem TB_newBatch {s : State} (h : TB s) (id : CtxId) : TB (newBatch s id) := by
  unfold newBatch
  split
  · split
    · exact h.of_frame ((onPaused_tbframe s id _ _).trans (TBFrame.of_eq rfl rfl rfl rfl rfl))
    · rename_i provs total hfp
      split
      · unfold chargeAndStart
        split
        · obtain ⟨m1, m2, m3, m4, m5⟩ := mkRequests_tb id ((getCtx s id).batchCounter + 1) (getCtx s id).svc
            (getCtx s id).consumer (getCtx s id).timeout provs 0
            { s with bank := creditCoins (debitCoins s.bank (getCtx s id).consumer (sortCoins total)).1 reqAcc (sortCoins total) }
          have hmem := filterProviders_mem s (getCtx s id) (getCtx s id).providers [] [] provs total hfp
          refine ⟨?_, ?_, ?_, ?_, ?_, ?_⟩
          · intro o d
            have := h.tally o d
            unfold providersEarned ownerEarned ownedBy at this ⊢
            simp only [delNew, addExp, initiateRequests, setCtx]
            rw [m1, m2, m3]; exact this
          · simp only [delNew, addExp, initiateRequests, setCtx]; rw [m1]; exact h.nd1
          · simp only [delNew, addExp, initiateRequests, setCtx]; rw [m2]; exact h.nd2
          · simp only [delNew, addExp, initiateRequests, setCtx]; rw [m1, m3]; exact h.earnedO
          · intro e he
            simp only [delNew, addExp, initiateRequests, setCtx] at he ⊢
            rw [m3]
            rcases m5 e he with h' | h'
            · exact h.reqO e h'
            · rcases hmem _ h' with hn | ⟨b, hb⟩
              · cases hn
              · exact h.bindO _ (get?_mem _ _ _ hb)
          · intro e he
            simp only [delNew, addExp, initiateRequests, setCtx] at he ⊢
            rw [m3]; rw [m4] at he
            exact h.bindO e he
        · exact h.of_frame ((onPaused_tbframe s id _ _).trans (TBFrame.of_eq rfl rfl rfl rfl rfl))
      · exact h.of_frame (TBFrame.of_eq rfl rfl rfl rfl rfl)
  · exact h.of_frame (TBFrame.of_eq rfl rfl rfl rfl rfl)

theorem TB_endBlock {s : State} (h : TB s) : TB (endBlock s) := by
  unfold endBlock newPhase expiredPhase
  have f1 : ∀ (l : List CtxId) (t : State), TB t → TB (l.foldl expireCtx t) := by
    intro l
    induction l with
    | nil => intro t ht; exact ht
    | cons id rest ih => intro t ht; exact ih _ (ht.of_frame (expireCtx_tbframe t id))
  have f2 : ∀ (l : List CtxId) (t : State), TB t → TB (l.foldl newBatch t) := by
    intro l
    induction l with
    | nil => intro t ht; exact ht
    | cons id rest ih => intro t ht; exact ih _ (TB_newBatch ht id)
  exact f2 _ _ (f1 _ _ h)

theorem TB_nextBlock {s : State} (h : TB s) (dt : Int) : TB (nextBlock s dt) := by
  unfold nextBlock beginNext
  exact (TB_endBlock h).of_frame (TBFrame.of_eq rfl rfl rfl rfl rfl)

theorem TB_skipBlocks (dt : Int) : ∀ (n : Nat) (s : State), TB s → TB (skipBlocks s dt n)
  | 0, _, h => h
  | n + 1, s, h => TB_skipBlocks dt n (nextBlock s dt) (TB_nextBlock h dt)

end Irismod.Proofs.Service
