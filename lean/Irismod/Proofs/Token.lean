/-
Helper lemmas for C09 / C10 (token): association-map and bank facts the shared substrate
does not provide, the effect of the fee handler on the ledger, and inversion lemmas (what an
accepted handler did) for every message handler of `Irismod.Token`.
-/
import Irismod.Spec.C10

namespace Irismod.Proofs.Token
open Irismod Irismod.Sdk Irismod.Token

/-! ### association maps -/

section amap
variable {K V : Type} [DecidableEq K]

theorem get?_erase_self (m : AMap K V) (k : K) : AMap.get? (AMap.erase m k) k = none := by
  induction m with
  | nil => rfl
  | cons hd t ih =>
    obtain ⟨k', v'⟩ := hd
    by_cases hk : k' = k
    · simp [AMap.erase, hk, ih]
    · simp [AMap.erase, AMap.get?, hk, ih]

theorem get?_erase_other (m : AMap K V) (k k2 : K) (h : k ≠ k2) :
    AMap.get? (AMap.erase m k) k2 = AMap.get? m k2 := by
  induction m with
  | nil => rfl
  | cons hd t ih =>
    obtain ⟨k', v'⟩ := hd
    by_cases hk : k' = k
    · subst hk; simp [AMap.erase, AMap.get?, h, ih]
    · by_cases hk2 : k' = k2
      · subst hk2; simp [AMap.erase, AMap.get?, hk]
      · simp [AMap.erase, AMap.get?, hk, hk2, ih]

/-- lookups after `set`, as one equation -/
theorem get?_set (m : AMap K V) (k k2 : K) (v : V) :
    AMap.get? (AMap.set m k v) k2 = if k = k2 then some v else AMap.get? m k2 := by
  by_cases h : k = k2
  · subst h; simp [AMap.get?_set_self]
  · simp [h, AMap.get?_set_other _ _ _ _ h]

theorem contains_false {m : AMap K V} {k : K} (h : AMap.contains m k = false) : AMap.get? m k = none := by
  unfold AMap.contains at h
  cases hg : AMap.get? m k with
  | none => rfl
  | some v => simp [hg] at h

theorem contains_true {m : AMap K V} {k : K} (h : AMap.contains m k = true) : ∃ v, AMap.get? m k = some v := by
  unfold AMap.contains at h
  cases hg : AMap.get? m k with
  | none => simp [hg] at h
  | some v => exact ⟨v, rfl⟩

theorem getD_set_self (m : AMap K V) (k : K) (v d : V) : AMap.getD (AMap.set m k v) k d = v := by
  simp [AMap.getD, AMap.get?_set_self]

theorem getD_set_other (m : AMap K V) (k k2 : K) (v d : V) (h : k ≠ k2) :
    AMap.getD (AMap.set m k v) k2 d = AMap.getD m k2 d := by
  simp [AMap.getD, AMap.get?_set_other _ _ _ _ h]

end amap

/-! ### bank -/

theorem supplyOf_setBal (b : Bank) (a d v d') : (b.setBal a d v).supplyOf d' = b.supplyOf d' := rfl

theorem supplyOf_mint_self (b : Bank) (dst d n) : (b.mint dst d n).supplyOf d = b.supplyOf d + n := by
  simp [Bank.mint, Bank.supplyOf, Bank.setBal, getD_set_self]

theorem supplyOf_mint_other (b : Bank) (dst d n d') (h : d ≠ d') :
    (b.mint dst d n).supplyOf d' = b.supplyOf d' := by
  simp [Bank.mint, Bank.supplyOf, Bank.setBal, getD_set_other _ _ _ _ _ h]

theorem balOf_mint_self (b : Bank) (dst d n) : (b.mint dst d n).balOf dst d = b.balOf dst d + n := by
  simp only [Bank.mint]
  exact Bank.balOf_setBal_self b dst d _

theorem balOf_mint_other (b : Bank) (dst d n a' d') (h : (dst, d) ≠ (a', d')) :
    (b.mint dst d n).balOf a' d' = b.balOf a' d' := by
  simp only [Bank.mint]
  exact Bank.balOf_setBal_other b dst d _ a' d' h

/-- what an accepted burn did -/
theorem burn_ok {b b' : Bank} {src d n} (h : b.burn src d n = some b') :
    n ≤ b.balOf src d ∧ b'.balOf src d = b.balOf src d - n ∧ b'.supplyOf d = b.supplyOf d - n ∧
    (∀ a' d', (src, d) ≠ (a', d') → b'.balOf a' d' = b.balOf a' d') ∧
    (∀ d', d ≠ d' → b'.supplyOf d' = b.supplyOf d') := by
  unfold Bank.burn at h
  split at h
  · cases h
  · rename_i hge
    cases h
    refine ⟨by omega, ?_, ?_, ?_, ?_⟩
    · exact Bank.balOf_setBal_self b src d _
    · simp [Bank.supplyOf, getD_set_self]
    · intro a' d' hne; exact Bank.balOf_setBal_other b src d _ a' d' hne
    · intro d' hne; simp [Bank.supplyOf, getD_set_other _ _ _ _ _ hne]

/-- what an accepted send did to the sender and the receiver (possibly the same account) -/
theorem send_ok {b b' : Bank} {src dst d n} (h : b.send src dst d n = some b') :
    n ≤ b.balOf src d ∧ (∀ d', b'.supplyOf d' = b.supplyOf d') ∧
    (∀ a' d', (a', d') ≠ (src, d) → (a', d') ≠ (dst, d) → b'.balOf a' d' = b.balOf a' d') := by
  have hs := Bank.send_supply b b' src dst d n h
  refine ⟨?_, fun d' => by simp [Bank.supplyOf, hs], ?_⟩
  · unfold Bank.send at h
    split at h
    · cases h
    · omega
  · by_cases hne : src = dst
    · subst hne
      intro a' d' h1 _
      exact Bank.send_self b b' src d n h a' d'
    · exact (Bank.send_deltas b b' src dst d n hne h).2.2

/-! ### bank soundness: the balances of a denomination never add up to more than its supply -/

/-- Σ balances ≤ supply, per denomination (`≤`: the chain has holders outside the model's universe) -/
def Sound (b : Bank) : Prop := ∀ d, b.total d ≤ b.supplyOf d

theorem bal_le_total (b : Bank) (a : Addr) (d : Denom) : b.balOf a d ≤ b.total d := by
  unfold Bank.balOf AMap.getD Bank.total
  induction b.bal with
  | nil => simp [AMap.get?]
  | cons hd t ih =>
    obtain ⟨k, v⟩ := hd
    simp only [AMap.get?, AMap.sumIf]
    by_cases hk : k = (a, d)
    · subst hk; simp
    · simp only [hk, if_false]
      split <;> omega

theorem total_mint_self (b : Bank) (dst d n) : (b.mint dst d n).total d = b.total d + n := by
  have h := Bank.total_setBal_same b dst d (b.balOf dst d + n)
  have : (b.mint dst d n).total d = (b.setBal dst d (b.balOf dst d + n)).total d := rfl
  omega

theorem total_mint_other (b : Bank) (dst d n d') (h : d ≠ d') : (b.mint dst d n).total d' = b.total d' :=
  Bank.total_setBal_other b dst d _ d' h

theorem total_burn {b b' : Bank} {src d n} (h : b.burn src d n = some b') :
    b'.total d + n = b.total d ∧ ∀ d', d ≠ d' → b'.total d' = b.total d' := by
  unfold Bank.burn at h
  split at h
  · cases h
  · rename_i hge
    cases h
    have h1 := Bank.total_setBal_same b src d (b.balOf src d - n)
    have h2 := bal_le_total b src d
    constructor
    · have : ({ b.setBal src d (b.balOf src d - n) with supply := AMap.set b.supply d (b.supplyOf d - n) } : Bank).total d
          = (b.setBal src d (b.balOf src d - n)).total d := rfl
      omega
    · intro d' hne
      exact Bank.total_setBal_other b src d _ d' hne

theorem sound_mint {b : Bank} (h : Sound b) (dst d n) : Sound (b.mint dst d n) := by
  intro d'
  by_cases hk : d = d'
  · subst hk; rw [total_mint_self, supplyOf_mint_self]; have := h d; omega
  · rw [total_mint_other _ _ _ _ _ hk, supplyOf_mint_other _ _ _ _ _ hk]; exact h d'

theorem sound_burn {b b' : Bank} {src d n} (h : Sound b) (hb : b.burn src d n = some b') : Sound b' := by
  obtain ⟨e1, e2⟩ := total_burn hb
  obtain ⟨c1, _, c3, _, c5⟩ := burn_ok hb
  intro d'
  by_cases hk : d = d'
  · subst hk; rw [c3]; have := h d; omega
  · rw [e2 d' hk, c5 d' hk]; exact h d'

theorem sound_send {b b' : Bank} {src dst d n} (h : Sound b) (hs : b.send src dst d n = some b') : Sound b' := by
  intro d'
  rw [Bank.send_total b b' src dst d n hs d']
  have := Bank.send_supply b b' src dst d n hs
  simp only [Bank.supplyOf, this]
  exact h d'

/-- with a sound bank an accepted burn lowers the supply by exactly the amount -/
theorem burn_supply_exact {b b' : Bank} {src d n} (h : Sound b) (hb : b.burn src d n = some b') :
    b'.supplyOf d + n = b.supplyOf d := by
  obtain ⟨c1, _, c3, _, _⟩ := burn_ok hb
  have := bal_le_total b src d
  have := h d
  omega

/-! ### the fee handler -/

theorem TM_ne_FC : TM ≠ FC := by decide

/-- the ledger effect of the three moves of `feeHandler` -/
structure FeeEff (b b' : Bank) (payer : Addr) (d : String) (fee tax : Nat) : Prop where
  covered  : fee ≤ b.balOf payer d
  payer_   : payer ≠ TM → payer ≠ FC → b'.balOf payer d + fee = b.balOf payer d
  fc       : payer ≠ TM → payer ≠ FC → b'.balOf FC d = b.balOf FC d + tax
  tm       : payer ≠ TM → b'.balOf TM d = b.balOf TM d
  others   : ∀ a' d', (a', d') ≠ (payer, d) → (a', d') ≠ (TM, d) → (a', d') ≠ (FC, d) → b'.balOf a' d' = b.balOf a' d'
  sup_self : b'.supplyOf d = b.supplyOf d - (fee - tax)
  sup_other : ∀ d', d ≠ d' → b'.supplyOf d' = b.supplyOf d'

theorem feeMoves_ok {b b' : Bank} {payer d fee tax} (ht : tax ≤ fee)
    (h : feeMoves b payer d fee tax = some b') : FeeEff b b' payer d fee tax := by
  unfold feeMoves at h
  split at h; · cases h
  rename_i b1 h1
  split at h; · cases h
  rename_i b2 h2
  obtain ⟨c1, s1, o1⟩ := send_ok h1
  obtain ⟨c2, s2, o2⟩ := send_ok h2
  obtain ⟨c3, e3, s3, o3, so3⟩ := burn_ok h
  have hTF : (TM, d) ≠ (FC, d) := fun e => TM_ne_FC (congrArg Prod.fst e)
  refine ⟨c1, ?_, ?_, ?_, ?_, ?_, ?_⟩
  · intro hp1 hp2
    have d1 := (Bank.send_deltas b b1 payer TM d fee hp1 h1).1
    have hk1 : (payer, d) ≠ (TM, d) := by intro e; cases e; exact hp1 rfl
    have hk2 : (payer, d) ≠ (FC, d) := by intro e; cases e; exact hp2 rfl
    rw [o3 payer d hk1.symm, o2 payer d hk1 hk2]; exact d1
  · intro hp1 hp2
    have d2 := (Bank.send_deltas b1 b2 TM FC d tax TM_ne_FC h2).2.1
    have hk2 : (FC, d) ≠ (payer, d) := by intro e; cases e; exact hp2 rfl
    rw [o3 FC d hTF, d2, o1 FC d hk2 hTF.symm]
  · intro hp1
    have d1 := (Bank.send_deltas b b1 payer TM d fee hp1 h1).2.1
    have d2 := (Bank.send_deltas b1 b2 TM FC d tax TM_ne_FC h2).1
    rw [e3]; omega
  · intro a' d' n1 n2 n3
    rw [o3 a' d' n2.symm, o2 a' d' n2 n3, o1 a' d' n1 n2]
  · rw [s3, s2, s1]
  · intro d' hne; rw [so3 d' hne, s2, s1]

theorem sound_feeMoves {b b' : Bank} {payer d fee tax} (hs : Sound b)
    (h : feeMoves b payer d fee tax = some b') : Sound b' ∧ b'.supplyOf d + (fee - tax) = b.supplyOf d := by
  unfold feeMoves at h
  split at h; · cases h
  rename_i b1 h1
  split at h; · cases h
  rename_i b2 h2
  have s1 := sound_send hs h1
  have s2 := sound_send s1 h2
  refine ⟨sound_burn s2 h, ?_⟩
  have := burn_supply_exact s2 h
  have e1 := Bank.send_supply b b1 payer TM d fee h1
  have e2 := Bank.send_supply b1 b2 TM FC d tax h2
  simp only [Bank.supplyOf, e2, e1] at this ⊢
  exact this

theorem FeeEff.sup_le {b b' : Bank} {payer d fee tax} (e : FeeEff b b' payer d fee tax) (d' : String) :
    b'.supplyOf d' ≤ b.supplyOf d' := by
  by_cases h : d = d'
  · subst h; rw [e.sup_self]; omega
  · rw [e.sup_other d' h]; exact Nat.le_refl _

/-- an accepted `feeHandler`: the tax is at most the fee and the bank moved accordingly -/
theorem feeHandler_ok {s s' : State} {payer d fee} (h : feeHandler s payer d fee = .ok s') :
    ∃ tax b', tax ≤ fee ∧ taxOf s.params.taxRate fee = some (tax : Int) ∧
      FeeEff s.bank b' payer d fee tax ∧ s' = { s with bank := b' } := by
  unfold feeHandler at h
  split at h; · cases h
  rename_i tax htax
  split at h; · cases h
  rename_i hr
  split at h; · cases h
  rename_i b' hm
  cases h
  have h0 : 0 ≤ tax := by omega
  have hle : tax.toNat ≤ fee := by omega
  refine ⟨tax.toNat, b', hle, ?_, feeMoves_ok hle hm, rfl⟩
  rw [htax]; congr 1; omega

/-- an accepted fee deduction changes only the bank, and never increases a supply -/
theorem deductFee_ok {s s' : State} {payer fee} (h : deductFee s payer fee = .ok s') :
    ∃ d, ∃ n : Nat, ∃ tax b', fee = .ok (d, (n : Int)) ∧ tax ≤ n ∧ FeeEff s.bank b' payer d n tax ∧ s' = { s with bank := b' } := by
  unfold deductFee at h
  split at h; · cases h
  rename_i d n
  split at h; · cases h
  rename_i hn
  obtain ⟨tax, b', ht, _, he, hs⟩ := feeHandler_ok h
  refine ⟨d, n.toNat, tax, b', ?_, ht, he, hs⟩
  congr 2; omega

/-- a fee deduction keeps the bank sound and burns exactly `fee - tax` of the fee denomination -/
theorem deductFee_sound {s s' : State} {payer fee} (hs : Sound s.bank) (h : deductFee s payer fee = .ok s') :
    Sound s'.bank ∧ ∃ d, ∃ n tax : Nat, fee = .ok (d, (n : Int)) ∧ tax ≤ n ∧
      s'.bank.supplyOf d + (n - tax) = s.bank.supplyOf d := by
  unfold deductFee at h
  split at h; · cases h
  rename_i d n
  split at h; · cases h
  rename_i hn
  unfold feeHandler at h
  split at h; · cases h
  rename_i tax htax
  split at h; · cases h
  rename_i hr
  split at h; · cases h
  rename_i b' hm
  cases h
  obtain ⟨s1, e1⟩ := sound_feeMoves hs hm
  refine ⟨s1, d, n.toNat, tax.toNat, ?_, by omega, e1⟩
  congr 2; omega

/-- everything an accepted fee deduction did, in one statement: the fee coin, the tax, the ledger
effect, and — when the bank was sound — soundness and the exact burn -/
theorem deductFee_full {s s' : State} {payer fee} (h : deductFee s payer fee = .ok s') :
    ∃ d, ∃ n tax : Nat, ∃ b', fee = .ok (d, (n : Int)) ∧ tax ≤ n ∧ FeeEff s.bank b' payer d n tax ∧
      s' = { s with bank := b' } ∧
      (Sound s.bank → Sound b' ∧ b'.supplyOf d + (n - tax) = s.bank.supplyOf d) := by
  unfold deductFee at h
  split at h; · cases h
  rename_i d n
  split at h; · cases h
  rename_i hn
  unfold feeHandler at h
  split at h; · cases h
  rename_i tax htax
  split at h; · cases h
  rename_i hr
  split at h; · cases h
  rename_i b' hm
  cases h
  have hle : tax.toNat ≤ n.toNat := by omega
  refine ⟨d, n.toNat, tax.toNat, b', ?_, hle, feeMoves_ok hle hm, rfl, fun hs => sound_feeMoves hs hm⟩
  congr 2; omega

/-- the fee of an issue is charged in the min unit of the fee token -/
theorem toMinCoin_unit {s : State} {denom : String} {amt : Dec} {d : String} {n : Int}
    (h : toMinCoin s denom amt = .ok (d, n)) : ∃ t, getToken s denom = some t ∧ d = t.minUnit := by
  unfold toMinCoin at h
  split at h; · cases h
  rename_i t ht
  split at h; · cases h
  split at h; · cases h
  split at h; · cases h
  cases h
  exact ⟨t, ht, rfl⟩

theorem issueFee_unit {s : State} {len : Nat} {d : String} {n : Int} (h : issueFee s len = .ok (d, n)) :
    ∃ t, getToken s s.params.feeDenom = some t ∧ d = t.minUnit := by
  unfold issueFee at h
  split at h; · cases h
  exact toMinCoin_unit h

theorem mintFee_unit {s : State} {len : Nat} {d : String} {n : Int} (h : mintFee s len = .ok (d, n)) :
    ∃ t, getToken s s.params.feeDenom = some t ∧ d = t.minUnit := by
  unfold mintFee at h
  split at h; · cases h
  split at h; · cases h
  split at h; · cases h
  split at h; · cases h
  exact toMinCoin_unit h

/-! ### inversion: what an accepted handler did -/

/-- what an accepted `msgServer.IssueToken` did -/
theorem issueH_ok {s s' : State} {owner symbol name minUnit : String} {scale init max : Nat} {mintable : Bool}
    (h : handleIssue s owner symbol name minUnit scale init max mintable = .ok s') :
    blocked s owner = false ∧
    ∃ s1, deductFee s owner (issueFee s symbol.length) = .ok s1 ∧
      AMap.contains s1.tokens symbol = false ∧ AMap.contains s1.minUnits minUnit = false ∧
      s' = addIssued s1 (issuedToken owner symbol name minUnit scale init max mintable) := by
  unfold handleIssue at h
  split at h; · cases h
  rename_i hb
  split at h; · cases h
  rename_i s1 h1
  split at h; · cases h
  rename_i hc1
  split at h; · cases h
  rename_i hc2
  cases h
  exact ⟨by simpa using hb, s1, h1, by simpa using hc1, by simpa using hc2, rfl⟩

theorem issue_ok {s s' : State} {owner symbol name minUnit : String} {scale init max : Nat} {mintable : Bool}
    (h : stepIssue s owner symbol name minUnit scale init max mintable = .ok s') :
    issueValid owner symbol name minUnit scale init max mintable = true ∧ blocked s owner = false ∧
    ∃ s1, deductFee s owner (issueFee s symbol.length) = .ok s1 ∧
      AMap.contains s1.tokens symbol = false ∧ AMap.contains s1.minUnits minUnit = false ∧
      s' = addIssued s1 (issuedToken owner symbol name minUnit scale init max mintable) := by
  unfold stepIssue at h
  split at h; · cases h
  rename_i hv
  exact ⟨by simpa using hv, issueH_ok h⟩

/-- what an accepted `msgServer.EditToken` did -/
theorem editH_ok {s s' : State} {owner symbol name : String} {max : Nat} {mintable : String}
    (h : handleEdit s owner symbol name max mintable = .ok s') :
    ∃ t, AMap.get? s.tokens symbol = some t ∧ owner = t.owner ∧
      ¬ (0 < max ∧ max * pow10 t.scale < supplyOf s t.minUnit) ∧
      s' = { s with tokens := AMap.set s.tokens symbol (edited t name max mintable) } := by
  unfold handleEdit at h
  split at h; · cases h
  rename_i t ht
  split at h; · cases h
  rename_i ho
  split at h; · cases h
  rename_i hm
  cases h
  exact ⟨t, ht, by simpa using ho, hm, rfl⟩

theorem edit_ok {s s' : State} {owner symbol name : String} {max : Nat} {mintable : String}
    (h : stepEdit s owner symbol name max mintable = .ok s') :
    ∃ t, AMap.get? s.tokens symbol = some t ∧ owner = t.owner ∧
      ¬ (0 < max ∧ max * pow10 t.scale < supplyOf s t.minUnit) ∧
      s' = { s with tokens := AMap.set s.tokens symbol (edited t name max mintable) } := by
  unfold stepEdit at h
  split at h; · cases h
  exact editH_ok h

theorem mintChecked_ok {s s' : State} {owner rcpt denom : String} {amount : Nat}
    (h : mintChecked s owner rcpt denom amount = .ok s') :
    ∃ t, tokenByMinUnit s denom = some t ∧ owner = t.owner ∧ t.mintable = true ∧
      supplyOf s t.minUnit + amount ≤ t.maxSupply * pow10 t.scale ∧
      s' = { s with bank := s.bank.mint rcpt denom amount } := by
  unfold mintChecked at h
  split at h; · cases h
  rename_i t ht
  split at h; · cases h
  rename_i ho
  split at h; · cases h
  rename_i hmt
  split at h; · cases h
  rename_i hc
  cases h
  exact ⟨t, ht, by simpa using ho, by simpa using hmt, by omega, rfl⟩

/-- what an accepted `msgServer.MintToken` did -/
theorem mintH_ok {s s' : State} {owner to denom : String} {amount : Int}
    (h : handleMint s owner to denom amount = .ok s') :
    blocked s (rcptOf owner to) = false ∧
    ∃ sym s1, AMap.get? s.minUnits denom = some sym ∧ deductFee s owner (mintFee s sym.length) = .ok s1 ∧
      mintChecked s1 owner (rcptOf owner to) denom amount.toNat = .ok s' := by
  unfold handleMint at h
  split at h; · cases h
  rename_i hb
  split at h; · cases h
  rename_i sym hs
  split at h; · cases h
  rename_i s1 h1
  exact ⟨by simpa using hb, sym, s1, hs, h1, h⟩

/-- an accepted v1 mint passed `ValidateBasic` and the msg-server method -/
theorem mint_handle {s s' : State} {owner to denom : String} {amount : Int}
    (h : stepMint s owner to denom amount = .ok s') :
    0 < amount ∧ validSymbol denom = true ∧ handleMint s owner to denom amount = .ok s' := by
  unfold stepMint at h
  split at h; · cases h
  rename_i hv
  have hv' : (isAddr owner && (to = "" || isAddr to) && decide (0 < amount) && validSymbol denom) = true := by
    cases hx : (isAddr owner && (to = "" || isAddr to) && decide (0 < amount) && validSymbol denom) with
    | true => rfl
    | false => rw [hx] at hv; exact absurd rfl hv
  simp only [Bool.and_eq_true, decide_eq_true_eq] at hv'
  exact ⟨hv'.1.2, hv'.2, h⟩

theorem mint_ok {s s' : State} {owner to denom : String} {amount : Int}
    (h : stepMint s owner to denom amount = .ok s') :
    0 < amount ∧ blocked s (rcptOf owner to) = false ∧
    ∃ sym s1, AMap.get? s.minUnits denom = some sym ∧ deductFee s owner (mintFee s sym.length) = .ok s1 ∧
      mintChecked s1 owner (rcptOf owner to) denom amount.toNat = .ok s' := by
  obtain ⟨hpos, _, hh⟩ := mint_handle h
  exact ⟨hpos, mintH_ok hh⟩

/-- what an accepted `msgServer.BurnToken` did -/
theorem burnH_ok {s s' : State} {sender denom : String} {amount : Int}
    (h : handleBurn s sender denom amount = .ok s') :
    (∃ t, tokenByMinUnit s denom = some t) ∧
    ∃ b, s.bank.burn sender denom amount.toNat = some b ∧
      s' = { s with bank := b, burned := AMap.set s.burned denom (burnedOf s denom + amount.toNat) } := by
  unfold handleBurn at h
  split at h; · cases h
  rename_i t ht
  split at h; · cases h
  rename_i b hb
  cases h
  exact ⟨⟨t, ht⟩, b, hb, rfl⟩

theorem burn_handle {s s' : State} {sender denom : String} {amount : Int}
    (h : stepBurn s sender denom amount = .ok s') :
    0 < amount ∧ validSymbol denom = true ∧ handleBurn s sender denom amount = .ok s' := by
  unfold stepBurn at h
  split at h; · cases h
  rename_i hv
  have hv' : (isAddr sender && decide (0 < amount) && validSymbol denom) = true := by simpa using hv
  simp only [Bool.and_eq_true, decide_eq_true_eq] at hv'
  exact ⟨hv'.1.2, hv'.2, h⟩

theorem burn_step_ok {s s' : State} {sender denom : String} {amount : Int}
    (h : stepBurn s sender denom amount = .ok s') :
    0 < amount ∧ (∃ t, tokenByMinUnit s denom = some t) ∧
    ∃ b, s.bank.burn sender denom amount.toNat = some b ∧
      s' = { s with bank := b, burned := AMap.set s.burned denom (burnedOf s denom + amount.toNat) } := by
  obtain ⟨hpos, _, hh⟩ := burn_handle h
  exact ⟨hpos, burnH_ok hh⟩

/-- what an accepted `msgServer.TransferTokenOwner` did -/
theorem transferH_ok {s s' : State} {src dst symbol : String}
    (h : handleTransferOwner s src dst symbol = .ok s') :
    blocked s dst = false ∧ ∃ t, AMap.get? s.tokens symbol = some t ∧ src = t.owner ∧
      s' = { s with tokens := AMap.set s.tokens symbol { t with owner := dst },
                    owners := AMap.set (AMap.erase s.owners (src, symbol)) (dst, symbol) symbol } := by
  unfold handleTransferOwner at h
  split at h; · cases h
  rename_i hb
  split at h; · cases h
  rename_i t ht
  split at h; · cases h
  rename_i ho
  cases h
  exact ⟨by simpa using hb, t, ht, by simpa using ho, rfl⟩

theorem transferOwner_ok {s s' : State} {src dst symbol : String}
    (h : stepTransferOwner s src dst symbol = .ok s') :
    blocked s dst = false ∧ ∃ t, AMap.get? s.tokens symbol = some t ∧ src = t.owner ∧
      s' = { s with tokens := AMap.set s.tokens symbol { t with owner := dst },
                    owners := AMap.set (AMap.erase s.owners (src, symbol)) (dst, symbol) symbol } := by
  unfold stepTransferOwner at h
  split at h; · cases h
  exact transferH_ok h

/-! ### the legacy (v1beta1) Msg service -/

/-- where the adapter only copies fields, the legacy operation *is* the v1 operation: the same
`ValidateBasic` rules, the same msg-server method, on the same arguments — accepted and rejected alike -/
theorem step_norm (s : State) (op : Op) : step s op = step s (norm op) := by
  cases op <;> rfl

theorem norm_idem (op : Op) : norm (norm op) = norm op := by
  cases op <;> rfl

/-! `LegacyDec(a).Mul(LegacyDec(b)).TruncateInt()` of two non-negative integers is their product -/

theorem chopRoundNat_mul (n : Nat) : chopRoundNat (n * 1000000000000000000) = n := by
  have h1 : n * 1000000000000000000 % 1000000000000000000 = 0 := Nat.mul_mod_left _ _
  have h2 : n * 1000000000000000000 / 1000000000000000000 = n := Nat.mul_div_cancel n (by decide)
  unfold chopRoundNat
  simp only [h1, h2, if_true]

theorem precision_cast : precision = ((1000000000000000000 : Nat) : Int) := rfl

theorem ofInt_mul_raw (a b : Nat) :
    (Dec.ofInt (a : Int)).raw * (Dec.ofInt (b : Int)).raw = (((a * b * 1000000000000000000 : Nat) * 1000000000000000000 : Nat) : Int) := by
  simp only [Dec.ofInt]
  rw [precision_cast]
  generalize (1000000000000000000 : Nat) = K
  simp only [Int.natCast_mul]
  ac_rfl

theorem chopRound_ofInt_mul (a b : Nat) :
    chopRound ((Dec.ofInt (a : Int)).raw * (Dec.ofInt (b : Int)).raw) = ((a * b * 1000000000000000000 : Nat) : Int) := by
  rw [ofInt_mul_raw]
  unfold chopRound
  have hnn : ¬ ((((a * b * 1000000000000000000 : Nat) * 1000000000000000000 : Nat) : Int) < 0) := by omega
  rw [if_neg hnn, Int.natAbs_natCast, chopRoundNat_mul]

theorem chopTrunc_mul (m : Nat) : chopTrunc ((m * 1000000000000000000 : Nat) : Int) = (m : Int) := by
  unfold chopTrunc
  rw [precision_cast]
  generalize hK : (1000000000000000000 : Nat) = K
  have hK0 : (K : Int) ≠ 0 := by subst hK; decide
  rw [Int.natCast_mul]
  exact Int.mul_tdiv_cancel _ hK0

theorem dec_mul_trunc {a b : Nat} {r : Dec} {n : Int}
    (h1 : (Dec.ofInt (a : Int)).mul (Dec.ofInt (b : Int)) = some r) (h2 : r.truncateInt = some n) :
    n = ((a * b : Nat) : Int) := by
  unfold Dec.mul at h1
  rw [chopRound_ofInt_mul] at h1
  unfold chkDec at h1
  split at h1
  · simp only [Option.map_some, Option.some.injEq] at h1
    subst h1
    unfold Dec.truncateInt at h2
    simp only at h2
    rw [chopTrunc_mul] at h2
    unfold chkInt at h2
    split at h2
    · cases h2; rfl
    · cases h2
  · cases h1

/-- an accepted `legacyMinCoin`: the min unit of the token and exactly `amount · 10^scale` -/
theorem legacyMinCoin_ok {t : Token} {symbol : String} {amount : Nat} {d : String} {n : Int}
    (h : legacyMinCoin t symbol amount = .ok (d, n)) :
    t.symbol = symbol ∧ d = t.minUnit ∧ n = ((amount * pow10 t.scale : Nat) : Int) ∧ validDenom t.minUnit = true := by
  unfold legacyMinCoin at h
  split at h; · cases h
  split at h; · cases h
  rename_i hsym
  split at h; · cases h
  rename_i a ha
  split at h; · cases h
  rename_i n' hn
  split at h; · cases h
  rename_i hvd
  cases h
  exact ⟨by simpa using hsym, rfl, dec_mul_trunc ha hn, by simpa using hvd⟩

/-- an accepted legacy mint: the v1beta1 `ValidateBasic` passed, the SYMBOL names a token, and the v1
msg-server method accepted the coin `amount · 10^scale` of that token's min unit -/
theorem legacyMint_ok {s s' : State} {owner to symbol : String} {amount : Nat}
    (h : stepLegacyMint s owner to symbol amount = .ok s') :
    0 < amount ∧ amount ≤ maxU64 ∧ ∃ t, AMap.get? s.tokens symbol = some t ∧ t.symbol = symbol ∧
      validDenom t.minUnit = true ∧
      handleMint s owner to t.minUnit ((amount * pow10 t.scale : Nat) : Int) = .ok s' := by
  unfold stepLegacyMint at h
  split at h; · cases h
  rename_i hv
  have hv' : legacyMintValid owner to symbol amount = true := by simpa using hv
  unfold legacyMintValid at hv'
  simp only [Bool.and_eq_true, decide_eq_true_eq] at hv'
  split at h; · cases h
  rename_i t ht
  split at h; · cases h
  rename_i d n hc
  obtain ⟨e1, e2, e3, e4⟩ := legacyMinCoin_ok hc
  subst e2 e3
  exact ⟨hv'.1.1.2, hv'.1.2, t, ht, e1, e4, h⟩

theorem legacyBurn_ok {s s' : State} {sender symbol : String} {amount : Nat}
    (h : stepLegacyBurn s sender symbol amount = .ok s') :
    0 < amount ∧ amount ≤ maxU64 ∧ ∃ t, AMap.get? s.tokens symbol = some t ∧ t.symbol = symbol ∧
      validDenom t.minUnit = true ∧
      handleBurn s sender t.minUnit ((amount * pow10 t.scale : Nat) : Int) = .ok s' := by
  unfold stepLegacyBurn at h
  split at h; · cases h
  rename_i hv
  have hv' : legacyBurnValid sender symbol amount = true := by simpa using hv
  unfold legacyBurnValid at hv'
  simp only [Bool.and_eq_true, decide_eq_true_eq] at hv'
  split at h; · cases h
  rename_i t ht
  split at h; · cases h
  rename_i d n hc
  obtain ⟨e1, e2, e3, e4⟩ := legacyMinCoin_ok hc
  subst e2 e3
  exact ⟨hv'.1.1.2, hv'.1.2, t, ht, e1, e4, h⟩

theorem pow10_pos (n : Nat) : 0 < pow10 n := Nat.pow_pos (by decide)

/-- the translated amount of an accepted legacy mint / burn is positive -/
theorem legacy_amount_pos {amount scale : Nat} (h : 0 < amount) : (0 : Int) < ((amount * pow10 scale : Nat) : Int) := by
  have := Nat.mul_pos h (pow10_pos scale)
  omega

/-- an accepted `UpgradeERC20`: sent by the authority, ERC20 enabled, a beacon configured, the EVM
answering, an implementation with code — and nothing but the beacon's implementation changed -/
theorem upgrade_ok {s s' : State} {authority impl : String}
    (h : stepUpgradeErc20 s authority impl = .ok s') :
    authority = GOV ∧ s.params.erc20 = true ∧ s.params.beacon = true ∧ s.fault ≠ "call_err" ∧
      hasCode s impl = true ∧ s' = { s with impl := impl } := by
  unfold stepUpgradeErc20 at h
  split at h; · cases h
  split at h; · cases h
  rename_i ha
  split at h; · cases h
  rename_i he
  split at h; · cases h
  rename_i hb
  split at h; · cases h
  rename_i hf
  split at h; · cases h
  rename_i hc
  cases h
  exact ⟨by simpa using ha, by simpa using he, by simpa using hb, hf, by simpa using hc, rfl⟩

theorem swapMoves_ok {s s' : State} {sender rcpt denom target : String} {b m : Int}
    (h : swapMoves s sender rcpt denom target b m = .ok s') :
    0 ≤ b ∧ 0 ≤ m ∧ blocked s rcpt = false ∧
    ∃ bk, s.bank.burn sender denom b.toNat = some bk ∧ s' = { s with bank := bk.mint rcpt target m.toNat } := by
  unfold swapMoves at h
  split at h; · cases h
  rename_i hn
  split at h; · cases h
  rename_i bk hb
  split at h; · cases h
  rename_i hbl
  cases h
  exact ⟨by omega, by omega, by simpa using hbl, bk, hb, rfl⟩

theorem swapFee_ok {s s' : State} {sender to denom : String} {amount : Int}
    (h : stepSwapFee s sender to denom amount = .ok s') :
    0 < amount ∧ ∃ tb target ratio tm b m, tokenByMinUnit s denom = some tb ∧
      AMap.get? s.env.registry tb.minUnit = some (target, ratio) ∧ getToken s target = some tm ∧
      lossLess amount ratio tb.scale tm.scale = some (b, m) ∧
      swapMoves s sender (rcptOf sender to) tb.minUnit target b m = .ok s' := by
  unfold stepSwapFee at h
  split at h; · cases h
  rename_i hv
  split at h; · cases h
  split at h; · cases h
  rename_i tb htb
  split at h; · cases h
  rename_i target ratio hreg
  split at h; · cases h
  rename_i tm htm
  split at h; · cases h
  rename_i b m hll
  refine ⟨?_, tb, target, ratio, tm, b, m, htb, hreg, htm, hll, h⟩
  have hv' : (isAddr sender && (to = "" || isAddr to) && decide (0 < amount) && validSymbol denom) = true := by
    cases hx : (isAddr sender && (to = "" || isAddr to) && decide (0 < amount) && validSymbol denom) with
    | true => rfl
    | false => rw [hx] at hv; exact absurd rfl hv
  simp only [Bool.and_eq_true, decide_eq_true_eq] at hv'
  exact hv'.1.2

theorem deploy_ok {s s' : State} {authority name symbol minUnit : String} {scale : Nat}
    (h : stepDeploy s authority name symbol minUnit scale = .ok s') :
    ∃ t, buildErc20Token s name symbol minUnit scale = .ok t ∧ t.contract = 0 ∧
      s' = { s with nonce := s.nonce + 1,
                    tokens := AMap.set s.tokens t.symbol { t with contract := s.nonce + 1 },
                    minUnits := AMap.set s.minUnits t.minUnit t.symbol,
                    owners := if t.owner = "" then s.owners else AMap.set s.owners (t.owner, t.symbol) t.symbol,
                    contracts := AMap.set s.contracts (s.nonce + 1) t.symbol } := by
  unfold stepDeploy at h
  split at h; · cases h
  split at h; · cases h
  split at h; · cases h
  rename_i t ht
  split at h; · cases h
  rename_i hc
  split at h; · cases h
  split at h; · cases h
  split at h; · cases h
  cases h
  exact ⟨t, ht, by simpa using hc, rfl⟩

theorem swapTo_ok {s s' : State} {sender receiver denom : String} {amount : Int}
    (h : stepSwapToErc20 s sender receiver denom amount = .ok s') :
    0 < amount ∧ mintFaulty s.fault = false ∧ ∃ t b, tokenByMinUnit s denom = some t ∧ t.contract ≠ 0 ∧
      s.bank.burn sender denom amount.toNat = some b ∧
      s' = { s with bank := b,
                    evm := AMap.set s.evm (t.contract, receiver) (evmBal s t.contract receiver + amount.toNat) } := by
  unfold stepSwapToErc20 at h
  split at h; · cases h
  rename_i hv
  split at h; · cases h
  split at h; · cases h
  rename_i t ht
  split at h; · cases h
  rename_i hc
  split at h; · cases h
  rename_i b hb
  split at h; · cases h
  rename_i hmf
  cases h
  refine ⟨?_, by simpa using hmf, t, b, ht, hc, hb, rfl⟩
  have hv' : (isAddr sender && isEth receiver && validDenom denom && decide (0 < amount)) = true := by
    cases hx : (isAddr sender && isEth receiver && validDenom denom && decide (0 < amount)) with
    | true => rfl
    | false => rw [hx] at hv; exact absurd rfl hv
  simp only [Bool.and_eq_true, decide_eq_true_eq] at hv'
  exact hv'.2

theorem swapFrom_ok {s s' : State} {sender receiver denom : String} {amount : Int}
    (h : stepSwapFromErc20 s sender receiver denom amount = .ok s') :
    0 < amount ∧ blocked s receiver = false ∧ burnFaulty s.fault = false ∧
    ∃ t, tokenByMinUnit s denom = some t ∧ t.contract ≠ 0 ∧
      amount.toNat ≤ evmBal s t.contract sender ∧
      s' = { s with evm := AMap.set s.evm (t.contract, sender) (evmBal s t.contract sender - amount.toNat),
                    bank := s.bank.mint receiver denom amount.toNat } := by
  unfold stepSwapFromErc20 at h
  split at h; · cases h
  rename_i hv
  split at h; · cases h
  split at h; · cases h
  rename_i t ht
  split at h; · cases h
  rename_i hc
  split at h; · cases h
  split at h; · cases h
  rename_i hbal
  split at h; · cases h
  rename_i hbf
  split at h; · cases h
  rename_i hbl
  cases h
  refine ⟨?_, by simpa using hbl, by simpa using hbf, t, ht, hc, by omega, rfl⟩
  have hv' : (isAddr sender && isAddr receiver && validDenom denom && decide (0 < amount)) = true := by
    cases hx : (isAddr sender && isAddr receiver && validDenom denom && decide (0 < amount)) with
    | true => rfl
    | false => rw [hx] at hv; exact absurd rfl hv
  simp only [Bool.and_eq_true, decide_eq_true_eq] at hv'
  exact hv'.2

/-- an accepted `swapToNative` call: the ERC20 balance is burned, and when the contract is bound
to a token the same amount is minted natively to the receiver -/
theorem hook_ok {s s' : State} {src : String} {c : Nat} {to : String} {amount : Int}
    (h : stepHookSwap s src c to amount = .ok s') :
    0 ≤ amount ∧ amount.toNat ≤ evmBal s c src ∧
    ((s' = { s with evm := AMap.set s.evm (c, src) (evmBal s c src - amount.toNat) } ∧
        (AMap.get? s.contracts c).bind (AMap.get? s.tokens) = none) ∨
     (∃ sym t, AMap.get? s.contracts c = some sym ∧ AMap.get? s.tokens sym = some t ∧ blocked s to = false ∧
        0 < amount ∧
        s' = { s with evm := AMap.set s.evm (c, src) (evmBal s c src - amount.toNat),
                      bank := s.bank.mint to t.minUnit amount.toNat })) := by
  unfold stepHookSwap at h
  split at h; · cases h
  rename_i hv
  split at h; · cases h
  split at h; · cases h
  rename_i hbal
  have h0 : 0 ≤ amount := by omega
  split at h
  · rename_i hc
    cases h
    exact ⟨h0, by omega, Or.inl ⟨rfl, by simp [hc]⟩⟩
  · rename_i sym hc
    split at h
    · rename_i ht
      cases h
      exact ⟨h0, by omega, Or.inl ⟨rfl, by simp [hc, ht]⟩⟩
    · rename_i t ht
      split at h; · cases h
      split at h; · cases h
      split at h; · cases h
      rename_i hz
      split at h; · cases h
      rename_i hbl
      cases h
      exact ⟨h0, by omega, Or.inr ⟨sym, t, hc, ht, by simpa using hbl, by omega, rfl⟩⟩

/-- what a `SwapToNative` log leaves untouched: everything but the two ledgers -/
structure Frame (s s' : State) : Prop where
  tokens    : s'.tokens = s.tokens
  minUnits  : s'.minUnits = s.minUnits
  owners    : s'.owners = s.owners
  contracts : s'.contracts = s.contracts
  burned    : s'.burned = s.burned
  params    : s'.params = s.params
  nonce     : s'.nonce = s.nonce
  fault     : s'.fault = s.fault
  env       : s'.env = s.env
  impl      : s'.impl = s.impl

theorem Frame.refl (s : State) : Frame s s := ⟨rfl, rfl, rfl, rfl, rfl, rfl, rfl, rfl, rfl, rfl⟩

theorem Frame.trans {a b c : State} (h1 : Frame a b) (h2 : Frame b c) : Frame a c :=
  ⟨h2.tokens.trans h1.tokens, h2.minUnits.trans h1.minUnits, h2.owners.trans h1.owners,
   h2.contracts.trans h1.contracts, h2.burned.trans h1.burned, h2.params.trans h1.params,
   h2.nonce.trans h1.nonce, h2.fault.trans h1.fault, h2.env.trans h1.env, h2.impl.trans h1.impl⟩

theorem hook_frame {s s' : State} {src : String} {c : Nat} {to : String} {amount : Int}
    (h : stepHookSwap s src c to amount = .ok s') : Frame s s' := by
  obtain ⟨_, _, h3⟩ := hook_ok h
  rcases h3 with ⟨rfl, _⟩ | ⟨sym, t, _, _, _, _, rfl⟩ <;> exact ⟨rfl, rfl, rfl, rfl, rfl, rfl, rfl, rfl, rfl, rfl⟩

/-- a property kept by every accepted `SwapToNative` log is kept by the whole receipt -/
theorem logs_lift {P : State → Prop}
    (hP : ∀ (x x' : State) (src : String) (c : Nat) (to : String) (amount : Int),
      P x → stepHookSwap x src c to amount = .ok x' → P x')
    {s s' : State} {logs : List SwapLog} (h0 : P s) (h : stepLogs s logs = .ok s') : P s' := by
  induction logs generalizing s with
  | nil => simp only [stepLogs] at h; cases h; exact h0
  | cons l rest ih =>
    simp only [stepLogs] at h
    split at h; · cases h
    rename_i s1 h1
    refine ih ?_ h
    unfold stepLog at h1
    split at h1
    · exact hP _ _ _ _ _ _ h0 h1
    · cases h1; exact h0

theorem logs_frame {s s' : State} {logs : List SwapLog} (h : stepLogs s logs = .ok s') : Frame s s' :=
  logs_lift (P := fun x => Frame s x) (fun _ _ _ _ _ _ hx hs => hx.trans (hook_frame hs)) (Frame.refl s) h

theorem evmTx_ok {s s' : State} {target : Emitter} {logs : List SwapLog}
    (h : step s (.evmTx target logs) = .ok s') : stepLogs s logs = .ok s' := h

theorem evmFault_ok {s s' : State} {mode : String} (h : stepEvmFault s mode = .ok s') :
    s' = { s with fault := mode } := by
  unfold stepEvmFault at h
  split at h
  · cases h; rfl
  · cases h

theorem updateParams_ok {s s' : State} {authority : String} {p : Params}
    (h : stepUpdateParams s authority p = .ok s') : authority = GOV ∧ s' = { s with params := p } := by
  unfold stepUpdateParams at h
  split at h; · cases h
  split at h; · cases h
  rename_i ha
  cases h
  exact ⟨by simpa using ha, rfl⟩

end Irismod.Proofs.Token
