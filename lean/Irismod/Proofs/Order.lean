/-
Order-independence lemmas behind the C11 allow-list reasons ("keys are collected and sorted
before use", "each entry is written under its own key", "accept/reject is order-independent").
A Go map hands its entries to the code in an arbitrary order: that order is modelled as an
arbitrary permutation of the entry list, and the lemmas say that the result does not depend on it.
Mathlib is used for `LinearOrder String` and `List.Perm.eq_of_pairwise'`.
-/
import Mathlib.Data.String.Basic
import Mathlib.Data.List.Sort
import Irismod.Model.MtGenesis
import Irismod.Sdk.Map

namespace Irismod.Proofs.Order
open Irismod Irismod.MtGenesis

/-! ### `sortDedup`: the ascending duplicate-free list of the members -/

theorem mem_ins (x y : String) (l : List String) : y ∈ ins x l ↔ y = x ∨ y ∈ l := by
  induction l with
  | nil => simp [ins]
  | cons z t ih =>
    unfold ins
    by_cases h1 : x < z
    · simp [h1]
    · by_cases h2 : x = z
      · subst h2; rw [if_neg h1, if_pos rfl]; simp
      · simp only [h1, h2, if_false, List.mem_cons, ih]
        constructor
        · rintro (h | h | h) <;> simp [h]
        · rintro (h | h | h) <;> simp [h]

theorem ins_sorted (x : String) (l : List String) (h : l.Pairwise (· < ·)) :
    (ins x l).Pairwise (· < ·) := by
  induction l with
  | nil => simp [ins]
  | cons z t ih =>
    have hz := List.pairwise_cons.mp h
    unfold ins
    by_cases h1 : x < z
    · simp only [h1, if_true]
      refine List.pairwise_cons.mpr ⟨?_, h⟩
      intro a ha
      rcases List.mem_cons.mp ha with rfl | ha
      · exact h1
      · exact lt_trans h1 (hz.1 a ha)
    · by_cases h2 : x = z
      · subst h2
        rw [if_neg h1, if_pos rfl]; exact h
      · simp only [h1, h2, if_false]
        refine List.pairwise_cons.mpr ⟨?_, ih hz.2⟩
        intro a ha
        rcases (mem_ins x a t).mp ha with rfl | ha
        · exact lt_of_le_of_ne (not_lt.mp h1) (Ne.symm h2)
        · exact hz.1 a ha

theorem mem_sortDedup (y : String) (l : List String) : y ∈ sortDedup l ↔ y ∈ l := by
  induction l with
  | nil => simp [sortDedup]
  | cons x t ih =>
    have : sortDedup (x :: t) = ins x (sortDedup t) := rfl
    rw [this, mem_ins, ih, List.mem_cons]

theorem sortDedup_sorted (l : List String) : (sortDedup l).Pairwise (· < ·) := by
  induction l with
  | nil => simp [sortDedup]
  | cons x t ih =>
    have : sortDedup (x :: t) = ins x (sortDedup t) := rfl
    rw [this]; exact ins_sorted x _ ih

/-- two strictly ascending lists with the same members are equal -/
theorem sorted_ext {a b : List String} (ha : a.Pairwise (· < ·)) (hb : b.Pairwise (· < ·))
    (h : ∀ x, x ∈ a ↔ x ∈ b) : a = b := by
  have na : a.Nodup := ha.imp (fun h => ne_of_lt h)
  have nb : b.Nodup := hb.imp (fun h => ne_of_lt h)
  have hp : a.Perm b := (List.perm_ext_iff_of_nodup na nb).mpr h
  exact List.Perm.eq_of_pairwise' ha hb hp

/-- **the sorted key list does not depend on the order in which a map yields its keys**, nor on
repetitions: it is a function of the key *set* -/
theorem sortDedup_congr {l₁ l₂ : List String} (h : ∀ x, x ∈ l₁ ↔ x ∈ l₂) :
    sortDedup l₁ = sortDedup l₂ :=
  sorted_ext (sortDedup_sorted l₁) (sortDedup_sorted l₂)
    (fun x => by rw [mem_sortDedup, mem_sortDedup, h])

theorem sortDedup_perm {l₁ l₂ : List String} (h : l₁.Perm l₂) : sortDedup l₁ = sortDedup l₂ :=
  sortDedup_congr (fun _ => h.mem_iff)

/-! ### writes under distinct keys commute -/

section Writes
variable {K V : Type} [DecidableEq K]

/-- store every entry of `es` under its key -/
def writeAll (m : AMap K V) (es : List (K × V)) : AMap K V := es.foldl (fun m e => AMap.set m e.1 e.2) m

theorem get?_writeAll_of_not_mem (m : AMap K V) (es : List (K × V)) (k : K)
    (h : k ∉ es.map (·.1)) : AMap.get? (writeAll m es) k = AMap.get? m k := by
  induction es generalizing m with
  | nil => rfl
  | cons e t ih =>
    simp only [List.map_cons, List.mem_cons, not_or] at h
    show AMap.get? (writeAll (AMap.set m e.1 e.2) t) k = _
    rw [ih _ h.2, AMap.get?_set_other _ _ _ _ (Ne.symm h.1)]

theorem get?_writeAll_of_mem (m : AMap K V) (es : List (K × V)) (hn : (es.map (·.1)).Nodup)
    (k : K) (v : V) (h : (k, v) ∈ es) : AMap.get? (writeAll m es) k = some v := by
  induction es generalizing m with
  | nil => cases h
  | cons e t ih =>
    simp only [List.map_cons, List.nodup_cons] at hn
    show AMap.get? (writeAll (AMap.set m e.1 e.2) t) k = _
    rcases List.mem_cons.mp h with rfl | h
    · rw [get?_writeAll_of_not_mem _ _ _ hn.1, AMap.get?_set_self]
    · exact ih _ hn.2 h

/-- **writing a set of entries with pairwise distinct keys gives the same store content in
whatever order the entries are visited** (every lookup agrees) -/
theorem writeAll_perm (m : AMap K V) {es₁ es₂ : List (K × V)} (hp : es₁.Perm es₂)
    (hn : (es₁.map (·.1)).Nodup) (k : K) :
    AMap.get? (writeAll m es₁) k = AMap.get? (writeAll m es₂) k := by
  have hn₂ : (es₂.map (·.1)).Nodup := (hp.map _).nodup_iff.mp hn
  by_cases hk : k ∈ es₁.map (·.1)
  · obtain ⟨e, he, rfl⟩ := List.mem_map.mp hk
    rw [get?_writeAll_of_mem m es₁ hn e.1 e.2 he, get?_writeAll_of_mem m es₂ hn₂ e.1 e.2 (hp.mem_iff.mp he)]
  · have hk₂ : k ∉ es₂.map (·.1) := fun h => hk ((hp.map _).mem_iff.mpr h)
    rw [get?_writeAll_of_not_mem _ _ _ hk, get?_writeAll_of_not_mem _ _ _ hk₂]

end Writes

/-! ### accept / reject of a per-entry validation does not depend on the visiting order -/

theorem all_perm {α : Type} (p : α → Bool) {l₁ l₂ : List α} (h : l₁.Perm l₂) : l₁.all p = l₂.all p := by
  rw [Bool.eq_iff_iff, List.all_eq_true, List.all_eq_true]
  exact ⟨fun H x hx => H x (h.mem_iff.mpr hx), fun H x hx => H x (h.mem_iff.mp hx)⟩

theorem any_perm {α : Type} (p : α → Bool) {l₁ l₂ : List α} (h : l₁.Perm l₂) : l₁.any p = l₂.any p := by
  rw [Bool.eq_iff_iff, List.any_eq_true, List.any_eq_true]
  exact ⟨fun ⟨x, hx, hp⟩ => ⟨x, h.mem_iff.mp hx, hp⟩, fun ⟨x, hx, hp⟩ => ⟨x, h.mem_iff.mpr hx, hp⟩⟩

end Irismod.Proofs.Order

/-! ### the MT genesis export is a function of the store *content*

`ExportGenesisState` walks store iterators (ascending keys) and, for the owners' balances,
a Go map whose keys are sorted before use (fix 948278d). In the model the tables are
association lists; two states have the same content when every lookup agrees. The export then
agrees too: the order in which entries were inserted (or in which a Go map would yield them)
cannot be observed in the exported document. -/

namespace Irismod.Proofs.Order
open Irismod Irismod.Mt Irismod.MtGenesis

section Keys
variable {K V : Type} [DecidableEq K]

theorem mem_keys_iff (m : AMap K V) (k : K) : k ∈ AMap.keys m ↔ AMap.get? m k ≠ none := by
  induction m with
  | nil => simp [AMap.keys]
  | cons e t ih =>
    obtain ⟨k', v'⟩ := e
    simp only [AMap.keys, List.map_cons, List.mem_cons, AMap.get?] at *
    by_cases h : k' = k
    · simp [h]
    · simp only [h, if_false]
      constructor
      · rintro (h' | h')
        · exact absurd h'.symm h
        · exact ih.mp h'
      · intro h'; exact Or.inr (ih.mpr h')

theorem keys_congr {m₁ m₂ : AMap K V} (h : ∀ k, AMap.get? m₁ k = AMap.get? m₂ k) (k : K) :
    k ∈ AMap.keys m₁ ↔ k ∈ AMap.keys m₂ := by
  rw [mem_keys_iff, mem_keys_iff, h]

theorem getD_congr {m₁ m₂ : AMap K V} (h : ∀ k, AMap.get? m₁ k = AMap.get? m₂ k) (k : K) (d : V) :
    AMap.getD m₁ k d = AMap.getD m₂ k d := by
  simp [AMap.getD, h]

end Keys

theorem mem_tail {β : Type} (ks : List (String × β)) (a : String) (b : β) : b ∈ tail ks a ↔ (a, b) ∈ ks := by
  simp only [tail, List.mem_map, List.mem_filter, decide_eq_true_eq]
  constructor
  · rintro ⟨⟨a', b'⟩, ⟨h1, h2⟩, rfl⟩; simp only at h2; subst h2; exact h1
  · intro h; exact ⟨(a, b), ⟨h, rfl⟩, rfl⟩

theorem tail_congr {β : Type} {ks₁ ks₂ : List (String × β)} (h : ∀ k, k ∈ ks₁ ↔ k ∈ ks₂) (a : String) (b : β) :
    b ∈ tail ks₁ a ↔ b ∈ tail ks₂ a := by
  rw [mem_tail, mem_tail, h]

theorem heads_congr {β : Type} {ks₁ ks₂ : List (String × β)} (h : ∀ k, k ∈ ks₁ ↔ k ∈ ks₂) :
    heads ks₁ = heads ks₂ := by
  apply sortDedup_congr
  intro x
  simp only [List.mem_map]
  exact ⟨fun ⟨k, hk, e⟩ => ⟨k, (h k).mp hk, e⟩, fun ⟨k, hk, e⟩ => ⟨k, (h k).mpr hk, e⟩⟩

/-- every lookup of the tables the export reads agrees -/
def SameContent (s₁ s₂ : State) : Prop :=
  (∀ k, AMap.get? s₁.denoms k = AMap.get? s₂.denoms k) ∧
  (∀ k, AMap.get? s₁.mts k = AMap.get? s₂.mts k) ∧
  (∀ k, AMap.get? s₁.supply k = AMap.get? s₂.supply k) ∧
  (∀ k, AMap.get? s₁.bal k = AMap.get? s₂.bal k)

/-- **the exported genesis depends on the store content only** -/
theorem exportGenesis_content (s₁ s₂ : State) (h : SameContent s₁ s₂) :
    exportGenesis s₁ = exportGenesis s₂ := by
  obtain ⟨hd, hm, hs, hb⟩ := h
  have hmts : ∀ d, exportMts s₁ d = exportMts s₂ d := by
    intro d
    unfold exportMts
    rw [sortDedup_congr (tail_congr (keys_congr hm) d)]
    apply List.map_congr_left
    intro m _
    simp [supplyOf, getD_congr hs, getD_congr hm]
  have hbals : ∀ a d, exportBalances s₁ a d = exportBalances s₂ a d := by
    intro a d
    unfold exportBalances
    rw [sortDedup_congr (tail_congr (fun k => tail_congr (keys_congr hb) a k) d)]
    apply List.map_congr_left
    intro m _
    simp [balOf, getD_congr hb]
  have hdb : ∀ a, exportDenomBalances s₁ a = exportDenomBalances s₂ a := by
    intro a
    unfold exportDenomBalances
    rw [heads_congr (fun k => tail_congr (keys_congr hb) a k)]
    apply List.map_congr_left
    intro d _
    rw [hbals]
  unfold exportGenesis exportCollections exportOwners
  congr 1
  · rw [sortDedup_congr (keys_congr hd)]
    apply List.map_congr_left
    intro d _
    rw [hmts, getD_congr hd]
  · rw [heads_congr (keys_congr hb)]
    apply List.map_congr_left
    intro a _
    rw [hdb]

end Irismod.Proofs.Order
