/-
Helper lemmas for C01 / C02 (coinswap): names of escrow addresses and liquidity denoms are
injective in the pool sequence; the bank primitives in net (ℤ) form; inversion lemmas giving,
for every handler of the model that succeeds, the exact ledger it produced and the facts about
the amounts it computed.
-/
import Std.Data.String.ToNat
import Irismod.Spec.C01
import Irismod.Spec.C02

namespace Irismod.Proofs.Coinswap
open Irismod Irismod.Sdk Irismod.Coinswap Irismod.Spec.C02

/-! ### names -/

theorem poolAddr_inj {a b : Nat} (h : poolAddr a = poolAddr b) : a = b := by
  unfold poolAddr at h
  exact Nat.repr_injective ((String.append_right_inj _).mp h)

theorem lptDenom_inj {a b : Nat} (h : lptDenom a = lptDenom b) : a = b := by
  unfold lptDenom at h
  exact Nat.repr_injective ((String.append_right_inj _).mp h)

theorem poolAddr_head (n : Nat) : (poolAddr n).toList.head? = some 'P' := by
  unfold poolAddr
  simp [String.toList_append]

theorem not_pool_of_head {a : Addr} (h : a.toList.head? ≠ some 'P') (n : Nat) : a ≠ poolAddr n := by
  intro e; rw [e] at h; exact h (poolAddr_head n)

theorem mod_ne_pool (n : Nat) : modAddr ≠ poolAddr n := not_pool_of_head (by decide) n

/-- the ℕ-level range guard is the `sdkmath.Int` range check of `Irismod.Sdk` on non-negative values -/
theorem ck_eq_chkInt (n : Nat) : (ck n).map (fun v => (v : Int)) = chkInt (n : Int) := by
  unfold ck chkInt inInt256
  simp only [Int.natAbs_natCast]
  split <;> simp_all

/-! ### bank primitives, net form -/

theorem supplyOf_setBal (b : Bank) (a d v d') : (b.setBal a d v).supplyOf d' = b.supplyOf d' := rfl

theorem send_bal {b b' : Bank} {src dst : Addr} {d : Denom} {n : Nat} (h : b.send src dst d n = some b')
    (a' : Addr) (d' : Denom) :
    (b'.balOf a' d' : Int) = b.balOf a' d' + (Mv.xfer src dst d n).bal a' d' := by
  simp only [Mv.bal]
  by_cases hsd : src = dst
  · subst hsd
    rw [Bank.send_self b b' src d n h a' d']; omega
  · obtain ⟨h1, h2, h3⟩ := Bank.send_deltas b b' src dst d n hsd h
    by_cases k1 : src = a' ∧ d = d'
    · obtain ⟨rfl, rfl⟩ := k1
      have hds : ¬ dst = src := fun e => hsd e.symm
      simp [hds]; omega
    · by_cases k2 : dst = a' ∧ d = d'
      · obtain ⟨rfl, rfl⟩ := k2
        simp [hsd]; omega
      · simp only [k1, k2, if_false]
        rw [h3 a' d' (by intro e; cases e; exact k1 ⟨rfl, rfl⟩) (by intro e; cases e; exact k2 ⟨rfl, rfl⟩)]
        omega

theorem send_sup {b b' : Bank} {src dst : Addr} {d : Denom} {n : Nat} (h : b.send src dst d n = some b')
    (d' : Denom) : b'.supplyOf d' = b.supplyOf d' := by
  unfold Bank.supplyOf; rw [Bank.send_supply b b' src dst d n h]

theorem mint_bal (b : Bank) (dst : Addr) (d : Denom) (n : Nat) (a' : Addr) (d' : Denom) :
    ((b.mint dst d n).balOf a' d' : Int) = b.balOf a' d' + (Mv.mint dst d n).bal a' d' := by
  simp only [Mv.bal]
  have e : (b.mint dst d n).balOf a' d' = (b.setBal dst d (b.balOf dst d + n)).balOf a' d' := rfl
  rw [e]
  by_cases k : dst = a' ∧ d = d'
  · obtain ⟨rfl, rfl⟩ := k
    rw [Bank.balOf_setBal_self]; simp
  · rw [Bank.balOf_setBal_other _ _ _ _ _ _ (by intro e; cases e; exact k ⟨rfl, rfl⟩)]
    simp [k]

theorem mint_sup (b : Bank) (dst : Addr) (d : Denom) (n : Nat) (d' : Denom) :
    ((b.mint dst d n).supplyOf d' : Int) = b.supplyOf d' + (Mv.mint dst d n).sup d' := by
  simp only [Mv.sup]
  unfold Bank.mint Bank.supplyOf AMap.getD
  by_cases k : d = d'
  · subst k; simp [AMap.get?_set_self]
  · simp [AMap.get?_set_other _ _ _ _ k, k]

theorem burn_bal {b b' : Bank} {src : Addr} {d : Denom} {n : Nat} (h : b.burn src d n = some b')
    (a' : Addr) (d' : Denom) :
    (b'.balOf a' d' : Int) = b.balOf a' d' + (Mv.burn src d n).bal a' d' := by
  simp only [Mv.bal]
  unfold Bank.burn at h
  split at h
  · cases h
  · rename_i hge
    cases h
    have e : ∀ x, Bank.balOf { b.setBal src d (b.balOf src d - n) with supply := x } a' d'
        = (b.setBal src d (b.balOf src d - n)).balOf a' d' := fun _ => rfl
    rw [e]
    by_cases k : src = a' ∧ d = d'
    · obtain ⟨rfl, rfl⟩ := k
      rw [Bank.balOf_setBal_self]; simp; omega
    · rw [Bank.balOf_setBal_other _ _ _ _ _ _ (by intro e; cases e; exact k ⟨rfl, rfl⟩)]
      simp [k]

theorem burn_sup {b b' : Bank} {src : Addr} {d : Denom} {n : Nat} (h : b.burn src d n = some b')
    (hs : n ≤ b.supplyOf d) (d' : Denom) :
    (b'.supplyOf d' : Int) = b.supplyOf d' + (Mv.burn src d n).sup d' := by
  simp only [Mv.sup]
  unfold Bank.burn at h
  split at h
  · cases h
  · cases h
    unfold Bank.supplyOf AMap.getD at *
    by_cases k : d = d'
    · subst k; simp [AMap.get?_set_self]; omega
    · simp [AMap.get?_set_other _ _ _ _ k, k]

/-! ### ledgers -/

theorem netBal_append (m1 m2 : List Mv) (a : Addr) (d : Denom) :
    netBal (m1 ++ m2) a d = netBal m1 a d + netBal m2 a d := by
  induction m1 with
  | nil => simp [netBal]
  | cons h t ih => simp [netBal, ih]; omega

theorem netSup_append (m1 m2 : List Mv) (d : Denom) :
    netSup (m1 ++ m2) d = netSup m1 d + netSup m2 d := by
  induction m1 with
  | nil => simp [netSup]
  | cons h t ih => simp [netSup, ih]; omega

theorem Ledger.refl (b : Bank) : Ledger b b [] := by
  constructor <;> intros <;> simp [netBal, netSup]

theorem Ledger.trans {b b1 b2 : Bank} {m1 m2 : List Mv} (h1 : Ledger b b1 m1) (h2 : Ledger b1 b2 m2) :
    Ledger b b2 (m1 ++ m2) := by
  constructor
  · intro a d; rw [netBal_append, h2.1 a d, h1.1 a d]; omega
  · intro d; rw [netSup_append, h2.2 d, h1.2 d]; omega

/-- two move lists with the same net effect are interchangeable -/
theorem Ledger.congr {b b' : Bank} {m1 m2 : List Mv} (h : Ledger b b' m1)
    (hb : ∀ a d, netBal m1 a d = netBal m2 a d) (hsu : ∀ d, netSup m1 d = netSup m2 d) : Ledger b b' m2 := by
  constructor
  · intro a d; rw [← hb]; exact h.1 a d
  · intro d; rw [← hsu]; exact h.2 d

theorem send_ledger {b b' : Bank} {src dst : Addr} {d : Denom} {n : Nat} (h : b.send src dst d n = some b') :
    Ledger b b' [.xfer src dst d n] := by
  constructor
  · intro a' d'; rw [send_bal h]; simp [netBal]
  · intro d'; rw [send_sup h]; simp [netSup, Mv.sup]

theorem mint_ledger (b : Bank) (dst : Addr) (d : Denom) (n : Nat) : Ledger b (b.mint dst d n) [.mint dst d n] := by
  constructor
  · intro a' d'; rw [mint_bal]; simp [netBal]
  · intro d'; rw [mint_sup]; simp [netSup]

theorem burnCk_ledger {b b' : Bank} {src : Addr} {d : Denom} {n : Nat} (h : burnCk b src d n = .ok b') :
    Ledger b b' [.burn src d n] := by
  unfold burnCk at h
  split at h
  · cases h
  · rename_i b1 hb
    split at h
    · cases h
    · rename_i hs
      cases h
      constructor
      · intro a' d'; rw [burn_bal hb]; simp [netBal]
      · intro d'; rw [burn_sup hb (by omega)]; simp [netSup]


/-! ### configuration frame -/

/-- everything except the bank is the same -/
def SameCfg (s s' : State) : Prop :=
  s'.std = s.std ∧ s'.params = s.params ∧ s'.pools = s.pools ∧ s'.seq = s.seq ∧ s'.now = s.now ∧
  s'.blocked = s.blocked

theorem SameCfg.refl (s : State) : SameCfg s s := ⟨rfl, rfl, rfl, rfl, rfl, rfl⟩

theorem SameCfg.trans {a b c : State} (h1 : SameCfg a b) (h2 : SameCfg b c) : SameCfg a c := by
  obtain ⟨a1, a2, a3, a4, a5, a6⟩ := h1
  obtain ⟨b1, b2, b3, b4, b5, b6⟩ := h2
  exact ⟨b1.trans a1, b2.trans a2, b3.trans a3, b4.trans a4, b5.trans a5, b6.trans a6⟩

theorem SameCfg.withBank (s : State) (b : Bank) : SameCfg s { s with bank := b } := ⟨rfl, rfl, rfl, rfl, rfl, rfl⟩

/-- the two denominations of a leg on the pool of `cp`: one is the standard denom, the other `cp` -/
def Dir (s : State) (cp d1 d2 : Denom) : Prop := (d1 = s.std ∧ d2 = cp) ∨ (d1 = cp ∧ d2 = s.std)

theorem lookupLpt_ok {s : State} {d1 d2 : Denom} {n : Nat} (h : lookupLpt s d1 d2 = .ok n) :
    ∃ cp, AMap.get? s.pools cp = some n ∧ cp ≠ s.std ∧ Dir s cp d1 d2 := by
  unfold lookupLpt at h
  split at h
  · cases h
  · rename_i hne
    split at h
    · cases h
    · rename_i hstd
      split at h
      · cases h
      · rename_i m hget
        cases h
        by_cases h1 : d1 = s.std
        · simp only [h1, if_true] at hget
          exact ⟨d2, hget, fun e => hne (h1.trans e.symm), Or.inl ⟨h1, rfl⟩⟩
        · simp only [h1, if_false] at hget
          have h2 : d2 = s.std := by
            by_cases h2 : d2 = s.std
            · exact h2
            · exact absurd ⟨h1, h2⟩ hstd
          exact ⟨d1, hget, h1, Or.inr ⟨rfl, h2⟩⟩

theorem lookupLpt_symm (s : State) (d1 d2 : Denom) : lookupLpt s d1 d2 = lookupLpt s d2 d1 := by
  unfold lookupLpt
  by_cases e : d1 = d2
  · subst e; rfl
  · have e' : ¬ d2 = d1 := fun h => e h.symm
    by_cases h1 : d1 = s.std
    · have h2 : ¬ d2 = s.std := fun h => e (h1.trans h.symm)
      subst h1
      simp [e, e']
    · by_cases h2 : d2 = s.std
      · subst h2
        simp [e, e']
      · simp [e, e', h1, h2]

theorem lookupLpt_cfg {s s' : State} (h : SameCfg s s') (d1 d2 : Denom) : lookupLpt s' d1 d2 = lookupLpt s d1 d2 := by
  unfold lookupLpt; rw [h.1, h.2.2.1]

/-! ### swap legs -/

/-- facts established by a successful `calculateWithExactInput` -/
structure LegIn (s : State) (soldD : Denom) (soldA : Nat) (boughtD : Denom) (n v : Nat) : Prop where
  look : lookupLpt s soldD boughtD = .ok n
  xpos : 0 < s.bank.balOf (poolAddr n) soldD
  ypos : 0 < s.bank.balOf (poolAddr n) boughtD
  price : inputPrice soldA (s.bank.balOf (poolAddr n) soldD) (s.bank.balOf (poolAddr n) boughtD) s.params.fee = some v

theorem calcIn_ok {s : State} {soldD boughtD : Denom} {soldA v : Nat} (h : calcIn s soldD soldA boughtD = .ok v) :
    ∃ n, LegIn s soldD soldA boughtD n v := by
  unfold calcIn at h
  split at h
  · cases h
  · rename_i n hl
    split at h
    · cases h
    · rename_i hx
      split at h
      · cases h
      · rename_i hy
        split at h
        · cases h
        · rename_i w hp
          cases h
          exact ⟨n, hl, by omega, by omega, hp⟩

/-- facts established by a successful `calculateWithExactOutput` -/
structure LegOut (s : State) (boughtD : Denom) (boughtA : Nat) (soldD : Denom) (n v : Nat) : Prop where
  look : lookupLpt s boughtD soldD = .ok n
  xpos : 0 < s.bank.balOf (poolAddr n) soldD
  ylt : boughtA < s.bank.balOf (poolAddr n) boughtD
  price : outputPrice boughtA (s.bank.balOf (poolAddr n) soldD) (s.bank.balOf (poolAddr n) boughtD) s.params.fee = some v

theorem calcOut_ok {s : State} {soldD boughtD : Denom} {boughtA v : Nat} (h : calcOut s boughtD boughtA soldD = .ok v) :
    ∃ n, LegOut s boughtD boughtA soldD n v := by
  unfold calcOut at h
  split at h
  · cases h
  · rename_i n hl
    split at h
    · cases h
    · rename_i hx
      split at h
      · cases h
      · split at h
        · cases h
        · rename_i hlt
          split at h
          · cases h
          · rename_i w hp
            cases h
            exact ⟨n, hl, by omega, by omega, hp⟩

theorem swapCoins_ok {s s' : State} {sender rcpt : Addr} {sd bd : Denom} {sa ba : Nat}
    (h : swapCoins s sender rcpt sd sa bd ba = .ok s') :
    ∃ n, lookupLpt s sd bd = .ok n ∧ Ledger s.bank s'.bank (singleSpec sender rcpt n sd bd sa ba) ∧ SameCfg s s' := by
  unfold swapCoins at h
  split at h
  · cases h
  · rename_i n hl
    split at h
    · cases h
    · rename_i b1 h1
      split at h
      · cases h
      · rename_i b2 h2
        cases h
        exact ⟨n, hl, Ledger.trans (send_ledger h1) (send_ledger h2), SameCfg.withBank s b2⟩

theorem lookup_unique {s : State} {d1 d2 : Denom} {n m : Nat} (h1 : lookupLpt s d1 d2 = .ok n)
    (h2 : lookupLpt s d1 d2 = .ok m) : n = m := by
  rw [h1] at h2; cases h2; rfl

theorem tradeIn_ok {s s' : State} {sender rcpt : Addr} {inD outD : Denom} {inA minOut : Nat}
    (h : tradeIn s sender rcpt inD inA outD minOut = .ok s') :
    ∃ n bought, LegIn s inD inA outD n bought ∧ minOut ≤ bought ∧
      Ledger s.bank s'.bank (singleSpec sender rcpt n inD outD inA bought) ∧ SameCfg s s' := by
  unfold tradeIn at h
  split at h
  · cases h
  · rename_i bought hc
    obtain ⟨n, hleg⟩ := calcIn_ok hc
    split at h
    · cases h
    · rename_i hmin
      obtain ⟨m, hl, hled, hcfg⟩ := swapCoins_ok h
      have : m = n := lookup_unique hl hleg.look
      subst this
      exact ⟨m, bought, hleg, by omega, hled, hcfg⟩

theorem tradeOut_ok {s s' : State} {sender rcpt : Addr} {inD outD : Denom} {maxIn outA : Nat}
    (h : tradeOut s sender rcpt inD maxIn outD outA = .ok s') :
    ∃ n sold, LegOut s outD outA inD n sold ∧ sold ≤ maxIn ∧
      Ledger s.bank s'.bank (singleSpec sender rcpt n inD outD sold outA) ∧ SameCfg s s' := by
  unfold tradeOut at h
  split at h
  · cases h
  · rename_i sold hc
    obtain ⟨n, hleg⟩ := calcOut_ok hc
    split at h
    · cases h
    · rename_i hmax
      obtain ⟨m, hl, hled, hcfg⟩ := swapCoins_ok h
      have hl' : lookupLpt s outD inD = .ok m := by rw [lookupLpt_symm]; exact hl
      have : m = n := lookup_unique hl' hleg.look
      subst this
      exact ⟨m, sold, hleg, by omega, hled, hcfg⟩


theorem doubleIn_ok {s s' : State} {sender rcpt : Addr} {inD outD : Denom} {inA minOut : Nat}
    (h : doubleIn s sender rcpt inD inA outD minOut = .ok s') :
    ∃ na nb k bought s1, LegIn s inD inA s.std na k ∧
      Ledger s.bank s1.bank (singleSpec sender sender na inD s.std inA k) ∧ SameCfg s s1 ∧
      LegIn s1 s.std k outD nb bought ∧ minOut ≤ bought ∧
      Ledger s1.bank s'.bank (singleSpec sender rcpt nb s.std outD k bought) ∧ SameCfg s1 s' := by
  unfold doubleIn at h
  split at h
  · cases h
  · rename_i k hc1
    obtain ⟨na, hleg1⟩ := calcIn_ok hc1
    split at h
    · cases h
    · rename_i s1 hs1
      obtain ⟨m1, hl1, hled1, hcfg1⟩ := swapCoins_ok hs1
      have e1 : m1 = na := lookup_unique hl1 hleg1.look
      subst e1
      split at h
      · cases h
      · rename_i bought hc2
        obtain ⟨nb, hleg2⟩ := calcIn_ok hc2
        split at h
        · cases h
        · rename_i hmin
          obtain ⟨m2, hl2, hled2, hcfg2⟩ := swapCoins_ok h
          have e2 : m2 = nb := lookup_unique hl2 hleg2.look
          subst e2
          exact ⟨m1, m2, k, bought, s1, hleg1, hled1, hcfg1, hleg2, by omega, hled2, hcfg2⟩

theorem doubleOut_ok {s s' : State} {sender rcpt : Addr} {inD outD : Denom} {maxIn outA : Nat}
    (h : doubleOut s sender rcpt inD maxIn outD outA = .ok s') :
    ∃ na nb k sold s1, LegOut s outD outA s.std nb k ∧ LegOut s s.std k inD na sold ∧ sold ≤ maxIn ∧
      Ledger s.bank s1.bank (singleSpec sender sender na inD s.std sold k) ∧ SameCfg s s1 ∧
      Ledger s1.bank s'.bank (singleSpec sender rcpt nb s.std outD k outA) ∧ SameCfg s1 s' := by
  unfold doubleOut at h
  split at h
  · cases h
  · rename_i k hc1
    obtain ⟨nb, hleg1⟩ := calcOut_ok hc1
    split at h
    · cases h
    · rename_i sold hc2
      obtain ⟨na, hleg2⟩ := calcOut_ok hc2
      split at h
      · cases h
      · rename_i hmax
        split at h
        · cases h
        · rename_i s1 hs1
          obtain ⟨m1, hl1, hled1, hcfg1⟩ := swapCoins_ok hs1
          obtain ⟨m2, hl2, hled2, hcfg2⟩ := swapCoins_ok h
          have e1 : m1 = na := by
            have := hleg2.look; rw [lookupLpt_symm] at this; exact lookup_unique hl1 this
          have e2 : m2 = nb := by
            have := hleg1.look; rw [lookupLpt_symm, ← lookupLpt_cfg hcfg1] at this
            exact lookup_unique hl2 this
          subst e1; subst e2
          exact ⟨m1, m2, k, sold, s1, hleg1, hleg2, by omega, hled1, hcfg1, hled2, hcfg2⟩

/-! ### liquidity -/

/-- the literal moves of `DeductPoolCreationFee` -/
def feeMoves (s : State) (sender : Addr) : List Mv :=
  [.xfer sender modAddr s.params.pcfDenom s.params.pcfAmt,
   .xfer modAddr fcAddr s.params.pcfDenom (s.params.pcfAmt * s.params.tax / D),
   .burn modAddr s.params.pcfDenom (s.params.pcfAmt - s.params.pcfAmt * s.params.tax / D)]

/-- what the property demands of the fee: tax to the fee collector, the rest burned -/
def feeSpec (s : State) (sender : Addr) : List Mv :=
  [.xfer sender fcAddr s.params.pcfDenom (s.params.pcfAmt * s.params.tax / D),
   .burn sender s.params.pcfDenom (s.params.pcfAmt - s.params.pcfAmt * s.params.tax / D)]

theorem deductFee_ok {s s1 : State} {sender : Addr} (h : deductFee s sender = .ok s1) :
    Ledger s.bank s1.bank (feeMoves s sender) ∧ SameCfg s s1 := by
  unfold deductFee at h
  split at h
  · cases h
  · split at h
    · cases h
    · rename_i b1 h1
      split at h
      · cases h
      · rename_i b2 h2
        split at h
        · cases h
        · rename_i b3 h3
          cases h
          exact ⟨Ledger.trans (send_ledger h1) (Ledger.trans (send_ledger h2) (burnCk_ledger h3)), SameCfg.withBank s b3⟩

theorem tax_le (p t : Nat) (ht : t ≤ D) : p * t / D ≤ p := by
  apply Nat.div_le_of_le_mul
  rw [Nat.mul_comm D p]
  exact Nat.mul_le_mul_left p ht

/-- for a valid tax rate the module account nets to zero: the literal moves equal the spec -/
theorem feeMoves_net (s : State) (sender : Addr) (ht : s.params.tax ≤ D) :
    (∀ a d, netBal (feeMoves s sender) a d = netBal (feeSpec s sender) a d) ∧
    (∀ d, netSup (feeMoves s sender) d = netSup (feeSpec s sender) d) := by
  have hle := tax_le s.params.pcfAmt s.params.tax ht
  constructor
  · intro a d
    simp only [feeMoves, feeSpec, netBal, Mv.bal]
    split <;> split <;> split <;> omega
  · intro d
    simp only [feeMoves, feeSpec, netSup, Mv.sup]
    omega

def addMoves (std : Denom) (sender : Addr) (n : Nat) (cp : Denom) (dS t m : Nat) : List Mv :=
  [.xfer sender (poolAddr n) std dS, .xfer sender (poolAddr n) cp t, .mint sender (lptDenom n) m]

theorem addLiq_ok {s s' : State} {sender : Addr} {n : Nat} {cp : Denom} {dS t m : Nat} {resp : CoinList}
    (h : addLiq s sender n cp dS t m = .ok (s', resp)) :
    Ledger s.bank s'.bank (addMoves s.std sender n cp dS t m) ∧ SameCfg s s' ∧ resp = [(lptDenom n, m)] := by
  unfold addLiq at h
  split at h
  · cases h
  · rename_i b1 h1
    split at h
    · cases h
    · rename_i b2 h2
      simp only [minted] at h
      cases h
      exact ⟨Ledger.trans (send_ledger h1) (Ledger.trans (send_ledger h2) (mint_ledger b2 _ _ _)),
        ⟨rfl, rfl, rfl, rfl, rfl, rfl⟩, rfl⟩

theorem addExisting_ok {s s' : State} {sender : Addr} {n : Nat} {cp : Denom} {maxA dS minL : Nat} {resp : CoinList}
    (h : addExisting s sender n cp maxA dS minL = .ok (s', resp)) :
    0 < resX s n ∧ 0 < resY s n cp ∧ 0 < shares s n ∧
    minL ≤ shares s n * dS / resX s n ∧ resY s n cp * dS / resX s n + 1 ≤ maxA ∧
    addLiq s sender n cp dS (resY s n cp * dS / resX s n + 1) (shares s n * dS / resX s n) = .ok (s', resp) := by
  unfold addExisting at h
  split at h
  · cases h
  · rename_i hz
    split at h
    · cases h
    · split at h
      · cases h
      · rename_i hmin
        split at h
        · cases h
        · split at h
          · cases h
          · rename_i hmax
            exact ⟨by omega, by omega, by omega, by omega, by omega, h⟩

theorem stepAdd_ok {s s' : State} {sender : Addr} {cp : Denom} {maxA dS minL : Nat} {dl : Int} {resp : CoinList}
    (h : stepAdd s sender cp maxA dS minL dl = .ok (s', resp)) :
    expired s.now dl = false ∧ cp ≠ s.std ∧
    ((AMap.get? s.pools cp = none ∧ ∃ s1, deductFee s sender = .ok s1 ∧ minL ≤ dS ∧
        addLiq { s1 with pools := AMap.set s1.pools cp s1.seq, seq := s1.seq + 1 } sender s1.seq cp dS maxA dS
          = .ok (s', resp)) ∨
     (∃ n, AMap.get? s.pools cp = some n ∧ addrEmpty s.bank (poolAddr n) = true ∧ minL ≤ dS ∧
        addLiq s sender n cp dS maxA dS = .ok (s', resp)) ∨
     (∃ n, AMap.get? s.pools cp = some n ∧ addrEmpty s.bank (poolAddr n) = false ∧
        addExisting s sender n cp maxA dS minL = .ok (s', resp))) := by
  unfold stepAdd at h
  split at h
  · cases h
  · rename_i hexp
    split at h
    · cases h
    · rename_i hstd
      refine ⟨by simpa using hexp, hstd, ?_⟩
      split at h
      · rename_i hnone
        split at h
        · cases h
        · rename_i s1 hfee
          split at h
          · cases h
          · rename_i hmin
            exact Or.inl ⟨hnone, s1, hfee, by omega, h⟩
      · rename_i n hsome
        split at h
        · rename_i hemp
          split at h
          · cases h
          · rename_i hmin
            exact Or.inr (Or.inl ⟨n, hsome, hemp, by omega, h⟩)
        · rename_i hemp
          exact Or.inr (Or.inr ⟨n, hsome, by simpa using hemp, h⟩)

def add1Moves (sender : Addr) (n : Nat) (tokD : Denom) (a m : Nat) : List Mv :=
  [.xfer sender (poolAddr n) tokD a, .mint sender (lptDenom n) m]

theorem stepAdd1_ok {s s' : State} {sender : Addr} {cp tokD : Denom} {a minL : Nat} {dl : Int} {resp : CoinList}
    (h : stepAdd1 s sender cp tokD a minL dl = .ok (s', resp)) :
    expired s.now dl = false ∧ ∃ n, AMap.get? s.pools cp = some n ∧ (tokD = cp ∨ tokD = s.std) ∧
      add1Fits (s.bank.balOf (poolAddr n) tokD) (shares s n) a (D - s.params.ufee) = true ∧
      minL ≤ add1Mint (s.bank.balOf (poolAddr n) tokD) (shares s n) a (D - s.params.ufee) ∧
      Ledger s.bank s'.bank (add1Moves sender n tokD a
        (add1Mint (s.bank.balOf (poolAddr n) tokD) (shares s n) a (D - s.params.ufee))) ∧
      SameCfg s s' ∧
      resp = [(lptDenom n, add1Mint (s.bank.balOf (poolAddr n) tokD) (shares s n) a (D - s.params.ufee))] := by
  unfold stepAdd1 at h
  split at h
  · cases h
  · rename_i hexp
    refine ⟨by simpa using hexp, ?_⟩
    split at h
    · cases h
    · rename_i n hsome
      split at h
      · cases h
      · rename_i hden
        split at h
        · cases h
        · split at h
          · cases h
          · rename_i hfits
            split at h
            · cases h
            · rename_i hmin
              split at h
              · cases h
              · rename_i b1 h1
                simp only [minted] at h
                cases h
                refine ⟨n, hsome, ?_, by simpa using hfits, by omega,
                  Ledger.trans (send_ledger h1) (mint_ledger b1 _ _ _), ⟨rfl, rfl, rfl, rfl, rfl, rfl⟩, rfl⟩
                by_cases e1 : tokD = cp
                · exact Or.inl e1
                · by_cases e2 : tokD = s.std
                  · exact Or.inr e2
                  · exact absurd ⟨e1, e2⟩ hden

def removeMoves (std : Denom) (sender : Addr) (n : Nat) (cp : Denom) (w x y : Nat) : List Mv :=
  [.burn sender (lptDenom n) w, .xfer (poolAddr n) sender std x, .xfer (poolAddr n) sender cp y]

theorem removeLiq_ok {s s' : State} {sender : Addr} {n : Nat} {cp : Denom} {w x y : Nat} {resp : CoinList}
    (h : removeLiq s sender n cp w x y = .ok (s', resp)) :
    Ledger s.bank s'.bank (removeMoves s.std sender n cp w x y) ∧ SameCfg s s' ∧ resp = coins [(s.std, x), (cp, y)] := by
  unfold removeLiq at h
  split at h
  · cases h
  · rename_i b1 h1
    split at h
    · cases h
    · rename_i b2 h2
      split at h
      · cases h
      · rename_i b3 h3
        cases h
        exact ⟨Ledger.trans (burnCk_ledger h1) (Ledger.trans (send_ledger h2) (send_ledger h3)),
          ⟨rfl, rfl, rfl, rfl, rfl, rfl⟩, rfl⟩

theorem findByLpt_some {m : AMap Denom Nat} {d cp : Denom} {n : Nat} (h : findByLpt m d = some (cp, n)) :
    lptDenom n = d ∧ (cp, n) ∈ m := by
  induction m with
  | nil => simp [findByLpt] at h
  | cons hd t ih =>
    obtain ⟨c, k⟩ := hd
    simp only [findByLpt] at h
    split at h
    · rename_i he
      cases h
      exact ⟨he, List.mem_cons_self⟩
    · obtain ⟨h1, h2⟩ := ih h
      exact ⟨h1, List.mem_cons_of_mem _ h2⟩

theorem stepRemove_ok {s s' : State} {sender : Addr} {lptD : Denom} {w minStd minTok : Nat} {dl : Int} {resp : CoinList}
    (h : stepRemove s sender lptD w minStd minTok dl = .ok (s', resp)) :
    expired s.now dl = false ∧ ∃ cp n, findByLpt s.pools lptD = some (cp, n) ∧
      w ≤ shares s n ∧ 0 < shares s n ∧
      minStd ≤ w * resX s n / shares s n ∧ minTok ≤ w * resY s n cp / shares s n ∧
      removeLiq s sender n cp w (w * resX s n / shares s n) (w * resY s n cp / shares s n) = .ok (s', resp) := by
  unfold stepRemove at h
  split at h
  · cases h
  · rename_i hexp
    refine ⟨by simpa using hexp, ?_⟩
    split at h
    · cases h
    · rename_i cp n hfind
      split at h
      · cases h
      · split at h
        · cases h
        · split at h
          · cases h
          · rename_i hw
            split at h
            · cases h
            · rename_i hfit
              split at h
              · cases h
              · rename_i h1
                split at h
                · cases h
                · rename_i h2
                  exact ⟨cp, n, hfind, by omega, by omega, by omega, by omega, h⟩

def rem1Moves (sender : Addr) (n : Nat) (minD : Denom) (w out : Nat) : List Mv :=
  [.burn sender (lptDenom n) w, .xfer (poolAddr n) sender minD out]

theorem rem1Liq_ok {s s' : State} {sender : Addr} {n : Nat} {minD : Denom} {w out : Nat} {resp : CoinList}
    (h : rem1Liq s sender n minD w out = .ok (s', resp)) :
    Ledger s.bank s'.bank (rem1Moves sender n minD w out) ∧ SameCfg s s' ∧ resp = coins [(minD, out)] := by
  unfold rem1Liq at h
  split at h
  · cases h
  · rename_i b1 h1
    split at h
    · cases h
    · rename_i b2 h2
      cases h
      exact ⟨Ledger.trans (burnCk_ledger h1) (send_ledger h2), ⟨rfl, rfl, rfl, rfl, rfl, rfl⟩, rfl⟩

theorem stepRem1_ok {s s' : State} {sender : Addr} {cp minD : Denom} {minA w : Nat} {dl : Int} {resp : CoinList}
    (h : stepRem1 s sender cp minD minA w dl = .ok (s', resp)) :
    expired s.now dl = false ∧ ∃ n, AMap.get? s.pools cp = some n ∧ (minD = cp ∨ minD = s.std) ∧
      w < shares s n ∧
      rem1Fits (s.bank.balOf (poolAddr n) minD) (shares s n) w (D - s.params.ufee) = true ∧
      minA ≤ rem1Out (s.bank.balOf (poolAddr n) minD) (shares s n) w (D - s.params.ufee) ∧
      rem1Liq s sender n minD w (rem1Out (s.bank.balOf (poolAddr n) minD) (shares s n) w (D - s.params.ufee))
        = .ok (s', resp) := by
  unfold stepRem1 at h
  split at h
  · cases h
  · rename_i hexp
    refine ⟨by simpa using hexp, ?_⟩
    split at h
    · cases h
    · rename_i n hsome
      split at h
      · cases h
      · rename_i hden
        split at h
        · cases h
        · rename_i hlt
          split at h
          · cases h
          · rename_i heq
            split at h
            · cases h
            · split at h
              · cases h
              · rename_i hfits
                split at h
                · cases h
                · rename_i hmin
                  refine ⟨n, hsome, ?_, by omega, by simpa using hfits, by omega, h⟩
                  by_cases e1 : minD = cp
                  · exact Or.inl e1
                  · by_cases e2 : minD = s.std
                    · exact Or.inr e2
                    · exact absurd ⟨e1, e2⟩ hden

theorem stepDonate_ok {s s' : State} {src dst : Addr} {d : Denom} {a : Nat} {resp : CoinList}
    (h : stepDonate s src dst d a = .ok (s', resp)) :
    Ledger s.bank s'.bank [.xfer src dst d a] ∧ SameCfg s s' := by
  unfold stepDonate at h
  split at h
  · cases h
  · split at h
    · cases h
    · rename_i b hb
      cases h
      exact ⟨send_ledger hb, ⟨rfl, rfl, rfl, rfl, rfl, rfl⟩⟩


/-! ### `step`, message by message -/

theorem step_swap_ok {s s' : State} {sender rcpt : Addr} {inD outD : Denom} {inA outA : Int} {buy : Bool} {dl : Int}
    {resp : CoinList} (h : step s (.swap sender rcpt inD inA outD outA buy dl) = .ok (s', resp)) :
    vb (.swap sender rcpt inD inA outD outA buy dl) = none ∧
    stepSwap s sender rcpt inD inA.toNat outD outA.toNat buy dl = .ok s' ∧ resp = [] := by
  unfold step at h
  cases hv : vb (.swap sender rcpt inD inA outD outA buy dl) with
  | some e => rw [hv] at h; cases h
  | none =>
    rw [hv] at h
    simp only at h
    cases hs : stepSwap s sender rcpt inD inA.toNat outD outA.toNat buy dl with
    | error e => rw [hs] at h; cases h
    | ok s2 => rw [hs] at h; cases h; exact ⟨rfl, rfl, rfl⟩

theorem step_add_ok {s : State} {sender : Addr} {cp : Denom} {maxA dS minL dl : Int} {r : State × CoinList}
    (h : step s (.add sender cp maxA dS minL dl) = .ok r) :
    vb (.add sender cp maxA dS minL dl) = none ∧ stepAdd s sender cp maxA.toNat dS.toNat minL.toNat dl = .ok r := by
  unfold step at h
  cases hv : vb (.add sender cp maxA dS minL dl) with
  | some e => rw [hv] at h; cases h
  | none => rw [hv] at h; exact ⟨rfl, h⟩

theorem step_remove_ok {s : State} {sender : Addr} {lptD : Denom} {w minStd minTok dl : Int} {r : State × CoinList}
    (h : step s (.remove sender lptD w minStd minTok dl) = .ok r) :
    vb (.remove sender lptD w minStd minTok dl) = none ∧
    stepRemove s sender lptD w.toNat minStd.toNat minTok.toNat dl = .ok r := by
  unfold step at h
  cases hv : vb (.remove sender lptD w minStd minTok dl) with
  | some e => rw [hv] at h; cases h
  | none => rw [hv] at h; exact ⟨rfl, h⟩

theorem step_add1_ok {s : State} {sender : Addr} {cp tokD : Denom} {a minL dl : Int} {r : State × CoinList}
    (h : step s (.add1 sender cp tokD a minL dl) = .ok r) :
    vb (.add1 sender cp tokD a minL dl) = none ∧ stepAdd1 s sender cp tokD a.toNat minL.toNat dl = .ok r := by
  unfold step at h
  cases hv : vb (.add1 sender cp tokD a minL dl) with
  | some e => rw [hv] at h; cases h
  | none => rw [hv] at h; exact ⟨rfl, h⟩

theorem step_rem1_ok {s : State} {sender : Addr} {cp minD : Denom} {minA w dl : Int} {r : State × CoinList}
    (h : step s (.rem1 sender cp minD minA w dl) = .ok r) :
    vb (.rem1 sender cp minD minA w dl) = none ∧ stepRem1 s sender cp minD minA.toNat w.toNat dl = .ok r := by
  unfold step at h
  cases hv : vb (.rem1 sender cp minD minA w dl) with
  | some e => rw [hv] at h; cases h
  | none => rw [hv] at h; exact ⟨rfl, h⟩

theorem step_donate_ok {s : State} {src dst : Addr} {d : Denom} {a : Nat} {r : State × CoinList}
    (h : step s (.donate src dst d a) = .ok r) : stepDonate s src dst d a = .ok r := by
  unfold step at h
  simpa [vb] using h

theorem step_params_ok {s : State} {auth : Addr} {fee tax ufee pcfA : Int} {pcfD : Denom} {r : State × CoinList}
    (h : step s (.setParams auth fee tax ufee pcfD pcfA) = .ok r) :
    vb (.setParams auth fee tax ufee pcfD pcfA) = none ∧
    stepParams s auth { fee := fee.toNat, tax := tax.toNat, ufee := ufee.toNat, pcfDenom := pcfD, pcfAmt := pcfA.toNat } = .ok r := by
  unfold step at h
  cases hv : vb (.setParams auth fee tax ufee pcfD pcfA) with
  | some e => rw [hv] at h; cases h
  | none => rw [hv] at h; exact ⟨rfl, h⟩

theorem step_block_ok {s : State} {t : Nat} {r : State × CoinList} (h : step s (.block t) = .ok r) :
    r = ({ s with now := t }, []) := by
  unfold step at h
  simp [vb] at h
  exact h.symm

/-! ### ValidateBasic facts -/

theorem firstErr_none {l : List (Option String)} (h : firstErr l = none) : ∀ x ∈ l, x = none := by
  induction l with
  | nil => intro x hx; cases hx
  | cons a t ih =>
    cases a with
    | some e => simp [firstErr] at h
    | none =>
      simp only [firstErr] at h
      intro x hx
      cases hx with
      | head => rfl
      | tail _ hx => exact ih h x hx

theorem vbSide_none {a : Addr} {d : Denom} {amt : Int} (h : vbSide a d amt = none) : 0 < amt := by
  unfold vbSide at h
  split at h
  · cases h
  · rename_i h1
    simp at h1
    exact h1.2

theorem vbToken_none {d : Denom} {amt : Int} (h : vbToken d amt = none) : 0 < amt := by
  unfold vbToken at h
  split at h
  · cases h
  · rename_i h1
    simp at h1
    exact h1.2

/-- deadline respected -/
theorem inTime_of_not_expired {now : Nat} {dl : Int} (h : expired now dl = false) : InTime now dl := by
  unfold expired at h
  unfold InTime
  simp only [Bool.or_eq_false_iff, decide_eq_false_iff_not, Bool.and_eq_false_iff] at h
  obtain ⟨h1, h2⟩ := h
  split at h1 <;> rename_i hw <;> simp only [hw, if_true, if_false] at h2 <;> omega


end Irismod.Proofs.Coinswap
