/-
Helper lemmas for C01 / C02 (coinswap): names of escrow addresses and liquidity denoms are
injective in the pool sequence; the bank primitives in net (ℤ) form; inversion lemmas giving,
for every handler of the model that succeeds, the exact ledger it produced and the facts about
the amounts it computed.
-/
import Std.Data.String.ToNat
import Irismod.Spec.C01
import Irismod.Spec.C02

namespace Irismod.Proofs.Coinswap
open Irismod Irismod.Sdk Irismod.Coinswap Irismod.Spec.C02

/-! ### names -/

theorem poolAddr_inj {a b : Nat} (h : poolAddr a = poolAddr b) : a = b := by
  unfold poolAddr at h
  exact Nat.repr_injective ((String.append_right_inj _).mp h)

theorem lptDenom_inj {a b : Nat} (h : lptDenom a = lptDenom b) : a = b := by
  unfold lptDenom at h
  exact Nat.repr_injective ((String.append_right_inj _).mp h)

theorem poolAddr_head (n : Nat) : (poolAddr n).toList.head? = some 'P' := by
  unfold poolAddr
  simp [String.toList_append]

/-! ### bank primitives, net form -/

theorem supplyOf_setBal (b : Bank) (a d v d') : (b.setBal a d v).supplyOf d' = b.supplyOf d' := rfl

theorem send_bal {b b' : Bank} {src dst : Addr} {d : Denom} {n : Nat} (h : b.send src dst d n = some b')
    (a' : Addr) (d' : Denom) :
    (b'.balOf a' d' : Int) = b.balOf a' d' + (Mv.xfer src dst d n).bal a' d' := by
  simp only [Mv.bal]
  by_cases hsd : src = dst
  · subst hsd
    rw [Bank.send_self b b' src d n h a' d']; omega
  · obtain ⟨h1, h2, h3⟩ := Bank.send_deltas b b' src dst d n hsd h
    by_cases k1 : src = a' ∧ d = d'
    · obtain ⟨rfl, rfl⟩ := k1
      have hds : ¬ dst = src := fun e => hsd e.symm
      simp [hds]; omega
    · by_cases k2 : dst = a' ∧ d = d'
      · obtain ⟨rfl, rfl⟩ := k2
        simp [hsd]; omega
      · simp only [k1, k2, if_false]
        rw [h3 a' d' (by intro e; cases e; exact k1 ⟨rfl, rfl⟩) (by intro e; cases e; exact k2 ⟨rfl, rfl⟩)]
        omega

theorem send_sup {b b' : Bank} {src dst : Addr} {d : Denom} {n : Nat} (h : b.send src dst d n = some b')
    (d' : Denom) : b'.supplyOf d' = b.supplyOf d' := by
  unfold Bank.supplyOf; rw [Bank.send_supply b b' src dst d n h]

theorem mint_bal (b : Bank) (dst : Addr) (d : Denom) (n : Nat) (a' : Addr) (d' : Denom) :
    ((b.mint dst d n).balOf a' d' : Int) = b.balOf a' d' + (Mv.mint dst d n).bal a' d' := by
  simp only [Mv.bal]
  have e : (b.mint dst d n).balOf a' d' = (b.setBal dst d (b.balOf dst d + n)).balOf a' d' := rfl
  rw [e]
  by_cases k : dst = a' ∧ d = d'
  · obtain ⟨rfl, rfl⟩ := k
    rw [Bank.balOf_setBal_self]; simp
  · rw [Bank.balOf_setBal_other _ _ _ _ _ _ (by intro e; cases e; exact k ⟨rfl, rfl⟩)]
    simp [k]

theorem mint_sup (b : Bank) (dst : Addr) (d : Denom) (n : Nat) (d' : Denom) :
    ((b.mint dst d n).supplyOf d' : Int) = b.supplyOf d' + (Mv.mint dst d n).sup d' := by
  simp only [Mv.sup]
  unfold Bank.mint Bank.supplyOf AMap.getD
  by_cases k : d = d'
  · subst k; simp [AMap.get?_set_self]
  · simp [AMap.get?_set_other _ _ _ _ k, k]

theorem burn_bal {b b' : Bank} {src : Addr} {d : Denom} {n : Nat} (h : b.burn src d n = some b')
    (a' : Addr) (d' : Denom) :
    (b'.balOf a' d' : Int) = b.balOf a' d' + (Mv.burn src d n).bal a' d' := by
  simp only [Mv.bal]
  unfold Bank.burn at h
  split at h
  · cases h
  · rename_i hge
    cases h
    have e : ∀ x, Bank.balOf { b.setBal src d (b.balOf src d - n) with supply := x } a' d'
        = (b.setBal src d (b.balOf src d - n)).balOf a' d' := fun _ => rfl
    rw [e]
    by_cases k : src = a' ∧ d = d'
    · obtain ⟨rfl, rfl⟩ := k
      rw [Bank.balOf_setBal_self]; simp; omega
    · rw [Bank.balOf_setBal_other _ _ _ _ _ _ (by intro e; cases e; exact k ⟨rfl, rfl⟩)]
      simp [k]

theorem burn_sup {b b' : Bank} {src : Addr} {d : Denom} {n : Nat} (h : b.burn src d n = some b')
    (hs : n ≤ b.supplyOf d) (d' : Denom) :
    (b'.supplyOf d' : Int) = b.supplyOf d' + (Mv.burn src d n).sup d' := by
  simp only [Mv.sup]
  unfold Bank.burn at h
  split at h
  · cases h
  · cases h
    unfold Bank.supplyOf AMap.getD at *
    by_cases k : d = d'
    · subst k; simp [AMap.get?_set_self]; omega
    · simp [AMap.get?_set_other _ _ _ _ k, k]

/-! ### ledgers -/

theorem netBal_append (m1 m2 : List Mv) (a : Addr) (d : Denom) :
    netBal (m1 ++ m2) a d = netBal m1 a d + netBal m2 a d := by
  induction m1 with
  | nil => simp [netBal]
  | cons h t ih => simp [netBal, ih]; omega

theorem netSup_append (m1 m2 : List Mv) (d : Denom) :
    netSup (m1 ++ m2) d = netSup m1 d + netSup m2 d := by
  induction m1 with
  | nil => simp [netSup]
  | cons h t ih => simp [netSup, ih]; omega

theorem Ledger.refl (b : Bank) : Ledger b b [] := by
  constructor <;> intros <;> simp [netBal, netSup]

theorem Ledger.trans {b b1 b2 : Bank} {m1 m2 : List Mv} (h1 : Ledger b b1 m1) (h2 : Ledger b1 b2 m2) :
    Ledger b b2 (m1 ++ m2) := by
  constructor
  · intro a d; rw [netBal_append, h2.1 a d, h1.1 a d]; omega
  · intro d; rw [netSup_append, h2.2 d, h1.2 d]; omega

/-- two move lists with the same net effect are interchangeable -/
theorem Ledger.congr {b b' : Bank} {m1 m2 : List Mv} (h : Ledger b b' m1)
    (hb : ∀ a d, netBal m1 a d = netBal m2 a d) (hsu : ∀ d, netSup m1 d = netSup m2 d) : Ledger b b' m2 := by
  constructor
  · intro a d; rw [← hb]; exact h.1 a d
  · intro d; rw [← hsu]; exact h.2 d

theorem send_ledger {b b' : Bank} {src dst : Addr} {d : Denom} {n : Nat} (h : b.send src dst d n = some b') :
    Ledger b b' [.xfer src dst d n] := by
  constructor
  · intro a' d'; rw [send_bal h]; simp [netBal]
  · intro d'; rw [send_sup h]; simp [netSup, Mv.sup]

theorem mint_ledger (b : Bank) (dst : Addr) (d : Denom) (n : Nat) : Ledger b (b.mint dst d n) [.mint dst d n] := by
  constructor
  · intro a' d'; rw [mint_bal]; simp [netBal]
  · intro d'; rw [mint_sup]; simp [netSup]

theorem burnCk_ledger {b b' : Bank} {src : Addr} {d : Denom} {n : Nat} (h : burnCk b src d n = .ok b') :
    Ledger b b' [.burn src d n] := by
  unfold burnCk at h
  split at h
  · cases h
  · rename_i b1 hb
    split at h
    · cases h
    · rename_i hs
      cases h
      constructor
      · intro a' d'; rw [burn_bal hb]; simp [netBal]
      · intro d'; rw [burn_sup hb (by omega)]; simp [netSup]


/-! ### configuration frame -/

/-- everything except the bank is the same -/
def SameCfg (s s' : State) : Prop :=
  s'.std = s.std ∧ s'.params = s.params ∧ s'.pools = s.pools ∧ s'.seq = s.seq ∧ s'.now = s.now ∧
  s'.blocked = s.blocked

theorem SameCfg.refl (s : State) : SameCfg s s := ⟨rfl, rfl, rfl, rfl, rfl, rfl⟩

theorem SameCfg.trans {a b c : State} (h1 : SameCfg a b) (h2 : SameCfg b c) : SameCfg a c := by
  obtain ⟨a1, a2, a3, a4, a5, a6⟩ := h1
  obtain ⟨b1, b2, b3, b4, b5, b6⟩ := h2
  exact ⟨b1.trans a1, b2.trans a2, b3.trans a3, b4.trans a4, b5.trans a5, b6.trans a6⟩

theorem SameCfg.withBank (s : State) (b : Bank) : SameCfg s { s with bank := b } := ⟨rfl, rfl, rfl, rfl, rfl, rfl⟩

/-- the two denominations of a leg on the pool of `cp`: one is the standard denom, the other `cp` -/
def Dir (s : State) (cp d1 d2 : Denom) : Prop := (d1 = s.std ∧ d2 = cp) ∨ (d1 = cp ∧ d2 = s.std)

theorem lookupLpt_ok {s : State} {d1 d2 : Denom} {n : Nat} (h : lookupLpt s d1 d2 = .ok n) :
    ∃ cp, AMap.get? s.pools cp = some n ∧ cp ≠ s.std ∧ Dir s cp d1 d2 := by
  unfold lookupLpt at h
  split at h
  · cases h
  · rename_i hne
    split at h
    · cases h
    · rename_i hstd
      split at h
      · cases h
      · rename_i m hget
        cases h
        by_cases h1 : d1 = s.std
        · simp only [h1, if_true] at hget
          exact ⟨d2, hget, fun e => hne (h1.trans e.symm), Or.inl ⟨h1, rfl⟩⟩
        · simp only [h1, if_false] at hget
          have h2 : d2 = s.std := by
            by_contra h2; exact hstd ⟨h1, h2⟩
          exact ⟨d1, hget, h1, Or.inr ⟨rfl, h2⟩⟩

theorem lookupLpt_cfg {s s' : State} (h : SameCfg s s') (d1 d2 : Denom) : lookupLpt s' d1 d2 = lookupLpt s d1 d2 := by
  unfold lookupLpt; rw [h.1, h.2.2.1]

/-! ### swap legs -/

/-- facts established by a successful `calculateWithExactInput` -/
structure LegIn (s : State) (soldD : Denom) (soldA : Nat) (boughtD : Denom) (n v : Nat) : Prop where
  look : lookupLpt s soldD boughtD = .ok n
  xpos : 0 < s.bank.balOf (poolAddr n) soldD
  ypos : 0 < s.bank.balOf (poolAddr n) boughtD
  price : inputPrice soldA (s.bank.balOf (poolAddr n) soldD) (s.bank.balOf (poolAddr n) boughtD) s.params.fee = some v

theorem calcIn_ok {s : State} {soldD boughtD : Denom} {soldA v : Nat} (h : calcIn s soldD soldA boughtD = .ok v) :
    ∃ n, LegIn s soldD soldA boughtD n v := by
  unfold calcIn at h
  split at h
  · cases h
  · rename_i n hl
    split at h
    · cases h
    · rename_i hx
      split at h
      · cases h
      · rename_i hy
        split at h
        · cases h
        · rename_i w hp
          cases h
          exact ⟨n, hl, by omega, by omega, hp⟩

/-- facts established by a successful `calculateWithExactOutput` -/
structure LegOut (s : State) (boughtD : Denom) (boughtA : Nat) (soldD : Denom) (n v : Nat) : Prop where
  look : lookupLpt s boughtD soldD = .ok n
  xpos : 0 < s.bank.balOf (poolAddr n) soldD
  ylt : boughtA < s.bank.balOf (poolAddr n) boughtD
  price : outputPrice boughtA (s.bank.balOf (poolAddr n) soldD) (s.bank.balOf (poolAddr n) boughtD) s.params.fee = some v

theorem calcOut_ok {s : State} {soldD boughtD : Denom} {boughtA v : Nat} (h : calcOut s boughtD boughtA soldD = .ok v) :
    ∃ n, LegOut s boughtD boughtA soldD n v := by
  unfold calcOut at h
  split at h
  · cases h
  · rename_i n hl
    split at h
    · cases h
    · rename_i hx
      split at h
      · cases h
      · split at h
        · cases h
        · rename_i hlt
          split at h
          · cases h
          · rename_i w hp
            cases h
            exact ⟨n, hl, by omega, by omega, hp⟩

theorem swapCoins_ok {s s' : State} {sender rcpt : Addr} {sd bd : Denom} {sa ba : Nat}
    (h : swapCoins s sender rcpt sd sa bd ba = .ok s') :
    ∃ n, lookupLpt s sd bd = .ok n ∧ Ledger s.bank s'.bank (singleSpec sender rcpt n sd bd sa ba) ∧ SameCfg s s' := by
  unfold swapCoins at h
  split at h
  · cases h
  · rename_i n hl
    split at h
    · cases h
    · rename_i b1 h1
      split at h
      · cases h
      · rename_i b2 h2
        cases h
        exact ⟨n, hl, Ledger.trans (send_ledger h1) (send_ledger h2), SameCfg.withBank s b2⟩

theorem lookup_unique {s : State} {d1 d2 : Denom} {n m : Nat} (h1 : lookupLpt s d1 d2 = .ok n)
    (h2 : lookupLpt s d1 d2 = .ok m) : n = m := by
  rw [h1] at h2; cases h2; rfl

theorem tradeIn_ok {s s' : State} {sender rcpt : Addr} {inD outD : Denom} {inA minOut : Nat}
    (h : tradeIn s sender rcpt inD inA outD minOut = .ok s') :
    ∃ n bought, LegIn s inD inA outD n bought ∧ minOut ≤ bought ∧
      Ledger s.bank s'.bank (singleSpec sender rcpt n inD outD inA bought) ∧ SameCfg s s' := by
  unfold tradeIn at h
  split at h
  · cases h
  · rename_i bought hc
    obtain ⟨n, hleg⟩ := calcIn_ok hc
    split at h
    · cases h
    · rename_i hmin
      obtain ⟨m, hl, hled, hcfg⟩ := swapCoins_ok h
      have : m = n := lookup_unique hl hleg.look
      subst this
      exact ⟨m, bought, hleg, by omega, hled, hcfg⟩

theorem tradeOut_ok {s s' : State} {sender rcpt : Addr} {inD outD : Denom} {maxIn outA : Nat}
    (h : tradeOut s sender rcpt inD maxIn outD outA = .ok s') :
    ∃ n sold, LegOut s outD outA inD n sold ∧ sold ≤ maxIn ∧
      Ledger s.bank s'.bank (singleSpec sender rcpt n inD outD sold outA) ∧ SameCfg s s' := by
  unfold tradeOut at h
  split at h
  · cases h
  · rename_i sold hc
    obtain ⟨n, hleg⟩ := calcOut_ok hc
    split at h
    · cases h
    · rename_i hmax
      obtain ⟨m, hl, hled, hcfg⟩ := swapCoins_ok h
      have hl' : lookupLpt s outD inD = .ok m := by
        obtain ⟨cp, hg, hne, hdir⟩ := lookupLpt_ok hl
        unfold lookupLpt at hl ⊢
        rcases hdir with ⟨e1, e2⟩ | ⟨e1, e2⟩
        · subst e1; subst e2
          have : ¬ (cp = s.std) := hne
          simp [this, hg, Ne.symm this] 
        · subst e1; subst e2
          have : ¬ (inD = s.std) := hne
          simp [this, hg, Ne.symm this]
      have : m = n := lookup_unique hl' hleg.look
      subst this
      exact ⟨m, sold, hleg, by omega, hled, hcfg⟩

end Irismod.Proofs.Coinswap
