/-
Totality: under the invariant bundle `updatePool` and `Refund` never reject (they succeed or
hit a decimal-overflow panic).
-/
import Irismod.Proofs.FarmAdjust

namespace Irismod.Proofs.Farm
open Irismod Irismod.Sdk Irismod.Farm Irismod.Spec

/-- the release loop does not reject when every rule can pay the span -/
theorem collectRules_no_reject {i L : Nat} : ∀ (rs : List Rule), (∀ r ∈ rs, r.rpb * i ≤ r.remaining) →
    (collectRules i L rs).2 = none ∨ ∃ w, (collectRules i L rs).2 = some (.panic w)
  | [], _ => Or.inl rfl
  | r :: rs, h => by
    unfold collectRules
    split
    · rename_i e he
      right
      unfold collectRule at he
      have : ¬ (r.remaining < r.rpb * i) := by have := h r (by simp); omega
      simp only [this, if_false] at he
      split at he
      · cases he; exact ⟨_, rfl⟩
      · split at he
        · cases he; exact ⟨_, rfl⟩
        · cases he
    · exact collectRules_no_reject rs (fun r hr => h r (by simp [hr]))

theorem releasedIn_le_remaining (i : Nat) (d : Denom) : ∀ (rs : List Rule), (∀ r ∈ rs, r.rpb * i ≤ r.remaining) →
    releasedIn i d rs ≤ C05.remainingIn d rs
  | [], _ => Nat.le_refl _
  | r :: rs, h => by
    have ih := releasedIn_le_remaining i d rs (fun r hr => h r (by simp [hr]))
    have := h r (by simp)
    simp only [releasedIn, C05.remainingIn]
    split <;> omega

theorem finishUpdate_total (s : State) (id : PoolId) (p : Pool) (rs : List Rule) (amount : Int) (b : Bool) :
    (∃ s' p', finishUpdate s id p rs amount b = (s', .ok p')) ∨
    (∃ s' w, finishUpdate s id p rs amount b = (s', .error (.panic w))) := by
  unfold finishUpdate
  split
  · exact Or.inr ⟨_, _, rfl⟩
  · exact Or.inl ⟨_, _, rfl⟩

/-- `updatePool` succeeds or panics (overflow, negative total), never rejects, when the pool's
timing is sane, the span is funded and the module account holds the budget -/
theorem updatePool_total {s : State} {id : PoolId} {p : Pool} {amount : Int} {b : Bool}
    (hlast : p.last ≤ s.height) (hne : p.rules ≠ [])
    (hbud : s.height > p.last ∧ p.locked > 0 → ∀ r ∈ p.rules, r.rpb * (s.height - p.last).toNat ≤ r.remaining)
    (hbal : ∀ d, C05.remainingIn d p.rules ≤ s.bank.balOf farmAcc d) :
    (∃ s' p', updatePool s id p amount b = (s', .ok p')) ∨
    (∃ s' w, updatePool s id p amount b = (s', .error (.panic w))) := by
  unfold updatePool
  split
  · omega
  split
  · rename_i e; exact absurd (List.isEmpty_iff.mp e) hne
  split
  · rename_i hrel
    have hb := hbud hrel
    rcases collectRules_no_reject (L := p.locked) p.rules hb with e | ⟨w, e⟩
    · rw [e]
      simp only
      unfold releaseAndFinish
      split
      · exact finishUpdate_total _ _ _ _ _ _
      · have hcov : ∀ d, sumOf (collectedCoins (s.height - p.last).toNat p.rules) d ≤
            (setPool s id { p with rules := (collectRules (s.height - p.last).toNat p.locked p.rules).1 }).bank.balOf farmAcc d := by
          intro d
          rw [sumOf_collected]
          have := releasedIn_le_remaining (s.height - p.last).toNat d p.rules hb
          have := hbal d
          show _ ≤ s.bank.balOf farmAcc d
          omega
        obtain ⟨b', hb'⟩ := sendCoins_ok _ _ farmAcc collectorAcc farm_ne_collector hcov
        unfold sendAll
        rw [hb']
        exact finishUpdate_total _ _ _ _ _ _
    · rw [e]; exact Or.inr ⟨_, w, rfl⟩
  · exact finishUpdate_total _ _ _ _ _ _

theorem poolHolds_le_expected {s : State} {id : PoolId} {p : Pool} (hp : getPool s id = some p) (d : Denom) :
    C05.poolHolds d p ≤ C05.expectedFarm s d := by
  unfold C05.expectedFarm AMap.sumBy
  exact get?_le_sumIf (fun _ => true) (C05.poolHolds d) s.pools id p hp rfl

/-- the hypotheses of `updatePool_total` from the bundle, for an active pool that has not
passed its end height -/
theorem updatePool_total_of_inv {s : State} {id : PoolId} {p : Pool} {amount : Int} {b : Bool}
    (hi : Inv s) (hp : getPool s id = some p) (hact : C06.active s id p = true) (hle : s.height ≤ p.endH)
    (s0 : State) (hb0 : s0.bank = s.bank) (hh0 : s0.height = s.height) :
    (∃ s' p', updatePool s0 id p amount b = (s', .ok p')) ∨
    (∃ s' w, updatePool s0 id p amount b = (s', .error (.panic w))) := by
  have hw := hi.core.wf id p hp
  have ht := hi.core.time id p hp
  have hbud := hi.core.budget id p hp hact
  apply updatePool_total (by rw [hh0]; exact ht.lastLe) hw.rulesNe
  · rw [hh0]
    intro ⟨hgt, hpos⟩ r hr
    have := hbud r hr
    rw [ruleBudget_iff] at this
    have hst := ht.staked hpos
    have hspan : spanOf p = p.endH - p.last := by unfold spanOf; split <;> omega
    rw [hspan] at this
    have hi' : ((s.height - p.last).toNat : Int) = s.height - p.last := by omega
    have hr0 : (0 : Int) ≤ r.rpb := Int.natCast_nonneg _
    have : (r.rpb : Int) * (s.height - p.last) ≤ (r.remaining : Int) := by nlinarith
    rw [← hi'] at this
    exact_mod_cast this
  · intro d
    rw [hb0, hi.modacc d]
    have := poolHolds_le_expected hp d
    unfold C05.poolHolds at this
    omega

/-- the verdict of `Refund` on an active pool under the bundle: paid, nothing left, or a panic -/
theorem refund_verdict {s : State} {id : PoolId} {p : Pool} (hi : Inv s) (hp : getPool s id = some p)
    (hact : C06.active s id p = true) (hle : s.height ≤ p.endH) :
    (refund s id p).2 = none ∨ (refund s id p).2 = some (.reject "no remaining reward") ∨
    ∃ w, (refund s id p).2 = some (.panic w) := by
  have hw := hi.core.wf id p hp
  rcases refund_cases s id p with ⟨s1, e, hu, hr⟩ | ⟨s1, p1, hu, hr⟩
  · rcases updatePool_total_of_inv (amount := 0) (b := true) hi hp hact hle (dequeue s id p.endH) rfl rfl with ⟨s', p', h⟩ | ⟨s', w, h⟩
    · rw [hu] at h; cases h
    · rw [hu] at h; cases h
      right; right; exact ⟨w, by rw [hr]⟩
  · obtain ⟨c1, hg1, _, _, _, hcre, _, _, _⟩ := core_refunded hi.core hp hact hu
    have hgap0 := (moduleAccount_iff s).mp hi.modacc
    rcases hr with ⟨_, hr⟩ | ⟨_, e, hs, hr⟩ | ⟨_, s2, hs, hr⟩
    · right; left; rw [hr]
    · exfalso
      have hcu := creator_ne (hcre ▸ hw.user)
      have hcov : ∀ d, sumOf (refundCoins p1.rules) d ≤ (zeroed s1 id p1).bank.balOf farmAcc d := by
        intro d
        have g := hg1 d
        rw [hgap0 d] at g
        unfold gap at g
        rw [sumOf_refundCoins]
        omega
      obtain ⟨b', hb'⟩ := sendCoins_ok _ _ farmAcc p1.creator (Ne.symm hcu.1) hcov
      unfold sendAll at hs
      rw [hb'] at hs
      cases hs
    · left; rw [hr]

end Irismod.Proofs.Farm
