/-
C12 (service slice): the two round trips on states of the reachable shape — as-is (accepted exactly when every
context is PAUSED with a COMPLETED batch) and after `PrepForZeroHeightGenesis` (always accepted) — and what
they mean for C07's ledger identities on the re-imported chain.
-/
import Irismod.Proofs.ServiceGenesisInv

namespace Irismod.Proofs.ServiceGenesis
open Irismod Irismod.Sdk Irismod.Service Irismod.ServiceGenesis Irismod.Proofs.GenesisList Irismod.Proofs.Service
open Irismod.Spec.C07 Irismod.Spec.C12S

/-! ### small facts -/

theorem get?_resetCtxs : ∀ (m : AMap CtxId Ctx) (id : CtxId), AMap.get? (resetCtxs m) id = (AMap.get? m id).map resetCtx
  | [], _ => rfl
  | (k, c) :: t, id => by
    unfold resetCtxs
    simp only [List.map_cons, AMap.get?]
    split
    · rfl
    · exact get?_resetCtxs t id

theorem ctxQuiet_reset (c : Ctx) : ctxQuiet (resetCtx c) = true := rfl

theorem ctxFieldsValid_reset (c : Ctx) : ctxFieldsValid (resetCtx c) = ctxFieldsValid c := rfl

theorem sumList_zero {α : Type} (f : α → Nat) : ∀ (l : List α), (∀ x, x ∈ l → f x = 0) → sumList (l.map f) = 0
  | [], _ => rfl
  | a :: t, h => by
    simp only [List.map_cons, sumList]
    rw [h a (List.mem_cons_self ..), sumList_zero f t (fun x hx => h x (List.mem_cons_of_mem _ hx))]

theorem sumIf_zero {K V : Type} (p : K → Bool) (f : V → Nat) : ∀ (m : AMap K V), (∀ e, e ∈ m → p e.1 = false) →
    AMap.sumIf p f m = 0
  | [], _ => rfl
  | (k, v) :: t, h => by
    simp only [AMap.sumIf]
    rw [h (k, v) (List.mem_cons_self ..), sumIf_zero p f t (fun e he => h e (List.mem_cons_of_mem _ he))]
    simp

/-- on a well-formed state with only quiet contexts nothing is awaiting a response -/
theorem active_nil_of_quiescent {s : State} (hw : WF s) (hq : Quiescent s) : s.active = [] := by
  cases ha : s.active with
  | nil => rfl
  | cons r t =>
    exfalso
    obtain ⟨rq, c, _, _, _, hc, hrun, _, _⟩ := hw.act r (by rw [ha]; exact List.mem_cons_self ..)
    have := hq _ _ hc
    unfold ctxQuiet at this
    rw [hrun] at this
    simp at this

/-- the deposits recorded on the bindings survive the round trip as a sum, too -/
theorem depositSum_roundTrip (rank : Addr → Nat) {s : State} (hn : NodupKeys s.binds) :
    depositSum (roundTrip rank s) = depositSum s := by
  unfold depositSum AMap.sumBy roundTrip importState exportGenesis
  simp only
  rw [rebuild_entries]
  apply sumIf_perm
  apply perm_of_mem (nodupKeys_entries _ _) hn
  intro e
  rw [mem_entries, get?_eq_some_iff hn]

/-! ### the shape of reachable states, assembled -/

/-- C07's invariants (`Full`: queues / markers / requests, deposit escrow, no promotion, request escrow), the
tally bundle `TB` and the genesis bundle `GI` -/
def Reach (s : State) : Prop := Full s ∧ TB s ∧ GI s

theorem Reach.consumer_ne {s : State} (h : Reach s) :
    ∀ rid, rid ∈ s.active → ∃ rq c, getRequest s rid = some (rq, c) ∧ c.consumer ≠ reqAcc := by
  intro rid hr
  obtain ⟨rq, c, h1, h2, h3⟩ := h.1.1.actOK.2 rid hr
  exact ⟨rq, c, getRequest_of h1 h2 h3, (h.1.2.1.1.consumers _ _ h3).2⟩

theorem Reach.consumer_good {s : State} (h : Reach s) :
    ∀ rid, rid ∈ s.active → ∃ rq c, getRequest s rid = some (rq, c) ∧ Good c.consumer := by
  intro rid hr
  obtain ⟨rq, c, h1, h2, h3⟩ := h.1.1.actOK.2 rid hr
  exact ⟨rq, c, getRequest_of h1 h2 h3, h.1.2.1.1.consumers _ _ h3⟩

/-- a provider with earned fees has a binding, hence is a user account -/
theorem Reach.provider_good {s : State} (h : Reach s) : ∀ e, e ∈ s.earned → Good e.1.1 := by
  intro e he
  have hc := h.2.1.earnedO e he
  obtain ⟨o, ho⟩ := (contains_iff _ _).mp hc
  obtain ⟨svc, b, hb⟩ := h.2.2.own.own2 _ _ ho
  exact h.2.2.prov _ _ hb

/-! ### after `PrepForZeroHeightGenesis` -/

/-- the state `PrepForZeroHeightGenesis` leaves, given the bank it produced -/
def prepared (s : State) (b2 : Bank) : State := { s with bank := b2, ctxs := resetCtxs s.ctxs }

theorem fieldsOk_prepared {s : State} (h : FieldsOk s) (b2 : Bank) : FieldsOk (prepared s b2) := by
  refine ⟨h.params, h.defs, h.binds, h.wd, ?_⟩
  intro id c hg
  simp only [prepared] at hg
  rw [get?_resetCtxs] at hg
  cases hc : AMap.get? s.ctxs id with
  | none => rw [hc] at hg; cases hg
  | some c0 =>
    rw [hc] at hg
    simp only [Option.map_some, Option.some.injEq] at hg
    subst hg
    rw [ctxFieldsValid_reset]
    exact h.ctxs id c0 hc

theorem quiescent_prepared (s : State) (b2 : Bank) : Quiescent (prepared s b2) := by
  intro id c hg
  simp only [prepared] at hg
  rw [get?_resetCtxs] at hg
  cases hc : AMap.get? s.ctxs id with
  | none => rw [hc] at hg; cases hg
  | some c0 =>
    rw [hc] at hg
    simp only [Option.map_some, Option.some.injEq] at hg
    subst hg
    exact ctxQuiet_reset c0

/-- **prepare, export, import** on a state of the reachable shape: nothing fails; the registry is preserved,
contexts are reset, every account is paid exactly what it is owed, both escrows satisfy C07's identities on the
new chain -/
theorem prepReimport_spec (rank : Addr → Nat) {s : State} (h : Reach s) :
    ∃ b2, prepZeroHeight s = .ok (prepared s b2) ∧
      genesisValid (exportGenesis rank (prepared s b2)) = true ∧
      prepReimport rank s = .ok (roundTrip rank (prepared s b2)) ∧
      (∀ d, Bank.balOf b2 reqAcc d = 0) ∧
      (∀ a d, a ≠ reqAcc → Bank.balOf b2 a d = Bank.balOf s.bank a d + refundTo s a d + earnedOf s a d) ∧
      (∀ d, Bank.balOf b2 depAcc d = Bank.balOf s.bank depAcc d) := by
  obtain ⟨b2, p1, p2, p3⟩ := prepZeroHeight_spec h.consumer_ne (fun e he => (h.provider_good e he).2)
    (fun d => by have := h.1.2.2.2 d; unfold liabilities; omega)
  have hv : genesisValid (exportGenesis rank (prepared s b2)) = true :=
    genesisValid_export rank (fieldsOk_prepared h.2.2.fields b2) (quiescent_prepared s b2)
  refine ⟨b2, p1, hv, ?_, ?_, p3, ?_⟩
  · unfold prepReimport
    rw [p1]
    exact reimport_ok hv
  · intro d
    have h1 := p2 d
    have h2 := h.1.2.2.2 d
    unfold liabilities at h1
    omega
  · intro d
    rw [p3 depAcc d (by decide)]
    have r0 : refundTo s depAcc d = 0 := by
      unfold refundTo refundToL
      apply sumList_zero
      intro rid hr
      obtain ⟨rq, c, hg, hc⟩ := h.consumer_good rid hr
      rw [hg]
      simp only
      rw [if_neg (fun e => hc.1 e.1)]
    have e0 : earnedOf s depAcc d = 0 := by
      unfold earnedOf
      apply sumIf_zero
      intro e he
      have := (h.provider_good e he).1
      simp [this]
    omega

/-- the re-imported chain after the prepare step satisfies C07's identities again -/
theorem ledger_after_prepReimport (rank : Addr → Nat) {s : State} (h : Reach s) {b2 : Bank}
    (h0 : ∀ d, Bank.balOf b2 reqAcc d = 0) (hd : ∀ d, Bank.balOf b2 depAcc d = Bank.balOf s.bank depAcc d) :
    EscrowInv (roundTrip rank (prepared s b2)) ∧ DepositInv (roundTrip rank (prepared s b2)) := by
  constructor
  · intro d
    have : (roundTrip rank (prepared s b2)).bank = b2 := rfl
    rw [this, h0 d]
    rfl
  · intro d
    have e1 : (roundTrip rank (prepared s b2)).bank = b2 := rfl
    have e2 : (roundTrip rank (prepared s b2)).params = s.params := rfl
    have e3 : depositSum (roundTrip rank (prepared s b2)) = depositSum s :=
      depositSum_roundTrip rank (s := prepared s b2) h.2.2.nd
    rw [e1, e2, e3, hd d]
    exact h.1.2.1.2 d

/-! ### as-is -/

/-- **export, import as-is** on a state of the reachable shape whose contexts are all quiet: accepted; the bank is
not touched, so what the request escrow held for the dropped earned fees stays there, owed to nobody -/
theorem plainReimport_spec (rank : Addr → Nat) {s : State} (h : Reach s) (hq : Quiescent s) :
    reimport rank s = .ok (roundTrip rank s) ∧
    (∀ d, Bank.balOf (roundTrip rank s).bank reqAcc d = earnedSum s d) ∧
    (∀ d, liabilities (roundTrip rank s) d = 0) ∧
    DepositInv (roundTrip rank s) := by
  have hv := genesisValid_export rank h.2.2.fields hq
  have ha := active_nil_of_quiescent h.1.1 hq
  refine ⟨reimport_ok hv, ?_, ?_, ?_⟩
  · intro d
    have := h.1.2.2.2 d
    have e : activeFee s d = 0 := by unfold activeFee; rw [ha]; rfl
    have eb : (roundTrip rank s).bank = s.bank := rfl
    rw [eb]; omega
  · intro d; rfl
  · intro d
    have e1 : (roundTrip rank s).bank = s.bank := rfl
    have e2 : (roundTrip rank s).params = s.params := rfl
    rw [e1, e2, depositSum_roundTrip rank h.2.2.nd]
    exact h.1.2.1.2 d

end Irismod.Proofs.ServiceGenesis
