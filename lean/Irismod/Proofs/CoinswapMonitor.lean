/-
Monitor soundness for the coinswap driver (`drv-coinswap monitor C01 | C02 | C12`): every clause the
driver evaluates (`Spec.C01.stepFails`, `Spec.C01.priceFails`, `Spec.C02.stepFails`,
`Spec.C12.Coinswap.{exportFails, reimportFails, indexFails}`) comes out empty on every step of the
MODEL from a state satisfying the invariant.  So a monitor failure on an implementation trace is
either a model/implementation disagreement or a genuine failure of the property, never an artefact
of the monitor demanding something the model and the theorems do not guarantee.
-/
import Irismod.Spec.C12_Coinswap
import Irismod.Props.C12_Coinswap

namespace Irismod.Proofs.CoinswapMonitor
open Irismod Irismod.Sdk Irismod.Coinswap Irismod.Spec.C01 Irismod.Spec.C02
open Irismod.Proofs.Coinswap Irismod.Proofs.CoinswapShare Irismod.Proofs.GenesisList
open Irismod.Props.C01 (Inv SenderOk senderOf LegPriced)

/-- the verdict the driver reads off an observation line -/
def accepted (s : State) (op : Op) : Bool :=
  match step s op with
  | .ok _ => true
  | .error _ => false

/-! ### generic -/

theorem ledgerB_of_Ledger {b b' : Bank} {mvs : List Mv} (h : Ledger b b' mvs) : ledgerB b b' mvs = true := by
  unfold ledgerB
  rw [Bool.and_eq_true, List.all_eq_true, List.all_eq_true]
  exact ⟨fun k _ => decide_eq_true (h.1 k.1 k.2), fun d _ => decide_eq_true (h.2 d)⟩

theorem ledgerB_refl (b : Bank) : ledgerB b b [] = true := ledgerB_of_Ledger (Ledger.refl b)

theorem check_true {b : Bool} (c : String) (h : b = true) : check b c = [] := by simp [check, h]

theorem flatMap_nil {α β : Type} (l : List α) (f : α → List β) (h : ∀ e ∈ l, f e = []) : l.flatMap f = [] := by
  induction l with
  | nil => rfl
  | cons a t ih =>
    rw [List.flatMap_cons, h a (by simp), ih (fun e he => h e (List.mem_cons_of_mem _ he))]; rfl

theorem shareLEb_of {p q : Pool} (h : ShareLE p q) : shareLEb p q = true := by
  unfold shareLEb
  by_cases h0 : p.L = 0
  · simp [h0]
  · have := h (by omega)
    simp [this]

theorem poolInvB_of {p : Pool} (h : PoolInv p) : poolInvB p = true := by
  unfold poolInvB
  by_cases h0 : p.L = 0
  · simp [h0]
  · obtain ⟨a, b⟩ := h (by omega)
    simp [a, b]

theorem cpB_iff (X Y fee paid recv : Nat) : cpB X Y fee paid recv = true ↔ Cp X Y fee paid recv := by
  unfold cpB Cp; simp

/-- a leg priced by the rule passes the three leg clauses -/
theorem legFails_nil {X Y fee paid recv : Nat} {ex : Bool} (h : LegPriced X Y fee paid recv ex) :
    legFails X Y fee paid recv ex = [] := by
  obtain ⟨_, _, hcp, hin, hout⟩ := h
  unfold legFails
  have h1 : cpB X Y fee paid recv = true := (cpB_iff _ _ _ _ _).mpr hcp
  simp only [h1, if_true, List.nil_append]
  cases ex with
  | true =>
    simp only [if_true]
    by_cases h2 : 2 ≤ paid
    · have : cpB X Y fee (paid - 2) recv = false := by
        apply Bool.eq_false_iff.mpr
        intro hc
        have := hout rfl (paid - 2) ((cpB_iff _ _ _ _ _).mp hc)
        omega
      simp [this]
    · simp [h2]
  | false =>
    have : cpB X Y fee paid (recv + 1) = false := by
      apply Bool.eq_false_iff.mpr
      intro hc
      exact hin rfl ((cpB_iff _ _ _ _ _).mp hc)
    simp [this]

/-- **pure pricing monitor**: the model's `GetInputPrice` / `GetOutputPrice` results pass -/
theorem price_monitor_sound (isIn : Bool) (amt X Y fee : Nat) :
    priceFails isIn amt X Y fee (if isIn then inputPrice amt X Y fee else outputPrice amt X Y fee) = [] := by
  unfold priceFails
  split
  · rfl
  · rename_i hpre
    simp only [Bool.and_eq_true, decide_eq_true_eq, Bool.not_eq_eq_eq_not, Bool.not_true,
      Bool.and_eq_false_imp] at hpre
    have hX : 0 < X := by
      by_cases h : 0 < X
      · exact h
      · simp [h] at hpre
    have hY : 0 < Y := by
      by_cases h : 0 < Y
      · exact h
      · simp [h] at hpre
    cases isIn with
    | true =>
      simp only [if_true]
      cases hp : inputPrice amt X Y fee with
      | none => rfl
      | some v =>
        exact legFails_nil ⟨hX, hY, Irismod.Props.C01.input_price_rule hp,
          fun _ => Irismod.Props.C01.exact_in_maximal hp hX hY, fun e => (by cases e)⟩
    | false =>
      simp only [Bool.false_eq_true, if_false]
      cases hp : outputPrice amt X Y fee with
      | none => rfl
      | some v =>
        simp only
        split
        · rename_i hlt
          have hlt' : amt < Y := by simpa using hlt
          exact legFails_nil ⟨hX, hY, Irismod.Props.C01.output_price_rule hp (Nat.le_of_lt hlt'),
            fun e => (by cases e), fun _ => Irismod.Props.C01.exact_out_within_one hp (Nat.le_of_lt hlt')⟩
        · rfl


/-! ### everything an accepted swap establishes, in one place -/

theorem lookupLpt_get {s : State} {d1 d2 : Denom} {n : Nat} (h : lookupLpt s d1 d2 = .ok n) :
    AMap.get? s.pools (if d1 = s.std then d2 else d1) = some n ∧ d1 ≠ d2 := by
  unfold lookupLpt at h
  split at h
  · cases h
  · rename_i hne
    split at h
    · cases h
    · split at h
      · cases h
      · rename_i m hget
        cases h
        exact ⟨hget, hne⟩

/-- observed amounts: what the monitor reads off the balance sheet -/
theorem obs_incr {b b' : Bank} {mvs : List Mv} (hled : Ledger b b' mvs) {a : Addr} {d : Denom} {x : Nat}
    (h : netBal mvs a d = (x : Int)) : b'.balOf a d - b.balOf a d = x := by
  have := hled.1 a d; omega

theorem obs_decr {b b' : Bank} {mvs : List Mv} (hled : Ledger b b' mvs) {a : Addr} {d : Denom} {x : Nat}
    (h : netBal mvs a d = - (x : Int)) : b.balOf a d - b'.balOf a d = x := by
  have := hled.1 a d; omega

structure SingleFacts (s s' : State) (sender rcpt : Addr) (inD outD : Denom) (inA outA : Int) (buy : Bool) (dl : Int)
    (n sold bought : Nat) : Prop where
  pool : AMap.get? s.pools (if inD = s.std then outD else inD) = some n
  dne : inD ≠ outD
  led : Ledger s.bank s'.bank (singleSpec sender rcpt n inD outD sold bought)
  exIn : buy = false → sold = inA.toNat ∧ outA ≤ (bought : Int)
  exOut : buy = true → bought = outA.toNat ∧ (sold : Int) ≤ inA
  priced : LegPriced (s.bank.balOf (poolAddr n) inD) (s.bank.balOf (poolAddr n) outD) s.params.fee sold bought buy
  time : InTime s.now dl
  cfg : SameCfg s s'

theorem single_facts (s s' : State) (sender rcpt : Addr) (inD outD : Denom) (inA outA : Int)
    (buy : Bool) (dl : Int) (resp : CoinList) (hsingle : isDouble s inD outD = false)
    (h : step s (.swap sender rcpt inD inA outD outA buy dl) = .ok (s', resp)) :
    ∃ n sold bought, SingleFacts s s' sender rcpt inD outD inA outA buy dl n sold bought := by
  obtain ⟨hvb, hs, _⟩ := step_swap_ok h
  simp only [vb] at hvb
  have hv := firstErr_none hvb
  have hin : 0 < inA := vbSide_none (hv (vbSide sender inD inA) (by simp))
  have hout : 0 < outA := vbSide_none (hv (vbSide rcpt outD outA) (by simp))
  unfold stepSwap at hs
  split at hs
  · cases hs
  · rename_i hexp
    split at hs
    · cases hs
    · have hT := inTime_of_not_expired (by simpa using hexp)
      simp only [hsingle] at hs
      cases buy with
      | true =>
        simp only [if_true, Bool.false_eq_true, if_false] at hs
        obtain ⟨n, sold, hleg, hmax, hled, hcfg⟩ := tradeOut_ok hs
        have hl : lookupLpt s inD outD = .ok n := by rw [lookupLpt_symm]; exact hleg.look
        obtain ⟨hget, hne⟩ := lookupLpt_get hl
        exact ⟨n, sold, outA.toNat, hget, hne, hled, fun e => (by cases e), fun _ => ⟨rfl, by omega⟩,
          Irismod.Props.C01.legOut_priced hleg, hT, hcfg⟩
      | false =>
        simp only [Bool.false_eq_true, if_false] at hs
        obtain ⟨n, bought, hleg, hmin, hled, hcfg⟩ := tradeIn_ok hs
        obtain ⟨hget, hne⟩ := lookupLpt_get hleg.look
        exact ⟨n, inA.toNat, bought, hget, hne, hled, fun _ => ⟨rfl, by omega⟩, fun e => (by cases e),
          Irismod.Props.C01.legIn_priced hleg, hT, hcfg⟩

structure DoubleFacts (s s' : State) (sender rcpt : Addr) (inD outD : Denom) (inA outA : Int) (buy : Bool) (dl : Int)
    (na nb sold k bought : Nat) : Prop where
  poolA : AMap.get? s.pools inD = some na
  poolB : AMap.get? s.pools outD = some nb
  dne : inD ≠ outD
  inNe : inD ≠ s.std
  outNe : outD ≠ s.std
  led : Ledger s.bank s'.bank (doubleSpec sender rcpt na nb inD s.std outD sold k bought)
  exIn : buy = false → sold = inA.toNat ∧ outA ≤ (bought : Int)
  exOut : buy = true → bought = outA.toNat ∧ (sold : Int) ≤ inA
  pricedA : LegPriced (s.bank.balOf (poolAddr na) inD) (s.bank.balOf (poolAddr na) s.std) s.params.fee sold k buy
  pricedB : (∀ j, sender ≠ poolAddr j) → na ≠ nb →
    LegPriced (s.bank.balOf (poolAddr nb) s.std) (s.bank.balOf (poolAddr nb) outD) s.params.fee k bought buy
  time : InTime s.now dl
  cfg : SameCfg s s'

theorem double_facts (s s' : State) (sender rcpt : Addr) (inD outD : Denom) (inA outA : Int)
    (buy : Bool) (dl : Int) (resp : CoinList) (hdouble : isDouble s inD outD = true)
    (h : step s (.swap sender rcpt inD inA outD outA buy dl) = .ok (s', resp)) :
    ∃ na nb sold k bought, DoubleFacts s s' sender rcpt inD outD inA outA buy dl na nb sold k bought := by
  obtain ⟨hvb, hs, _⟩ := step_swap_ok h
  simp only [vb] at hvb
  have hv := firstErr_none hvb
  have hin : 0 < inA := vbSide_none (hv (vbSide sender inD inA) (by simp))
  have hout : 0 < outA := vbSide_none (hv (vbSide rcpt outD outA) (by simp))
  have hneq : inD ≠ outD := by
    have := hv (if inD = outD then some "vb:coinswap/3" else none) (by simp)
    split at this
    · cases this
    · assumption
  have hdi : inD ≠ s.std ∧ outD ≠ s.std := by
    simp only [isDouble, Bool.and_eq_true, bne_iff_ne] at hdouble; exact hdouble
  unfold stepSwap at hs
  split at hs
  · cases hs
  · rename_i hexp
    split at hs
    · cases hs
    · have hT := inTime_of_not_expired (by simpa using hexp)
      try simp only [hdouble] at hs
      cases buy with
      | true =>
        simp only [if_true] at hs
        obtain ⟨na, nb, k, sold, s1, hlegB, hlegA, hmax, hled1, hcfg1, hled2, hcfg2⟩ := doubleOut_ok hs
        have hla : lookupLpt s inD s.std = .ok na := by rw [lookupLpt_symm]; exact hlegA.look
        have hlb : lookupLpt s outD s.std = .ok nb := hlegB.look
        obtain ⟨e1, e2⟩ := Irismod.Props.C02.doubleCode_net sender rcpt na nb inD s.std outD sold k outA.toNat
        exact ⟨na, nb, sold, k, outA.toNat, Irismod.Props.C01.lookup_cp hdi.1 hla, Irismod.Props.C01.lookup_cp hdi.2 hlb,
          hneq, hdi.1, hdi.2, Ledger.congr (Ledger.trans hled1 hled2) e1 e2, fun e => (by cases e),
          fun _ => ⟨rfl, by omega⟩, Irismod.Props.C01.legOut_priced hlegA,
          fun _ _ => Irismod.Props.C01.legOut_priced hlegB, hT, hcfg1.trans hcfg2⟩
      | false =>
        simp only [Bool.false_eq_true, if_false] at hs
        obtain ⟨na, nb, k, bought, s1, hleg1, hled1, hcfg1, hleg2, hmin, hled2, hcfg2⟩ := doubleIn_ok hs
        have hlb : lookupLpt s s.std outD = .ok nb := by rw [← lookupLpt_cfg hcfg1]; exact hleg2.look
        have hlb' : lookupLpt s outD s.std = .ok nb := by rw [lookupLpt_symm]; exact hlb
        obtain ⟨e1, e2⟩ := Irismod.Props.C02.doubleCode_net sender rcpt na nb inD s.std outD inA.toNat k bought
        refine ⟨na, nb, inA.toNat, k, bought, Irismod.Props.C01.lookup_cp hdi.1 hleg1.look,
          Irismod.Props.C01.lookup_cp hdi.2 hlb', hneq, hdi.1, hdi.2, Ledger.congr (Ledger.trans hled1 hled2) e1 e2,
          fun _ => ⟨rfl, by omega⟩, fun e => (by cases e), Irismod.Props.C01.legIn_priced hleg1, ?_, hT,
          hcfg1.trans hcfg2⟩
        -- the second leg is priced on the reserves after the first leg, which are the reserves before it
        intro hso hnab
        have hp := Irismod.Props.C01.legIn_priced hleg2
        have a1 := hled1.1 (poolAddr nb) s.std
        have a2 := hled1.1 (poolAddr nb) outD
        rw [single_net_zero (hso nb) (Ne.symm hnab) (hso nb)] at a1 a2
        have b1 : s1.bank.balOf (poolAddr nb) s.std = s.bank.balOf (poolAddr nb) s.std := by omega
        have b2 : s1.bank.balOf (poolAddr nb) outD = s.bank.balOf (poolAddr nb) outD := by omega
        rw [b1, b2, hcfg1.2.1] at hp
        exact hp


/-! ### net effect of the routed-swap ledger on the two escrows -/

section dbl
variable {sender rcpt : Addr} {na nb : Nat} {inD std outD : Denom} {sold k bought : Nat}

theorem dbl_net_a_in (hs : sender ≠ poolAddr na) (h1 : inD ≠ std) (h2 : inD ≠ outD) :
    netBal (doubleSpec sender rcpt na nb inD std outD sold k bought) (poolAddr na) inD = sold := by
  have e1 : ¬ std = inD := fun e => h1 e.symm
  have e2 : ¬ outD = inD := fun e => h2 e.symm
  simp [doubleSpec, netBal, Mv.bal, hs, e1, e2]

theorem dbl_net_a_std (h1 : inD ≠ std) (h3 : outD ≠ std) (hab : na ≠ nb) :
    netBal (doubleSpec sender rcpt na nb inD std outD sold k bought) (poolAddr na) std = - (k : Int) := by
  have hp : ¬ poolAddr nb = poolAddr na := fun e => hab (poolAddr_inj e).symm
  simp [doubleSpec, netBal, Mv.bal, h1, h3, hp]

theorem dbl_net_b_std (h1 : inD ≠ std) (h3 : outD ≠ std) (hab : na ≠ nb) :
    netBal (doubleSpec sender rcpt na nb inD std outD sold k bought) (poolAddr nb) std = (k : Int) := by
  have hp : ¬ poolAddr na = poolAddr nb := fun e => hab (poolAddr_inj e)
  simp [doubleSpec, netBal, Mv.bal, h1, h3, hp]

theorem dbl_net_b_out (h2 : inD ≠ outD) (h3 : outD ≠ std) (hr : rcpt ≠ poolAddr nb) :
    netBal (doubleSpec sender rcpt na nb inD std outD sold k bought) (poolAddr nb) outD = - (bought : Int) := by
  have e3 : ¬ std = outD := fun e => h3 e.symm
  simp [doubleSpec, netBal, Mv.bal, h2, e3, hr]

/-- a recipient that is the second escrow itself hides the bought amount: any value gives the same net -/
theorem dbl_net_self (b' : Nat) :
    (∀ a d, netBal (doubleSpec sender (poolAddr nb) na nb inD std outD sold k bought) a d
          = netBal (doubleSpec sender (poolAddr nb) na nb inD std outD sold k b') a d) ∧
    (∀ d, netSup (doubleSpec sender (poolAddr nb) na nb inD std outD sold k bought) d
          = netSup (doubleSpec sender (poolAddr nb) na nb inD std outD sold k b') d) := by
  constructor
  · intro a d
    simp only [doubleSpec, netBal, Mv.bal]
    split <;> omega
  · intro d; simp [doubleSpec, netSup, Mv.sup]

theorem single_net_self {n : Nat} {sd bd : Denom} {sa ba : Nat} (b' : Nat) :
    (∀ a d, netBal (singleSpec sender (poolAddr n) n sd bd sa ba) a d
          = netBal (singleSpec sender (poolAddr n) n sd bd sa b') a d) ∧
    (∀ d, netSup (singleSpec sender (poolAddr n) n sd bd sa ba) d
          = netSup (singleSpec sender (poolAddr n) n sd bd sa b') d) := by
  constructor
  · intro a d
    simp only [singleSpec, netBal, Mv.bal]
    split <;> omega
  · intro d; simp [singleSpec, netSup, Mv.sup]

end dbl

/-! ### C01 -/

/-- **Monitor soundness (C01)**: on every model step from a state satisfying the invariant, by a
sender that is not an escrow, no clause of `Spec.C01.stepFails` fires -/
theorem c01_monitor_sound (s : State) (op : Op) (hinv : Inv s) (hso : SenderOk op) :
    Spec.C01.stepFails s op (accepted s op) (apply s op) = [] := by
  obtain ⟨hinv', hshare, _⟩ := Irismod.Props.C01.apply_good s op hinv hso
  unfold Spec.C01.stepFails
  have hinvPart :
      (s.pools.flatMap fun e =>
        if shareLEb (view s e.1 e.2) (view (apply s op) e.1 e.2) then [] else [("share-value", "")]) ++
      ((apply s op).pools.flatMap fun e =>
        if poolInvB (view (apply s op) e.1 e.2) then [] else [("pool-inv", "")]) = [] := by
    rw [flatMap_nil, flatMap_nil]; · rfl
    · intro e he
      have := hinv'.2 e.1 e.2 (hinv'.1.mem e.1 e.2 he)
      simp [poolInvB_of this]
    · intro e he
      have := hshare e.1 e.2 (hinv.1.mem e.1 e.2 he)
      simp [shareLEb_of this]
  simp only [hinvPart, List.nil_append]
  -- the leg clauses
  cases op with
  | block | add | remove | add1 | rem1 | donate | setParams => rfl
  | swap sender rcpt inD inA outD outA buy dl =>
    have hsn : ∀ j, sender ≠ poolAddr j := hso sender rfl
    simp only [List.map_eq_nil_iff]
    unfold accepted apply
    cases h : step s (.swap sender rcpt inD inA outD outA buy dl) with
    | error e => simp
    | ok r =>
      obtain ⟨s', resp⟩ := r
      simp only [Bool.not_true, Bool.false_eq_true, if_false]
      cases hd : isDouble s inD outD with
      | false =>
        obtain ⟨n, sold, bought, f⟩ := single_facts s s' sender rcpt inD outD inA outA buy dl resp hd h
        simp only [Bool.false_eq_true, if_false, f.pool]
        split
        · rfl
        · rename_i hr
          unfold obsLeg Spec.C01.incr Spec.C01.decr
          rw [obs_incr f.led (single_net_sold (hsn n) f.dne),
              obs_decr (x := bought) f.led (by rw [single_net_bought (hsn n) f.dne]; simp [hr])]
          exact legFails_nil f.priced
      | true =>
        obtain ⟨na, nb, sold, k, bought, f⟩ := double_facts s s' sender rcpt inD outD inA outA buy dl resp hd h
        have hnab : na ≠ nb := fun e => f.dne (hinv.1.inj inD outD na f.poolA (e ▸ f.poolB))
        simp only [if_true, f.poolA, f.poolB]
        split
        · rfl
        · rename_i hr
          have hrb : rcpt ≠ poolAddr nb := fun e => hr (Or.inr e)
          unfold obsLeg Spec.C01.incr Spec.C01.decr
          rw [obs_incr f.led (dbl_net_a_in (hsn na) f.inNe f.dne),
              obs_decr f.led (dbl_net_a_std f.inNe f.outNe hnab),
              obs_incr f.led (dbl_net_b_std f.inNe f.outNe hnab),
              obs_decr f.led (dbl_net_b_out f.dne f.outNe hrb)]
          rw [legFails_nil f.pricedA, legFails_nil (f.pricedB hsn hnab)]
          rfl


/-! ### C02 -/

theorem unchanged_refl (s : State) : unchanged s s = true := by
  simp [unchanged, ledgerB_refl]

theorem fc_ne_pool (n : Nat) : fcAddr ≠ poolAddr n := not_pool_of_head (by decide) n

theorem feeMoves_net_zero {s : State} {sender : Addr} {j : Nat} (hs : sender ≠ poolAddr j) (d : Denom) :
    netBal (feeMoves s sender) (poolAddr j) d = 0 := by
  unfold feeMoves
  have hm : ¬ modAddr = poolAddr j := mod_ne_pool j
  have hf : ¬ fcAddr = poolAddr j := fc_ne_pool j
  simp [netBal, Mv.bal, hs, hm, hf]

theorem feeMoves_sup_other {s : State} {sender : Addr} {d : Denom} (h : s.params.pcfDenom ≠ d) :
    netSup (feeMoves s sender) d = 0 := by
  unfold feeMoves
  simp [netSup, Mv.sup, h]

/-- what an accepted `MsgAddLiquidity` establishes, without assuming a valid tax rate -/
structure AddFacts (s s' : State) (sender : Addr) (cp : Denom) (maxA dS minL dl : Int) (n t m : Nat) (created : Bool) : Prop where
  post : AMap.get? s'.pools cp = some n
  pre : AMap.contains s.pools cp = !created
  led : Ledger s.bank s'.bank ((if created then feeMoves s sender else []) ++ addMoves s.std sender n cp dS.toNat t m)
  maxOk : (t : Int) ≤ maxA
  minOk : minL ≤ (m : Int)
  cpne : cp ≠ s.std
  time : InTime s.now dl

theorem add_facts (s s' : State) (sender : Addr) (cp : Denom) (maxA dS minL dl : Int) (resp : CoinList)
    (h : step s (.add sender cp maxA dS minL dl) = .ok (s', resp)) :
    ∃ n t m created, AddFacts s s' sender cp maxA dS minL dl n t m created := by
  obtain ⟨hvb, hs⟩ := step_add_ok h
  simp only [vb] at hvb
  have hv := firstErr_none hvb
  have hmax : 0 < maxA := vbToken_none (hv (vbToken cp maxA) (by simp))
  have hdS : 0 < dS := by
    have := hv (if dS ≤ 0 then some "vb:sdk/18" else none) (by simp)
    split at this
    · cases this
    · omega
  have hminL : 0 ≤ minL := by
    have := hv (if minL < 0 then some "vb:sdk/18" else none) (by simp)
    split at this
    · cases this
    · omega
  obtain ⟨hexp, hstd, hcase⟩ := stepAdd_ok hs
  have hT := inTime_of_not_expired hexp
  rcases hcase with ⟨hnone, s1, hfee, hmin, hadd⟩ | ⟨n, hsome, _, hmin, hadd⟩ | ⟨n, hsome, _, hex⟩
  · obtain ⟨hled1, c1, c2, c3, c4, c5, c6⟩ := deductFee_ok hfee
    obtain ⟨hled2, ⟨d1, d2, d3, d4, d5, d6⟩, _⟩ := addLiq_ok hadd
    simp only at d1 d3 hled2
    rw [c1, c4] at hled2
    refine ⟨s.seq, maxA.toNat, dS.toNat, true, ?_, ?_, ?_, by omega, by omega, hstd, hT⟩
    · rw [d3, c3, c4]; exact AMap.get?_set_self _ _ _
    · simp [AMap.contains, hnone]
    · simpa using Ledger.trans hled1 hled2
  · obtain ⟨hled, hcfg, _⟩ := addLiq_ok hadd
    refine ⟨n, maxA.toNat, dS.toNat, false, by rw [hcfg.2.2.1]; exact hsome, by simp [AMap.contains, hsome], ?_,
      by omega, by omega, hstd, hT⟩
    simpa using hled
  · obtain ⟨_, _, _, hmin, hmaxle, hadd⟩ := addExisting_ok hex
    obtain ⟨hled, hcfg, _⟩ := addLiq_ok hadd
    refine ⟨n, resY s n cp * dS.toNat / resX s n + 1, shares s n * dS.toNat / resX s n, false,
      by rw [hcfg.2.2.1]; exact hsome, by simp [AMap.contains, hsome], ?_, by omega, by omega, hstd, hT⟩
    simpa using hled

theorem netBal_comm (m1 m2 : List Mv) (a : Addr) (d : Denom) : netBal (m1 ++ m2) a d = netBal (m2 ++ m1) a d := by
  rw [netBal_append, netBal_append]; omega

theorem netSup_comm (m1 m2 : List Mv) (d : Denom) : netSup (m1 ++ m2) d = netSup (m2 ++ m1) d := by
  rw [netSup_append, netSup_append]; omega


theorem inTimeB_of {now : Nat} {dl : Int} (h : InTime now dl) : inTimeB now dl = true := by
  unfold inTimeB; exact decide_eq_true h

theorem c02_swap_sound (s s' : State) (sender rcpt : Addr) (inD outD : Denom) (inA outA : Int) (buy : Bool) (dl : Int)
    (resp : CoinList) (hinv : Inv s) (hsn : ∀ j, sender ≠ poolAddr j)
    (h : step s (.swap sender rcpt inD inA outD outA buy dl) = .ok (s', resp)) :
    Spec.C02.stepFails s (.swap sender rcpt inD inA outD outA buy dl) true s' = [] := by
  unfold Spec.C02.stepFails
  simp only [Bool.not_true, Bool.false_eq_true, if_false]
  cases hd : isDouble s inD outD with
  | false =>
    obtain ⟨n, sold, bought, f⟩ := single_facts s s' sender rcpt inD outD inA outA buy dl resp hd h
    simp only [Bool.false_eq_true, if_false, f.pool, check_true _ (inTimeB_of f.time), List.nil_append]
    have hsold : Spec.C02.incr s s' (poolAddr n) inD = sold :=
      obs_incr f.led (single_net_sold (hsn n) f.dne)
    cases buy with
    | true =>
      obtain ⟨e1, e2⟩ := f.exOut rfl
      simp only [if_true, hsold, ← e1]
      rw [check_true _ (decide_eq_true e2), check_true _ (ledgerB_of_Ledger f.led)]; rfl
    | false =>
      obtain ⟨e1, e2⟩ := f.exIn rfl
      simp only [Bool.false_eq_true, if_false, ← e1]
      by_cases hr : rcpt = poolAddr n
      · subst hr
        have hb : Spec.C02.decr s s' (poolAddr n) outD = 0 :=
          obs_decr (x := 0) f.led (by rw [single_net_bought (hsn n) f.dne]; simp)
        obtain ⟨a1, a2⟩ := single_net_self (sender := sender) (n := n) (sd := inD) (bd := outD) (sa := sold) (ba := bought) 0
        simp only [if_true, hb, List.nil_append]
        exact check_true _ (ledgerB_of_Ledger (Ledger.congr f.led a1 a2))
      · have hb : Spec.C02.decr s s' (poolAddr n) outD = bought :=
          obs_decr (x := bought) f.led (by rw [single_net_bought (hsn n) f.dne]; simp [hr])
        simp only [hr, if_false, hb]
        rw [check_true _ (decide_eq_true e2), check_true _ (ledgerB_of_Ledger f.led)]; rfl
  | true =>
    obtain ⟨na, nb, sold, k, bought, f⟩ := double_facts s s' sender rcpt inD outD inA outA buy dl resp hd h
    have hnab : na ≠ nb := fun e => f.dne (hinv.1.inj inD outD na f.poolA (e ▸ f.poolB))
    simp only [if_true, f.poolA, f.poolB, check_true _ (inTimeB_of f.time), List.nil_append]
    have hsold : Spec.C02.incr s s' (poolAddr na) inD = sold :=
      obs_incr f.led (dbl_net_a_in (hsn na) f.inNe f.dne)
    have hk : Spec.C02.decr s s' (poolAddr na) s.std = k :=
      obs_decr f.led (dbl_net_a_std f.inNe f.outNe hnab)
    simp only [List.any_cons, hk]
    cases buy with
    | true =>
      obtain ⟨e1, e2⟩ := f.exOut rfl
      simp only [if_true, hsold, ← e1]
      rw [check_true _ (decide_eq_true e2)]
      simp [check, ledgerB_of_Ledger f.led]
    | false =>
      obtain ⟨e1, e2⟩ := f.exIn rfl
      simp only [Bool.false_eq_true, if_false, ← e1]
      by_cases hr : rcpt = poolAddr nb
      · subst hr
        have hb : Spec.C02.decr s s' (poolAddr nb) outD = 0 := by
          have := f.led.1 (poolAddr nb) outD
          have e3 : ¬ s.std = outD := fun e => f.outNe e.symm
          have hp : ¬ poolAddr na = poolAddr nb := fun e => hnab (poolAddr_inj e)
          simp [doubleSpec, netBal, Mv.bal, f.dne, e3, hp, hsn nb] at this
          unfold Spec.C02.decr; omega
        obtain ⟨a1, a2⟩ := dbl_net_self (sender := sender) (na := na) (nb := nb) (inD := inD) (std := s.std)
          (outD := outD) (sold := sold) (k := k) (bought := bought) 0
        simp only [if_true, hb, List.nil_append]
        simp [check, ledgerB_of_Ledger (Ledger.congr f.led a1 a2)]
      · have hb : Spec.C02.decr s s' (poolAddr nb) outD = bought :=
          obs_decr f.led (dbl_net_b_out f.dne f.outNe hr)
        simp only [hr, if_false, hb]
        rw [check_true _ (decide_eq_true e2)]
        simp [check, ledgerB_of_Ledger f.led]


theorem c02_add_sound (s s' : State) (sender : Addr) (cp : Denom) (maxA dS minL dl : Int) (resp : CoinList)
    (hsn : ∀ j, sender ≠ poolAddr j)
    (h : step s (.add sender cp maxA dS minL dl) = .ok (s', resp)) :
    Spec.C02.stepFails s (.add sender cp maxA dS minL dl) true s' = [] := by
  obtain ⟨n, t, m, created, f⟩ := add_facts s s' sender cp maxA dS minL dl resp h
  unfold Spec.C02.stepFails
  simp only [Bool.not_true, Bool.false_eq_true, if_false, f.post, check_true _ (inTimeB_of f.time), List.nil_append,
    f.pre, Bool.not_not]
  -- the deposit read off the escrow
  have ht : Spec.C02.incr s s' (poolAddr n) cp = t := by
    apply obs_incr f.led
    rw [netBal_append, add_net_same_cp (hsn n) f.cpne]
    cases created with
    | true => simp only [if_true]; rw [feeMoves_net_zero (hsn n)]; omega
    | false => simp [netBal]
  simp only [ht, check_true _ (decide_eq_true f.maxOk), List.nil_append]
  split
  · rename_i hj
    simp only [Bool.and_eq_true, decide_eq_true_eq, Bool.not_eq_eq_eq_not, Bool.not_true, Bool.and_eq_false_imp,
      beq_eq_false_iff_ne, ne_eq] at hj
    obtain ⟨htax, hfd⟩ := hj
    -- the minted amount read off the supply
    have hm : s'.bank.supplyOf (lptDenom n) - s.bank.supplyOf (lptDenom n) = m := by
      have := f.led.2 (lptDenom n)
      rw [netSup_append, addMoves_sup] at this
      simp only [if_true] at this
      cases created with
      | true =>
        simp only [if_true] at this
        rw [feeMoves_sup_other (hfd rfl)] at this
        omega
      | false => simp only [Bool.false_eq_true, if_false, netSup] at this; omega
    simp only [hm, check_true _ (decide_eq_true f.minOk), List.nil_append]
    apply check_true
    apply ledgerB_of_Ledger
    cases created with
    | true =>
      obtain ⟨e1, e2⟩ := feeMoves_net s sender htax
      simp only [if_true] at f ⊢
      refine Ledger.congr f.led ?_ ?_
      · intro a d
        simp only [↓reduceIte, netBal_append, e1 a d, feeSpec, addMoves, netBal, List.cons_append, List.nil_append]
        omega
      · intro d
        simp only [↓reduceIte, netSup_append, e2 d, feeSpec, addMoves, netSup, List.cons_append, List.nil_append]
        omega
    | false =>
      have := f.led
      simp only [Bool.false_eq_true, if_false, List.nil_append] at this
      simpa [addMoves] using this
  · rfl

theorem c02_add1_sound (s s' : State) (sender : Addr) (cp tokD : Denom) (a minL dl : Int) (resp : CoinList)
    (h : step s (.add1 sender cp tokD a minL dl) = .ok (s', resp)) :
    Spec.C02.stepFails s (.add1 sender cp tokD a minL dl) true s' = [] := by
  obtain ⟨n, m, hsome, _, hmin, _, hled, _, hT, _⟩ :=
    Irismod.Props.C02.add_unilateral_exact s s' sender cp tokD a minL dl resp h
  unfold Spec.C02.stepFails
  simp only [Bool.not_true, Bool.false_eq_true, if_false, hsome, check_true _ (inTimeB_of hT), List.nil_append]
  have hm : s'.bank.supplyOf (lptDenom n) - s.bank.supplyOf (lptDenom n) = m := by
    have := hled.2 (lptDenom n)
    rw [add1Moves_sup] at this
    simp only [if_true] at this
    omega
  simp only [hm, check_true _ (decide_eq_true hmin), List.nil_append]
  exact check_true _ (ledgerB_of_Ledger hled)

theorem c02_remove_sound (s s' : State) (sender : Addr) (lptD : Denom) (w minStd minTok dl : Int) (resp : CoinList)
    (hinv : Inv s) (hsn : ∀ j, sender ≠ poolAddr j)
    (h : step s (.remove sender lptD w minStd minTok dl) = .ok (s', resp)) :
    Spec.C02.stepFails s (.remove sender lptD w minStd minTok dl) true s' = [] := by
  obtain ⟨cp, n, x, y, hfind, hlpt, h1, h2, _, hled, _, hT, _⟩ :=
    Irismod.Props.C02.remove_liquidity_exact s s' sender lptD w minStd minTok dl resp h
  have hcpne : cp ≠ s.std := hinv.1.cpne cp n (hinv.1.mem cp n (findByLpt_some hfind).2)
  unfold Spec.C02.stepFails
  simp only [Bool.not_true, Bool.false_eq_true, if_false, hfind, check_true _ (inTimeB_of hT), List.nil_append]
  have hx : Spec.C02.decr s s' (poolAddr n) s.std = x := obs_decr hled (remove_net_same_std (hsn n) hcpne)
  have hy : Spec.C02.decr s s' (poolAddr n) cp = y := obs_decr hled (remove_net_same_cp (hsn n) hcpne)
  simp only [hx, hy, check_true _ (decide_eq_true h1), check_true _ (decide_eq_true h2), List.nil_append]
  apply check_true
  apply ledgerB_of_Ledger
  rw [← hlpt]
  exact hled

theorem c02_rem1_sound (s s' : State) (sender : Addr) (cp minD : Denom) (minA w dl : Int) (resp : CoinList)
    (hsn : ∀ j, sender ≠ poolAddr j)
    (h : step s (.rem1 sender cp minD minA w dl) = .ok (s', resp)) :
    Spec.C02.stepFails s (.rem1 sender cp minD minA w dl) true s' = [] := by
  obtain ⟨n, out, hsome, _, hmin, _, hled, _, hT, _⟩ :=
    Irismod.Props.C02.remove_unilateral_exact s s' sender cp minD minA w dl resp h
  unfold Spec.C02.stepFails
  simp only [Bool.not_true, Bool.false_eq_true, if_false, hsome, check_true _ (inTimeB_of hT), List.nil_append]
  have ho : Spec.C02.decr s s' (poolAddr n) minD = out :=
    obs_decr (x := out) hled (by rw [rem1_net_same (hsn n)]; simp)
  simp only [ho, check_true _ (decide_eq_true hmin), List.nil_append]
  exact check_true _ (ledgerB_of_Ledger hled)

/-- **Monitor soundness (C02)**: on every model step from a state satisfying the invariant, by a
sender that is not an escrow, no clause of `Spec.C02.stepFails` fires -/
theorem c02_monitor_sound (s : State) (op : Op) (hinv : Inv s) (hso : SenderOk op) :
    Spec.C02.stepFails s op (accepted s op) (apply s op) = [] := by
  unfold accepted apply
  cases h : step s op with
  | error e =>
    simp only
    unfold Spec.C02.stepFails
    simp [check, unchanged_refl]
  | ok r =>
    obtain ⟨s', resp⟩ := r
    simp only
    cases op with
    | block t =>
      have := step_block_ok h
      cases this
      unfold Spec.C02.stepFails
      simp [check, unchanged, ledgerB_refl]
    | setParams auth fee tax ufee pcfD pcfA =>
      obtain ⟨_, hs⟩ := step_params_ok h
      unfold stepParams at hs
      split at hs
      · cases hs
      · cases hs
        unfold Spec.C02.stepFails
        simp [check, ledgerB_refl]
    | donate src dst d a =>
      obtain ⟨hled, _⟩ := stepDonate_ok (step_donate_ok h)
      unfold Spec.C02.stepFails
      simp [check, ledgerB_of_Ledger hled]
    | swap sender rcpt inD inA outD outA buy dl =>
      exact c02_swap_sound s s' sender rcpt inD outD inA outA buy dl resp hinv (hso sender rfl) h
    | add sender cp maxA dS minL dl => exact c02_add_sound s s' sender cp maxA dS minL dl resp (hso sender rfl) h
    | add1 sender cp tokD a minL dl => exact c02_add1_sound s s' sender cp tokD a minL dl resp h
    | remove sender lptD w minStd minTok dl =>
      exact c02_remove_sound s s' sender lptD w minStd minTok dl resp hinv (hso sender rfl) h
    | rem1 sender cp minD minA w dl => exact c02_rem1_sound s s' sender cp minD minA w dl resp (hso sender rfl) h


/-! ### C12 (genesis round trip) -/

section c12
open Irismod.Spec.C12.Coinswap Irismod.Props.C12.Coinswap Irismod.CoinswapGenesis Irismod.Proofs.CoinswapGenesis

/-- **export clause**: the model's own `ValidateGenesis` verdict on its export passes -/
theorem c12_export_sound (s : State) (hw : CsWF s) (hr : SeqInRange s) :
    exportFails (match validateGenesis (exportGenesis s) with | .ok _ => true | .error _ => false) = [] := by
  rw [cs_export_validates s hw hr]; rfl

theorem samePools_of {a b : AMap Denom Nat} (h : ∀ cp, AMap.get? b cp = AMap.get? a cp) : samePools a b = true := by
  unfold samePools
  rw [List.all_eq_true]
  intro cp _
  rw [h cp]; simp

/-- **re-import clauses**: the model's re-import succeeds and preserves the projection -/
theorem c12_reimport_sound (s : State) (hw : CsWF s) (hr : SeqInRange s) :
    reimportFails s (roundTrip s)
      (match importGenesis s (exportGenesis s) with | .ok _ => true | .error _ => false) = [] := by
  rw [cs_import_succeeds s hw hr]
  unfold reimportFails sameProjection
  have hp : samePools s.pools (reimportPools s) = true := samePools_of (get?_reimportPools s)
  have hb : ledgerB s.bank s.bank [] = true := ledgerB_refl s.bank
  simp [roundTrip, reimport, hp, hb]

/-- what a state parsed from an observation line has in common with the state the line renders:
same sequence, the same registry as a map, listed without duplicates (in store-key order) -/
structure ObsEq (s o : State) : Prop where
  seq : o.seq = s.seq
  nodup : NodupKeys o.pools
  get : ∀ cp, AMap.get? o.pools cp = AMap.get? s.pools cp

theorem lptIndex_congr {s o : State} (hw : CsWF s) (ho : ObsEq s o) : lptIndex o = lptIndex s := by
  unfold lptIndex
  rw [ho.seq]
  have hf : ∀ d, findByLpt o.pools d = findByLpt s.pools d := by
    intro d
    exact findByLpt_congr ho.nodup hw.2.nodup hw.1.inj ho.get d
  simp only [hf]

/-- **index clause**: the index the model reports agrees with the index recomputed from any
observation-equivalent state (in particular from the parsed line, and after a re-import) -/
theorem c12_index_sound (s o : State) (hw : CsWF s) (ho : ObsEq s o) : indexFails (lptIndex s) o = [] := by
  unfold indexFails
  rw [lptIndex_congr hw ho]
  simp

theorem obsEq_refl (s : State) (hw : CsWF s) : ObsEq s s := ⟨rfl, hw.2.nodup, fun _ => rfl⟩

theorem obsEq_roundTrip (s : State) : ObsEq s (roundTrip s) :=
  ⟨rfl, nodup_reimportPools s, get?_reimportPools s⟩

end c12

/-! ### non-vacuity -/

/-- the hypotheses are met by a concrete accepted routed swap to a third party on the regression state -/
example : accepted Irismod.Props.C02.witnessState Irismod.Props.C02.witnessOp = true ∧
    Spec.C02.stepFails Irismod.Props.C02.witnessState Irismod.Props.C02.witnessOp true
      (apply Irismod.Props.C02.witnessState Irismod.Props.C02.witnessOp) = [] ∧
    Spec.C01.stepFails Irismod.Props.C02.witnessState Irismod.Props.C02.witnessOp true
      (apply Irismod.Props.C02.witnessState Irismod.Props.C02.witnessOp) = [] := by decide

end Irismod.Proofs.CoinswapMonitor
