/-
`Refund` (destroy and end-block) and `CreatePool` on the invariant bundle.
-/
import Irismod.Proofs.FarmSteps

namespace Irismod.Proofs.Farm
open Irismod Irismod.Sdk Irismod.Farm Irismod.Spec

/-- the store after `Refund` zeroed the rules of pool `id` -/
def zeroed (s1 : State) (id : PoolId) (p1 : Pool) : State := setPool s1 id { p1 with rules := zeroRules p1.rules }

theorem refund_cases (s : State) (id : PoolId) (p : Pool) :
    (∃ s1 e, updatePool (dequeue s id p.endH) id p 0 true = (s1, .error e) ∧ refund s id p = (s1, some e)) ∨
    (∃ s1 p1, updatePool (dequeue s id p.endH) id p 0 true = (s1, .ok p1) ∧
      ((refundCoins p1.rules = [] ∧ refund s id p = (zeroed s1 id p1, some (.reject "no remaining reward"))) ∨
       (refundCoins p1.rules ≠ [] ∧ ∃ e, sendAll (zeroed s1 id p1) farmAcc p1.creator (refundCoins p1.rules) = .error e ∧
          refund s id p = (zeroed s1 id p1, some e)) ∨
       (refundCoins p1.rules ≠ [] ∧ ∃ s2, sendAll (zeroed s1 id p1) farmAcc p1.creator (refundCoins p1.rules) = .ok s2 ∧
          refund s id p = (creditIf (p1.creator == distrAcc) s2 (refundCoins p1.rules), none)))) := by
  unfold refund zeroed
  cases hu : updatePool (dequeue s id p.endH) id p 0 true with
  | mk s1 r =>
    cases r with
    | error e => left; exact ⟨s1, e, rfl, rfl⟩
    | ok p1 =>
      right
      refine ⟨s1, p1, rfl, ?_⟩
      by_cases hc : refundCoins p1.rules = []
      · left; simp [hc]
      · right
        cases hs : sendAll (setPool s1 id { p1 with rules := zeroRules p1.rules }) farmAcc p1.creator (refundCoins p1.rules) with
        | error e => left; exact ⟨hc, e, rfl, by simp [hc, hs]⟩
        | ok s2 => right; exact ⟨hc, s2, rfl, by simp [hc, hs]⟩

theorem zeroRules_denoms (rs : List Rule) : (zeroRules rs).map (·.denom) = rs.map (·.denom) := by
  induction rs with
  | nil => rfl
  | cons r t ih => simp only [zeroRules, List.map_cons] at ih ⊢; rw [ih]

theorem zeroRules_mem {rs : List Rule} {r' : Rule} (h : r' ∈ zeroRules rs) :
    ∃ r ∈ rs, r'.denom = r.denom ∧ r'.rpb = r.rpb ∧ r'.rps = r.rps ∧ r'.total = r.total ∧ r'.remaining = 0 := by
  unfold zeroRules at h
  simp only [List.mem_map] at h
  obtain ⟨r, hr, e⟩ := h
  exact ⟨r, hr, by rw [← e], by rw [← e], by rw [← e], by rw [← e], by rw [← e]⟩

theorem mem_dequeue {s : State} {id : PoolId} {h : Int} {e : Int × PoolId} :
    e ∈ (dequeue s id h).queue ↔ e ∈ s.queue ∧ e ≠ (h, id) := by
  unfold dequeue
  simp only [List.mem_filter, Bool.not_eq_eq_eq_not, Bool.not_true, beq_eq_false_iff_ne, ne_eq]

/-- after the destroying `updatePool` and the zeroing of the rules, `Core` holds again and
the pool is out of the queue -/
theorem core_refunded {s s1 : State} {id : PoolId} {p p1 : Pool}
    (hc : Core s) (hp : getPool s id = some p) (hact : C06.active s id p = true)
    (hu : updatePool (dequeue s id p.endH) id p 0 true = (s1, .ok p1)) :
    Core (zeroed s1 id p1) ∧
    (∀ d, gap (zeroed s1 id p1) d = gap s d + (C05.remainingIn d p1.rules : Int)) ∧
    (zeroed s1 id p1).queue = (dequeue s id p.endH).queue ∧ (zeroed s1 id p1).height = s.height ∧
    (zeroed s1 id p1).farmers = s.farmers ∧
    p1.creator = p.creator ∧ getPool (zeroed s1 id p1) id = some { p1 with rules := zeroRules p1.rules } ∧
    p1.endH = s.height ∧
    (∀ id2, id ≠ id2 → getPool (zeroed s1 id p1) id2 = getPool s id2) := by
  have ok := updatePool_ok hu
  have hw := hc.wf id p hp
  have ht := hc.time id p hp
  have hp0 : getPool (dequeue s id p.endH) id = some p := hp
  obtain ⟨hcre, _, _, hlpt, hlast, hend, hst⟩ := updOk_fields ok
  simp at hend hst
  have hh0 : (dequeue s id p.endH).height = s.height := rfl
  rw [hh0] at hend hst hlast
  have hpools : (zeroed s1 id p1).pools = AMap.set s.pools id { p1 with rules := zeroRules p1.rules } := by
    unfold zeroed setPool; simp only; rw [ok.pools]; exact set_set _ _ _ _
  have gself : getPool (zeroed s1 id p1) id = some { p1 with rules := zeroRules p1.rules } := getPool_set_self _ _ _ _ hpools
  have gother : ∀ id2, id ≠ id2 → getPool (zeroed s1 id p1) id2 = getPool s id2 :=
    fun id2 e => getPool_set_other s _ id id2 _ hpools e
  have hq : (zeroed s1 id p1).queue = (dequeue s id p.endH).queue := ok.queue
  have hh : (zeroed s1 id p1).height = s.height := ok.height
  have hf : (zeroed s1 id p1).farmers = s.farmers := ok.farmers
  have w1 := updOk_wf ok hw
  refine ⟨⟨by rw [hh]; exact hc.hnn, ?_, ?_, ?_, ?_, ?_, ?_, ?_⟩, ?_, hq, hh, hf, hcre, gself, hend, gother⟩
  · refine poolsAll_set hc.wf hpools ⟨?_, ?_, ?_, ?_, ?_, w1.user⟩
    · intro e; apply w1.rulesNe
      have := congrArg List.length e
      simp [zeroRules] at this
      exact this
    · show ((zeroRules p1.rules).map (·.denom)).Nodup; rw [zeroRules_denoms]; exact w1.nodup
    · intro r' hr'
      obtain ⟨r, hr, _, e, _⟩ := zeroRules_mem hr'
      rw [e]; exact w1.rpbPos r hr
    · intro r' hr'
      obtain ⟨r, hr, _, _, _, e, _⟩ := zeroRules_mem hr'
      rw [e]; exact w1.totPos r hr
    · intro r' hr'
      obtain ⟨r, hr, _, _, e, _⟩ := zeroRules_mem hr'
      rw [e]; exact w1.rpsNN r hr
  · rw [hh]
    refine poolsAll_set hc.time hpools ⟨?_, ?_, ?_⟩
    · show p1.last ≤ s.height; rw [hlast]
    · intro _; show p1.start ≤ p1.last; rw [hlast, hst]; split <;> omega
    · intro hlt; exfalso
      have : p1.start ≤ s.height := by rw [hst]; split <;> omega
      have hlt' : s.height < p1.start := hlt
      omega
  · obtain ⟨q1, q2, q3⟩ := hc.queue
    refine ⟨?_, ?_, ?_⟩
    · intro h i hm
      rw [hq, mem_dequeue] at hm
      obtain ⟨p2, hp2, he2, hl2⟩ := q1 h i hm.1
      have hne : id ≠ i := by
        intro e; subst e
        rw [hp] at hp2; cases hp2
        exact hm.2 (by rw [he2])
      exact ⟨p2, by rw [gother i hne]; exact hp2, he2, by rw [hh]; exact hl2⟩
    · intro i p2 hp2 hlt
      rw [hh] at hlt
      by_cases e : id = i
      · subst e
        rw [gself] at hp2; cases hp2
        have : p1.endH = s.height := hend
        have hlt' : s.height < p1.endH := hlt
        omega
      · rw [gother i e] at hp2
        rw [hq, mem_dequeue]
        exact ⟨q2 i p2 hp2 hlt, fun e2 => e (Prod.mk.inj e2).2.symm⟩
    · rw [hq]; unfold dequeue; exact List.Nodup.sublist List.filter_sublist q3
  · intro i p2 hp2 ha
    unfold C06.active at ha
    have hm : (p2.endH, i) ∈ (zeroed s1 id p1).queue := by simpa using ha
    rw [hq, mem_dequeue] at hm
    by_cases e : id = i
    · subst e
      rw [gself] at hp2; cases hp2
      exfalso
      obtain ⟨p3, hp3, he3, _⟩ := hc.queue.1 _ _ hm.1
      rw [hp] at hp3; cases hp3
      exact hm.2 (by rw [he3])
    · rw [gother i e] at hp2
      exact hc.budget i p2 hp2 (by unfold C06.active; simpa using hm.1)
  · intro a i f p2 hf2 hp2
    unfold getFarmer at hf2; rw [hf] at hf2
    by_cases e : id = i
    · subst e
      rw [gself] at hp2; cases hp2
      intro r' hr'
      obtain ⟨r1, hr1, hd1, _, hrps1, _⟩ := zeroRules_mem hr'
      obtain ⟨r, hr, hden, hor⟩ := updOk_rule_origin ok r1 hr1
      have := hc.debt a id f p hf2 hp r hr
      rw [hd1, hrps1, hden]
      rcases hor with e1 | e1
      · rw [e1]; exact this
      · exact updOk_debt_rule e1 (hw.rpsNN r hr) _ _ this
    · rw [gother i e] at hp2; exact hc.debt a i f p2 hf2 hp2
  · intro a i f hf2
    unfold getFarmer at hf2; rw [hf] at hf2
    obtain ⟨p2, hp2⟩ := hc.fpool a i f hf2
    by_cases e : id = i
    · subst e; exact ⟨_, gself⟩
    · exact ⟨p2, by rw [gother i e]; exact hp2⟩
  · -- ghost: the refunded pool is booked exactly once
    have hinact : ∀ h0, (h0, id) ∉ (zeroed s1 id p1).queue := by
      intro h0 hm
      rw [hq, mem_dequeue] at hm
      obtain ⟨p3, hp3, he3, _⟩ := hc.queue.1 _ _ hm.1
      rw [hp] at hp3; cases hp3
      exact hm.2 (by rw [he3])
    intro i p2 hp2 r' hr'
    by_cases e : id = i
    · subst e
      rw [gself] at hp2; cases hp2
      have hr'' : r' ∈ zeroRules p1.rules := hr'
      unfold zeroRules at hr''
      simp only [List.mem_map] at hr''
      obtain ⟨r1, hr1, e1⟩ := hr''
      obtain ⟨r, hr, _, hor⟩ := updOk_rule_origin ok r1 hr1
      have g0 := hc.ghost id p hp r hr
      have hn0 := (ghost_active (hc.ghost id p hp) hact r hr)
      -- the rule before zeroing
      have g1 : C06.RuleConserved r1 ∧ r1.nRefund = 0 ∧ r1.refunded = 0 := by
        rcases hor with e2 | e2
        · rw [e2]; exact ⟨g0.1, hn0.1, hn0.2⟩
        · obtain ⟨_, htot, _, hrem, hrel, hrf, hnr, _⟩ := stepped_facts e2
          have c := g0.1
          unfold C06.RuleConserved at c ⊢
          exact ⟨by omega, by rw [hnr]; exact hn0.1, by rw [hrf]; exact hn0.2⟩
      rw [← e1]
      obtain ⟨c1, n1, f1⟩ := g1
      unfold C06.RuleConserved at c1
      refine ⟨by unfold C06.RuleConserved; simp only; omega, by simp only; omega, ?_, by simp only; omega⟩
      intro _
      refine ⟨rfl, ?_, by show p1.endH ≤ (zeroed s1 id p1).height; rw [hh, hend]⟩
      unfold C06.active
      cases hcn : (zeroed s1 id p1).queue.contains (p1.endH, id) with
      | false => rfl
      | true => exact absurd (by simpa using hcn) (hinact p1.endH)
    · rw [gother i e] at hp2
      refine (hc.ghost i p2 hp2 r' hr').transfer ?_ (by rw [hh]; exact fun h => h)
      unfold C06.active
      intro hf0
      cases hcn : (zeroed s1 id p1).queue.contains (p2.endH, i) with
      | false => rfl
      | true =>
        have hm : (p2.endH, i) ∈ (zeroed s1 id p1).queue := by simpa using hcn
        rw [hq, mem_dequeue] at hm
        have : s.queue.contains (p2.endH, i) = true := by simpa using hm.1
        rw [this] at hf0; cases hf0
  · intro d
    have g1 : gap s1 d = gap s d := by
      have := gap_updOk ok hp0 d
      simp at this
      rw [this]; exact gap_congr rfl rfl d
    have hp1 : getPool s1 id = some p1 := getPool_set_self _ _ _ _ ok.pools
    have he := expected_set (s' := zeroed s1 id p1) hp1 rfl d
    unfold C05.poolHolds at he
    simp only [remainingIn_zeroRules] at he
    unfold gap at g1 ⊢
    show ((s1.bank.balOf farmAcc d : Nat) : Int) - _ = _
    omega

/-- a `Refund` that did not fail half-way (it paid, or found nothing left to pay) keeps the
bundle -/
theorem inv_refund {s s' : State} {id : PoolId} {p : Pool} (hi : Inv s) (hp : getPool s id = some p)
    (hact : C06.active s id p = true)
    (h : refund s id p = (s', none) ∨ refund s id p = (s', some (.reject "no remaining reward"))) :
    Inv s' ∧ s'.height = s.height ∧ s'.queue = (dequeue s id p.endH).queue ∧
    (∀ id2, id ≠ id2 → getPool s' id2 = getPool s id2) ∧
    (∃ pf, getPool s' id = some pf ∧ pf.endH = s.height ∧ ∀ r ∈ pf.rules, r.remaining = 0 ∧ r.nRefund ≥ 1) := by
  have hst0 := refund_sameStakes hp
  have hw := hi.core.wf id p hp
  rcases refund_cases s id p with ⟨s1, e, hu, hr⟩ | ⟨s1, p1, hu, hr⟩
  · -- `updatePool` failed: neither verdict
    exfalso
    rcases h with h | h
    · rw [hr] at h; cases h
    · rw [hr] at h
      simp only [Prod.mk.injEq, Option.some.injEq] at h
      obtain ⟨_, e2⟩ := h
      subst e2
      -- updatePool never rejects with this message
      have : ∀ (s0 : State), updatePool s0 id p 0 true ≠ (s1, .error (.reject "no remaining reward")) := by
        intro s0 hc
        have hfin : ∀ (a b : State) (rs : List Rule), finishUpdate a id p rs 0 true ≠ (b, .error (.reject "no remaining reward")) := by
          intro a b rs hf
          unfold finishUpdate at hf
          split at hf
          · simp at hf
          · simp at hf
        unfold updatePool at hc
        split at hc
        · simp at hc
        split at hc
        · simp at hc
        split at hc
        · split at hc
          · rename_i e0 he0
            simp only [Prod.mk.injEq, Except.error.injEq] at hc
            obtain ⟨_, e3⟩ := hc
            subst e3
            -- the loop only rejects with its own message or panics
            have : ∀ (i L : Nat) (rs : List Rule), (collectRules i L rs).2 ≠ some (.reject "no remaining reward") := by
              intro i L rs
              induction rs with
              | nil => simp [collectRules]
              | cons r t ih =>
                unfold collectRules
                split
                · rename_i e4 he4
                  simp only
                  intro hc2
                  simp only [Option.some.injEq] at hc2
                  subst hc2
                  unfold collectRule at he4
                  split at he4
                  · simp at he4
                  · split at he4
                    · simp at he4
                    · split at he4
                      · simp at he4
                      · simp at he4
                · exact ih
            exact this _ _ _ he0
          · unfold releaseAndFinish at hc
            split at hc
            · exact hfin _ _ _ hc
            · split at hc
              · rename_i e5 he5
                simp only [Prod.mk.injEq, Except.error.injEq] at hc
                obtain ⟨_, e6⟩ := hc
                subst e6
                unfold sendAll at he5
                split at he5
                · simp at he5
                · simp at he5
              · exact hfin _ _ _ hc
        · exact hfin _ _ _ hc
      exact this _ hu
  · obtain ⟨c1, hg1, hq1, hh1, hf1, hcre, gself, hend, gother⟩ := core_refunded hi.core hp hact hu
    have hgap0 := (moduleAccount_iff s).mp hi.modacc
    have hz0 : ∀ r ∈ ({ p1 with rules := zeroRules p1.rules } : Pool).rules, r.remaining = 0 ∧ r.nRefund ≥ 1 := by
      intro r hr
      show r.remaining = 0 ∧ r.nRefund ≥ 1
      unfold zeroRules at hr
      simp only [List.mem_map] at hr
      obtain ⟨r0, _, e⟩ := hr
      rw [← e]; exact ⟨rfl, by simp⟩
    rcases hr with ⟨hcoins, hr⟩ | ⟨hcoins, e, hs, hr⟩ | ⟨hcoins, s2, hs, hr⟩
    · -- nothing left to refund
      have hs' : s' = zeroed s1 id p1 := by
        rcases h with h | h
        · rw [hr] at h; cases h
        · rw [hr] at h; simp only [Prod.mk.injEq] at h; exact h.1.symm
      subst hs'
      have hst : Stakes (zeroed s1 id p1) := by
        have := hst0; rw [hr] at this; exact Stakes.of_same this hi.stakes
      refine ⟨⟨c1, hst, ?_, cpUsers_of_cp (updatePool_ok hu).cp hi.cpu⟩, hh1, hq1, gother, ⟨{ p1 with rules := zeroRules p1.rules }, gself, hend, hz0⟩⟩
      rw [moduleAccount_iff]
      intro d
      have : C05.remainingIn d p1.rules = 0 := by
        rw [← sumOf_refundCoins, hcoins]; rfl
      rw [hg1 d, hgap0 d, this]; rfl
    · -- the module account cannot pay: excluded by the module-account identity
      exfalso
      have hcu := creator_ne (hcre ▸ hw.user)
      have hcov : ∀ d, sumOf (refundCoins p1.rules) d ≤ (zeroed s1 id p1).bank.balOf farmAcc d := by
        intro d
        have g := hg1 d
        rw [hgap0 d] at g
        unfold gap at g
        have he : C05.expectedFarm (zeroed s1 id p1) d ≥ 0 := Nat.zero_le _
        rw [sumOf_refundCoins]
        omega
      obtain ⟨b', hb'⟩ := sendCoins_ok _ _ farmAcc p1.creator (Ne.symm hcu.1) hcov
      unfold sendAll at hs
      rw [hb'] at hs
      cases hs
    · have hs' : s' = creditIf (p1.creator == distrAcc) s2 (refundCoins p1.rules) := by
        rcases h with h | h
        · rw [hr] at h; simp only [Prod.mk.injEq] at h; exact h.1.symm
        · rw [hr] at h; simp only [Prod.mk.injEq] at h; cases h.2
      subst hs'
      have bo := (sendAll_ok hs).1
      have hcu := creator_ne (hcre ▸ hw.user)
      have hst : Stakes (creditIf (p1.creator == distrAcc) s2 (refundCoins p1.rules)) := by
        have := hst0; rw [hr] at this; exact Stakes.of_same this hi.stakes
      have c2 : Core (creditIf (p1.creator == distrAcc) s2 (refundCoins p1.rules)) :=
        core_quiet (cpFrame_withCp _ _).quiet (core_bankOnly bo c1)
      refine ⟨⟨c2, hst, ?_, ?_⟩, by show s2.height = _; rw [bo.height]; exact hh1, by show s2.queue = _; rw [bo.queue]; exact hq1, ?_,
              ⟨{ p1 with rules := zeroRules p1.rules }, by unfold getPool; show AMap.get? s2.pools id = _; rw [bo.pools]; exact gself, hend, hz0⟩⟩
      · rw [moduleAccount_iff]
        intro d
        have hgc : gap (creditIf (p1.creator == distrAcc) s2 (refundCoins p1.rules)) d = gap s2 d := gap_congr rfl rfl d
        rw [hgc, gap_send_out hcu.1 hs d, hg1 d, hgap0 d, sumOf_refundCoins]; omega
      · refine cpUsers_of_eq (s := s) ?_ ?_ hi.cpu
        · show s2.cp.escrow = _; rw [bo.cp]; show s1.cp.escrow = _; rw [(updatePool_ok hu).cp]; rfl
        · show s2.cp.props = _; rw [bo.cp]; show s1.cp.props = _; rw [(updatePool_ok hu).cp]; rfl
      · intro id2 e; unfold getPool; show AMap.get? s2.pools id2 = _; rw [bo.pools]; exact gother id2 e

/-- a pool that is not expired is active and has not passed its end height -/
theorem active_of_not_expired {s : State} {id : PoolId} {p : Pool} (hc : Core s) (hp : getPool s id = some p)
    (hexp : expired s id p = false) : C06.active s id p = true ∧ s.height ≤ p.endH := by
  unfold expired at hexp
  split at hexp
  · cases hexp
  · rename_i hgt
    split at hexp
    · rename_i heq
      exact ⟨by unfold C06.active; simpa using hexp, by omega⟩
    · rename_i hne
      have hlt : s.height < p.endH := by omega
      have := hc.queue.2.1 id p hp hlt
      exact ⟨by unfold C06.active; simpa using this, by omega⟩

theorem inv_destroyPool {s s' : State} {sender id} (hi : Inv s) (h : stepDestroyPool s sender id = .ok s') : Inv s' := by
  obtain ⟨p, hp, _, _, hexp, hr⟩ := stepDestroyPool_ok h
  exact (inv_refund hi hp (active_of_not_expired hi.core hp hexp).1 (Or.inl hr)).1

end Irismod.Proofs.Farm
