/-
The `Core` components (well-formedness, timing, queue hygiene, budget solvency, debt bounds)
under the state transformers.
-/
import Irismod.Proofs.FarmBudget

namespace Irismod.Proofs.Farm
open Irismod Irismod.Sdk Irismod.Farm Irismod.Spec

theorem core_quiet {s s' : State} (b : Quiet s s') (h : Core s) : Core s' := by
  have gp : ∀ id, getPool s' id = getPool s id := fun id => by unfold getPool; rw [b.pools]
  have gf : ∀ a id, getFarmer s' a id = getFarmer s a id := fun a id => by unfold getFarmer; rw [b.farmers]
  refine ⟨by rw [b.height]; exact h.hnn, poolsAll_same h.wf b.pools, ?_, ?_, ?_, ?_, ?_, ?_⟩
  · rw [b.height]; exact poolsAll_same h.time b.pools
  · obtain ⟨q1, q2, q3⟩ := h.queue
    refine ⟨?_, ?_, by rw [b.queue]; exact q3⟩
    · intro hh id hm; rw [b.queue] at hm; rw [gp, b.height]; exact q1 hh id hm
    · intro id p hp hlt; rw [gp] at hp; rw [b.height] at hlt; rw [b.queue]; exact q2 id p hp hlt
  · intro id p hp ha; rw [gp] at hp
    unfold C06.active at ha; rw [b.queue] at ha
    exact h.budget id p hp ha
  · intro a id f p hf hp; rw [gf] at hf; rw [gp] at hp; exact h.debt a id f p hf hp
  · intro a id f hf; rw [gf] at hf; rw [gp]; exact h.fpool a id f hf
  · intro id p hp r hr; rw [gp] at hp
    exact (h.ghost id p hp r hr).transfer (by unfold C06.active; rw [b.queue]; exact fun h => h) (by rw [b.height]; exact fun h => h)

theorem core_bankOnly {s s' : State} (b : BankOnly s s') (h : Core s) : Core s' := core_quiet b.quiet h

/-- the rules after `updatePool`: each is the old rule or its released successor -/
theorem updOk_rule_origin {s s' : State} {id : PoolId} {p p' : Pool} {amount : Int} {d : Bool}
    (h : UpdOk s s' id p p' amount d) : ∀ r' ∈ p'.rules, ∃ r ∈ p.rules,
      r'.denom = r.denom ∧ (r' = r ∨ Stepped (s.height - p.last).toNat p.locked r r') := by
  rcases h.rules with e | ⟨_, _, f2⟩
  · intro r' hr'; rw [e] at hr'; exact ⟨r', hr', rfl, Or.inl rfl⟩
  · intro r' hr'
    obtain ⟨r, hr, hst⟩ := all2_mem f2 r' hr'
    exact ⟨r, hr, (stepped_facts hst).1, Or.inr hst⟩

theorem core_updOk {s s' : State} {id : PoolId} {p p' : Pool} {amount : Int}
    (hc : Core s) (hp : getPool s id = some p) (h : UpdOk s s' id p p' amount false)
    (hstart : amount > 0 → p.start ≤ s.height) : Core s' := by
  have hw := hc.wf id p hp
  have ht := hc.time id p hp
  obtain ⟨_, _, _, _, hlast, hend, hst⟩ := updOk_fields h
  simp at hend hst
  have gself : getPool s' id = some p' := getPool_set_self _ _ _ _ h.pools
  have gother : ∀ id2, id ≠ id2 → getPool s' id2 = getPool s id2 := fun id2 e => getPool_set_other s s' id id2 p' h.pools e
  have gf : ∀ a i, getFarmer s' a i = getFarmer s a i := fun a i => by unfold getFarmer; rw [h.farmers]
  refine ⟨by rw [h.height]; exact hc.hnn, poolsAll_set hc.wf h.pools (updOk_wf h hw), ?_, ?_, ?_, ?_, ?_, ?_⟩
  · rw [h.height]; exact poolsAll_set hc.time h.pools (updOk_time h ht hstart)
  · obtain ⟨q1, q2, q3⟩ := hc.queue
    refine ⟨?_, ?_, by rw [h.queue]; exact q3⟩
    · intro hh id2 hm
      rw [h.queue] at hm
      obtain ⟨p2, hp2, he2, hl2⟩ := q1 hh id2 hm
      by_cases e : id = id2
      · subst e
        rw [hp] at hp2; cases hp2
        exact ⟨p', gself, by rw [hend]; exact he2, by rw [h.height]; exact hl2⟩
      · exact ⟨p2, by rw [gother id2 e]; exact hp2, he2, by rw [h.height]; exact hl2⟩
    · intro id2 p2 hp2 hlt
      rw [h.height] at hlt; rw [h.queue]
      by_cases e : id = id2
      · subst e
        rw [gself] at hp2; cases hp2
        rw [hend] at hlt ⊢
        exact q2 id p hp hlt
      · rw [gother id2 e] at hp2; exact q2 id2 p2 hp2 hlt
  · intro id2 p2 hp2 ha
    unfold C06.active at ha; rw [h.queue] at ha
    by_cases e : id = id2
    · subst e
      rw [gself] at hp2; cases hp2
      rw [hend] at ha
      exact updOk_budget h ht (hc.budget id p hp ha)
    · rw [gother id2 e] at hp2; exact hc.budget id2 p2 hp2 ha
  · intro a id2 f p2 hf hp2
    rw [gf] at hf
    by_cases e : id = id2
    · subst e
      rw [gself] at hp2; cases hp2
      intro r' hr'
      obtain ⟨r, hr, hden, hor⟩ := updOk_rule_origin h r' hr'
      have := hc.debt a id f p hf hp r hr
      rw [hden]
      rcases hor with e1 | e1
      · rw [e1]; exact this
      · exact updOk_debt_rule e1 (hw.rpsNN r hr) _ _ this
    · rw [gother id2 e] at hp2; exact hc.debt a id2 f p2 hf hp2
  · intro a id2 f hf
    rw [gf] at hf
    obtain ⟨p2, hp2⟩ := hc.fpool a id2 f hf
    by_cases e : id = id2
    · subst e; exact ⟨p', gself⟩
    · exact ⟨p2, by rw [gother id2 e]; exact hp2⟩
  · intro id2 p2 hp2 r' hr'
    by_cases e : id = id2
    · subst e
      rw [gself] at hp2; cases hp2
      obtain ⟨r, hr, _, hor⟩ := updOk_rule_origin h r' hr'
      have g := hc.ghost id p hp r hr
      have hact : C06.active s id p = false → C06.active s' id p' = false := by
        unfold C06.active; rw [h.queue, hend]; exact fun h => h
      have hendle : p.endH ≤ s.height → p'.endH ≤ s'.height := by rw [hend, h.height]; exact fun h => h
      rcases hor with e1 | e1
      · rw [e1]; exact g.transfer hact hendle
      · exact g.stepped e1 hact hendle
    · rw [gother id2 e] at hp2
      exact (hc.ghost id2 p2 hp2 r' hr').transfer (by unfold C06.active; rw [h.queue]; exact fun h => h) (by rw [h.height]; exact fun h => h)

end Irismod.Proofs.Farm
