/-
`CreatePool` on the invariant bundle.
-/
import Irismod.Proofs.FarmRefund

namespace Irismod.Proofs.Farm
open Irismod Irismod.Sdk Irismod.Farm Irismod.Spec

theorem newRules_denoms (total rpb : CoinList) : (newRules total rpb).map (·.denom) = total.map (·.1) := by
  unfold newRules; simp [List.map_map]

theorem mem_newRules {total rpb : CoinList} {r : Rule} (h : r ∈ newRules total rpb) :
    r.remaining = r.total ∧ r.rps = Dec.zero := by
  unfold newRules at h
  simp only [List.mem_map] at h
  obtain ⟨c, _, e⟩ := h
  rw [← e]; exact ⟨rfl, rfl⟩

theorem validateRewardLoop_pos : ∀ {total rpb : CoinList}, validateRewardLoop total rpb = .ok () →
    total.length ≤ rpb.length → ∀ c ∈ total, 0 < c.2
  | [], _, _, _ => by simp
  | _ :: _, [], _, hl => by simp at hl
  | (d, t) :: ts, (d2, r) :: rs, h, hl => by
    unfold validateRewardLoop at h
    split at h; · cases h
    rename_i h1
    split at h; · cases h
    rename_i h2
    split at h; · cases h
    have ih := validateRewardLoop_pos h (by simpa using hl)
    intro c hc
    simp only [List.mem_cons] at hc
    rcases hc with e | e
    · subst e; simp only; omega
    · exact ih c e

theorem newRules_totPos {total rpb : CoinList} (h : validateReward rpb total = .ok ()) :
    ∀ r ∈ newRules total rpb, 0 < r.total := by
  unfold validateReward at h
  split at h; · cases h
  rename_i hlen
  split at h; · cases h
  have := validateRewardLoop_pos h (by simp at hlen; omega)
  intro r hr
  unfold newRules at hr
  simp only [List.mem_map] at hr
  obtain ⟨c, hc, e⟩ := hr
  rw [← e]; exact this c hc

theorem mem_enqueue {s : State} {id : PoolId} {h : Int} {e : Int × PoolId} :
    e ∈ (enqueue s id h).queue ↔ e ∈ s.queue ∨ e = (h, id) := by
  unfold enqueue
  split
  · rename_i hc
    have hm : (h, id) ∈ s.queue := by simpa using hc
    constructor
    · intro x; exact Or.inl x
    · intro x; rcases x with x | x
      · exact x
      · rw [x]; exact hm
  · simp

theorem nodup_enqueue {s : State} {id : PoolId} {h : Int} (hn : s.queue.Nodup) : (enqueue s id h).queue.Nodup := by
  unfold enqueue
  split
  · exact hn
  · rename_i hc
    have hm : (h, id) ∉ s.queue := by simpa using hc
    simp only
    rw [List.nodup_append]
    refine ⟨hn, by simp, ?_⟩
    intro a ha b hb
    simp at hb; subst hb
    intro e; subst e; exact hm ha

theorem newRules_totPos' {total rpb : CoinList} (h : ∀ c ∈ total, 0 < c.2) : ∀ r ∈ newRules total rpb, 0 < r.total := by
  intro r hr
  unfold newRules at hr
  simp only [List.mem_map] at hr
  obtain ⟨c, hc, e⟩ := hr
  rw [← e]; exact h c hc

/-- a pool created (by `CreatePool` or by the handler of a passed community-pool proposal) from a
budget that has just arrived in the module account -/
theorem inv_createCore {s2 s' : State} {id creator desc lpt start rpb total editable}
    (c2 : Core s2) (hst2 : Stakes s2) (hgap : ∀ d, gap s2 d = (sumOf total d : Int))
    (hu : isModuleAcc creator = false ∨ creator = distrAcc)
    (hsort : sortedCoins total = true) (htot : total ≠ []) (hpos : ∀ c ∈ total, 0 < c.2)
    (hstart2 : s2.height ≤ start)
    (h : createPoolCore s2 id creator desc lpt start rpb total editable = .ok s') : Inv0 s' := by
  have hst := stakes_createCore hst2 h
  obtain ⟨m, hnone, hm, rfl⟩ := createPoolCore_ok h
  have hmin := minInterval_le hm
  -- names for the new record and state
  generalize hnp : (Pool.mk creator desc start (start + (m : Int)) 0 editable lpt 0 (newRules total rpb)) = np at hst ⊢
  have gself : ∀ (st : State), st.pools = AMap.set s2.pools id np → getPool st id = some np :=
    fun st e => getPool_set_self _ _ _ _ e
  have hnn := c2.hnn
  -- no queue entry and no farmer mentions the fresh id
  have hnoq : ∀ hq, (hq, id) ∉ s2.queue := by
    intro hq hmq
    obtain ⟨p2, hp2, _⟩ := c2.queue.1 hq id hmq
    rw [hnone] at hp2; cases hp2
  have hnp_rules : np.rules = newRules total rpb := by rw [← hnp]
  have hnp_end : np.endH = start + (m : Int) := by rw [← hnp]
  have hnp_start : np.start = start := by rw [← hnp]
  have hnp_last : np.last = 0 := by rw [← hnp]
  have hnp_locked : np.locked = 0 := by rw [← hnp]
  have hnp_cre : np.creator = creator := by rw [← hnp]
  have hnp_lpt : np.lpt = lpt := by rw [← hnp]
  refine ⟨?_, hst, ?_⟩
  · -- Core
    have gs : getPool (enqueue { s2 with seq := s2.seq + 1, pools := AMap.set s2.pools id np } id (start + (m : Int))) id = some np := by
      unfold enqueue; split <;> exact getPool_set_self _ _ _ _ rfl
    have go : ∀ id2, id ≠ id2 → getPool (enqueue { s2 with seq := s2.seq + 1, pools := AMap.set s2.pools id np } id (start + (m : Int))) id2 = getPool s2 id2 := by
      intro id2 e; unfold enqueue; split <;> exact getPool_set_other s2 _ id id2 np rfl e
    have hhe : (enqueue { s2 with seq := s2.seq + 1, pools := AMap.set s2.pools id np } id (start + (m : Int))).height = s2.height := by
      unfold enqueue; split <;> rfl
    have hfe : (enqueue { s2 with seq := s2.seq + 1, pools := AMap.set s2.pools id np } id (start + (m : Int))).farmers = s2.farmers := by
      unfold enqueue; split <;> rfl
    have hpe : (enqueue { s2 with seq := s2.seq + 1, pools := AMap.set s2.pools id np } id (start + (m : Int))).pools = AMap.set s2.pools id np := by
      unfold enqueue; split <;> rfl
    refine ⟨by rw [hhe]; exact hnn, ?_, ?_, ?_, ?_, ?_, ?_, ?_⟩
    · refine poolsAll_set c2.wf hpe ⟨?_, ?_, ?_, ?_, ?_, by rw [hnp_cre]; exact hu⟩
      · rw [hnp_rules]; intro e
        have := congrArg List.length e
        simp [newRules] at this
        exact htot this
      · rw [hnp_rules, newRules_denoms]; exact sorted_nodup total hsort
      · intro r hr; rw [hnp_rules] at hr; exact (hmin r hr).1
      · intro r hr; rw [hnp_rules] at hr; exact newRules_totPos' hpos r hr
      · intro r hr; rw [hnp_rules] at hr; rw [(mem_newRules hr).2]; exact Int.le_refl _
    · rw [hhe]
      refine poolsAll_set c2.time hpe ⟨by rw [hnp_last]; exact hnn, ?_, ?_⟩
      · intro hpos; rw [hnp_locked] at hpos; omega
      · intro _ r hr; rw [hnp_rules] at hr; exact (mem_newRules hr).1
    · obtain ⟨q1, q2, q3⟩ := c2.queue
      refine ⟨?_, ?_, nodup_enqueue q3⟩
      · intro hq i hmq
        rw [mem_enqueue] at hmq
        rcases hmq with hmq | hmq
        · obtain ⟨p2, hp2, he2, hl2⟩ := q1 hq i hmq
          have hne : id ≠ i := by intro e; subst e; exact hnoq hq hmq
          exact ⟨p2, by rw [go i hne]; exact hp2, he2, by rw [hhe]; exact hl2⟩
        · cases hmq
          exact ⟨np, gs, hnp_end, by rw [hhe]; omega⟩
      · intro i p2 hp2 hlt
        rw [hhe] at hlt
        rw [mem_enqueue]
        by_cases e : id = i
        · subst e; rw [gs] at hp2; cases hp2
          right; rw [hnp_end]
        · rw [go i e] at hp2; exact Or.inl (q2 i p2 hp2 hlt)
    · intro i p2 hp2 ha
      by_cases e : id = i
      · subst e; rw [gs] at hp2; cases hp2
        intro r hr
        rw [hnp_rules] at hr
        obtain ⟨_, hle⟩ := hmin r hr
        have hrem := (mem_newRules hr).1
        unfold C06.RuleBudget
        rw [hnp_end, hnp_last, hnp_start, hrem]
        have : ¬ (0 > start) := by omega
        simp only [this, if_false]
        have : (r.rpb : Int) * (m : Int) ≤ (r.total : Int) := by exact_mod_cast hle
        have e2 : start + (m : Int) - start = (m : Int) := by omega
        rw [e2]; exact this
      · rw [go i e] at hp2
        refine c2.budget i p2 hp2 ?_
        unfold C06.active at ha ⊢
        have hmq : (p2.endH, i) ∈ (enqueue { s2 with seq := s2.seq + 1, pools := AMap.set s2.pools id np } id (start + (m : Int))).queue := by simpa using ha
        rw [mem_enqueue] at hmq
        rcases hmq with hmq | hmq
        · simpa using hmq
        · exact absurd (Prod.mk.inj hmq).2.symm e
    · intro a i f p2 hf hp2
      unfold getFarmer at hf; rw [hfe] at hf
      by_cases e : id = i
      · subst e
        obtain ⟨p3, hp3⟩ := c2.fpool a id f hf
        rw [hnone] at hp3; cases hp3
      · rw [go i e] at hp2; exact c2.debt a i f p2 hf hp2
    · intro a i f hf
      unfold getFarmer at hf; rw [hfe] at hf
      obtain ⟨p2, hp2⟩ := c2.fpool a i f hf
      by_cases e : id = i
      · subst e; exact ⟨np, gs⟩
      · exact ⟨p2, by rw [go i e]; exact hp2⟩
    · intro i p2 hp2 r hr
      by_cases e : id = i
      · subst e; rw [gs] at hp2; cases hp2
        rw [hnp_rules] at hr
        have hm := mem_newRules hr
        have hgh : r.released = 0 ∧ r.refunded = 0 ∧ r.nRefund = 0 := by
          unfold newRules at hr
          simp only [List.mem_map] at hr
          obtain ⟨c, _, e⟩ := hr
          rw [← e]; exact ⟨rfl, rfl, rfl⟩
        refine ⟨by unfold C06.RuleConserved; omega, by omega, by intro e; omega, fun _ => hgh.2.1⟩
      · rw [go i e] at hp2
        refine (c2.ghost i p2 hp2 r hr).transfer ?_ (by rw [hhe]; exact fun h => h)
        unfold C06.active
        intro hf0
        cases hcn : (enqueue { s2 with seq := s2.seq + 1, pools := AMap.set s2.pools id np } id (start + (m : Int))).queue.contains (p2.endH, i) with
        | false => rfl
        | true =>
          have hmq : (p2.endH, i) ∈ (enqueue { s2 with seq := s2.seq + 1, pools := AMap.set s2.pools id np } id (start + (m : Int))).queue := by simpa using hcn
          rw [mem_enqueue] at hmq
          rcases hmq with hmq | hmq
          · have : s2.queue.contains (p2.endH, i) = true := by simpa using hmq
            rw [this] at hf0; cases hf0
          · exact absurd (Prod.mk.inj hmq).2.symm e
  · rw [moduleAccount_iff]
    intro d
    have g2 := hgap d
    have hbank : (enqueue { s2 with seq := s2.seq + 1, pools := AMap.set s2.pools id np } id (start + (m : Int))).bank = s2.bank := by
      unfold enqueue; split <;> rfl
    have hpe : (enqueue { s2 with seq := s2.seq + 1, pools := AMap.set s2.pools id np } id (start + (m : Int))).pools = AMap.set s2.pools id np := by
      unfold enqueue; split <;> rfl
    have he := expected_new (s' := enqueue { s2 with seq := s2.seq + 1, pools := AMap.set s2.pools id np } id (start + (m : Int))) hnone hpe d
    unfold C05.poolHolds at he
    rw [hnp_locked, hnp_rules, remainingIn_newRules] at he
    unfold gap at g2 ⊢
    rw [hbank]
    split at he <;> omega

theorem inv_createPool {s s' : State} {id sender desc lpt start rpb total editable} (hi : Inv s)
    (hu : isModuleAcc sender = false)
    (h : stepCreatePool s id sender desc lpt start rpb total editable = .ok s') : Inv s' := by
  obtain ⟨une1, _, _⟩ := user_ne hu
  unfold stepCreatePool at h
  split at h; · cases h
  rename_i hs
  split at h; · cases h
  split at h; · cases h
  split at h; · cases h
  rename_i htot
  split at h; · cases h
  rename_i u hvr
  split at h; · cases h
  rename_i hst
  split at h; · cases h
  split at h; · cases h
  split at h; · cases h
  rename_i s1 h1
  split at h; · cases h
  rename_i s2 h2
  simp only [Bool.not_eq_true', Bool.and_eq_false_iff, not_or, Bool.not_eq_false] at hs
  have b1 := deductFee_ok h1
  have b2 := (sendAll_ok h2).1
  have b12 := b1.trans b2
  have hpos : ∀ c ∈ total, 0 < c.2 := by
    unfold validateReward at hvr
    split at hvr; · cases hvr
    rename_i hlen
    split at hvr; · cases hvr
    exact validateRewardLoop_pos hvr (by simp at hlen; omega)
  refine (inv_createCore (core_bankOnly b12 hi.core) (Stakes.of_same b12.sameStakes hi.stakes)
    ?_ (Or.inl hu) hs.2 htot hpos (by rw [b12.height]; omega) h).withUsers
    (cpUsers_of_cp ((createPoolCore_cp h).trans b12.cp) hi.cpu)
  intro d
  have g0 := (moduleAccount_iff s).mp hi.modacc d
  have g1 := gap_deductFee une1 h1 d
  have g2 := gap_send_in une1 h2 d
  omega

/-! ### community-pool operations on the bundle -/

theorem inv0_cpFrame {s s' : State} (f : CpFrame s s') (hi : Inv0 s) : Inv0 s' := by
  refine ⟨core_quiet f.quiet hi.core, Stakes.of_same f.quiet.sameStakes hi.stakes, ?_⟩
  rw [moduleAccount_iff]
  intro d
  have g0 := (moduleAccount_iff s).mp hi.modacc d
  unfold gap C05.expectedFarm at g0 ⊢
  rw [f.farm d, f.quiet.pools]; exact g0

theorem mem_nonzero' {cs : CoinList} {c : Denom × Nat} (h : c ∈ nonzero cs) : c.2 ≠ 0 := by
  unfold nonzero at h
  simp only [List.mem_filter, decide_eq_true_eq] at h
  exact h.2

/-- the handler of a passed community-pool proposal ran: a pool funded from the escrow collector,
owned by the distribution module account -/
theorem inv0_handlerRan {sa s2 : State} {c : Content} (hi : Inv0 sa) (h : HandlerRan sa s2 c) : Inv0 s2 := by
  obtain ⟨_, hne, hsort, s1, h1, h2⟩ := h
  have b1 := (sendAll_ok h1).1
  refine inv_createCore (core_bankOnly b1 hi.core) (Stakes.of_same b1.sameStakes hi.stakes) ?_ (Or.inr rfl) hsort hne ?_
    (Int.le_refl _) h2
  · intro d
    have g0 := (moduleAccount_iff sa).mp hi.modacc d
    have g1 := gap_send_in escrow_ne.1 h1 d
    omega
  · intro x hx
    have : x.2 ≠ 0 := mem_nonzero' (cs := c.selfBond.foldl (fun acc c => addCoin c acc) c.applied) hx
    omega

theorem inv0_cpEffect {s s' : State} (h : CpEffect s s') (hi : Inv0 s) : Inv0 s' := by
  cases h with
  | frame f => exact inv0_cpFrame f hi
  | created sa s2 c f1 hd f2 => exact inv0_cpFrame f2 (inv0_handlerRan (inv0_cpFrame f1 hi) hd)

end Irismod.Proofs.Farm
