/-
Budget solvency (C06(c)) and debt bounds under `updatePool`, and the arithmetic of
`ExpiredHeight` / `AdjustPool`.
-/
import Irismod.Proofs.FarmGap
import Mathlib.Tactic.Ring
import Mathlib.Tactic.Linarith

namespace Irismod.Proofs.Farm
open Irismod Irismod.Sdk Irismod.Farm Irismod.Spec

theorem all2_mem {α β : Type} {R : α → β → Prop} {l₁ : List α} {l₂ : List β} (h : All2 R l₁ l₂) :
    ∀ b ∈ l₂, ∃ a ∈ l₁, R a b := by
  induction h with
  | nil => simp
  | cons hr _ ih =>
    intro b hb
    simp only [List.mem_cons] at hb
    rcases hb with e | e
    · subst e; exact ⟨_, by simp, hr⟩
    · obtain ⟨a, ha, hab⟩ := ih b e; exact ⟨a, by simp [ha], hab⟩

/-- the span still to be paid by pool `p` -/
def spanOf (p : Pool) : Int := p.endH - (if p.last > p.start then p.last else p.start)

theorem ruleBudget_iff (p : Pool) (r : Rule) : C06.RuleBudget p r ↔ (r.rpb : Int) * spanOf p ≤ (r.remaining : Int) := Iff.rfl

/-- `updatePool` (not destroying) keeps every rule's budget solvent -/
theorem updOk_budget {s s' : State} {id : PoolId} {p p' : Pool} {amount : Int}
    (h : UpdOk s s' id p p' amount false) (ht : PoolTime s.height p)
    (hb : ∀ r ∈ p.rules, C06.RuleBudget p r) : ∀ r ∈ p'.rules, C06.RuleBudget p' r := by
  obtain ⟨_, _, _, _, hlast, hend, hst⟩ := updOk_fields h
  simp at hend hst
  have hll := ht.lastLe
  rcases h.rules with e | ⟨hi, hL, f2⟩
  · intro r hr
    rw [e] at hr
    have := hb r hr
    rw [ruleBudget_iff] at this ⊢
    have hspan : spanOf p' ≤ spanOf p := by
      unfold spanOf; rw [hlast, hend, hst]
      split <;> split <;> omega
    have hr0 : (0 : Int) ≤ r.rpb := Int.natCast_nonneg _
    nlinarith
  · intro r' hr'
    obtain ⟨r, hr, hst'⟩ := all2_mem f2 r' hr'
    obtain ⟨_, _, hrpb, hrem, _⟩ := stepped_facts hst'
    have := hb r hr
    rw [ruleBudget_iff] at this ⊢
    have hstaked := ht.staked hL
    have h1 : spanOf p = p.endH - p.last := by
      unfold spanOf; split <;> omega
    have h2 : spanOf p' = p.endH - s.height := by
      unfold spanOf; rw [hlast, hend, hst]; split <;> omega
    rw [h1] at this
    rw [h2, hrpb]
    have hi' : ((s.height - p.last).toNat : Int) = s.height - p.last := by omega
    have hrem' : (r'.remaining : Int) + (r.rpb : Int) * (s.height - p.last) = r.remaining := by
      have : ((r'.remaining + r.rpb * (s.height - p.last).toNat : Nat) : Int) = (r.remaining : Int) := by rw [hrem]
      push_cast at this
      rw [hi'] at this
      exact this
    nlinarith

/-- `updatePool` keeps the debts below the (grown) shares -/
theorem updOk_debt_rule {i L : Nat} {r r' : Rule} (h : Stepped i L r r') (hr : 0 ≤ r.rps.raw) (x : Nat) (locked : Nat)
    (hx : (x : Int) ≤ (r.rps.raw * (locked : Int)) / precision) : (x : Int) ≤ (r'.rps.raw * (locked : Int)) / precision := by
  have hm := (stepped_rpsNN h hr).2
  have : r.rps.raw * (locked : Int) ≤ r'.rps.raw * (locked : Int) :=
    Int.mul_le_mul_of_nonneg_right hm (Int.natCast_nonneg _)
  have hp : (0 : Int) < precision := by unfold precision; omega
  have := Int.ediv_le_ediv hp this
  omega

/-! ### `ExpiredHeight` -/

theorem minInterval_le : ∀ {rs : List Rule} {m : Nat}, minInterval rs = some m →
    ∀ r ∈ rs, 0 < r.rpb ∧ r.rpb * m ≤ r.total
  | [], _, _ => by simp
  | r :: rs, m, h => by
    unfold minInterval at h
    split at h; · cases h
    rename_i hz
    split at h; · cases h
    split at h; · cases h
    rename_i m0 hm0
    have ih := minInterval_le hm0
    cases h
    intro r' hr'
    simp only [List.mem_cons] at hr'
    have hq : r.rpb * (r.total / r.rpb) ≤ r.total := Nat.mul_div_le _ _
    rcases hr' with e | e
    · subst e
      refine ⟨by omega, ?_⟩
      split
      · exact hq
      · rename_i hgt
        have : m0 ≤ r'.total / r'.rpb := by omega
        calc r'.rpb * m0 ≤ r'.rpb * (r'.total / r'.rpb) := Nat.mul_le_mul_left _ this
          _ ≤ r'.total := hq
    · obtain ⟨hp, hle⟩ := ih r' e
      refine ⟨hp, ?_⟩
      split
      · rename_i hgt
        calc r'.rpb * (r.total / r.rpb) ≤ r'.rpb * m0 := Nat.mul_le_mul_left _ (by omega)
          _ ≤ r'.total := hle
      · exact hle

end Irismod.Proofs.Farm
