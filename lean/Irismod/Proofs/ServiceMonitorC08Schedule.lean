/-
Monitor soundness for the service module — the SCHEDULE clause group of the C08 monitor
(`Spec.C08.checkSchedule`, the end-block part of `scheduleStep`: clauses f1 … f8) and the invariant `M08b`
relating the monitor's schedule memory (`lastBatchH`, `modified`, `pausedSince`) to the scheduler state.

Headline statements (namespace `Irismod.Proofs.ServiceMonitor`):
 * `M08b`, `M08b.congr`, `M08b.init`;
 * `c08_schedule_next_sound`: on an end-block line from an `SInv` state with unique context keys and `M08b`, none of
   the eight clauses fails and `M08b` holds afterwards;
 * `c08_schedule_msg_inv`: every other operation line keeps `M08b` (side condition `OpLower` for accepted
   `mpause` / `mupdate` lines: the id is passed in its stored lower-case form; `opLower_of_lowerIds`);
 * `c08_schedule_inv`, `c08_schedule_next_fails`: the two in the form `Spec.C08.check` composes them.

Structure of the proof (helpers in namespace `Sched`):
 * `Sched.view`: what the scheduler stores about ONE context id (context, new-batch marker, expired-batch marker);
   every handler of the end blocker touches the view of its own id only (`expireCtx_other`, `newBatch_other`) and
   changes it in a way that depends on the view alone (`expireCtx_self`, `newBatch_self`);
 * `Sched.EB`: the nine things an end block can do to one context (`endBlock_view`);
 * the monitor's fold over the context table, entry by entry (`stepF`, `checkSchedule_eq`, `fold_fails`, `fold_mem`);
 * `Sched.Facts` / `stepOK_of_facts`: the eight clauses from the end-block facts and `M08b`;
 * `Sched.InvAt`: `M08b` at one context; `InvAt_endBlock` (end block), `M08b_keeper*` / `M08b_createCtx` /
   `M08b_keeperRespond` (message handlers).
-/
import Irismod.Proofs.ServiceMonitorBase

namespace Irismod.Proofs.ServiceMonitor
open Irismod Irismod.Sdk Irismod.Service Irismod.Spec.C08 Irismod.Proofs.Service

namespace Sched

/-! ### the scheduler's view of one context id -/

/-- the stored context, the new-batch marker and the expired-batch marker of `id` -/
def view (s : State) (id : CtxId) : Option Ctx × Option Int × Option Int :=
  (AMap.get? s.ctxs id, AMap.get? s.newH id, AMap.get? s.expH id)

/-- the context after its batch is completed -/
def doneCtx (c : Ctx) : Ctx := { c with batchState := .completed }

/-- the context after the automatic pause -/
def pausedCtx (c : Ctx) : Ctx := { c with batchState := .completed, state := .paused }

/-- the condition under which `settleCtx` schedules another batch -/
def below (c : Ctx) : Prop := c.total < 0 ∨ (c.batchCounter : Int) < c.total

instance (c : Ctx) : Decidable (below c) := by unfold below; infer_instance

theorem mkRequests_expH (id : CtxId) (b : Nat) (svc : String) (cons : Addr) (to : Int) :
    ∀ (ps : List Addr) (i : Nat) (s : State), (mkRequests s id b svc cons to ps i).expH = s.expH
  | [], _, _ => rfl
  | p :: rest, i, s => by
    simp only [mkRequests]
    rw [mkRequests_expH id b svc cons to rest (i + 1)]
    rfl

theorem expirePhase_snd {s : State} {id : CtxId} {c : Ctx} (hg : AMap.get? s.ctxs id = some c) :
    (expirePhase s id).2 = doneCtx c := by
  unfold expirePhase
  rw [getCtx_of_get? hg]
  split
  · rfl
  · rename_i hd
    have hd' : c.batchState = .completed := Decidable.of_not_not hd
    cases c
    simp only [doneCtx] at hd' ⊢
    rw [hd']

/-- the expired-batch handler of another context leaves the view alone -/
theorem expireCtx_other (s : State) {id id' : CtxId} (hne : id' ≠ id) : view (expireCtx s id') id = view s id := by
  obtain ⟨⟨_, q2, _, q4, _, q6, _⟩, _⟩ := expirePhase_frame s id'
  unfold expireCtx finishExpire view
  simp only [cleanBatch]
  unfold settleCtx
  split
  · simp only [eraseCtx, setCtx, delExp]
    rw [get?_erase_other _ _ _ hne, AMap.get?_set_other _ _ _ _ hne, get?_erase_other _ _ _ hne, q2, q4, q6]
  · split
    · split
      · simp only [addNew, setCtx, delExp]
        rw [AMap.get?_set_other _ _ _ _ hne, AMap.get?_set_other _ _ _ _ hne, get?_erase_other _ _ _ hne, q2, q4, q6]
      · simp only [eraseCtx, setCtx, delExp]
        rw [get?_erase_other _ _ _ hne, AMap.get?_set_other _ _ _ _ hne, get?_erase_other _ _ _ hne, q2, q4, q6]
    · simp only [setCtx, delExp]
      rw [AMap.get?_set_other _ _ _ _ hne, get?_erase_other _ _ _ hne, q2, q4, q6]

/-- the expired-batch handler on its own context: a completed context and a running one that has nothing more
to do are removed, a running repeated one below its total is queued `frequency` blocks after the batch was
issued, a paused one is left alone -/
theorem expireCtx_self {s : State} {id : CtxId} {c : Ctx} (hg : AMap.get? s.ctxs id = some c) :
    view (expireCtx s id) id =
      if c.state = .completed then (none, AMap.get? s.newH id, none)
      else if c.state = .running then
        if c.repeated = true ∧ below c then (some (doneCtx c), some (s.height - c.timeout + (c.freq : Int)), none)
        else (none, AMap.get? s.newH id, none)
      else (some (doneCtx c), AMap.get? s.newH id, none) := by
  obtain ⟨⟨_, q2, _, q4, _, q6, q7⟩, _⟩ := expirePhase_frame s id
  have hp := expirePhase_snd hg
  unfold expireCtx finishExpire view
  simp only [cleanBatch]
  rw [hp]
  unfold settleCtx
  have e1 : (doneCtx c).state = c.state := rfl
  have e2 : (doneCtx c).repeated = c.repeated := rfl
  have e3 : (doneCtx c).total = c.total := rfl
  have e4 : (doneCtx c).batchCounter = c.batchCounter := rfl
  have e5 : (doneCtx c).timeout = c.timeout := rfl
  have e6 : (doneCtx c).freq = c.freq := rfl
  rw [e1, e2, e3, e4, e5, e6]
  split
  · simp only [eraseCtx, setCtx, delExp]
    rw [get?_erase_self, get?_erase_self, q2]
  · split
    · split
      · rename_i hb
        rw [if_pos (show c.repeated = true ∧ below c from hb)]
        simp only [addNew, setCtx, delExp]
        rw [AMap.get?_set_self, AMap.get?_set_self, get?_erase_self, q7]
      · rename_i hb
        rw [if_neg (show ¬ (c.repeated = true ∧ below c) from hb)]
        simp only [eraseCtx, setCtx, delExp]
        rw [get?_erase_self, get?_erase_self, q2]
    · simp only [setCtx, delExp]
      rw [AMap.get?_set_self, get?_erase_self, q2]

theorem onPaused_view (t : State) (id : CtxId) (c : Ctx) (cause : String) :
    (onPaused t id c cause).ctxs = AMap.set t.ctxs id (pausedCtx c) ∧ (onPaused t id c cause).newH = t.newH ∧
    (onPaused t id c cause).expH = t.expH := by
  unfold onPaused; split <;> exact ⟨rfl, rfl, rfl⟩

/-- the new-batch handler of another context leaves the view alone -/
theorem newBatch_other (s : State) {id id' : CtxId} (hne : id' ≠ id) : view (newBatch s id') id = view s id := by
  have hop : ∀ (c : Ctx) (cause : String), view (delNew (onPaused s id' c cause) id' s.height) id = view s id := by
    intro c cause
    obtain ⟨o1, o2, o3⟩ := onPaused_view s id' c cause
    unfold view
    simp only [delNew]
    rw [o1, o2, o3, AMap.get?_set_other _ _ _ _ hne, get?_erase_other _ _ _ hne]
  unfold newBatch
  split
  · split
    · exact hop _ _
    · split
      · unfold chargeAndStart
        split
        · unfold view
          simp only [delNew, addExp, initiateRequests, setCtx]
          rw [AMap.get?_set_other _ _ _ _ hne, get?_erase_other _ _ _ hne, AMap.get?_set_other _ _ _ _ hne,
            (mkRequests_queues _ _ _ _ _ _ _ _).2.2.2, (mkRequests_queues _ _ _ _ _ _ _ _).2.1, mkRequests_expH]
        · exact hop _ _
      · unfold view
        simp only [delNew, skipBatch, addExp, setCtx]
        rw [AMap.get?_set_other _ _ _ _ hne, get?_erase_other _ _ _ hne, AMap.get?_set_other _ _ _ _ hne]
  · unfold view
    simp only [delNew]
    rw [get?_erase_other _ _ _ hne]

/-- the new-batch handler on its own context: the queue entry is dropped; a context that is not running is left
alone; a running one gets its batch (counter + 1, expiry `timeout` blocks ahead) or is paused -/
theorem newBatch_self {s : State} {id : CtxId} {c : Ctx} (hg : AMap.get? s.ctxs id = some c) :
    (c.state ≠ .running ∧ view (newBatch s id) id = (some c, none, AMap.get? s.expH id)) ∨
    (c.state = .running ∧ view (newBatch s id) id = (some (pausedCtx c), none, AMap.get? s.expH id)) ∨
    (c.state = .running ∧ ∃ n, view (newBatch s id) id = (some (startedCtx c n), none, some (s.height + c.timeout))) := by
  have hgc := getCtx_of_get? hg
  have hop : ∀ (cause : String), view (delNew (onPaused s id c cause) id s.height) id =
      (some (pausedCtx c), none, AMap.get? s.expH id) := by
    intro cause
    obtain ⟨o1, o2, o3⟩ := onPaused_view s id c cause
    unfold view
    simp only [delNew]
    rw [o1, o3, AMap.get?_set_self, get?_erase_self]
  unfold newBatch
  rw [hgc]
  split
  · rename_i hrun
    right
    split
    · exact Or.inl ⟨hrun, hop _⟩
    · rename_i provs total _
      split
      · unfold chargeAndStart
        split
        · refine Or.inr ⟨hrun, provs.length, ?_⟩
          unfold view
          simp only [delNew, addExp, initiateRequests, setCtx, getCtx_bank, hgc]
          rw [AMap.get?_set_self, get?_erase_self, AMap.get?_set_self]
        · exact Or.inl ⟨hrun, hop _⟩
      · refine Or.inr ⟨hrun, 0, ?_⟩
        unfold view
        simp only [delNew, skipBatch, addExp, setCtx]
        rw [AMap.get?_set_self, get?_erase_self, AMap.get?_set_self]
  · rename_i hrun
    left
    refine ⟨hrun, ?_⟩
    unfold view
    simp only [delNew]
    rw [get?_erase_self, hg]

/-! ### folds of handlers that touch their own context only -/

theorem view_eq {s : State} {id : CtxId} {a : Option Ctx} {b c : Option Int} :
    view s id = (a, b, c) ↔ AMap.get? s.ctxs id = a ∧ AMap.get? s.newH id = b ∧ AMap.get? s.expH id = c := by
  unfold view
  simp only [Prod.mk.injEq]

theorem view_eq_view {s t : State} {id : CtxId} (h : view s id = view t id) :
    AMap.get? s.ctxs id = AMap.get? t.ctxs id ∧ AMap.get? s.newH id = AMap.get? t.newH id ∧
    AMap.get? s.expH id = AMap.get? t.expH id := view_eq.mp h

theorem foldl_view_not_mem (f : State → CtxId → State)
    (hf : ∀ s id id', id' ≠ id → view (f s id') id = view s id) :
    ∀ (l : List CtxId) (s : State) (id : CtxId), id ∉ l → view (l.foldl f s) id = view s id
  | [], _, _, _ => rfl
  | a :: rest, s, id, hn => by
    simp only [List.foldl]
    rw [foldl_view_not_mem f hf rest (f s a) id (fun h => hn (List.mem_cons_of_mem _ h))]
    exact hf s id a (fun e => hn (e ▸ List.mem_cons_self ..))

/-- the handler of `id` runs exactly once, on a state in which `id` looks as it did before the fold -/
theorem foldl_view_mem (f : State → CtxId → State)
    (hf : ∀ s id id', id' ≠ id → view (f s id') id = view s id) (hh : ∀ s id, (f s id).height = s.height) :
    ∀ (l : List CtxId) (s : State) (id : CtxId), l.Nodup → id ∈ l →
      ∃ s1, view s1 id = view s id ∧ s1.height = s.height ∧ view (l.foldl f s) id = view (f s1 id) id
  | [], _, _, _, hm => by cases hm
  | a :: rest, s, id, hn, hm => by
    rw [List.nodup_cons] at hn
    simp only [List.foldl]
    by_cases ha : a = id
    · subst ha
      exact ⟨s, rfl, rfl, foldl_view_not_mem f hf rest (f s a) a hn.1⟩
    · have hm' : id ∈ rest := by
        rcases List.mem_cons.mp hm with h | h
        · exact absurd h.symm ha
        · exact h
      obtain ⟨s1, h1, h2, h3⟩ := foldl_view_mem f hf hh rest (f s a) id hn.2 hm'
      exact ⟨s1, h1.trans (hf s id a ha), h2.trans (hh s a), h3⟩

theorem expiredPhase_view {s : State} (hs : WF s) (id : CtxId) :
    (AMap.get? s.expH id ≠ some s.height → view (expiredPhase s) id = view s id) ∧
    (AMap.get? s.expH id = some s.height → ∀ c, AMap.get? s.ctxs id = some c →
      view (expiredPhase s) id =
        if c.state = .completed then (none, AMap.get? s.newH id, none)
        else if c.state = .running then
          if c.repeated = true ∧ below c then (some (doneCtx c), some (s.height - c.timeout + (c.freq : Int)), none)
          else (none, AMap.get? s.newH id, none)
        else (some (doneCtx c), AMap.get? s.newH id, none)) := by
  have hdue : id ∈ dueIds s.expQ s.height ↔ AMap.get? s.expH id = some s.height := by
    rw [mem_dueIds]; exact ⟨hs.expM.1 _ _, hs.expM.2 _ _⟩
  unfold expiredPhase
  constructor
  · intro hn
    exact foldl_view_not_mem expireCtx (fun s id id' h => expireCtx_other s h) _ s id (fun hm => hn (hdue.mp hm))
  · intro hn c hg
    obtain ⟨s0, h1, h2, h3⟩ := foldl_view_mem expireCtx (fun s id id' h => expireCtx_other s h) expireCtx_height _ s id
      (nodup_dueIds _ _ hs.expND) (hdue.mpr hn)
    obtain ⟨g1, g2, _⟩ := view_eq_view h1
    rw [h3, expireCtx_self (g1.trans hg), g2, h2]

theorem newPhase_view {s1 : State} (w1 : WF s1) (id : CtxId) :
    (AMap.get? s1.newH id ≠ some s1.height → view (newPhase s1) id = view s1 id) ∧
    (AMap.get? s1.newH id = some s1.height → ∀ c1, AMap.get? s1.ctxs id = some c1 →
      (c1.state ≠ .running ∧ view (newPhase s1) id = (some c1, none, AMap.get? s1.expH id)) ∨
      (c1.state = .running ∧ view (newPhase s1) id = (some (pausedCtx c1), none, AMap.get? s1.expH id)) ∨
      (c1.state = .running ∧ ∃ n, view (newPhase s1) id = (some (startedCtx c1 n), none, some (s1.height + c1.timeout)))) := by
  have hdue : id ∈ dueIds s1.newQ s1.height ↔ AMap.get? s1.newH id = some s1.height := by
    rw [mem_dueIds]; exact ⟨w1.newM.1 _ _, w1.newM.2 _ _⟩
  unfold newPhase
  constructor
  · intro hn
    exact foldl_view_not_mem newBatch (fun s id id' h => newBatch_other s h) _ s1 id (fun hm => hn (hdue.mp hm))
  · intro hn c1 hg
    obtain ⟨s0, h1, h2, h3⟩ := foldl_view_mem newBatch (fun s id id' h => newBatch_other s h) newBatch_height _ s1 id
      (nodup_dueIds _ _ w1.newND) (hdue.mpr hn)
    obtain ⟨g1, _, g3⟩ := view_eq_view h1
    rw [h3]
    have := newBatch_self (g1.trans hg)
    rw [g3, h2] at this
    exact this

/-! ### what one end block does to one context -/

/-- the nine outcomes of `EndBlocker` at height `h` for a stored context `c` with new-batch marker `nh` and
expired-batch marker `eh`; the index is the view afterwards -/
inductive EB (h : Int) (c : Ctx) (nh eh : Option Int) : Option Ctx × Option Int × Option Int → Prop
  | idle (h1 : eh ≠ some h) (h2 : nh ≠ some h) : EB h c nh eh (some c, nh, eh)
  | drop (h1 : eh = none) (h2 : nh = some h) (h3 : c.state ≠ .running) : EB h c nh eh (some c, none, none)
  | start (n : Nat) (h1 : eh = none) (h2 : nh = some h) (h3 : c.state = .running) :
      EB h c nh eh (some (startedCtx c n), none, some (h + c.timeout))
  | pause (h1 : eh = none) (h2 : nh = some h) (h3 : c.state = .running) : EB h c nh eh (some (pausedCtx c), none, none)
  | gone (h1 : eh = some h) (h2 : nh = none)
      (h3 : c.state = .completed ∨ (c.state = .running ∧ ¬ (c.repeated = true ∧ below c))) : EB h c nh eh (none, none, none)
  | held (h1 : eh = some h) (h2 : nh = none) (h3 : c.state = .paused) : EB h c nh eh (some (doneCtx c), none, none)
  | requeue (h1 : eh = some h) (h2 : nh = none) (h3 : c.state = .running) (h4 : c.repeated = true) (h5 : below c)
      (h6 : h - c.timeout + (c.freq : Int) ≠ h) :
      EB h c nh eh (some (doneCtx c), some (h - c.timeout + (c.freq : Int)), none)
  | restart (n : Nat) (h1 : eh = some h) (h2 : nh = none) (h3 : c.state = .running) (h4 : c.repeated = true)
      (h5 : below c) (h6 : h - c.timeout + (c.freq : Int) = h) :
      EB h c nh eh (some (startedCtx (doneCtx c) n), none, some (h + c.timeout))
  | repause (h1 : eh = some h) (h2 : nh = none) (h3 : c.state = .running) (h4 : c.repeated = true)
      (h5 : below c) (h6 : h - c.timeout + (c.freq : Int) = h) : EB h c nh eh (some (pausedCtx (doneCtx c)), none, none)

theorem endBlock_view {s : State} (hs : WF s) (id : CtxId) :
    (AMap.get? s.ctxs id = none → view (endBlock s) id = (none, none, none)) ∧
    (∀ c, AMap.get? s.ctxs id = some c →
      EB s.height c (AMap.get? s.newH id) (AMap.get? s.expH id) (view (endBlock s) id)) := by
  obtain ⟨w1, w2, _⟩ := WF_expiredPhase hs
  obtain ⟨x1, x2⟩ := expiredPhase_view hs id
  obtain ⟨y1, y2⟩ := newPhase_view w1 id
  rw [w2] at y1 y2
  -- a marker of one kind excludes the other
  have hexcl1 : ∀ v, AMap.get? s.newH id = some v → AMap.get? s.expH id = none := fun v hv =>
    (contains_false_iff _ _).mp (hs.excl id ((contains_iff _ _).mpr ⟨v, hv⟩))
  have hexcl2 : ∀ v, AMap.get? s.expH id = some v → AMap.get? s.newH id = none := by
    intro v hv
    cases hn : AMap.get? s.newH id with
    | none => rfl
    | some w => rw [hexcl1 w hn] at hv; cases hv
  unfold endBlock
  constructor
  · intro hg
    have hn : AMap.get? s.newH id = none := by
      cases hn : AMap.get? s.newH id with
      | none => rfl
      | some w =>
        have := hs.live id (Or.inl ((contains_iff _ _).mpr ⟨w, hn⟩))
        rw [contains_iff] at this
        obtain ⟨c, hc⟩ := this
        rw [hg] at hc; cases hc
    have he : AMap.get? s.expH id = none := by
      cases he : AMap.get? s.expH id with
      | none => rfl
      | some w =>
        have := hs.live id (Or.inr ((contains_iff _ _).mpr ⟨w, he⟩))
        rw [contains_iff] at this
        obtain ⟨c, hc⟩ := this
        rw [hg] at hc; cases hc
    have v1 : view (expiredPhase s) id = (none, none, none) := by
      rw [x1 (by rw [he]; intro h; cases h)]
      exact view_eq.mpr ⟨hg, hn, he⟩
    obtain ⟨_, g2, _⟩ := view_eq.mp v1
    rw [y1 (by rw [g2]; intro h; cases h)]
    exact v1
  · intro c hg
    by_cases he : AMap.get? s.expH id = some s.height
    · -- the batch expires now
      have hn := hexcl2 _ he
      have v1 := x2 he c hg
      rw [hn] at v1
      by_cases hc : c.state = .completed
      · rw [if_pos hc] at v1
        obtain ⟨_, g2, _⟩ := view_eq.mp v1
        rw [y1 (by rw [g2]; intro h; cases h), v1]
        exact EB.gone he hn (Or.inl hc)
      · rw [if_neg hc] at v1
        by_cases hr : c.state = .running
        · rw [if_pos hr] at v1
          by_cases hb : c.repeated = true ∧ below c
          · rw [if_pos hb] at v1
            obtain ⟨g1, g2, g3⟩ := view_eq.mp v1
            by_cases h6 : s.height - c.timeout + (c.freq : Int) = s.height
            · rcases y2 (by rw [g2, h6]) (doneCtx c) g1 with ⟨k1, _⟩ | ⟨_, k2⟩ | ⟨_, n, k2⟩
              · exact absurd hr k1
              · rw [k2, g3]; exact EB.repause he hn hr hb.1 hb.2 h6
              · rw [k2]; exact EB.restart n he hn hr hb.1 hb.2 h6
            · rw [y1 (by rw [g2]; intro h; exact h6 (Option.some.inj h)), v1]
              exact EB.requeue he hn hr hb.1 hb.2 h6
          · rw [if_neg hb] at v1
            obtain ⟨_, g2, _⟩ := view_eq.mp v1
            rw [y1 (by rw [g2]; intro h; cases h), v1]
            exact EB.gone he hn (Or.inr ⟨hr, hb⟩)
        · rw [if_neg hr] at v1
          have hp : c.state = .paused := by
            cases hst : c.state with
            | running => exact absurd hst hr
            | paused => rfl
            | completed => exact absurd hst hc
          obtain ⟨_, g2, _⟩ := view_eq.mp v1
          rw [y1 (by rw [g2]; intro h; cases h), v1]
          exact EB.held he hn hp
    · -- no expiry
      have v1 := x1 he
      obtain ⟨g1, g2, g3⟩ := view_eq_view v1
      by_cases hn : AMap.get? s.newH id = some s.height
      · have hee := hexcl1 _ hn
        rcases y2 (g2.trans hn) c (g1.trans hg) with ⟨k1, k2⟩ | ⟨k1, k2⟩ | ⟨k1, n, k2⟩
        · rw [g3, hee] at k2; rw [k2]; exact EB.drop hee hn k1
        · rw [g3, hee] at k2; rw [k2]; exact EB.pause hee hn k1
        · rw [k2]; exact EB.start n hee hn k1
      · rw [y1 (by rw [g2]; exact hn), v1]
        have : view s id = (some c, AMap.get? s.newH id, AMap.get? s.expH id) := view_eq.mpr ⟨hg, rfl, rfl⟩
        rw [this]
        exact EB.idle he hn

/-! ### the monitor's fold over the context table, entry by entry -/

/-- `issued`: the batch counter of the entry advanced by one -/
def issuedB (post : State) (e : CtxId × Ctx) : Bool :=
  match AMap.get? post.ctxs e.1 with
  | some c' => c'.batchCounter == e.2.batchCounter + 1
  | none => false

/-- `counterOk`: the batch counter stayed or advanced by one (or the context is gone) -/
def counterOkB (post : State) (e : CtxId × Ctx) : Bool :=
  match AMap.get? post.ctxs e.1 with
  | some c' => c'.batchCounter == e.2.batchCounter || issuedB post e
  | none => true

/-- `pausedNow`: the context is paused afterwards -/
def pausedNowB (post : State) (e : CtxId × Ctx) : Bool :=
  match AMap.get? post.ctxs e.1 with
  | some c' => c'.state = .paused
  | none => false

/-- `clean`: neither "modified" nor "paused since" -/
def cleanB (mm : Mon) (id : CtxId) : Bool := !(mm.modified.contains id) && !(mm.pausedSince.contains id)

/-- `due`: the monitor expects a batch of this entry in this block -/
def dueB (h : Int) (mm : Mon) (e : CtxId × Ctx) : Bool :=
  e.2.repeated && e.2.state = .running && cleanB mm e.1 && decide (1 ≤ e.2.batchCounter) &&
    (decide (e.2.total < (0 : Int)) || decide ((e.2.batchCounter : Int) < e.2.total)) &&
    AMap.get? mm.lastBatchH e.1 == some (h - (e.2.freq : Int))

/-- the memory update of one fold step -/
def stepMon (h : Int) (post : State) (mm : Mon) (e : CtxId × Ctx) : Mon :=
  let mm1 : Mon := if issuedB post e then issuedMon mm e.1 h else mm
  if pausedNowB post e ∧ !(mm1.pausedSince.contains e.1) then { mm1 with pausedSince := e.1 :: mm1.pausedSince } else mm1

/-- one fold step of `checkSchedule`, written with the named parts above (`checkSchedule_eq`: it IS the
spec's step function, by `rfl`) -/
def stepF (pre post : State) (acc : Mon × List Fail) (e : CtxId × Ctx) : Mon × List Fail :=
  (stepMon pre.height post acc.1 e,
   acc.2 ++
   (if counterOkB post e then [] else [{ clause := "batch-counter-step" : Fail }]) ++
   (if issuedB post e ∧ e.2.state ≠ .running then [{ clause := "batch-only-while-running" : Fail }] else []) ++
   (if issuedB post e ∧ e.2.repeated ∧ cleanB acc.1 e.1 ∧ 1 ≤ e.2.batchCounter ∧
        AMap.get? acc.1.lastBatchH e.1 ≠ some (pre.height - (e.2.freq : Int))
      then [{ clause := "batch-exactly-frequency-after-previous" : Fail }] else []) ++
   (if issuedB post e ∧ e.2.repeated ∧ !(acc.1.modified.contains e.1) ∧ (0 : Int) ≤ e.2.total ∧ e.2.total ≤ (e.2.batchCounter : Int)
      then [{ clause := "batch-beyond-total" : Fail }] else []) ++
   (if issuedB post e ∧ !e.2.repeated ∧ 1 ≤ e.2.batchCounter then [{ clause := "one-shot-second-batch" : Fail }] else []) ++
   (if dueB pre.height acc.1 e ∧ !issuedB post e ∧ !pausedNowB post e then [{ clause := "batch-due-not-issued" : Fail }] else []) ++
   (if !e.2.repeated ∧ AMap.get? pre.expH e.1 = some pre.height ∧ (AMap.get? post.ctxs e.1).isSome
      then [{ clause := "one-shot-removed-at-expiry" : Fail }] else []) ++
   (if e.2.state = .running ∧ AMap.get? pre.newH e.1 = some pre.height ∧ pre.newQ.contains (pre.height, e.1) ∧
        !issuedB post e ∧ !pausedNowB post e
      then [{ clause := "queued-batch-issued" : Fail }] else []))

theorem checkSchedule_eq (m : Mon) (pre post : State) :
    checkSchedule m pre post = pre.ctxs.foldl (stepF pre post) (m, []) := rfl

/-- the eight clauses at one entry, for the memory `mm` the fold has reached -/
structure StepOK (pre post : State) (mm : Mon) (e : CtxId × Ctx) : Prop where
  f1 : counterOkB post e = true
  f2 : ¬ (issuedB post e = true ∧ e.2.state ≠ .running)
  f3 : ¬ (issuedB post e = true ∧ e.2.repeated = true ∧ cleanB mm e.1 = true ∧ 1 ≤ e.2.batchCounter ∧
          AMap.get? mm.lastBatchH e.1 ≠ some (pre.height - (e.2.freq : Int)))
  f4 : ¬ (issuedB post e = true ∧ e.2.repeated = true ∧ (!(mm.modified.contains e.1)) = true ∧ (0 : Int) ≤ e.2.total ∧
          e.2.total ≤ (e.2.batchCounter : Int))
  f5 : ¬ (issuedB post e = true ∧ (!e.2.repeated) = true ∧ 1 ≤ e.2.batchCounter)
  f6 : ¬ (dueB pre.height mm e = true ∧ (!issuedB post e) = true ∧ (!pausedNowB post e) = true)
  f7 : ¬ ((!e.2.repeated) = true ∧ AMap.get? pre.expH e.1 = some pre.height ∧ (AMap.get? post.ctxs e.1).isSome = true)
  f8 : ¬ (e.2.state = .running ∧ AMap.get? pre.newH e.1 = some pre.height ∧ pre.newQ.contains (pre.height, e.1) = true ∧
          (!issuedB post e) = true ∧ (!pausedNowB post e) = true)

theorem stepF_fst (pre post : State) (acc : Mon × List Fail) (e : CtxId × Ctx) :
    (stepF pre post acc e).1 = stepMon pre.height post acc.1 e := rfl

/-- one step adds no failure when all eight clauses hold -/
theorem stepF_ok {pre post : State} {acc : Mon × List Fail} {e : CtxId × Ctx} (hacc : acc.2 = [])
    (h : StepOK pre post acc.1 e) : (stepF pre post acc e).2 = [] := by
  unfold stepF
  simp only [hacc, h.f1, if_true, if_neg h.f2, if_neg h.f3, if_neg h.f4, if_neg h.f5, if_neg h.f6, if_neg h.f7, if_neg h.f8,
    List.append_nil]

/-- the memory about `id`, as far as the clauses read it -/
def MemAt (m mm : Mon) (id : CtxId) : Prop :=
  mm.modified = m.modified ∧ AMap.get? mm.lastBatchH id = AMap.get? m.lastBatchH id ∧
  (id ∈ mm.pausedSince ↔ id ∈ m.pausedSince)

theorem MemAt.refl (m : Mon) (id : CtxId) : MemAt m m id := ⟨rfl, rfl, Iff.rfl⟩

theorem MemAt.trans {a b c : Mon} {id : CtxId} (h1 : MemAt a b id) (h2 : MemAt b c id) : MemAt a c id :=
  ⟨h2.1.trans h1.1, h2.2.1.trans h1.2.1, h2.2.2.trans h1.2.2⟩

/-- the step for entry `e` changes the memory about `e.1` only -/
theorem stepMon_other (h : Int) (post : State) (mm : Mon) (e : CtxId × Ctx) {id : CtxId} (hne : id ≠ e.1) :
    MemAt mm (stepMon h post mm e) id := by
  have h1 : ∀ x : Mon, MemAt x (if pausedNowB post e = true ∧ (!(x.pausedSince.contains e.1)) = true
      then { x with pausedSince := e.1 :: x.pausedSince } else x) id := by
    intro x
    split
    · refine ⟨rfl, rfl, ?_⟩
      simp only [List.mem_cons]
      constructor
      · rintro (h | h)
        · exact absurd h hne
        · exact h
      · exact Or.inr
    · exact MemAt.refl _ _
  have h0 : MemAt mm (if issuedB post e = true then issuedMon mm e.1 h else mm) id := by
    split
    · refine ⟨rfl, ?_, ?_⟩
      · simp only [issuedMon]
        exact AMap.get?_set_other _ _ _ _ (Ne.symm hne)
      · simp only [issuedMon, List.mem_filter, ne_eq, decide_eq_true_eq]
        exact ⟨fun h => h.1, fun h => ⟨h, hne⟩⟩
    · exact MemAt.refl _ _
  unfold stepMon
  exact h0.trans (h1 _)

/-- … and about `e.1`: a batch issued now is remembered (and ends "paused since"), a context paused now is
"paused since" -/
theorem stepMon_self (h : Int) (post : State) (mm : Mon) (e : CtxId × Ctx) :
    (stepMon h post mm e).modified = mm.modified ∧
    AMap.get? (stepMon h post mm e).lastBatchH e.1 = (if issuedB post e = true then some h else AMap.get? mm.lastBatchH e.1) ∧
    (e.1 ∈ (stepMon h post mm e).pausedSince ↔ pausedNowB post e = true ∨ (issuedB post e = false ∧ e.1 ∈ mm.pausedSince)) := by
  have h1 : ∀ x : Mon,
      (if pausedNowB post e = true ∧ (!(x.pausedSince.contains e.1)) = true
        then { x with pausedSince := e.1 :: x.pausedSince } else x).modified = x.modified ∧
      (if pausedNowB post e = true ∧ (!(x.pausedSince.contains e.1)) = true
        then { x with pausedSince := e.1 :: x.pausedSince } else x).lastBatchH = x.lastBatchH ∧
      (e.1 ∈ (if pausedNowB post e = true ∧ (!(x.pausedSince.contains e.1)) = true
        then { x with pausedSince := e.1 :: x.pausedSince } else x).pausedSince ↔ pausedNowB post e = true ∨ e.1 ∈ x.pausedSince) := by
    intro x
    split
    · rename_i hc
      refine ⟨rfl, rfl, ?_⟩
      simp only [List.mem_cons, true_or, true_iff]
      exact Or.inl hc.1
    · rename_i hc
      refine ⟨rfl, rfl, ?_⟩
      constructor
      · exact Or.inr
      · rintro (hp | hp)
        · by_cases hx : e.1 ∈ x.pausedSince
          · exact hx
          · exfalso; apply hc
            refine ⟨hp, ?_⟩
            simp only [Bool.not_eq_true', List.contains_eq_mem, decide_eq_false_iff_not]
            exact hx
        · exact hp
  unfold stepMon
  obtain ⟨a1, a2, a3⟩ := h1 (if issuedB post e = true then issuedMon mm e.1 h else mm)
  refine ⟨a1.trans ?_, ?_, a3.trans ?_⟩
  · split <;> rfl
  · rw [a2]
    split
    · simp only [issuedMon]; exact AMap.get?_set_self _ _ _
    · rfl
  · cases hi : issuedB post e
    · simp
    · simp [issuedMon]

theorem fold_fst_modified (pre post : State) :
    ∀ (l : List (CtxId × Ctx)) (acc : Mon × List Fail), (l.foldl (stepF pre post) acc).1.modified = acc.1.modified
  | [], _ => rfl
  | e :: rest, acc => by
    simp only [List.foldl]
    rw [fold_fst_modified pre post rest, stepF_fst]
    exact (stepMon_self _ _ _ _).1

/-- **no failure in the fold** if every entry's clauses hold for any memory that agrees with the initial one
about that entry's id -/
theorem fold_fails (pre post : State) (m : Mon) :
    ∀ (l : List (CtxId × Ctx)) (acc : Mon × List Fail), (l.map (·.1)).Nodup → acc.2 = [] →
      (∀ e, e ∈ l → MemAt m acc.1 e.1) →
      (∀ e, e ∈ l → ∀ mm, MemAt m mm e.1 → StepOK pre post mm e) →
      (l.foldl (stepF pre post) acc).2 = []
  | [], _, _, hacc, _, _ => hacc
  | e :: rest, acc, hn, hacc, hag, hok => by
    rw [List.map_cons, List.nodup_cons] at hn
    simp only [List.foldl]
    refine fold_fails pre post m rest _ hn.2
      (stepF_ok hacc (hok e (List.mem_cons_self ..) acc.1 (hag e (List.mem_cons_self ..)))) ?_
      (fun e' he' => hok e' (List.mem_cons_of_mem _ he'))
    intro e' he'
    rw [stepF_fst]
    refine (hag e' (List.mem_cons_of_mem _ he')).trans (stepMon_other _ _ _ _ ?_)
    intro heq
    exact hn.1 (List.mem_map.mpr ⟨e', he', heq⟩)

/-- **the memory after the fold** -/
theorem fold_mem (pre post : State) :
    ∀ (l : List (CtxId × Ctx)) (acc : Mon × List Fail), (l.map (·.1)).Nodup →
      (∀ id, (∀ e, e ∈ l → e.1 ≠ id) → MemAt acc.1 (l.foldl (stepF pre post) acc).1 id) ∧
      (∀ e, e ∈ l →
        AMap.get? (l.foldl (stepF pre post) acc).1.lastBatchH e.1 =
          (if issuedB post e = true then some pre.height else AMap.get? acc.1.lastBatchH e.1) ∧
        (e.1 ∈ (l.foldl (stepF pre post) acc).1.pausedSince ↔
          pausedNowB post e = true ∨ (issuedB post e = false ∧ e.1 ∈ acc.1.pausedSince)))
  | [], acc, _ => ⟨fun id _ => MemAt.refl _ _, fun e he => by cases he⟩
  | e :: rest, acc, hn => by
    rw [List.map_cons, List.nodup_cons] at hn
    obtain ⟨ih1, ih2⟩ := fold_mem pre post rest (stepF pre post acc e) hn.2
    simp only [List.foldl]
    constructor
    · intro id hid
      have h1 := ih1 id (fun e' he' => hid e' (List.mem_cons_of_mem _ he'))
      rw [stepF_fst] at h1
      exact (stepMon_other _ _ _ _ (Ne.symm (hid e (List.mem_cons_self ..)))).trans h1
    · intro e0 he0
      rcases List.mem_cons.mp he0 with heq | hmem
      · subst heq
        have h1 := ih1 e0.1 (fun e' he' heq => hn.1 (List.mem_map.mpr ⟨e', he', heq⟩))
        rw [stepF_fst] at h1
        obtain ⟨_, s2, s3⟩ := stepMon_self pre.height post acc.1 e0
        exact ⟨h1.2.1.trans s2, h1.2.2.trans s3⟩
      · have hne : e0.1 ≠ e.1 := fun heq => hn.1 (List.mem_map.mpr ⟨e0, hmem, heq⟩)
        obtain ⟨k1, k2⟩ := ih2 e0 hmem
        rw [stepF_fst] at k1 k2
        obtain ⟨_, o2, o3⟩ := stepMon_other pre.height post acc.1 e hne
        rw [o2] at k1
        rw [o3] at k2
        exact ⟨k1, k2⟩

/-! ### what the clauses need to know about one end block -/

theorem evalB_none {post : State} {e : CtxId × Ctx} (h : AMap.get? post.ctxs e.1 = none) :
    issuedB post e = false ∧ pausedNowB post e = false ∧ counterOkB post e = true := by
  unfold counterOkB issuedB pausedNowB
  rw [h]
  exact ⟨rfl, rfl, rfl⟩

theorem evalB_some {post : State} {e : CtxId × Ctx} {c' : Ctx} (h : AMap.get? post.ctxs e.1 = some c') :
    issuedB post e = (c'.batchCounter == e.2.batchCounter + 1) ∧ pausedNowB post e = decide (c'.state = .paused) ∧
    counterOkB post e = (c'.batchCounter == e.2.batchCounter || c'.batchCounter == e.2.batchCounter + 1) := by
  unfold counterOkB issuedB pausedNowB
  rw [h]
  exact ⟨rfl, rfl, rfl⟩

/-- the facts about one end block that the eight clauses use -/
structure Facts (h : Int) (c : Ctx) (nh eh : Option Int) (iss pn cok st : Bool) : Prop where
  cok : cok = true
  run : iss = true → c.state = .running
  why : iss = true → (nh = some h ∧ eh = none) ∨
          (eh = some h ∧ nh = none ∧ h - c.timeout + (c.freq : Int) = h ∧ c.repeated = true ∧ below c)
  due : c.state = .running → iss = false → pn = false →
          (eh ≠ some h ∧ nh ≠ some h) ∨ (eh = some h ∧ ¬ (c.repeated = true ∧ below c)) ∨
          (eh = some h ∧ nh = none ∧ h - c.timeout + (c.freq : Int) ≠ h)
  rem : eh = some h → st = true → c.state = .paused ∨ c.repeated = true

theorem facts_of_EB {h : Int} {c : Ctx} {nh eh : Option Int} {v : Option Ctx × Option Int × Option Int}
    (heb : EB h c nh eh v) {post : State} {id : CtxId} (hv : AMap.get? post.ctxs id = v.1) :
    Facts h c nh eh (issuedB post (id, c)) (pausedNowB post (id, c)) (counterOkB post (id, c))
      (AMap.get? post.ctxs id).isSome := by
  have hsucc : ∀ n : Nat, (n == n + 1) = false := fun n => by simp
  cases heb with
  | idle h1 h2 =>
    obtain ⟨e1, e2, e3⟩ := evalB_some (e := (id, c)) hv
    rw [e1, e2, e3, hv]
    simp only [hsucc, beq_self_eq_true, Bool.or_false]
    refine ⟨rfl, (fun h => nomatch h), (fun h => nomatch h), fun _ _ _ => Or.inl ⟨h1, h2⟩, fun h => absurd h h1⟩
  | drop h1 h2 h3 =>
    obtain ⟨e1, e2, e3⟩ := evalB_some (e := (id, c)) hv
    rw [e1, e2, e3, hv]
    simp only [hsucc, beq_self_eq_true, Bool.or_false]
    refine ⟨rfl, (fun h => nomatch h), (fun h => nomatch h), fun h => absurd h h3, (fun h => by rw [h1] at h; cases h)⟩
  | start n h1 h2 h3 =>
    obtain ⟨e1, e2, e3⟩ := evalB_some (e := (id, c)) hv
    rw [e1, e2, e3, hv]
    simp only [startedCtx, beq_self_eq_true, Bool.or_true]
    refine ⟨rfl, fun _ => h3, fun _ => Or.inl ⟨h2, h1⟩, (fun _ h => nomatch h), (fun h => by rw [h1] at h; cases h)⟩
  | pause h1 h2 h3 =>
    obtain ⟨e1, e2, e3⟩ := evalB_some (e := (id, c)) hv
    rw [e1, e2, e3, hv]
    simp only [pausedCtx, hsucc, beq_self_eq_true, Bool.or_false, decide_true]
    refine ⟨rfl, (fun h => nomatch h), (fun h => nomatch h), (fun _ _ h => nomatch h), (fun h => by rw [h1] at h; cases h)⟩
  | gone h1 h2 h3 =>
    obtain ⟨e1, e2, e3⟩ := evalB_none (e := (id, c)) hv
    rw [e1, e2, e3, hv]
    refine ⟨rfl, (fun h => nomatch h), (fun h => nomatch h), ?_, (fun _ h => nomatch h)⟩
    intro hr _ _
    rcases h3 with h3 | h3
    · rw [hr] at h3; cases h3
    · exact Or.inr (Or.inl ⟨h1, h3.2⟩)
  | held h1 h2 h3 =>
    obtain ⟨e1, e2, e3⟩ := evalB_some (e := (id, c)) hv
    rw [e1, e2, e3, hv]
    simp only [doneCtx, hsucc, beq_self_eq_true, Bool.or_false]
    refine ⟨rfl, (fun h => nomatch h), (fun h => nomatch h), (fun hr => by rw [hr] at h3; cases h3), fun _ _ => Or.inl h3⟩
  | requeue h1 h2 h3 h4 h5 h6 =>
    obtain ⟨e1, e2, e3⟩ := evalB_some (e := (id, c)) hv
    rw [e1, e2, e3, hv]
    simp only [doneCtx, hsucc, beq_self_eq_true, Bool.or_false]
    refine ⟨rfl, (fun h => nomatch h), (fun h => nomatch h), fun _ _ _ => Or.inr (Or.inr ⟨h1, h2, h6⟩), fun _ _ => Or.inr h4⟩
  | restart n h1 h2 h3 h4 h5 h6 =>
    obtain ⟨e1, e2, e3⟩ := evalB_some (e := (id, c)) hv
    rw [e1, e2, e3, hv]
    simp only [startedCtx, doneCtx, beq_self_eq_true, Bool.or_true]
    refine ⟨rfl, fun _ => h3, fun _ => Or.inr ⟨h1, h2, h6, h4, h5⟩, (fun _ h => nomatch h), fun _ _ => Or.inr h4⟩
  | repause h1 h2 h3 h4 h5 h6 =>
    obtain ⟨e1, e2, e3⟩ := evalB_some (e := (id, c)) hv
    rw [e1, e2, e3, hv]
    simp only [pausedCtx, doneCtx, hsucc, beq_self_eq_true, Bool.or_false, decide_true]
    refine ⟨rfl, (fun h => nomatch h), (fun h => nomatch h), (fun _ _ h => nomatch h), fun _ _ => Or.inr h4⟩

end Sched

open Sched

/-! ### the schedule memory -/

/-- **the schedule memory**: what `lastBatchH`, `modified` and `pausedSince` say about the scheduler state.
 * `paused`: every paused context is "paused since" (until its next batch is issued);
 * `sched`: for a running repeated context that was never updated, is not "paused since" and has issued a batch,
   the height `h0` of its last batch is remembered, and the scheduler either awaits the expiry of that batch at
   `h0 + timeout` or has queued the next batch for `h0 + frequency`;
 * `total`: a repeated context that was never updated has a non-zero total and waits for a new batch only while
   below its total;
 * `oneShot`: a non-repeated context that has issued its batch waits for no other, and a paused one has issued
   none and awaits no expiry. -/
structure M08b (m : Mon) (s : State) : Prop where
  paused  : ∀ id c, AMap.get? s.ctxs id = some c → c.state = .paused → id ∈ m.pausedSince
  sched   : ∀ id c, AMap.get? s.ctxs id = some c → c.state = .running → c.repeated = true → id ∉ m.modified →
              id ∉ m.pausedSince → 1 ≤ c.batchCounter →
              ∃ h0 : Int, AMap.get? m.lastBatchH id = some h0 ∧
                (AMap.get? s.expH id = some (h0 + c.timeout) ∨ AMap.get? s.newH id = some (h0 + (c.freq : Int)))
  total   : ∀ id c, AMap.get? s.ctxs id = some c → c.repeated = true → id ∉ m.modified →
              c.total ≠ 0 ∧ (AMap.contains s.newH id = true → 1 ≤ c.total → (c.batchCounter : Int) < c.total)
  oneShot : ∀ id c, AMap.get? s.ctxs id = some c → c.repeated = false →
              (1 ≤ c.batchCounter → AMap.get? s.newH id = none) ∧
              (c.state = .paused → c.batchCounter = 0 ∧ AMap.get? s.expH id = none)

theorem M08b.congr {m m' : Mon} {s : State} (h : M08b m s) (e1 : m'.lastBatchH = m.lastBatchH)
    (e2 : m'.modified = m.modified) (e3 : m'.pausedSince = m.pausedSince) : M08b m' s :=
  ⟨by rw [e3]; exact h.paused, by rw [e1, e2, e3]; exact h.sched, by rw [e2]; exact h.total, h.oneShot⟩

/-- holds when no context exists yet (the state of a `service reset` line) -/
theorem M08b.init {s : State} (h : s.ctxs = []) : M08b {} s := by
  have hn : ∀ id, AMap.get? s.ctxs id = none := fun id => by rw [h]; rfl
  refine ⟨?_, ?_, ?_, ?_⟩ <;> intro id c hg <;> (rw [hn id] at hg; cases hg)

namespace Sched

theorem cleanB_iff (mm : Mon) (id : CtxId) : cleanB mm id = true ↔ id ∉ mm.modified ∧ id ∉ mm.pausedSince := by
  unfold cleanB
  simp only [Bool.and_eq_true, Bool.not_eq_true', List.contains_eq_mem, decide_eq_false_iff_not]

theorem notContains_iff (l : List CtxId) (id : CtxId) : (!(l.contains id)) = true ↔ id ∉ l := by
  simp only [Bool.not_eq_true', List.contains_eq_mem, decide_eq_false_iff_not]

/-- **the eight clauses at one entry** follow from the facts about the end block and the memory invariant -/
theorem stepOK_of_facts {pre post : State} {m mm : Mon} {id : CtxId} {c : Ctx}
    (hw : WF pre) (hns : Irismod.Spec.C13S.NoStale pre) (hok : CtxOk c)
    (hg : AMap.get? pre.ctxs id = some c) (hm : M08b m pre) (hag : MemAt m mm id)
    (hf : Facts pre.height c (AMap.get? pre.newH id) (AMap.get? pre.expH id) (issuedB post (id, c))
      (pausedNowB post (id, c)) (counterOkB post (id, c)) (AMap.get? post.ctxs id).isSome) :
    StepOK pre post mm (id, c) := by
  obtain ⟨a1, a2, a3⟩ := hag
  have hexcl : ∀ v, AMap.get? pre.newH id = some v → AMap.get? pre.expH id = none := fun v hv =>
    (contains_false_iff _ _).mp (hw.excl id ((contains_iff _ _).mpr ⟨v, hv⟩))
  refine ⟨hf.cok, ?_, ?_, ?_, ?_, ?_, ?_, ?_⟩
  · -- f2
    rintro ⟨hi, hr⟩
    exact hr (hf.run hi)
  · -- f3
    rintro ⟨hi, hrep, hcl, hcnt, hlast⟩
    rw [cleanB_iff, a1, a3] at hcl
    obtain ⟨h0, hl, hmk⟩ := hm.sched id c hg (hf.run hi) hrep hcl.1 hcl.2 hcnt
    apply hlast
    show AMap.get? mm.lastBatchH id = some (pre.height - (c.freq : Int))
    rw [a2, hl]
    rcases hf.why hi with ⟨hn, he⟩ | ⟨he, hn, h6, _, _⟩
    · rcases hmk with k | k
      · rw [he] at k; cases k
      · rw [hn] at k
        have := Option.some.inj k
        congr 1; omega
    · rcases hmk with k | k
      · rw [he] at k
        have := Option.some.inj k
        congr 1; omega
      · rw [hn] at k; cases k
  · -- f4
    rintro ⟨hi, hrep, hnm, h0, hle⟩
    rw [notContains_iff, a1] at hnm
    obtain ⟨ht0, hbt⟩ := hm.total id c hg hrep hnm
    have h0' : (0 : Int) ≤ c.total := h0
    have hle' : c.total ≤ (c.batchCounter : Int) := hle
    rcases hf.why hi with ⟨hn, _⟩ | ⟨_, _, _, _, hb⟩
    · have := hbt ((contains_iff _ _).mpr ⟨_, hn⟩) (by omega)
      omega
    · unfold below at hb; omega
  · -- f5
    rintro ⟨hi, hnr, hcnt⟩
    have hrf : c.repeated = false := by simpa using hnr
    rcases hf.why hi with ⟨hn, _⟩ | ⟨_, _, _, hr, _⟩
    · have := (hm.oneShot id c hg hrf).1 hcnt
      rw [hn] at this; cases this
    · rw [hrf] at hr; cases hr
  · -- f6
    rintro ⟨hd, hni, hnp⟩
    rw [Bool.not_eq_true'] at hni hnp
    unfold dueB at hd
    simp only [Bool.and_eq_true, Bool.or_eq_true, decide_eq_true_eq, beq_iff_eq] at hd
    obtain ⟨⟨⟨⟨⟨hrep, hrun⟩, hcl⟩, hcnt⟩, hbel⟩, hlast⟩ := hd
    rw [cleanB_iff, a1, a3] at hcl
    rw [a2] at hlast
    obtain ⟨h0, hl, hmk⟩ := hm.sched id c hg hrun hrep hcl.1 hcl.2 hcnt
    rw [hl] at hlast
    have hh0 : h0 = pre.height - (c.freq : Int) := Option.some.inj hlast
    have hto : c.timeout ≤ (c.freq : Int) := hok.2 hrep
    rcases hf.due hrun hni hnp with ⟨k1, k2⟩ | ⟨_, k2⟩ | ⟨k1, k2, k3⟩
    · rcases hmk with k | k
      · have hge := hns.2 _ _ (hw.expM.2 id _ k)
        apply k1; rw [k]; congr 1; omega
      · apply k2; rw [k]; congr 1; omega
    · exact k2 ⟨hrep, hbel⟩
    · rcases hmk with k | k
      · rw [k1] at k
        have := Option.some.inj k
        omega
      · rw [k2] at k; cases k
  · -- f7
    rintro ⟨hnr, he, hsome⟩
    have hrf : c.repeated = false := by simpa using hnr
    rcases hf.rem he hsome with hp | hr
    · have := ((hm.oneShot id c hg hrf).2 hp).2
      rw [he] at this; cases this
    · rw [hrf] at hr; cases hr
  · -- f8
    rintro ⟨hrun, hn, _, hni, hnp⟩
    rw [Bool.not_eq_true'] at hni hnp
    have hee := hexcl _ hn
    rcases hf.due hrun hni hnp with ⟨_, k2⟩ | ⟨k1, _⟩ | ⟨k1, _, _⟩
    · exact k2 hn
    · rw [hee] at k1; cases k1
    · rw [hee] at k1; cases k1

/-! ### the memory invariant, context by context -/

/-- `M08b` at one context: `inPs` / `inMd` say whether the id is "paused since" / "modified", `last` is its
remembered batch height, `nh` / `eh` its new-batch / expired-batch marker -/
structure InvAt (inPs inMd : Prop) (last : Option Int) (c : Ctx) (nh eh : Option Int) : Prop where
  paused  : c.state = .paused → inPs
  sched   : c.state = .running → c.repeated = true → ¬ inMd → ¬ inPs → 1 ≤ c.batchCounter →
              ∃ h0 : Int, last = some h0 ∧ (eh = some (h0 + c.timeout) ∨ nh = some (h0 + (c.freq : Int)))
  total   : c.repeated = true → ¬ inMd →
              c.total ≠ 0 ∧ (nh.isSome = true → 1 ≤ c.total → (c.batchCounter : Int) < c.total)
  oneShot : c.repeated = false →
              (1 ≤ c.batchCounter → nh = none) ∧ (c.state = .paused → c.batchCounter = 0 ∧ eh = none)

theorem M08b_at {m : Mon} {s : State} (hm : M08b m s) {id : CtxId} {c : Ctx} (hg : AMap.get? s.ctxs id = some c) :
    InvAt (id ∈ m.pausedSince) (id ∈ m.modified) (AMap.get? m.lastBatchH id) c (AMap.get? s.newH id) (AMap.get? s.expH id) :=
  ⟨hm.paused id c hg, hm.sched id c hg, hm.total id c hg, hm.oneShot id c hg⟩

theorem M08b_of_at {m : Mon} {s : State}
    (h : ∀ id c, AMap.get? s.ctxs id = some c →
      InvAt (id ∈ m.pausedSince) (id ∈ m.modified) (AMap.get? m.lastBatchH id) c (AMap.get? s.newH id) (AMap.get? s.expH id)) :
    M08b m s :=
  ⟨fun id c hg => (h id c hg).paused, fun id c hg => (h id c hg).sched, fun id c hg => (h id c hg).total,
   fun id c hg => (h id c hg).oneShot⟩

/-- more ids "paused since" / "modified" only disable clauses (and a paused context stays "paused since") -/
theorem InvAt.mono {inPs inMd inPs' inMd' : Prop} {last : Option Int} {c : Ctx} {nh eh : Option Int}
    (h : InvAt inPs inMd last c nh eh) (h1 : inPs → inPs') (h2 : inMd → inMd') : InvAt inPs' inMd' last c nh eh :=
  ⟨fun hp => h1 (h.paused hp), fun a b hc hd e => h.sched a b (fun x => hc (h2 x)) (fun x => hd (h1 x)) e,
   fun a hb => h.total a (fun x => hb (h2 x)), h.oneShot⟩

/-- the fields of a context the invariant reads -/
def schedFields (c : Ctx) : CtxState × Bool × Nat × Int × Nat × Int :=
  (c.state, c.repeated, c.batchCounter, c.timeout, c.freq, c.total)

theorem InvAt.of_fields {inPs inMd : Prop} {last : Option Int} {c c' : Ctx} {nh eh : Option Int}
    (h : InvAt inPs inMd last c nh eh) (e : schedFields c' = schedFields c) : InvAt inPs inMd last c' nh eh := by
  simp only [schedFields, Prod.mk.injEq] at e
  obtain ⟨e1, e2, e3, e4, e5, e6⟩ := e
  refine ⟨?_, ?_, ?_, ?_⟩
  · rw [e1]; exact h.paused
  · rw [e1, e2, e3, e4, e5]; exact h.sched
  · rw [e2, e3, e6]; exact h.total
  · rw [e1, e2, e3]; exact h.oneShot

/-- **the invariant after an end block**, at one context that is still stored: `iss` — its batch was issued in
this block — makes the block's height the remembered one and ends "paused since"; a paused context is "paused
since" -/
theorem InvAt_endBlock {h : Int} {c : Ctx} {nh eh : Option Int} {v : Option Ctx × Option Int × Option Int}
    (heb : EB h c nh eh v) {inPs inMd : Prop} {last : Option Int} (hi : InvAt inPs inMd last c nh eh)
    {c' : Ctx} (hv : v.1 = some c') :
    InvAt (decide (c'.state = .paused) = true ∨ ((c'.batchCounter == c.batchCounter + 1) = false ∧ inPs)) inMd
      (if (c'.batchCounter == c.batchCounter + 1) = true then some h else last) c' v.2.1 v.2.2 := by
  have e0 : (c.batchCounter == c.batchCounter + 1) = false := by simp
  have e0' : ¬ (c.batchCounter == c.batchCounter + 1) = true := by rw [e0]; exact Bool.false_ne_true
  have e1 : ∀ n, ((startedCtx c n).batchCounter == c.batchCounter + 1) = true := fun n => by simp [startedCtx]
  cases heb with
  | idle h1 h2 =>
    cases hv
    rw [if_neg e0']
    exact ⟨fun hp => Or.inl (decide_eq_true hp), fun a b hc hd e => hi.sched a b hc (fun x => hd (Or.inr ⟨e0, x⟩)) e,
      hi.total, hi.oneShot⟩
  | drop h1 h2 h3 =>
    cases hv
    rw [if_neg e0']
    exact ⟨fun hp => Or.inl (decide_eq_true hp), fun a => absurd a h3,
      fun a b => ⟨(hi.total a b).1, fun x => nomatch x⟩,
      fun a => ⟨fun _ => rfl, fun hp => ⟨((hi.oneShot a).2 hp).1, rfl⟩⟩⟩
  | start n h1 h2 h3 =>
    cases hv
    rw [if_pos (e1 n)]
    refine ⟨fun hp => ?_, fun _ _ _ _ _ => ⟨h, rfl, Or.inl rfl⟩, fun a b => ⟨(hi.total a b).1, fun x => nomatch x⟩,
      fun _ => ⟨fun _ => rfl, fun hp => ?_⟩⟩
    · have hp' : c.state = .paused := hp
      rw [h3] at hp'; cases hp'
    · have hp' : c.state = .paused := hp
      rw [h3] at hp'; cases hp'
  | pause h1 h2 h3 =>
    cases hv
    have e2 : (if ((pausedCtx c).batchCounter == c.batchCounter + 1) = true then some h else last) = last := if_neg e0'
    rw [e2]
    refine ⟨fun _ => Or.inl (decide_eq_true rfl), fun a => ?_, fun a b => ⟨(hi.total a b).1, fun x => nomatch x⟩,
      fun a => ⟨fun _ => rfl, fun _ => ⟨?_, rfl⟩⟩⟩
    · have a' : CtxState.paused = CtxState.running := a
      cases a'
    · show c.batchCounter = 0
      cases hc : c.batchCounter with
      | zero => rfl
      | succ k =>
        have := (hi.oneShot a).1 (by omega)
        rw [h2] at this; cases this
  | gone h1 h2 h3 => cases hv
  | held h1 h2 h3 =>
    cases hv
    have e2 : (if ((doneCtx c).batchCounter == c.batchCounter + 1) = true then some h else last) = last := if_neg e0'
    rw [e2]
    refine ⟨fun _ => Or.inl (decide_eq_true h3), fun a => ?_, fun a b => ⟨(hi.total a b).1, fun x => nomatch x⟩,
      fun a => ⟨fun _ => rfl, fun hp => ⟨((hi.oneShot a).2 hp).1, rfl⟩⟩⟩
    have a' : c.state = .running := a
    rw [h3] at a'; cases a'
  | requeue h1 h2 h3 h4 h5 h6 =>
    cases hv
    have e2 : (if ((doneCtx c).batchCounter == c.batchCounter + 1) = true then some h else last) = last := if_neg e0'
    rw [e2]
    refine ⟨fun hp => ?_, fun a b hc hd e => ?_, fun a b => ⟨(hi.total a b).1, fun _ ht => ?_⟩, fun a => ?_⟩
    · have hp' : c.state = .paused := hp
      rw [h3] at hp'; cases hp'
    · obtain ⟨h0, k1, k2⟩ := hi.sched a b hc (fun x => hd (Or.inr ⟨e0, x⟩)) e
      refine ⟨h0, k1, Or.inr ?_⟩
      rcases k2 with k | k
      · rw [h1] at k
        have := Option.some.inj k
        show some (h - c.timeout + (c.freq : Int)) = some (h0 + (c.freq : Int))
        congr 1; omega
      · rw [h2] at k; cases k
    · have ht' : 1 ≤ c.total := ht
      unfold below at h5
      show (c.batchCounter : Int) < c.total
      omega
    · have a' : c.repeated = false := a
      rw [h4] at a'; cases a'
  | restart n h1 h2 h3 h4 h5 h6 =>
    cases hv
    have e2 : (if ((startedCtx (doneCtx c) n).batchCounter == c.batchCounter + 1) = true then some h else last) = some h :=
      if_pos (e1 n)
    rw [e2]
    refine ⟨fun hp => ?_, fun _ _ _ _ _ => ⟨h, rfl, Or.inl rfl⟩, fun a b => ⟨(hi.total a b).1, fun x => nomatch x⟩,
      fun a => ?_⟩
    · have hp' : c.state = .paused := hp
      rw [h3] at hp'; cases hp'
    · have a' : c.repeated = false := a
      rw [h4] at a'; cases a'
  | repause h1 h2 h3 h4 h5 h6 =>
    cases hv
    have e2 : (if ((pausedCtx (doneCtx c)).batchCounter == c.batchCounter + 1) = true then some h else last) = last :=
      if_neg e0'
    rw [e2]
    refine ⟨fun _ => Or.inl (decide_eq_true rfl), fun a => ?_, fun a b => ⟨(hi.total a b).1, fun x => nomatch x⟩,
      fun a => ?_⟩
    · have a' : CtxState.paused = CtxState.running := a
      cases a'
    · have a' : c.repeated = false := a
      rw [h4] at a'; cases a'

theorem mem_of_get? {K V : Type} [DecidableEq K] : ∀ (m : AMap K V) (k : K) (v : V), AMap.get? m k = some v → (k, v) ∈ m
  | [], _, _, h => by cases h
  | (k0, v0) :: t, k, v, h => by
    simp only [AMap.get?] at h
    split at h
    · rename_i hk
      cases h; subst hk
      exact List.mem_cons_self ..
    · exact List.mem_cons_of_mem _ (mem_of_get? t k v h)

theorem get?_of_mem {K V : Type} [DecidableEq K] : ∀ (m : AMap K V), KeysNodup m → ∀ (k : K) (v : V),
    (k, v) ∈ m → AMap.get? m k = some v
  | [], _, _, _, h => by cases h
  | (k0, v0) :: t, hn, k, v, h => by
    unfold KeysNodup at hn
    rw [List.map_cons, List.nodup_cons] at hn
    rcases List.mem_cons.mp h with h | h
    · cases h; simp [AMap.get?]
    · have hne : ¬ k0 = k := by
        intro e; subst e
        exact hn.1 (List.mem_map.mpr ⟨(k0, v), h, rfl⟩)
      simp only [AMap.get?, hne, if_false]
      exact get?_of_mem t hn.2 k v h

end Sched

/-! ### the end block -/

/-- **end block**: none of the eight schedule clauses fails on a model step, and the memory invariant is kept.
(`_hs'`, the invariant of the post-state, is not needed.) -/
theorem c08_schedule_next_sound (m : Mon) {s : State} {dt : Int} (hs : SInv s) (_hs' : SInv (apply s (.next dt)))
    (hnd : KeysNodup s.ctxs) (hm : M08b m s) :
    (checkSchedule m s (apply s (.next dt))).2 = [] ∧
    M08b (checkSchedule m s (apply s (.next dt))).1 (apply s (.next dt)) := by
  have hw0 : WF { s with cb := [] } := hs.wf.of_same ⟨rfl, rfl, rfl, rfl, rfl, rfl, rfl⟩
  have hview := fun id => endBlock_view hw0 id
  have heb : ∀ id c, AMap.get? s.ctxs id = some c →
      EB s.height c (AMap.get? s.newH id) (AMap.get? s.expH id) (view (apply s (.next dt)) id) :=
    fun id c hg => (hview id).2 c hg
  constructor
  · rw [checkSchedule_eq]
    refine fold_fails s _ m s.ctxs (m, []) hnd rfl (fun e _ => MemAt.refl _ _) ?_
    rintro ⟨id, c⟩ he mm hag
    have hg := get?_of_mem _ hnd _ _ he
    exact stepOK_of_facts hs.wf hs.noStale (hs.ctxsOk id c hg) hg hm hag (facts_of_EB (heb id c hg) rfl)
  · apply M08b_of_at
    intro id c' hg'
    cases hg : AMap.get? s.ctxs id with
    | none =>
      have h1 := (hview id).1 hg
      have h2 : AMap.get? (apply s (.next dt)).ctxs id = none := (view_eq.mp h1).1
      rw [hg'] at h2; cases h2
    | some c =>
      have he := mem_of_get? _ _ _ hg
      obtain ⟨k1, k2⟩ := (fold_mem s (apply s (.next dt)) s.ctxs (m, []) hnd).2 (id, c) he
      have hmod := fold_fst_modified s (apply s (.next dt)) s.ctxs (m, [])
      obtain ⟨b1, b2, _⟩ := evalB_some (e := (id, c)) hg'
      have hi := InvAt_endBlock (heb id c hg) (M08b_at hm hg) (c' := c') hg'
      rw [checkSchedule_eq, k1, hmod, b1]
      exact hi.mono (fun x => k2.mpr (by rw [b1, b2]; exact x)) (fun x => x)

/-! ### every other operation line -/

/-- the keeper-path operations `mpause` / `mupdate` address the context under the id as given, while the monitor
records `id.toLower`: the two agree when the id is passed in its stored, lower-case form (context ids are
lower-case hex; the harness only passes stored ids) -/
def OpLower : Op → Prop
  | .mpause _ id => id.toLower = id
  | .mupdate _ id _ _ _ _ _ _ => id.toLower = id
  | _ => True

/-- every stored context id is its own lower-case form (ids made by `ctxIdOf` are lower-case hex) -/
def LowerIds (s : State) : Prop := ∀ id c, AMap.get? s.ctxs id = some c → id.toLower = id

/-- an ACCEPTED keeper-path operation addresses a stored context: on a state whose stored ids are lower-case the
side condition `OpLower` holds by itself -/
theorem opLower_of_lowerIds {s : State} {op : Op} (h : LowerIds s) (ha : accepted s op = true) : OpLower op := by
  cases op with
  | mpause consumer id =>
    cases hg : AMap.get? s.ctxs id with
    | none => simp [accepted, step, stepCore, keeperPause, hg, rej] at ha
    | some rc => exact h id rc hg
  | mupdate consumer id providers thr cap timeout freq total =>
    cases hg : AMap.get? s.ctxs id with
    | none => simp [accepted, step, stepCore, keeperUpdate, hg, rej] at ha
    | some rc => exact h id rc hg
  | _ => trivial

namespace Sched

/-- the invariant is kept when every stored context either looks as before or satisfies the invariant anew, and
the memory only grows in `pausedSince` / `modified` -/
theorem M08b_step {m m' : Mon} {s s' : State} (hm : M08b m s) (l : m'.lastBatchH = m.lastBatchH)
    (h1 : ∀ id, id ∈ m.pausedSince → id ∈ m'.pausedSince) (h2 : ∀ id, id ∈ m.modified → id ∈ m'.modified)
    (h : ∀ id c', AMap.get? s'.ctxs id = some c' → view s' id = view s id ∨
      InvAt (id ∈ m'.pausedSince) (id ∈ m'.modified) (AMap.get? m'.lastBatchH id) c' (AMap.get? s'.newH id)
        (AMap.get? s'.expH id)) : M08b m' s' := by
  apply M08b_of_at
  intro id c' hg'
  rcases h id c' hg' with hv | hi
  · obtain ⟨g1, g2, g3⟩ := view_eq_view hv
    rw [g2, g3, l]
    exact (M08b_at hm (g1 ▸ hg')).mono (h1 id) (h2 id)
  · exact hi

theorem M08b_same {m m' : Mon} {s s' : State} (hm : M08b m s) (e0 : s'.ctxs = s.ctxs) (e1 : s'.newH = s.newH)
    (e2 : s'.expH = s.expH) (l : m'.lastBatchH = m.lastBatchH)
    (h1 : ∀ id, id ∈ m.pausedSince → id ∈ m'.pausedSince) (h2 : ∀ id, id ∈ m.modified → id ∈ m'.modified) : M08b m' s' :=
  M08b_step hm l h1 h2 (fun id _ _ => Or.inl (by unfold view; rw [e0, e1, e2]))

theorem view_setCtx_other (s : State) {id id' : CtxId} (c : Ctx) (hne : id' ≠ id) : view (setCtx s id c) id' = view s id' := by
  unfold view
  simp only [setCtx]
  rw [AMap.get?_set_other _ _ _ _ (Ne.symm hne)]

theorem M08b_keeperPause {m : Mon} {s s' : State} {id : CtxId} {consumer : Addr} (hm : M08b m s)
    (h : keeperPause s id consumer = .ok s') : M08b { m with pausedSince := id :: m.pausedSince } s' := by
  unfold keeperPause at h
  split at h
  · cases h
  rename_i rc hg
  split at h
  · cases h
  split at h
  · cases h
  rename_i hrep
  split at h
  · cases h
  cases h
  have hi := M08b_at hm hg
  refine M08b_step hm rfl (fun _ hx => List.mem_cons_of_mem _ hx) (fun _ hx => hx) ?_
  intro id' c' hg'
  by_cases hne : id' = id
  · subst hne
    right
    simp only [setCtx] at hg'
    rw [AMap.get?_set_self] at hg'
    cases hg'
    have hr : rc.repeated = true := by simpa using hrep
    refine ⟨fun _ => List.mem_cons_self .., fun a => ?_, fun a b => hi.total a b, fun a => ?_⟩
    · have a' : CtxState.paused = CtxState.running := a
      cases a'
    · have a' : rc.repeated = false := a
      rw [hr] at a'; cases a'
  · exact Or.inl (view_setCtx_other s _ hne)

theorem M08b_keeperKill {m : Mon} {s s' : State} {id : CtxId} {consumer : Addr} (hm : M08b m s)
    (h : keeperKill s id consumer = .ok s') : M08b m s' := by
  unfold keeperKill at h
  split at h
  · cases h
  rename_i rc hg
  split at h
  · cases h
  split at h
  · cases h
  rename_i hrep
  cases h
  have hi := M08b_at hm hg
  refine M08b_step hm rfl (fun _ hx => hx) (fun _ hx => hx) ?_
  intro id' c' hg'
  by_cases hne : id' = id
  · subst hne
    right
    simp only [setCtx] at hg'
    rw [AMap.get?_set_self] at hg'
    cases hg'
    have hr : rc.repeated = true := by simpa using hrep
    refine ⟨fun a => ?_, fun a => ?_, fun a b => hi.total a b, fun a => ?_⟩
    · have a' : CtxState.completed = CtxState.paused := a
      cases a'
    · have a' : CtxState.completed = CtxState.running := a
      cases a'
    · have a' : rc.repeated = false := a
      rw [hr] at a'; cases a'
  · exact Or.inl (view_setCtx_other s _ hne)

theorem M08b_keeperStart {m : Mon} {s s' : State} {id : CtxId} {consumer : Addr} (hm : M08b m s)
    (h : keeperStart s id consumer = .ok s') : M08b m s' := by
  unfold keeperStart at h
  split at h
  · cases h
  rename_i rc hg
  split at h
  · cases h
  split at h
  · cases h
  rename_i hpaused
  split at h
  · cases h
  rename_i htot
  cases h
  have hp : rc.state = .paused := Decidable.of_not_not hpaused
  have hi := M08b_at hm hg
  have hps := hi.paused hp
  refine M08b_step hm rfl (fun _ hx => hx) (fun _ hx => hx) ?_
  intro id' c' hg'
  by_cases hne : id' = id
  · subst hne
    right
    have hc' : c' = { rc with state := .running } := by
      split at hg'
      · simp only [addNew, setCtx] at hg'
        rw [AMap.get?_set_self] at hg'
        exact (Option.some.inj hg').symm
      · simp only [setCtx] at hg'
        rw [AMap.get?_set_self] at hg'
        exact (Option.some.inj hg').symm
    subst hc'
    refine ⟨fun a => ?_, fun _ _ _ d => absurd hps d, fun a b => ⟨(hi.total a b).1, fun hsome ht => ?_⟩, fun a => ?_⟩
    · have a' : CtxState.running = CtxState.paused := a
      cases a'
    · have ha : rc.repeated = true := a
      have ht' : 1 ≤ rc.total := ht
      show (rc.batchCounter : Int) < rc.total
      split at hsome
      · by_cases hlt : (rc.batchCounter : Int) < rc.total
        · exact hlt
        · exact absurd ⟨ha, by omega, by omega⟩ htot
      · exact (hi.total a b).2 hsome ht
    · obtain ⟨k1, _⟩ := (hi.oneShot a).2 hp
      refine ⟨fun hc => ?_, fun hq => ?_⟩
      · have hc' : 1 ≤ rc.batchCounter := hc
        omega
      · have a' : CtxState.running = CtxState.paused := hq
        cases a'
  · left
    split
    · unfold view
      simp only [addNew, setCtx]
      rw [AMap.get?_set_other _ _ _ _ (Ne.symm hne), AMap.get?_set_other _ _ _ _ (Ne.symm hne)]
    · exact view_setCtx_other s _ hne

theorem M08b_keeperUpdate {m : Mon} {s s' : State} {id : CtxId} {providers thr cap timeout freq total consumer}
    (hm : M08b m s) (h : keeperUpdate s id providers thr cap timeout freq total consumer = .ok s') :
    M08b { m with modified := id :: m.modified } s' := by
  unfold keeperUpdate at h
  split at h
  · cases h
  rename_i rc hg
  split at h
  · cases h
  split at h
  · cases h
  split at h
  · cases h
  split at h
  · cases h
  split at h
  · cases h
  split at h
  · cases h
  split at h
  · cases h
  split at h
  · cases h
  cases h
  have hi := M08b_at hm hg
  refine M08b_step hm rfl (fun _ hx => hx) (fun _ hx => List.mem_cons_of_mem _ hx) ?_
  intro id' c' hg'
  by_cases hne : id' = id
  · subst hne
    right
    simp only [setCtx] at hg'
    rw [AMap.get?_set_self] at hg'
    cases hg'
    exact ⟨hi.paused, fun _ _ c => absurd (List.mem_cons_self ..) c, fun _ c => absurd (List.mem_cons_self ..) c, hi.oneShot⟩
  · exact Or.inl (view_setCtx_other s _ hne)

theorem createState_expH (s : State) (newId : CtxId) (rc : Ctx) : (createState s newId rc).expH = s.expH := by
  unfold createState; split <;> rfl

theorem createState_get (s : State) (newId : CtxId) (rc : Ctx) :
    AMap.get? (createState s newId rc).ctxs newId = some rc := by
  unfold createState
  split
  · simp only [addNew, setCtx]; exact AMap.get?_set_self _ _ _
  · simp only [setCtx]; exact AMap.get?_set_self _ _ _

/-- a new context: it has issued no batch, a repeated one has a non-zero total, a paused one is recorded -/
theorem M08b_createState {m : Mon} {s : State} {newId : CtxId} (hm : M08b m s) (hw : WF s)
    (hfresh : AMap.contains s.ctxs newId = false) (rc : Ctx) (h0 : rc.batchCounter = 0)
    (ht : rc.repeated = true → rc.total ≠ 0) (ps : List CtxId) (hps : rc.state = .paused → newId ∈ ps) :
    M08b { m with pausedSince := ps ++ m.pausedSince } (createState s newId rc) := by
  have heh : AMap.get? s.expH newId = none := by
    cases he : AMap.get? s.expH newId with
    | none => rfl
    | some w =>
      have := hw.live newId (Or.inr ((contains_iff _ _).mpr ⟨w, he⟩))
      rw [hfresh] at this; cases this
  refine M08b_step hm rfl (fun _ hx => List.mem_append_right _ hx) (fun _ hx => hx) ?_
  intro id' c' hg'
  by_cases hne : id' = newId
  · subst hne
    right
    rw [createState_get] at hg'
    have hc' := (Option.some.inj hg').symm
    subst hc'
    rw [createState_expH, heh]
    refine ⟨fun a => List.mem_append_left _ (hps a), fun _ _ _ _ e => by omega, fun a _ => ⟨ht a, fun _ h1 => by omega⟩,
      fun _ => ⟨fun e => by omega, fun _ => ⟨h0, rfl⟩⟩⟩
  · left
    unfold createState
    split
    · unfold view
      simp only [addNew, setCtx]
      rw [AMap.get?_set_other _ _ _ _ (Ne.symm hne), AMap.get?_set_other _ _ _ _ (Ne.symm hne)]
    · unfold view
      simp only [setCtx]
      rw [AMap.get?_set_other _ _ _ _ (Ne.symm hne)]

theorem validRequest_total {svc cap providers inputOk timeout repeated freq total}
    (h : validRequest svc cap providers inputOk timeout repeated freq total = true) (hr : repeated = true) : total ≠ 0 := by
  unfold validRequest at h
  simp only [Bool.and_eq_true, decide_eq_true_eq, Bool.or_eq_true, Bool.not_eq_true'] at h
  rcases h.2 with h2 | h2
  · rw [hr] at h2; cases h2
  · have := h2.2
    simp only [Bool.or_eq_false_iff, decide_eq_false_iff_not] at this
    exact this.2

theorem createCtx_inv {s s' : State} {newId svc providers consumer inputOk cap timeout repeated freq total st thr moduleName}
    (h : createCtx s newId svc providers consumer inputOk cap timeout repeated freq total st thr moduleName = .ok s') :
    moduleCtxOk moduleName svc cap providers inputOk timeout repeated freq total thr = true ∧
    ∃ c, s' = createState s newId (newCtx svc providers consumer c timeout repeated freq total st thr moduleName) := by
  unfold createCtx at h
  split at h
  · cases h
  rename_i hmod
  split at h
  · cases h
  split at h
  · cases h
  split at h
  · cases h
  split at h
  · cases h
  rename_i c _ _
  cases h
  exact ⟨by simpa using hmod, c, rfl⟩

theorem M08b_createCtx {m : Mon} {s s' : State} {newId svc providers consumer inputOk cap timeout repeated freq total st thr moduleName}
    (hm : M08b m s) (hw : WF s) (hfresh : AMap.contains s.ctxs newId = false)
    (hv : validRequest svc cap providers inputOk timeout repeated freq total = true)
    (h : createCtx s newId svc providers consumer inputOk cap timeout repeated freq total st thr moduleName = .ok s')
    (ps : List CtxId) (hps : ∀ c, AMap.get? s'.ctxs newId = some c → c.state = .paused → newId ∈ ps) :
    M08b { m with pausedSince := ps ++ m.pausedSince } s' := by
  obtain ⟨_, c, rfl⟩ := createCtx_inv h
  refine M08b_createState hm hw hfresh _ rfl ?_ ps ?_
  · intro hr
    have hr' : repeated = true := hr
    have : (newCtx svc providers consumer c timeout repeated freq total st thr moduleName).total = total := by
      simp [newCtx, hr']
    rw [this]
    exact validRequest_total hv hr'
  · intro hp
    exact hps _ (createState_get _ _ _) hp

theorem M08b_keeperRespond {m : Mon} {s s' : State} {provider : Addr} {rid : ReqId} {hasOut : Bool} (hm : M08b m s)
    (h : keeperRespond s provider rid hasOut = .ok s') : M08b m s' := by
  unfold keeperRespond at h
  split at h
  · cases h
  rename_i rq rc hgr
  split at h
  · cases h
  split at h
  · cases h
  split at h
  · cases h
  rename_i s1 hfee
  cases h
  obtain ⟨_, hc⟩ := getRequest_some hgr
  obtain ⟨⟨_, f2, _, f4, _, _, f7⟩, _⟩ := addEarnedFee_sched hfee
  obtain ⟨_, g2, _, g4, _, _, g7⟩ := countResponse_fields (recordResponse s1 rid provider rq rc hasOut) rq.ctx
  have hget : getCtx (recordResponse s1 rid provider rq rc hasOut) rq.ctx = rc := by
    apply getCtx_of_get?
    simp only [recordResponse]
    rw [f7]; exact hc
  rw [hget] at g7
  have e1 : (countResponse (recordResponse s1 rid provider rq rc hasOut) rq.ctx).newH = s.newH := by
    rw [g2]; simp only [recordResponse]; exact f2
  have e2 : (countResponse (recordResponse s1 rid provider rq rc hasOut) rq.ctx).expH = s.expH := by
    rw [g4]; simp only [recordResponse]; exact f4
  have e0 : (countResponse (recordResponse s1 rid provider rq rc hasOut) rq.ctx).ctxs = AMap.set s.ctxs rq.ctx
      (if rc.batchRespCount + 1 = rc.batchReqCount then { countedCtx rc with batchState := .completed } else countedCtx rc) := by
    rw [g7]; simp only [recordResponse]; rw [f7]
  have hi := M08b_at hm hc
  refine M08b_step hm rfl (fun _ hx => hx) (fun _ hx => hx) ?_
  intro id' c' hg'
  rw [e0] at hg'
  by_cases hne : id' = rq.ctx
  · subst hne
    right
    rw [AMap.get?_set_self] at hg'
    rw [e1, e2]
    have hc' := (Option.some.inj hg').symm
    subst hc'
    exact hi.of_fields (by split <;> rfl)
  · left
    unfold view
    rw [e0, e1, e2, AMap.get?_set_other _ _ _ _ (Ne.symm hne)]

/-- the operations that touch the scheduler tables -/
def opSched : Op → Prop
  | .define .. | .bind .. | .updateBinding .. | .setWithdraw .. | .enable .. | .disable .. | .refundDeposit ..
  | .withdraw .. | .withdrawK .. | .setRate .. => False
  | _ => True

/-- every other operation leaves contexts and markers alone -/
theorem stepCore_simple {s s' : State} {op : Op} (hq : ¬ opSched op) (h : stepCore s op = .ok s') :
    s'.ctxs = s.ctxs ∧ s'.newH = s.newH ∧ s'.expH = s.expH := by
  cases op with
  | define sender name schOk =>
    simp only [stepCore, stepDefine] at h
    split at h
    · cases h
    split at h
    · cases h
    split at h
    · cases h
    split at h
    · cases h
    cases h; exact ⟨rfl, rfl, rfl⟩
  | bind owner provider svc dep qos pin optsOk =>
    simp only [stepCore, stepBind] at h
    split at h
    · cases h
    split at h
    · cases h
    obtain ⟨d, pr, bank, _, _, _, rfl⟩ := keeperBind_inv h
    exact ⟨rfl, rfl, rfl⟩
  | updateBinding owner provider svc dep qos pin opts =>
    simp only [stepCore, stepUpdateBinding] at h
    split at h
    · cases h
    obtain ⟨b, d, pr, bank, _, _, _, _, rfl⟩ := keeperUpdateBinding_inv h
    exact ⟨rfl, rfl, rfl⟩
  | setWithdraw owner addr =>
    simp only [stepCore, stepSetWithdraw] at h
    split at h
    · cases h
    split at h
    · cases h
    cases h; exact ⟨rfl, rfl, rfl⟩
  | enable owner provider svc dep =>
    simp only [stepCore, stepEnable] at h
    split at h
    · cases h
    unfold keeperEnable at h
    split at h
    · cases h
    split at h
    · cases h
    split at h
    · cases h
    split at h
    · cases h
    split at h
    · cases h
    split at h
    · cases h
    cases h; exact ⟨rfl, rfl, rfl⟩
  | disable owner provider svc =>
    simp only [stepCore, stepDisable] at h
    split at h
    · cases h
    split at h
    · cases h
    split at h
    · cases h
    split at h
    · cases h
    cases h; exact ⟨rfl, rfl, rfl⟩
  | refundDeposit owner provider svc =>
    simp only [stepCore, stepRefundDeposit] at h
    split at h
    · cases h
    unfold keeperRefundDeposit at h
    split at h
    · cases h
    split at h
    · cases h
    split at h
    · cases h
    split at h
    · cases h
    split at h
    · cases h
    split at h
    · cases h
    cases h; exact ⟨rfl, rfl, rfl⟩
  | withdraw owner provider =>
    simp only [stepCore, stepWithdraw] at h
    split at h
    · cases h
    split at h
    · cases h
    have := keeperWithdraw_sched h
    exact ⟨this.2.2.2.2.2.2, this.2.1, this.2.2.2.1⟩
  | withdrawK owner provider =>
    have := keeperWithdraw_sched h
    exact ⟨this.2.2.2.2.2.2, this.2.1, this.2.2.2.1⟩
  | setRate d r =>
    simp only [stepCore] at h
    cases h; exact ⟨rfl, rfl, rfl⟩
  | call => exact absurd trivial hq
  | mcall => exact absurd trivial hq
  | respond => exact absurd trivial hq
  | pause => exact absurd trivial hq
  | start => exact absurd trivial hq
  | kill => exact absurd trivial hq
  | updateCtx => exact absurd trivial hq
  | mpause => exact absurd trivial hq
  | mstart => exact absurd trivial hq
  | mkill => exact absurd trivial hq
  | mupdate => exact absurd trivial hq
  | next => exact absurd trivial hq
  | skip => exact absurd trivial hq

/-- a rejected line changes nothing in the schedule memory -/
theorem msgMon_rejected (m : Mon) (s : State) (op : Op) (post : State) :
    createdPaused (scheduleStep m s op false post).1 s op false post = m := by
  cases op <;> rfl

/-- an accepted line of an operation that does not touch the scheduler changes nothing in the schedule memory -/
theorem msgMon_simple (m : Mon) (s : State) {op : Op} (hq : ¬ opSched op) (post : State) :
    createdPaused (scheduleStep m s op true post).1 s op true post = m := by
  cases op <;> first | rfl | exact absurd trivial hq

end Sched

/-- **every other operation line** (accepted or rejected): the memory invariant is kept by the updates
`scheduleStep` and `createdPaused` make.  (`_hs'` and `_hnd` are not needed; `hl` is: the monitor records `id.toLower` for the keeper-path operations
`mpause` / `mupdate`, the model addresses `id`; only accepted lines matter, cf. `opLower_of_lowerIds`.) -/
theorem c08_schedule_msg_inv (m : Mon) {s : State} {op : Op} (hs : SInv s) (_hs' : SInv (apply s op)) (ho : OpOK s op)
    (hl : accepted s op = true → OpLower op) (_hnd : KeysNodup s.ctxs) (hn : ∀ dt, op ≠ .next dt) (hm : M08b m s) :
    M08b (createdPaused (scheduleStep m s op (accepted s op) (apply s op)).1 s op (accepted s op) (apply s op))
      (apply s op) := by
  have hm0 : M08b m { s with cb := [] } := M08b_same hm rfl rfl rfl rfl (fun _ h => h) (fun _ h => h)
  have hw0 : WF { s with cb := [] } := hs.wf.of_same ⟨rfl, rfl, rfl, rfl, rfl, rfl, rfl⟩
  cases hstep : step s op with
  | error e =>
    obtain ⟨ha, hp⟩ := accepted_err hstep
    rw [ha, hp, msgMon_rejected]
    exact hm0
  | ok s' =>
    obtain ⟨ha, hp⟩ := accepted_ok hstep
    have hl := hl ha
    rw [ha, hp]
    have h : stepCore { s with cb := [] } op = .ok s' := hstep
    by_cases hq : opSched op
    · cases op with
      | define => exact hq.elim
      | bind => exact hq.elim
      | updateBinding => exact hq.elim
      | setWithdraw => exact hq.elim
      | enable => exact hq.elim
      | disable => exact hq.elim
      | refundDeposit => exact hq.elim
      | withdraw => exact hq.elim
      | withdrawK => exact hq.elim
      | setRate => exact hq.elim
      | call tx consumer svc providers cap timeout repeated freq total inputOk =>
        simp only [stepCore, stepCall] at h
        split at h
        · cases h
        split at h
        · cases h
        rename_i hv
        split at h
        · cases h
        have hfresh : AMap.contains s.ctxs (ctxIdOf tx s.idx) = false := ho.fresh
        have hv' : validRequest svc cap providers inputOk timeout repeated freq total = true := by simpa using hv
        have := M08b_createCtx hm0 hw0 hfresh hv' h [] (fun c hg hp => by
          obtain ⟨_, c0, rfl⟩ := createCtx_inv h
          rw [createState_get] at hg
          cases hg
          cases hp)
        exact this.congr rfl rfl rfl
      | mcall tx consumer svc providers cap timeout repeated freq total inputOk paused thr modName =>
        simp only [stepCore] at h
        have hfresh : AMap.contains s.ctxs (ctxIdOf tx s.idx) = false := ho.fresh
        have hreq : validRequest svc cap providers inputOk timeout repeated freq total = true := by
          have hmod := (createCtx_inv h).1
          unfold moduleCtxOk at hmod
          have hne : modName ≠ "" := ho.validated
          simp only [Bool.or_eq_true, decide_eq_true_eq, hne, false_or, Bool.and_eq_true] at hmod
          exact hmod.1.1.2
        refine M08b_createCtx hm0 hw0 hfresh hreq h _ ?_
        intro c hg hp
        refine List.mem_map.mpr ⟨(ctxIdOf tx s.idx, c), List.mem_filter.mpr ⟨mem_of_get? _ _ _ hg, ?_⟩, rfl⟩
        simp only [hfresh, hp, Bool.not_false, decide_true, Bool.and_self]
      | respond provider rid code out resOk =>
        simp only [stepCore, stepRespond] at h
        split at h
        · cases h
        split at h
        · cases h
        exact M08b_keeperRespond hm0 h
      | pause consumer id => exact M08b_keeperPause hm0 (stepPause_inv h)
      | start consumer id => exact M08b_keeperStart hm0 (stepStart_inv h)
      | kill consumer id => exact M08b_keeperKill hm0 (stepKill_inv h)
      | updateCtx consumer id providers cap timeout freq total => exact M08b_keeperUpdate hm0 (stepUpdateCtx_inv h)
      | mpause consumer id =>
        have hl' : id.toLower = id := hl
        show M08b { m with pausedSince := id.toLower :: m.pausedSince } s'
        rw [hl']
        exact M08b_keeperPause hm0 h
      | mstart consumer id => exact M08b_keeperStart hm0 h
      | mkill consumer id => exact M08b_keeperKill hm0 h
      | mupdate consumer id providers thr cap timeout freq total =>
        have hl' : id.toLower = id := hl
        show M08b { m with modified := id.toLower :: m.modified } s'
        rw [hl']
        exact M08b_keeperUpdate hm0 h
      | next dt => exact absurd rfl (hn dt)
      | skip n dt => exact (ho.notSkip).elim
    · rw [msgMon_simple m s hq]
      obtain ⟨e0, e1, e2⟩ := stepCore_simple hq h
      exact M08b_same hm0 e0 e1 e2 rfl (fun _ h => h) (fun _ h => h)

/-! ### the two halves put together, in the form `Spec.C08.check` uses them -/

/-- an end-block line is always accepted -/
theorem Sched.accepted_next (s : State) (dt : Int) : accepted s (.next dt) = true := rfl

/-- the schedule part of `check` on an end-block line reports no failure -/
theorem c08_schedule_next_fails (m : Mon) {s : State} {dt : Int} (hs : SInv s) (hs' : SInv (apply s (.next dt)))
    (hnd : KeysNodup s.ctxs) (hm : M08b m s) :
    (scheduleStep m s (.next dt) (accepted s (.next dt)) (apply s (.next dt))).2 = [] :=
  (c08_schedule_next_sound m hs hs' hnd hm).1

/-- **the memory invariant is kept by every operation line** (end block or not) -/
theorem c08_schedule_inv (m : Mon) {s : State} {op : Op} (hs : SInv s) (hs' : SInv (apply s op)) (ho : OpOK s op)
    (hl : accepted s op = true → OpLower op) (hnd : KeysNodup s.ctxs) (hm : M08b m s) :
    M08b (createdPaused (scheduleStep m s op (accepted s op) (apply s op)).1 s op (accepted s op) (apply s op))
      (apply s op) := by
  by_cases hn : ∃ dt, op = .next dt
  · obtain ⟨dt, rfl⟩ := hn
    exact (c08_schedule_next_sound m hs hs' hnd hm).2
  · exact c08_schedule_msg_inv m hs hs' ho hl hnd (fun dt e => hn ⟨dt, e⟩) hm

end Irismod.Proofs.ServiceMonitor
