/-
Round-trip lemmas for the protobuf wire model: varints, single fields, whole messages.
-/
import Irismod.Model.Wire
import Mathlib.Tactic.Ring

namespace Irismod.Proofs.Wire
open Irismod.Wire

theorem decodeVarintAux_encode (n : Nat) : ∀ (rest : List Nat) (shift acc : Nat),
    decodeVarintAux (encodeVarint n ++ rest) shift acc = some (acc + n * 2 ^ shift, rest) := by
  induction n using Nat.strong_induction_on with
  | _ n ih =>
    intro rest shift acc
    rw [encodeVarint]
    by_cases h : n < 128
    · simp [h, decodeVarintAux]
    · simp only [h, dite_false, List.cons_append, decodeVarintAux]
      have hge : ¬ (n % 128 + 128 < 128) := by omega
      simp only [hge, if_false]
      rw [ih (n / 128) (by omega)]
      have e : n % 128 + 128 - 128 = n % 128 := by omega
      rw [e]
      have hp : 2 ^ (shift + 7) = 2 ^ shift * 128 := by rw [Nat.pow_add]
      have hn : n = n % 128 + 128 * (n / 128) := (Nat.mod_add_div n 128).symm
      have key : acc + n % 128 * 2 ^ shift + n / 128 * 2 ^ (shift + 7) = acc + n * 2 ^ shift := by
        rw [hp]
        calc acc + n % 128 * 2 ^ shift + n / 128 * (2 ^ shift * 128)
            = acc + (n % 128 + 128 * (n / 128)) * 2 ^ shift := by ring
          _ = acc + n * 2 ^ shift := by rw [← hn]
      rw [key]

theorem decodeVarint_encode (n : Nat) (rest : List Nat) :
    decodeVarint (encodeVarint n ++ rest) = some (n, rest) := by
  unfold decodeVarint
  rw [decodeVarintAux_encode]
  simp

theorem encodeVarint_ne_nil (n : Nat) : encodeVarint n ≠ [] := by
  rw [encodeVarint]
  by_cases h : n < 128 <;> simp [h]

theorem wireType_lt (p : Payload) : wireType p < 8 := by
  cases p <;> simp [wireType]

theorem decodeField_encode (f : Field) (hf : f.WF) (rest : List Nat) :
    decodeField (encodeField f ++ rest) = some (f, rest) := by
  obtain ⟨num, val⟩ := f
  obtain ⟨hnum, hval⟩ := hf
  simp only at hnum hval
  unfold decodeField encodeField
  simp only [List.append_assoc]
  rw [decodeVarint_encode]
  simp only
  have hwt := wireType_lt val
  have hdiv : (num * 8 + wireType val) / 8 = num := by omega
  have hmod : (num * 8 + wireType val) % 8 = wireType val := by omega
  rw [hdiv, hmod]
  have hn0 : ¬ (num = 0) := by omega
  simp only [hn0, if_false]
  cases val with
  | varint n =>
    simp only [wireType, encodePayload]
    rw [decodeVarint_encode]
  | fixed64 bs =>
    simp only [wireType, encodePayload]
    have hl : ¬ ((bs ++ rest).length < 8) := by simp [List.length_append]; omega
    simp only [hl, if_false]
    have : 8 = bs.length := hval.symm
    rw [this, List.take_left', List.drop_left'] <;> rfl
  | bytes bs =>
    simp only [wireType, encodePayload, List.append_assoc]
    rw [decodeVarint_encode]
    simp only
    have hl : ¬ ((bs ++ rest).length < bs.length) := by simp [List.length_append]
    simp only [hl, if_false]
    rw [List.take_left', List.drop_left'] <;> rfl
  | fixed32 bs =>
    simp only [wireType, encodePayload]
    have hl : ¬ ((bs ++ rest).length < 4) := by simp [List.length_append]; omega
    simp only [hl, if_false]
    have : 4 = bs.length := hval.symm
    rw [this, List.take_left', List.drop_left'] <;> rfl

theorem encodeField_ne_nil (f : Field) : encodeField f ≠ [] := by
  unfold encodeField
  intro h
  have := List.append_eq_nil_iff.mp h
  exact encodeVarint_ne_nil _ this.1

theorem decodeFieldsAux_encode (fs : List Field) (hfs : ∀ f ∈ fs, f.WF) :
    ∀ fuel, fs.length ≤ fuel → decodeFieldsAux fuel (encodeFields fs) = some fs := by
  induction fs with
  | nil => intro fuel _; cases fuel <;> simp [encodeFields, decodeFieldsAux]
  | cons f fs ih =>
    intro fuel hfuel
    cases fuel with
    | zero => simp at hfuel
    | succ fuel =>
      simp only [encodeFields]
      have hne : encodeField f ++ encodeFields fs ≠ [] := by
        intro h; exact encodeField_ne_nil f (List.append_eq_nil_iff.mp h).1
      cases hb : encodeField f ++ encodeFields fs with
      | nil => exact absurd hb hne
      | cons b t =>
        simp only [decodeFieldsAux]
        rw [← hb, decodeField_encode f (hfs f (List.mem_cons_self ..))]
        simp only
        rw [ih (fun g hg => hfs g (List.mem_cons_of_mem _ hg)) fuel (by simpa using hfuel)]

theorem length_le_encodeFields (fs : List Field) : fs.length ≤ (encodeFields fs).length := by
  induction fs with
  | nil => simp [encodeFields]
  | cons f fs ih =>
    simp only [encodeFields, List.length_append, List.length_cons]
    have : 1 ≤ (encodeField f).length := by
      cases h : encodeField f with
      | nil => exact absurd h (encodeField_ne_nil f)
      | cons _ _ => simp
    omega

end Irismod.Proofs.Wire
