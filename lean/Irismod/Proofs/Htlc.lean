/-
Helper lemmas for C03 / C04 / C13 (HTLC): the bank primitives (`subCoins`, `addCoins`,
`sendCoins`, `mintCoins`, `burnCoins`) as exact balance deltas, sums over the contract table
under `AMap.set`, the queue operations, and inversion lemmas of the handlers.
Core tactics only.
-/
import Irismod.Spec.C03
import Irismod.Spec.C04

namespace Irismod.Proofs.Htlc
open Irismod Irismod.Sdk Irismod.Htlc

/-! ### bank -/

theorem balOf_setBal (b : Bank) (a d v a' d') :
    Bank.balOf (Bank.setBal b a d v) a' d' = if a = a' ∧ d = d' then v else Bank.balOf b a' d' := by
  by_cases h : a = a' ∧ d = d'
  · obtain ⟨rfl, rfl⟩ := h
    simp [Bank.balOf_setBal_self]
  · rw [if_neg h]
    apply Bank.balOf_setBal_other
    intro e; cases e; exact h ⟨rfl, rfl⟩

theorem supplyOf_setBal (b : Bank) (a d v d') : Bank.supplyOf (Bank.setBal b a d v) d' = Bank.supplyOf b d' := rfl

theorem balOf_addCoins (b : Bank) (a : Addr) (cs : Coins) (a' : Addr) (d' : Denom) :
    Bank.balOf (addCoins b a cs) a' d' = Bank.balOf b a' d' + (if a' = a then coinAmt cs d' else 0) := by
  induction cs generalizing b with
  | nil => simp [addCoins, coinAmt]
  | cons c r ih =>
    obtain ⟨d, n⟩ := c
    simp only [addCoins, coinAmt]
    rw [ih, balOf_setBal]
    by_cases ha : a' = a
    · subst ha
      by_cases hd : d = d'
      · subst hd; simp; omega
      · simp [hd]
    · have : ¬ (a = a' ∧ d = d') := fun h => ha h.1.symm
      simp [ha, this]

theorem supplyOf_addCoins (b : Bank) (a : Addr) (cs : Coins) (d' : Denom) :
    Bank.supplyOf (addCoins b a cs) d' = Bank.supplyOf b d' := by
  induction cs generalizing b with
  | nil => rfl
  | cons c r ih => obtain ⟨d, n⟩ := c; simp only [addCoins]; rw [ih, supplyOf_setBal]

theorem subCoins_ok {b b' : Bank} {a : Addr} {cs : Coins} (h : subCoins b a cs = (b', true))
    (a' : Addr) (d' : Denom) :
    Bank.balOf b' a' d' + (if a' = a then coinAmt cs d' else 0) = Bank.balOf b a' d' := by
  induction cs generalizing b with
  | nil => simp [subCoins] at h; subst h; simp [coinAmt]
  | cons c r ih =>
    obtain ⟨d, n⟩ := c
    simp only [subCoins] at h
    split at h
    · cases h
    · rename_i hge
      have := ih h
      rw [balOf_setBal] at this
      simp only [coinAmt]
      by_cases ha : a' = a
      · subst ha
        by_cases hd : d = d'
        · subst hd; simp at this ⊢; omega
        · simp [hd] at this ⊢; omega
      · have hn : ¬ (a = a' ∧ d = d') := fun h => ha h.1.symm
        simp [ha, hn] at this ⊢; omega

theorem subCoins_supply {b b' : Bank} {a : Addr} {cs : Coins} {ok : Bool} (h : subCoins b a cs = (b', ok))
    (d' : Denom) : Bank.supplyOf b' d' = Bank.supplyOf b d' := by
  induction cs generalizing b with
  | nil => simp [subCoins] at h; rw [← h.1]
  | cons c r ih =>
    obtain ⟨d, n⟩ := c
    simp only [subCoins] at h
    split at h
    · cases h; rfl
    · rw [ih h, supplyOf_setBal]

/-- a debit covered denom by denom goes through -/
theorem subCoins_succeeds (b : Bank) (a : Addr) (cs : Coins)
    (h : ∀ d, coinAmt cs d ≤ Bank.balOf b a d) : (subCoins b a cs).2 = true := by
  induction cs generalizing b with
  | nil => rfl
  | cons c r ih =>
    obtain ⟨d, n⟩ := c
    simp only [subCoins]
    have hd := h d
    simp only [coinAmt, if_true] at hd
    have hn : ¬ (Bank.balOf b a d < n) := by omega
    rw [if_neg hn]
    apply ih
    intro d'
    rw [balOf_setBal]
    have hd' := h d'
    simp only [coinAmt] at hd'
    by_cases e : d = d'
    · subst e; simp at hd' ⊢; omega
    · simp [e] at hd' ⊢; omega

theorem sendCoins_ok {b b' : Bank} {src dst : Addr} {cs : Coins} (h : sendCoins b src dst cs = (b', true))
    (a' : Addr) (d' : Denom) :
    Bank.balOf b' a' d' + (if a' = src then coinAmt cs d' else 0)
      = Bank.balOf b a' d' + (if a' = dst then coinAmt cs d' else 0) := by
  unfold sendCoins at h
  split at h
  · cases h
  · rename_i b1 h1
    cases h
    rw [balOf_addCoins]
    have := subCoins_ok h1 a' d'
    omega

theorem sendCoins_supply {b b' : Bank} {src dst : Addr} {cs : Coins} {ok : Bool}
    (h : sendCoins b src dst cs = (b', ok)) (d' : Denom) : Bank.supplyOf b' d' = Bank.supplyOf b d' := by
  unfold sendCoins at h
  split at h
  · rename_i b1 h1; cases h; exact subCoins_supply h1 d'
  · rename_i b1 h1; cases h; rw [supplyOf_addCoins]; exact subCoins_supply h1 d'

theorem sendCoins_succeeds (b : Bank) (src dst : Addr) (cs : Coins)
    (h : ∀ d, coinAmt cs d ≤ Bank.balOf b src d) : ∃ b', sendCoins b src dst cs = (b', true) := by
  have := subCoins_succeeds b src cs h
  unfold sendCoins
  cases hs : subCoins b src cs with
  | mk b1 ok =>
    rw [hs] at this
    simp at this
    subst this
    exact ⟨_, rfl⟩

theorem sendOk_some {b b' : Bank} {src dst : Addr} {cs : Coins} (h : sendOk b src dst cs = some b') :
    sendCoins b src dst cs = (b', true) := by
  unfold sendOk at h
  split at h
  · rename_i b1 h1; cases h; exact h1
  · cases h

theorem sendOk_succeeds (b : Bank) (src dst : Addr) (cs : Coins)
    (h : ∀ d, coinAmt cs d ≤ Bank.balOf b src d) : ∃ b', sendOk b src dst cs = some b' := by
  obtain ⟨b', hb⟩ := sendCoins_succeeds b src dst cs h
  exact ⟨b', by simp [sendOk, hb]⟩

theorem balOf_addSupply (b : Bank) (cs : Coins) (a' d') :
    Bank.balOf (addSupply b cs) a' d' = Bank.balOf b a' d' := by
  induction cs generalizing b with
  | nil => rfl
  | cons c r ih => obtain ⟨d, n⟩ := c; simp only [addSupply]; rw [ih]; rfl

theorem balOf_subSupply (b : Bank) (cs : Coins) (a' d') :
    Bank.balOf (subSupply b cs) a' d' = Bank.balOf b a' d' := by
  induction cs generalizing b with
  | nil => rfl
  | cons c r ih => obtain ⟨d, n⟩ := c; simp only [subSupply]; rw [ih]; rfl

theorem supplyOf_set (b : Bank) (d v d') :
    Bank.supplyOf { b with supply := AMap.set b.supply d v } d' = if d = d' then v else Bank.supplyOf b d' := by
  by_cases h : d = d'
  · subst h; simp [Bank.supplyOf, AMap.getD, AMap.get?_set_self]
  · simp [Bank.supplyOf, AMap.getD, AMap.get?_set_other _ _ _ _ h, h]

theorem supplyOf_addSupply (b : Bank) (cs : Coins) (d' : Denom) :
    Bank.supplyOf (addSupply b cs) d' = Bank.supplyOf b d' + coinAmt cs d' := by
  induction cs generalizing b with
  | nil => simp [addSupply, coinAmt]
  | cons c r ih =>
    obtain ⟨d, n⟩ := c
    simp only [addSupply, coinAmt]
    rw [ih, supplyOf_set]
    by_cases h : d = d'
    · subst h; simp; omega
    · simp [h]

theorem supplyOf_subSupply (b : Bank) (cs : Coins) (d' : Denom) :
    Bank.supplyOf (subSupply b cs) d' = Bank.supplyOf b d' - coinAmt cs d' := by
  induction cs generalizing b with
  | nil => simp [subSupply, coinAmt]
  | cons c r ih =>
    obtain ⟨d, n⟩ := c
    simp only [subSupply, coinAmt]
    rw [ih, supplyOf_set]
    by_cases h : d = d'
    · subst h; simp; omega
    · simp [h]

theorem balOf_mintCoins (b : Bank) (a : Addr) (cs : Coins) (a' d') :
    Bank.balOf (mintCoins b a cs) a' d' = Bank.balOf b a' d' + (if a' = a then coinAmt cs d' else 0) := by
  unfold mintCoins; rw [balOf_addSupply, balOf_addCoins]

theorem supplyOf_mintCoins (b : Bank) (a : Addr) (cs : Coins) (d') :
    Bank.supplyOf (mintCoins b a cs) d' = Bank.supplyOf b d' + coinAmt cs d' := by
  unfold mintCoins; rw [supplyOf_addSupply, supplyOf_addCoins]

theorem burnCoins_ok {b b' : Bank} {a : Addr} {cs : Coins} (h : burnCoins b a cs = some b') :
    (∀ a' d', Bank.balOf b' a' d' + (if a' = a then coinAmt cs d' else 0) = Bank.balOf b a' d') ∧
    (∀ d', Bank.supplyOf b' d' = Bank.supplyOf b d' - coinAmt cs d') := by
  unfold burnCoins at h
  split at h
  · rename_i b1 h1
    cases h
    refine ⟨fun a' d' => ?_, fun d' => ?_⟩
    · rw [balOf_subSupply]; exact subCoins_ok h1 a' d'
    · rw [supplyOf_subSupply, subCoins_supply h1]
  · cases h

theorem burnCoins_succeeds (b : Bank) (a : Addr) (cs : Coins)
    (h : ∀ d, coinAmt cs d ≤ Bank.balOf b a d) : ∃ b', burnCoins b a cs = some b' := by
  have := subCoins_succeeds b a cs h
  unfold burnCoins
  cases hs : subCoins b a cs with
  | mk b1 ok =>
    rw [hs] at this
    simp at this
    subst this
    exact ⟨_, rfl⟩

theorem subCoins_eq_debit {b b' : Bank} {a : Addr} {cs : Coins} (h : subCoins b a cs = (b', true)) :
    b' = Spec.C03.debit b a cs := by
  induction cs generalizing b with
  | nil => simp [subCoins] at h; subst h; rfl
  | cons c r ih =>
    obtain ⟨d, n⟩ := c
    simp only [subCoins] at h
    split at h
    · cases h
    · exact ih h

theorem sendCoins_eq {b b' : Bank} {src dst : Addr} {cs : Coins} (h : sendCoins b src dst cs = (b', true)) :
    b' = Spec.C03.credit (Spec.C03.debit b src cs) dst cs := by
  unfold sendCoins at h
  split at h
  · cases h
  · rename_i b1 h1; cases h; rw [subCoins_eq_debit h1]; rfl

theorem burnCoins_eq {b b' : Bank} {a : Addr} {cs : Coins} (h : burnCoins b a cs = some b') :
    b' = subSupply (Spec.C03.debit b a cs) cs := by
  unfold burnCoins at h
  split at h
  · rename_i b1 h1; cases h; rw [subCoins_eq_debit h1]
  · cases h

theorem coinAmt_single (d : Denom) (n : Nat) (d' : Denom) : coinAmt [(d, n)] d' = if d = d' then n else 0 := by
  simp [coinAmt]

/-! ### sums over the contract table -/

section sums
variable {V : Type}

theorem sumBy_set (f : V → Nat) (m : AMap Id V) (k : Id) (v : V) :
    AMap.sumBy f (AMap.set m k v) + ((AMap.get? m k).map f).getD 0 = AMap.sumBy f m + f v := by
  have := AMap.sumIf_set (fun _ : Id => true) f m k v
  simpa [AMap.sumBy] using this

theorem le_sumBy (f : V → Nat) (m : AMap Id V) (k : Id) (v : V) (h : AMap.get? m k = some v) :
    f v ≤ AMap.sumBy f m := by
  induction m with
  | nil => simp at h
  | cons hd t ih =>
    obtain ⟨k', v'⟩ := hd
    simp only [AMap.sumBy, AMap.sumIf, if_true]
    simp only [AMap.get?] at h
    split at h
    · cases h; omega
    · have := ih h; simp only [AMap.sumBy] at this; omega

theorem get?_set (m : AMap Id V) (k : Id) (v : V) (k' : Id) :
    AMap.get? (AMap.set m k v) k' = if k = k' then some v else AMap.get? m k' := by
  by_cases h : k = k'
  · subst h; simp [AMap.get?_set_self]
  · simp [h, AMap.get?_set_other _ _ _ _ h]

theorem keys_set (m : AMap Id V) (k : Id) (v : V) :
    (AMap.set m k v).map (·.1) = if k ∈ m.map (·.1) then m.map (·.1) else m.map (·.1) ++ [k] := by
  induction m with
  | nil => simp [AMap.set]
  | cons hd t ih =>
    obtain ⟨k', v'⟩ := hd
    by_cases e : k' = k
    · subst e; simp [AMap.set]
    · simp only [AMap.set, e, if_false, List.map_cons, ih]
      have e' : ¬ (k = k') := fun h => e h.symm
      by_cases hm : k ∈ t.map (·.1)
      · simp [hm, e']
      · simp [hm, e']

theorem nodup_keys_set (m : AMap Id V) (k : Id) (v : V) (h : (m.map (·.1)).Nodup) :
    ((AMap.set m k v).map (·.1)).Nodup := by
  rw [keys_set]
  split
  · exact h
  · rename_i hk
    rw [List.nodup_append]
    refine ⟨h, by simp, ?_⟩
    intro a ha b hb
    simp at hb; subst hb
    intro e; subst e; exact hk ha

theorem mem_keys_of_get? (m : AMap Id V) (k : Id) (v : V) (h : AMap.get? m k = some v) : k ∈ m.map (·.1) := by
  induction m with
  | nil => simp at h
  | cons hd t ih =>
    obtain ⟨k', v'⟩ := hd
    simp only [AMap.get?] at h
    split at h
    · rename_i e; subst e; simp
    · simp [ih h]

/-- with one entry per key, a function vanishing on every looked-up value has sum zero -/
theorem sumBy_eq_zero (f : V → Nat) (m : AMap Id V) (hnd : (m.map (·.1)).Nodup)
    (h : ∀ k v, AMap.get? m k = some v → f v = 0) : AMap.sumBy f m = 0 := by
  induction m with
  | nil => rfl
  | cons hd t ih =>
    obtain ⟨k, v⟩ := hd
    simp only [List.map_cons, List.nodup_cons] at hnd
    simp only [AMap.sumBy, AMap.sumIf, if_true]
    have h0 : f v = 0 := h k v (by simp [AMap.get?])
    have ht : AMap.sumBy f t = 0 := by
      apply ih hnd.2
      intro k' v' hg
      apply h k' v'
      have hne : ¬ (k = k') := by
        intro e; subst e; exact hnd.1 (mem_keys_of_get? t k v' hg)
      simp [AMap.get?, hne, hg]
    simp only [AMap.sumBy] at ht
    omega

end sums

theorem getS?_set (m : AMap Denom Supply) (k : Denom) (v : Supply) (k' : Denom) :
    AMap.get? (AMap.set m k v) k' = if k = k' then some v else AMap.get? m k' := by
  by_cases h : k = k'
  · subst h; simp [AMap.get?_set_self]
  · simp [h, AMap.get?_set_other _ _ _ _ h]

theorem contains_false {m : AMap Id Contract} {k : Id} (h : AMap.contains m k = false) : AMap.get? m k = none := by
  unfold AMap.contains at h
  cases hg : AMap.get? m k with
  | none => rfl
  | some v => simp [hg] at h

/-! ### queue -/

theorem mem_enqueue (q : List (Nat × Id)) (e x : Nat × Id) : x ∈ enqueue q e ↔ x ∈ q ∨ x = e := by
  unfold enqueue
  split
  · rename_i h
    have : e ∈ q := by simpa using h
    constructor
    · intro hx; exact Or.inl hx
    · rintro (hx | rfl); exact hx; exact this
  · simp

theorem nodup_enqueue (q : List (Nat × Id)) (e : Nat × Id) (h : q.Nodup) : (enqueue q e).Nodup := by
  unfold enqueue
  split
  · exact h
  · rename_i hc
    have hne : e ∉ q := by simpa using hc
    rw [List.nodup_append]
    refine ⟨h, by simp, ?_⟩
    intro a ha b hb
    simp at hb
    subst hb
    intro e'; subst e'; exact hne ha

theorem mem_dequeue (q : List (Nat × Id)) (e x : Nat × Id) : x ∈ dequeue q e ↔ x ∈ q ∧ x ≠ e := by
  unfold dequeue
  simp [List.mem_filter]

theorem nodup_dequeue (q : List (Nat × Id)) (e : Nat × Id) (h : q.Nodup) : (dequeue q e).Nodup := by
  unfold dequeue
  exact h.filter _

theorem mem_dueIds (q : List (Nat × Id)) (h : Nat) (id : Id) : id ∈ dueIds q h ↔ (h, id) ∈ q := by
  unfold dueIds
  simp only [List.mem_map, List.mem_filter]
  constructor
  · rintro ⟨⟨h', id'⟩, ⟨hm, hh⟩, rfl⟩
    simp at hh; subst hh; exact hm
  · intro hm; exact ⟨(h, id), ⟨hm, by simp⟩, rfl⟩

theorem nodup_dueIds (q : List (Nat × Id)) (h : Nat) (hq : q.Nodup) : (dueIds q h).Nodup := by
  unfold dueIds
  induction q with
  | nil => simp
  | cons x t ih =>
    have ht := (List.nodup_cons.mp hq)
    simp only [List.filter]
    split
    · rename_i hx
      simp only [List.map, List.nodup_cons]
      refine ⟨?_, ih ht.2⟩
      intro hmem
      have := (mem_dueIds t h x.2).mp (by unfold dueIds; exact hmem)
      have hx' : x.1 = h := by simpa using hx
      apply ht.1
      have : x = (h, x.2) := by rw [← hx']
      rw [this]; assumption
    · exact ih ht.2

end Irismod.Proofs.Htlc
