/-
Effect lemmas for `updatePool`, `refund` and the other state transformers of the farm model.
-/
import Irismod.Proofs.FarmBasic

namespace Irismod.Proofs.Farm
open Irismod Irismod.Sdk Irismod.Farm Irismod.Spec

/-- pointwise relation of two lists (core has no `Forall₂`) -/
inductive All2 {α β : Type} (R : α → β → Prop) : List α → List β → Prop
  | nil : All2 R [] []
  | cons {a b l₁ l₂} : R a b → All2 R l₁ l₂ → All2 R (a :: l₁) (b :: l₂)

/-! ### one release step on one rule -/

/-- `collectRule` succeeded -/
def Stepped (i L : Nat) (r r' : Rule) : Prop := collectRule i L r = .ok r'

theorem stepped_facts {i L : Nat} {r r' : Rule} (h : Stepped i L r r') :
    r'.denom = r.denom ∧ r'.total = r.total ∧ r'.rpb = r.rpb ∧
    r'.remaining + r.rpb * i = r.remaining ∧ r'.released = r.released + r.rpb * i ∧
    r'.refunded = r.refunded ∧ r'.nRefund = r.nRefund ∧ r'.nRel = r.nRel + 1 ∧
    r'.acc = r.acc + ((r.rpb * i : Nat) : Rat) / (L : Rat) ∧
    L ≠ 0 ∧ r'.rps.raw = r.rps.raw + (((r.rpb * i : Nat) : Int) * precision).tdiv (L : Int) := by
  unfold Stepped collectRule at h
  split at h; · cases h
  rename_i hrem
  split at h; · cases h
  rename_i q hq
  split at h; · cases h
  rename_i rps' hadd
  cases h
  have hL : (L : Int) ≠ 0 ∧ q = ⟨(((r.rpb * i : Nat) : Int) * precision).tdiv (L : Int)⟩ := by
    unfold Dec.quoInt at hq
    split at hq
    · cases hq
    · rename_i hne; cases hq; exact ⟨hne, rfl⟩
  have hadd' : rps'.raw = r.rps.raw + q.raw := by
    unfold Dec.add chkDec at hadd
    split at hadd
    · simp at hadd; rw [← hadd]
    · simp at hadd
  refine ⟨rfl, rfl, rfl, ?_, rfl, rfl, rfl, rfl, rfl, ?_, ?_⟩
  · simp only; omega
  · intro e; apply hL.1; simp [e]
  · rw [hadd', hL.2]

/-- the release loop succeeded on a whole rule list -/
theorem collectRules_ok {i L : Nat} : ∀ {rs rs' : List Rule},
    collectRules i L rs = (rs', none) → All2 (Stepped i L) rs rs'
  | [], rs', h => by simp [collectRules] at h; subst h; exact All2.nil
  | r :: rs, rs', h => by
    unfold collectRules at h
    split at h
    · simp at h
    · rename_i r' hr
      simp only [Prod.mk.injEq] at h
      obtain ⟨h1, h2⟩ := h
      subst h1
      have : collectRules i L rs = ((collectRules i L rs).1, none) := by rw [← h2]
      exact All2.cons hr (collectRules_ok this)

/-- relation between a pool's rules before and after `updatePool` -/
def RulesRel (i L : Nat) (rs rs' : List Rule) : Prop :=
  rs' = rs ∨ (0 < i ∧ 0 < L ∧ All2 (Stepped i L) rs rs')

/-- the amount released in denom `d` by one step of the loop -/
def releasedIn (i : Nat) (d : Denom) : List Rule → Nat
  | [] => 0
  | r :: rs => (if r.denom = d then r.rpb * i else 0) + releasedIn i d rs

theorem forall2_remaining {i L : Nat} {rs rs' : List Rule} (h : All2 (Stepped i L) rs rs') (d : Denom) :
    C05.remainingIn d rs' + releasedIn i d rs = C05.remainingIn d rs := by
  induction h with
  | nil => rfl
  | cons hr _ ih =>
    obtain ⟨hd, _, _, hrem, _⟩ := stepped_facts hr
    simp only [C05.remainingIn, releasedIn, hd]
    split <;> omega

theorem sumOf_collected (i : Nat) (d : Denom) (rs : List Rule) :
    sumOf (collectedCoins i rs) d = releasedIn i d rs := by
  unfold collectedCoins
  rw [sumOf_nonzero]
  induction rs with
  | nil => rfl
  | cons r rs ih => simp [sumOf, releasedIn, ih]

theorem forall2_denoms {i L : Nat} {rs rs' : List Rule} (h : All2 (Stepped i L) rs rs') :
    rs'.map (·.denom) = rs.map (·.denom) := by
  induction h with
  | nil => rfl
  | cons hr _ ih => simp [(stepped_facts hr).1, ih]

theorem forall2_ne_nil {i L : Nat} {rs rs' : List Rule} (h : All2 (Stepped i L) rs rs') (hn : rs ≠ []) :
    rs' ≠ [] := by
  cases h with
  | nil => exact absurd rfl hn
  | cons _ _ => simp

theorem forall2_rpb {i L : Nat} {rs rs' : List Rule} (h : All2 (Stepped i L) rs rs')
    (hp : ∀ r ∈ rs, 0 < r.rpb) : ∀ r ∈ rs', 0 < r.rpb := by
  induction h with
  | nil => simp
  | cons hr _ ih =>
    intro r hr'
    simp only [List.mem_cons] at hr'
    rcases hr' with e | e
    · subst e; rw [(stepped_facts hr).2.2.1]; exact hp _ (by simp)
    · exact ih (fun r hr => hp r (by simp [hr])) r e

/-! ### shape of a successful `updatePool` -/

/-- the pool record `updatePool` writes -/
def finalPool (s : State) (p : Pool) (rs : List Rule) (amount : Int) (isDestroy : Bool) : Pool :=
  { p with locked := ((p.locked : Int) + amount).toNat, last := s.height, rules := rs,
           endH := if isDestroy then s.height else p.endH,
           start := if isDestroy && decide (p.start > s.height) then s.height else p.start }

theorem set_set {K V : Type} [DecidableEq K] (m : AMap K V) (k : K) (v v' : V) :
    AMap.set (AMap.set m k v) k v' = AMap.set m k v' := by
  induction m with
  | nil => simp [AMap.set]
  | cons hd t ih =>
    obtain ⟨k', v0⟩ := hd
    by_cases hk : k' = k
    · simp [AMap.set, hk]
    · simp [AMap.set, hk, ih]

theorem finishUpdate_ok {s s' : State} {id : PoolId} {p p' : Pool} {rs : List Rule} {amount : Int} {isDestroy : Bool}
    (h : finishUpdate s id p rs amount isDestroy = (s', .ok p')) :
    0 ≤ (p.locked : Int) + amount ∧ p' = finalPool s p rs amount isDestroy ∧ s' = setPool s id p' := by
  unfold finishUpdate at h
  split at h
  · simp at h
  · rename_i hneg
    simp only [Prod.mk.injEq, Except.ok.injEq] at h
    obtain ⟨h1, h2⟩ := h
    refine ⟨by omega, ?_, ?_⟩
    · rw [← h2]; rfl
    · rw [← h1, ← h2]

/-- everything a successful `updatePool` did -/
structure UpdOk (s s' : State) (id : PoolId) (p p' : Pool) (amount : Int) (isDestroy : Bool) : Prop where
  nonneg   : 0 ≤ (p.locked : Int) + amount
  lastLe   : p.last ≤ s.height
  rulesNe  : p.rules ≠ []
  pool     : p' = finalPool s p p'.rules amount isDestroy
  rules    : RulesRel (s.height - p.last).toNat p.locked p.rules p'.rules
  relIff   : p'.rules = p.rules ↔ ¬ (s.height > p.last ∧ p.locked > 0)
  pools    : s'.pools = AMap.set s.pools id p'
  farmers  : s'.farmers = s.farmers
  queue    : s'.queue = s.queue
  height   : s'.height = s.height
  seq      : s'.seq = s.seq
  params   : s'.params = s.params
  ledger   : s'.ledger = s.ledger
  resp     : s'.resp = s.resp
  cp       : s'.cp = s.cp
  supply   : s'.bank.supply = s.bank.supply
  farm     : ∀ d, s'.bank.balOf farmAcc d + (C05.remainingIn d p.rules - C05.remainingIn d p'.rules) = s.bank.balOf farmAcc d
  remLe    : ∀ d, C05.remainingIn d p'.rules ≤ C05.remainingIn d p.rules
  coll     : ∀ d, s'.bank.balOf collectorAcc d = s.bank.balOf collectorAcc d + (C05.remainingIn d p.rules - C05.remainingIn d p'.rules)
  others   : ∀ a d, a ≠ farmAcc → a ≠ collectorAcc → s'.bank.balOf a d = s.bank.balOf a d

theorem farm_ne_collector : farmAcc ≠ collectorAcc := by decide

theorem updatePool_ok {s s' : State} {id : PoolId} {p p' : Pool} {amount : Int} {isDestroy : Bool}
    (h : updatePool s id p amount isDestroy = (s', .ok p')) : UpdOk s s' id p p' amount isDestroy := by
  unfold updatePool at h
  split at h; · simp at h
  rename_i hlast
  split at h; · simp at h
  rename_i hne
  have hne' : p.rules ≠ [] := by intro e; apply hne; simp [e]
  split at h
  · rename_i hrel
    split at h
    · simp at h
    · rename_i hnone
      generalize hcr : collectRules (s.height - p.last).toNat p.locked p.rules = cr at h hnone
      obtain ⟨rs, eo⟩ := cr
      simp only at hnone h
      subst hnone
      have hf2 := collectRules_ok hcr
      have hi : 0 < (s.height - p.last).toNat := by omega
      unfold releaseAndFinish at h
      split at h
      · -- nothing collected (cannot happen with positive rates, but the code allows it)
        rename_i hcoins
        obtain ⟨hnn, hp', hs'⟩ := finishUpdate_ok h
        have hrules : p'.rules = rs := by rw [hp']; rfl
        have hzero : ∀ d, releasedIn (s.height - p.last).toNat d p.rules = 0 := by
          intro d; rw [← sumOf_collected, hcoins]; rfl
        have hrem : ∀ d, C05.remainingIn d rs = C05.remainingIn d p.rules := by
          intro d; have := forall2_remaining hf2 d; rw [hzero d] at this; omega
        refine { nonneg := hnn, lastLe := by omega, rulesNe := hne', pool := by rw [hrules]; exact hp',
                 rules := by rw [hrules]; exact Or.inr ⟨hi, hrel.2, hf2⟩,
                 relIff := ?_, pools := ?_, farmers := by rw [hs']; rfl, queue := by rw [hs']; rfl,
                 height := by rw [hs']; rfl, seq := by rw [hs']; rfl, params := by rw [hs']; rfl,
                 ledger := by rw [hs']; rfl, resp := by rw [hs']; rfl, cp := by rw [hs']; rfl, supply := by rw [hs']; rfl,
                 farm := ?_, remLe := ?_, coll := ?_, others := ?_ }
        · constructor
          · intro e
            -- rules unchanged although a release happened: impossible (nRel grows)
            exfalso
            rw [hrules] at e
            rw [e] at hf2
            cases hpr : p.rules with
            | nil => exact hne' hpr
            | cons r t =>
              rw [hpr] at hf2
              cases hf2 with
              | cons hr _ => have := (stepped_facts hr).2.2.2.2.2.2.2.1; omega
          · intro hc; exact absurd hrel hc
        · rw [hs']; simp [setPool, set_set]
        · intro d; rw [hrules, hrem d, hs']; simp [setPool]
        · intro d; rw [hrules, hrem d]; exact Nat.le_refl _
        · intro d; rw [hrules, hrem d, hs']; simp [setPool]
        · intro a d _ _; rw [hs']; rfl
      · rename_i hcoins
        split at h
        · simp at h
        · rename_i s1 hsend
          obtain ⟨hnn, hp', hs'⟩ := finishUpdate_ok h
          have hrules : p'.rules = rs := by rw [hp']; rfl
          unfold sendAll at hsend
          split at hsend
          · cases hsend
          · rename_i b hb
            cases hsend
            simp only [setPool] at hb
            obtain ⟨d1, d2, d3⟩ := sendCoins_deltas _ _ _ _ _ farm_ne_collector hb
            have hrem : ∀ d, C05.remainingIn d rs + sumOf (collectedCoins (s.height - p.last).toNat p.rules) d
                = C05.remainingIn d p.rules := by
              intro d; rw [sumOf_collected]; exact forall2_remaining hf2 d
            refine { nonneg := hnn, lastLe := by omega, rulesNe := hne', pool := by rw [hrules]; exact hp',
                     rules := by rw [hrules]; exact Or.inr ⟨hi, hrel.2, hf2⟩,
                     relIff := ?_, pools := ?_, farmers := by rw [hs']; rfl, queue := by rw [hs']; rfl,
                     height := by rw [hs']; rfl, seq := by rw [hs']; rfl, params := by rw [hs']; rfl,
                     ledger := by rw [hs']; rfl, resp := by rw [hs']; rfl, cp := by rw [hs']; rfl,
                     supply := ?_, farm := ?_, remLe := ?_, coll := ?_, others := ?_ }
            · constructor
              · intro e
                exfalso
                rw [hrules] at e
                rw [e] at hf2
                cases hpr : p.rules with
                | nil => exact hne' hpr
                | cons r t =>
                  rw [hpr] at hf2
                  cases hf2 with
                  | cons hr _ => have := (stepped_facts hr).2.2.2.2.2.2.2.1; omega
              · intro hc; exact absurd hrel hc
            · rw [hs']; simp [setPool, set_set]
            · rw [hs']; simp only [setPool]
              clear hs' hp' h
              -- sendCoins never touches the supply
              have : ∀ (cs : CoinList) (b0 b1 : Bank), Bank.sendCoins b0 farmAcc collectorAcc cs = some b1 → b1.supply = b0.supply := by
                intro cs
                induction cs with
                | nil => intro b0 b1 h; simp [Bank.sendCoins] at h; rw [h]
                | cons c t ih =>
                  intro b0 b1 h
                  obtain ⟨d0, n⟩ := c
                  simp only [Bank.sendCoins, Option.bind] at h
                  cases h1 : Bank.send b0 farmAcc collectorAcc d0 n with
                  | none => simp [h1] at h
                  | some b2 => simp only [h1] at h; rw [ih b2 b1 h, Bank.send_supply _ _ _ _ _ _ h1]
              exact this _ _ _ hb
            · intro d; rw [hrules, hs']; simp only [setPool]
              have := d1 d; have := hrem d; omega
            · intro d; rw [hrules]; have := hrem d; omega
            · intro d; rw [hrules, hs']; simp only [setPool]
              have := d2 d; have := hrem d; omega
            · intro a d ha1 ha2; rw [hs']; simp only [setPool]; exact d3 a d ha1 ha2
  · rename_i hrel
    obtain ⟨hnn, hp', hs'⟩ := finishUpdate_ok h
    have hrules : p'.rules = p.rules := by rw [hp']; rfl
    exact { nonneg := hnn, lastLe := by omega, rulesNe := hne', pool := by rw [hrules]; exact hp',
            rules := Or.inl hrules, relIff := ⟨fun _ => hrel, fun _ => hrules⟩,
            pools := by rw [hs']; rfl, farmers := by rw [hs']; rfl, queue := by rw [hs']; rfl,
            height := by rw [hs']; rfl, seq := by rw [hs']; rfl, params := by rw [hs']; rfl,
            ledger := by rw [hs']; rfl, resp := by rw [hs']; rfl, cp := by rw [hs']; rfl, supply := by rw [hs']; rfl,
            farm := by intro d; rw [hrules, hs']; simp [setPool],
            remLe := by intro d; rw [hrules]; exact Nat.le_refl _,
            coll := by intro d; rw [hrules, hs']; simp [setPool],
            others := by intro a d _ _; rw [hs']; rfl }

end Irismod.Proofs.Farm
