/-
Soundness of the STATE clauses of the C05 monitor (`Spec.C05.check`) with respect to the model:
along every history of the model from a genesis state, none of the clauses

  stakes-sum, module-account, escrow-account, gov-account, community-pool-backed,
  community-pool-lockstep, escrow-tables, rejected-unchanged (for a rejected message)

can fire.  So a failure of one of these clauses on an implementation trace is never an artefact
of the monitor demanding more than the theorems of `Props/C05.lean` establish about the model.

PARTIAL: the three `…-exact` clauses (`interactionOk`), the classification of a failed
withdrawal (`collectorShort`) and `rejected-unchanged` for a gov EndBlocker pass that reports an
error are NOT covered here; for those the tie between monitor and model is the differential run
alone (model and implementation are fed the same operations and the monitor is evaluated on both
traces by `drv-farm`).
-/
import Irismod.Props.C05

namespace Irismod.Proofs.FarmMonitor
open Irismod Irismod.Sdk Irismod.Farm Irismod.Spec Irismod.Spec.C05 Irismod.Proofs.Farm Irismod.Props.C05

theorem filter_nil_of {α : Type} (l : List α) (p : α → Bool) (h : ∀ a, p a = false) : l.filter p = [] := by
  rw [List.filter_eq_nil_iff]; intro a _; rw [h a]; simp

theorem get?_of_mem_nodup {K V : Type} [DecidableEq K] {m : AMap K V} (hnd : (m.map (·.1)).Nodup) {e : K × V}
    (h : e ∈ m) : AMap.get? m e.1 = some e.2 := by
  obtain ⟨k, v⟩ := e
  induction m with
  | nil => simp at h
  | cons hd t ih =>
    obtain ⟨k', v'⟩ := hd
    simp only [List.map_cons, List.nodup_cons] at hnd
    simp only [List.mem_cons, Prod.mk.injEq] at h
    rcases h with ⟨rfl, rfl⟩ | h
    · simp [AMap.get?]
    · have hk : k ∈ t.map (·.1) := List.mem_map.mpr ⟨(k, v), h, rfl⟩
      have hne : ¬ (k' = k) := by intro e; subst e; exact hnd.1 hk
      simp only [AMap.get?, hne, if_false]
      exact ih hnd.2 h

/-- (a) -/
theorem stakesSumB_of {s : State} (h : StakesSum s) : stakesSumB s = true := by
  unfold stakesSumB
  rw [List.all_eq_true]
  intro id _
  rw [h id]; exact beq_self_eq_true _

/-- (b) -/
theorem moduleAccountDiffs_of {s : State} (h : ModuleAccount s) : moduleAccountDiffs s = [] := by
  unfold moduleAccountDiffs
  apply filter_nil_of
  intro d
  rw [h d]; simp

/-- (e) escrow collector -/
theorem escrowAccountDiffs_of {s : State} (h : EscrowAccount s) : escrowAccountDiffs s = [] := by
  unfold escrowAccountDiffs
  apply filter_nil_of
  intro d
  rw [h d]; simp

theorem govAccountB_of {s : State} (h : GovAccount s) : govAccountB s = true := by
  unfold govAccountB; rw [h]; exact beq_self_eq_true _

theorem backedDiffs_of {s : State} (h : Backed s) : backedDiffs s = [] := by
  unfold backedDiffs
  apply filter_nil_of
  intro d
  have := h d
  simp only [decide_eq_false_iff_not, Nat.not_lt, ge_iff_le, gt_iff_lt]
  exact this

theorem lockDiffs_of {pre post : State} (h : ∀ d, distrGap post d = distrGap pre d) : lockDiffs pre post = [] := by
  unfold lockDiffs
  apply filter_nil_of
  intro d
  rw [h d]; simp

theorem tablesB_of {s : State} (h : Tables s) : tablesB s = true := by
  unfold tablesB
  rw [Bool.and_eq_true, List.all_eq_true, List.all_eq_true]
  constructor
  · intro e he
    have hg : AMap.get? s.cp.escrow e.1 = some e.2 := get?_of_mem_nodup h.ekeys he
    obtain ⟨pr, hp, ha, _⟩ := h.info e.1 e.2 hg
    rw [hp]; exact ha
  · intro e he
    have hg : AMap.get? s.cp.props e.1 = some e.2 := get?_of_mem_nodup h.pkeys he
    by_cases ha : alive e.2 = true
    · obtain ⟨x, hx⟩ := h.live e.1 e.2 hg ha
      simp only [ha, if_true, hx, Option.isSome_some]
    · have ha' : alive e.2 = false := by simpa using ha
      have := h.done e.1 e.2 hg ha'
      simp [ha', this]

/-! ### a rejected message leaves everything as it was -/

theorem sameMap_refl {K V : Type} [DecidableEq K] [BEq V] [ReflBEq V] (a : AMap K V) : sameMap a a = true := by
  unfold sameMap
  rw [List.all_eq_true]
  intro k _
  exact beq_self_eq_true _

instance : ReflBEq Rule := ⟨by intro a; show (_ && _ && _ && _ && _) = true; simp⟩
instance : ReflBEq Pool := ⟨by intro a; show (_ && _ && _ && _ && _ && _ && _ && _ && _) = true; simp⟩
instance : ReflBEq Farmer := ⟨by intro a; show (_ && _) = true; simp⟩
instance : ReflBEq Escrow := ⟨by intro a; show (_ && _ && _) = true; simp⟩

theorem sameObserved_refl (s : State) : sameObserved s s = true := by
  unfold sameObserved
  simp only [Bool.and_eq_true, beq_self_eq_true, sameMap_refl, true_and, List.all_eq_true]
  refine ⟨⟨?_, ?_⟩, ?_⟩
  · intro x hx; simpa using hx
  · intro x hx; simpa using hx
  · intro k _; trivial

theorem sameCp_refl (s : State) : sameCp s s = true := by
  unfold sameCp
  simp only [Bool.and_eq_true, sameMap_refl, true_and, List.all_eq_true, beq_self_eq_true]
  exact ⟨fun _ _ => trivial, fun _ _ => trivial⟩

/-- a message (anything but the block-end operations) the model rejects leaves the state as it
was, so the monitor's `rejected-unchanged` comparison holds -/
theorem rejected_unchanged (s : State) (op : Op) (e : Err) (h : step s op = .error e)
    (hmsg : match op with | .endBlocks _ | .cpPass _ | .cpReject _ | .cpFailDeposit _ => False | _ => True) :
    (sameObserved s (apply s op) && sameCp s (apply s op)) = true := by
  have : apply s op = s := by
    cases op <;> first | exact absurd hmsg id | (simp only [apply, h])
  rw [this, sameObserved_refl, sameCp_refl]; rfl

/-! ### the state clauses along every history -/

/-- the failures the state clauses of `Spec.C05.check` contribute -/
def stateClauses (pre post : State) : List String :=
  (if stakesSumB post then [] else ["clause=stakes-sum"]) ++
  ((moduleAccountDiffs post).map fun d => s!"clause=module-account denom={d}") ++
  ((escrowAccountDiffs post).map fun d => s!"clause=escrow-account denom={d}") ++
  (if govAccountB post then [] else ["clause=gov-account"]) ++
  ((backedDiffs post).map fun d => s!"clause=community-pool-backed denom={d}") ++
  ((lockDiffs pre post).map fun d => s!"clause=community-pool-lockstep denom={d}") ++
  (if tablesB post then [] else ["clause=escrow-tables"])

/-- `check` reports the state clauses first, then the operation-specific ones -/
theorem check_prefix (m : Mon) (pre : State) (op : Op) (res : String) (post : State) :
    ∃ rest, (check m pre op res post).2 = stateClauses pre post ++ rest := by
  simp only [check, stateClauses, List.append_assoc]
  exact ⟨_, rfl⟩

/-- **Monitor soundness for C05, state clauses (partial, see the header)**: along every history of
the model from a genesis state, after every further operation, no state clause fires. -/
theorem monitor_state_clauses_sound_partial (s0 : State) (ops : List Op) (op : Op) (hg : Genesis s0) (hh : 0 ≤ s0.height) :
    stateClauses (run s0 ops) (apply (run s0 ops) op) = [] := by
  have hi := inv_run ops s0 (inv_genesis hg hh)
  have hc := cp_inv_run s0 ops hg hh
  have hi' := inv_apply _ op hi
  have hc' := cpInv_apply _ op hi hc
  unfold stateClauses
  rw [stakesSumB_of hi'.stakes.sum, moduleAccountDiffs_of hi'.modacc, escrowAccountDiffs_of hc'.escrow,
    govAccountB_of hc'.gov, backedDiffs_of hc'.backed, lockDiffs_of (fun d => lock_apply _ op hi hc d),
    tablesB_of hc'.tables]
  rfl

end Irismod.Proofs.FarmMonitor
