/-
C12, the two small models: HTLC timestamp rule (F-gen-1) and oracle feed-value history (F-gen-2).
-/
import Irismod.Model.HtlcGenesis
import Irismod.Model.OracleGenesis
import Irismod.Proofs.RecordGenesis

namespace Irismod.Proofs.OracleGenesis
open Irismod.OracleGenesis

theorem setFeedValue_nil (b lh : Nat) (v : Value) : setFeedValue [] b lh v = [(b, v)] := by
  simp [setFeedValue, insertBatch]

theorem setFeedValue_single (b lh : Nat) (v0 v : Value) : setFeedValue [(b, v0)] b lh v = [(b, v)] := by
  unfold setFeedValue
  generalize (((([(b, v0)] : Hist).length : Int) - (lh : Int) + 1).toNat) = k
  cases k <;> simp [insertBatch]

/-- the last element of `vs`, or `d` when there is none -/
def lastOr : List Value → Value → Value
  | [], d => d
  | a :: t, _ => lastOr t a

theorem getLast?_cons_lastOr : ∀ (t : List Value) (v : Value), (v :: t).getLast? = some (lastOr t v)
  | [], _ => rfl
  | a :: t, v => by rw [List.getLast?_cons_cons]; exact getLast?_cons_lastOr t a

theorem fold_single (b lh : Nat) : ∀ (vs : List Value) (v0 : Value),
    vs.foldl (fun h v => setFeedValue h b lh v) [(b, v0)] = [(b, lastOr vs v0)]
  | [], _ => rfl
  | v :: t, v0 => by
    simp only [List.foldl_cons, setFeedValue_single]
    exact fold_single b lh t v

/-- whatever the list, `InitGenesis` leaves one entry: the last value written -/
theorem importValues_eq (b lh : Nat) (vs : List Value) :
    importValues b lh vs = (vs.getLast?.map (fun v => (b, v))).toList := by
  cases vs with
  | nil => rfl
  | cons v t =>
    unfold importValues
    simp only [List.foldl_cons, setFeedValue_nil]
    rw [fold_single, getLast?_cons_lastOr]
    rfl

theorem getLast?_export (h : Hist) : (exportValues h).getLast? = h.head?.map (·.2) := by
  unfold exportValues getFeedValues
  rw [List.getLast?_reverse, List.head?_map]

end Irismod.Proofs.OracleGenesis

namespace Irismod.Proofs.HtlcGenesis
open Irismod Irismod.HtlcGenesis Irismod.Proofs.GenesisList

/-- facts about every reachable store (started after the first 15 minutes of unix time) -/
structure Inv (s : State) : Prop where
  nodup : (AMap.keys s.htlcs).Nodup
  exp   : ∀ e ∈ s.htlcs, e.2.expirationHeight ≠ 0
  htlt  : ∀ e ∈ s.htlcs, e.2.transfer = true → e.2.timestamp ≠ 0
  clock : 900 < s.time

theorem inv_step (s s' : State) (op : Op) (hi : Inv s) (h : step s op = some s') : Inv s' := by
  cases op with
  | create id ts timeLock transfer =>
    simp only [step] at h
    split at h; · cases h
    rename_i hl
    split at h; · cases h
    split at h; · cases h
    rename_i hts
    cases h
    refine ⟨nodupKeys_set hi.nodup _ _, ?_, ?_, hi.clock⟩
    · intro e he
      rcases Irismod.Proofs.RecordGenesis.mem_set _ _ _ _ he with rfl | he
      · show s.height + timeLock ≠ 0
        omega
      · exact hi.exp e he
    · intro e he
      rcases Irismod.Proofs.RecordGenesis.mem_set _ _ _ _ he with rfl | he
      · intro htr
        have htr : transfer = true := htr
        subst htr
        show ts ≠ 0
        simp only [Bool.true_and, Bool.not_eq_true', Bool.not_eq_false] at hts
        have hc := hi.clock
        unfold htltTsOk at hts
        simp only [Bool.and_eq_true, decide_eq_true_eq] at hts
        omega
      · exact hi.htlt e he
  | close id =>
    simp only [step] at h
    split at h; · cases h
    rename_i c hc
    split at h
    · cases h
      have hmem := Irismod.Proofs.GenesisList.mem_of_get? hc
      refine ⟨nodupKeys_set hi.nodup _ _, ?_, ?_, hi.clock⟩
      · intro e he
        rcases Irismod.Proofs.RecordGenesis.mem_set _ _ _ _ he with rfl | he
        · exact hi.exp (id, c) hmem
        · exact hi.exp e he
      · intro e he
        rcases Irismod.Proofs.RecordGenesis.mem_set _ _ _ _ he with rfl | he
        · exact hi.htlt (id, c) hmem
        · exact hi.htlt e he
    · cases h
  | nextBlock dt =>
    simp only [step] at h
    cases h
    exact ⟨hi.nodup, hi.exp, hi.htlt, by have := hi.clock; show 900 < s.time + dt; omega⟩

theorem inv_apply (s : State) (op : Op) (hi : Inv s) : Inv (apply s op) := by
  unfold apply
  cases h : step s op with
  | none => exact hi
  | some s' => exact inv_step s s' op hi h

theorem inv_run (ops : List Op) : ∀ s, Inv s → Inv (run s ops) := by
  induction ops with
  | nil => intro s h; exact h
  | cons op t ih => intro s h; exact ih _ (inv_apply s op h)

/-- `ValidateGenesis` accepts a duplicate-free list of open contracts that satisfy the rule -/
theorem validateWith_ok (vc : Contract → Bool) : ∀ (g : List (String × Contract)) (seen : List String),
    (AMap.keys g).Nodup → (∀ k ∈ AMap.keys g, k ∉ seen) →
    (∀ e ∈ g, e.2.isOpen = true ∧ vc e.2 = true) → validateWith vc seen g = true
  | [], _, _, _, _ => rfl
  | (id, c) :: t, seen, hn, hd, hv => by
    unfold AMap.keys at hn hd
    rw [List.map_cons, List.nodup_cons] at hn
    unfold validateWith
    have h1 : seen.contains id = false := by
      have := hd id (by simp)
      simpa using this
    have h2 := hv (id, c) (by simp)
    rw [h1, h2.1, h2.2]
    simp only [Bool.not_false, Bool.and_self, Bool.true_and]
    apply validateWith_ok vc t (id :: seen) hn.2
    · intro k hk
      rw [List.mem_cons, not_or]
      refine ⟨?_, hd k (List.mem_cons_of_mem _ hk)⟩
      intro e; subst e; exact hn.1 hk
    · intro e he; exact hv e (List.mem_cons_of_mem _ he)

theorem nodup_export (s : State) (h : (AMap.keys s.htlcs).Nodup) : (AMap.keys (exportGenesis s)).Nodup := by
  unfold exportGenesis AMap.keys
  exact List.Nodup.sublist (List.Sublist.map _ List.filter_sublist) h

theorem mem_export {s : State} {e : String × Contract} (h : e ∈ exportGenesis s) :
    e ∈ s.htlcs ∧ e.2.isOpen = true := by
  unfold exportGenesis at h
  rw [List.mem_filter] at h
  exact h

end Irismod.Proofs.HtlcGenesis
