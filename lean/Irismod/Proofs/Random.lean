/-
Helper lemmas for C18 / C13 (random): the effect of the begin-block loop on the queue and
on the stored randoms, preservation of the queue invariant, PRNG range, and the id scheme.
-/
import Irismod.Spec.C18
import Irismod.Proofs.RandomMap

namespace Irismod.Proofs.Random
open Irismod Irismod.Random Irismod.Spec.C18

variable {rid : Int → String → Id} {rnd : String → Option String} {started : List String}

/-! ### integers -/

theorem u64_of_small {x : Int} (h0 : 0 ≤ x) (h1 : x < two63) : ((u64 x : Nat) : Int) = x := by
  unfold u64 two64; unfold two63 at h1
  omega

/-! ### the begin-block loop: queue -/

/-- the queue after the loop: every visited request's own key is erased -/
def eraseDue (rid : Int → String → Id) (last : Int) (q : AMap (Nat × Id) Request) (reqs : List Request) :
    AMap (Nat × Id) Request :=
  reqs.foldl (fun q r => AMap.erase q (u64 last, rid r.height r.consumer)) q

theorem processOne_frame {s s' : State} {r : Request} {last : Int}
    (h : processOne rid rnd started last s r = .ok s') :
    s'.queue = AMap.erase s.queue (u64 last, rid r.height r.consumer) ∧ s'.height = s.height ∧
    s'.unix = s.unix ∧ s'.hash = s.hash ∧ s'.addrs = s.addrs ∧ s'.ctxs = s.ctxs := by
  unfold processOne at h
  split at h
  · split at h <;> (cases h; simp)
  · split at h
    · cases h
    · cases h; simp

theorem processAll_frame {s s' : State} {reqs : List Request} {last : Int}
    (h : processAll rid rnd started last s reqs = .ok s') :
    s'.queue = eraseDue rid last s.queue reqs ∧ s'.height = s.height ∧
    s'.unix = s.unix ∧ s'.hash = s.hash ∧ s'.addrs = s.addrs ∧ s'.ctxs = s.ctxs := by
  induction reqs generalizing s with
  | nil => simp only [processAll] at h; cases h; simp [eraseDue]
  | cons r t ih =>
    simp only [processAll] at h
    split at h
    · cases h
    · rename_i s1 h1
      have f1 := processOne_frame h1
      have f2 := ih h
      refine ⟨?_, ?_, ?_, ?_, ?_, ?_⟩
      · rw [f2.1, f1.1]; rfl
      · rw [f2.2.1, f1.2.1]
      · rw [f2.2.2.1, f1.2.2.1]
      · rw [f2.2.2.2.1, f1.2.2.2.1]
      · rw [f2.2.2.2.2.1, f1.2.2.2.2.1]
      · rw [f2.2.2.2.2.2, f1.2.2.2.2.2]

theorem mem_eraseDue {last : Int} {q : AMap (Nat × Id) Request} {reqs : List Request}
    {e : (Nat × Id) × Request} :
    e ∈ eraseDue rid last q reqs ↔ e ∈ q ∧ ∀ r ∈ reqs, e.1 ≠ (u64 last, rid r.height r.consumer) := by
  induction reqs generalizing q with
  | nil => simp [eraseDue]
  | cons r t ih =>
    have : eraseDue rid last q (r :: t) = eraseDue rid last (AMap.erase q (u64 last, rid r.height r.consumer)) t := rfl
    rw [this, ih, AMap.mem_erase]
    constructor
    · rintro ⟨⟨h1, h2⟩, h3⟩
      refine ⟨h1, ?_⟩
      intro r' hr'
      rcases List.mem_cons.mp hr' with rfl | hr'
      · exact h2
      · exact h3 r' hr'
    · rintro ⟨h1, h2⟩
      exact ⟨⟨h1, h2 r (by simp)⟩, fun r' hr' => h2 r' (by simp [hr'])⟩

theorem nodup_eraseDue {last : Int} {q : AMap (Nat × Id) Request} (reqs : List Request)
    (hn : AMap.NodupKeys q) : AMap.NodupKeys (eraseDue rid last q reqs) := by
  induction reqs generalizing q with
  | nil => exact hn
  | cons r t ih => exact ih (AMap.nodup_erase hn _)

theorem get?_eraseDue_other {last : Int} {q : AMap (Nat × Id) Request} (reqs : List Request)
    (key : Nat × Id) (hk : key.1 ≠ u64 last) :
    AMap.get? (eraseDue rid last q reqs) key = AMap.get? q key := by
  induction reqs generalizing q with
  | nil => rfl
  | cons r t ih =>
    have : eraseDue rid last q (r :: t) = eraseDue rid last (AMap.erase q (u64 last, rid r.height r.consumer)) t := rfl
    rw [this, ih, AMap.get?_erase_other]
    intro hc
    apply hk
    rw [← hc]

theorem mem_dueRequests {q : AMap (Nat × Id) Request} {k : Nat} {r : Request} :
    r ∈ dueRequests q k ↔ ∃ e ∈ q, e.1.1 = k ∧ e.2 = r := by
  unfold dueRequests
  simp only [List.mem_map, List.mem_filter, beq_iff_eq]
  constructor
  · rintro ⟨e, ⟨h1, h2⟩, h3⟩; exact ⟨e, h1, h2, h3⟩
  · rintro ⟨e, h1, h2, h3⟩; exact ⟨e, ⟨h1, h2⟩, h3⟩

/-! ### totality of the loop -/

theorem processAll_total (last : Int) (s : State) (reqs : List Request)
    (h : ∀ r ∈ reqs, r.oracle = false → (rnd r.consumer).isSome) :
    ∃ s', processAll rid rnd started last s reqs = .ok s' := by
  induction reqs generalizing s with
  | nil => exact ⟨s, rfl⟩
  | cons r t ih =>
    have hr := h r (by simp)
    have ht := fun r' hr' => h r' (List.mem_cons_of_mem _ hr')
    have h1 : ∃ s1, processOne rid rnd started last s r = .ok s1 := by
      unfold processOne
      cases ho : r.oracle with
      | true => simp only [if_true]; split <;> exact ⟨_, rfl⟩
      | false =>
        simp only [Bool.false_eq_true, if_false]
        cases hv : rnd r.consumer with
        | none => have := hr ho; simp [hv] at this
        | some v => exact ⟨_, rfl⟩
    obtain ⟨s1, h1⟩ := h1
    obtain ⟨s', h2⟩ := ih s1 ht
    exact ⟨s', by simp only [processAll, h1, h2]⟩

/-- the loop fails only by the PRNG's division by zero -/
theorem processAll_error (last : Int) (s : State) (reqs : List Request) (e : Err)
    (h : processAll rid rnd started last s reqs = .error e) :
    ∃ r ∈ reqs, r.oracle = false ∧ rnd r.consumer = none := by
  by_cases hx : ∃ r ∈ reqs, r.oracle = false ∧ rnd r.consumer = none
  · exact hx
  · exfalso
    have : ∀ r ∈ reqs, r.oracle = false → (rnd r.consumer).isSome := by
      intro r hr ho
      cases hv : rnd r.consumer with
      | none => exact absurd ⟨r, hr, ho, hv⟩ hx
      | some v => rfl
    obtain ⟨s', hs⟩ := processAll_total (rid := rid) (started := started) last s reqs this
    rw [hs] at h; cases h

/-! ### the begin-block loop: stored randoms -/

theorem processOne_randoms_other {s s' : State} {r : Request} {last : Int} (id : Id)
    (h : processOne rid rnd started last s r = .ok s')
    (hne : r.oracle = true ∨ rid r.height r.consumer ≠ id) :
    AMap.get? s'.randoms id = AMap.get? s.randoms id := by
  unfold processOne at h
  split at h
  · split at h <;> (cases h; rfl)
  · rename_i ho
    split at h
    · cases h
    · cases h
      rcases hne with h1 | h1
      · exact absurd h1 ho
      · exact AMap.get?_set_other _ _ _ _ h1

theorem processAll_randoms_other {s s' : State} {reqs : List Request} {last : Int} (id : Id)
    (h : processAll rid rnd started last s reqs = .ok s')
    (hne : ∀ r ∈ reqs, r.oracle = true ∨ rid r.height r.consumer ≠ id) :
    AMap.get? s'.randoms id = AMap.get? s.randoms id := by
  induction reqs generalizing s with
  | nil => simp only [processAll] at h; cases h; rfl
  | cons r t ih =>
    simp only [processAll] at h
    split at h
    · cases h
    · rename_i s1 h1
      rw [ih h (fun r' hr' => hne r' (List.mem_cons_of_mem _ hr')),
          processOne_randoms_other id h1 (hne r (by simp))]

theorem processOne_oracle_frame {s s' : State} {r : Request} {last : Int}
    (h : processOne rid rnd started last s r = .ok s') (ho : r.oracle = false) :
    s'.oracleReqs = s.oracleReqs := by
  unfold processOne at h
  simp only [ho, Bool.false_eq_true, if_false] at h
  split at h
  · cases h
  · cases h; rfl

/-- every visited non-oracle request is fulfilled with the PRNG value of its consumer, provided
    the visited requests have pairwise distinct ids -/
theorem processAll_fulfils {s s' : State} {reqs : List Request} {last : Int}
    (h : processAll rid rnd started last s reqs = .ok s')
    (hd : reqs.Pairwise fun a b => rid a.height a.consumer ≠ rid b.height b.consumer)
    (r : Request) (hr : r ∈ reqs) (ho : r.oracle = false) :
    ∃ v, rnd r.consumer = some v ∧
      AMap.get? s'.randoms (rid r.height r.consumer) = some { txHash := r.txHash, height := last, value := v } := by
  induction reqs generalizing s with
  | nil => simp at hr
  | cons x t ih =>
    simp only [processAll] at h
    rw [List.pairwise_cons] at hd
    split at h
    · cases h
    · rename_i s1 h1
      rcases List.mem_cons.mp hr with rfl | hrt
      · -- the head: fulfilled now, untouched by the rest
        have keep := processAll_randoms_other (rid r.height r.consumer) h
          (fun r' hr' => Or.inr (fun hc => hd.1 r' hr' hc.symm))
        unfold processOne at h1
        simp only [ho, Bool.false_eq_true, if_false] at h1
        split at h1
        · cases h1
        · rename_i v hv
          cases h1
          refine ⟨v, hv, ?_⟩
          rw [keep]; exact AMap.get?_set_self _ _ _
      · exact ih h hd.2 hrt

/-! ### PRNG -/

theorem prngNum_lt {hash : ByteArray} {t : Int} {ini : ByteArray} {o : Bool} {seed : ByteArray} {v : Nat}
    (h : prngNum hash t ini o seed = some v) : v < prec := by
  unfold prngNum at h
  split at h
  · cases h
  · cases h
    exact Nat.mod_lt _ (by unfold prec; omega)

theorem prngNum_isSome {hash : ByteArray} {t : Int} {ini : ByteArray} {o : Bool} {seed : ByteArray}
    (ht : t ≠ 0) : (prngNum hash t ini o seed).isSome := by
  unfold prngNum; simp [ht]

theorem prngNum_zero (hash : ByteArray) (ini : ByteArray) (o : Bool) (seed : ByteArray) :
    prngNum hash 0 ini o seed = none := by
  unfold prngNum; simp

theorem prngValue_isSome {hash : ByteArray} {t : Int} {ini : ByteArray} {o : Bool} {seed : ByteArray}
    (ht : t ≠ 0) : (prngValue hash t ini o seed).isSome := by
  unfold prngValue
  have := prngNum_isSome (hash := hash) (ini := ini) (o := o) (seed := seed) ht
  cases h : prngNum hash t ini o seed with
  | none => simp [h] at this
  | some v => rfl


theorem prngValue_ne_none {hash : ByteArray} {t : Int} {ini : ByteArray} {o : Bool} {seed : ByteArray}
    (ht : t ≠ 0) : prngValue hash t ini o seed ≠ none := by
  intro h
  have := prngValue_isSome (hash := hash) (ini := ini) (o := o) (seed := seed) ht
  rw [h] at this; cases this

/-! ### the queue invariant is preserved -/

theorem inv_of_same {s s' : State} (hq : s'.queue = s.queue) (hh : s'.height = s.height)
    (hi : QueueInv rid s) : QueueInv rid s' := by
  refine ⟨by rw [hh]; exact hi.height_nonneg, by rw [hh]; exact hi.height_lt, by rw [hq]; exact hi.nodup, ?_⟩
  intro e he
  rw [hq] at he
  rw [hh]
  exact hi.entry e he

theorem inv_enqueue {s : State} (hi : QueueInv rid s) (n : Nat) (hv : s.height + (n : Int) < two63)
    (c : String) (r : Request) (hr : r.height = s.height ∧ r.consumer = c) (s' : State)
    (hq : s'.queue = AMap.set s.queue (u64 (s.height + n), rid s.height c) r) (hh : s'.height = s.height) :
    QueueInv rid s' := by
  have h0 := hi.height_nonneg
  have hcast := u64_of_small (x := s.height + n) (by omega) hv
  refine ⟨by rw [hh]; exact h0, by rw [hh]; exact hi.height_lt, by rw [hq]; exact AMap.nodup_set hi.nodup _ _, ?_⟩
  intro e he
  rw [hq] at he
  rw [hh]
  rcases AMap.mem_set_sub he with h1 | h1
  · subst h1
    simp only
    rw [hr.1, hr.2, hcast]
    refine ⟨rfl, h0, Int.le_refl _, ?_, hv⟩
    omega
  · exact hi.entry e h1

/-- an interval the handler accepts keeps the due height inside `int64` -/
theorem accepted_interval {s : State} (h0 : 0 ≤ s.height) (h1 : s.height < two63) {n : Nat}
    (h : ¬ n > maxInterval s.height) : s.height + (n : Int) < two63 := by
  unfold maxInterval u64 two64 at h; unfold two63 at *
  omega

theorem inv_request {s s' : State} {c : String} {ok : Bool} {n : Nat} {tx : String} {feeOk : Bool}
    (hi : QueueInv rid s)
    (h : stepRequest rid s c ok n tx feeOk = .ok s') : QueueInv rid s' := by
  unfold stepRequest at h
  split at h; · cases h
  split at h; · cases h
  split at h; · cases h
  rename_i hn
  cases h
  exact inv_enqueue hi n (accepted_interval hi.height_nonneg hi.height_lt hn) c _ ⟨rfl, rfl⟩ _ rfl rfl

theorem inv_requestOracle {s s' : State} {c : String} {ok : Bool} {n : Nat} {tx fee : String} {feeOk : Bool}
    {svc : Svc} (hi : QueueInv rid s)
    (h : stepRequestOracle rid s c ok n tx fee feeOk svc = .ok s') : QueueInv rid s' := by
  unfold stepRequestOracle at h
  split at h; · cases h
  split at h; · cases h
  split at h; · cases h
  rename_i hn
  split at h
  · cases h
  · cases h
  · cases h
    exact inv_enqueue hi n (accepted_interval hi.height_nonneg hi.height_lt hn) c _ ⟨rfl, rfl⟩ _ rfl rfl

/-- after the begin block of height `s.height + 1` every remaining entry is due strictly later -/
theorem inv_beginBlock {s s' : State} {h t : Int} {hash : ByteArray}
    (hi : QueueInv rid s) (hv : h = s.height + 1 ∧ h < two63)
    (hs : stepBeginBlock rid rnd started s h t hash = .ok s') : QueueInv rid s' := by
  unfold stepBeginBlock at hs
  have f := processAll_frame hs
  have hq : s'.queue = eraseDue rid (h - 1) s.queue (dueRequests s.queue (u64 (h - 1))) := f.1
  have hh : s'.height = h := f.2.1
  have h0 := hi.height_nonneg
  have hlast : h - 1 = s.height := by omega
  have hcast : ((u64 (h - 1) : Nat) : Int) = s.height := by
    rw [hlast]; exact u64_of_small h0 hi.height_lt
  refine ⟨by omega, by omega, by rw [hq]; exact nodup_eraseDue _ hi.nodup, ?_⟩
  intro e he
  rw [hq, mem_eraseDue] at he
  obtain ⟨heq, hne⟩ := he
  obtain ⟨e1, e2, e3, e4, e5⟩ := hi.entry e heq
  refine ⟨e1, e2, by omega, ?_, e5⟩
  rw [hh]
  by_cases hk : e.1.1 = u64 (h - 1)
  · exfalso
    have hr : e.2 ∈ dueRequests s.queue (u64 (h - 1)) := mem_dueRequests.mpr ⟨e, heq, hk, rfl⟩
    apply hne e.2 hr
    rw [← hk, ← e1]
  · have : (e.1.1 : Int) ≠ s.height := by
      intro hc
      apply hk
      have : (e.1.1 : Int) = ((u64 (h - 1) : Nat) : Int) := by rw [hcast]; exact hc
      exact Int.ofNat.inj this
    omega

theorem cbResponse_frame {rndO : String → ByteArray → Option String} {s s' : State} {ctxId : String}
    {out : Output} {err : Bool} (h : stepCbResponse rid rndO s ctxId out err = .ok s') :
    s'.queue = s.queue ∧ s'.height = s.height := by
  unfold stepCbResponse at h
  repeat' split at h
  all_goals (cases h <;> try exact ⟨rfl, rfl⟩)

theorem cbState_frame {s s' : State} {ctxId : String} (h : stepCbState s ctxId = .ok s') :
    s'.queue = s.queue ∧ s'.height = s.height ∧ s'.randoms = s.randoms := by
  unfold stepCbState at h
  split at h <;> (cases h; exact ⟨rfl, rfl, rfl⟩)

/-- one accepted, chain-valid step preserves the queue invariant -/
theorem inv_step {s s' : State} {op : Op} (hi : QueueInv requestId s) (hv : OpValid s op)
    (h : step s op = .ok s') : QueueInv requestId s' := by
  cases op with
  | beginBlock hh t hash st => exact inv_beginBlock hi hv h
  | request c ok n tx feeOk => exact inv_request hi h
  | requestOracle c ok n tx fee feeOk svc => exact inv_requestOracle hi h
  | cbResponse ctxId out err =>
    simp only [step] at h
    have f := cbResponse_frame h
    exact inv_of_same f.1 f.2 hi
  | cbState ctxId =>
    simp only [step] at h
    have f := cbState_frame h
    exact inv_of_same f.1 f.2.1 hi

theorem inv_apply {s : State} {op : Op} (hi : QueueInv requestId s) (hv : OpValid s op) :
    QueueInv requestId (apply s op) := by
  unfold apply
  cases h : step s op with
  | ok s' => exact inv_step hi hv h
  | error e => exact hi

theorem inv_run {s : State} {ops : List Op} (hi : QueueInv requestId s) (hv : RunValid s ops) :
    QueueInv requestId (run s ops) := by
  induction ops generalizing s with
  | nil => exact hi
  | cons op t ih => exact ih (inv_apply hi hv.1) hv.2

/-! ### stored results change only by fulfilment -/

theorem beginBlock_randoms {s s' : State} {h t : Int} {hash : ByteArray} (id : Id)
    (hs : stepBeginBlock rid rnd started s h t hash = .ok s') :
    AMap.get? s'.randoms id = AMap.get? s.randoms id ∨
    ∃ e ∈ s.queue, e.1.1 = u64 (h - 1) ∧ e.2.oracle = false ∧ rid e.2.height e.2.consumer = id := by
  by_cases hx : ∃ e ∈ s.queue, e.1.1 = u64 (h - 1) ∧ e.2.oracle = false ∧ rid e.2.height e.2.consumer = id
  · exact Or.inr hx
  · left
    unfold stepBeginBlock at hs
    have := processAll_randoms_other id hs (by
      intro r hr
      obtain ⟨e, he, hk, rfl⟩ := mem_dueRequests.mp hr
      cases ho : e.2.oracle with
      | true => exact Or.inl rfl
      | false =>
        right; intro hc
        exact hx ⟨e, he, hk, ho, hc⟩)
    exact this

theorem cbResponse_randoms {rndO : String → ByteArray → Option String} {s s' : State} {ctxId : String}
    {out : Output} {err : Bool} (id : Id) (h : stepCbResponse rid rndO s ctxId out err = .ok s') :
    AMap.get? s'.randoms id = AMap.get? s.randoms id ∨
    ∃ r, AMap.get? s.oracleReqs ctxId = some r ∧ rid r.height r.consumer = id := by
  refine (Classical.em (∃ r, AMap.get? s.oracleReqs ctxId = some r ∧ rid r.height r.consumer = id)).elim
    Or.inr (fun hn => Or.inl ?_)
  unfold stepCbResponse at h
  repeat' split at h
  all_goals first
    | (cases h; rfl)
    | (cases h; apply AMap.get?_set_other; intro hc; exact hn ⟨_, by assumption, hc⟩)
    | cases h

/-! ### the id scheme -/

theorem u8_ofNat_inj {a b : Nat} (ha : a < 256) (hb : b < 256) (h : UInt8.ofNat a = UInt8.ofNat b) :
    a = b := by
  have h2 := congrArg UInt8.toNat h
  simp only [UInt8.toNat_ofNat'] at h2
  omega

theorem be64_inj {a b : Nat} (ha : a < 2^64) (hb : b < 2^64) (h : be64 a = be64 b) : a = b := by
  unfold be64 at h
  simp only [List.cons.injEq, and_true] at h
  obtain ⟨h0, h1, h2, h3, h4, h5, h6, h7⟩ := h
  have e0 := u8_ofNat_inj (by omega) (by omega) h0
  have e1 := u8_ofNat_inj (by omega) (by omega) h1
  have e2 := u8_ofNat_inj (by omega) (by omega) h2
  have e3 := u8_ofNat_inj (by omega) (by omega) h3
  have e4 := u8_ofNat_inj (by omega) (by omega) h4
  have e5 := u8_ofNat_inj (by omega) (by omega) h5
  have e6 := u8_ofNat_inj (by omega) (by omega) h6
  have e7 := u8_ofNat_inj (by omega) (by omega) h7
  omega

theorem u64_lt (x : Int) : u64 x < 2^64 := by
  unfold u64 two64; omega

theorem ridPre_inj {h h' : Int} {c c' : String} (e : ridPre h c = ridPre h' c') : u64 h = u64 h' ∧ c = c' := by
  unfold ridPre at e
  have := List.append_inj e (by simp [be64])
  refine ⟨be64_inj (u64_lt h) (u64_lt h') this.1, ?_⟩
  have h1 : c.toUTF8.data = c'.toUTF8.data := by
    have := congrArg List.toArray this.2; simpa using this
  exact String.toByteArray_inj.mp (ByteArray.ext h1)

/-- two requests share an id only if they have the same (height, consumer) — or the two hashed
    byte strings are an exhibited SHA-256 collision -/
theorem requestId_eq {h h' : Int} {c c' : String} (e : requestId h c = requestId h' c') :
    (u64 h = u64 h' ∧ c = c') ∨ Collision := by
  by_cases hp : ridPre h c = ridPre h' c'
  · exact Or.inl (ridPre_inj hp)
  · right
    refine ⟨ByteArray.mk (ridPre h c).toArray, ByteArray.mk (ridPre h' c').toArray, ?_, ?_⟩
    · intro hc
      apply hp
      have h2 : (ridPre h c).toArray = (ridPre h' c').toArray := by injection hc
      simpa using congrArg Array.toList h2
    · unfold requestId at e
      exact ByteArray.ext e

end Irismod.Proofs.Random
