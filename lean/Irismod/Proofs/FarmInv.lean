/-
The invariant bundle of the farm model and how `updatePool` acts on each component.
-/
import Irismod.Proofs.FarmStakes

namespace Irismod.Proofs.Farm
open Irismod Irismod.Sdk Irismod.Farm Irismod.Spec

/-! ### definitions -/

/-- well-formedness of one pool record -/
structure PoolWF (p : Pool) : Prop where
  rulesNe : p.rules ≠ []
  nodup   : (p.rules.map (·.denom)).Nodup
  rpbPos  : ∀ r ∈ p.rules, 0 < r.rpb
  totPos  : ∀ r ∈ p.rules, 0 < r.total
  rpsNN   : ∀ r ∈ p.rules, 0 ≤ r.rps.raw
  /-- the creator is a user account, or the distribution module account (community-pool farms) -/
  user    : isModuleAcc p.creator = false ∨ p.creator = distrAcc

/-- the timing facts of one pool at the current height -/
structure PoolTime (h : Int) (p : Pool) : Prop where
  lastLe : p.last ≤ h
  staked : p.locked > 0 → p.start ≤ p.last
  fresh  : h < p.start → ∀ r ∈ p.rules, r.remaining = r.total

/-- every stored pool satisfies `P` -/
def PoolsAll (P : Pool → Prop) (s : State) : Prop := ∀ id p, getPool s id = some p → P p

/-- a farmer's recorded debt never exceeds the floor of his share -/
def DebtOK (s : State) : Prop :=
  ∀ a id f p, getFarmer s a id = some f → getPool s id = some p →
    ∀ r ∈ p.rules, (amountOf f.debt r.denom : Int) ≤ (r.rps.raw * (f.locked : Int)) / precision

/-- module account gap in denom `d` -/
def gap (s : State) (d : Denom) : Int := (s.bank.balOf farmAcc d : Int) - (C05.expectedFarm s d : Int)

theorem moduleAccount_iff (s : State) : C05.ModuleAccount s ↔ ∀ d, gap s d = 0 := by
  unfold C05.ModuleAccount gap
  constructor
  · intro h d; have := h d; omega
  · intro h d; have := h d; omega

/-- every farmer record belongs to a stored pool -/
def FarmerPool (s : State) : Prop := ∀ a id f, getFarmer s a id = some f → ∃ p, getPool s id = some p

/-- ghost bookkeeping of one rule of pool `(id, p)`: budget conservation (C06(a)) and
refund-at-most-once (C06(a')) -/
def RuleGhost (s : State) (id : PoolId) (p : Pool) (r : Rule) : Prop :=
  C06.RuleConserved r ∧ r.nRefund ≤ 1 ∧
  (r.nRefund = 1 → r.remaining = 0 ∧ C06.active s id p = false ∧ p.endH ≤ s.height) ∧
  (r.nRefund = 0 → r.refunded = 0)

def GhostOK (s : State) : Prop := ∀ id p, getPool s id = some p → ∀ r ∈ p.rules, RuleGhost s id p r

/-- the components that also hold in the intermediate states of a handler -/
structure Core (s : State) : Prop where
  hnn    : 0 ≤ s.height
  wf     : PoolsAll PoolWF s
  time   : PoolsAll (PoolTime s.height) s
  queue  : C13Farm.QueueOK s
  budget : C06.BudgetOK s
  debt   : DebtOK s
  fpool  : FarmerPool s
  ghost  : GhostOK s

/-- the invariant bundle of every reachable state -/
structure Inv (s : State) : Prop where
  core   : Core s
  stakes : Stakes s
  modacc : C05.ModuleAccount s
  /-- every escrow info and gov proposal on record names a user account as proposer -/
  cpu    : CpUsers s

/-- the bundle without the proposer clause (what the intermediate states of gov's EndBlocker keep) -/
structure Inv0 (s : State) : Prop where
  core   : Core s
  stakes : Stakes s
  modacc : C05.ModuleAccount s

theorem Inv.inv0 {s : State} (h : Inv s) : Inv0 s := ⟨h.core, h.stakes, h.modacc⟩
theorem Inv0.withUsers {s : State} (h : Inv0 s) (hu : CpUsers s) : Inv s := ⟨h.core, h.stakes, h.modacc, hu⟩

/-! ### ghost bookkeeping -/

theorem RuleGhost.transfer {s s' : State} {id : PoolId} {p p' : Pool} {r : Rule} (h : RuleGhost s id p r)
    (hact : C06.active s id p = false → C06.active s' id p' = false)
    (hend : p.endH ≤ s.height → p'.endH ≤ s'.height) : RuleGhost s' id p' r :=
  ⟨h.1, h.2.1, fun e => ⟨(h.2.2.1 e).1, hact (h.2.2.1 e).2.1, hend (h.2.2.1 e).2.2⟩, h.2.2.2⟩

theorem RuleGhost.stepped {s s' : State} {id : PoolId} {p p' : Pool} {r r' : Rule} {i L : Nat} (h : RuleGhost s id p r)
    (hst : Stepped i L r r')
    (hact : C06.active s id p = false → C06.active s' id p' = false)
    (hend : p.endH ≤ s.height → p'.endH ≤ s'.height) : RuleGhost s' id p' r' := by
  obtain ⟨_, htot, _, hrem, hrel, hrf, hnr, _⟩ := stepped_facts hst
  obtain ⟨c, n1, n2, n3⟩ := h
  unfold C06.RuleConserved at c
  refine ⟨by unfold C06.RuleConserved; omega, by omega, ?_, by intro e; rw [hrf]; exact n3 (by omega)⟩
  intro e
  obtain ⟨a1, a2, a3⟩ := n2 (by omega)
  exact ⟨by omega, hact a2, hend a3⟩

/-- an active pool has not been refunded -/
theorem ghost_active {s : State} {id : PoolId} {p : Pool} (hg : ∀ r ∈ p.rules, RuleGhost s id p r)
    (hact : C06.active s id p = true) : ∀ r ∈ p.rules, r.nRefund = 0 ∧ r.refunded = 0 := by
  intro r hr
  obtain ⟨_, n1, n2, n3⟩ := hg r hr
  have : r.nRefund = 0 := by
    by_cases e : r.nRefund = 1
    · have := (n2 e).2.1; rw [hact] at this; cases this
    · omega
  exact ⟨this, n3 this⟩

/-! ### pool-local predicates under store updates -/

theorem poolsAll_set {P : Pool → Prop} {s s' : State} {id : PoolId} {q : Pool}
    (h : PoolsAll P s) (hpools : s'.pools = AMap.set s.pools id q) (hq : P q) : PoolsAll P s' := by
  intro id2 p2 hp2
  by_cases e : id = id2
  · subst e
    rw [getPool_set_self _ _ _ _ hpools] at hp2
    cases hp2; exact hq
  · rw [getPool_set_other s s' id id2 q hpools e] at hp2
    exact h id2 p2 hp2

theorem poolsAll_same {P : Pool → Prop} {s s' : State} (h : PoolsAll P s) (hpools : s'.pools = s.pools) :
    PoolsAll P s' := by
  intro id p hp; unfold getPool at hp; rw [hpools] at hp; exact h id p hp

/-! ### `updatePool` and the pool-local components -/

theorem stepped_rpsNN {i L : Nat} {r r' : Rule} (h : Stepped i L r r') (hr : 0 ≤ r.rps.raw) : 0 ≤ r'.rps.raw ∧ r.rps.raw ≤ r'.rps.raw := by
  have hf := (stepped_facts h).2.2.2.2.2.2.2.2.2.2
  have : 0 ≤ (((r.rpb * i : Nat) : Int) * precision).tdiv (L : Int) := by
    apply Int.tdiv_nonneg
    · apply Int.mul_nonneg (Int.natCast_nonneg _); unfold precision; omega
    · exact Int.natCast_nonneg _
  omega

theorem all2_rpsNN {i L : Nat} {rs rs' : List Rule} (h : All2 (Stepped i L) rs rs')
    (hp : ∀ r ∈ rs, 0 ≤ r.rps.raw) : ∀ r ∈ rs', 0 ≤ r.rps.raw := by
  induction h with
  | nil => simp
  | cons hr _ ih =>
    intro r hr'
    simp only [List.mem_cons] at hr'
    rcases hr' with e | e
    · subst e; exact (stepped_rpsNN hr (hp _ (by simp))).1
    · exact ih (fun r hr => hp r (by simp [hr])) r e

theorem all2_totPos {i L : Nat} {rs rs' : List Rule} (h : All2 (Stepped i L) rs rs')
    (hp : ∀ r ∈ rs, 0 < r.total) : ∀ r ∈ rs', 0 < r.total := by
  induction h with
  | nil => simp
  | cons hr _ ih =>
    intro r hr'
    simp only [List.mem_cons] at hr'
    rcases hr' with e | e
    · subst e; rw [(stepped_facts hr).2.1]; exact hp _ (by simp)
    · exact ih (fun r hr => hp r (by simp [hr])) r e

theorem updOk_fields {s s' : State} {id : PoolId} {p p' : Pool} {amount : Int} {d : Bool}
    (h : UpdOk s s' id p p' amount d) :
    p'.creator = p.creator ∧ p'.desc = p.desc ∧ p'.editable = p.editable ∧ p'.lpt = p.lpt ∧ p'.last = s.height ∧
    p'.endH = (if d then s.height else p.endH) ∧
    p'.start = (if d && decide (p.start > s.height) then s.height else p.start) := by
  have := h.pool
  rw [this]
  exact ⟨rfl, rfl, rfl, rfl, rfl, rfl, rfl⟩

theorem updOk_wf {s s' : State} {id : PoolId} {p p' : Pool} {amount : Int} {d : Bool}
    (h : UpdOk s s' id p p' amount d) (hw : PoolWF p) : PoolWF p' := by
  obtain ⟨hc, _⟩ := updOk_fields h
  rcases h.rules with e | ⟨_, _, f2⟩
  · exact ⟨by rw [e]; exact hw.rulesNe, by rw [e]; exact hw.nodup, by rw [e]; exact hw.rpbPos,
           by rw [e]; exact hw.totPos, by rw [e]; exact hw.rpsNN, by rw [hc]; exact hw.user⟩
  · exact ⟨forall2_ne_nil f2 hw.rulesNe, by rw [forall2_denoms f2]; exact hw.nodup, forall2_rpb f2 hw.rpbPos,
           all2_totPos f2 hw.totPos, all2_rpsNN f2 hw.rpsNN, by rw [hc]; exact hw.user⟩

theorem updOk_time {s s' : State} {id : PoolId} {p p' : Pool} {amount : Int} {d : Bool}
    (h : UpdOk s s' id p p' amount d) (ht : PoolTime s.height p) (hstart : amount > 0 → p.start ≤ s.height) :
    PoolTime s.height p' := by
  obtain ⟨_, _, _, _, hlast, _, hst⟩ := updOk_fields h
  have hl := updOk_locked h
  refine ⟨by rw [hlast]; exact Int.le_refl _, ?_, ?_⟩
  · intro hpos
    rw [hlast, hst]
    have : p.start ≤ s.height := by
      by_cases ha : amount > 0
      · exact hstart ha
      · have : p.locked > 0 := by omega
        have := ht.staked this
        have := ht.lastLe
        omega
    split
    · exact Int.le_refl _
    · exact this
  · intro hlt
    have hps : p'.start ≤ p.start := by
      rw [hst]; split
      · rename_i hc; simp only [Bool.and_eq_true, decide_eq_true_eq] at hc; omega
      · exact Int.le_refl _
    have hlt' : s.height < p.start := by omega
    -- nothing can have been released before the start: the rules are unchanged
    have hno : ¬ (s.height > p.last ∧ p.locked > 0) := by
      intro ⟨_, hp⟩
      have := ht.staked hp
      have := ht.lastLe
      omega
    rw [h.relIff.mpr hno]
    exact ht.fresh hlt'

end Irismod.Proofs.Farm
