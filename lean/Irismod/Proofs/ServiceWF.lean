/-
Well-formedness of the service scheduler state (shared by C07, C08 and the service slice of C13):
queue entries and their per-context markers describe the same sets, a context is in at most one
queue, every active request belongs to the running batch of a stored context that awaits its
expiry, and the batch counters count exactly the active requests.
-/
import Irismod.Proofs.ServiceDeposit
import Irismod.Spec.C13_Service

namespace Irismod.Proofs.Service
open Irismod Irismod.Sdk Irismod.Service Irismod.Spec.C13S

/-! ### map and list facts -/

theorem get?_erase_self {K V : Type} [DecidableEq K] (m : AMap K V) (k : K) : AMap.get? (AMap.erase m k) k = none := by
  induction m with
  | nil => rfl
  | cons hd t ih =>
    obtain ⟨k0, v0⟩ := hd
    by_cases h0 : k0 = k
    · simp [AMap.erase, h0, ih]
    · simp [AMap.erase, AMap.get?, h0, ih]

theorem get?_erase_other {K V : Type} [DecidableEq K] (m : AMap K V) (k k' : K) (h : k ≠ k') :
    AMap.get? (AMap.erase m k) k' = AMap.get? m k' := by
  induction m with
  | nil => rfl
  | cons hd t ih =>
    obtain ⟨k0, v0⟩ := hd
    by_cases h0 : k0 = k
    · subst h0
      simp [AMap.erase, AMap.get?, h, ih]
    · by_cases h1 : k0 = k'
      · subst h1
        simp [AMap.erase, AMap.get?, h0]
      · simp [AMap.erase, AMap.get?, h0, h1, ih]

theorem contains_iff {K V : Type} [DecidableEq K] (m : AMap K V) (k : K) :
    AMap.contains m k = true ↔ ∃ v, AMap.get? m k = some v := by
  unfold AMap.contains
  cases AMap.get? m k <;> simp

theorem contains_false_iff {K V : Type} [DecidableEq K] (m : AMap K V) (k : K) :
    AMap.contains m k = false ↔ AMap.get? m k = none := by
  unfold AMap.contains
  cases AMap.get? m k <;> simp

theorem mem_qInsert (q : List (Int × CtxId)) (e x : Int × CtxId) : x ∈ qInsert q e ↔ x ∈ q ∨ x = e := by
  unfold qInsert
  by_cases hc : e ∈ q
  · have hc' : q.contains e = true := by simpa using hc
    simp only [hc', if_true]
    constructor
    · exact Or.inl
    · rintro (h | h)
      · exact h
      · subst h; exact hc
  · simp [hc]

/-! ### the structural invariant -/

structure WF (s : State) : Prop where
  newM  : MarkersAgree s.newQ s.newH
  expM  : MarkersAgree s.expQ s.expH
  excl  : ∀ id, AMap.contains s.newH id = true → AMap.contains s.expH id = false
  live  : ∀ id, (AMap.contains s.newH id = true ∨ AMap.contains s.expH id = true) → AMap.contains s.ctxs id = true
  act   : ∀ rid, rid ∈ s.active → ∃ rq c, AMap.get? s.reqs rid = some rq ∧ rq.ctx = rid.ctx ∧ rq.batch = rid.batch ∧
            AMap.get? s.ctxs rid.ctx = some c ∧ c.batchState = .running ∧ c.batchCounter = rid.batch ∧
            AMap.get? s.expH rid.ctx = some rq.expH
  nodup : s.active.Nodup
  newND : s.newQ.Nodup
  expND : s.expQ.Nodup
  count : ∀ id c, AMap.get? s.ctxs id = some c → c.batchState = .running →
            (s.active.filter (fun r => r.ctx = id)).length + c.batchRespCount = c.batchReqCount

/-- the part of a context the structural invariant reads -/
def ctxCore (c : Ctx) : BatchState × Nat × Nat × Nat := (c.batchState, c.batchCounter, c.batchRespCount, c.batchReqCount)

/-- markers: adding an entry for a context that has none -/
theorem MarkersAgree.add {q : List (Int × CtxId)} {m : AMap CtxId Int} (h : MarkersAgree q m) (id : CtxId) (ht : Int)
    (hfree : AMap.contains m id = false) : MarkersAgree (qInsert q (ht, id)) (AMap.set m id ht) := by
  have hnone := (contains_false_iff m id).mp hfree
  constructor
  · intro h' id' hm
    rcases (mem_qInsert q (ht, id) (h', id')).mp hm with hq | he
    · have := h.1 h' id' hq
      by_cases hi : id = id'
      · subst hi; rw [hnone] at this; cases this
      · rw [AMap.get?_set_other _ _ _ _ hi]; exact this
    · cases he; exact AMap.get?_set_self _ _ _
  · intro id' h' hg
    apply (mem_qInsert q (ht, id) (h', id')).mpr
    by_cases hi : id = id'
    · subst hi
      rw [AMap.get?_set_self] at hg
      cases hg; exact Or.inr rfl
    · rw [AMap.get?_set_other _ _ _ _ hi] at hg
      exact Or.inl (h.2 id' h' hg)

/-- markers: deleting the entry of a context at its marked height -/
theorem MarkersAgree.del {q : List (Int × CtxId)} {m : AMap CtxId Int} (h : MarkersAgree q m) (id : CtxId) (ht : Int)
    (hm : AMap.get? m id = some ht) : MarkersAgree (q.filter (· ≠ (ht, id))) (AMap.erase m id) := by
  constructor
  · intro h' id' hq
    simp only [List.mem_filter, ne_eq, decide_eq_true_eq] at hq
    have := h.1 h' id' hq.1
    by_cases hi : id = id'
    · subst hi
      rw [hm] at this; cases this
      exact absurd rfl hq.2
    · rw [get?_erase_other _ _ _ hi]; exact this
  · intro id' h' hg
    by_cases hi : id = id'
    · subst hi; rw [get?_erase_self] at hg; cases hg
    · rw [get?_erase_other _ _ _ hi] at hg
      simp only [List.mem_filter, ne_eq, decide_eq_true_eq]
      refine ⟨h.2 id' h' hg, ?_⟩
      intro e; cases e; exact hi rfl

/-- deleting an entry at a height that is not the marked one removes only the marker — never needed
on well-formed states, stated to keep the `del` lemma's precondition visible -/
theorem MarkersAgree.marked {q : List (Int × CtxId)} {m : AMap CtxId Int} (h : MarkersAgree q m) {ht : Int} {id : CtxId}
    (hq : (ht, id) ∈ q) : AMap.get? m id = some ht := h.1 ht id hq

end Irismod.Proofs.Service

namespace Irismod.Proofs.Service
open Irismod Irismod.Sdk Irismod.Service Irismod.Spec.C13S

/-! ### list counting -/

theorem nodup_filter {α : Type} {l : List α} (p : α → Bool) (h : l.Nodup) : (l.filter p).Nodup :=
  List.Nodup.sublist List.filter_sublist h

/-- removing one element of a duplicate-free list lowers a count by one if the element is counted -/
theorem length_filter_remove {α : Type} [DecidableEq α] (p : α → Bool) :
    ∀ (l : List α) (a : α), l.Nodup → a ∈ l → p a = true →
      ((l.filter (fun y => decide (y ≠ a))).filter p).length + 1 = (l.filter p).length
  | [], a, _, hm, _ => by cases hm
  | x :: t, a, hn, hm, hp => by
    rw [List.nodup_cons] at hn
    by_cases hx : x = a
    · subst hx
      have hnot : t.filter (fun y => decide (y ≠ x)) = t := by
        apply List.filter_eq_self.mpr
        intro y hy
        simp only [ne_eq, decide_eq_true_eq]
        intro e; subst e; exact hn.1 hy
      have e1 : (x :: t).filter (fun y => decide (y ≠ x)) = t := by
        rw [List.filter_cons]
        simp only [ne_eq, not_true_eq_false, decide_false, Bool.false_eq_true, if_false]
        exact hnot
      rw [e1, List.filter_cons, if_pos hp, List.length_cons]
    · have hm' : a ∈ t := by
        rcases List.mem_cons.mp hm with h | h
        · exact absurd h.symm hx
        · exact h
      have ih := length_filter_remove p t a hn.2 hm' hp
      have e1 : (x :: t).filter (fun y => decide (y ≠ a)) = x :: t.filter (fun y => decide (y ≠ a)) := by
        rw [List.filter_cons]
        simp only [ne_eq, hx, not_false_eq_true, decide_true, if_true]
      rw [e1]
      by_cases hpx : p x = true
      · rw [List.filter_cons, if_pos hpx, List.filter_cons (p := p), if_pos hpx, List.length_cons, List.length_cons]; omega
      · rw [List.filter_cons, if_neg hpx, List.filter_cons (p := p), if_neg hpx]; exact ih

theorem length_filter_remove_other {α : Type} [DecidableEq α] (p : α → Bool) (l : List α) (a : α) (hp : p a = false) :
    ((l.filter (fun y => decide (y ≠ a))).filter p).length = (l.filter p).length := by
  induction l with
  | nil => rfl
  | cons x t ih =>
    by_cases hx : x = a
    · subst hx
      have e1 : (x :: t).filter (fun y => decide (y ≠ x)) = t.filter (fun y => decide (y ≠ x)) := by
        rw [List.filter_cons]
        simp only [ne_eq, not_true_eq_false, decide_false, Bool.false_eq_true, if_false]
      rw [e1, ih, List.filter_cons (p := p), if_neg (by rw [hp]; simp)]
    · have e1 : (x :: t).filter (fun y => decide (y ≠ a)) = x :: t.filter (fun y => decide (y ≠ a)) := by
        rw [List.filter_cons]
        simp only [ne_eq, hx, not_false_eq_true, decide_true, if_true]
      rw [e1]
      by_cases hpx : p x = true
      · rw [List.filter_cons, if_pos hpx, List.filter_cons (p := p), if_pos hpx, List.length_cons, List.length_cons, ih]
      · rw [List.filter_cons, if_neg hpx, List.filter_cons (p := p), if_neg hpx]; exact ih

/-- two different counted elements make the count at least two -/
theorem two_le_length_filter {α : Type} [DecidableEq α] (p : α → Bool) (l : List α) (a b : α) (hab : a ≠ b)
    (ha : a ∈ l) (hb : b ∈ l) (hpa : p a = true) (hpb : p b = true) : 2 ≤ (l.filter p).length := by
  induction l with
  | nil => cases ha
  | cons x t ih =>
    by_cases hpx : p x = true
    · simp only [List.filter, hpx, List.length_cons]
      rcases List.mem_cons.mp ha with ha' | ha'
      · rcases List.mem_cons.mp hb with hb' | hb'
        · exact absurd (ha'.trans hb'.symm) hab
        · have : b ∈ t.filter p := List.mem_filter.mpr ⟨hb', hpb⟩
          have := List.length_pos_of_mem this
          omega
      · rcases List.mem_cons.mp hb with hb' | hb'
        · have : a ∈ t.filter p := List.mem_filter.mpr ⟨ha', hpa⟩
          have := List.length_pos_of_mem this
          omega
        · have := ih ha' hb'; omega
    · have hxa : x ≠ a := by intro e; subst e; exact hpx hpa
      have hxb : x ≠ b := by intro e; subst e; exact hpx hpb
      have ha' : a ∈ t := by
        rcases List.mem_cons.mp ha with h | h
        · exact absurd h.symm hxa
        · exact h
      have hb' : b ∈ t := by
        rcases List.mem_cons.mp hb with h | h
        · exact absurd h.symm hxb
        · exact h
      simp only [List.filter, hpx]
      exact ih ha' hb'

theorem mem_insertBy {α : Type} (le : α → α → Bool) (x y : α) : ∀ l : List α, y ∈ insertBy le x l ↔ y = x ∨ y ∈ l
  | [] => by simp [insertBy]
  | h :: t => by
    simp only [insertBy]
    split
    · simp
    · simp only [List.mem_cons, mem_insertBy le x y t]
      constructor
      · rintro (h1 | h1 | h1)
        · exact Or.inr (Or.inl h1)
        · exact Or.inl h1
        · exact Or.inr (Or.inr h1)
      · rintro (h1 | h1 | h1)
        · exact Or.inr (Or.inl h1)
        · exact Or.inl h1
        · exact Or.inr (Or.inr h1)

theorem mem_isort {α : Type} (le : α → α → Bool) (y : α) : ∀ l : List α, y ∈ isort le l ↔ y ∈ l
  | [] => by simp [isort]
  | h :: t => by
    have ih := mem_isort le y t
    unfold isort at ih ⊢
    simp only [List.foldr, mem_insertBy, ih, List.mem_cons]

theorem nodup_qInsert {q : List (Int × CtxId)} (h : q.Nodup) (e : Int × CtxId) : (qInsert q e).Nodup := by
  unfold qInsert
  by_cases hc : e ∈ q
  · simp [hc, h]
  · simp only [List.contains_eq_mem, hc, decide_false, Bool.false_eq_true, if_false]
    rw [List.nodup_append]
    refine ⟨h, by simp, ?_⟩
    intro a ha b hb
    simp only [List.mem_singleton] at hb
    subst hb
    intro e; subst e; exact hc ha

/-! ### frames -/

/-- the fields the structural invariant reads -/
def SameSched (s s' : State) : Prop :=
  s'.newQ = s.newQ ∧ s'.newH = s.newH ∧ s'.expQ = s.expQ ∧ s'.expH = s.expH ∧ s'.active = s.active ∧ s'.reqs = s.reqs ∧
  s'.ctxs = s.ctxs

theorem WF.of_same {s s' : State} (h : WF s) (e : SameSched s s') : WF s' := by
  obtain ⟨e1, e2, e3, e4, e5, e6, e7⟩ := e
  exact ⟨by rw [e1, e2]; exact h.newM, by rw [e3, e4]; exact h.expM, by rw [e2, e4]; exact h.excl,
    by rw [e2, e4, e7]; exact h.live, by rw [e5, e6, e7, e4]; exact h.act, by rw [e5]; exact h.nodup,
    by rw [e1]; exact h.newND, by rw [e3]; exact h.expND, by rw [e5, e7]; exact h.count⟩

theorem getCtx_of_get? {s : State} {id : CtxId} {c : Ctx} (h : AMap.get? s.ctxs id = some c) : getCtx s id = c := by
  unfold getCtx; rw [h]; rfl

/-- replacing a stored context by one with the same batch bookkeeping -/
theorem WF.setCtx_core {s : State} (h : WF s) {id : CtxId} {c0 c : Ctx} (hg : AMap.get? s.ctxs id = some c0)
    (hc : ctxCore c = ctxCore c0) : WF (setCtx s id c) := by
  simp only [ctxCore, Prod.mk.injEq] at hc
  obtain ⟨hc1, hc2, hc3, hc4⟩ := hc
  refine ⟨h.newM, h.expM, h.excl, ?_, ?_, h.nodup, h.newND, h.expND, ?_⟩
  · intro id' hq
    have := h.live id' hq
    simp only [setCtx]
    rw [contains_iff] at this ⊢
    by_cases hi : id = id'
    · subst hi; exact ⟨c, AMap.get?_set_self _ _ _⟩
    · rw [AMap.get?_set_other _ _ _ _ hi]; exact this
  · intro rid hr
    obtain ⟨rq, c1, h1, h2, h3, h4, h5, h6, h7⟩ := h.act rid hr
    simp only [setCtx]
    by_cases hi : id = rid.ctx
    · subst hi
      rw [hg] at h4; cases h4
      exact ⟨rq, c, h1, h2, h3, AMap.get?_set_self _ _ _, by rw [hc1]; exact h5, by rw [hc2]; exact h6, h7⟩
    · exact ⟨rq, c1, h1, h2, h3, by rw [AMap.get?_set_other _ _ _ _ hi]; exact h4, h5, h6, h7⟩
  · intro id' c' hg' hrun
    simp only [setCtx] at hg' ⊢
    by_cases hi : id = id'
    · subst hi
      rw [AMap.get?_set_self] at hg'; cases hg'
      have := h.count id c0 hg (by rw [← hc1]; exact hrun)
      rw [hc3, hc4]; exact this
    · rw [AMap.get?_set_other _ _ _ _ hi] at hg'
      exact h.count id' c' hg' hrun

/-- queueing a first / next batch for a stored context that is in neither queue -/
theorem WF.addNew {s : State} (h : WF s) (id : CtxId) (ht : Int) (hctx : AMap.contains s.ctxs id = true)
    (hn : AMap.contains s.newH id = false) (he : AMap.contains s.expH id = false) : WF (addNew s id ht) := by
  refine ⟨MarkersAgree.add h.newM id ht hn, h.expM, ?_, ?_, h.act, h.nodup, nodup_qInsert h.newND _, h.expND, h.count⟩
  · intro id' hq
    simp only [Irismod.Service.addNew] at hq ⊢
    by_cases hi : id = id'
    · subst hi; exact he
    · apply h.excl
      rw [contains_iff] at hq ⊢
      rw [AMap.get?_set_other _ _ _ _ hi] at hq; exact hq
  · intro id' hq
    simp only [Irismod.Service.addNew] at hq ⊢
    by_cases hi : id = id'
    · subst hi; exact hctx
    · apply h.live
      rcases hq with hq | hq
      · left
        rw [contains_iff] at hq ⊢
        rw [AMap.get?_set_other _ _ _ _ hi] at hq; exact hq
      · right; exact hq

/-- dropping the (processed) new-batch entry of a context -/
theorem WF.delNew {s : State} (h : WF s) (id : CtxId) (ht : Int) (hm : AMap.get? s.newH id = some ht) :
    WF (delNew s id ht) := by
  refine ⟨MarkersAgree.del h.newM id ht hm, h.expM, ?_, ?_, h.act, h.nodup, nodup_filter _ h.newND, h.expND, h.count⟩
  · intro id' hq
    simp only [Irismod.Service.delNew] at hq ⊢
    by_cases hi : id = id'
    · subst hi
      rw [contains_iff, get?_erase_self] at hq
      obtain ⟨_, hv⟩ := hq; cases hv
    · apply h.excl
      rw [contains_iff] at hq ⊢
      rw [get?_erase_other _ _ _ hi] at hq; exact hq
  · intro id' hq
    simp only [Irismod.Service.delNew] at hq ⊢
    apply h.live
    rcases hq with hq | hq
    · left
      rw [contains_iff] at hq ⊢
      obtain ⟨v, hv⟩ := hq
      exact ⟨v, get?_erase_some hv⟩
    · right; exact hq

end Irismod.Proofs.Service

namespace Irismod.Proofs.Service
open Irismod Irismod.Sdk Irismod.Service Irismod.Spec.C13S

/-! ### creating and controlling contexts -/

/-- storing a brand-new context (no batch yet) -/
theorem WF.newCtx {s : State} (h : WF s) (id : CtxId) (c : Ctx) (hfresh : AMap.contains s.ctxs id = false)
    (hdone : c.batchState = .completed) : WF (setCtx s id c) := by
  have hnone := (contains_false_iff _ _).mp hfresh
  refine ⟨h.newM, h.expM, h.excl, ?_, ?_, h.nodup, h.newND, h.expND, ?_⟩
  · intro id' hq
    have := h.live id' hq
    simp only [setCtx]
    rw [contains_iff] at this ⊢
    by_cases hi : id = id'
    · subst hi; exact ⟨c, AMap.get?_set_self _ _ _⟩
    · rw [AMap.get?_set_other _ _ _ _ hi]; exact this
  · intro rid hr
    obtain ⟨rq, c1, h1, h2, h3, h4, h5, h6, h7⟩ := h.act rid hr
    have hi : id ≠ rid.ctx := by intro e; subst e; rw [hnone] at h4; cases h4
    exact ⟨rq, c1, h1, h2, h3, by simp only [setCtx]; rw [AMap.get?_set_other _ _ _ _ hi]; exact h4, h5, h6, h7⟩
  · intro id' c' hg' hrun
    simp only [setCtx] at hg'
    by_cases hi : id = id'
    · subst hi
      rw [AMap.get?_set_self] at hg'; cases hg'
      rw [hdone] at hrun; cases hrun
    · rw [AMap.get?_set_other _ _ _ _ hi] at hg'
      exact h.count id' c' hg' hrun

theorem WF.withIdx {s : State} (h : WF s) (n : Nat) : WF { s with idx := n } :=
  h.of_same ⟨rfl, rfl, rfl, rfl, rfl, rfl, rfl⟩

theorem WF_createCtx {s s' : State} {newId svc providers consumer inputOk cap timeout repeated freq total st thr moduleName}
    (hs : WF s) (hfresh : AMap.contains s.ctxs newId = false)
    (h : createCtx s newId svc providers consumer inputOk cap timeout repeated freq total st thr moduleName = .ok s') :
    WF s' := by
  unfold createCtx at h
  split at h
  · cases h
  split at h
  · cases h
  split at h
  · cases h
  split at h
  · cases h
  split at h
  · cases h
  rename_i c _ _
  cases h
  have h1 : WF (setCtx s newId (newCtx svc providers consumer c timeout repeated freq total st thr moduleName)) :=
    hs.newCtx newId _ hfresh rfl
  have hn : AMap.contains s.newH newId = false := by
    cases hc : AMap.contains s.newH newId with
    | false => rfl
    | true => have := hs.live newId (Or.inl hc); rw [hfresh] at this; cases this
  have he : AMap.contains s.expH newId = false := by
    cases hc : AMap.contains s.expH newId with
    | false => rfl
    | true => have := hs.live newId (Or.inr hc); rw [hfresh] at this; cases this
  unfold createState
  split
  · refine WF.addNew (h1.withIdx _) newId s.height ?_ hn he
    simp only [setCtx]
    rw [contains_iff]; exact ⟨_, AMap.get?_set_self _ _ _⟩
  · exact h1.withIdx _

theorem WF_keeperPause {s s' : State} {id consumer} (hs : WF s) (h : keeperPause s id consumer = .ok s') : WF s' := by
  unfold keeperPause at h
  split at h
  · cases h
  rename_i rc hg
  split at h
  · cases h
  split at h
  · cases h
  split at h
  · cases h
  cases h
  exact hs.setCtx_core hg rfl

theorem WF_keeperKill {s s' : State} {id consumer} (hs : WF s) (h : keeperKill s id consumer = .ok s') : WF s' := by
  unfold keeperKill at h
  split at h
  · cases h
  rename_i rc hg
  split at h
  · cases h
  split at h
  · cases h
  cases h
  exact hs.setCtx_core hg rfl

theorem WF_keeperStart {s s' : State} {id consumer} (hs : WF s) (h : keeperStart s id consumer = .ok s') : WF s' := by
  unfold keeperStart at h
  split at h
  · cases h
  rename_i rc hg
  split at h
  · cases h
  split at h
  · cases h
  split at h
  · cases h
  cases h
  have h1 : WF (setCtx s id { rc with state := .running }) := hs.setCtx_core hg rfl
  split
  · rename_i hq
    simp only [Bool.not_eq_true', Bool.not_eq_eq_eq_not, Bool.not_true] at hq
    refine WF.addNew h1 id s.height ?_ hq.2 hq.1
    simp only [setCtx]
    rw [contains_iff]; exact ⟨_, AMap.get?_set_self _ _ _⟩
  · exact h1

theorem WF_keeperUpdate {s s' : State} {id providers thr cap timeout freq total consumer} (hs : WF s)
    (h : keeperUpdate s id providers thr cap timeout freq total consumer = .ok s') : WF s' := by
  unfold keeperUpdate at h
  split at h
  · cases h
  rename_i rc hg
  split at h
  · cases h
  split at h
  · cases h
  split at h
  · cases h
  split at h
  · cases h
  split at h
  · cases h
  split at h
  · cases h
  split at h
  · cases h
  split at h
  · cases h
  cases h
  exact hs.setCtx_core hg rfl

end Irismod.Proofs.Service

namespace Irismod.Proofs.Service
open Irismod Irismod.Sdk Irismod.Service Irismod.Spec.C13S

/-! ### answering a request -/

/-- the structural effect of an accepted answer: the marker of `rid` goes, the context's response
count goes up, and the batch completes exactly when it was the last marker of the context -/
theorem WF.answer {s : State} (hs : WF s) {rid : ReqId} (hr : rid ∈ s.active) {c : Ctx}
    (hg : AMap.get? s.ctxs rid.ctx = some c) (c' : Ctx) (hbc : c'.batchCounter = c.batchCounter)
    (hrc : c'.batchRespCount = c.batchRespCount + 1) (hrq : c'.batchReqCount = c.batchReqCount)
    (hst : c'.batchState = if c.batchRespCount + 1 = c.batchReqCount then BatchState.completed else BatchState.running)
    (s' : State) (e1 : s'.newQ = s.newQ) (e2 : s'.newH = s.newH) (e3 : s'.expQ = s.expQ) (e4 : s'.expH = s.expH)
    (e5 : s'.reqs = s.reqs) (e6 : s'.active = s.active.filter (fun y => decide (y ≠ rid)))
    (e7 : s'.ctxs = AMap.set s.ctxs rid.ctx c') : WF s' := by
  obtain ⟨rq0, c0, a1, a2, a3, a4, a5, a6, a7⟩ := hs.act rid hr
  rw [hg] at a4; cases a4
  have hcount := hs.count rid.ctx c hg a5
  have hin : (fun r : ReqId => decide (r.ctx = rid.ctx)) rid = true := by simp
  refine ⟨by rw [e1, e2]; exact hs.newM, by rw [e3, e4]; exact hs.expM, by rw [e2, e4]; exact hs.excl, ?_, ?_, ?_,
    by rw [e1]; exact hs.newND, by rw [e3]; exact hs.expND, ?_⟩
  · intro id' hq
    rw [e2, e4] at hq
    have := hs.live id' hq
    rw [e7]
    rw [contains_iff] at this ⊢
    by_cases hi : rid.ctx = id'
    · subst hi; exact ⟨c', AMap.get?_set_self _ _ _⟩
    · rw [AMap.get?_set_other _ _ _ _ hi]; exact this
  · intro r2 hr2
    rw [e6, List.mem_filter] at hr2
    have hne : r2 ≠ rid := by simpa using hr2.2
    obtain ⟨rq2, c2, b1, b2, b3, b4, b5, b6, b7⟩ := hs.act r2 hr2.1
    rw [e5, e7, e4]
    by_cases hi : rid.ctx = r2.ctx
    · -- another marker of the same context: the batch cannot have completed
      rw [← hi, hg] at b4; cases b4
      have h2 := two_le_length_filter (fun r : ReqId => decide (r.ctx = rid.ctx)) s.active rid r2 (Ne.symm hne) hr hr2.1
        (by simp) (by simp [hi])
      have hrun : c'.batchState = .running := by
        rw [hst, if_neg (by omega)]
      exact ⟨rq2, c', b1, b2, b3, by rw [← hi]; exact AMap.get?_set_self _ _ _, hrun, by rw [hbc]; exact b6, b7⟩
    · exact ⟨rq2, c2, b1, b2, b3, by rw [AMap.get?_set_other _ _ _ _ hi]; exact b4, b5, b6, b7⟩
  · rw [e6]; exact nodup_filter _ hs.nodup
  · intro id' c2 hg2 hrun
    rw [e7] at hg2
    rw [e6]
    by_cases hi : rid.ctx = id'
    · subst hi
      rw [AMap.get?_set_self] at hg2; cases hg2
      have hrem := length_filter_remove (fun r : ReqId => decide (r.ctx = rid.ctx)) s.active rid hs.nodup hr (by simp)
      rw [hrc, hrq]; omega
    · rw [AMap.get?_set_other _ _ _ _ hi] at hg2
      have := hs.count id' c2 hg2 hrun
      rw [length_filter_remove_other (fun r : ReqId => decide (r.ctx = id')) s.active rid (by simp [hi])]
      exact this

theorem addEarnedFee_sched {s s1 : State} {p : Addr} {d : Denom} {amt : Nat} (h : addEarnedFee s p d amt = some s1) :
    SameSched s s1 ∧ s1.resps = s.resps ∧ s1.vols = s.vols ∧ s1.cb = s.cb := by
  unfold addEarnedFee at h
  split at h
  · cases h
  split at h
  · cases h
  cases h
  exact ⟨⟨rfl, rfl, rfl, rfl, rfl, rfl, rfl⟩, rfl, rfl, rfl⟩

theorem getRequest_some {s : State} {rid : ReqId} {rq : Req} {rc : Ctx} (h : getRequest s rid = some (rq, rc)) :
    AMap.get? s.reqs rid = some rq ∧ AMap.get? s.ctxs rq.ctx = some rc := by
  unfold getRequest at h
  split at h
  · cases h
  rename_i rq' hq
  split at h
  · cases h
  rename_i rc' hc
  cases h
  exact ⟨hq, hc⟩

/-- the scheduling fields of `countResponse` -/
theorem countResponse_fields (t : State) (id : CtxId) :
    (countResponse t id).newQ = t.newQ ∧ (countResponse t id).newH = t.newH ∧ (countResponse t id).expQ = t.expQ ∧
    (countResponse t id).expH = t.expH ∧ (countResponse t id).reqs = t.reqs ∧ (countResponse t id).active = t.active ∧
    (countResponse t id).ctxs = AMap.set t.ctxs id
      (if (getCtx t id).batchRespCount + 1 = (getCtx t id).batchReqCount
       then { countedCtx (getCtx t id) with batchState := .completed } else countedCtx (getCtx t id)) := by
  unfold countResponse storeCtx completeBatch callback
  split
  · split <;> exact ⟨rfl, rfl, rfl, rfl, rfl, rfl, rfl⟩
  · exact ⟨rfl, rfl, rfl, rfl, rfl, rfl, rfl⟩

theorem WF_keeperRespond {s s' : State} {provider : Addr} {rid : ReqId} {hasOut : Bool} (hs : WF s)
    (h : keeperRespond s provider rid hasOut = .ok s') : WF s' := by
  unfold keeperRespond at h
  split at h
  · cases h
  rename_i rq rc hgr
  split at h
  · cases h
  split at h
  · cases h
  rename_i hact
  split at h
  · cases h
  rename_i s1 hfee
  cases h
  have hr : rid ∈ s.active := by simpa using hact
  obtain ⟨hq, hc⟩ := getRequest_some hgr
  obtain ⟨rq0, c0, a1, a2, a3, a4, a5, a6, a7⟩ := hs.act rid hr
  rw [hq] at a1
  have e0 : rq = rq0 := Option.some.inj a1
  subst e0
  rw [← a2] at a4
  rw [hc] at a4
  have e1 : rc = c0 := Option.some.inj a4
  subst e1
  obtain ⟨⟨f1, f2, f3, f4, f5, f6, f7⟩, _⟩ := addEarnedFee_sched hfee
  have hcf := countResponse_fields (recordResponse s1 rid provider rq rc hasOut) rq.ctx
  have hget : getCtx (recordResponse s1 rid provider rq rc hasOut) rq.ctx = rc := by
    apply getCtx_of_get?
    simp only [recordResponse]
    rw [f7]; exact hc
  rw [hget] at hcf
  obtain ⟨g1, g2, g3, g4, g5, g6, g7⟩ := hcf
  rw [a2] at hc g1 g2 g3 g4 g5 g6 g7 ⊢
  refine hs.answer hr hc _ ?_ ?_ ?_ ?_ _ (by rw [g1]; exact f1) (by rw [g2]; exact f2) (by rw [g3]; exact f3)
    (by rw [g4]; exact f4) (by rw [g5]; exact f6) (by rw [g6]; simp only [recordResponse]; rw [f5])
    (by rw [g7]; simp only [recordResponse]; rw [f7])
  · split <;> rfl
  · split <;> rfl
  · split <;> rfl
  · split
    · rfl
    · exact a5

end Irismod.Proofs.Service

namespace Irismod.Proofs.Service
open Irismod Irismod.Sdk Irismod.Service Irismod.Spec.C13S

/-! ### expiry -/

theorem get?_filter_key {K V : Type} [DecidableEq K] (p : K → Bool) (m : AMap K V) (k : K) :
    AMap.get? (m.filter (fun e => p e.1)) k = if p k then AMap.get? m k else none := by
  induction m with
  | nil => simp [AMap.get?]
  | cons hd t ih =>
    obtain ⟨k0, v0⟩ := hd
    by_cases hp0 : p k0 = true
    · rw [List.filter_cons, if_pos (by simpa using hp0)]
      by_cases hk : k0 = k
      · subst hk; simp [AMap.get?, hp0]
      · simp only [AMap.get?, hk, if_false]; exact ih
    · rw [List.filter_cons, if_neg (by simpa using hp0)]
      by_cases hk : k0 = k
      · subst hk
        rw [ih]
        simp [hp0]
      · simp only [AMap.get?, hk, if_false]; exact ih

/-- scheduling fields other than the active set -/
def SameButActive (s s' : State) : Prop :=
  s'.newQ = s.newQ ∧ s'.newH = s.newH ∧ s'.expQ = s.expQ ∧ s'.expH = s.expH ∧ s'.reqs = s.reqs ∧ s'.ctxs = s.ctxs ∧
  s'.height = s.height

theorem SameButActive.refl (s : State) : SameButActive s s := ⟨rfl, rfl, rfl, rfl, rfl, rfl, rfl⟩

theorem SameButActive.trans {a b c : State} (h1 : SameButActive a b) (h2 : SameButActive b c) : SameButActive a c :=
  ⟨h2.1.trans h1.1, h2.2.1.trans h1.2.1, h2.2.2.1.trans h1.2.2.1, h2.2.2.2.1.trans h1.2.2.2.1,
   h2.2.2.2.2.1.trans h1.2.2.2.2.1, h2.2.2.2.2.2.1.trans h1.2.2.2.2.2.1, h2.2.2.2.2.2.2.trans h1.2.2.2.2.2.2⟩

theorem slash_sched (s : State) (svc : String) (p : Addr) :
    SameButActive s (slash s svc p) ∧ (slash s svc p).active = s.active := by
  unfold slash
  split
  · exact ⟨SameButActive.refl s, rfl⟩
  · split
    · exact ⟨SameButActive.refl s, rfl⟩
    · split
      · exact ⟨SameButActive.refl s, rfl⟩
      · exact ⟨⟨rfl, rfl, rfl, rfl, rfl, rfl, rfl⟩, rfl⟩

theorem refund_sched (s : State) (c : Addr) (d : Denom) (n : Nat) :
    SameButActive s (refund s c d n) ∧ (refund s c d n).active = s.active := by
  unfold refund
  split
  · exact ⟨SameButActive.refl s, rfl⟩
  · exact ⟨⟨rfl, rfl, rfl, rfl, rfl, rfl, rfl⟩, rfl⟩

theorem expireReq_sched (s : State) (rid : ReqId) :
    SameButActive s (expireReq s rid) ∧ (expireReq s rid).active = s.active.filter (fun y => decide (y ≠ rid)) := by
  unfold expireReq
  split
  · exact ⟨⟨rfl, rfl, rfl, rfl, rfl, rfl, rfl⟩, rfl⟩
  · rename_i rq rc _
    have h1 := slash_sched s rc.svc rq.provider
    have h2 := refund_sched (slash s rc.svc rq.provider) rc.consumer rq.feeDenom rq.feeAmt
    refine ⟨(h1.1.trans h2.1).trans ⟨rfl, rfl, rfl, rfl, rfl, rfl, rfl⟩, ?_⟩
    simp only [dropActive]
    rw [h2.2, h1.2]

theorem foldl_expireReq_sched : ∀ (l : List ReqId) (s : State),
    SameButActive s (l.foldl expireReq s) ∧ (l.foldl expireReq s).active = s.active.filter (fun y => !(l.contains y))
  | [], s => ⟨SameButActive.refl s, by
      simp only [List.foldl, List.contains_nil, Bool.not_false]
      exact (List.filter_eq_self.mpr (fun _ _ => rfl)).symm⟩
  | r :: rest, s => by
    have h1 := expireReq_sched s r
    have h2 := foldl_expireReq_sched rest (expireReq s r)
    refine ⟨h1.1.trans h2.1, ?_⟩
    simp only [List.foldl]
    rw [h2.2, h1.2, List.filter_filter]
    apply List.filter_congr
    intro y _
    by_cases hy : y = r
    · subst hy; simp
    · simp [hy]

/-- what the first half of the expired-batch handler leaves behind on a well-formed state -/
theorem expirePhase_sched {s : State} (hs : WF s) {id : CtxId} {c : Ctx} (hg : AMap.get? s.ctxs id = some c) :
    SameButActive s (expirePhase s id).1 ∧
    (expirePhase s id).1.active = s.active.filter (fun r => decide (r.ctx ≠ id)) ∧
    ctxCore (expirePhase s id).2 = (BatchState.completed, c.batchCounter, c.batchRespCount, c.batchReqCount) := by
  have hgc := getCtx_of_get? hg
  unfold expirePhase
  rw [hgc]
  split
  · -- running batch: every marker of the context belongs to it and is expired
    have hf := foldl_expireReq_sched (activeOf s id c.batchCounter) s
    have hcb : ∀ (t : State), SameButActive t (completeBatch t c id).1 ∧ (completeBatch t c id).1.active = t.active ∧
        ctxCore (completeBatch t c id).2 = (BatchState.completed, c.batchCounter, c.batchRespCount, c.batchReqCount) := by
      intro t
      unfold completeBatch callback
      split <;> exact ⟨⟨rfl, rfl, rfl, rfl, rfl, rfl, rfl⟩, rfl, rfl⟩
    obtain ⟨k1, k2, k3⟩ := hcb ((activeOf s id c.batchCounter).foldl expireReq s)
    refine ⟨hf.1.trans k1, ?_, k3⟩
    rw [k2, hf.2]
    apply List.filter_congr
    intro r hr
    obtain ⟨rq, c1, _, _, _, a4, _, a6, _⟩ := hs.act r hr
    by_cases hi : r.ctx = id
    · subst hi
      rw [hg] at a4; cases a4
      have : r ∈ activeOf s r.ctx c.batchCounter := by
        unfold activeOf
        rw [mem_isort, List.mem_filter]
        exact ⟨hr, by simp [ReqId.inBatch, a6]⟩
      simp [this]
    · have : r ∉ activeOf s id c.batchCounter := by
        unfold activeOf
        rw [mem_isort, List.mem_filter]
        rintro ⟨_, hb⟩
        simp [ReqId.inBatch, hi] at hb
      simp [this, hi]
  · rename_i hdone
    have hd : c.batchState = .completed := Decidable.of_not_not hdone
    refine ⟨SameButActive.refl s, ?_, by simp [ctxCore, hd]⟩
    symm
    apply List.filter_eq_self.mpr
    intro r hr
    obtain ⟨rq, c1, _, _, _, a4, a5, _, _⟩ := hs.act r hr
    simp only [ne_eq, decide_eq_true_eq]
    intro hi
    subst hi
    rw [hg] at a4; cases a4
    rw [hd] at a5; cases a5

end Irismod.Proofs.Service

namespace Irismod.Proofs.Service
open Irismod Irismod.Sdk Irismod.Service Irismod.Spec.C13S

theorem filter_ctx_other (l : List ReqId) (id id' : CtxId) (h : id' ≠ id) :
    (l.filter (fun r => decide (r.ctx ≠ id))).filter (fun r => decide (r.ctx = id')) = l.filter (fun r => decide (r.ctx = id')) := by
  rw [List.filter_filter]
  apply List.filter_congr
  intro r _
  by_cases hr : r.ctx = id'
  · simp [hr, h]
  · simp [hr]

/-- removing a context that is in no queue and has no markers -/
theorem WF.eraseCtx {s : State} (h : WF s) (id : CtxId) (hn : AMap.contains s.newH id = false)
    (he : AMap.contains s.expH id = false) (hna : ∀ r, r ∈ s.active → r.ctx ≠ id) : WF (eraseCtx s id) := by
  refine ⟨h.newM, h.expM, h.excl, ?_, ?_, h.nodup, h.newND, h.expND, ?_⟩
  · intro id' hq
    have := h.live id' hq
    simp only [Irismod.Service.eraseCtx]
    by_cases hi : id = id'
    · subst hi
      rcases hq with hq | hq
      · have hq' : AMap.contains s.newH id = true := hq
        rw [hn] at hq'; cases hq'
      · have hq' : AMap.contains s.expH id = true := hq
        rw [he] at hq'; cases hq'
    · rw [contains_iff] at this ⊢
      rw [get?_erase_other _ _ _ hi]; exact this
  · intro r hr
    obtain ⟨rq, c1, h1, h2, h3, h4, h5, h6, h7⟩ := h.act r hr
    have hi : id ≠ r.ctx := fun e => hna r hr e.symm
    exact ⟨rq, c1, h1, h2, h3, by simp only [Irismod.Service.eraseCtx]; rw [get?_erase_other _ _ _ hi]; exact h4, h5, h6, h7⟩
  · intro id' c' hg hrun
    simp only [Irismod.Service.eraseCtx] at hg
    exact h.count id' c' (get?_erase_some hg) hrun

/-- `CleanBatch` when the batch has no marker left -/
theorem WF.cleanBatch {s : State} (h : WF s) (id : CtxId) (b : Nat) (hna : ∀ r, r ∈ s.active → r.ctx ≠ id) :
    WF (cleanBatch s id b) := by
  refine ⟨h.newM, h.expM, h.excl, h.live, ?_, h.nodup, h.newND, h.expND, h.count⟩
  intro r hr
  obtain ⟨rq, c1, h1, h2, h3, h4, h5, h6, h7⟩ := h.act r hr
  refine ⟨rq, c1, ?_, h2, h3, h4, h5, h6, h7⟩
  simp only [Irismod.Service.cleanBatch]
  rw [get?_filter_key (fun k : ReqId => !(k.inBatch id b))]
  have : r.inBatch id b = false := by simp [ReqId.inBatch, hna r hr]
  simp [this, h1]

theorem WF_expireCtx {s : State} (hs : WF s) (id : CtxId) (hm : AMap.get? s.expH id = some s.height) :
    WF (expireCtx s id) ∧ (expireCtx s id).height = s.height ∧
    (∀ e, e ∈ (expireCtx s id).expQ ↔ e ∈ s.expQ ∧ e ≠ (s.height, id)) := by
  have hlive := hs.live id (Or.inr ((contains_iff _ _).mpr ⟨_, hm⟩))
  obtain ⟨c, hg⟩ := (contains_iff _ _).mp hlive
  obtain ⟨hsame, hact, hcore⟩ := expirePhase_sched hs hg
  obtain ⟨q1, q2, q3, q4, q5, q6, q7⟩ := hsame
  simp only [ctxCore, Prod.mk.injEq] at hcore
  obtain ⟨k1, k2, k3, k4⟩ := hcore
  have hnew : AMap.contains s.newH id = false := by
    cases hc : AMap.contains s.newH id with
    | false => rfl
    | true =>
      have := hs.excl id hc
      rw [(contains_false_iff _ _)] at this
      rw [hm] at this; cases this
  -- the state after the queue entry is dropped and the completed context stored
  have hu : WF (setCtx (delExp (expirePhase s id).1 id (expirePhase s id).1.height) id (expirePhase s id).2) := by
    refine ⟨?_, ?_, ?_, ?_, ?_, ?_, ?_, ?_, ?_⟩
    · simp only [setCtx, delExp]; rw [q1, q2]; exact hs.newM
    · simp only [setCtx, delExp]; rw [q3, q4, q7]; exact MarkersAgree.del hs.expM id s.height hm
    · intro id' hq
      simp only [setCtx, delExp] at hq ⊢
      rw [q2] at hq; rw [q4]
      by_cases hi : id = id'
      · subst hi; rw [contains_false_iff]; exact get?_erase_self _ _
      · have := hs.excl id' hq
        rw [contains_false_iff] at this ⊢
        rw [get?_erase_other _ _ _ hi]; exact this
    · intro id' hq
      simp only [setCtx, delExp] at hq ⊢
      rw [q2, q4] at hq; rw [q6]
      rw [contains_iff]
      by_cases hi : id = id'
      · subst hi; exact ⟨_, AMap.get?_set_self _ _ _⟩
      · rw [AMap.get?_set_other _ _ _ _ hi]
        rw [← contains_iff]
        apply hs.live
        rcases hq with hq | hq
        · exact Or.inl hq
        · right
          rw [contains_iff] at hq ⊢
          obtain ⟨v, hv⟩ := hq
          exact ⟨v, get?_erase_some hv⟩
    · intro r hr
      simp only [setCtx, delExp] at hr ⊢
      rw [hact, List.mem_filter] at hr
      have hi : id ≠ r.ctx := by have := hr.2; simp only [ne_eq, decide_eq_true_eq] at this; exact fun e => this e.symm
      obtain ⟨rq, c1, h1, h2, h3, h4, h5, h6, h7⟩ := hs.act r hr.1
      rw [q5, q6, q4]
      exact ⟨rq, c1, h1, h2, h3, by rw [AMap.get?_set_other _ _ _ _ hi]; exact h4, h5, h6,
        by rw [get?_erase_other _ _ _ hi]; exact h7⟩
    · simp only [setCtx, delExp]; rw [hact]; exact nodup_filter _ hs.nodup
    · simp only [setCtx, delExp]; rw [q1]; exact hs.newND
    · simp only [setCtx, delExp]; rw [q3]; exact nodup_filter _ hs.expND
    · intro id' c' hg' hrun
      simp only [setCtx, delExp] at hg' ⊢
      rw [q6] at hg'; rw [hact]
      by_cases hi : id = id'
      · subst hi
        rw [AMap.get?_set_self] at hg'; cases hg'
        rw [k1] at hrun; cases hrun
      · rw [AMap.get?_set_other _ _ _ _ hi] at hg'
        rw [filter_ctx_other _ _ _ (Ne.symm hi)]
        exact hs.count id' c' hg' hrun
  have hna : ∀ r, r ∈ (setCtx (delExp (expirePhase s id).1 id (expirePhase s id).1.height) id (expirePhase s id).2).active →
      r.ctx ≠ id := by
    intro r hr
    simp only [setCtx, delExp] at hr
    rw [hact, List.mem_filter] at hr
    simpa using hr.2
  have hun : AMap.contains (setCtx (delExp (expirePhase s id).1 id (expirePhase s id).1.height) id (expirePhase s id).2).newH id = false := by
    simp only [setCtx, delExp]; rw [q2]; exact hnew
  have hue : AMap.contains (setCtx (delExp (expirePhase s id).1 id (expirePhase s id).1.height) id (expirePhase s id).2).expH id = false := by
    simp only [setCtx, delExp]; rw [contains_false_iff]; exact get?_erase_self _ _
  have huc : AMap.contains (setCtx (delExp (expirePhase s id).1 id (expirePhase s id).1.height) id (expirePhase s id).2).ctxs id = true := by
    simp only [setCtx, delExp]; rw [contains_iff]; exact ⟨_, AMap.get?_set_self _ _ _⟩
  -- settle
  have hv : WF (settleCtx (setCtx (delExp (expirePhase s id).1 id (expirePhase s id).1.height) id (expirePhase s id).2) id (expirePhase s id).2) ∧
      (∀ r, r ∈ (settleCtx (setCtx (delExp (expirePhase s id).1 id (expirePhase s id).1.height) id (expirePhase s id).2) id (expirePhase s id).2).active → r.ctx ≠ id) ∧
      (settleCtx (setCtx (delExp (expirePhase s id).1 id (expirePhase s id).1.height) id (expirePhase s id).2) id (expirePhase s id).2).expQ =
        s.expQ.filter (fun y => decide (y ≠ (s.height, id))) ∧
      (settleCtx (setCtx (delExp (expirePhase s id).1 id (expirePhase s id).1.height) id (expirePhase s id).2) id (expirePhase s id).2).height = s.height := by
    have hq : (setCtx (delExp (expirePhase s id).1 id (expirePhase s id).1.height) id (expirePhase s id).2).expQ =
        s.expQ.filter (fun y => decide (y ≠ (s.height, id))) := by
      simp only [setCtx, delExp]; rw [q3, q7]
    have hh : (setCtx (delExp (expirePhase s id).1 id (expirePhase s id).1.height) id (expirePhase s id).2).height = s.height := by
      simp only [setCtx, delExp]; exact q7
    unfold settleCtx
    split
    · exact ⟨hu.eraseCtx id hun hue hna, hna, hq, hh⟩
    · split
      · split
        · exact ⟨WF.addNew hu id _ huc hun hue, hna, hq, hh⟩
        · exact ⟨hu.eraseCtx id hun hue hna, hna, hq, hh⟩
      · exact ⟨hu, hna, hq, hh⟩
  unfold expireCtx finishExpire
  refine ⟨hv.1.cleanBatch id _ hv.2.1, ?_, ?_⟩
  · simp only [Irismod.Service.cleanBatch]; exact hv.2.2.2
  · intro e
    simp only [Irismod.Service.cleanBatch]
    rw [hv.2.2.1, List.mem_filter]
    simp

end Irismod.Proofs.Service

namespace Irismod.Proofs.Service
open Irismod Irismod.Sdk Irismod.Service Irismod.Spec.C13S

/-! ### issuing a batch -/

/-- the request ids `InitiateRequests` generates: indices `i, i+1, …, i+n-1` -/
def newRids (id : CtxId) (b : Nat) (h : Int) : Nat → Nat → List ReqId
  | _, 0 => []
  | i, n + 1 => reqIdOf id b h i :: newRids id b h (i + 1) n

theorem mem_newRids {id : CtxId} {b : Nat} {h : Int} {r : ReqId} :
    ∀ (n i : Nat), r ∈ newRids id b h i n → r.ctx = id ∧ r.batch = b ∧ r.h = h ∧ i ≤ r.idx
  | 0, _, hm => by cases hm
  | n + 1, i, hm => by
    simp only [newRids, List.mem_cons] at hm
    rcases hm with hm | hm
    · subst hm; exact ⟨rfl, rfl, rfl, Nat.le_refl _⟩
    · have := mem_newRids n (i + 1) hm
      exact ⟨this.1, this.2.1, this.2.2.1, by omega⟩

theorem nodup_newRids (id : CtxId) (b : Nat) (h : Int) : ∀ (n i : Nat), (newRids id b h i n).Nodup
  | 0, _ => by simp [newRids]
  | n + 1, i => by
    simp only [newRids, List.nodup_cons]
    refine ⟨?_, nodup_newRids id b h n (i + 1)⟩
    intro hm
    have := (mem_newRids n (i + 1) hm).2.2.2
    simp only [reqIdOf] at this
    omega

theorem length_newRids (id : CtxId) (b : Nat) (h : Int) : ∀ (n i : Nat), (newRids id b h i n).length = n
  | 0, _ => rfl
  | n + 1, i => by simp [newRids, length_newRids id b h n (i + 1)]

/-- what the request loop of `InitiateRequests` does to the scheduling fields -/
theorem mkRequests_spec (id : CtxId) (b : Nat) (svc : String) (cons : Addr) (to : Int) :
    ∀ (ps : List Addr) (i : Nat) (s : State),
      (∀ r, r ∈ s.active → r.ctx = id → r.batch = b → r.h = s.height → r.idx < i) →
      (mkRequests s id b svc cons to ps i).newQ = s.newQ ∧ (mkRequests s id b svc cons to ps i).newH = s.newH ∧
      (mkRequests s id b svc cons to ps i).expQ = s.expQ ∧ (mkRequests s id b svc cons to ps i).expH = s.expH ∧
      (mkRequests s id b svc cons to ps i).ctxs = s.ctxs ∧ (mkRequests s id b svc cons to ps i).height = s.height ∧
      (mkRequests s id b svc cons to ps i).active = s.active ++ newRids id b s.height i ps.length ∧
      (∀ r, r ∈ s.active → AMap.get? (mkRequests s id b svc cons to ps i).reqs r = AMap.get? s.reqs r) ∧
      (∀ r, r ∈ newRids id b s.height i ps.length →
        ∃ rq, AMap.get? (mkRequests s id b svc cons to ps i).reqs r = some rq ∧ rq.ctx = id ∧ rq.batch = b ∧
          rq.expH = s.height + to)
  | [], i, s, _ =>
    ⟨rfl, rfl, rfl, rfl, rfl, rfl, by simp [mkRequests, newRids], fun _ _ => rfl, fun _ hm => by simp [newRids] at hm⟩
  | p :: rest, i, s, hpre => by
    have hnot : s.active.contains (reqIdOf id b s.height i) = false := by
      cases hc : s.active.contains (reqIdOf id b s.height i) with
      | false => rfl
      | true =>
        have hm : reqIdOf id b s.height i ∈ s.active := by simpa using hc
        have := hpre _ hm rfl rfl rfl
        simp [reqIdOf] at this
    have ih := mkRequests_spec id b svc cons to rest (i + 1)
      (addRequest s (reqIdOf id b s.height i) (mkReq s id b svc cons to p)) (by
        intro r hr h1 h2 h3
        simp only [addRequest, hnot, Bool.false_eq_true, if_false, List.mem_append, List.mem_singleton] at hr
        rcases hr with hr | hr
        · have := hpre r hr h1 h2 h3; omega
        · subst hr; simp [reqIdOf])
    simp only [mkRequests, List.length_cons, newRids]
    obtain ⟨i1, i2, i3, i4, i5, i6, i7, i8, i9⟩ := ih
    have hadd : (addRequest s (reqIdOf id b s.height i) (mkReq s id b svc cons to p)).active =
        s.active ++ [reqIdOf id b s.height i] := by
      simp only [addRequest, hnot, Bool.false_eq_true, if_false]
    have hh : (addRequest s (reqIdOf id b s.height i) (mkReq s id b svc cons to p)).height = s.height := rfl
    rw [hh] at i7 i9
    refine ⟨i1, i2, i3, i4, i5, i6, ?_, ?_, ?_⟩
    · rw [i7, hadd, List.append_assoc]; rfl
    · intro r hr
      rw [i8 r (by rw [hadd]; exact List.mem_append_left _ hr)]
      simp only [addRequest]
      have hne : reqIdOf id b s.height i ≠ r := by
        intro e; subst e
        have := hpre _ hr rfl rfl rfl
        simp [reqIdOf] at this
      exact AMap.get?_set_other _ _ _ _ hne
    · intro r hr
      simp only [List.mem_cons] at hr
      rcases hr with hr | hr
      · subst hr
        rw [i8 _ (by rw [hadd]; exact List.mem_append_right _ (List.mem_singleton.mpr rfl))]
        simp only [addRequest]
        exact ⟨_, AMap.get?_set_self _ _ _, rfl, rfl, rfl⟩
      · exact i9 r hr

end Irismod.Proofs.Service

namespace Irismod.Proofs.Service
open Irismod Irismod.Sdk Irismod.Service Irismod.Spec.C13S

/-- no marker belongs to a context that is waiting in the new-batch queue -/
theorem WF.no_active_of_new {s : State} (hs : WF s) {id : CtxId} (hn : AMap.contains s.newH id = true) :
    ∀ r, r ∈ s.active → r.ctx ≠ id := by
  intro r hr hi
  obtain ⟨rq, c1, _, _, _, _, _, _, h7⟩ := hs.act r hr
  have := hs.excl id hn
  rw [contains_false_iff] at this
  rw [hi, this] at h7; cases h7

/-- replacing the context of an idle (marker-free) batch -/
theorem WF.setCtx_noActive {s : State} (h : WF s) {id : CtxId} (c : Ctx) (hctx : AMap.contains s.ctxs id = true)
    (hna : ∀ r, r ∈ s.active → r.ctx ≠ id) (hc : c.batchState = .running → c.batchRespCount = c.batchReqCount) :
    WF (setCtx s id c) := by
  refine ⟨h.newM, h.expM, h.excl, ?_, ?_, h.nodup, h.newND, h.expND, ?_⟩
  · intro id' hq
    have := h.live id' hq
    simp only [setCtx]
    rw [contains_iff] at this ⊢
    by_cases hi : id = id'
    · subst hi; exact ⟨c, AMap.get?_set_self _ _ _⟩
    · rw [AMap.get?_set_other _ _ _ _ hi]; exact this
  · intro r hr
    obtain ⟨rq, c1, h1, h2, h3, h4, h5, h6, h7⟩ := h.act r hr
    have hi : id ≠ r.ctx := fun e => hna r hr e.symm
    exact ⟨rq, c1, h1, h2, h3, by simp only [setCtx]; rw [AMap.get?_set_other _ _ _ _ hi]; exact h4, h5, h6, h7⟩
  · intro id' c' hg' hrun
    simp only [setCtx] at hg' ⊢
    by_cases hi : id = id'
    · subst hi
      rw [AMap.get?_set_self] at hg'; cases hg'
      have : s.active.filter (fun r => decide (r.ctx = id)) = [] := by
        apply List.filter_eq_nil_iff.mpr
        intro r hr; simpa using hna r hr
      rw [this]; simp [hc hrun]
    · rw [AMap.get?_set_other _ _ _ _ hi] at hg'
      exact h.count id' c' hg' hrun

/-- moving a context from the new-batch queue to the expired-batch queue with a fresh batch -/
theorem WF.startBatch {s : State} (hs : WF s) {id : CtxId} {h0 : Int} (hn : AMap.get? s.newH id = some h0)
    (h1 : Int) (c' : Ctx) (extra : List ReqId)
    (hnd : extra.Nodup) (hex : ∀ r, r ∈ extra → r.ctx = id ∧ r.batch = c'.batchCounter)
    (hrun : c'.batchState = .running) (hresp : c'.batchRespCount = 0) (hreq : c'.batchReqCount = extra.length)
    (s' : State)
    (e1 : s'.newQ = s.newQ.filter (fun y => decide (y ≠ (h0, id)))) (e2 : s'.newH = AMap.erase s.newH id)
    (e3 : s'.expQ = qInsert s.expQ (h1, id)) (e4 : s'.expH = AMap.set s.expH id h1)
    (e5 : s'.active = s.active ++ extra) (e6 : s'.ctxs = AMap.set s.ctxs id c')
    (e7 : ∀ r, r ∈ s.active → AMap.get? s'.reqs r = AMap.get? s.reqs r)
    (e8 : ∀ r, r ∈ extra → ∃ rq, AMap.get? s'.reqs r = some rq ∧ rq.ctx = r.ctx ∧ rq.batch = r.batch ∧ rq.expH = h1) :
    WF s' := by
  have hnc : AMap.contains s.newH id = true := (contains_iff _ _).mpr ⟨_, hn⟩
  have hexp : AMap.contains s.expH id = false := hs.excl id hnc
  have hna := hs.no_active_of_new hnc
  refine ⟨?_, ?_, ?_, ?_, ?_, ?_, ?_, ?_, ?_⟩
  · rw [e1, e2]; exact MarkersAgree.del hs.newM id h0 hn
  · rw [e3, e4]; exact MarkersAgree.add hs.expM id h1 hexp
  · intro id' hq
    rw [e2] at hq; rw [e4]
    by_cases hi : id = id'
    · subst hi
      rw [contains_iff, get?_erase_self] at hq
      obtain ⟨_, hv⟩ := hq; cases hv
    · have hq' : AMap.contains s.newH id' = true := by
        rw [contains_iff] at hq ⊢
        rw [get?_erase_other _ _ _ hi] at hq; exact hq
      have := hs.excl id' hq'
      rw [contains_false_iff] at this ⊢
      rw [AMap.get?_set_other _ _ _ _ hi]; exact this
  · intro id' hq
    rw [e2, e4] at hq; rw [e6]
    rw [contains_iff]
    by_cases hi : id = id'
    · subst hi; exact ⟨_, AMap.get?_set_self _ _ _⟩
    · rw [AMap.get?_set_other _ _ _ _ hi, ← contains_iff]
      apply hs.live
      rcases hq with hq | hq
      · left
        rw [contains_iff] at hq ⊢
        obtain ⟨v, hv⟩ := hq
        exact ⟨v, get?_erase_some hv⟩
      · right
        rw [contains_iff] at hq ⊢
        rw [AMap.get?_set_other _ _ _ _ hi] at hq; exact hq
  · intro r hr
    rw [e5, List.mem_append] at hr
    rw [e6, e4]
    rcases hr with hr | hr
    · obtain ⟨rq, c1, a1, a2, a3, a4, a5, a6, a7⟩ := hs.act r hr
      have hi : id ≠ r.ctx := fun e => hna r hr e.symm
      exact ⟨rq, c1, by rw [e7 r hr]; exact a1, a2, a3, by rw [AMap.get?_set_other _ _ _ _ hi]; exact a4, a5, a6,
        by rw [AMap.get?_set_other _ _ _ _ hi]; exact a7⟩
    · obtain ⟨rq, b1, b2, b3, b4⟩ := e8 r hr
      have hc := hex r hr
      exact ⟨rq, c', b1, b2, b3, by rw [hc.1]; exact AMap.get?_set_self _ _ _, hrun, hc.2.symm,
        by rw [hc.1, b4]; exact AMap.get?_set_self _ _ _⟩
  · rw [e5, List.nodup_append]
    refine ⟨hs.nodup, hnd, ?_⟩
    intro a ha b hb e
    subst e
    exact hna a ha (hex a hb).1
  · rw [e1]; exact nodup_filter _ hs.newND
  · rw [e3]; exact nodup_qInsert hs.expND _
  · intro id' c2 hg2 hrun2
    rw [e6] at hg2
    rw [e5, List.filter_append, List.length_append]
    by_cases hi : id = id'
    · subst hi
      rw [AMap.get?_set_self] at hg2; cases hg2
      have z1 : s.active.filter (fun r => decide (r.ctx = id)) = [] := by
        apply List.filter_eq_nil_iff.mpr
        intro r hr; simpa using hna r hr
      have z2 : extra.filter (fun r => decide (r.ctx = id)) = extra := by
        apply List.filter_eq_self.mpr
        intro r hr; simpa using (hex r hr).1
      rw [z1, z2, hresp, hreq]; simp
    · rw [AMap.get?_set_other _ _ _ _ hi] at hg2
      have z2 : extra.filter (fun r => decide (r.ctx = id')) = [] := by
        apply List.filter_eq_nil_iff.mpr
        intro r hr
        simp only [decide_eq_true_eq]
        intro e; exact hi ((hex r hr).1.symm.trans e)
      rw [z2]
      simpa using hs.count id' c2 hg2 hrun2

end Irismod.Proofs.Service

namespace Irismod.Proofs.Service
open Irismod Irismod.Sdk Irismod.Service Irismod.Spec.C13S

theorem WF.withBank {s : State} (h : WF s) (b : Bank) : WF { s with bank := b } :=
  h.of_same ⟨rfl, rfl, rfl, rfl, rfl, rfl, rfl⟩

/-- pausing a queued context (no funds / no exchange rate) and dropping its queue entry -/
theorem WF_pausedDel {s : State} (hs : WF s) (id : CtxId) (hm : AMap.get? s.newH id = some s.height) (c : Ctx)
    (cause : String) :
    WF (delNew (onPaused s id c cause) id s.height) ∧ (delNew (onPaused s id c cause) id s.height).height = s.height ∧
    (∀ e, e ∈ (delNew (onPaused s id c cause) id s.height).newQ → e ∈ s.newQ) ∧
    (∀ id', id' ≠ id → AMap.get? (delNew (onPaused s id c cause) id s.height).newH id' = AMap.get? s.newH id') := by
  have hnc : AMap.contains s.newH id = true := (contains_iff _ _).mpr ⟨_, hm⟩
  have hlive := hs.live id (Or.inl hnc)
  have hna := hs.no_active_of_new hnc
  have h1 : WF (onPaused s id c cause) := by
    unfold onPaused
    have hp := hs.setCtx_noActive (id := id) { c with batchState := .completed, state := .paused } hlive hna
      (by intro h; cases h)
    split
    · exact hp.of_same ⟨rfl, rfl, rfl, rfl, rfl, rfl, rfl⟩
    · exact hp
  have hnew : (onPaused s id c cause).newH = s.newH ∧ (onPaused s id c cause).newQ = s.newQ ∧
      (onPaused s id c cause).height = s.height := by
    unfold onPaused; split <;> exact ⟨rfl, rfl, rfl⟩
  refine ⟨WF.delNew h1 id s.height (by rw [hnew.1]; exact hm), ?_, ?_, ?_⟩
  · simp only [delNew]; exact hnew.2.2
  · intro e he
    simp only [delNew] at he
    rw [hnew.2.1] at he
    exact (List.mem_filter.mp he).1
  · intro id' hi
    simp only [delNew]
    rw [hnew.1, get?_erase_other _ _ _ (Ne.symm hi)]

theorem WF_newBatch {s : State} (hs : WF s) (id : CtxId) (hm : AMap.get? s.newH id = some s.height) :
    WF (newBatch s id) ∧ (newBatch s id).height = s.height ∧
    (∀ e, e ∈ (newBatch s id).newQ → e ∈ s.newQ) ∧
    (∀ id', id' ≠ id → AMap.get? (newBatch s id).newH id' = AMap.get? s.newH id') := by
  have hnc : AMap.contains s.newH id = true := (contains_iff _ _).mpr ⟨_, hm⟩
  have hlive := hs.live id (Or.inl hnc)
  obtain ⟨c, hg⟩ := (contains_iff _ _).mp hlive
  have hgc := getCtx_of_get? hg
  have hna := hs.no_active_of_new hnc
  have hdelQ : ∀ (q : List (Int × CtxId)) e, e ∈ q.filter (fun y => decide (y ≠ (s.height, id))) → e ∈ q :=
    fun q e he => (List.mem_filter.mp he).1
  unfold newBatch
  rw [hgc]
  split
  · split
    · exact WF_pausedDel hs id hm c _
    · rename_i provs total _
      split
      · -- charge and start
        unfold chargeAndStart
        split
        · -- paid: the requests of the new batch are created
          have hspec := mkRequests_spec id (c.batchCounter + 1) c.svc c.consumer c.timeout provs 0
            { s with bank := creditCoins (debitCoins s.bank c.consumer (sortCoins total)).1 reqAcc (sortCoins total) }
            (fun r hr hi _ _ => absurd hi (hna r hr))
          have hget : getCtx { s with bank := creditCoins (debitCoins s.bank c.consumer (sortCoins total)).1 reqAcc (sortCoins total) } id = c :=
            getCtx_of_get? hg
          obtain ⟨m1, m2, m3, m4, m5, m6, m7, m8, m9⟩ := hspec
          refine ⟨?_, ?_, ?_, ?_⟩
          · refine hs.startBatch hm (s.height + c.timeout) (startedCtx c provs.length)
              (newRids id (c.batchCounter + 1) s.height 0 provs.length) (nodup_newRids _ _ _ _ _) ?_ rfl rfl
              (by simp [startedCtx, length_newRids]) _ ?_ ?_ ?_ ?_ ?_ ?_ ?_ ?_
            · intro r hr
              have := mem_newRids _ _ hr
              exact ⟨this.1, this.2.1⟩
            · simp only [delNew, addExp, initiateRequests, setCtx, hget]; rw [m1]
            · simp only [delNew, addExp, initiateRequests, setCtx, hget]; rw [m2]
            · simp only [delNew, addExp, initiateRequests, setCtx, hget]; rw [m3]
            · simp only [delNew, addExp, initiateRequests, setCtx, hget]; rw [m4]
            · simp only [delNew, addExp, initiateRequests, setCtx, hget]; rw [m7]
            · simp only [delNew, addExp, initiateRequests, setCtx, hget]; rw [m5]
            · intro r hr
              simp only [delNew, addExp, initiateRequests, setCtx, hget]
              exact m8 r hr
            · intro r hr
              simp only [delNew, addExp, initiateRequests, setCtx, hget]
              obtain ⟨rq, b1, b2, b3, b4⟩ := m9 r hr
              have := mem_newRids _ _ hr
              exact ⟨rq, b1, by rw [b2, this.1], by rw [b3, this.2.1], b4⟩
          · simp only [delNew, addExp, initiateRequests, setCtx, hget]; exact m6
          · intro e he
            simp only [delNew, addExp, initiateRequests, setCtx, hget] at he
            rw [m1] at he
            exact hdelQ _ e he
          · intro id' hi
            simp only [delNew, addExp, initiateRequests, setCtx, hget]
            rw [m2, get?_erase_other _ _ _ (Ne.symm hi)]
        · -- the consumer cannot pay: automatic pause
          exact WF_pausedDel hs id hm c _
      · -- no provider qualifies: the batch is skipped
        refine ⟨?_, rfl, ?_, ?_⟩
        · refine hs.startBatch hm (s.height + c.timeout) (startedCtx c 0) [] (by simp) (by intro r hr; cases hr) rfl rfl rfl
            _ rfl rfl rfl rfl (by simp [delNew, addExp, skipBatch, setCtx]) rfl (fun _ _ => rfl) (by intro r hr; cases hr)
        · intro e he
          simp only [delNew, addExp, skipBatch, setCtx] at he
          exact hdelQ _ e he
        · intro id' hi
          simp only [delNew, addExp, skipBatch, setCtx]
          rw [get?_erase_other _ _ _ (Ne.symm hi)]
  · refine ⟨WF.delNew hs id s.height hm, rfl, ?_, ?_⟩
    · intro e he
      simp only [delNew] at he
      exact hdelQ _ e he
    · intro id' hi
      simp only [delNew]
      rw [get?_erase_other _ _ _ (Ne.symm hi)]

end Irismod.Proofs.Service

namespace Irismod.Proofs.Service
open Irismod Irismod.Sdk Irismod.Service Irismod.Spec.C13S

/-! ### the end block -/

theorem nodup_insertBy {α : Type} (le : α → α → Bool) (x : α) : ∀ l : List α, x ∉ l → l.Nodup → (insertBy le x l).Nodup
  | [], _, _ => by simp [insertBy]
  | h :: t, hx, hn => by
    simp only [insertBy]
    split
    · exact List.nodup_cons.mpr ⟨hx, hn⟩
    · rw [List.nodup_cons] at hn ⊢
      have hxt : x ∉ t := fun e => hx (List.mem_cons_of_mem _ e)
      refine ⟨?_, nodup_insertBy le x t hxt hn.2⟩
      rw [mem_insertBy]
      rintro (e | e)
      · subst e; exact hx (List.mem_cons_self ..)
      · exact hn.1 e

theorem nodup_isort {α : Type} (le : α → α → Bool) : ∀ l : List α, l.Nodup → (isort le l).Nodup
  | [], _ => by simp [isort]
  | h :: t, hn => by
    rw [List.nodup_cons] at hn
    have ih := nodup_isort le t hn.2
    unfold isort at ih ⊢
    simp only [List.foldr]
    apply nodup_insertBy le h _ _ ih
    have := mem_isort le h t
    unfold isort at this
    rw [this]; exact hn.1

theorem mem_dueIds (q : List (Int × CtxId)) (h : Int) (id : CtxId) : id ∈ dueIds q h ↔ (h, id) ∈ q := by
  unfold dueIds
  rw [mem_isort, List.mem_map]
  constructor
  · rintro ⟨e, he, rfl⟩
    rw [List.mem_filter] at he
    have : e.1 = h := by simpa using he.2
    rw [← this]; exact he.1
  · intro hm
    exact ⟨(h, id), List.mem_filter.mpr ⟨hm, by simp⟩, rfl⟩

theorem nodup_dueIds (q : List (Int × CtxId)) (h : Int) (hn : q.Nodup) : (dueIds q h).Nodup := by
  unfold dueIds
  apply nodup_isort
  induction q with
  | nil => simp
  | cons e t ih =>
    rw [List.nodup_cons] at hn
    by_cases he : e.1 = h
    · rw [List.filter_cons, if_pos (by simpa using he), List.map_cons, List.nodup_cons]
      refine ⟨?_, ih hn.2⟩
      rw [List.mem_map]
      rintro ⟨e', he', h2⟩
      rw [List.mem_filter] at he'
      have h1 : e'.1 = h := by simpa using he'.2
      have : e' = e := Prod.ext (h1.trans he.symm) h2
      subst this; exact hn.1 he'.1
    · rw [List.filter_cons, if_neg (by simpa using he)]
      exact ih hn.2

theorem WF_foldl_expire : ∀ (l : List CtxId) (s : State), WF s → l.Nodup →
    (∀ id, id ∈ l → AMap.get? s.expH id = some s.height) →
    WF (l.foldl expireCtx s) ∧ (l.foldl expireCtx s).height = s.height ∧
    (∀ e, e ∈ (l.foldl expireCtx s).expQ ↔ e ∈ s.expQ ∧ ∀ id, id ∈ l → e ≠ (s.height, id))
  | [], _, hs, _, _ => ⟨hs, rfl, fun e => ⟨fun h => ⟨h, fun _ hm => by cases hm⟩, fun h => h.1⟩⟩
  | id :: rest, s, hs, hn, hd => by
    rw [List.nodup_cons] at hn
    obtain ⟨w1, w2, w3⟩ := WF_expireCtx hs id (hd id (List.mem_cons_self ..))
    have := WF_foldl_expire rest (expireCtx s id) w1 hn.2 (by
      intro id' hm
      rw [w2]
      apply w1.expM.1
      rw [w3]
      refine ⟨hs.expM.2 id' s.height (hd id' (List.mem_cons_of_mem _ hm)), ?_⟩
      intro e
      have : id' = id := (Prod.mk.inj e).2
      subst this; exact hn.1 hm)
    simp only [List.foldl]
    refine ⟨this.1, this.2.1.trans w2, ?_⟩
    intro e
    rw [this.2.2 e, w3 e, w2]
    constructor
    · rintro ⟨⟨h1, h2⟩, h3⟩
      refine ⟨h1, ?_⟩
      intro id' hm
      rcases List.mem_cons.mp hm with hm | hm
      · subst hm; exact h2
      · exact h3 id' hm
    · rintro ⟨h1, h2⟩
      exact ⟨⟨h1, h2 id (List.mem_cons_self ..)⟩, fun id' hm => h2 id' (List.mem_cons_of_mem _ hm)⟩

theorem WF_foldl_new : ∀ (l : List CtxId) (s : State), WF s → l.Nodup →
    (∀ id, id ∈ l → AMap.get? s.newH id = some s.height) →
    WF (l.foldl newBatch s) ∧ (l.foldl newBatch s).height = s.height
  | [], _, hs, _, _ => ⟨hs, rfl⟩
  | id :: rest, s, hs, hn, hd => by
    rw [List.nodup_cons] at hn
    obtain ⟨w1, w2, _, w4⟩ := WF_newBatch hs id (hd id (List.mem_cons_self ..))
    have := WF_foldl_new rest (newBatch s id) w1 hn.2 (by
      intro id' hm
      rw [w2, w4 id' (by intro e; subst e; exact hn.1 hm)]
      exact hd id' (List.mem_cons_of_mem _ hm))
    simp only [List.foldl]
    exact ⟨this.1, this.2.trans w2⟩

/-- the expired-batch phase keeps the invariant and removes every entry of the current height -/
theorem WF_expiredPhase {s : State} (hs : WF s) :
    WF (expiredPhase s) ∧ (expiredPhase s).height = s.height ∧ ∀ id, (s.height, id) ∉ (expiredPhase s).expQ := by
  unfold expiredPhase
  obtain ⟨w1, w2, w3⟩ := WF_foldl_expire _ s hs (nodup_dueIds _ _ hs.expND)
    (fun id hm => hs.expM.1 _ _ ((mem_dueIds _ _ _).mp hm))
  refine ⟨w1, w2, ?_⟩
  intro id hm
  rw [w3] at hm
  exact hm.2 id ((mem_dueIds _ _ _).mpr hm.1) rfl

theorem WF_endBlock {s : State} (hs : WF s) : WF (endBlock s) ∧ (endBlock s).height = s.height := by
  unfold endBlock
  have h1 : WF (expiredPhase s) ∧ (expiredPhase s).height = s.height := by
    have := WF_expiredPhase hs
    exact ⟨this.1, this.2.1⟩
  have h2 : WF (newPhase (expiredPhase s)) ∧ (newPhase (expiredPhase s)).height = (expiredPhase s).height := by
    unfold newPhase
    exact WF_foldl_new _ _ h1.1 (nodup_dueIds _ _ h1.1.newND)
      (fun id hm => h1.1.newM.1 _ _ ((mem_dueIds _ _ _).mp hm))
  exact ⟨h2.1, h2.2.trans h1.2⟩

theorem WF_nextBlock {s : State} (hs : WF s) (dt : Int) : WF (nextBlock s dt) := by
  unfold nextBlock beginNext
  exact (WF_endBlock hs).1.of_same ⟨rfl, rfl, rfl, rfl, rfl, rfl, rfl⟩

theorem WF_skipBlocks (dt : Int) : ∀ (n : Nat) (s : State), WF s → WF (skipBlocks s dt n)
  | 0, _, h => h
  | n + 1, s, h => WF_skipBlocks dt n (nextBlock s dt) (WF_nextBlock h dt)

/-! ### all operations -/

/-- the context id an operation would create is not in use (ids are `tmhash(tx bytes) ‖ index`:
freshness modulo SHA-256 collisions and the uniqueness of transactions) -/
def FreshOp (s : State) : Op → Prop
  | .call tx _ _ _ _ _ _ _ _ _ => AMap.contains s.ctxs (ctxIdOf tx s.idx) = false
  | .mcall tx _ _ _ _ _ _ _ _ _ _ _ _ => AMap.contains s.ctxs (ctxIdOf tx s.idx) = false
  | _ => True

theorem keeperWithdraw_sched {s s' : State} {owner provider} (h : keeperWithdraw s owner provider = .ok s') :
    SameSched s s' := by
  unfold keeperWithdraw at h
  split at h
  · unfold withdrawProvider at h
    split at h
    · cases h
    split at h
    · cases h
    split at h
    · cases h
    cases h
    exact ⟨rfl, rfl, rfl, rfl, rfl, rfl, rfl⟩
  · unfold withdrawOwner at h
    split at h
    · cases h
    cases h
    exact ⟨rfl, rfl, rfl, rfl, rfl, rfl, rfl⟩

theorem WF_stepCore {s s' : State} {op : Op} (hs : WF s) (hf : FreshOp s op) (h : stepCore s op = .ok s') : WF s' := by
  cases op with
  | define sender name schOk =>
    simp only [stepCore, stepDefine] at h
    split at h
    · cases h
    split at h
    · cases h
    split at h
    · cases h
    split at h
    · cases h
    cases h
    exact hs.of_same ⟨rfl, rfl, rfl, rfl, rfl, rfl, rfl⟩
  | bind owner provider svc dep qos pin optsOk =>
    simp only [stepCore, stepBind] at h
    split at h
    · cases h
    split at h
    · cases h
    obtain ⟨d, pr, bank, _, _, _, rfl⟩ := keeperBind_inv h
    exact hs.of_same ⟨rfl, rfl, rfl, rfl, rfl, rfl, rfl⟩
  | updateBinding owner provider svc dep qos pin opts =>
    simp only [stepCore, stepUpdateBinding] at h
    split at h
    · cases h
    obtain ⟨b, d, pr, bank, _, _, _, _, rfl⟩ := keeperUpdateBinding_inv h
    exact hs.of_same ⟨rfl, rfl, rfl, rfl, rfl, rfl, rfl⟩
  | setWithdraw owner addr =>
    simp only [stepCore, stepSetWithdraw] at h
    split at h
    · cases h
    split at h
    · cases h
    cases h
    exact hs.of_same ⟨rfl, rfl, rfl, rfl, rfl, rfl, rfl⟩
  | enable owner provider svc dep =>
    simp only [stepCore, stepEnable] at h
    split at h
    · cases h
    unfold keeperEnable at h
    split at h
    · cases h
    split at h
    · cases h
    split at h
    · cases h
    split at h
    · cases h
    split at h
    · cases h
    split at h
    · cases h
    cases h
    exact hs.of_same ⟨rfl, rfl, rfl, rfl, rfl, rfl, rfl⟩
  | disable owner provider svc =>
    simp only [stepCore, stepDisable] at h
    split at h
    · cases h
    split at h
    · cases h
    split at h
    · cases h
    split at h
    · cases h
    cases h
    exact hs.of_same ⟨rfl, rfl, rfl, rfl, rfl, rfl, rfl⟩
  | refundDeposit owner provider svc =>
    simp only [stepCore, stepRefundDeposit] at h
    split at h
    · cases h
    unfold keeperRefundDeposit at h
    split at h
    · cases h
    split at h
    · cases h
    split at h
    · cases h
    split at h
    · cases h
    split at h
    · cases h
    split at h
    · cases h
    cases h
    exact hs.of_same ⟨rfl, rfl, rfl, rfl, rfl, rfl, rfl⟩
  | call tx consumer svc providers cap timeout repeated freq total inputOk =>
    simp only [stepCore, stepCall] at h
    split at h
    · cases h
    split at h
    · cases h
    split at h
    · cases h
    exact WF_createCtx hs hf h
  | mcall tx consumer svc providers cap timeout repeated freq total inputOk paused thr modName =>
    exact WF_createCtx hs hf h
  | respond provider rid code out resOk =>
    simp only [stepCore, stepRespond] at h
    split at h
    · cases h
    split at h
    · cases h
    exact WF_keeperRespond hs h
  | withdraw owner provider =>
    simp only [stepCore, stepWithdraw] at h
    split at h
    · cases h
    split at h
    · cases h
    exact hs.of_same (keeperWithdraw_sched h)
  | withdrawK owner provider => exact hs.of_same (keeperWithdraw_sched h)
  | pause consumer id => exact WF_keeperPause hs (stepPause_inv h)
  | start consumer id => exact WF_keeperStart hs (stepStart_inv h)
  | kill consumer id => exact WF_keeperKill hs (stepKill_inv h)
  | updateCtx consumer id providers cap timeout freq total => exact WF_keeperUpdate hs (stepUpdateCtx_inv h)
  | mpause consumer id => exact WF_keeperPause hs h
  | mstart consumer id => exact WF_keeperStart hs h
  | mkill consumer id => exact WF_keeperKill hs h
  | mupdate consumer id providers thr cap timeout freq total => exact WF_keeperUpdate hs h
  | setRate d r =>
    simp only [stepCore] at h
    cases h
    exact hs.of_same ⟨rfl, rfl, rfl, rfl, rfl, rfl, rfl⟩
  | next dt =>
    simp only [stepCore] at h
    cases h
    exact WF_nextBlock hs dt
  | skip n dt =>
    simp only [stepCore] at h
    cases h
    exact WF_skipBlocks dt n s hs

end Irismod.Proofs.Service
