/-
The operations of the farm module proper (create / destroy / adjust / stake / unstake / harvest
and the EndBlocker) seen from the community-pool path: they touch neither the escrow collector,
nor the gov account, nor the escrow-info and proposal tables; the only thing they do to the
distribution module account is the refund of a community-pool farm, which credits the fee pool's
community pool with the same coins (`Outside`: account and pool move in lock-step).
-/
import Irismod.Proofs.FarmRun

namespace Irismod.Proofs.Farm
open Irismod Irismod.Sdk Irismod.Farm Irismod.Spec

/-! ### the community pool's arithmetic -/

theorem cpGet_set_self (m : AMap Denom Nat) (d : Denom) (v : Nat) : cpGet (AMap.set m d v) d = v := by
  unfold cpGet AMap.getD; rw [AMap.get?_set_self]; rfl

theorem cpGet_set_other (m : AMap Denom Nat) (d d' : Denom) (v : Nat) (h : d ≠ d') : cpGet (AMap.set m d v) d' = cpGet m d' := by
  unfold cpGet AMap.getD; rw [AMap.get?_set_other _ _ _ _ h]

theorem cpGet_addCoins : ∀ (cs : CoinList) (m : AMap Denom Nat) (d : Denom),
    cpGet (cpAddCoins m cs) d = cpGet m d + sumOf cs d * decUnit
  | [], m, d => by simp [cpAddCoins, sumOf]
  | (d0, n) :: t, m, d => by
    unfold cpAddCoins
    rw [cpGet_addCoins t _ d]
    by_cases e : d0 = d
    · subst e; rw [cpGet_set_self]; simp only [sumOf, if_true]; rw [Nat.add_mul]; omega
    · rw [cpGet_set_other _ _ _ _ e]; simp only [sumOf, e, if_false, Nat.zero_add]

theorem cpGet_subCoins : ∀ (cs : CoinList) (m m' : AMap Denom Nat), cpSubCoins m cs = some m' →
    ∀ d, cpGet m' d + sumOf cs d * decUnit = cpGet m d
  | [], m, m', h, d => by simp [cpSubCoins] at h; subst h; simp [sumOf]
  | (d0, n) :: t, m, m', h, d => by
    unfold cpSubCoins at h
    split at h
    · cases h
    · rename_i hge
      have ih := cpGet_subCoins t _ m' h d
      by_cases e : d0 = d
      · subst e; rw [cpGet_set_self] at ih; simp only [sumOf, if_true]; rw [Nat.add_mul]; omega
      · rw [cpGet_set_other _ _ _ _ e] at ih; simp only [sumOf, e, if_false, Nat.zero_add]; exact ih

/-! ### `Calm`: the community-pool state and the three watched accounts are untouched -/

/-- the accounts the community-pool path watches -/
def Watched (a : Addr) : Prop := a = escrowAcc ∨ a = govAcc ∨ a = distrAcc

structure Calm (s s' : State) : Prop where
  cp   : s'.cp = s.cp
  bank : ∀ a, Watched a → ∀ d, s'.bank.balOf a d = s.bank.balOf a d

theorem Calm.refl (s : State) : Calm s s := ⟨rfl, fun _ _ _ => rfl⟩
theorem Calm.trans {a b c : State} (h1 : Calm a b) (h2 : Calm b c) : Calm a c :=
  ⟨h2.cp.trans h1.cp, fun x hx d => (h2.bank x hx d).trans (h1.bank x hx d)⟩

theorem calm_of_bank {s s' : State} (hb : s'.bank = s.bank) (hc : s'.cp = s.cp) : Calm s s' :=
  ⟨hc, fun _ _ _ => by rw [hb]⟩

theorem user_notW {a : Addr} (h : isModuleAcc a = false) : ¬ Watched a := by
  unfold isModuleAcc at h
  simp only [Bool.or_eq_false_iff, decide_eq_false_iff_not] at h
  rintro (e | e | e)
  · exact h.1.1.2 e
  · exact h.2 e
  · exact h.1.2 e

theorem farm_notW : ¬ Watched farmAcc := by unfold Watched; decide
theorem collector_notW : ¬ Watched collectorAcc := by unfold Watched; decide
theorem fees_notW : ¬ Watched feesAcc := by unfold Watched; decide

theorem sendAll_calm {s s' : State} {src dst : Addr} {cs : CoinList} (hs : ¬ Watched src) (hd : ¬ Watched dst)
    (h : sendAll s src dst cs = .ok s') : Calm s s' :=
  ⟨(sendAll_ok h).1.cp, fun a ha => sendAll_untouched h (fun e => hs (e ▸ ha)) (fun e => hd (e ▸ ha))⟩

theorem payRewards_calm {s s' : State} {a : Addr} {rw : CoinList} (ha : ¬ Watched a) (h : payRewards s a rw = .ok s') :
    Calm s s' := by
  unfold payRewards at h
  split at h
  · cases h; exact Calm.refl _
  · exact sendAll_calm collector_notW ha h

theorem deductFee_calm {s s' : State} {a : Addr} (ha : ¬ Watched a) (h : deductFee s a = .ok s') : Calm s s' := by
  have bo := deductFee_ok h
  refine ⟨bo.cp, ?_⟩
  unfold deductFee at h
  split at h; · cases h
  split at h; · cases h
  split at h; · cases h
  split at h; · cases h
  rename_i b1 h1
  split at h; · cases h
  rename_i b2 h2
  split at h; · cases h
  rename_i b3 h3
  cases h
  intro x hx d
  have n1 : x ≠ a := fun e => ha (e ▸ hx)
  have n2 : x ≠ farmAcc := fun e => farm_notW (e ▸ hx)
  have n3 : x ≠ feesAcc := fun e => fees_notW (e ▸ hx)
  show Bank.balOf b3 x d = _
  have hk : ∀ y : Addr, x ≠ y → (x, d) ≠ (y, feeDenom) := fun y hn e => hn (Prod.mk.inj e).1
  have e3 := (burn_deltas _ _ _ _ _ h3).2 x d (hk _ n2)
  have hff : farmAcc ≠ feesAcc := by decide
  have e2 := (Bank.send_deltas _ _ _ _ _ _ hff h2).2.2 x d (hk _ n2) (hk _ n3)
  by_cases haf : a = farmAcc
  · -- cannot happen for a user, but the lemma does not need it
    subst haf
    have := Bank.send_self _ _ _ _ _ h1 x d
    rw [e3, e2, this]
  · have e1 := (Bank.send_deltas _ _ _ _ _ _ haf h1).2.2 x d (hk _ n1) (hk _ n2)
    rw [e3, e2, e1]

theorem updOk_calm {s s' : State} {id : PoolId} {p p' : Pool} {amount : Int} {b : Bool}
    (h : UpdOk s s' id p p' amount b) : Calm s s' :=
  ⟨h.cp, fun a ha d => h.others a d (fun e => farm_notW (e ▸ ha)) (fun e => collector_notW (e ▸ ha))⟩

theorem updErr_calm {s s1 : State} {id : PoolId} {p : Pool} {e : Err} (h : UpdErr s s1 id p e) (hnp : ∀ w, e ≠ .panic w) :
    Calm s s1 := calm_of_bank (h.bank hnp) h.cp

theorem unstakePool_calm {s s1 : State} {id : PoolId} {p p1 : Pool} {amt : Nat}
    (h : unstakePool s id p amt = (s1, .ok p1)) : Calm s s1 := by
  unfold unstakePool at h
  split at h
  · simp only [Prod.mk.injEq, Except.ok.injEq] at h
    rw [← h.1]; exact calm_of_bank rfl rfl
  · exact updOk_calm (updatePool_ok h)

theorem enqueue_calm (s : State) (id : PoolId) (h : Int) : Calm s (enqueue s id h) := by
  unfold enqueue; split
  · exact Calm.refl _
  · exact calm_of_bank rfl rfl

theorem adjustCore_calm {s s' : State} {id : PoolId} {p1 : Pool} {sh : Int} {st : Bool} {add rpb : CoinList}
    (h : adjustCore s id p1 sh st add rpb = .ok s') : Calm s s' := by
  unfold adjustCore at h
  split at h; · cases h
  split at h; · cases h
  split at h
  · cases h; exact calm_of_bank rfl rfl
  · cases h
    exact (⟨rfl, fun _ _ _ => rfl⟩ : Calm s (setPool (dequeue s id p1.endH) id _)).trans (enqueue_calm _ _ _)

/-! ### `Outside` -/

/-- escrow collector, gov account and the two tables untouched; distribution account and
community pool moved in lock-step -/
structure Outside (s s' : State) : Prop where
  escrow : ∀ d, s'.bank.balOf escrowAcc d = s.bank.balOf escrowAcc d
  gov    : ∀ d, s'.bank.balOf govAcc d = s.bank.balOf govAcc d
  esc    : s'.cp.escrow = s.cp.escrow
  props  : s'.cp.props = s.cp.props
  next   : s'.cp.nextId = s.cp.nextId
  lock   : ∀ d, C05.distrGap s' d = C05.distrGap s d

theorem Outside.refl (s : State) : Outside s s := ⟨fun _ => rfl, fun _ => rfl, rfl, rfl, rfl, fun _ => rfl⟩
theorem Outside.trans {a b c : State} (h1 : Outside a b) (h2 : Outside b c) : Outside a c :=
  ⟨fun d => (h2.escrow d).trans (h1.escrow d), fun d => (h2.gov d).trans (h1.gov d), h2.esc.trans h1.esc,
   h2.props.trans h1.props, h2.next.trans h1.next, fun d => (h2.lock d).trans (h1.lock d)⟩

theorem Calm.outside {s s' : State} (h : Calm s s') : Outside s s' := by
  refine ⟨h.bank _ (Or.inl rfl), h.bank _ (Or.inr (Or.inl rfl)), by rw [h.cp], by rw [h.cp], by rw [h.cp], ?_⟩
  intro d
  unfold C05.distrGap C05.cpoolOf
  rw [h.bank _ (Or.inr (Or.inr rfl)) d, h.cp]

theorem outside_same {s s' : State} (hb : s'.bank = s.bank) (hc : s'.cp = s.cp) : Outside s s' := (calm_of_bank hb hc).outside

/-- the refund of a pool: to a user's account nothing watched moves; to the distribution module
account the community pool is credited with the same coins -/
theorem refundPay_outside {s s2 : State} {creator : Addr} {coins : CoinList}
    (hc : isModuleAcc creator = false ∨ creator = distrAcc)
    (h : sendAll s farmAcc creator coins = .ok s2) : Outside s (creditIf (creator == distrAcc) s2 coins) := by
  have b := (sendAll_ok h).1
  rcases hc with hu | hd
  · have hne : (creator == distrAcc) = false := by
      have := user_notW hu
      cases hb : creator == distrAcc with
      | false => rfl
      | true => exact absurd (Or.inr (Or.inr (by simpa using hb))) this
    rw [hne]
    have c1 := sendAll_calm farm_notW (user_notW hu) h
    have c2 : Calm s2 (creditIf false s2 coins) := by
      refine ⟨?_, fun _ _ _ => rfl⟩
      show ({ s2.cp with pool := if false = true then _ else s2.cp.pool } : Cp) = s2.cp
      simp
    exact (c1.trans c2).outside
  · subst hd
    have hfd : farmAcc ≠ distrAcc := by decide
    obtain ⟨_, d2, d3⟩ := sendCoins_deltas _ _ _ _ _ hfd (sendAll_ok h).2
    refine ⟨fun d => d3 escrowAcc d (by decide) (by decide), fun d => d3 govAcc d (by decide) (by decide),
      by show s2.cp.escrow = _; rw [b.cp], by show s2.cp.props = _; rw [b.cp], by show s2.cp.nextId = _; rw [b.cp], ?_⟩
    intro d
    unfold C05.distrGap C05.cpoolOf
    show ((s2.bank.balOf distrAcc d * decUnit : Nat) : Int) - (cpGet (if (distrAcc == distrAcc) = true then cpAddCoins s2.cp.pool coins else s2.cp.pool) d : Int) = _
    simp only [beq_self_eq_true, if_true]
    rw [cpGet_addCoins, d2 d, b.cp, Nat.add_mul]
    push_cast
    omega

/-- `Refund`, whatever its verdict short of a panic -/
theorem refund_outside {s : State} {id : PoolId} {p : Pool} (hw : PoolWF p)
    (hnp : ∀ w, (refund s id p).2 ≠ some (.panic w)) : Outside s (refund s id p).1 := by
  have c0 : Calm s (dequeue s id p.endH) := calm_of_bank rfl rfl
  rcases refund_cases s id p with ⟨s1, e, hu, hr⟩ | ⟨s1, p1, hu, hr⟩
  · rw [hr] at hnp ⊢
    have : ∀ w, e ≠ .panic w := fun w he => hnp w (by rw [he])
    exact (c0.trans (updErr_calm (updatePool_err hu) this)).outside
  · have ok := updatePool_ok hu
    have c1 := updOk_calm ok
    have c2 : Calm s1 (zeroed s1 id p1) := calm_of_bank rfl rfl
    have hcre : p1.creator = p.creator := (updOk_fields ok).1
    rcases hr with ⟨_, hr⟩ | ⟨_, e, _, hr⟩ | ⟨_, s2, hs, hr⟩
    · rw [hr]; exact ((c0.trans c1).trans c2).outside
    · rw [hr]; exact ((c0.trans c1).trans c2).outside
    · rw [hr]
      exact ((c0.trans c1).trans c2).outside.trans (refundPay_outside (hcre ▸ hw.user) hs)

theorem endBlockOne_outside {s s' : State} {id : PoolId} (hi : Inv s) (h : endBlockOne s id = .ok s') : Outside s s' := by
  unfold endBlockOne at h
  split at h
  · cases h; exact Outside.refl _
  · rename_i p hp
    have hw := hi.core.wf id p hp
    have key := refund_outside (s := s) (id := id) hw
    generalize refund s id p = res at h key
    obtain ⟨s1, r⟩ := res
    split at h
    · cases h
    · rename_i s2 r2 hnp heq
      cases h; cases heq
      exact key (fun w e => hnp w (by simp only at e; rw [e]))

theorem endBlockIds_outside : ∀ (ids : List PoolId) {s s' : State}, Inv s → ids.Nodup →
    (∀ id ∈ ids, (s.height, id) ∈ s.queue) → endBlockIds s ids = .ok s' → Outside s s'
  | [], s, s', _, _, _, h => by simp [endBlockIds] at h; subst h; exact Outside.refl _
  | id :: ids, s, s', hi, hn, hdue, h => by
    simp only [List.nodup_cons] at hn
    unfold endBlockIds at h
    rcases endBlockOne_inv hi (hdue id (by simp)) with ⟨w, e⟩ | ⟨s1, e, i1, h1, q1, _, _⟩
    · rw [e] at h; cases h
    · rw [e] at h
      simp only at h
      have hdue1 : ∀ id2 ∈ ids, (s1.height, id2) ∈ s1.queue := by
        intro id2 hm
        rw [h1, q1]
        refine ⟨hdue id2 (by simp [hm]), ?_⟩
        intro e2
        have : id2 = id := (Prod.mk.inj e2).2
        subst this
        exact hn.1 hm
      exact (endBlockOne_outside hi e).trans (endBlockIds_outside ids i1 hn.2 hdue1 h)

theorem endBlocks_outside : ∀ (n : Nat) {s : State}, Inv s → Outside s (endBlocks n s).1
  | 0, _, _ => Outside.refl _
  | n + 1, s, hi => by
    unfold endBlocks
    cases he : endBlocker s with
    | error e => exact Outside.refl _
    | ok s1 =>
      simp only
      have hn : (dueIds s).Nodup := nodup_sortIds (nodup_dueList _ _ hi.core.queue.2.2)
      have o1 : Outside s s1 := endBlockIds_outside (dueIds s) hi hn (fun id hm => mem_dueIds.mp hm) he
      rcases endBlocker_inv hi with ⟨w, e⟩ | ⟨s2, e, i2, _⟩
      · rw [he] at e; cases e
      · rw [he] at e; cases e
        have o2 : Outside s1 { s1 with height := s1.height + 1 } := outside_same rfl rfl
        exact (o1.trans o2).trans (endBlocks_outside n i2)

/-! ### the messages of the farm module proper -/

theorem stake_outside {s s' : State} {sender id denom amt} (hu : isModuleAcc sender = false)
    (h : stepStake s sender id denom amt = .ok s') : Outside s s' := by
  obtain ⟨p, s1, s2, p1, rewards, debt, s3, _, _, _, _, _, _, h1, hupd, _, h3, rfl⟩ := stepStake_ok h
  have c1 := sendAll_calm (user_notW hu) farm_notW h1
  have c2 := updOk_calm (updatePool_ok hupd)
  have c3 := payRewards_calm (user_notW hu) h3
  refine ((c1.trans c2).trans c3).outside.trans ?_
  exact outside_same rfl rfl

theorem harvest_outside {s s' : State} {sender id} (hu : isModuleAcc sender = false)
    (h : stepHarvest s sender id = .ok s') : Outside s s' := by
  obtain ⟨p, f, s1, p1, rewards, debt, s2, _, _, _, _, hupd, _, h2, rfl⟩ := stepHarvest_ok h
  have c1 := updOk_calm (updatePool_ok hupd)
  have c2 := payRewards_calm (user_notW hu) h2
  refine (c1.trans c2).outside.trans ?_
  exact outside_same rfl rfl

theorem unstake_outside {s s' : State} {sender id denom amt} (hu : isModuleAcc sender = false)
    (h : stepUnstake s sender id denom amt = .ok s') : Outside s s' := by
  obtain ⟨p, f, s1, p1, s2, rewards, debt, s3, _, _, _, _, _, _, _, hbr, h2, _, h3, rfl⟩ := stepUnstake_ok h
  have c1 := unstakePool_calm hbr
  have c2 := sendAll_calm farm_notW (user_notW hu) h2
  have c3 := payRewards_calm (user_notW hu) h3
  refine ((c1.trans c2).trans c3).outside.trans ?_
  split <;> exact outside_same rfl rfl

theorem createPool_outside {s s' : State} {id sender desc lpt start rpb total editable} (hu : isModuleAcc sender = false)
    (h : stepCreatePool s id sender desc lpt start rpb total editable = .ok s') : Outside s s' := by
  obtain ⟨s1, s2, m, _, _, _, _, _, h1, h2, _, _, rfl⟩ := stepCreatePool_ok h
  have c1 := deductFee_calm (user_notW hu) h1
  have c2 := sendAll_calm (user_notW hu) farm_notW h2
  refine ((c1.trans c2).outside.trans ?_).trans (enqueue_calm _ _ _).outside
  exact outside_same rfl rfl

theorem adjustPool_outside {s s' : State} {sender id add rpb} (hu : isModuleAcc sender = false)
    (h : stepAdjustPool s sender id add rpb = .ok s') : Outside s s' := by
  obtain ⟨p, _, _, _, _, hat⟩ := stepAdjustPool_ok h
  obtain ⟨s1, p1, s2, _, _, _, _, _, hupd, _, h2, hcore⟩ := adjustPoolAt_ok hat
  have c1 := updOk_calm (updatePool_ok hupd)
  have c2 := sendAll_calm (user_notW hu) farm_notW h2
  exact ((c1.trans c2).trans (adjustCore_calm hcore)).outside

theorem destroyPool_outside {s s' : State} {sender id} (hi : Inv s)
    (h : stepDestroyPool s sender id = .ok s') : Outside s s' := by
  obtain ⟨p, hp, _, _, _, hr⟩ := stepDestroyPool_ok h
  have := refund_outside (s := s) (id := id) (hi.core.wf id p hp) (by rw [hr]; intro w e; cases e)
  rw [hr] at this; exact this

end Irismod.Proofs.Farm
