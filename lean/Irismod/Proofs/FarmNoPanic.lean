/-
C13 (farm): the EndBlocker does not panic when `rewardPerShare` stays inside the 315-bit range
of `LegacyDec`.
-/
import Irismod.Proofs.FarmLedger

namespace Irismod.Proofs.Farm
open Irismod Irismod.Sdk Irismod.Farm Irismod.Spec

/-- the release the EndBlocker is about to book on rule `r` of pool `p` keeps
`rewardPerShare` inside the range of `LegacyDec` -/
def RuleInRange (h : Int) (p : Pool) (r : Rule) : Prop :=
  inDec (r.rps.raw + (((r.rpb * (h - p.last).toNat : Nat) : Int) * precision).tdiv (p.locked : Int)) = true

/-- every pool due at the current height stays in range -/
def DueInRange (s : State) : Prop :=
  ∀ id p, getPool s id = some p → (s.height, id) ∈ s.queue → ∀ r ∈ p.rules, RuleInRange s.height p r

theorem collectRules_none {i L : Nat} (hL : L ≠ 0) : ∀ (rs : List Rule), (∀ r ∈ rs, r.rpb * i ≤ r.remaining) →
    (∀ r ∈ rs, inDec (r.rps.raw + (((r.rpb * i : Nat) : Int) * precision).tdiv (L : Int)) = true) →
    (collectRules i L rs).2 = none
  | [], _, _ => rfl
  | r :: rs, h1, h2 => by
    have ih := collectRules_none hL rs (fun r hr => h1 r (by simp [hr])) (fun r hr => h2 r (by simp [hr]))
    unfold collectRules
    have hc : ∃ r', collectRule i L r = .ok r' := by
      unfold collectRule
      have a : ¬ (r.remaining < r.rpb * i) := by have := h1 r (by simp); omega
      simp only [a, if_false]
      have hq : (Dec.ofInt ((r.rpb * i : Nat) : Int)).quoInt (L : Int) =
          some ⟨(((r.rpb * i : Nat) : Int) * precision).tdiv (L : Int)⟩ := by
        unfold Dec.quoInt Dec.ofInt
        have : (L : Int) ≠ 0 := by omega
        rw [if_neg this]
      rw [hq]
      simp only
      have hadd : r.rps.add ⟨(((r.rpb * i : Nat) : Int) * precision).tdiv (L : Int)⟩ =
          some ⟨r.rps.raw + (((r.rpb * i : Nat) : Int) * precision).tdiv (L : Int)⟩ := by
        unfold Dec.add chkDec
        rw [if_pos (h2 r (by simp))]
        rfl
      rw [hadd]
      exact ⟨_, rfl⟩
    obtain ⟨r', hr'⟩ := hc
    rw [hr']
    exact ih

/-- the refund of a due pool does not panic -/
theorem refund_no_panic {s : State} {id : PoolId} {p : Pool} (hi : Inv s) (hp : getPool s id = some p)
    (hdue : (s.height, id) ∈ s.queue) (hr : ∀ r ∈ p.rules, RuleInRange s.height p r) :
    ∀ w, (refund s id p).2 ≠ some (.panic w) := by
  intro w
  obtain ⟨p0, hp0, hend, _⟩ := hi.core.queue.1 _ _ hdue
  rw [hp] at hp0; cases hp0
  have hact : C06.active s id p = true := by unfold C06.active; rw [hend]; simpa using hdue
  have hw := hi.core.wf id p hp
  have ht := hi.core.time id p hp
  have hbud := hi.core.budget id p hp hact
  rcases refund_cases s id p with ⟨s1, e, hu, hrr⟩ | ⟨s1, p1, hu, hrr⟩
  · -- `updatePool` cannot fail here
    exfalso
    have hbudNat : s.height > p.last ∧ p.locked > 0 → ∀ r ∈ p.rules, r.rpb * (s.height - p.last).toNat ≤ r.remaining := by
      intro ⟨hgt, hpos⟩ r hrm
      have := hbud r hrm
      rw [ruleBudget_iff] at this
      have hst := ht.staked hpos
      have hspan : spanOf p = p.endH - p.last := by unfold spanOf; split <;> omega
      rw [hspan, hend] at this
      have hi' : ((s.height - p.last).toNat : Int) = s.height - p.last := by omega
      rw [← hi'] at this
      exact_mod_cast this
    have hbal : ∀ d, C05.remainingIn d p.rules ≤ s.bank.balOf farmAcc d := by
      intro d
      rw [hi.modacc d]
      have := poolHolds_le_expected hp d
      unfold C05.poolHolds at this
      omega
    unfold updatePool at hu
    have hh0 : (dequeue s id p.endH).height = s.height := rfl
    rw [hh0] at hu
    split at hu
    · have := ht.lastLe; omega
    split at hu
    · rename_i e2; exact hw.rulesNe (List.isEmpty_iff.mp e2)
    split at hu
    · rename_i hrel
      have hnone := collectRules_none (i := (s.height - p.last).toNat) (L := p.locked) (by omega) p.rules (hbudNat hrel) hr
      rw [hnone] at hu
      simp only at hu
      unfold releaseAndFinish at hu
      split at hu
      · unfold finishUpdate at hu
        split at hu
        · omega
        · simp at hu
      · have hcov : ∀ d, sumOf (collectedCoins (s.height - p.last).toNat p.rules) d ≤
            (setPool (dequeue s id p.endH) id { p with rules := (collectRules (s.height - p.last).toNat p.locked p.rules).1 }).bank.balOf farmAcc d := by
          intro d
          rw [sumOf_collected]
          have := releasedIn_le_remaining (s.height - p.last).toNat d p.rules (hbudNat hrel)
          have := hbal d
          show _ ≤ s.bank.balOf farmAcc d
          omega
        obtain ⟨b', hb'⟩ := sendCoins_ok _ _ farmAcc collectorAcc farm_ne_collector hcov
        unfold sendAll at hu
        rw [hb'] at hu
        simp only at hu
        unfold finishUpdate at hu
        split at hu
        · omega
        · simp at hu
    · unfold finishUpdate at hu
      split at hu
      · omega
      · simp at hu
  · rcases hrr with ⟨_, hrr⟩ | ⟨_, e, hs, hrr⟩ | ⟨_, s2, hs, hrr⟩
    · rw [hrr]; simp
    · rw [hrr]
      intro e2
      simp only [Option.some.injEq] at e2
      subst e2
      unfold sendAll at hs
      split at hs
      · simp at hs
      · cases hs
    · rw [hrr]; simp

theorem endBlockOne_ok {s : State} {id : PoolId} (hi : Inv s) (hdue : (s.height, id) ∈ s.queue)
    (hr : ∀ p, getPool s id = some p → ∀ r ∈ p.rules, RuleInRange s.height p r) :
    ∀ w, endBlockOne s id ≠ .error (.panic w) := by
  intro w
  obtain ⟨p, hp, _, _⟩ := hi.core.queue.1 _ _ hdue
  have hnp := refund_no_panic hi hp hdue (hr p hp)
  unfold endBlockOne
  rw [hp]
  simp only
  generalize refund s id p = res at hnp
  obtain ⟨s1, r⟩ := res
  cases r with
  | none => simp
  | some e =>
    cases e with
    | reject m => simp
    | panic m => exact absurd rfl (hnp m)

theorem endBlockIds_ok : ∀ (ids : List PoolId) {s : State}, Inv s → ids.Nodup →
    (∀ id ∈ ids, (s.height, id) ∈ s.queue) →
    (∀ id ∈ ids, ∀ p, getPool s id = some p → ∀ r ∈ p.rules, RuleInRange s.height p r) →
    ∀ w, endBlockIds s ids ≠ .error (.panic w)
  | [], _, _, _, _, _, w => by simp [endBlockIds]
  | id :: ids, s, hi, hn, hdue, hr, w => by
    simp only [List.nodup_cons] at hn
    rcases endBlockOne_inv hi (hdue id (by simp)) with ⟨w1, e⟩ | ⟨s1, e, i1, h1, q1, o1, _⟩
    · exact absurd e (endBlockOne_ok hi (hdue id (by simp)) (hr id (by simp)) w1)
    · unfold endBlockIds
      rw [e]
      simp only
      have hdue1 : ∀ id2 ∈ ids, (s1.height, id2) ∈ s1.queue := by
        intro id2 hm
        rw [h1, q1]
        refine ⟨hdue id2 (by simp [hm]), ?_⟩
        intro e2
        have : id2 = id := (Prod.mk.inj e2).2
        subst this
        exact hn.1 hm
      have hr1 : ∀ id2 ∈ ids, ∀ p, getPool s1 id2 = some p → ∀ r ∈ p.rules, RuleInRange s1.height p r := by
        intro id2 hm p hp2
        have hne : id ≠ id2 := by intro e2; subst e2; exact hn.1 hm
        rw [o1 id2 hne] at hp2
        rw [h1]
        exact hr id2 (by simp [hm]) p hp2
      exact endBlockIds_ok ids i1 hn.2 hdue1 hr1 w

/-- the EndBlocker runs to completion -/
theorem endBlocker_ok {s : State} (hi : Inv s) (hr : DueInRange s) : ∃ s', endBlocker s = .ok s' := by
  have hn : (dueIds s).Nodup := nodup_sortIds (nodup_dueList _ _ hi.core.queue.2.2)
  have hnp := endBlockIds_ok (dueIds s) hi hn (fun id hm => mem_dueIds.mp hm)
    (fun id hm p hp => hr id p hp (mem_dueIds.mp hm))
  unfold endBlocker
  cases h : endBlockIds s (dueIds s) with
  | ok s' => exact ⟨s', rfl⟩
  | error e =>
    exfalso
    cases e with
    | panic w => exact hnp w h
    | reject m =>
      -- the loop only ever fails with a panic
      have : ∀ (ids : List PoolId) (s0 : State) (m : String), endBlockIds s0 ids ≠ .error (.reject m) := by
        intro ids
        induction ids with
        | nil => intro s0 m; simp [endBlockIds]
        | cons i t ih =>
          intro s0 m
          unfold endBlockIds
          split
          · rename_i e1 he1
            intro hc
            cases hc
            unfold endBlockOne at he1
            split at he1
            · cases he1
            · split at he1
              · cases he1
              · cases he1
          · exact ih _ m
      exact this _ _ m h

end Irismod.Proofs.Farm
