/-
The three modelling guards of `cpHandler` (pool description ≤ 280 bytes, non-empty total, total
sorted by denom) never fire for a proposal content that passed `ValidateBasic`
(`stepCpSubmit`'s own checks): merging two coin lists sorted by denom gives a list sorted by
denom, and the length check of `ValidateFund` leaves at least one coin.
-/
import Irismod.Proofs.FarmCpSettle

namespace Irismod.Proofs.Farm
open Irismod Irismod.Sdk Irismod.Farm Irismod.Spec

/-- strictly increasing denoms, as a `Pairwise` statement -/
def SortedD (cs : CoinList) : Prop := (cs.map (·.1)).Pairwise (· < ·)

theorem sortedD_of_sortedCoins : ∀ (cs : CoinList), sortedCoins cs = true → SortedD cs
  | [], _ => List.Pairwise.nil
  | [(a, x)], _ => by simp [SortedD]
  | (a, x) :: (b, y) :: t, h => by
    simp only [sortedCoins, Bool.and_eq_true, decide_eq_true_eq] at h
    have ih := sortedD_of_sortedCoins ((b, y) :: t) h.2
    unfold SortedD at ih ⊢
    simp only [List.map_cons, List.pairwise_cons] at ih ⊢
    refine ⟨?_, ih⟩
    intro c hc
    simp only [List.mem_cons] at hc
    rcases hc with e | e
    · rw [e]; exact h.1
    · exact String.lt_trans h.1 (ih.1 c e)

theorem sortedCoins_of_sortedD : ∀ (cs : CoinList), SortedD cs → sortedCoins cs = true
  | [], _ => rfl
  | [(a, x)], _ => rfl
  | (a, x) :: (b, y) :: t, h => by
    unfold SortedD at h
    simp only [List.map_cons, List.pairwise_cons] at h
    simp only [sortedCoins, Bool.and_eq_true, decide_eq_true_eq]
    refine ⟨h.1 b (by simp), sortedCoins_of_sortedD ((b, y) :: t) ?_⟩
    unfold SortedD
    simp only [List.map_cons, List.pairwise_cons]
    exact h.2

theorem lt_of_not_lt_ne (a b : String) (h1 : ¬ a < b) (h2 : a ≠ b) : b < a := by
  apply Classical.byContradiction
  intro h3
  exact h2 (String.le_antisymm (String.not_lt.mp h3) (String.not_lt.mp h1))

theorem mem_addCoin_denoms (c : Denom × Nat) : ∀ (l : CoinList) (x : Denom),
    x ∈ (addCoin c l).map (·.1) → x = c.1 ∨ x ∈ l.map (·.1)
  | [], x, h => by simp [addCoin] at h; exact Or.inl h
  | (d, n) :: t, x, h => by
    unfold addCoin at h
    split at h
    · simp only [List.map_cons, List.mem_cons] at h ⊢
      rcases h with e | e | e
      · exact Or.inl e
      · exact Or.inr (Or.inl e)
      · exact Or.inr (Or.inr e)
    · split at h
      · simp only [List.map_cons, List.mem_cons] at h ⊢
        exact Or.inr h
      · simp only [List.map_cons, List.mem_cons] at h ⊢
        rcases h with e | e
        · exact Or.inr (Or.inl e)
        · rcases mem_addCoin_denoms c t x e with e2 | e2
          · exact Or.inl e2
          · exact Or.inr (Or.inr e2)

theorem addCoin_sorted (c : Denom × Nat) : ∀ (l : CoinList), SortedD l → SortedD (addCoin c l)
  | [], _ => by simp [addCoin, SortedD]
  | (d, n) :: t, h => by
    unfold SortedD at h
    simp only [List.map_cons, List.pairwise_cons] at h
    unfold addCoin
    split
    · rename_i hlt
      unfold SortedD
      simp only [List.map_cons, List.pairwise_cons, List.mem_cons]
      refine ⟨?_, h⟩
      intro x hx
      rcases hx with e | e
      · rw [e]; exact hlt
      · exact String.lt_trans hlt (h.1 x e)
    · rename_i hnlt
      split
      · unfold SortedD
        simp only [List.map_cons, List.pairwise_cons]
        exact h
      · rename_i hne
        have hgt : d < c.1 := lt_of_not_lt_ne _ _ hnlt hne
        have ih := addCoin_sorted c t h.2
        unfold SortedD at ih ⊢
        simp only [List.map_cons, List.pairwise_cons]
        refine ⟨?_, ih⟩
        intro x hx
        rcases mem_addCoin_denoms c t x hx with e | e
        · rw [e]; exact hgt
        · exact h.1 x e

theorem foldl_addCoin_sorted : ∀ (b a : CoinList), SortedD a → SortedD (b.foldl (fun acc c => addCoin c acc) a)
  | [], _, h => h
  | c :: t, a, h => by
    simp only [List.foldl_cons]
    exact foldl_addCoin_sorted t _ (addCoin_sorted c a h)

theorem nonzero_sorted (cs : CoinList) (h : SortedD cs) : SortedD (nonzero cs) := by
  unfold SortedD nonzero at *
  exact List.Pairwise.sublist (List.Sublist.map _ List.filter_sublist) h

/-- merging two coin lists sorted by denom gives a list sorted by denom -/
theorem mergeCoins_sorted (a b : CoinList) (ha : sortedCoins a = true) : sortedCoins (mergeCoins a b) = true := by
  apply sortedCoins_of_sortedD
  unfold mergeCoins
  exact nonzero_sorted _ (foldl_addCoin_sorted b a (sortedD_of_sortedCoins a ha))

/-- **the guards of the handler never fire on a validated content**: a content with a pool
description of at most 280 bytes, a non-empty `FundApplied` sorted by denom and passing the length
check of `ValidateFund` has a non-empty total sorted by denom. -/
theorem cpHandler_guards_never_fire (c : Content) (hd : c.desc.utf8ByteSize ≤ 280) (hs : sortedCoins c.applied = true)
    (hne : c.applied ≠ []) (hlen : c.applied.length + c.selfBond.length = (totalOf c).length) :
    ¬ (c.desc.utf8ByteSize > 280) ∧ totalOf c ≠ [] ∧ sortedCoins (totalOf c) = true := by
  refine ⟨by omega, ?_, mergeCoins_sorted _ _ hs⟩
  intro e
  rw [e] at hlen
  simp only [List.length_nil] at hlen
  have : c.applied.length = 0 := by omega
  exact hne (List.length_eq_zero_iff.mp this)

/-- … hence an accepted submission's dry run, and every later run of the handler on the stored
content, gets past the guards: `cpHandler` fails only the way the Go handler does (the escrow
collector cannot pay, or `ExpiredHeight` rejects / panics) -/
theorem cpHandler_error_is_real {s : State} {c : Content} {err : Err} (hd : c.desc.utf8ByteSize ≤ 280)
    (hs : sortedCoins c.applied = true) (hne : c.applied ≠ [])
    (hlen : c.applied.length + c.selfBond.length = (totalOf c).length) (h : cpHandler s c = .error err) :
    (∃ e, sendAll s escrowAcc farmAcc (totalOf c) = .error e) ∨
    (∃ s1, sendAll s escrowAcc farmAcc (totalOf c) = .ok s1 ∧
      createPoolCore s1 (poolIdOf (s1.seq + 1)) distrAcc c.desc c.lpt s1.height c.rpb (totalOf c) false = .error err) := by
  obtain ⟨g1, g2, g3⟩ := cpHandler_guards_never_fire c hd hs hne hlen
  unfold cpHandler at h
  rw [if_neg g1, if_neg g2] at h
  simp only [g3, Bool.not_true, Bool.false_eq_true, if_false] at h
  cases hsend : sendAll s escrowAcc farmAcc (totalOf c) with
  | error e => exact Or.inl ⟨e, rfl⟩
  | ok s1 =>
    rw [hsend] at h
    exact Or.inr ⟨s1, rfl, h⟩

end Irismod.Proofs.Farm
