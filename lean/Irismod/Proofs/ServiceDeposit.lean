/-
C07, deposit side: every operation of the service model preserves
`depositEscrow = Σ bindings' deposits` (and nothing but the base denom ever sits in the
deposit escrow), together with the auxiliary invariant that the addresses the ledger pays
(binding owners, consumers, withdraw addresses) are not the module's own escrow accounts.
-/
import Irismod.Proofs.Service

namespace Irismod.Proofs.Service
open Irismod Irismod.Sdk Irismod.Service Irismod.Spec.C07

/-- not one of the two escrow accounts -/
def Good (a : Addr) : Prop := a ≠ depAcc ∧ a ≠ reqAcc

instance (a : Addr) : Decidable (Good a) := by unfold Good; exact inferInstance

/-- the ledger never pays an escrow account as if it were a user -/
structure UsersInv (s : State) : Prop where
  owners    : ∀ k b, AMap.get? s.binds k = some b → Good b.owner
  consumers : ∀ id c, AMap.get? s.ctxs id = some c → Good c.consumer
  wds       : ∀ o a, AMap.get? s.wd o = some a → Good a

/-- the account arguments of an operation that the ledger pays or debits are user accounts
(module accounts hold no keys and cannot sign; a withdraw address is a free choice) -/
def opUsers : Op → Prop
  | .bind owner _ _ _ _ _ _ => Good owner
  | .updateBinding owner _ _ _ _ _ _ => Good owner
  | .enable owner _ _ _ => Good owner
  | .setWithdraw owner addr => Good owner ∧ Good addr
  | .call _ consumer _ _ _ _ _ _ _ _ => Good consumer
  | .mcall _ consumer _ _ _ _ _ _ _ _ _ _ _ => Good consumer
  | .withdraw owner _ => Good owner
  | .withdrawK owner _ => Good owner
  | _ => True

/-! ### map facts -/

theorem get?_erase_some {K V : Type} [DecidableEq K] {m : AMap K V} {k k' : K} {v : V}
    (h : AMap.get? (AMap.erase m k) k' = some v) : AMap.get? m k' = some v := by
  induction m with
  | nil => simp [AMap.erase, AMap.get?] at h
  | cons hd t ih =>
    obtain ⟨k0, v0⟩ := hd
    by_cases h0 : k0 = k
    · subst h0
      simp only [AMap.erase, if_true] at h
      have := ih h
      by_cases h1 : k0 = k'
      · subst h1
        -- the erased key cannot be found afterwards
        exfalso
        clear ih this
        induction t with
        | nil => simp [AMap.erase, AMap.get?] at h
        | cons hd2 t2 ih2 =>
          obtain ⟨k2, v2⟩ := hd2
          by_cases h2 : k2 = k0
          · subst h2; simp only [AMap.erase, if_true] at h; exact ih2 h
          · simp only [AMap.erase, h2, if_false, AMap.get?] at h; exact ih2 h
      · simp [AMap.get?, h1, this]
    · simp only [AMap.erase, h0, if_false, AMap.get?] at h ⊢
      by_cases h1 : k0 = k'
      · simp [h1] at h ⊢; exact h
      · simp [h1] at h ⊢; exact ih h

theorem get?_set_cases {K V : Type} [DecidableEq K] {m : AMap K V} {k k' : K} {v v' : V}
    (h : AMap.get? (AMap.set m k v) k' = some v') : (k = k' ∧ v' = v) ∨ (k ≠ k' ∧ AMap.get? m k' = some v') := by
  by_cases hk : k = k'
  · subst hk
    rw [AMap.get?_set_self] at h
    cases h; exact Or.inl ⟨rfl, rfl⟩
  · rw [AMap.get?_set_other _ _ _ _ hk] at h
    exact Or.inr ⟨hk, h⟩

theorem depositSum_set (s : State) (k : String × Addr) (b : Binding) :
    AMap.sumBy (fun b : Binding => b.deposit) (AMap.set s.binds k b) + ((AMap.get? s.binds k).map (·.deposit)).getD 0
      = depositSum s + b.deposit := by
  have := sumBy_set (fun b : Binding => b.deposit) s.binds k b
  simpa [depositSum] using this

/-! ### frames -/

/-- nothing `DepositInv` reads has changed -/
def DepFrame (s s' : State) : Prop :=
  s'.params = s.params ∧ s'.binds = s.binds ∧ ∀ d, Bank.balOf s'.bank depAcc d = Bank.balOf s.bank depAcc d

theorem DepFrame.refl (s : State) : DepFrame s s := ⟨rfl, rfl, fun _ => rfl⟩

theorem DepFrame.trans {a b c : State} (h1 : DepFrame a b) (h2 : DepFrame b c) : DepFrame a c :=
  ⟨h2.1.trans h1.1, h2.2.1.trans h1.2.1, fun d => (h2.2.2 d).trans (h1.2.2 d)⟩

theorem DepositInv.of_frame {s s' : State} (f : DepFrame s s') (h : DepositInv s) : DepositInv s' := by
  intro d
  have := h d
  unfold depositSum at *
  rw [f.2.2 d, f.1, f.2.1]
  exact this

/-- the users invariant only reads three tables -/
theorem UsersInv.of_same {s s' : State} (hb : s'.binds = s.binds) (hc : s'.ctxs = s.ctxs) (hw : s'.wd = s.wd)
    (h : UsersInv s) : UsersInv s' :=
  ⟨by rw [hb]; exact h.owners, by rw [hc]; exact h.consumers, by rw [hw]; exact h.wds⟩

/-- replacing a binding by one with the same owner -/
theorem UsersInv.set_binding {s : State} (h : UsersInv s) (k : String × Addr) (b : Binding) (hb : Good b.owner)
    (s' : State) (hb' : s'.binds = AMap.set s.binds k b) (hc : s'.ctxs = s.ctxs) (hw : s'.wd = s.wd) : UsersInv s' := by
  refine ⟨?_, by rw [hc]; exact h.consumers, by rw [hw]; exact h.wds⟩
  intro k' b' hg
  rw [hb'] at hg
  rcases get?_set_cases hg with ⟨_, rfl⟩ | ⟨_, hg'⟩
  · exact hb
  · exact h.owners _ _ hg'

theorem UsersInv.set_ctx {s : State} (h : UsersInv s) (id : CtxId) (c : Ctx) (hc : Good c.consumer) :
    UsersInv (setCtx s id c) := by
  refine ⟨h.owners, ?_, h.wds⟩
  intro id' c' hg
  simp only [setCtx] at hg
  rcases get?_set_cases hg with ⟨_, rfl⟩ | ⟨_, hg'⟩
  · exact hc
  · exact h.consumers _ _ hg'

/-! ### deposit movements -/

/-- a top-up `owner → deposit escrow` of `d` base coins together with `+d` on one binding -/
theorem DepositInv.deposit_in {s : State} (hs : DepositInv s) {owner : Addr} (ho : owner ≠ depAcc) {d : Nat} {bank : Bank}
    (hsend : sendBase s owner depAcc d = some bank) (k : String × Addr) (b : Binding)
    (hdep : b.deposit = ((AMap.get? s.binds k).map (·.deposit)).getD 0 + d)
    (s' : State) (hp : s'.params = s.params) (hbank : s'.bank = bank) (hbinds : s'.binds = AMap.set s.binds k b) :
    DepositInv s' := by
  intro dn
  unfold sendBase at hsend
  have hsum := depositSum_set s k b
  unfold depositSum
  rw [hbank, hp, hbinds]
  by_cases hd : dn = s.params.base
  · subst hd
    rw [send_balOf_dst ho hsend]
    have := hs s.params.base
    simp only [if_true] at this ⊢
    unfold AMap.sumBy at hsum ⊢
    omega
  · rw [send_balOf_other hsend depAcc dn (by intro e; cases e; exact ho rfl) (by intro e; cases e; exact hd rfl)]
    have := hs dn
    simpa [hd] using this

/-- a binding replaced by one with the same deposit -/
theorem DepositInv.same_deposit {s : State} (hs : DepositInv s) (k : String × Addr) (b0 b : Binding)
    (hg : AMap.get? s.binds k = some b0) (hdep : b.deposit = b0.deposit)
    (s' : State) (hp : s'.params = s.params) (hbank : s'.bank = s.bank) (hbinds : s'.binds = AMap.set s.binds k b) :
    DepositInv s' := by
  intro dn
  have hsum := depositSum_set s k b
  rw [hg] at hsum
  simp only [Option.map, Option.getD] at hsum
  unfold depositSum
  rw [hbank, hp, hbinds]
  have := hs dn
  unfold depositSum at this hsum
  split
  · rename_i hd
    simp only [hd, if_true] at this
    rw [hd, this]; omega
  · rename_i hd
    simpa [hd] using this

/-- `n` base coins leave the deposit escrow for `dst ≠ escrow`, one binding's deposit drops by `n` -/
theorem DepositInv.deposit_out {s : State} (hs : DepositInv s) {dst : Addr} (hdst : dst ≠ depAcc) {n : Nat} {bank : Bank}
    (hsend : Bank.send s.bank depAcc dst s.params.base n = some bank) (k : String × Addr) (b0 b : Binding)
    (hg : AMap.get? s.binds k = some b0) (hdep : b.deposit + n = b0.deposit)
    (s' : State) (hp : s'.params = s.params) (hbank : s'.bank = bank) (hbinds : s'.binds = AMap.set s.binds k b) :
    DepositInv s' := by
  intro dn
  have hsum := depositSum_set s k b
  rw [hg] at hsum
  simp only [Option.map, Option.getD] at hsum
  unfold depositSum
  rw [hbank, hp, hbinds]
  have := hs dn
  unfold depositSum at this hsum
  by_cases hd : dn = s.params.base
  · subst hd
    have hsrc := send_balOf_src (Ne.symm hdst) hsend
    simp only [if_true] at this ⊢
    omega
  · rw [send_balOf_other hsend depAcc dn (by intro e; cases e; exact hd rfl) (by intro e; cases e; exact hdst rfl)]
    simpa [hd] using this

end Irismod.Proofs.Service

namespace Irismod.Proofs.Service
open Irismod Irismod.Sdk Irismod.Service Irismod.Spec.C07

/-! ### the deposit invariant bundle and its preservation, primitive by primitive -/

/-- users invariant + deposit-escrow identity -/
def DI (s : State) : Prop := UsersInv s ∧ DepositInv s

/-- bank, bindings, params, withdraw addresses untouched -/
def SameCore (s s' : State) : Prop :=
  s'.bank = s.bank ∧ s'.binds = s.binds ∧ s'.params = s.params ∧ s'.wd = s.wd

theorem SameCore.depFrame {s s' : State} (h : SameCore s s') : DepFrame s s' :=
  ⟨h.2.2.1, h.2.1, fun d => by rw [h.1]⟩

theorem good_empty : Good "" := by decide
theorem good_fc : Good fcAcc := by decide

theorem good_getCtx {s : State} (h : UsersInv s) (id : CtxId) : Good (getCtx s id).consumer := by
  unfold getCtx
  cases hg : AMap.get? s.ctxs id with
  | none => exact good_empty
  | some c => exact h.consumers _ _ hg

/-- a state with the same core tables whose contexts are the old ones with one replaced (same consumer class) -/
theorem DI.setCtx {s : State} (h : DI s) (id : CtxId) (c : Ctx) (hc : Good c.consumer) : DI (Irismod.Service.setCtx s id c) :=
  ⟨h.1.set_ctx id c hc, DepositInv.of_frame ⟨rfl, rfl, fun _ => rfl⟩ h.2⟩

/-- changes outside bank / bindings / params / withdraw table / contexts -/
theorem DI.of_core {s s' : State} (h : DI s) (hc : SameCore s s') (hx : s'.ctxs = s.ctxs) : DI s' :=
  ⟨h.1.of_same hc.2.1 hx hc.2.2.2, DepositInv.of_frame hc.depFrame h.2⟩

/-- contexts only ever lose entries -/
theorem DI.of_core_sub {s s' : State} (h : DI s) (hc : SameCore s s')
    (hx : ∀ id c, AMap.get? s'.ctxs id = some c → AMap.get? s.ctxs id = some c) : DI s' := by
  refine ⟨⟨?_, ?_, ?_⟩, DepositInv.of_frame hc.depFrame h.2⟩
  · rw [hc.2.1]; exact h.1.owners
  · intro id c hg; exact h.1.consumers _ _ (hx _ _ hg)
  · rw [hc.2.2.2]; exact h.1.wds

theorem DI.addNew {s : State} (h : DI s) (id : CtxId) (ht : Int) : DI (Irismod.Service.addNew s id ht) :=
  h.of_core ⟨rfl, rfl, rfl, rfl⟩ rfl
theorem DI.delNew {s : State} (h : DI s) (id : CtxId) (ht : Int) : DI (Irismod.Service.delNew s id ht) :=
  h.of_core ⟨rfl, rfl, rfl, rfl⟩ rfl
theorem DI.addExp {s : State} (h : DI s) (id : CtxId) (ht : Int) : DI (Irismod.Service.addExp s id ht) :=
  h.of_core ⟨rfl, rfl, rfl, rfl⟩ rfl
theorem DI.delExp {s : State} (h : DI s) (id : CtxId) (ht : Int) : DI (Irismod.Service.delExp s id ht) :=
  h.of_core ⟨rfl, rfl, rfl, rfl⟩ rfl
theorem DI.dropActive {s : State} (h : DI s) (rid : ReqId) : DI (Irismod.Service.dropActive s rid) :=
  h.of_core ⟨rfl, rfl, rfl, rfl⟩ rfl
theorem DI.addRequest {s : State} (h : DI s) (rid : ReqId) (rq : Req) : DI (Irismod.Service.addRequest s rid rq) :=
  h.of_core ⟨rfl, rfl, rfl, rfl⟩ rfl
theorem DI.cleanBatch {s : State} (h : DI s) (id : CtxId) (b : Nat) : DI (Irismod.Service.cleanBatch s id b) :=
  h.of_core ⟨rfl, rfl, rfl, rfl⟩ rfl
theorem DI.callback {s : State} (h : DI s) (id : CtxId) : DI (Irismod.Service.callback s id) :=
  h.of_core ⟨rfl, rfl, rfl, rfl⟩ rfl
theorem DI.eraseCtx {s : State} (h : DI s) (id : CtxId) : DI (Irismod.Service.eraseCtx s id) :=
  h.of_core_sub ⟨rfl, rfl, rfl, rfl⟩ (fun _ _ hg => get?_erase_some hg)

theorem DI.completeBatch {s : State} (h : DI s) (rc : Ctx) (id : CtxId) :
    DI (Irismod.Service.completeBatch s rc id).1 ∧ (Irismod.Service.completeBatch s rc id).2.consumer = rc.consumer := by
  unfold Irismod.Service.completeBatch
  split
  · exact ⟨h.callback id, rfl⟩
  · exact ⟨h, rfl⟩

/-- a bank change that leaves the deposit escrow's balances alone -/
theorem DI.bank_frame {s : State} (h : DI s) (bank : Bank)
    (hb : ∀ d, Bank.balOf bank depAcc d = Bank.balOf s.bank depAcc d) : DI { s with bank := bank } :=
  ⟨UsersInv.of_same (s := s) (s' := { s with bank := bank }) rfl rfl rfl h.1,
   DepositInv.of_frame (s := s) (s' := { s with bank := bank }) ⟨rfl, rfl, hb⟩ h.2⟩

theorem DI.refund {s : State} (h : DI s) (consumer : Addr) (hc : Good consumer) (d : Denom) (n : Nat) :
    DI (Irismod.Service.refund s consumer d n) := by
  unfold Irismod.Service.refund
  split
  · exact h
  · rename_i bank hs
    exact h.bank_frame bank (fun d' => send_frame hs depAcc (by decide) (Ne.symm hc.1) d')

theorem slashedBinding_owner (s : State) (b : Binding) : (slashedBinding s b).owner = b.owner := by
  unfold slashedBinding; split <;> rfl

theorem slashedBinding_deposit (s : State) (b : Binding) : (slashedBinding s b).deposit = b.deposit - slashAmount s b := by
  unfold slashedBinding; split <;> rfl

theorem DI.slash {s : State} (h : DI s) (svc : String) (p : Addr) : DI (Irismod.Service.slash s svc p) := by
  unfold Irismod.Service.slash
  split
  · exact h
  · rename_i b hg
    split
    · exact h
    · rename_i hle
      split
      · exact h
      · rename_i bank hs
        refine ⟨h.1.set_binding (svc, p) (slashedBinding s b) ?_ _ rfl rfl rfl, ?_⟩
        · rw [slashedBinding_owner]; exact h.1.owners _ _ hg
        · exact DepositInv.deposit_out h.2 (by decide) hs (svc, p) b (slashedBinding s b) hg
            (by rw [slashedBinding_deposit]; omega) _ rfl rfl rfl

theorem DI.expireReq {s : State} (h : DI s) (rid : ReqId) : DI (Irismod.Service.expireReq s rid) := by
  unfold Irismod.Service.expireReq
  split
  · exact h.dropActive rid
  · rename_i rq rc hg
    have hc : Good rc.consumer := by
      unfold getRequest at hg
      split at hg
      · cases hg
      · split at hg
        · cases hg
        · rename_i rc' hc'
          cases hg
          exact h.1.consumers _ _ hc'
    exact ((h.slash rc.svc rq.provider).refund rc.consumer hc rq.feeDenom rq.feeAmt).dropActive rid

theorem DI.foldl {α : Type} (f : State → α → State) (hf : ∀ s a, DI s → DI (f s a)) :
    ∀ (l : List α) (s : State), DI s → DI (l.foldl f s)
  | [], _, h => h
  | a :: t, s, h => DI.foldl f hf t (f s a) (hf s a h)

theorem DI.expirePhase {s : State} (h : DI s) (id : CtxId) :
    DI (Irismod.Service.expirePhase s id).1 ∧ (Irismod.Service.expirePhase s id).2.consumer = (getCtx s id).consumer := by
  unfold Irismod.Service.expirePhase
  split
  · have h1 := DI.foldl Irismod.Service.expireReq (fun s a hs => hs.expireReq a) (activeOf s id (getCtx s id).batchCounter) s h
    exact h1.completeBatch (getCtx s id) id
  · exact ⟨h, rfl⟩

theorem DI.settleCtx {s : State} (h : DI s) (id : CtxId) (rc : Ctx) : DI (Irismod.Service.settleCtx s id rc) := by
  unfold Irismod.Service.settleCtx
  split
  · exact h.eraseCtx id
  · split
    · split
      · exact h.addNew _ _
      · exact h.eraseCtx id
    · exact h

theorem DI.expireCtx {s : State} (h : DI s) (id : CtxId) : DI (Irismod.Service.expireCtx s id) := by
  unfold Irismod.Service.expireCtx finishExpire
  have hp := h.expirePhase id
  have hg : Good (Irismod.Service.expirePhase s id).2.consumer := by rw [hp.2]; exact good_getCtx h.1 id
  exact (((hp.1.delExp id _).setCtx id _ hg).settleCtx id _).cleanBatch id _

theorem mkRequests_core (id : CtxId) (batch : Nat) (svc : String) (consumer : Addr) (timeout : Int) :
    ∀ (ps : List Addr) (i : Nat) (s : State), SameCore s (mkRequests s id batch svc consumer timeout ps i) ∧
      (mkRequests s id batch svc consumer timeout ps i).ctxs = s.ctxs
  | [], _, _ => ⟨⟨rfl, rfl, rfl, rfl⟩, rfl⟩
  | p :: rest, i, s => by
    simp only [mkRequests]
    have := mkRequests_core id batch svc consumer timeout rest (i + 1)
      (Irismod.Service.addRequest s (reqIdOf id batch s.height i) (mkReq s id batch svc consumer timeout p))
    exact ⟨⟨this.1.1, this.1.2.1, this.1.2.2.1, this.1.2.2.2⟩, this.2⟩

theorem DI.initiateRequests {s : State} (h : DI s) (id : CtxId) (provs : List Addr) : DI (Irismod.Service.initiateRequests s id provs) := by
  unfold Irismod.Service.initiateRequests
  have hm := mkRequests_core id ((getCtx s id).batchCounter + 1) (getCtx s id).svc (getCtx s id).consumer
    (getCtx s id).timeout provs 0 s
  exact (h.of_core hm.1 hm.2).setCtx id _ (good_getCtx h.1 id)

theorem DI.onPaused {s : State} (h : DI s) (id : CtxId) (rc : Ctx) (hc : Good rc.consumer) (cause : String) :
    DI (Irismod.Service.onPaused s id rc cause) := by
  unfold Irismod.Service.onPaused
  split
  · exact (h.setCtx id { rc with batchState := .completed, state := .paused } hc).of_core ⟨rfl, rfl, rfl, rfl⟩ rfl
  · exact h.setCtx id { rc with batchState := .completed, state := .paused } hc

theorem DI.skipBatch {s : State} (h : DI s) (id : CtxId) (rc : Ctx) (hc : Good rc.consumer) : DI (Irismod.Service.skipBatch s id rc) := by
  unfold Irismod.Service.skipBatch
  exact (h.setCtx id (startedCtx rc 0) hc).addExp _ _

theorem DI.chargeAndStart {s : State} (h : DI s) (id : CtxId) (rc : Ctx) (hc : Good rc.consumer) (provs : List Addr)
    (total : Coins) : DI (Irismod.Service.chargeAndStart s id rc provs total) := by
  unfold Irismod.Service.chargeAndStart
  split
  · refine (((h.bank_frame _ ?_).initiateRequests id provs).addExp _ _).delNew _ _
    intro d
    rw [creditCoins_frame depAcc reqAcc (by decide), debitCoins_frame depAcc rc.consumer (Ne.symm hc.1)]
  · exact (h.onPaused id rc hc _).delNew _ _

theorem DI.newBatch {s : State} (h : DI s) (id : CtxId) : DI (Irismod.Service.newBatch s id) := by
  unfold Irismod.Service.newBatch
  have hc := good_getCtx h.1 id
  split
  · split
    · exact (h.onPaused id _ hc _).delNew _ _
    · split
      · exact h.chargeAndStart id _ hc _ _
      · exact (h.skipBatch id _ hc).delNew _ _
  · exact h.delNew _ _

theorem DI.endBlock {s : State} (h : DI s) : DI (Irismod.Service.endBlock s) := by
  unfold Irismod.Service.endBlock newPhase expiredPhase
  exact DI.foldl Irismod.Service.newBatch (fun s a hs => hs.newBatch a) _ _ (DI.foldl Irismod.Service.expireCtx (fun s a hs => hs.expireCtx a) _ _ h)

theorem DI.nextBlock {s : State} (h : DI s) (dt : Int) : DI (Irismod.Service.nextBlock s dt) := by
  unfold Irismod.Service.nextBlock beginNext
  exact h.endBlock.of_core ⟨rfl, rfl, rfl, rfl⟩ rfl

theorem DI.skipBlocks (dt : Int) : ∀ (n : Nat) (s : State), DI s → DI (Irismod.Service.skipBlocks s dt n)
  | 0, _, h => h
  | n + 1, s, h => DI.skipBlocks dt n (Irismod.Service.nextBlock s dt) (h.nextBlock dt)

end Irismod.Proofs.Service

namespace Irismod.Proofs.Service
open Irismod Irismod.Sdk Irismod.Service Irismod.Spec.C07

/-! ### message handlers -/

theorem keeperBind_inv {s s' : State} {owner provider svc dep qos pin}
    (h : keeperBind s owner provider svc dep qos pin = .ok s') :
    ∃ d pr bank, AMap.contains s.binds (svc, provider) = false ∧ sendBase s owner depAcc d = some bank ∧
      keeperPricing s pin = some pr ∧ s' = bindState s owner provider svc d qos pr bank := by
  unfold keeperBind at h
  split at h
  · cases h
  split at h
  · cases h
  rename_i hb
  split at h
  · cases h
  split at h
  · cases h
  split at h
  · cases h
  split at h
  · cases h
  rename_i pr hpr
  split at h
  · cases h
  split at h
  · cases h
  rename_i bank hsend
  cases h
  exact ⟨_, _, _, by simpa using hb, hsend, hpr, rfl⟩

theorem DI_bind {s s' : State} {owner provider svc dep qos pin optsOk} (hs : DI s) (ho : Good owner)
    (h : stepBind s owner provider svc dep qos pin optsOk = .ok s') : DI s' := by
  unfold stepBind at h
  split at h
  · cases h
  split at h
  · cases h
  obtain ⟨d, pr, bank, hnew, hsend, _, rfl⟩ := keeperBind_inv h
  have hg := get?_none_of_not_contains hnew
  refine ⟨hs.1.set_binding (svc, provider) _ ho _ rfl rfl rfl, ?_⟩
  exact DepositInv.deposit_in hs.2 ho.1 hsend (svc, provider) _ (by simp [hg]) _ rfl rfl rfl

theorem keeperUpdateBinding_inv {s s' : State} {owner provider svc dep qos pin opts}
    (h : keeperUpdateBinding s owner provider svc dep qos pin opts = .ok s') :
    ∃ b d pr bank, AMap.get? s.binds (svc, provider) = some b ∧ b.owner = owner ∧ addedDeposit s dep = some d ∧
      topUp s owner dep d = some bank ∧
      s' = { s with bank := bank,
                    binds := if qos ≠ 0 ∨ !(dep.isEmpty) ∨ pin.isSome ∨ opts.isSome
                             then AMap.set s.binds (svc, provider) (updatedBinding b qos d pr) else s.binds } := by
  unfold keeperUpdateBinding at h
  split at h
  · cases h
  rename_i b hb
  split at h
  · cases h
  rename_i ho
  split at h
  · cases h
  split at h
  · cases h
  rename_i d hd
  split at h
  · cases h
  split at h
  · cases h
  split at h
  · cases h
  rename_i bank ht
  cases h
  exact ⟨b, d, _, bank, hb, by simpa using ho, hd, ht, rfl⟩

/-- an optional top-up followed by `+d` on the binding -/
theorem DI_topUp {s : State} (hs : DI s) {owner : Addr} (ho : Good owner) {dep : Coins} {d : Nat} {bank : Bank}
    {k : String × Addr} {b0 : Binding} (hg : AMap.get? s.binds k = some b0) (hown : b0.owner = owner)
    (hd : addedDeposit s dep = some d) (ht : topUp s owner dep d = some bank) (b : Binding)
    (hbo : b.owner = b0.owner) (hbd : b.deposit = b0.deposit + d) :
    DI { s with bank := bank, binds := AMap.set s.binds k b } := by
  refine ⟨hs.1.set_binding k b (by rw [hbo, hown]; exact ho) _ rfl rfl rfl, ?_⟩
  unfold topUp at ht
  unfold addedDeposit at hd
  split at ht
  · rename_i he
    simp only [he, if_true] at hd
    cases hd; cases ht
    exact DepositInv.same_deposit hs.2 k b0 b hg (by omega) _ rfl rfl rfl
  · exact DepositInv.deposit_in hs.2 ho.1 ht k b (by simp [hg, hbd]) _ rfl rfl rfl

theorem DI_updateBinding {s s' : State} {owner provider svc dep qos pin opts} (hs : DI s) (ho : Good owner)
    (h : stepUpdateBinding s owner provider svc dep qos pin opts = .ok s') : DI s' := by
  unfold stepUpdateBinding at h
  split at h
  · cases h
  obtain ⟨b, d, pr, bank, hb, hown, hd, ht, rfl⟩ := keeperUpdateBinding_inv h
  split
  · exact DI_topUp hs ho hb hown hd ht (updatedBinding b qos d pr) rfl rfl
  · -- nothing to update: no deposit either, the bank is untouched
    rename_i hno
    have he : dep.isEmpty = true := by
      cases hde : dep.isEmpty with
      | true => rfl
      | false => exact absurd (Or.inr (Or.inl (by simp [hde]))) hno
    unfold topUp at ht
    simp only [he, if_true] at ht
    cases ht
    exact hs

theorem DI_setWithdraw {s s' : State} {owner addr} (hs : DI s) (ha : Good addr)
    (h : stepSetWithdraw s owner addr = .ok s') : DI s' := by
  unfold stepSetWithdraw at h
  split at h
  · cases h
  split at h
  · cases h
  cases h
  refine ⟨⟨hs.1.owners, hs.1.consumers, ?_⟩, DepositInv.of_frame ⟨rfl, rfl, fun _ => rfl⟩ hs.2⟩
  intro o a hg
  rcases get?_set_cases hg with ⟨_, rfl⟩ | ⟨_, hg'⟩
  · exact ha
  · exact hs.1.wds _ _ hg'

theorem DI_disable {s s' : State} {owner provider svc} (hs : DI s)
    (h : stepDisable s owner provider svc = .ok s') : DI s' := by
  unfold stepDisable at h
  split at h
  · cases h
  split at h
  · cases h
  rename_i b hb
  split at h
  · cases h
  split at h
  · cases h
  cases h
  exact ⟨hs.1.set_binding (svc, provider) { b with available := false, disabledTime := s.time } (hs.1.owners (svc, provider) b hb) _ rfl rfl rfl,
    DepositInv.same_deposit hs.2 (svc, provider) b { b with available := false, disabledTime := s.time } hb rfl _ rfl rfl rfl⟩

theorem DI_enable {s s' : State} {owner provider svc dep} (hs : DI s) (ho : Good owner)
    (h : stepEnable s owner provider svc dep = .ok s') : DI s' := by
  unfold stepEnable at h
  split at h
  · cases h
  unfold keeperEnable at h
  split at h
  · cases h
  rename_i b hb
  split at h
  · cases h
  rename_i hown
  split at h
  · cases h
  split at h
  · cases h
  rename_i d hd
  split at h
  · cases h
  split at h
  · cases h
  rename_i bank ht
  cases h
  exact DI_topUp hs ho hb (by simpa using hown) hd ht
    { b with deposit := b.deposit + d, available := true, disabledTime := zeroTime } rfl rfl

theorem DI_refundDeposit {s s' : State} {owner provider svc} (hs : DI s)
    (h : stepRefundDeposit s owner provider svc = .ok s') : DI s' := by
  unfold stepRefundDeposit at h
  split at h
  · cases h
  unfold keeperRefundDeposit at h
  split at h
  · cases h
  rename_i b hb
  split at h
  · cases h
  split at h
  · cases h
  split at h
  · cases h
  split at h
  · cases h
  split at h
  · cases h
  rename_i bank hsend
  cases h
  have hgo := hs.1.owners _ _ hb
  exact ⟨hs.1.set_binding (svc, provider) { b with deposit := 0 } hgo _ rfl rfl rfl,
    DepositInv.deposit_out hs.2 hgo.1 hsend (svc, provider) b { b with deposit := 0 } hb (by simp) _ rfl rfl rfl⟩

theorem DI.withIdx {s : State} (h : DI s) (n : Nat) : DI { s with idx := n } :=
  DI.of_core (s' := { s with idx := n }) h ⟨rfl, rfl, rfl, rfl⟩ rfl

theorem DI_createCtx {s s' : State} {newId svc providers consumer inputOk cap timeout repeated freq total st thr moduleName}
    (hs : DI s) (hc : Good consumer)
    (h : createCtx s newId svc providers consumer inputOk cap timeout repeated freq total st thr moduleName = .ok s') :
    DI s' := by
  unfold createCtx at h
  split at h
  · cases h
  split at h
  · cases h
  split at h
  · cases h
  split at h
  · cases h
  split at h
  · cases h
  rename_i c _ _
  cases h
  unfold createState
  have h1 : DI (setCtx s newId (newCtx svc providers consumer c timeout repeated freq total st thr moduleName)) :=
    DI.setCtx hs newId (newCtx svc providers consumer c timeout repeated freq total st thr moduleName) hc
  split
  · exact DI.addNew (DI.withIdx h1 _) _ _
  · exact DI.withIdx h1 _

theorem DI_call {s s' : State} {newId consumer svc providers cap timeout repeated freq total inputOk}
    (hs : DI s) (hc : Good consumer)
    (h : stepCall s newId consumer svc providers cap timeout repeated freq total inputOk = .ok s') : DI s' := by
  unfold stepCall at h
  split at h
  · cases h
  split at h
  · cases h
  split at h
  · cases h
  exact DI_createCtx hs hc h

theorem DI_keeperPause {s s' : State} {id consumer} (hs : DI s) (h : keeperPause s id consumer = .ok s') : DI s' := by
  unfold keeperPause at h
  split at h
  · cases h
  rename_i rc hg
  split at h
  · cases h
  split at h
  · cases h
  split at h
  · cases h
  cases h
  exact DI.setCtx hs id { rc with state := .paused } (hs.1.consumers id rc hg)

theorem DI_keeperStart {s s' : State} {id consumer} (hs : DI s) (h : keeperStart s id consumer = .ok s') : DI s' := by
  unfold keeperStart at h
  split at h
  · cases h
  rename_i rc hg
  split at h
  · cases h
  split at h
  · cases h
  split at h
  · cases h
  cases h
  have h1 : DI (setCtx s id { rc with state := .running }) :=
    DI.setCtx hs id { rc with state := .running } (hs.1.consumers id rc hg)
  split
  · exact DI.addNew h1 _ _
  · exact h1

theorem DI_keeperKill {s s' : State} {id consumer} (hs : DI s) (h : keeperKill s id consumer = .ok s') : DI s' := by
  unfold keeperKill at h
  split at h
  · cases h
  rename_i rc hg
  split at h
  · cases h
  split at h
  · cases h
  cases h
  exact DI.setCtx hs id { rc with state := .completed } (hs.1.consumers id rc hg)

theorem DI_keeperUpdate {s s' : State} {id providers thr cap timeout freq total consumer} (hs : DI s)
    (h : keeperUpdate s id providers thr cap timeout freq total consumer = .ok s') : DI s' := by
  unfold keeperUpdate at h
  split at h
  · cases h
  rename_i rc hg
  split at h
  · cases h
  split at h
  · cases h
  split at h
  · cases h
  split at h
  · cases h
  split at h
  · cases h
  split at h
  · cases h
  split at h
  · cases h
  split at h
  · cases h
  cases h
  exact DI.setCtx hs id (updatedCtx rc _ _ _ timeout freq total) (hs.1.consumers id rc hg)

theorem stepPause_inv {s s' : State} {consumer : Addr} {id : String} (h : stepPause s consumer id = .ok s') :
    keeperPause s id.toLower consumer = .ok s' := by
  unfold stepPause at h
  split at h
  · cases h
  · exact h

theorem stepStart_inv {s s' : State} {consumer : Addr} {id : String} (h : stepStart s consumer id = .ok s') :
    keeperStart s id.toLower consumer = .ok s' := by
  unfold stepStart at h
  split at h
  · cases h
  · exact h

theorem stepKill_inv {s s' : State} {consumer : Addr} {id : String} (h : stepKill s consumer id = .ok s') :
    keeperKill s id.toLower consumer = .ok s' := by
  unfold stepKill at h
  split at h
  · cases h
  · exact h

theorem stepUpdateCtx_inv {s s' : State} {consumer : Addr} {id : String} {providers cap timeout freq total}
    (h : stepUpdateCtx s consumer id providers cap timeout freq total = .ok s') :
    keeperUpdate s id.toLower providers 0 cap timeout freq total consumer = .ok s' := by
  unfold stepUpdateCtx at h
  split at h
  · cases h
  split at h
  · cases h
  split at h
  · cases h
  split at h
  · cases h
  split at h
  · cases h
  · exact h

theorem addEarnedFee_DI {s s1 : State} {p : Addr} {d : Denom} {amt : Nat} (hs : DI s)
    (h : addEarnedFee s p d amt = some s1) : DI s1 ∧ s1.ctxs = s.ctxs := by
  unfold addEarnedFee at h
  split at h
  · cases h
  rename_i bank hsend
  split at h
  · cases h
  cases h
  refine ⟨⟨UsersInv.of_same (s := s) rfl rfl rfl hs.1, DepositInv.of_frame (s := s) ⟨rfl, rfl, ?_⟩ hs.2⟩, rfl⟩
  intro d'
  exact send_frame hsend depAcc (by decide) (by decide) d'

theorem DI_countResponse {s : State} (hs : DI s) (id : CtxId) : DI (countResponse s id) := by
  unfold countResponse
  have hg := good_getCtx hs.1 id
  split
  · unfold storeCtx
    have hc := DI.completeBatch hs (countedCtx (getCtx s id)) id
    exact DI.setCtx hc.1 id _ (by rw [hc.2]; exact hg)
  · exact DI.setCtx hs id _ hg

theorem DI_respond {s s' : State} {provider rid code out resOk} (hs : DI s)
    (h : stepRespond s provider rid code out resOk = .ok s') : DI s' := by
  unfold stepRespond at h
  split at h
  · cases h
  split at h
  · cases h
  unfold keeperRespond at h
  split at h
  · cases h
  split at h
  · cases h
  split at h
  · cases h
  split at h
  · cases h
  rename_i s1 hfee
  cases h
  have h1 := addEarnedFee_DI hs hfee
  exact DI_countResponse (DI.of_core (s' := recordResponse s1 _ provider _ _ _) h1.1 ⟨rfl, rfl, rfl, rfl⟩ rfl) _

theorem good_wdAddrOf {s : State} (hs : UsersInv s) {owner : Addr} (ho : Good owner) : Good (wdAddrOf s owner) := by
  unfold wdAddrOf AMap.getD
  cases hg : AMap.get? s.wd owner with
  | none => exact ho
  | some a => exact hs.wds _ _ hg

theorem DI_keeperWithdraw {s s' : State} {owner provider} (hs : DI s) (ho : Good owner)
    (h : keeperWithdraw s owner provider = .ok s') : DI s' := by
  have hw := good_wdAddrOf hs.1 ho
  unfold keeperWithdraw at h
  split at h
  · unfold withdrawProvider at h
    split at h
    · cases h
    split at h
    · cases h
    split at h
    · cases h
    rename_i bank hsend
    cases h
    refine ⟨UsersInv.of_same (s := s) rfl rfl rfl hs.1, DepositInv.of_frame (s := s) ⟨rfl, rfl, ?_⟩ hs.2⟩
    exact sendCoins_frame depAcc (by decide) (Ne.symm hw.1) _ _ _ hsend
  · unfold withdrawOwner at h
    split at h
    · cases h
    rename_i bank hsend
    cases h
    refine ⟨UsersInv.of_same (s := s) rfl rfl rfl hs.1, DepositInv.of_frame (s := s) ⟨rfl, rfl, ?_⟩ hs.2⟩
    exact sendCoins_frame depAcc (by decide) (Ne.symm hw.1) _ _ _ hsend

theorem DI_withdraw {s s' : State} {owner provider} (hs : DI s) (ho : Good owner)
    (h : stepWithdraw s owner provider = .ok s') : DI s' := by
  unfold stepWithdraw at h
  split at h
  · cases h
  split at h
  · cases h
  exact DI_keeperWithdraw hs ho h

/-- every accepted operation preserves the bundle -/
theorem DI_stepCore {s s' : State} {op : Op} (hs : DI s) (hu : opUsers op) (h : stepCore s op = .ok s') : DI s' := by
  cases op with
  | define sender name schOk =>
    simp only [stepCore, stepDefine] at h
    split at h
    · cases h
    split at h
    · cases h
    split at h
    · cases h
    split at h
    · cases h
    cases h
    exact DI.of_core hs ⟨rfl, rfl, rfl, rfl⟩ rfl
  | bind owner provider svc dep qos pin optsOk => exact DI_bind hs hu h
  | updateBinding owner provider svc dep qos pin opts => exact DI_updateBinding hs hu h
  | setWithdraw owner addr => exact DI_setWithdraw hs hu.2 h
  | enable owner provider svc dep => exact DI_enable hs hu h
  | disable owner provider svc => exact DI_disable hs h
  | refundDeposit owner provider svc => exact DI_refundDeposit hs h
  | call tx consumer svc providers cap timeout repeated freq total inputOk => exact DI_call hs hu h
  | mcall tx consumer svc providers cap timeout repeated freq total inputOk paused thr modName =>
    exact DI_createCtx hs hu h
  | respond provider rid code out resOk => exact DI_respond hs h
  | withdraw owner provider => exact DI_withdraw hs hu h
  | withdrawK owner provider => exact DI_keeperWithdraw hs hu h
  | pause consumer id => exact DI_keeperPause hs (stepPause_inv h)
  | start consumer id => exact DI_keeperStart hs (stepStart_inv h)
  | kill consumer id => exact DI_keeperKill hs (stepKill_inv h)
  | updateCtx consumer id providers cap timeout freq total => exact DI_keeperUpdate hs (stepUpdateCtx_inv h)
  | mpause consumer id => exact DI_keeperPause hs h
  | mstart consumer id => exact DI_keeperStart hs h
  | mkill consumer id => exact DI_keeperKill hs h
  | mupdate consumer id providers thr cap timeout freq total => exact DI_keeperUpdate hs h
  | setRate d r =>
    simp only [stepCore] at h
    cases h
    exact DI.of_core hs ⟨rfl, rfl, rfl, rfl⟩ rfl
  | next dt =>
    simp only [stepCore] at h
    cases h
    exact DI.nextBlock hs dt
  | skip n dt =>
    simp only [stepCore] at h
    cases h
    exact DI.skipBlocks dt n s hs

end Irismod.Proofs.Service
