/-
The invariant bundle `Inv` is preserved by stake / unstake / harvest.
-/
import Irismod.Proofs.FarmCacl

namespace Irismod.Proofs.Farm
open Irismod Irismod.Sdk Irismod.Farm Irismod.Spec

theorem core_setFarmer {s3 s' : State} {a : Addr} {id : PoolId} {g : Farmer} {p1 : Pool} (hc : Core s3)
    (hpools : s'.pools = s3.pools) (hq : s'.queue = s3.queue) (hh : s'.height = s3.height)
    (hf : s'.farmers = AMap.set s3.farmers (a, id) g) (hp : getPool s3 id = some p1)
    (hdebt : ∀ r ∈ p1.rules, (amountOf g.debt r.denom : Int) ≤ (r.rps.raw * (g.locked : Int)) / precision) : Core s' := by
  have gp : ∀ i, getPool s' i = getPool s3 i := fun i => by unfold getPool; rw [hpools]
  refine ⟨by rw [hh]; exact hc.hnn, poolsAll_same hc.wf hpools, ?_, ?_, ?_, ?_, ?_, ?_⟩
  · rw [hh]; exact poolsAll_same hc.time hpools
  · obtain ⟨q1, q2, q3⟩ := hc.queue
    refine ⟨?_, ?_, by rw [hq]; exact q3⟩
    · intro h i hm; rw [hq] at hm; rw [gp, hh]; exact q1 h i hm
    · intro i p hp2 hlt; rw [gp] at hp2; rw [hh] at hlt; rw [hq]; exact q2 i p hp2 hlt
  · intro i p hp2 ha; rw [gp] at hp2
    unfold C06.active at ha; rw [hq] at ha
    exact hc.budget i p hp2 ha
  · intro a2 i f p hf2 hp2
    rw [gp] at hp2
    unfold getFarmer at hf2
    rw [hf] at hf2
    by_cases e : (a, id) = (a2, i)
    · cases e
      rw [AMap.get?_set_self] at hf2; cases hf2
      rw [hp] at hp2; cases hp2
      exact hdebt
    · rw [AMap.get?_set_other _ _ _ _ e] at hf2
      exact hc.debt a2 i f p hf2 hp2
  · intro a2 i f hf2
    unfold getFarmer at hf2
    rw [hf] at hf2
    rw [gp]
    by_cases e : (a, id) = (a2, i)
    · cases e; exact ⟨p1, hp⟩
    · rw [AMap.get?_set_other _ _ _ _ e] at hf2
      exact hc.fpool a2 i f hf2
  · intro i p hp2 r hr; rw [gp] at hp2
    exact (hc.ghost i p hp2 r hr).transfer (by unfold C06.active; rw [hq]; exact fun h => h) (by rw [hh]; exact fun h => h)

theorem core_eraseFarmer {s3 s' : State} {a : Addr} {id : PoolId} (hc : Core s3)
    (hpools : s'.pools = s3.pools) (hq : s'.queue = s3.queue) (hh : s'.height = s3.height)
    (hf : s'.farmers = AMap.erase s3.farmers (a, id)) : Core s' := by
  have gp : ∀ i, getPool s' i = getPool s3 i := fun i => by unfold getPool; rw [hpools]
  refine ⟨by rw [hh]; exact hc.hnn, poolsAll_same hc.wf hpools, ?_, ?_, ?_, ?_, ?_, ?_⟩
  · rw [hh]; exact poolsAll_same hc.time hpools
  · obtain ⟨q1, q2, q3⟩ := hc.queue
    refine ⟨?_, ?_, by rw [hq]; exact q3⟩
    · intro h i hm; rw [hq] at hm; rw [gp, hh]; exact q1 h i hm
    · intro i p hp2 hlt; rw [gp] at hp2; rw [hh] at hlt; rw [hq]; exact q2 i p hp2 hlt
  · intro i p hp2 ha; rw [gp] at hp2
    unfold C06.active at ha; rw [hq] at ha
    exact hc.budget i p hp2 ha
  · intro a2 i f p hf2 hp2
    rw [gp] at hp2
    unfold getFarmer at hf2
    rw [hf] at hf2
    by_cases e : (a, id) = (a2, i)
    · cases e; rw [get?_erase_self] at hf2; cases hf2
    · rw [get?_erase_other _ _ _ e] at hf2
      exact hc.debt a2 i f p hf2 hp2
  · intro a2 i f hf2
    unfold getFarmer at hf2
    rw [hf] at hf2
    rw [gp]
    by_cases e : (a, id) = (a2, i)
    · cases e; rw [get?_erase_self] at hf2; cases hf2
    · rw [get?_erase_other _ _ _ e] at hf2
      exact hc.fpool a2 i f hf2
  · intro i p hp2 r hr; rw [gp] at hp2
    exact (hc.ghost i p hp2 r hr).transfer (by unfold C06.active; rw [hq]; exact fun h => h) (by rw [hh]; exact fun h => h)

theorem tdiv_prec_nonneg {x : Int} (h : 0 ≤ x) : x.tdiv precision = x / precision :=
  Int.tdiv_eq_ediv_of_nonneg h

theorem sumOf_single (denom d : Denom) (amt : Nat) : sumOf (nonzero [(denom, amt)]) d = if denom = d then amt else 0 := by
  rw [sumOf_nonzero]; simp [sumOf]

/-- the debt bound delivered by `CaclRewards` for the record it writes -/
theorem cacl_debt_ok {rs : List Rule} {f : Farmer} {δ : Int} {rw db : CoinList} {newLocked : Nat}
    (h : caclRewards rs f δ = some (rw, db)) (hn : (rs.map (·.denom)).Nodup) (hnn : ∀ r ∈ rs, 0 ≤ r.rps.raw)
    (hl : (newLocked : Int) = (f.locked : Int) + δ) :
    ∀ r ∈ rs, (amountOf db r.denom : Int) ≤ (r.rps.raw * (newLocked : Int)) / precision := by
  intro r hr
  obtain ⟨e, _, _⟩ := cacl_spec h hn r hr
  rw [e, ← hl, tdiv_prec_nonneg (Int.mul_nonneg (hnn r hr) (Int.natCast_nonneg _))]

theorem inv_stake {s s' : State} {sender id denom amt} (hi : Inv s) (hu : isModuleAcc sender = false)
    (h : stepStake s sender id denom amt = .ok s') : Inv s' := by
  have hst := stakes_stake hi.stakes h
  obtain ⟨p, s1, s2, p1, rewards, debt, s3, _, _, hp, hstart, _, hden, h1, hupd, hc, h3, rfl⟩ := stepStake_ok h
  obtain ⟨une1, une2, _⟩ := user_ne hu
  have b1 := (sendAll_ok h1).1
  have ok := updatePool_ok hupd
  have b3 := (payRewards_ok h3).1
  have hp1 : getPool s1 id = some p := by unfold getPool; rw [b1.pools]; exact hp
  have c1 := core_bankOnly b1 hi.core
  have c2 := core_updOk c1 hp1 ok (by intro _; rw [b1.height]; exact hstart)
  have c3 := core_bankOnly b3 c2
  have hp2 : getPool s2 id = some p1 := getPool_set_self _ _ _ _ ok.pools
  have hp3 : getPool s3 id = some p1 := by unfold getPool; rw [b3.pools]; exact hp2
  have w1 := c2.wf id p1 hp2
  refine ⟨?_, hst, ?_, ?_⟩
  · refine core_setFarmer (p1 := p1) c3 rfl rfl rfl rfl hp3 ?_
    exact cacl_debt_ok hc w1.nodup w1.rpsNN (by push_cast; rfl)
  · rw [moduleAccount_iff]
    intro d
    have g0 := (moduleAccount_iff s).mp hi.modacc d
    have g1 := gap_send_in une1 h1 d
    have g2 := gap_updOk ok hp1 d
    have g3 := gap_pay une1 une2 h3 d
    refine (gap_congr (s := s3) rfl rfl d).trans ?_
    rw [g3, g2, g1, g0, sumOf_single, hden]
    split <;> omega
  · exact cpUsers_of_cp (by show s3.cp = _; rw [b3.cp, ok.cp, b1.cp]) hi.cpu

theorem inv_harvest {s s' : State} {sender id} (hi : Inv s) (hu : isModuleAcc sender = false)
    (h : stepHarvest s sender id = .ok s') : Inv s' := by
  have hst := stakes_harvest hi.stakes h
  obtain ⟨p, f, s1, p1, rewards, debt, s2, _, hp, _, hf, hupd, hc, h2, rfl⟩ := stepHarvest_ok h
  obtain ⟨une1, une2, _⟩ := user_ne hu
  have ok := updatePool_ok hupd
  have b2 := (payRewards_ok h2).1
  have c1 := core_updOk hi.core hp ok (by intro hh; omega)
  have c2 := core_bankOnly b2 c1
  have hp1 : getPool s1 id = some p1 := getPool_set_self _ _ _ _ ok.pools
  have hp2 : getPool s2 id = some p1 := by unfold getPool; rw [b2.pools]; exact hp1
  have w1 := c1.wf id p1 hp1
  refine ⟨?_, hst, ?_, ?_⟩
  · refine core_setFarmer (p1 := p1) c2 rfl rfl rfl rfl hp2 ?_
    exact cacl_debt_ok hc w1.nodup w1.rpsNN (by simp)
  · rw [moduleAccount_iff]
    intro d
    have g0 := (moduleAccount_iff s).mp hi.modacc d
    have g1 := gap_updOk ok hp d
    have g2 := gap_pay une1 une2 h2 d
    refine (gap_congr (s := s2) rfl rfl d).trans ?_
    rw [g2, g1, g0]
    split <;> omega
  · exact cpUsers_of_cp (by show s2.cp = _; rw [b2.cp, ok.cp]) hi.cpu

/-- the pool leg of `Unstake` keeps `Core` and moves the gap by the amount -/
theorem unstakePool_core {s s1 : State} {id : PoolId} {p p1 : Pool} {amt : Nat}
    (hc : Core s) (hp : getPool s id = some p) (hle : amt ≤ p.locked)
    (h : unstakePool s id p amt = (s1, .ok p1)) :
    Core s1 ∧ getPool s1 id = some p1 ∧ s1.height = s.height ∧
    (∀ d, gap s1 d = gap s d + (if p.lpt = d then (amt : Int) else 0)) := by
  unfold unstakePool at h
  split at h
  · rename_i hexp
    simp only [Prod.mk.injEq, Except.ok.injEq] at h
    obtain ⟨e1, e2⟩ := h
    subst e1 e2
    have hw := hc.wf id p hp
    have ht := hc.time id p hp
    -- an expired pool is not active
    have hina : s.queue.contains (p.endH, id) = false := by
      unfold expired at hexp
      split at hexp
      · rename_i hgt
        cases hcn : s.queue.contains (p.endH, id) with
        | false => rfl
        | true =>
          have hm : (p.endH, id) ∈ s.queue := by simpa using hcn
          obtain ⟨p2, _, _, hl⟩ := hc.queue.1 _ _ hm
          omega
      · split at hexp
        · simpa using hexp
        · cases hexp
    have gself : getPool (setPool s id { p with locked := p.locked - amt }) id = some { p with locked := p.locked - amt } :=
      getPool_set_self _ _ _ _ rfl
    have gother : ∀ id2, id ≠ id2 → getPool (setPool s id { p with locked := p.locked - amt }) id2 = getPool s id2 :=
      fun id2 e => getPool_set_other s _ id id2 _ rfl e
    refine ⟨⟨hc.hnn, ?_, ?_, ?_, ?_, ?_, ?_, ?_⟩, gself, rfl, ?_⟩
    · exact poolsAll_set hc.wf rfl ⟨hw.rulesNe, hw.nodup, hw.rpbPos, hw.totPos, hw.rpsNN, hw.user⟩
    · refine poolsAll_set hc.time rfl ⟨ht.lastLe, ?_, ht.fresh⟩
      intro hpos
      exact ht.staked (by simp only at hpos; omega)
    · obtain ⟨q1, q2, q3⟩ := hc.queue
      refine ⟨?_, ?_, q3⟩
      · intro hh id2 hm
        obtain ⟨p2, hp2, he2, hl2⟩ := q1 hh id2 hm
        by_cases e : id = id2
        · subst e; rw [hp] at hp2; cases hp2
          exact ⟨_, gself, he2, hl2⟩
        · exact ⟨p2, by rw [gother id2 e]; exact hp2, he2, hl2⟩
      · intro id2 p2 hp2 hlt
        by_cases e : id = id2
        · subst e; rw [gself] at hp2; cases hp2
          exact q2 id p hp hlt
        · rw [gother id2 e] at hp2; exact q2 id2 p2 hp2 hlt
    · intro id2 p2 hp2 ha
      by_cases e : id = id2
      · subst e; rw [gself] at hp2; cases hp2
        have ha' : s.queue.contains (p.endH, id) = true := ha
        rw [hina] at ha'; cases ha'
      · rw [gother id2 e] at hp2; exact hc.budget id2 p2 hp2 ha
    · intro a id2 f p2 hf hp2
      by_cases e : id = id2
      · subst e; rw [gself] at hp2; cases hp2
        exact hc.debt a id f p hf hp
      · rw [gother id2 e] at hp2; exact hc.debt a id2 f p2 hf hp2
    · intro a id2 f hf
      obtain ⟨p2, hp2⟩ := hc.fpool a id2 f hf
      by_cases e : id = id2
      · subst e; exact ⟨_, gself⟩
      · exact ⟨p2, by rw [gother id2 e]; exact hp2⟩
    · intro id2 p2 hp2 r hr
      by_cases e : id = id2
      · subst e; rw [gself] at hp2; cases hp2
        exact (hc.ghost id p hp r hr).transfer (fun h => h) (fun h => h)
      · rw [gother id2 e] at hp2; exact (hc.ghost id2 p2 hp2 r hr).transfer (fun h => h) (fun h => h)
    · intro d
      have he := expected_set (s' := setPool s id { p with locked := p.locked - amt }) hp rfl d
      unfold gap
      show ((s.bank.balOf farmAcc d : Nat) : Int) - _ = _
      unfold C05.poolHolds at he
      simp only at he
      by_cases e : p.lpt = d
      · subst e; simp only [if_true] at he ⊢; omega
      · simp only [e, if_false] at he ⊢; omega
  · have ok := updatePool_ok h
    refine ⟨core_updOk hc hp ok (by intro hh; omega), getPool_set_self _ _ _ _ ok.pools, ok.height, ?_⟩
    intro d
    rw [gap_updOk ok hp d]
    split <;> omega

theorem unstakePool_cp {s s1 : State} {id : PoolId} {p p1 : Pool} {amt : Nat}
    (h : unstakePool s id p amt = (s1, .ok p1)) : s1.cp = s.cp := by
  unfold unstakePool at h
  split at h
  · simp only [Prod.mk.injEq, Except.ok.injEq] at h
    rw [← h.1]; rfl
  · exact (updatePool_ok h).cp

theorem inv_unstake {s s' : State} {sender id denom amt} (hi : Inv s) (hu : isModuleAcc sender = false)
    (h : stepUnstake s sender id denom amt = .ok s') : Inv s' := by
  have hst := stakes_unstake hi.stakes h
  obtain ⟨p, f, s1, p1, s2, rewards, debt, s3, _, _, hp, hden, hf0, hamt, hamt2, hbr, h2, hc, h3, rfl⟩ := stepUnstake_ok h
  obtain ⟨une1, une2, _⟩ := user_ne hu
  obtain ⟨c1, hp1, _, hg1⟩ := unstakePool_core hi.core hp hamt2 hbr
  have b2 := (sendAll_ok h2).1
  have b3 := (payRewards_ok h3).1
  have c3 := core_bankOnly b3 (core_bankOnly b2 c1)
  have hp3 : getPool s3 id = some p1 := by unfold getPool; rw [b3.pools, b2.pools]; exact hp1
  have w1 := c1.wf id p1 hp1
  refine ⟨?_, hst, ?_, ?_⟩
  · by_cases hz : f.locked - amt = 0
    · simp only [hz, if_true]
      exact core_eraseFarmer c3 rfl rfl rfl rfl
    · simp only [hz, if_false]
      refine core_setFarmer (p1 := p1) c3 rfl rfl rfl rfl hp3 ?_
      exact cacl_debt_ok hc w1.nodup w1.rpsNN (by simp only; omega)
  · rw [moduleAccount_iff]
    intro d
    have g0 := (moduleAccount_iff s).mp hi.modacc d
    have g2 := gap_send_out une1 h2 d
    have g3 := gap_pay une1 une2 h3 d
    refine (gap_congr (s := s3) rfl rfl d).trans ?_
    rw [g3, g2, hg1 d, g0, sumOf_single, hden]
    split <;> omega
  · have hcp : s3.cp = s.cp := by rw [b3.cp, b2.cp]; exact unstakePool_cp hbr
    by_cases hz : f.locked - amt = 0
    · simp only [hz, if_true]; exact cpUsers_of_cp (s := s) hcp hi.cpu
    · simp only [hz, if_false]; exact cpUsers_of_cp (s := s) hcp hi.cpu

end Irismod.Proofs.Farm
