/-
C08 / C13 (service slice), after the repair of the new-batch handler (/repo f0f40e8) and of
`StartRequestContext` (/repo 1a7f3af): a due new-batch entry is always consumed by its handler, the new-batch
phase leaves no entry of the current height, and a context is queued for a new batch only while it is below
its total.
-/
import Irismod.Proofs.ServiceOutcome

namespace Irismod.Proofs.Service
open Irismod Irismod.Sdk Irismod.Service

theorem mkRequests_queues (id : CtxId) (b : Nat) (svc : String) (cons : Addr) (to : Int) :
    ∀ (ps : List Addr) (i : Nat) (s : State),
      (mkRequests s id b svc cons to ps i).newQ = s.newQ ∧ (mkRequests s id b svc cons to ps i).newH = s.newH ∧
      (mkRequests s id b svc cons to ps i).expQ = s.expQ ∧ (mkRequests s id b svc cons to ps i).ctxs = s.ctxs
  | [], _, _ => ⟨rfl, rfl, rfl, rfl⟩
  | p :: rest, i, s => by
    simp only [mkRequests]
    have := mkRequests_queues id b svc cons to rest (i + 1)
      (addRequest s (reqIdOf id b s.height i) (mkReq s id b svc cons to p))
    exact ⟨this.1, this.2.1, this.2.2.1, this.2.2.2⟩

theorem onPaused_queues (t : State) (id : CtxId) (c : Ctx) (cause : String) :
    (onPaused t id c cause).newQ = t.newQ ∧ (onPaused t id c cause).newH = t.newH ∧ (onPaused t id c cause).expQ = t.expQ := by
  unfold onPaused; split <;> exact ⟨rfl, rfl, rfl⟩

/-- the new-batch handler always consumes its queue entry and never adds one -/
theorem newBatch_newQ (s : State) (id : CtxId) :
    (newBatch s id).newQ = s.newQ.filter (fun y => decide (y ≠ (s.height, id))) := by
  unfold newBatch
  split
  · split
    · simp only [delNew]; rw [(onPaused_queues _ _ _ _).1]
    · split
      · unfold chargeAndStart
        split
        · simp only [delNew, addExp, initiateRequests, setCtx]
          rw [(mkRequests_queues _ _ _ _ _ _ _ _).1]
        · simp only [delNew]; rw [(onPaused_queues _ _ _ _).1]
      · rfl
  · rfl

/-- **every due new-batch entry is processed**: after the handler ran for `id` no entry of the current height
is left for it -/
theorem due_entry_processed (s : State) (id : CtxId) : (s.height, id) ∉ (newBatch s id).newQ := by
  rw [newBatch_newQ, List.mem_filter]
  simp

theorem foldl_newBatch_newQ : ∀ (l : List CtxId) (s : State) (e : Int × CtxId),
    e ∈ (l.foldl newBatch s).newQ → e ∈ s.newQ ∧ ∀ id, id ∈ l → e ≠ (s.height, id)
  | [], _, _, h => ⟨h, fun _ hm => by cases hm⟩
  | id :: rest, s, e, h => by
    simp only [List.foldl] at h
    obtain ⟨h1, h2⟩ := foldl_newBatch_newQ rest (newBatch s id) e h
    rw [newBatch_newQ, List.mem_filter] at h1
    rw [newBatch_height] at h2
    refine ⟨h1.1, ?_⟩
    intro id' hm
    rcases List.mem_cons.mp hm with hm | hm
    · subst hm; simpa using h1.2
    · exact h2 id' hm

/-- the new-batch phase leaves no entry of the current height behind, and adds none -/
theorem newPhase_newQ (s : State) (e : Int × CtxId) (h : e ∈ (newPhase s).newQ) : e ∈ s.newQ ∧ e.1 ≠ s.height := by
  unfold newPhase at h
  obtain ⟨h1, h2⟩ := foldl_newBatch_newQ _ s e h
  refine ⟨h1, ?_⟩
  intro he
  apply h2 e.2 ((mem_dueIds _ _ _).mpr (by rw [← he]; exact h1))
  rw [← he]

end Irismod.Proofs.Service

namespace Irismod.Proofs.Service
open Irismod Irismod.Sdk Irismod.Service

/-! ### a context waits for a new batch only while below its total -/

/-- every context in the new-batch queue that is repeated with a positive total has issued fewer batches than that -/
def BelowTotal (s : State) : Prop :=
  ∀ id c, AMap.contains s.newH id = true → AMap.get? s.ctxs id = some c → c.repeated = true → 1 ≤ c.total →
    (c.batchCounter : Int) < c.total

/-- the schedule-relevant settings of a context -/
def ctxSched (c : Ctx) : Bool × Int × Nat := (c.repeated, c.total, c.batchCounter)

theorem BelowTotal.of_same {s s' : State} (h : BelowTotal s) (e1 : s'.newH = s.newH) (e2 : s'.ctxs = s.ctxs) : BelowTotal s' := by
  intro id c hn hg; rw [e1] at hn; rw [e2] at hg; exact h id c hn hg

theorem BelowTotal.setCtx_same {s : State} (h : BelowTotal s) {id : CtxId} {c0 c : Ctx} (hg : AMap.get? s.ctxs id = some c0)
    (hc : ctxSched c = ctxSched c0) : BelowTotal (setCtx s id c) := by
  simp only [ctxSched, Prod.mk.injEq] at hc
  intro id' c' hn hg' hr ht
  simp only [setCtx] at hg' hn
  by_cases hi : id = id'
  · subst hi
    rw [AMap.get?_set_self] at hg'; cases hg'
    have := h id c0 hn hg (by rw [← hc.1]; exact hr) (by rw [← hc.2.1]; exact ht)
    rw [hc.2.1, hc.2.2]; exact this
  · rw [AMap.get?_set_other _ _ _ _ hi] at hg'
    exact h id' c' hn hg' hr ht

/-- storing any context under `id` and (re)queueing it, provided the stored context is below its total -/
theorem BelowTotal.setCtx_ok {s : State} (h : BelowTotal s) (id : CtxId) (c : Ctx)
    (hc : c.repeated = true → 1 ≤ c.total → (c.batchCounter : Int) < c.total) : BelowTotal (setCtx s id c) := by
  intro id' c' hn hg' hr ht
  simp only [setCtx] at hg' hn
  by_cases hi : id = id'
  · subst hi
    rw [AMap.get?_set_self] at hg'; cases hg'
    exact hc hr ht
  · rw [AMap.get?_set_other _ _ _ _ hi] at hg'
    exact h id' c' hn hg' hr ht

theorem BelowTotal.addNew {s : State} (h : BelowTotal s) (id : CtxId) (ht : Int)
    (hc : ∀ c, AMap.get? s.ctxs id = some c → c.repeated = true → 1 ≤ c.total → (c.batchCounter : Int) < c.total) :
    BelowTotal (Irismod.Service.addNew s id ht) := by
  intro id' c' hn hg' hr htt
  simp only [Irismod.Service.addNew] at hn hg'
  by_cases hi : id = id'
  · subst hi; exact hc c' hg' hr htt
  · refine h id' c' ?_ hg' hr htt
    rw [contains_iff] at hn ⊢
    rw [AMap.get?_set_other _ _ _ _ hi] at hn; exact hn

theorem BelowTotal.delNew {s : State} (h : BelowTotal s) (id : CtxId) (ht : Int) :
    BelowTotal (Irismod.Service.delNew s id ht) := by
  intro id' c' hn hg' hr htt
  simp only [Irismod.Service.delNew] at hn hg'
  refine h id' c' ?_ hg' hr htt
  rw [contains_iff] at hn ⊢
  obtain ⟨v, hv⟩ := hn
  exact ⟨v, get?_erase_some hv⟩

/-- dropping the entry of `id` after changing only `id`'s context -/
theorem BelowTotal.delNew_changed {s t : State} (h : BelowTotal s) (id : CtxId) (ht : Int) (e1 : t.newH = s.newH)
    (e2 : ∀ id', id' ≠ id → AMap.get? t.ctxs id' = AMap.get? s.ctxs id') : BelowTotal (Irismod.Service.delNew t id ht) := by
  intro id' c' hn hg' hr htt
  simp only [Irismod.Service.delNew] at hn hg'
  by_cases hi : id = id'
  · subst hi
    rw [contains_iff, get?_erase_self] at hn
    obtain ⟨_, hv⟩ := hn; cases hv
  · rw [e2 id' (Ne.symm hi)] at hg'
    refine h id' c' ?_ hg' hr htt
    rw [contains_iff] at hn ⊢
    rw [get?_erase_other _ _ _ hi, e1] at hn; exact hn

theorem get?_setCtx_other (t : State) (id id' : CtxId) (c : Ctx) (h : id' ≠ id) :
    AMap.get? (setCtx t id c).ctxs id' = AMap.get? t.ctxs id' := by
  simp only [setCtx]; exact AMap.get?_set_other _ _ _ _ (Ne.symm h)

theorem BelowTotal_newBatch {s : State} (h : BelowTotal s) (id : CtxId) : BelowTotal (newBatch s id) := by
  have hop : ∀ (c : Ctx) (cause : String), (onPaused s id c cause).newH = s.newH ∧
      ∀ id', id' ≠ id → AMap.get? (onPaused s id c cause).ctxs id' = AMap.get? s.ctxs id' := by
    intro c cause
    unfold onPaused
    split
    · exact ⟨rfl, fun id' hi => by simp only [setCtx]; exact AMap.get?_set_other _ _ _ _ (Ne.symm hi)⟩
    · exact ⟨rfl, fun id' hi => get?_setCtx_other _ _ _ _ hi⟩
  unfold newBatch
  split
  · split
    · exact h.delNew_changed id _ (hop _ _).1 (hop _ _).2
    · split
      · unfold chargeAndStart
        split
        · refine h.delNew_changed id _ ?_ ?_
          · simp only [addExp, initiateRequests, setCtx]
            exact (mkRequests_queues _ _ _ _ _ _ _ _).2.1
          · intro id' hi
            simp only [addExp, initiateRequests, setCtx]
            rw [AMap.get?_set_other _ _ _ _ (Ne.symm hi), (mkRequests_queues _ _ _ _ _ _ _ _).2.2.2]
        · exact h.delNew_changed id _ (hop _ _).1 (hop _ _).2
      · refine h.delNew_changed id _ rfl ?_
        intro id' hi
        simp only [skipBatch, addExp, setCtx]
        exact AMap.get?_set_other _ _ _ _ (Ne.symm hi)
  · exact h.delNew id _

theorem expirePhase_ctx (s : State) (id : CtxId) :
    ctxSched (expirePhase s id).2 = ctxSched (getCtx s id) ∧ (expirePhase s id).1.newH = s.newH ∧
    (expirePhase s id).1.ctxs = s.ctxs := by
  unfold expirePhase
  split
  · obtain ⟨⟨_, q2, _, _, _, q6, _⟩, _⟩ := foldl_expireReq_sched (activeOf s id (getCtx s id).batchCounter) s
    unfold completeBatch callback
    split <;> exact ⟨rfl, q2, q6⟩
  · exact ⟨rfl, rfl, rfl⟩

theorem BelowTotal_expireCtx {s : State} (h : BelowTotal s) (id : CtxId) : BelowTotal (expireCtx s id) := by
  obtain ⟨hc, e1, e2⟩ := expirePhase_ctx s id
  simp only [ctxSched, Prod.mk.injEq] at hc
  -- after storing the completed context
  have hstored : BelowTotal (setCtx (delExp (expirePhase s id).1 id (expirePhase s id).1.height) id (expirePhase s id).2) := by
    intro id' c' hn hg' hr ht
    simp only [setCtx, delExp] at hn hg'
    rw [e1] at hn
    by_cases hi : id = id'
    · subst hi
      rw [AMap.get?_set_self] at hg'; cases hg'
      rw [hc.1] at hr; rw [hc.2.1] at ht
      rw [hc.2.1, hc.2.2]
      cases hg : AMap.get? s.ctxs id with
      | none => simp [getCtx, hg] at hr
      | some c0 =>
        simp only [getCtx, hg, Option.getD] at hr ht ⊢
        exact h id c0 hn hg hr ht
    · rw [AMap.get?_set_other _ _ _ _ hi, e2] at hg'
      exact h id' c' hn hg' hr ht
  unfold expireCtx finishExpire
  have hfin : BelowTotal (settleCtx (setCtx (delExp (expirePhase s id).1 id (expirePhase s id).1.height) id (expirePhase s id).2) id
      (expirePhase s id).2) := by
    unfold settleCtx
    split
    · intro id' c' hn hg' hr ht
      simp only [eraseCtx] at hn hg'
      exact hstored id' c' hn (get?_erase_some hg') hr ht
    · split
      · split
        · rename_i hcond
          refine hstored.addNew id _ ?_
          intro c hg hr ht
          simp only [setCtx] at hg
          rw [AMap.get?_set_self] at hg; cases hg
          rcases hcond.2 with hneg | hlt
          · omega
          · exact hlt
        · intro id' c' hn hg' hr ht
          simp only [eraseCtx] at hn hg'
          exact hstored id' c' hn (get?_erase_some hg') hr ht
      · exact hstored
  exact hfin.of_same rfl rfl

theorem BelowTotal_endBlock {s : State} (h : BelowTotal s) : BelowTotal (endBlock s) := by
  unfold endBlock newPhase expiredPhase
  have f1 : ∀ (l : List CtxId) (t : State), BelowTotal t → BelowTotal (l.foldl expireCtx t) := by
    intro l
    induction l with
    | nil => intro t ht; exact ht
    | cons id rest ih => intro t ht; exact ih _ (BelowTotal_expireCtx ht id)
  have f2 : ∀ (l : List CtxId) (t : State), BelowTotal t → BelowTotal (l.foldl newBatch t) := by
    intro l
    induction l with
    | nil => intro t ht; exact ht
    | cons id rest ih => intro t ht; exact ih _ (BelowTotal_newBatch ht id)
  exact f2 _ _ (f1 _ _ h)

theorem BelowTotal_nextBlock {s : State} (h : BelowTotal s) (dt : Int) : BelowTotal (nextBlock s dt) := by
  unfold nextBlock beginNext
  exact (BelowTotal_endBlock h).of_same rfl rfl

theorem BelowTotal_skipBlocks (dt : Int) : ∀ (n : Nat) (s : State), BelowTotal s → BelowTotal (skipBlocks s dt n)
  | 0, _, h => h
  | n + 1, s, h => BelowTotal_skipBlocks dt n (nextBlock s dt) (BelowTotal_nextBlock h dt)

/-- the settings of a context are not modified by the operation -/
def opUnmodified : Op → Prop
  | .updateCtx .. => False
  | .mupdate .. => False
  | _ => True

theorem BelowTotal_createCtx {s s' : State} {newId svc providers consumer inputOk cap timeout repeated freq total st thr moduleName}
    (hs : BelowTotal s)
    (h : createCtx s newId svc providers consumer inputOk cap timeout repeated freq total st thr moduleName = .ok s') :
    BelowTotal s' := by
  unfold createCtx at h
  split at h
  · cases h
  split at h
  · cases h
  split at h
  · cases h
  split at h
  · cases h
  split at h
  · cases h
  rename_i c _ _
  cases h
  have hnew : ∀ cx : Ctx, cx = newCtx svc providers consumer c timeout repeated freq total st thr moduleName →
      cx.repeated = true → 1 ≤ cx.total → (cx.batchCounter : Int) < cx.total := by
    intro cx e hr ht
    subst e
    simp only [newCtx] at hr ht ⊢
    omega
  have h1 := hs.setCtx_ok newId _ (hnew _ rfl)
  unfold createState
  split
  · refine BelowTotal.addNew (h1.of_same rfl rfl) newId s.height ?_
    intro cx hg
    simp only [setCtx] at hg
    rw [AMap.get?_set_self] at hg; cases hg
    exact hnew _ rfl
  · exact h1.of_same rfl rfl

theorem BelowTotal_keeperStart {s s' : State} {id consumer} (hs : BelowTotal s) (h : keeperStart s id consumer = .ok s') :
    BelowTotal s' := by
  unfold keeperStart at h
  split at h
  · cases h
  rename_i rc hg
  split at h
  · cases h
  split at h
  · cases h
  split at h
  · cases h
  rename_i htot
  cases h
  have h1 : BelowTotal (setCtx s id { rc with state := .running }) := hs.setCtx_same hg rfl
  split
  · refine h1.addNew id s.height ?_
    intro cx hgx hr ht
    simp only [setCtx] at hgx
    rw [AMap.get?_set_self] at hgx; cases hgx
    simp only at hr ht ⊢
    by_cases hlt : (rc.batchCounter : Int) < rc.total
    · exact hlt
    · exact absurd ⟨hr, by omega, by omega⟩ htot
  · exact h1

theorem BelowTotal_keeperPause {s s' : State} {id consumer} (hs : BelowTotal s) (h : keeperPause s id consumer = .ok s') :
    BelowTotal s' := by
  unfold keeperPause at h
  split at h
  · cases h
  rename_i rc hg
  split at h
  · cases h
  split at h
  · cases h
  split at h
  · cases h
  cases h
  exact hs.setCtx_same hg rfl

theorem BelowTotal_keeperKill {s s' : State} {id consumer} (hs : BelowTotal s) (h : keeperKill s id consumer = .ok s') :
    BelowTotal s' := by
  unfold keeperKill at h
  split at h
  · cases h
  rename_i rc hg
  split at h
  · cases h
  split at h
  · cases h
  cases h
  exact hs.setCtx_same hg rfl

theorem BelowTotal_keeperRespond {s s' : State} {provider rid hasOut} (hs : BelowTotal s)
    (h : keeperRespond s provider rid hasOut = .ok s') : BelowTotal s' := by
  unfold keeperRespond at h
  split at h
  · cases h
  rename_i rq rc hgr
  split at h
  · cases h
  split at h
  · cases h
  split at h
  · cases h
  rename_i s1 hfee
  cases h
  obtain ⟨_, hc⟩ := getRequest_some hgr
  obtain ⟨⟨_, f2, _, _, _, _, f7⟩, _⟩ := addEarnedFee_sched hfee
  obtain ⟨_, g2, _, _, _, _, g7⟩ := countResponse_fields (recordResponse s1 rid provider rq rc hasOut) rq.ctx
  have hget : getCtx (recordResponse s1 rid provider rq rc hasOut) rq.ctx = rc := by
    apply getCtx_of_get?
    simp only [recordResponse]
    rw [f7]; exact hc
  rw [hget] at g7
  have hbase : BelowTotal (recordResponse s1 rid provider rq rc hasOut) := hs.of_same (by simp only [recordResponse]; exact f2)
    (by simp only [recordResponse]; exact f7)
  have hcg : AMap.get? (recordResponse s1 rid provider rq rc hasOut).ctxs rq.ctx = some rc := by
    simp only [recordResponse]; rw [f7]; exact hc
  have := hbase.setCtx_same (c := if rc.batchRespCount + 1 = rc.batchReqCount
       then { countedCtx rc with batchState := .completed } else countedCtx rc) hcg (by split <;> rfl)
  exact this.of_same g2 (by simp only [setCtx]; exact g7)

/-- every operation other than a settings update keeps the invariant -/
theorem BelowTotal_stepCore {s s' : State} {op : Op} (hs : BelowTotal s) (hu : opUnmodified op)
    (h : stepCore s op = .ok s') : BelowTotal s' := by
  cases op with
  | define sender name schOk =>
    simp only [stepCore, stepDefine] at h
    split at h
    · cases h
    split at h
    · cases h
    split at h
    · cases h
    split at h
    · cases h
    cases h; exact hs.of_same rfl rfl
  | bind owner provider svc dep qos pin optsOk =>
    simp only [stepCore, stepBind] at h
    split at h
    · cases h
    split at h
    · cases h
    obtain ⟨d, pr, bank, _, _, _, rfl⟩ := keeperBind_inv h
    exact hs.of_same rfl rfl
  | updateBinding owner provider svc dep qos pin opts =>
    simp only [stepCore, stepUpdateBinding] at h
    split at h
    · cases h
    obtain ⟨b, d, pr, bank, _, _, _, _, rfl⟩ := keeperUpdateBinding_inv h
    exact hs.of_same rfl rfl
  | setWithdraw owner addr =>
    simp only [stepCore, stepSetWithdraw] at h
    split at h
    · cases h
    split at h
    · cases h
    cases h; exact hs.of_same rfl rfl
  | enable owner provider svc dep =>
    simp only [stepCore, stepEnable] at h
    split at h
    · cases h
    unfold keeperEnable at h
    split at h
    · cases h
    split at h
    · cases h
    split at h
    · cases h
    split at h
    · cases h
    split at h
    · cases h
    split at h
    · cases h
    cases h; exact hs.of_same rfl rfl
  | disable owner provider svc =>
    simp only [stepCore, stepDisable] at h
    split at h
    · cases h
    split at h
    · cases h
    split at h
    · cases h
    split at h
    · cases h
    cases h; exact hs.of_same rfl rfl
  | refundDeposit owner provider svc =>
    simp only [stepCore, stepRefundDeposit] at h
    split at h
    · cases h
    unfold keeperRefundDeposit at h
    split at h
    · cases h
    split at h
    · cases h
    split at h
    · cases h
    split at h
    · cases h
    split at h
    · cases h
    split at h
    · cases h
    cases h; exact hs.of_same rfl rfl
  | call tx consumer svc providers cap timeout repeated freq total inputOk =>
    simp only [stepCore, stepCall] at h
    split at h
    · cases h
    split at h
    · cases h
    split at h
    · cases h
    exact BelowTotal_createCtx hs h
  | mcall tx consumer svc providers cap timeout repeated freq total inputOk paused thr modName => exact BelowTotal_createCtx hs h
  | respond provider rid code out resOk =>
    simp only [stepCore, stepRespond] at h
    split at h
    · cases h
    split at h
    · cases h
    exact BelowTotal_keeperRespond hs h
  | withdraw owner provider =>
    simp only [stepCore, stepWithdraw] at h
    split at h
    · cases h
    split at h
    · cases h
    have := keeperWithdraw_sched h
    exact hs.of_same this.2.1 this.2.2.2.2.2.2
  | withdrawK owner provider =>
    have := keeperWithdraw_sched h
    exact hs.of_same this.2.1 this.2.2.2.2.2.2
  | pause consumer id => exact BelowTotal_keeperPause hs (stepPause_inv h)
  | start consumer id => exact BelowTotal_keeperStart hs (stepStart_inv h)
  | kill consumer id => exact BelowTotal_keeperKill hs (stepKill_inv h)
  | updateCtx consumer id providers cap timeout freq total => exact absurd hu (by simp [opUnmodified])
  | mpause consumer id => exact BelowTotal_keeperPause hs h
  | mstart consumer id => exact BelowTotal_keeperStart hs h
  | mkill consumer id => exact BelowTotal_keeperKill hs h
  | mupdate consumer id providers thr cap timeout freq total => exact absurd hu (by simp [opUnmodified])
  | setRate d r =>
    simp only [stepCore] at h
    cases h; exact hs.of_same rfl rfl
  | next dt =>
    simp only [stepCore] at h
    cases h; exact BelowTotal_nextBlock hs dt
  | skip n dt =>
    simp only [stepCore] at h
    cases h; exact BelowTotal_skipBlocks dt n s hs

theorem getCtx_bank (s : State) (b : Bank) (id : CtxId) : getCtx { s with bank := b } id = getCtx s id := rfl

/-- **no batch beyond the total**: on an invariant state the new-batch handler never takes a repeated context
with a positive total beyond that total -/
theorem newBatch_within_total {s : State} (h : BelowTotal s) (id : CtxId) (hq : AMap.contains s.newH id = true)
    (c : Ctx) (hg : AMap.get? s.ctxs id = some c) (hr : c.repeated = true) (ht : 1 ≤ c.total) :
    ((getCtx (newBatch s id) id).batchCounter : Int) ≤ c.total := by
  have hlt := h id c hq hg hr ht
  have hgc := getCtx_of_get? hg
  have hbc : (getCtx (newBatch s id) id).batchCounter ≤ c.batchCounter + 1 := by
    have hop : ∀ (cause : String), (getCtx (delNew (onPaused s id c cause) id s.height) id).batchCounter = c.batchCounter := by
      intro cause
      unfold getCtx onPaused
      split <;> (simp only [delNew, setCtx]; rw [AMap.get?_set_self]; rfl)
    unfold newBatch
    rw [hgc]
    split
    · split
      · rw [hop]; omega
      · split
        · unfold chargeAndStart
          split
          · unfold getCtx
            simp only [delNew, addExp, initiateRequests, setCtx]
            rw [AMap.get?_set_self]
            simp only [Option.getD, startedCtx, getCtx_bank, hgc]
            omega
          · rw [hop]; omega
        · unfold getCtx
          simp only [delNew, addExp, skipBatch, setCtx]
          rw [AMap.get?_set_self]
          simp [startedCtx]
    · unfold getCtx
      simp only [delNew]
      rw [hg]; simp
  omega

end Irismod.Proofs.Service
