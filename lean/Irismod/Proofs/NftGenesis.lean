/-
Helper lemmas for C12/NFT: `WF` is inductive; iterators over duplicate-free tombstone tables;
counts depend only on what `get` answers; `InitGenesis` of a duplicate-free document writes exactly
the document; the export of a well-formed store validates and re-imports to an equal store.
-/
import Irismod.Spec.C12_Nft
import Irismod.Proofs.Nft
import Irismod.Proofs.GenesisList

namespace Irismod.Proofs.NftGenesis
open Irismod Irismod.Nft Irismod.NftGenesis Irismod.Spec.C12.Nft Irismod.Spec.C14
open Irismod.Proofs.Nft Irismod.Proofs.GenesisList
open Irismod.MtGenesis (sortDedup tail)

/-! ### what ValidateBasic guarantees about stored values -/

theorem issueVB_ok {sender id dok} (h : issueVB sender id dok = true) :
    validDenomId id = true ∧ validAddr sender = true := by
  simp only [issueVB, Bool.and_eq_true] at h
  exact ⟨h.1.1.1, h.1.1.2⟩

theorem mintVB_ok {sender rcpt c t uri dok} (h : mintVB sender rcpt c t uri dok = true) :
    validAddr rcpt = true ∧ validUri uri = true ∧ validTokenId t = true := by
  simp only [mintVB, Bool.and_eq_true] at h
  obtain ⟨⟨⟨⟨⟨⟨_, h2⟩, _⟩, _⟩, h5⟩, _⟩, h7⟩ := h
  exact ⟨h2, h5, h7⟩

theorem editVB_ok {sender c t uri dok} (h : editVB sender c t uri dok = true) : validUri uri = true := by
  simp only [editVB, Bool.and_eq_true] at h
  exact h.1.1.2

theorem transferVB_ok {sender rcpt c t uri dok} (h : transferVB sender rcpt c t uri dok = true) :
    validAddr rcpt = true ∧ validUri uri = true := by
  simp only [transferVB, Bool.and_eq_true] at h
  obtain ⟨⟨⟨⟨⟨_, _⟩, h3⟩, h4⟩, _⟩, _⟩ := h
  exact ⟨h3, h4⟩

theorem transferDenomVB_ok {sender rcpt c} (h : transferDenomVB sender rcpt c = true) : validAddr rcpt = true := by
  simp only [transferDenomVB, Bool.and_eq_true] at h
  exact h.1.2

theorem validUri_modify {old new : String} (h1 : validUri old = true) (h2 : validUri new = true) :
    validUri (Nft.modify old new) = true := by
  unfold Nft.modify; split <;> assumption

/-! ### `WF` is inductive -/

theorem wf_init : WF ({} : State) := by
  refine ⟨by simp [AMap.keys], by simp [AMap.keys], by simp [AMap.keys], ?_, ?_, ?_⟩
  · intro c cl h; simp [AMap.get?] at h
  · intro c t r h; simp [tokenOf, Tbl.get, AMap.get?] at h
  · intro c t a h; simp [ownerOf, Tbl.get, AMap.get?] at h

theorem tok_ok_put {s : State} (hw : WF s) {c t} {r : TokenRec} (h1 : validTokenId t = true)
    (h2 : validUri r.uri = true) (c' : ClassId) (t' : TokenId) (r' : TokenRec)
    (h : Tbl.get (Tbl.put s.tokens (c, t) r) (c', t') = some r') :
    validTokenId t' = true ∧ validUri r'.uri = true := by
  rw [get_put] at h
  by_cases hk : (c, t) = (c', t')
  · cases hk; simp only [if_true, Option.some.injEq] at h; subst h; exact ⟨h1, h2⟩
  · simp only [hk, if_false] at h; exact hw.tok_ok c' t' r' h

theorem own_ok_put {m : Tbl (ClassId × TokenId) Addr} {c t a}
    (hm : ∀ c' t' a', Tbl.get m (c', t') = some a' → validAddr a' = true) (ha : validAddr a = true)
    (c' : ClassId) (t' : TokenId) (a' : Addr) (h : Tbl.get (Tbl.put m (c, t) a) (c', t') = some a') :
    validAddr a' = true := by
  rw [get_put] at h
  by_cases hk : (c, t) = (c', t')
  · cases hk; simp only [if_true, Option.some.injEq] at h; subst h; exact ha
  · simp only [hk, if_false] at h; exact hm c' t' a' h

theorem ok_del {V : Type} {P : ClassId → TokenId → V → Prop} {m : Tbl (ClassId × TokenId) V} {k}
    (hm : ∀ c' t' v, Tbl.get m (c', t') = some v → P c' t' v)
    (c' : ClassId) (t' : TokenId) (v : V) (h : Tbl.get (Tbl.del m k) (c', t') = some v) : P c' t' v := by
  rw [get_del] at h
  by_cases hk : k = (c', t')
  · simp [hk] at h
  · simp only [hk, if_false] at h; exact hm c' t' v h

theorem wf_step (s s' : State) (op : Op) (hw : WF s) (h : step s op = .ok s') : WF s' := by
  cases op with
  | issue sender id mr ur name symbol schema desc uri uriHash data =>
    obtain ⟨hvb, _, rfl⟩ := stepIssue_ok h
    obtain ⟨h1, h2⟩ := issueVB_ok hvb
    refine ⟨nodupKeys_set hw.nd_classes _ _, hw.nd_tokens, hw.nd_idx, ?_, hw.tok_ok, hw.own_ok⟩
    intro c cl hcl
    by_cases hk : id = c
    · subst hk
      simp only [AMap.get?_set_self, Option.some.injEq] at hcl
      subst hcl; exact ⟨h1, h2⟩
    · simp only [AMap.get?_set_other _ _ _ _ hk] at hcl
      exact hw.class_ok c cl hcl
  | mint sender rcpt c t name uri uriHash data =>
    obtain ⟨hvb, _, _, _, hm⟩ := stepMint_ok h
    obtain ⟨_, _, rfl⟩ := nkMint_ok hm
    obtain ⟨h1, h2, h3⟩ := mintVB_ok hvb
    exact ⟨hw.nd_classes, nodupKeys_set hw.nd_tokens _ _, nodupKeys_set hw.nd_idx _ _, hw.class_ok,
      tok_ok_put hw h3 h2, own_ok_put hw.own_ok h1⟩
  | edit sender c t name uri uriHash data =>
    obtain ⟨hvb, _, _, _, _, hr⟩ := stepEdit_ok h
    rcases hr with rfl | ⟨r, hr, rfl⟩
    · exact hw
    · have ho := hw.tok_ok c t r hr
      exact ⟨hw.nd_classes, nodupKeys_set hw.nd_tokens _ _, hw.nd_idx, hw.class_ok,
        tok_ok_put hw ho.1 (validUri_modify ho.2 (editVB_ok hvb)), hw.own_ok⟩
  | transfer sender rcpt c t name uri uriHash data =>
    obtain ⟨hvb, r, _, hr, _, _, _, tk, htk, rfl⟩ := stepTransfer_ok h
    obtain ⟨h1, h2⟩ := transferVB_ok hvb
    have ho := hw.tok_ok c t r hr
    have hown : ∀ c' t' a', Tbl.get (Tbl.put (Tbl.del s.owners (c, t)) (c, t) rcpt) (c', t') = some a' →
        validAddr a' = true :=
      own_ok_put (ok_del (P := fun _ _ a => validAddr a = true) hw.own_ok) h1
    rcases htk with rfl | ⟨_, rfl⟩
    · exact ⟨hw.nd_classes, hw.nd_tokens, nodupKeys_set (nodupKeys_set hw.nd_idx _ _) _ _, hw.class_ok,
        hw.tok_ok, hown⟩
    · exact ⟨hw.nd_classes, nodupKeys_set hw.nd_tokens _ _, nodupKeys_set (nodupKeys_set hw.nd_idx _ _) _ _,
        hw.class_ok, tok_ok_put hw ho.1 (validUri_modify ho.2 h2), hown⟩
  | burn sender c t =>
    obtain ⟨_, _, _, rfl⟩ := stepBurn_ok h
    exact ⟨hw.nd_classes, nodupKeys_set hw.nd_tokens _ _, nodupKeys_set hw.nd_idx _ _, hw.class_ok,
      ok_del (P := fun _ t (r : TokenRec) => validTokenId t = true ∧ validUri r.uri = true) hw.tok_ok,
      ok_del (P := fun _ _ a => validAddr a = true) hw.own_ok⟩
  | transferDenom sender rcpt c =>
    obtain ⟨hvb, cl, hcl, _, rfl⟩ := stepTransferDenom_ok h
    have h1 := transferDenomVB_ok hvb
    refine ⟨nodupKeys_set hw.nd_classes _ _, hw.nd_tokens, hw.nd_idx, ?_, hw.tok_ok, hw.own_ok⟩
    intro c' cl' hcl'
    by_cases hk : c = c'
    · subst hk
      simp only [AMap.get?_set_self, Option.some.injEq] at hcl'
      subst hcl'; exact ⟨(hw.class_ok c cl hcl).1, h1⟩
    · simp only [AMap.get?_set_other _ _ _ _ hk] at hcl'
      exact hw.class_ok c' cl' hcl'

theorem wf_apply (s : State) (op : Op) (hw : WF s) : WF (apply s op) := by
  unfold apply
  cases h : step s op with
  | ok s' => exact wf_step s s' op hw h
  | error e => exact hw

theorem wf_run (s : State) (ops : List Op) (hw : WF s) : WF (run s ops) := by
  induction ops generalizing s with
  | nil => exact hw
  | cons op rest ih => exact ih (apply s op) (wf_apply s op hw)

end Irismod.Proofs.NftGenesis
